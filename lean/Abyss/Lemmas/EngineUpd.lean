import Abyss.Lemmas.EngineRead
import Abyss.Lemmas.EngineUpdAux4
/-! # generated engine vs model: put / del (see `EngineDefs.lean`) -/
set_option linter.unusedVariables false
namespace Abyss
open Store FileM
open EU

/-! ## the updates -/

theorem put_bytes {kt : KeyType} {s s' : Store} (g : Store.Regular kt s) (k v : List Nat) (hk : KeyOK kt k)
    (hkl : k.length < 2^31) (hvl : v.length < 2^31) (hp : s.put kt k v = some s')
    (hke : s'.kf.end_ < 2^32) (hve : s'.vf.end_ < 2^32) {d : DbSt} (hd : d.IsImage kt s) :
    ∃ d', d'.IsImage kt s' ∧
      Gen.putKt keyCfg valCfg s.n (cmpOf kt) (hashValue k) k v d = some ((), d') := by
  obtain ⟨r, d1, hf, hd1, hrun⟩ := find_bytes g k hk hd
  have kg := KG.of_good g
  have vg := VG.of_good g
  have hx := HtxRW.of_good g
  unfold Gen.putKt
  rw [DbM.bind_some hrun]
  unfold Store.put at hp
  simp only [hf] at hp
  cases r with
  | none =>
    simp only at hp ⊢
    split at hp
    · cases hp
    · next voff vf' haddv =>
      split at hp
      · cases hp
      · next koff kf' haddk =>
        simp only [Option.some.injEq] at hp
        subst hp
        -- the head of the bucket
        obtain ⟨d2, r2, hd2⟩ := htx_step (t' := s) hd1 rfl rfl (fun pos => (hx (hashValue k) pos).1)
        -- the value record
        obtain ⟨vg', _, vsz, hgv', hwv⟩ := vg.addPiece hvl haddv hve
        obtain ⟨d3, r3, hd3⟩ := val_step hd2 hwv
        -- the key record
        have hvo := vg'.off hgv'
        have hhd := headOf_fits g (bucketOf k s.n)
        have hfit : KeyRec.Fits { key := k, valOff := voff, next := s.headOf (bucketOf k s.n) } :=
          ⟨hkl, by show voff < 2^63; omega, hhd.1, hvo.1, hhd.2⟩
        obtain ⟨kg', _, ksz, hgk', hwk⟩ := kg.addPiece hfit haddk hke
        obtain ⟨d4, r4, hd4⟩ := key_step (t := { s with vf := vf' }) hd3 hwk
        have hko := kg'.off hgk'
        have r4' : DbM.liftKey (Gen.keyAddPiece keyCfg k voff (s.headOf (hashValue k % s.n))) d3 =
            some ((koff, ksz), d4) := r4
        -- the bucket entry
        have hx4 : HtxRW kt { s with vf := vf', kf := kf' } := hx
        obtain ⟨d5, r5, hd5⟩ := htx_step
          (t' := ({ s with vf := vf', kf := kf' } : Store).writeHead (bucketOf k s.n) koff) hd4 rfl rfl
          (fun pos => (hx4 (hashValue k) pos).2 koff (by omega))
        -- the count
        have hcnt := g.renderable.count_lt
        obtain ⟨d6, r6, hd6⟩ := htx_step
          (t' := { (({ s with vf := vf', kf := kf' } : Store).writeHead (bucketOf k s.n) koff) with
                    count := s.count + 1 }) hd5 rfl rfl
          (fun pos => (htxCount_bytes_weak kt.sig (sig_len kt)
            (({ s with vf := vf', kf := kf' } : Store).writeHead (bucketOf k s.n) koff) hcnt pos).1)
        refine ⟨d6, hd6, ?_⟩
        rw [DbM.bind_assoc_apply, DbM.bind_some r2, DbM.bind_assoc_apply, DbM.bind_some r3]
        try simp only []
        rw [DbM.bind_assoc_apply, DbM.bind_some r4']
        try simp only []
        rw [DbM.bind_assoc_apply, DbM.bind_some r5, DbM.bind_assoc_apply, DbM.bind_some r6]
        rfl
  | some p =>
    obtain ⟨off, prev⟩ := p
    simp only at hp ⊢
    split at hp
    · next sz0 kr hg =>
      split at hp
      · next vsz0 v0 hgv =>
        split at hp
        · cases hp
        · next voff' vf' hrwv =>
          by_cases hvo : voff' = kr.valOff
          · -- the value record stayed in place
            rw [if_pos hvo] at hp
            simp only [Option.some.injEq] at hp
            subst hp
            obtain ⟨vg', h1, _⟩ := storeValue_img kg vg hg hgv v hvl hrwv hve hd1
            obtain ⟨d2, r2, hd2⟩ := h1 hvo
            refine ⟨d2, hd2, ?_⟩
            rw [DbM.bind_assoc_apply, DbM.bind_some r2]
            have hb : (off != off) = false := by simp
            simp only [hb, Bool.false_eq_true, if_false]
            rfl
          · rw [if_neg hvo] at hp
            try simp only at hp
            split at hp
            · cases hp
            · next koff' kf' hrwk =>
              have wk' := rewrite_wf kg.ok.wf hg hrwk
              by_cases hko : koff' = off
              · -- the key record stayed in place
                rw [if_pos hko] at hp
                simp only [Option.some.injEq] at hp
                subst hp
                obtain ⟨vg', _, h2⟩ := storeValue_img kg vg hg hgv v hvl hrwv hve hd1
                obtain ⟨d2, r2, hd2, _⟩ := h2 hvo koff' kf' hrwk hke
                refine ⟨d2, hd2, ?_⟩
                rw [DbM.bind_assoc_apply, DbM.bind_some r2]
                have hb : (off != koff') = false := by simp [hko]
                simp only [hb, Bool.false_eq_true, if_false]
                rfl
              · -- the key record moved: relink
                rw [if_neg hko] at hp
                obtain ⟨f1, f2, _, _⟩ := relink_frame _ _ (t := { s with vf := vf', kf := kf' }) _ _ wk' hp
                have hve' : vf'.end_ < 2^32 := by
                  have : s'.vf = vf' := f2
                  rw [← this]; exact hve
                have hke' : kf'.end_ < 2^32 := Nat.lt_of_le_of_lt f1 hke
                obtain ⟨vg', _, h2⟩ := storeValue_img kg vg hg hgv v hvl hrwv hve' hd1
                obtain ⟨d2, r2, hd2, kg', hn, hn8⟩ := h2 hvo koff' kf' hrwk hke'
                have hx2 : HtxRW kt { s with vf := vf', kf := kf' } := hx
                obtain ⟨d3, r3, hd3, _⟩ := relinkPiece_img (hashValue k) (t := { s with vf := vf', kf := kf' })
                  hp hke kg' hx2 hn hn8 hd2
                refine ⟨d3, hd3, ?_⟩
                rw [DbM.bind_assoc_apply, DbM.bind_some r2]
                have hb : (off != koff') = true := by
                  simp only [bne_iff_ne, ne_eq]
                  exact fun e => hko e.symm
                simp only [hb, if_true]
                rw [DbM.bind_assoc_apply, DbM.bind_assoc_apply]
                have r3' : Gen.relinkMovedKeyPiece keyCfg s.n (hashValue k) off koff' d2 = some ((), d3) := r3
                rw [DbM.bind_some r3']
                rfl
      · cases hp
    · cases hp

theorem del_bytes {kt : KeyType} {s s' : Store} {r : Option (List Nat)} (g : Store.Regular kt s) (k : List Nat)
    (hk : KeyOK kt k) (hkl : k.length < 2^31) (hp : s.del kt k = some (s', r))
    (hke : s'.kf.end_ < 2^32) (hve : s'.vf.end_ < 2^32) {d : DbSt} (hd : d.IsImage kt s) :
    ∃ d', d'.IsImage kt s' ∧
      Gen.delKt keyCfg valCfg s.n (cmpOf kt) (hashValue k) k d = some (r, d') := by
  obtain ⟨r0, d1, hf, hd1, hrun⟩ := find_bytes g k hk hd
  have kg := KG.of_good g
  have vg := VG.of_good g
  have hx := HtxRW.of_good g
  rw [delKt_unfold, DbM.bind_some hrun]
  cases r0 with
  | none =>
    rw [Del.del_absent hf] at hp
    simp only [Option.some.injEq, Prod.mk.injEq] at hp
    obtain ⟨rfl, rfl⟩ := hp
    exact ⟨d1, hd1, rfl⟩
  | some p =>
    obtain ⟨off, prev⟩ := p
    simp only []
    rcases find_spec g.inv k hk with ⟨o, sz, kr, l1, l2, hfind, hu, hkey, hch⟩ | ⟨hfind, _⟩
    · rw [hf] at hfind
      simp only [Option.some.injEq, Prod.mk.injEq] at hfind
      obtain ⟨rfl, hprev⟩ := hfind
      have hg := RecFile.used_eq_some.mp hu
      obtain ⟨vs, value, hvu⟩ := g.inv.val_used _ _ _ hu
      have hgv := RecFile.used_eq_some.mp hvu
      have hb : bucketOf k s.n < s.n := Nat.mod_lt _ g.inv.npos
      obtain ⟨s1, hul, h1, hvf, hcnt, _, hu1, _⟩ := Del.unlink_spec g.inv hb hch hu
      rw [← hprev] at hul
      rw [Del.del_found hf hg hgv, hul] at hp
      simp only [Option.bind_some] at hp
      unfold Del.finishStep at hp
      split at hp
      · cases hp
      · next vf' hdv =>
        split at hp
        · cases hp
        · next kf' hdk =>
          simp only [Option.some.injEq, Prod.mk.injEq] at hp
          obtain ⟨rfl, rfl⟩ := hp
          -- the end of the key file after the unlink step
          have hg1 := RecFile.used_eq_some.mp hu1
          have hke1 : s1.kf.end_ < 2^32 := by
            obtain ⟨f1, a1, _, _, _, _, _, a7⟩ := RecFile.deletePiece_spec keyCfg_ok h1.kwf hu1
            rw [hdk] at a1
            simp only [Option.some.injEq] at a1
            subst a1
            have : kf'.end_ < 2^32 := hke
            omega
          have hkf := kg.fits_get hg
          -- read the two records
          obtain ⟨d2, r2, hd2⟩ := key_read hd1 (kg.readPiece hg)
          obtain ⟨d3, r3, hd3⟩ := val_read hd2 (vg.readValue hgv)
          -- unlink
          obtain ⟨d4, r4, hd4, kg1⟩ := unlink_img (hashValue k) hul hke1 kg hx hkf.2.2.1 hkf.2.2.2.2 hd3
          -- free the value record
          have vg1 : VG kt.sig s1.vf := by rw [hvf]; exact vg
          have hgv1 : s1.vf.get kr.valOff = some (.used vs value) := by rw [hvf]; exact hgv
          obtain ⟨vg', _, hwv⟩ := vg1.deletePiece hgv1 hdv
          obtain ⟨d5, r5, hd5⟩ := val_step hd4 hwv
          -- free the key record
          obtain ⟨kg', _, hwk⟩ := kg1.deletePiece hg1 hdk
          obtain ⟨d6, r6, hd6⟩ := key_step (t := { s1 with vf := vf' }) hd5 hwk
          -- the count
          have hc : s1.count < 2^64 := by rw [hcnt]; exact g.renderable.count_lt
          obtain ⟨d7, r7, hd7⟩ := htx_step
            (t' := { s1 with vf := vf', kf := kf', count := s1.count - 1 }) hd6 rfl rfl
            (fun pos => (htxCount_bytes_weak kt.sig (sig_len kt)
              ({ s1 with vf := vf', kf := kf' } : Store) hc pos).2)
          refine ⟨d7, hd7, ?_⟩
          rw [DbM.bind_some r2]
          try simp only []
          rw [DbM.bind_some r3, DbM.bind_some r4, DbM.bind_some r5, DbM.bind_some r6, DbM.bind_some r7]
          rfl
    · rw [hf] at hfind
      cases hfind

end Abyss
