import Abyss.Lemmas.OpenBytesAux1
/-!
# Helpers for `OpenBytes.lean`, part 2: creation (`open_with_params` on empty files)
-/
namespace Abyss
open Store FileM

set_option maxRecDepth 8000 in
/-- the key file: an empty file gets exactly the rendered header of the empty record file -/
theorem keyOpen_create (kt : KeyType) (p : Nat) :
    Gen.keyOpen kt.sig ⟨[], p⟩ = some ((), ⟨renderKeyFile kt.sig (RecFile.empty keyCfg), 192⟩) := by
  cases kt <;> rfl

set_option maxRecDepth 8000 in
theorem valOpen_create (kt : KeyType) (p : Nat) :
    Gen.valOpen kt.sig ⟨[], p⟩ = some ((), ⟨renderValFile kt.sig (RecFile.empty valCfg), 192⟩) := by
  cases kt <;> rfl


/-! ## the table file -/

theorem le64_zero : le64 0 = zeros 8 := by decide

theorem htxTbl_zero (n : Nat) : htxTbl n (fun _ => 0) = zeros (8 * n) := by
  unfold htxTbl
  induction n with
  | zero => rfl
  | succ n ih =>
    rw [List.range_succ, List.map_append, List.flatten_append, ih]
    simp only [List.map_cons, List.map_nil, List.flatten_cons, List.flatten_nil, List.append_nil, le64_zero]
    rw [zeros_add]
    congr 1

theorem bitmapByte_false (j : Nat) : bitmapByte (fun _ => false) j = 0 := by
  unfold bitmapByte
  rfl

theorem htxBm_false (m : Nat) : htxBm m (fun _ => false) = zeros m := by
  unfold htxBm zeros
  apply List.ext_getElem
  · simp
  · intro i h1 h2
    simp [bitmapByte_false]

/-- the table file of a freshly created map: header, then zeros -/
theorem renderHtx_init (sig : List Nat) (hsig : sig.length = 8) (n : Nat) :
    renderHtxFile sig (Store.init n) = (Gen.htxSig1 ++ sig ++ le64 n ++ zeros 104) ++ zeros (n * 8 + n / 8) := by
  rw [renderHtx_eq sig _ hsig]
  have e1 : (Store.init n).headOf = fun _ => 0 := by funext b; rfl
  have e2 : (Store.init n).bitOf = fun _ => false := by funext b; rfl
  have e3 : (Store.init n).htxEnd - (Gen.htxHeaderSz + (Store.init n).n * 8) = n / 8 := by
    show Gen.htxInitLen n - (Gen.htxHeaderSz + n * 8) = n / 8
    unfold Gen.htxInitLen
    omega
  rw [e1, e2, e3]
  show htxImg sig n 0 _ _ _ = _
  unfold htxImg
  rw [htxTbl_zero, htxBm_false, le64_zero]
  simp only [List.append_assoc]
  rw [zeros_add, zeros_add, zeros_add, zeros_add]
  congr 4
  omega

namespace FileM

/-- a guard that is passed (condition without negation) -/
theorem guard_pass' {β : Type} (c : Bool) (k : Unit → M β) (s : FSt) (h : c = false) :
    ((if c = true then FileM.fail else pure ()) >>= k) s = k () s := by
  subst h
  rfl

theorem setLen_extend (b : List Nat) (p N : Nat) (h : b.length ≤ N) (hp : p ≤ N) :
    FileM.setLen N ⟨b, p⟩ = some ((), ⟨b ++ zeros (N - b.length), p⟩) := by
  unfold FileM.setLen zeros
  simp only
  rw [List.take_of_length_le h, if_neg (by omega)]

/-- zeros written over the last 8 of a run of zeros at the end of the file -/
theorem wr_zeros_tail (A : List Nat) (K : Nat) (hK : 8 ≤ K) :
    wr (zeros 8) ⟨A ++ zeros K, A.length + (K - 8)⟩ = ⟨A ++ zeros K, A.length + K⟩ := by
  rw [wr_right]
  have e : (zeros K).take (K - 8) ++ zeros 8 ++ (zeros K).drop (K - 8 + (zeros 8).length) = zeros K := by
    unfold zeros
    rw [List.take_replicate, List.drop_replicate, List.length_replicate, List.replicate_append_replicate,
      List.replicate_append_replicate]
    congr 1
    omega
  rw [e, zeros_length]
  congr 1
  omega

end FileM

theorem htxWriteInitHeader_empty (sig : List Nat) (hsig : sig.length = 8) (n : Nat) :
    Gen.htxWriteInitHeader sig n ⟨[], 0⟩ = some ((), ⟨Gen.htxSig1 ++ sig ++ le64 n ++ zeros 104, 128⟩) := by
  unfold Gen.htxWriteInitHeader
  have h0 : (⟨[], 0⟩ : FSt).pos ≤ (⟨[], 0⟩ : FSt).bytes.length := Nat.le_refl _
  rw [bind_some (seekFromStart_spec 0 [] 0 (Nat.le_refl _))]
  have h1 := wr_ok Gen.htxSig1 _ h0
  have h2 := wr_ok sig _ h1
  have h3 := wr_ok (le64 n) _ h2
  rw [bind_some (writeBytes_eq _ _ h0), bind_some (writeBytes_eq _ _ h1),
    bind_some (writeU64Le_spec _ _ h2), bind_some (writeBytes_eq _ _ h3), pure_apply,
    wr_wr _ _ _ h0, wr_wr _ _ _ h0, wr_wr _ _ _ h0]
  have := wr_end (Gen.htxSig1 ++ sig ++ le64 n ++ List.replicate 104 0) []
  rw [List.nil_append] at this
  rw [show (⟨[], 0⟩ : FSt) = ⟨[], ([] : List Nat).length⟩ from rfl, this]
  have hs1 : Gen.htxSig1.length = 8 := rfl
  simp only [List.length_append, hs1, hsig, le64_length, List.length_replicate, List.length_nil, zeros]

/-- the table file: header, `set_len`, a zero word at the end = the rendered table of `Store.init n` -/
theorem htxOpen_create (sig : List Nat) (hsig : sig.length = 8) (prm : Gen.HashBucketsParam) (n : Nat)
    (hp : Gen.bucketsOf prm = some n) (hn : 0 < n) (p : Nat) :
    Gen.htxOpen sig prm ⟨[], p⟩ = some (n, ⟨renderHtxFile sig (Store.init n), Gen.htxInitLen n⟩) := by
  unfold Gen.htxOpen
  rw [bind_some (seekToEnd_spec [] p)]
  simp only [List.length_nil, beq_self_eq_true, if_true, hp]
  rw [pure_bind_apply, bind_some (htxWriteInitHeader_empty sig hsig n)]
  have h128 : Gen.htxHeaderSz = 128 := rfl
  have hs1 : Gen.htxSig1.length = 8 := rfl
  have hH : (Gen.htxSig1 ++ sig ++ le64 n ++ zeros 104).length = 128 := by
    simp only [List.length_append, hs1, hsig, le64_length, zeros_length]
  have hN : Gen.htxInitLen n = 128 + (n * 8 + n / 8) := by unfold Gen.htxInitLen; omega
  have hN' : Gen.htxHeaderSz + n * 8 + n / 8 = 128 + (n * 8 + n / 8) := by omega
  rw [hN', hN, renderHtx_init sig hsig n]
  unfold Gen.setFileLength
  rw [bind_some (FileM.setLen_extend _ 128 _ (by omega) (by omega)),
    FileM.guard_pass' _ _ _ (decide_eq_false (by omega)), hH,
    bind_some (seekFromStart_spec _ _ _ (by rw [List.length_append, hH, zeros_length]; omega)),
    bind_some (writeU64Le_spec _ _ (by
      show 128 + (n * 8 + n / 8) - 8 ≤ _
      rw [List.length_append, hH, zeros_length]; omega)), pure_apply, le64_zero]
  have e : 128 + (n * 8 + n / 8) - 8 =
      (Gen.htxSig1 ++ sig ++ le64 n ++ zeros 104).length + (128 + (n * 8 + n / 8) - 128 - 8) := by
    rw [hH]; omega
  rw [e, FileM.wr_zeros_tail _ _ (by omega), hH,
    show 128 + (n * 8 + n / 8) - 128 = n * 8 + n / 8 by omega]

theorem htxOpen_create_panics (sig : List Nat) (prm : Gen.HashBucketsParam)
    (hp : Gen.bucketsOf prm = none) (p : Nat) :
    Gen.htxOpen sig prm ⟨[], p⟩ = none := by
  unfold Gen.htxOpen
  rw [bind_some (seekToEnd_spec [] p)]
  simp only [List.length_nil, beq_self_eq_true, if_true, hp]
  rfl

namespace DbM

theorem liftHtx_none {α : Type} {m : FileM.M α} {d : DbSt} (h : m d.htx = none) : liftHtx m d = none := by
  show (match m d.htx with | none => none | some (a, f) => some (a, { d with htx := f })) = _
  rw [h]

theorem liftKey_none {α : Type} {m : FileM.M α} {d : DbSt} (h : m d.key = none) : liftKey m d = none := by
  show (match m d.key with | none => none | some (a, f) => some (a, { d with key := f })) = _
  rw [h]

theorem liftVal_none {α : Type} {m : FileM.M α} {d : DbSt} (h : m d.val = none) : liftVal m d = none := by
  show (match m d.val with | none => none | some (a, f) => some (a, { d with val := f })) = _
  rw [h]

end DbM

end Abyss
