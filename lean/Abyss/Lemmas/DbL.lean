import Abyss.Db
/-!
# Lookup lemmas for the directory model (`Db.get` / `Db.set`)
-/
namespace Abyss
namespace Db

theorem get_set_eq (db : Db) (name : List Char) (m : DbMap) : (db.set name m).get name = some m := by
  simp [Db.get, Db.set]

theorem get_set_ne (db : Db) (name name' : List Char) (m : DbMap) (hne : name' ≠ name) :
    (db.set name m).get name' = db.get name' := by
  unfold Db.get Db.set
  have h1 : ¬ name = name' := fun h => hne h.symm
  rw [List.find?_cons_of_neg (by simpa using h1), List.find?_filter]
  congr 2
  funext a
  by_cases h : a.1 = name'
  · simp [h, hne]
  · simp [h]

theorem exts_length (e : List Char) (he : e ∈ Db.exts) : e.length = 3 := by
  simp only [Db.exts, List.mem_cons, List.not_mem_nil, or_false] at he
  rcases he with rfl | rfl | rfl <;> rfl

end Db
end Abyss
