import Abyss.Lemmas.PieceBytesValAux2
import Abyss.Props.C09
/-!
# Piece-level I/O, byte level, part 3: the value file

* `valDatWritePieceOne_spec`: `dat_write_piece_one` overwrites / appends the rendering of the used slot;
* `valWritePiece_new`, `valWritePiece_old`: `write_piece` with the requested size written as `valueNeed`.
-/
namespace Abyss
open Vu64 FileM RecFile Sizes

/-- `ValuePiece::dat_write_piece_one` writes the rendering of the used slot at `o` -/
theorem valDatWritePieceOne_spec (o sz : Nat) (v b : List Nat) (p : Nat) (ho : o ≤ b.length)
    (hsz : sz ≠ 0) (hfit : (valContent sz v).length ≤ sz) (h32 : sz < 2^32) (hv : v.length < 2^32) :
    Gen.valDatWritePieceOne o sz v ⟨b, p⟩ = some ((), wr (renderValSlot (.used sz v)) ⟨b, o⟩) := by
  have hok : (⟨b, o⟩ : FSt).pos ≤ (⟨b, o⟩ : FSt).bytes.length := ho
  have ok1 := wr_ok (encode (sz / 8)) _ hok
  have ok2 := wr_ok (encode v.length) _ ok1
  have ok3 := wr_ok v _ ok2
  have hz : (sz == 0) = false := by simpa using hsz
  have hcl : (valContent sz v).length = (encode (sz / 8)).length + (encode v.length).length + v.length := by
    unfold valContent; simp only [List.length_append]
  have hpos : (wr v (wr (encode v.length) (wr (encode (sz / 8)) ⟨b, o⟩))).pos =
      o + (encode (sz / 8)).length + (encode v.length).length + v.length := by
    simp only [wr_pos]
  unfold Gen.valDatWritePieceOne
  rw [hz]
  simp only [Bool.false_eq_true, if_false]
  rw [pure_bind_apply, bind_some (seekFromStart_spec o b p ho), bind_some (writePieceSize_spec sz _ hok),
    Nat.mod_eq_of_lt hv, bind_some (writeValueLen_spec _ _ ok1), bind_some (writeBytes_eq v _ ok2),
    bind_some (writeZeroToOffset_spec' (o + sz) _ ok3 (by rw [hpos]; omega) (by rw [hpos]; omega)),
    pure_apply, hpos, wr_wr _ _ _ hok, wr_wr _ _ _ hok, wr_wr _ _ _ hok]
  have hX : encode (sz / 8) ++ encode v.length ++ v ++
      zeros (o + sz - (o + (encode (sz / 8)).length + (encode v.length).length + v.length)) =
      renderValSlot (.used sz v) := by
    show _ = padTo sz (valContent sz v)
    unfold padTo
    rw [hcl]
    unfold valContent
    congr 2
    omega
  rw [hX]

/-! ## `write_piece` with the requested size written as `valueNeed` -/

/-- the "add new" part of `write_piece` (both occurrences) -/
def valAddNew (need : Nat) (value : List Nat) : M (Nat × Nat) := do
  let freePieceOffset ← Gen.popFreePieceList valCfg need
  let (newPieceOffset, newPieceSize) ← allocBlock need freePieceOffset
  Gen.valDatWritePieceOne newPieceOffset newPieceSize value
  pure (newPieceOffset, newPieceSize)

theorem valNewSize_eq (len : Nat) (h : len < 2^31) :
    Gen.roundup valCfg.sizeAry ((encodedLen ((encodedLen len + len + 7) / 8) + (encodedLen len + len)) % 2^32) =
      valueNeed len := by
  have h1 := encodedLen_le ((encodedLen len + len + 7) / 8)
  have h2 := encodedLen_le len
  rw [Nat.mod_eq_of_lt (by omega), valueNeed_eq len (by omega)]
  rfl

theorem valWritePiece_new (v : List Nat) (hv : v.length < 2^31) (off : Nat) :
    Gen.valWritePiece valCfg off v true = valAddNew (valueNeed v.length) v := by
  have h32 : v.length < 2^32 := by omega
  unfold Gen.valWritePiece
  simp only [Gen.valueEncodedPieceSize, Nat.mod_eq_of_lt h32, valNewSize_eq v.length hv]
  rfl

theorem valWritePiece_old (v : List Nat) (hv : v.length < 2^31) (off : Nat) :
    Gen.valWritePiece valCfg off v false = (do
      let oldPieceSize ← (Gen.seekFromStart off >>= fun _ => Gen.readPieceSize)
      if valueNeed v.length ≤ oldPieceSize then do
        let _ ← Gen.seekFromStart off
        Gen.valDatWritePieceOne off oldPieceSize v
        pure (off, oldPieceSize)
      else do
        Gen.pushFreePieceList valCfg off oldPieceSize
        valAddNew (valueNeed v.length) v) := by
  have h32 : v.length < 2^32 := by omega
  unfold Gen.valWritePiece
  simp only [Gen.valueEncodedPieceSize, Nat.mod_eq_of_lt h32, valNewSize_eq v.length hv,
    decide_eq_true_eq]
  rfl

end Abyss
