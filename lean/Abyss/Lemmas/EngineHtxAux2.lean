import Abyss.Lemmas.EngineHtxAux1
/-!
# Helpers for `EngineHtx.lean`, part 2: list surgery, the segments of the table file
-/
namespace Abyss
open Store FileM

/-! ## primitives -/

/-- `read_u8` anywhere up to the end of the file: the byte there, or the zero padding -/
theorem readU8_getD (b : List Nat) (p : Nat) (hp : p ≤ b.length) :
    FileM.readU8 ⟨b, p⟩ = some (b.getD p 0, ⟨b, p + 1⟩) := by
  rcases h : b.drop p with _ | ⟨x, rest⟩
  · have hl : b.length ≤ p := List.drop_eq_nil_iff.mp h
    have e : b.getD p 0 = 0 := by
      rw [List.getD_eq_getElem?_getD, List.getElem?_eq_none hl]; rfl
    rw [e]
    unfold FileM.readU8
    have : FileM.readPad 1 ⟨b, p⟩ = some ([0], ⟨b, p + 1⟩) := by
      unfold FileM.readPad
      simp only
      rw [if_pos hp, h]
      rfl
    rw [bind_some this, pure_apply]
    rfl
  · have e : b.getD p 0 = x := by
      have := List.getElem?_drop (xs := b) (i := p) (j := 0)
      rw [h] at this
      rw [List.getD_eq_getElem?_getD, ← Nat.add_zero p, ← this]; rfl
    rw [e]
    exact readU8_spec h hp

theorem seekFromStart_ext (off : Nat) (b : List Nat) (p : Nat) :
    Gen.seekFromStart off ⟨b, p⟩ = some (off, ⟨b ++ List.replicate (off - b.length) 0, off⟩) := rfl

theorem writeU8_spec (v : Nat) (s : FSt) (hv : v < 256) (h : s.pos ≤ s.bytes.length) :
    FileM.writeU8 v s = some ((), wr [v] s) := by
  unfold FileM.writeU8
  rw [Nat.mod_eq_of_lt hv]
  exact writeBytes_eq _ s h

theorem writeU64Le_spec (v : Nat) (s : FSt) (h : s.pos ≤ s.bytes.length) :
    FileM.writeU64Le v s = some ((), wr (le64 v) s) := by
  unfold FileM.writeU64Le
  exact writeBytes_eq _ s h

/-- overwriting inside the right part of `A ++ B` -/
theorem wr_right (X A B : List Nat) (k : Nat) :
    wr X ⟨A ++ B, A.length + k⟩ = ⟨A ++ (B.take k ++ X ++ B.drop (k + X.length)), A.length + k + X.length⟩ := by
  unfold wr
  simp only [FSt.mk.injEq, and_true]
  rw [List.take_append, List.drop_append]
  have e1 : A.length + k - A.length = k := by omega
  have e2 : A.length + k + X.length - A.length = k + X.length := by omega
  rw [e1, e2, List.take_of_length_le (by omega : A.length ≤ A.length + k),
    List.drop_eq_nil_of_le (by omega : A.length ≤ A.length + k + X.length)]
  simp only [List.append_assoc, List.nil_append]

/-! ## the segments of the table file -/

/-- the bucket table -/
def htxTbl (n : Nat) (h : Nat → Nat) : List Nat := ((List.range n).map fun i => le64 (h i)).flatten
/-- the bitmap -/
def htxBm (m : Nat) (f : Nat → Bool) : List Nat := (List.range m).map (bitmapByte f)
/-- the table file from its fields -/
def htxImg (sig : List Nat) (n count : Nat) (h : Nat → Nat) (m : Nat) (f : Nat → Bool) : List Nat :=
  (Gen.htxSig1 ++ sig ++ le64 n) ++ le64 count ++ (zeros 96 ++ htxTbl n h ++ htxBm m f)

theorem renderHtx_eq (sig : List Nat) (s : Store) (hsig : sig.length = 8) :
    renderHtxFile sig s = htxImg sig s.n s.count s.headOf (s.htxEnd - (Gen.htxHeaderSz + s.n * 8)) s.bitOf := by
  unfold renderHtxFile htxImg htxTbl htxBm
  have hs1 : Gen.htxSig1.length = 8 := rfl
  have h128 : Gen.htxHeaderSz = 128 := rfl
  simp only [h128, List.length_append, hs1, hsig, le64_length, List.append_assoc]

theorem htxTbl_length (n : Nat) (h : Nat → Nat) : (htxTbl n h).length = 8 * n := by
  unfold htxTbl
  induction n with
  | zero => simp
  | succ n ih =>
    rw [List.range_succ, List.map_append, List.flatten_append, List.length_append, ih]
    simp [le64_length]; omega

theorem htxBm_length (m : Nat) (f : Nat → Bool) : (htxBm m f).length = m := by
  unfold htxBm; simp

theorem htxPre_length (sig : List Nat) (n : Nat) (hsig : sig.length = 8) :
    (Gen.htxSig1 ++ sig ++ le64 n).length = 24 := by
  have hs1 : Gen.htxSig1.length = 8 := rfl
  simp only [List.length_append, hs1, hsig, le64_length]

theorem htxImg_length (sig : List Nat) (n count : Nat) (h : Nat → Nat) (m : Nat) (f : Nat → Bool)
    (hsig : sig.length = 8) : (htxImg sig n count h m f).length = 128 + 8 * n + m := by
  unfold htxImg
  simp only [List.length_append, htxPre_length sig n hsig, le64_length, zeros_length, htxTbl_length,
    htxBm_length]
  omega

/-- one entry of the table, and the same table with another value there -/
theorem htxTbl_split (h h' : Nat → Nat) (n b : Nat) (hb : b < n) (hh : ∀ i, i ≠ b → h' i = h i) :
    ∃ pre post, htxTbl n h = pre ++ le64 (h b) ++ post ∧ htxTbl n h' = pre ++ le64 (h' b) ++ post ∧
      pre.length = 8 * b := by
  unfold htxTbl
  induction n with
  | zero => omega
  | succ n ih =>
    rw [List.range_succ, List.map_append, List.flatten_append, List.map_append, List.flatten_append]
    by_cases hlt : b < n
    · obtain ⟨pre, post, h1, h2, h3⟩ := ih hlt
      refine ⟨pre, post ++ le64 (h n), ?_, ?_, h3⟩
      · rw [h1]; simp
      · rw [h2]; simp [hh n (by omega)]
    · have e : b = n := by omega
      subst e
      have hc : ((List.range b).map fun i => le64 (h' i)) = (List.range b).map fun i => le64 (h i) := by
        apply List.map_congr_left
        intro i hi
        rw [hh i (by have := List.mem_range.mp hi; omega)]
      refine ⟨((List.range b).map fun i => le64 (h i)).flatten, [], by simp, by rw [hc]; simp, ?_⟩
      exact htxTbl_length b h

/-- bitmap bytes beyond the bits that are set are zero: padding with zeros lengthens the bitmap -/
theorem htxBm_pad (m k : Nat) (f : Nat → Bool) (hf : ∀ i, m ≤ i → bitmapByte f i = 0) :
    htxBm m f ++ List.replicate k 0 = htxBm (m + k) f := by
  unfold htxBm
  induction k with
  | zero => simp
  | succ k ih =>
    rw [List.replicate_succ', ← List.append_assoc, ih, ← Nat.add_assoc, List.range_succ, List.map_append]
    simp [hf (m + k) (by omega)]

theorem htxBm_getD (m j : Nat) (f : Nat → Bool) (hf : ∀ i, m ≤ i → bitmapByte f i = 0) :
    (htxBm m f).getD j 0 = bitmapByte f j := by
  unfold htxBm
  rw [List.getD_eq_getElem?_getD, List.getElem?_map]
  by_cases hj : j < m
  · rw [List.getElem?_range hj]; rfl
  · rw [List.getElem?_eq_none (by simp; omega), hf j (by omega)]; rfl

/-- one byte of the bitmap replaced (or appended) -/
theorem htxBm_set (m j : Nat) (f f' : Nat → Bool) (hj : j ≤ m)
    (hf : ∀ i, i ≠ j → bitmapByte f' i = bitmapByte f i) :
    (htxBm m f).take j ++ [bitmapByte f' j] ++ (htxBm m f).drop (j + 1) = htxBm (max m (j + 1)) f' := by
  unfold htxBm
  apply List.ext_getElem?
  intro i
  rw [List.getElem?_map]
  by_cases h1 : i < j
  · rw [List.append_assoc, List.getElem?_append_left (by simp; omega), List.getElem?_take_of_lt h1,
      List.getElem?_map, List.getElem?_range (by omega), List.getElem?_range (by omega)]
    simp [hf i (by omega)]
  · rw [List.append_assoc, List.getElem?_append_right (by simp; omega)]
    have hl : (List.take j (List.map (bitmapByte f) (List.range m))).length = j := by simp; omega
    rw [hl]
    by_cases h2 : i = j
    · subst h2
      rw [List.getElem?_range (by omega)]
      simp
    · rw [List.getElem?_append_right (by simp; omega), List.getElem?_drop, List.getElem?_map]
      have e : j + 1 + (i - j - [bitmapByte f' j].length) = i := by simp; omega
      rw [e]
      by_cases h3 : i < m
      · rw [List.getElem?_range h3, List.getElem?_range (by omega)]
        simp [hf i (by omega)]
      · rw [List.getElem?_eq_none (by simp; omega), List.getElem?_eq_none (by simp; omega)]
        rfl

end Abyss
