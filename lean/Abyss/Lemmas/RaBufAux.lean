import Abyss.RaBuf
import Mathlib.Data.List.Nodup
import Mathlib.Data.List.Perm.Subperm
/-!
# `rabuf` model: list-level helper lemmas (alignment arithmetic, `diskWrite`, `findChunk`,
`setChunk`, `sortOffs`, `bufferSize`)
-/
namespace Abyss.RaBuf

/-! ## alignment arithmetic -/

theorem divmul_le (cs i : Nat) : i / cs * cs ≤ i := Nat.div_mul_le_self i cs

theorem lt_divmul_add {cs : Nat} (h : 0 < cs) (i : Nat) : i < i / cs * cs + cs := by
  have h1 := Nat.div_add_mod i cs
  have h2 := Nat.mod_lt i h
  rw [Nat.mul_comm] at h1
  omega

theorem divmul_mod (cs i : Nat) : (i / cs * cs) % cs = 0 := Nat.mul_mod_left _ _

/-- the aligned offset whose chunk contains `i` is `i / cs * cs` -/
theorem aligned_unique {cs a i : Nat} (_h : 0 < cs) (ha : a % cs = 0) (h1 : a ≤ i) (h2 : i < a + cs) :
    i / cs * cs = a := by
  obtain ⟨q, rfl⟩ := Nat.dvd_of_mod_eq_zero ha
  have : i / cs = q := by
    apply Nat.div_eq_of_lt_le
    · rw [Nat.mul_comm]; exact h1
    · rw [Nat.succ_mul, Nat.mul_comm]; exact h2
  rw [this, Nat.mul_comm]

theorem aligned_disjoint {cs a b i : Nat} (h : 0 < cs) (ha : a % cs = 0) (hb : b % cs = 0) (hab : a ≠ b)
    (h1 : a ≤ i) (h2 : i < a + cs) : ¬(b ≤ i ∧ i < b + cs) := by
  rintro ⟨h3, h4⟩
  exact hab ((aligned_unique h ha h1 h2).symm.trans (aligned_unique h hb h3 h4))

theorem aligned_div_inj {cs a b : Nat} (ha : a % cs = 0) (hb : b % cs = 0) (h : a / cs = b / cs) : a = b := by
  have h1 := Nat.div_add_mod a cs
  have h2 := Nat.div_add_mod b cs
  rw [ha] at h1; rw [hb, ← h] at h2
  omega

/-! ## `diskWrite` -/

theorem diskWrite_nil (d : List Nat) (off : Nat) : diskWrite d off [] = d := by
  simp [diskWrite]

theorem getD_zero_of_le {d : List Nat} {i : Nat} (h : d.length ≤ i) : d.getD i 0 = 0 := by
  simp [List.getD_eq_getElem?_getD, List.getElem?_eq_none h]

theorem diskWrite_length_of_ne {d bs : List Nat} (off : Nat) (h : bs ≠ []) :
    (diskWrite d off bs).length = max d.length (off + bs.length) := by
  unfold diskWrite
  have : bs.isEmpty = false := by cases bs <;> simp_all
  simp [this, zeros]
  omega

theorem le_diskWrite_length (d bs : List Nat) (off : Nat) : d.length ≤ (diskWrite d off bs).length := by
  by_cases h : bs = []
  · subst h; rw [diskWrite_nil]; exact Nat.le_refl _
  · rw [diskWrite_length_of_ne off h]; exact Nat.le_max_left _ _

theorem diskWrite_length_le (d bs : List Nat) (off : Nat) :
    (diskWrite d off bs).length ≤ max d.length (off + bs.length) := by
  by_cases h : bs = []
  · subst h; rw [diskWrite_nil]; exact Nat.le_max_left _ _
  · rw [diskWrite_length_of_ne off h]; exact Nat.le_refl _

theorem diskWrite_length_ge {d bs : List Nat} (off : Nat) (h : bs ≠ []) :
    off + bs.length ≤ (diskWrite d off bs).length := by
  rw [diskWrite_length_of_ne off h]; exact Nat.le_max_right _ _

/-- below the written region nothing changes (a zero-filled hole reads as 0 before and after) -/
theorem diskWrite_getD_lt (d bs : List Nat) {off i : Nat} (h : i < off) :
    (diskWrite d off bs).getD i 0 = d.getD i 0 := by
  unfold diskWrite
  split
  · rfl
  · simp only [List.getD_eq_getElem?_getD, List.append_assoc]
    by_cases hi : i < d.length
    · rw [List.getElem?_append_left (by simp; omega)]
      simp [h]
    · rw [List.getElem?_append_right (by simp; omega)]
      rw [List.getElem?_append_left (by simp [zeros]; omega)]
      have : d[i]? = none := List.getElem?_eq_none (by omega)
      simp only [zeros, List.getElem?_replicate, this]
      split <;> rfl

theorem diskWrite_getD_ge (d bs : List Nat) {off i : Nat} (h : off + bs.length ≤ i) :
    (diskWrite d off bs).getD i 0 = d.getD i 0 := by
  unfold diskWrite
  split
  · rfl
  · simp only [List.getD_eq_getElem?_getD]
    rw [List.getElem?_append_right (by simp [zeros]; omega)]
    simp [zeros, List.getElem?_drop]
    congr 2
    omega

theorem diskWrite_getD_mid (d bs : List Nat) {off i : Nat} (h1 : off ≤ i) (h2 : i < off + bs.length) :
    (diskWrite d off bs).getD i 0 = bs.getD (i - off) 0 := by
  unfold diskWrite
  split
  · rename_i he
    have : bs = [] := by simpa using he
    subst this; simp at h2; omega
  · simp only [List.getD_eq_getElem?_getD]
    rw [List.getElem?_append_left (by simp [zeros]; omega)]
    rw [List.getElem?_append_right (by simp [zeros]; omega)]
    congr 2
    simp [zeros]; omega

/-! ## `findChunk`, `setChunk` -/

theorem findChunk_some {cs : List Chunk} {off : Nat} {c : Chunk} (h : findChunk cs off = some c) :
    c ∈ cs ∧ c.off = off := by
  unfold findChunk at h
  exact ⟨List.mem_of_find?_eq_some h, by simpa using List.find?_some h⟩

theorem findChunk_none {cs : List Chunk} {off : Nat} : findChunk cs off = none ↔ ∀ c ∈ cs, c.off ≠ off := by
  simp [findChunk, List.find?_eq_none]

theorem eq_of_off_eq {cs : List Chunk} (nd : (cs.map (·.off)).Nodup) {x y : Chunk} (hx : x ∈ cs) (hy : y ∈ cs)
    (h : x.off = y.off) : x = y :=
  List.inj_on_of_nodup_map nd hx hy h

theorem findChunk_of_mem {cs : List Chunk} (nd : (cs.map (·.off)).Nodup) {c : Chunk} (hc : c ∈ cs) :
    findChunk cs c.off = some c := by
  cases h : findChunk cs c.off with
  | none => exact absurd rfl (findChunk_none.1 h c hc)
  | some c' =>
    obtain ⟨h1, h2⟩ := findChunk_some h
    rw [eq_of_off_eq nd h1 hc h2]

theorem findChunk_of_mem' {cs : List Chunk} (nd : (cs.map (·.off)).Nodup) {c : Chunk} {off : Nat} (hc : c ∈ cs)
    (ho : c.off = off) : findChunk cs off = some c := ho ▸ findChunk_of_mem nd hc

theorem setChunk_map_off (cs : List Chunk) (c : Chunk) : (setChunk cs c).map (·.off) = cs.map (·.off) := by
  unfold setChunk
  rw [List.map_map]
  apply List.map_congr_left
  intro x _
  simp only [Function.comp]
  split
  · rename_i h; exact (by simpa using h : x.off = c.off).symm
  · rfl

theorem setChunk_length (cs : List Chunk) (c : Chunk) : (setChunk cs c).length = cs.length := by
  simp [setChunk]

theorem mem_setChunk {cs : List Chunk} {c x : Chunk} (h : x ∈ setChunk cs c) :
    x = c ∨ (x ∈ cs ∧ x.off ≠ c.off) := by
  unfold setChunk at h
  obtain ⟨y, hy, rfl⟩ := List.mem_map.1 h
  by_cases hh : y.off = c.off
  · left; simp [hh]
  · right; simp [hh, hy]

theorem mem_setChunk_self {cs : List Chunk} {c c' : Chunk} (hc : c ∈ cs) (ho : c.off = c'.off) :
    c' ∈ setChunk cs c' := by
  unfold setChunk
  exact List.mem_map.2 ⟨c, hc, by simp [ho]⟩

theorem mem_setChunk_of_ne {cs : List Chunk} {c' x : Chunk} (hx : x ∈ cs) (ho : x.off ≠ c'.off) :
    x ∈ setChunk cs c' := by
  unfold setChunk
  exact List.mem_map.2 ⟨x, hx, by simp [ho]⟩

/-- replacing a chunk by itself changes nothing -/
theorem setChunk_self {cs : List Chunk} (nd : (cs.map (·.off)).Nodup) {c : Chunk} (hc : c ∈ cs) :
    setChunk cs c = cs := by
  unfold setChunk
  conv => rhs; rw [← List.map_id cs]
  apply List.map_congr_left
  intro x hx
  by_cases hh : x.off = c.off
  · simp [eq_of_off_eq nd hx hc hh]
  · simp [hh]

/-! ## `sortOffs` -/

theorem mem_insertOff {a x : Nat} {l : List Nat} : a ∈ insertOff x l ↔ a = x ∨ a ∈ l := by
  induction l with
  | nil => simp [insertOff]
  | cons y ys ih =>
    unfold insertOff
    split
    · simp
    · simp [ih]; tauto

theorem mem_sortOffs {a : Nat} {l : List Nat} : a ∈ sortOffs l ↔ a ∈ l := by
  induction l with
  | nil => simp [sortOffs]
  | cons y ys ih => simp [sortOffs, mem_insertOff, ih]

/-! ## `bufferSize` -/

theorem bufferSize_ge_floor (pm e : Nat) : 32768 ≤ bufferSize pm e := by
  unfold bufferSize
  split
  · exact Nat.le_refl _
  · generalize (if pm ≥ 1000 then e else e / 1000 * pm) = v
    show 32768 ≤ if v > 32768 then v else 32768
    split <;> omega

theorem bufferSize_ge_size {pm : Nat} (e : Nat) (h : 1000 ≤ pm) : e ≤ bufferSize pm e := by
  unfold bufferSize
  have : pm ≠ 0 := by omega
  simp only [this, if_false, ge_iff_le, h, if_true]
  show e ≤ if e > 32768 then e else 32768
  split <;> omega

/-! ## counting aligned offsets -/

/-- pairwise distinct multiples of `cs` that are `≤ e`: at most `e / cs + 1` of them -/
theorem aligned_count {cs e : Nat} {l : List Nat} (nd : l.Nodup) (ha : ∀ x ∈ l, x % cs = 0)
    (hle : ∀ x ∈ l, x ≤ e) : l.length ≤ e / cs + 1 := by
  have nd' : (l.map (· / cs)).Nodup :=
    List.Nodup.map_on (fun x hx y hy h => aligned_div_inj (ha x hx) (ha y hy) h) nd
  have sub : l.map (· / cs) ⊆ List.range (e / cs + 1) := by
    intro q hq
    obtain ⟨x, hx, rfl⟩ := List.mem_map.1 hq
    have := Nat.div_le_div_right (c := cs) (hle x hx)
    exact List.mem_range.2 (by omega)
  have := (nd'.subperm sub).length_le
  simpa using this

end Abyss.RaBuf
