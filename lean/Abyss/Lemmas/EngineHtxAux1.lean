import Abyss.Lemmas.EngineDefs
import Mathlib.Tactic.IntervalCases
/-!
# Helpers for `EngineHtx.lean`, part 1: bitmap bytes, list surgery, the segments of the table file
-/
namespace Abyss
open Store FileM

/-! ## bitmap bytes -/

/-- the value of a bitmap byte as a sum of eight 0/1 digits -/
theorem bitmapByte_digits (bit : Nat → Bool) (j : Nat) :
    ∃ c0 c1 c2 c3 c4 c5 c6 c7 : Nat,
      bitmapByte bit j = 0 + 1 * c0 + 2 * c1 + 4 * c2 + 8 * c3 + 16 * c4 + 32 * c5 + 64 * c6 + 128 * c7 ∧
      (c0 ≤ 1 ∧ (c0 = 1 ↔ bit (8 * j + 0) = true)) ∧ (c1 ≤ 1 ∧ (c1 = 1 ↔ bit (8 * j + 1) = true)) ∧
      (c2 ≤ 1 ∧ (c2 = 1 ↔ bit (8 * j + 2) = true)) ∧ (c3 ≤ 1 ∧ (c3 = 1 ↔ bit (8 * j + 3) = true)) ∧
      (c4 ≤ 1 ∧ (c4 = 1 ↔ bit (8 * j + 4) = true)) ∧ (c5 ≤ 1 ∧ (c5 = 1 ↔ bit (8 * j + 5) = true)) ∧
      (c6 ≤ 1 ∧ (c6 = 1 ↔ bit (8 * j + 6) = true)) ∧ (c7 ≤ 1 ∧ (c7 = 1 ↔ bit (8 * j + 7) = true)) := by
  have hr : List.range 8 = [0,1,2,3,4,5,6,7] := by decide
  have key : ∀ (c : Bool) (acc p : Nat), (if c = true then acc + p else acc) = acc + p * (if c = true then 1 else 0) := by
    intro c acc p; cases c <;> simp
  have hc : ∀ c : Bool, (if c = true then 1 else 0 : Nat) ≤ 1 ∧ ((if c = true then 1 else 0 : Nat) = 1 ↔ c = true) := by
    intro c; cases c <;> simp
  refine ⟨_, _, _, _, _, _, _, _, ?_, hc _, hc _, hc _, hc _, hc _, hc _, hc _, hc _⟩
  unfold bitmapByte
  rw [hr]
  simp only [List.foldl, key]

theorem bitmapByte_lt (bit : Nat → Bool) (j : Nat) : bitmapByte bit j < 256 := by
  obtain ⟨c0, c1, c2, c3, c4, c5, c6, c7, e, ⟨a0, _⟩, ⟨a1, _⟩, ⟨a2, _⟩, ⟨a3, _⟩, ⟨a4, _⟩, ⟨a5, _⟩, ⟨a6, _⟩, ⟨a7, _⟩⟩ :=
    bitmapByte_digits bit j
  omega

theorem bitmapByte_bit' (bit : Nat → Bool) (j k : Nat) (hk : k < 8) :
    (bitmapByte bit j / 2 ^ k % 2 = 1) ↔ bit (8 * j + k) = true := by
  obtain ⟨c0, c1, c2, c3, c4, c5, c6, c7, e, ⟨a0, e0⟩, ⟨a1, e1⟩, ⟨a2, e2⟩, ⟨a3, e3⟩, ⟨a4, e4⟩, ⟨a5, e5⟩, ⟨a6, e6⟩, ⟨a7, e7⟩⟩ :=
    bitmapByte_digits bit j
  rw [e]
  interval_cases k
  · rw [← e0]; omega
  · rw [← e1]; omega
  · rw [← e2]; omega
  · rw [← e3]; omega
  · rw [← e4]; omega
  · rw [← e5]; omega
  · rw [← e6]; omega
  · rw [← e7]; omega

theorem bitmapByte_testBit (f : Nat → Bool) (j k : Nat) :
    (bitmapByte f j).testBit k = (decide (k < 8) && f (8 * j + k)) := by
  by_cases hk : k < 8
  · rw [Nat.testBit_eq_decide_div_mod_eq]
    have := bitmapByte_bit' f j k hk
    cases h : f (8 * j + k)
    · rw [h] at this
      have h2 : ¬ bitmapByte f j / 2 ^ k % 2 = 1 := fun h1 => absurd (this.mp h1) (by simp)
      simp [hk, h2]
    · rw [h] at this; simp [hk]; exact this.mpr rfl
  · have h1 : bitmapByte f j < 2 ^ k :=
      Nat.lt_of_lt_of_le (bitmapByte_lt f j) (by
        have : (2:Nat) ^ 8 ≤ 2 ^ k := Nat.pow_le_pow_right (by omega) (by omega)
        omega)
    rw [Nat.testBit_lt_two_pow h1]; simp [hk]

theorem bitmapByte_congr (f g : Nat → Bool) (j : Nat) (h : ∀ k, k < 8 → g (8 * j + k) = f (8 * j + k)) :
    bitmapByte g j = bitmapByte f j := by
  apply Nat.eq_of_testBit_eq
  intro k
  rw [bitmapByte_testBit, bitmapByte_testBit]
  by_cases hk : k < 8
  · rw [h k hk]
  · simp [hk]

theorem bitmapByte_zero (f : Nat → Bool) (j : Nat) (h : ∀ k, k < 8 → f (8 * j + k) = false) :
    bitmapByte f j = 0 := by
  apply Nat.eq_of_testBit_eq
  intro k
  rw [bitmapByte_testBit, Nat.zero_testBit]
  by_cases hk : k < 8
  · rw [h k hk]; simp
  · simp [hk]

theorem u8Shl_one (bit : Nat) (hb : bit < 8) : Gen.u8Shl 1 bit = 2 ^ bit := by
  interval_cases bit <;> rfl

theorem u8Not_testBit (bit k : Nat) (hb : bit < 8) :
    (Gen.u8Not (Gen.u8Shl 1 bit)).testBit k = (decide (k < 8) && decide (k ≠ bit)) := by
  by_cases hk : k < 8
  · interval_cases bit <;> interval_cases k <;> rfl
  · have h1 : Gen.u8Not (Gen.u8Shl 1 bit) < 2 ^ k := by
      have : (2:Nat) ^ 8 ≤ 2 ^ k := Nat.pow_le_pow_right (by omega) (by omega)
      unfold Gen.u8Not
      omega
    rw [Nat.testBit_lt_two_pow h1]; simp [hk]

/-- setting a bit of a bitmap byte, as `write_key_piece_offset` does -/
theorem bitmapByte_set (f g : Nat → Bool) (j bit : Nat) (hb : bit < 8)
    (hg : ∀ k, k < 8 → g (8 * j + k) = if k = bit then true else f (8 * j + k)) :
    Nat.lor (bitmapByte f j) (Gen.u8Shl 1 bit) = bitmapByte g j := by
  rw [Nat.lor_eq, u8Shl_one bit hb]
  apply Nat.eq_of_testBit_eq
  intro k
  rw [Nat.testBit_or, bitmapByte_testBit, bitmapByte_testBit, Nat.testBit_two_pow]
  by_cases hk : k < 8
  · rw [hg k hk]
    by_cases e : k = bit
    · subst e; simp [hk]
    · have : ¬ bit = k := fun h => e h.symm
      simp [e, this]
  · have : ¬ bit = k := by omega
    simp [hk, this]

/-- clearing a bit of a bitmap byte -/
theorem bitmapByte_clear (f g : Nat → Bool) (j bit : Nat) (hb : bit < 8)
    (hg : ∀ k, k < 8 → g (8 * j + k) = if k = bit then false else f (8 * j + k)) :
    Nat.land (bitmapByte f j) (Gen.u8Not (Gen.u8Shl 1 bit)) = bitmapByte g j := by
  rw [Nat.land_eq]
  apply Nat.eq_of_testBit_eq
  intro k
  rw [Nat.testBit_and, bitmapByte_testBit, bitmapByte_testBit, u8Not_testBit bit k hb]
  by_cases hk : k < 8
  · rw [hg k hk]
    by_cases e : k = bit
    · subst e; simp
    · simp [e, hk]
  · simp [hk]

end Abyss
