import Abyss.Lemmas.EngineUpdAux1
/-!
# the item count of the hash-table file, for any store (not only a `Regular` one)

`htxCount_bytes` (EngineHtx.lean) is stated for a `Regular` store; inside `put` / `del` the count is
written after the bucket entry, when the model's intermediate store is not `Regular`. The count only
touches the 8 bytes at `htxItemCountOffset` of the header, so the statement holds for every store.
-/
namespace Abyss
open Store FileM
namespace EU

/-- the hash-table image split at the item count -/
theorem renderHtxFile_split (sig : List Nat) (hsig : sig.length = 8) (t : Store) :
    ∃ A B, A.length = 24 ∧ ∀ c, renderHtxFile sig { t with count := c } = A ++ le64 c ++ B := by
  refine ⟨Gen.htxSig1 ++ sig ++ le64 t.n,
    zeros (Gen.htxHeaderSz - 32) ++ ((List.range t.n).map fun i => le64 (t.headOf i)).flatten ++
      (List.range (t.htxEnd - (Gen.htxHeaderSz + t.n * 8))).map (bitmapByte t.bitOf), ?_, ?_⟩
  · simp only [List.length_append, le64_length, hsig, Gen.htxSig1, List.length_cons, List.length_nil]
  · intro c
    unfold renderHtxFile
    have hl : (Gen.htxSig1 ++ sig ++ le64 t.n ++ le64 c).length = 32 := by
      simp only [List.length_append, le64_length, hsig, Gen.htxSig1, List.length_cons, List.length_nil]
    simp only [hl]
    simp only [List.append_assoc]
    rfl

theorem htxReadItemCount_img {A B : List Nat} (hA : A.length = 24) {c : Nat} (hc : c < 2^64) (pos : Nat) :
    Gen.htxReadItemCount ⟨A ++ le64 c ++ B, pos⟩ = some (c, ⟨A ++ le64 c ++ B, 32⟩) := by
  unfold Gen.htxReadItemCount
  have hlen : Gen.htxItemCountOffset ≤ (A ++ le64 c ++ B).length := by
    simp only [List.length_append, le64_length, hA, Gen.htxItemCountOffset]; omega
  rw [bind_some (seekFromStart_spec _ _ pos hlen)]
  have hd : (A ++ le64 c ++ B).drop Gen.htxItemCountOffset = le64 c ++ B := by
    have : Gen.htxItemCountOffset = A.length := by rw [hA]; rfl
    rw [this, drop_app_mid]
  exact readU64Le_spec hd hc

theorem htxWriteItemCount_img {A B : List Nat} (hA : A.length = 24) (c c' : Nat) (pos : Nat) :
    Gen.htxWriteItemCount c' ⟨A ++ le64 c ++ B, pos⟩ = some ((), ⟨A ++ le64 c' ++ B, 32⟩) := by
  unfold Gen.htxWriteItemCount
  have hlen : Gen.htxItemCountOffset ≤ (A ++ le64 c ++ B).length := by
    simp only [List.length_append, le64_length, hA, Gen.htxItemCountOffset]; omega
  rw [bind_some (seekFromStart_spec _ _ pos hlen)]
  unfold FileM.writeU64Le
  rw [writeBytes_eq _ _ hlen]
  have := wr_app' (le64 c') A (le64 c) B (A ++ le64 c ++ B) Gen.htxItemCountOffset rfl
    (by rw [hA]; rfl) (by rw [le64_length, le64_length])
  rw [le64_length] at this
  exact congrArg (fun x => some ((), x)) this

/-- `write_item_count_up` / `write_item_count_down` on the image of any store -/
theorem htxCount_bytes_weak (sig : List Nat) (hsig : sig.length = 8) (t : Store) (hc : t.count < 2^64) (pos : Nat) :
    (∃ pos', Gen.htxWriteItemCountUp ⟨renderHtxFile sig t, pos⟩ =
      some ((), ⟨renderHtxFile sig { t with count := t.count + 1 }, pos'⟩)) ∧
    (∃ pos', Gen.htxWriteItemCountDown ⟨renderHtxFile sig t, pos⟩ =
      some ((), ⟨renderHtxFile sig { t with count := t.count - 1 }, pos'⟩)) := by
  obtain ⟨A, B, hA, hs⟩ := renderHtxFile_split sig hsig t
  have h0 : renderHtxFile sig t = A ++ le64 t.count ++ B := hs t.count
  rw [h0]
  constructor
  · refine ⟨32, ?_⟩
    unfold Gen.htxWriteItemCountUp
    rw [bind_some (htxReadItemCount_img hA hc pos), htxWriteItemCount_img hA, hs]
  · unfold Gen.htxWriteItemCountDown
    rw [bind_some (htxReadItemCount_img hA hc pos)]
    by_cases hz : t.count > 0
    · refine ⟨32, ?_⟩
      simp only [hz, decide_true, if_true]
      rw [htxWriteItemCount_img hA, hs]
    · refine ⟨32, ?_⟩
      simp only [hz, decide_false, Bool.false_eq_true, if_false]
      have e : t.count - 1 = t.count := by omega
      rw [pure_apply, hs, e]

end EU
end Abyss
