import Abyss.Lemmas.AllocBasic
/-!
# `WFH`: well-formedness with a hole, and the elementary allocator steps
-/
namespace Abyss
variable {α : Type}
namespace RecFile

/-- number of used slots -/
def usedCount (f : RecFile α) : Nat :=
  (f.slots.filter fun p => match p.2 with | .used _ _ => true | _ => false).length

def Slot.isUsed : Slot α → Bool
  | .used _ _ => true
  | _ => false

theorem usedCount_eq (f : RecFile α) : usedCount f = (f.slots.filter fun p => Slot.isUsed p.2).length := by
  unfold usedCount
  congr 2

/-! ## get / set / setHead -/

theorem get_set_self (f : RecFile α) (o : Nat) (s : Slot α) : (f.set o s).get o = some s :=
  aget_upsert_self _ _ _
theorem get_set_ne (f : RecFile α) (o o' : Nat) (s : Slot α) (h : o' ≠ o) :
    (f.set o s).get o' = f.get o' := aget_upsert_ne _ _ _ _ h

@[simp] theorem set_heads (f : RecFile α) (o : Nat) (s : Slot α) : (f.set o s).heads = f.heads := rfl
@[simp] theorem setHead_get (c : FileCfg) (f : RecFile α) (sz v o : Nat) : (setHead c f sz v).get o = f.get o := rfl
@[simp] theorem setHead_slots (c : FileCfg) (f : RecFile α) (sz v : Nat) : (setHead c f sz v).slots = f.slots := rfl
@[simp] theorem setHead_end (c : FileCfg) (f : RecFile α) (sz v : Nat) : (setHead c f sz v).end_ = f.end_ := rfl
theorem setHead_heads_len (c : FileCfg) (f : RecFile α) (sz v : Nat) :
    (setHead c f sz v).heads.length = f.heads.length := lset_length _ _ _
theorem setHead_head_self (c : FileCfg) (f : RecFile α) (sz v : Nat) (h : headIdx c sz < f.heads.length) :
    (setHead c f sz v).heads.getD (headIdx c sz) 0 = v := lset_getD_self _ _ _ _ h
theorem setHead_head_ne (c : FileCfg) (f : RecFile α) (sz v i : Nat) (h : i ≠ headIdx c sz) :
    (setHead c f sz v).heads.getD i 0 = f.heads.getD i 0 := lset_getD_ne _ _ _ _ _ h
theorem setHead_used (c : FileCfg) (f : RecFile α) (sz v o : Nat) : (setHead c f sz v).used o = f.used o := rfl
theorem setHead_usedCount (c : FileCfg) (f : RecFile α) (sz v : Nat) : usedCount (setHead c f sz v) = usedCount f := rfl

theorem set_end_same {f : RecFile α} {a : Nat} (ht : Tiled f.slots a f.end_) {o : Nat} {s s' : Slot α}
    (hg : f.get o = some s) (hs : s'.size = s.size) : (f.set o s').end_ = f.end_ := by
  have := ht.bounds hg
  show max f.end_ (o + s'.size) = f.end_
  omega

theorem set_length_same {f : RecFile α} {o : Nat} {s : Slot α} (s' : Slot α)
    (hg : f.get o = some s) : (f.set o s').slots.length = f.slots.length :=
  upsert_length_of_some _ hg

theorem usedCount_set_some {f : RecFile α} {o : Nat} {w : Slot α} (v : Slot α) (hg : f.get o = some w) :
    usedCount (f.set o v) + (if Slot.isUsed w then 1 else 0) = usedCount f + (if Slot.isUsed v then 1 else 0) := by
  rw [usedCount_eq, usedCount_eq]
  exact count_upsert_some Slot.isUsed v hg

theorem usedCount_set_none {f : RecFile α} {o : Nat} (v : Slot α) (hg : f.get o = none) :
    usedCount (f.set o v) = usedCount f + (if Slot.isUsed v then 1 else 0) := by
  rw [usedCount_eq, usedCount_eq]
  exact count_upsert_none Slot.isUsed v hg

theorem used_set_ne (f : RecFile α) (o o' : Nat) (s : Slot α) (h : o' ≠ o) : (f.set o s).used o' = f.used o' := by
  unfold used; rw [get_set_ne _ _ _ _ h]

/-! ## `WFH` -/

/-- well-formed except that the slot at `x` (if it is a free slot) is on no list -/
structure WFH (c : FileCfg) (f : RecFile α) (x : Nat) : Prop where
  tiled : Tiled f.slots c.headerSz f.end_
  heads_len : f.heads.length = 16
  sizes : ∀ o s, f.get o = some s → LegalSz c s.size
  lists : ∀ i, i < 16 → ∃ l, IsChain f (f.heads.getD i 0) l ∧ l.Nodup ∧ x ∉ l ∧
            ∀ o ∈ l, ∃ sz nx, f.get o = some (.free sz nx) ∧ headIdx c sz = i
  onlist : ∀ o sz nx, o ≠ x → f.get o = some (.free sz nx) →
            ∃ l, IsChain f (f.heads.getD (headIdx c sz) 0) l ∧ o ∈ l

theorem WF.toWFH {c : FileCfg} {f : RecFile α} (h : WF c f) {x : Nat}
    (hx : ∀ sz nx, f.get x ≠ some (.free sz nx)) : WFH c f x where
  tiled := h.tiled
  heads_len := h.heads_len
  sizes := h.sizes
  lists i hi := by
    obtain ⟨l, hl, nd, hcl⟩ := h.lists i hi
    refine ⟨l, ((freeChain_iff _ _ _ _).mp hl).1, nd, ?_, hcl⟩
    intro hm
    obtain ⟨sz, nx, hg, _⟩ := hcl x hm
    exact hx sz nx hg
  onlist o sz nx _ hg := by
    obtain ⟨l, hl, hm⟩ := h.onlist o sz nx hg
    exact ⟨l, ((freeChain_iff _ _ _ _).mp hl).1, hm⟩

theorem WFH.toWF {c : FileCfg} {f : RecFile α} {x : Nat} (h : WFH c f x)
    (hx : ∀ sz nx, f.get x ≠ some (.free sz nx)) : WF c f where
  tiled := h.tiled
  heads_len := h.heads_len
  sizes := h.sizes
  lists i hi := by
    obtain ⟨l, hl, nd, _, hcl⟩ := h.lists i hi
    refine ⟨l, (freeChain_iff _ _ _ _).mpr ⟨hl, ?_⟩, nd, hcl⟩
    have := hl.length_le nd
    omega
  onlist o sz nx hg := by
    have hox : o ≠ x := by
      intro e; subst e; exact hx sz nx hg
    obtain ⟨l, hl, hm⟩ := h.onlist o sz nx hox hg
    obtain ⟨l', hl', nd, _, _⟩ := h.lists (headIdx c sz) (by
      -- the head index is in range because the chain is non-empty
      apply Classical.byContradiction
      intro hge
      have : f.heads.getD (headIdx c sz) 0 = 0 := by
        rw [List.getD_eq_getElem?_getD, List.getElem?_eq_none (by rw [h.heads_len]; omega)]; rfl
      rw [this] at hl
      cases l with
      | nil => simp at hm
      | cons a l => exact hl.1 rfl)
    have := hl.unique hl'
    subst this
    refine ⟨l, (freeChain_iff _ _ _ _).mpr ⟨hl, ?_⟩, hm⟩
    have := hl.length_le nd
    omega

theorem get_zero_none {c : FileCfg} {f : RecFile α} (hc : CfgOK c) (ht : Tiled f.slots c.headerSz f.end_) :
    f.get 0 = none := ht.aget_lt hc.hdr_pos

theorem WF.toWFH0 {c : FileCfg} {f : RecFile α} (hc : CfgOK c) (h : WF c f) : WFH c f 0 :=
  h.toWFH (by intro sz nx; rw [get_zero_none hc h.tiled]; simp)

theorem WFH.toWF0 {c : FileCfg} {f : RecFile α} (hc : CfgOK c) (h : WFH c f 0) : WF c f :=
  h.toWF (by intro sz nx; rw [get_zero_none hc h.tiled]; simp)

/-- all 16 lists at once -/
theorem WFH.exists_L {c : FileCfg} {f : RecFile α} {x : Nat} (hc : CfgOK c) (h : WFH c f x) :
    ∃ L : Nat → List Nat,
      (∀ i, i < 16 → IsChain f (f.heads.getD i 0) (L i) ∧ (L i).Nodup ∧ x ∉ L i ∧
        ∀ o ∈ L i, ∃ sz nx, f.get o = some (.free sz nx) ∧ headIdx c sz = i) ∧
      (∀ o sz nx, o ≠ x → f.get o = some (.free sz nx) → o ∈ L (headIdx c sz)) := by
  have hl := h.lists
  refine ⟨fun i => if hi : i < 16 then Classical.choose (hl i hi) else [], ?_, ?_⟩
  · intro i hi
    simp only [hi, dif_pos]
    exact Classical.choose_spec (hl i hi)
  · intro o sz nx hox hg
    have hi := hc.idx_lt sz
    simp only [hi, dif_pos]
    obtain ⟨l, hl1, hm⟩ := h.onlist o sz nx hox hg
    have := hl1.unique (Classical.choose_spec (hl _ hi)).1
    rw [← this]; exact hm

theorem WFH.of_L {c : FileCfg} {f : RecFile α} {x : Nat} (hc : CfgOK c)
    (tiled : Tiled f.slots c.headerSz f.end_) (heads_len : f.heads.length = 16)
    (sizes : ∀ o s, f.get o = some s → LegalSz c s.size) (L : Nat → List Nat)
    (hL : ∀ i, i < 16 → IsChain f (f.heads.getD i 0) (L i) ∧ (L i).Nodup ∧ x ∉ L i ∧
        ∀ o ∈ L i, ∃ sz nx, f.get o = some (.free sz nx) ∧ headIdx c sz = i)
    (hon : ∀ o sz nx, o ≠ x → f.get o = some (.free sz nx) → o ∈ L (headIdx c sz)) : WFH c f x where
  tiled := tiled
  heads_len := heads_len
  sizes := sizes
  lists i hi := ⟨L i, hL i hi⟩
  onlist o sz nx hox hg := ⟨L _, (hL _ (hc.idx_lt sz)).1, hon o sz nx hox hg⟩

end RecFile
end Abyss
