import Abyss.Lemmas.AllocBytesAux1
/-!
# Byte-level allocator, part 2: the compound generated functions on plain byte lists

`writeFreeSlot_spec` (the four field writes of `push_free_piece_list`), `writePieceClear_spec`,
`readFreePieceSizeNext_spec`, `readFreePieceOffsetOnHeader_spec`,
`writeFreePieceOffsetOnHeader_spec`, and the field positions inside a rendered free slot.
-/
namespace Abyss
open Vu64 FileM

theorem freeContent_len_enc (sz nx : Nat) :
    (freeContent sz nx).length = (encode (sz / 8)).length + 9 := by
  unfold freeContent
  simp only [List.length_append, le64_length, List.length_cons, List.length_nil]

theorem freeContent_len_le14 (sz nx : Nat) (h32 : sz < 2^32) : (freeContent sz nx).length ≤ 14 := by
  have := encode_length_le5 (sz / 8) (by omega)
  rw [freeContent_len_enc]; omega

/-- the cleared slot written by `write_piece_clear` is the rendering of a free slot with link 0 -/
theorem padTo_clear (sz : Nat) (hfit : (encode (sz / 8)).length + 9 ≤ sz) :
    encode (sz / 8) ++ zeros (sz - (encode (sz / 8)).length) = padTo sz (freeContent sz 0) := by
  unfold padTo
  rw [freeContent_len_enc]
  unfold freeContent
  rw [List.append_assoc, List.append_assoc, ← List.append_assoc [0], nine_zeros, zeros_add]
  congr 2
  omega

/-- positions of the three fields of a free slot found at offset `o` -/
theorem free_fields {b rest : List Nat} {o sz nx : Nat} (hd : b.drop o = freeContent sz nx ++ rest) :
    b.drop o = encode (sz / 8) ++ ([0] ++ (le64 nx ++ rest)) ∧
    b.drop (o + (encode (sz / 8)).length) = [0] ++ (le64 nx ++ rest) ∧
    b.drop (o + (encode (sz / 8)).length + 1) = le64 nx ++ rest ∧
    o + (encode (sz / 8)).length + 9 ≤ b.length := by
  have h1 : b.drop o = encode (sz / 8) ++ ([0] ++ (le64 nx ++ rest)) := by
    rw [hd]; unfold freeContent; simp only [List.append_assoc]
  have h2 := drop_add_of_drop_eq h1
  have h3 := drop_add_of_drop_eq h2
  refine ⟨h1, h2, h3, ?_⟩
  have := lt_length_of_drop_eq h3
  simp only [List.length_cons, List.length_nil, le64_length] at this
  have := lt_length_of_drop_eq hd
  rw [freeContent_len_enc] at this
  omega

/-- step 3: `read_free_piece_size_next` at a rendered free slot -/
theorem readFreePieceSizeNext_spec {b rest : List Nat} {o sz nx : Nat} (p : Nat)
    (hd : b.drop o = freeContent sz nx ++ rest) (h8 : 8 ∣ sz) (h32 : sz < 2^32) (hnx : nx < 2^64) :
    Gen.readFreePieceSizeNext o ⟨b, p⟩ =
      some ((sz, nx), ⟨b, o + (encode (sz / 8)).length + 1 + 8⟩) := by
  obtain ⟨h1, h2, h3, hlen⟩ := free_fields hd
  unfold Gen.readFreePieceSizeNext
  rw [bind_some (seekFromStart_spec o b p (by omega)),
    bind_some (readPieceSize_spec h1 (by omega)),
    bind_some (readKeyLen_zero_spec h2),
    bind_some (readFreePieceOffset_spec h3 hnx), pure_apply, Nat.div_mul_cancel h8]

/-- step 4: the four field writes of `push_free_piece_list`, with the rest of the program `k` -/
theorem writeFreeSlot_spec {β : Type} (k : M β) (A old B b : List Nat) (o sz nx : Nat)
    (hb : b = A ++ old ++ B) (ho : o = A.length) (hold : old.length = sz)
    (hfit : (freeContent sz nx).length < sz) (h32 : sz < 2^32) :
    (do Gen.writePieceSize sz
        Gen.writeKeyLen 0
        Gen.writeFreePieceOffset nx
        Gen.writeZeroToOffset (o + sz)
        k) ⟨b, o⟩ = k ⟨A ++ padTo sz (freeContent sz nx) ++ B, o + sz⟩ := by
  have hok : (⟨b, o⟩ : FSt).pos ≤ (⟨b, o⟩ : FSt).bytes.length := by
    subst hb ho; simp only [List.length_append]; omega
  rw [freeContent_len_enc] at hfit
  have ok1 := wr_ok (encode (sz / 8)) _ hok
  have ok2 := wr_ok (encode 0) _ ok1
  have ok3 := wr_ok (le64 nx) _ ok2
  rw [bind_some (writePieceSize_spec sz _ hok), bind_some (writeKeyLen_spec 0 _ ok1),
    bind_some (writeFreePieceOffset_spec nx _ ok2)]
  have hpos : (wr (le64 nx) (wr (encode 0) (wr (encode (sz / 8)) ⟨b, o⟩))).pos =
      o + (encode (sz / 8)).length + 1 + 8 := by
    simp only [wr_pos, le64_length, encode_zero, List.length_cons, List.length_nil]
  rw [bind_some (writeZeroToOffset_spec (o + sz) _ ok3 (by rw [hpos]; omega) (by rw [hpos]; omega)),
    hpos, wr_wr _ _ _ hok, wr_wr _ _ _ hok, wr_wr _ _ _ hok]
  have hX : encode (sz / 8) ++ encode 0 ++ le64 nx ++
      zeros (o + sz - (o + (encode (sz / 8)).length + 1 + 8)) = padTo sz (freeContent sz nx) := by
    unfold padTo
    rw [freeContent_len_enc]
    unfold freeContent
    rw [encode_zero]
    congr 2
    omega
  rw [hX, wr_app' _ A old B b o hb ho (by rw [padTo_length _ _ (by rw [freeContent_len_enc]; omega), hold]),
    padTo_length _ _ (by rw [freeContent_len_enc]; omega)]

/-- `write_piece_clear(off, size)` on a slot of `size` bytes -/
theorem writePieceClear_spec (A old B b : List Nat) (o sz p : Nat)
    (hb : b = A ++ old ++ B) (ho : o = A.length) (hold : old.length = sz)
    (hfit : (encode (sz / 8)).length + 9 ≤ sz) (h32 : sz < 2^32) :
    Gen.writePieceClear o sz ⟨b, p⟩ =
      some ((), ⟨A ++ padTo sz (freeContent sz 0) ++ B, o + sz⟩) := by
  have hlen : o ≤ b.length := by subst hb ho; simp only [List.length_append]; omega
  have hok : (⟨b, o⟩ : FSt).pos ≤ (⟨b, o⟩ : FSt).bytes.length := hlen
  have ok1 := wr_ok (encode (sz / 8)) _ hok
  unfold Gen.writePieceClear
  rw [bind_some (seekFromStart_spec o b p hlen), bind_some (writePieceSize_spec sz _ hok)]
  have hpos : (wr (encode (sz / 8)) ⟨b, o⟩).pos = o + (encode (sz / 8)).length := rfl
  rw [bind_some (writeZeroToOffset_spec (o + sz) _ ok1 (by rw [hpos]; omega) (by rw [hpos]; omega)),
    hpos, wr_wr _ _ _ hok, pure_apply]
  have e : o + sz - (o + (encode (sz / 8)).length) = sz - (encode (sz / 8)).length := by omega
  have hl : (padTo sz (freeContent sz 0)).length = sz :=
    padTo_length _ _ (by rw [freeContent_len_enc]; omega)
  rw [e, padTo_clear sz hfit, wr_app' _ A old B b o hb ho (by rw [hl, hold]), hl]

/-- step 2, read: the head stored at the offset the code computes -/
theorem readFreePieceOffsetOnHeader_spec (c : FileCfg) (size : Nat) {A B b : List Nat} {h : Nat} (p : Nat)
    (hb : b = A ++ le64 h ++ B)
    (hA : A.length = Gen.freePieceListOffsetOfHeader c.freeOffsets c.sizeAry size) (hh : h < 2^64) :
    Gen.readFreePieceOffsetOnHeader c size ⟨b, p⟩ = some (h, ⟨b, A.length + 8⟩) := by
  unfold Gen.readFreePieceOffsetOnHeader
  simp only [← hA]
  have hlen : A.length ≤ b.length := by subst hb; simp only [List.length_append]; omega
  have hd : b.drop A.length = le64 h ++ B := by subst hb; exact drop_app_mid _ _ _
  rw [bind_some (seekFromStart_spec _ b p hlen)]
  exact readU64Le_spec hd hh

/-- step 2, write -/
theorem writeFreePieceOffsetOnHeader_spec (c : FileCfg) (size v : Nat) {A B b : List Nat} {h : Nat} (p : Nat)
    (hb : b = A ++ le64 h ++ B)
    (hA : A.length = Gen.freePieceListOffsetOfHeader c.freeOffsets c.sizeAry size) :
    Gen.writeFreePieceOffsetOnHeader c size v ⟨b, p⟩ = some ((), ⟨A ++ le64 v ++ B, A.length + 8⟩) := by
  unfold Gen.writeFreePieceOffsetOnHeader
  simp only [← hA]
  have hlen : A.length ≤ b.length := by subst hb; simp only [List.length_append]; omega
  rw [bind_some (seekFromStart_spec _ b p hlen)]
  unfold FileM.writeU64Le
  rw [writeBytes_eq _ _ hlen]
  have := wr_app' (le64 v) A (le64 h) B b A.length hb rfl (by rw [le64_length, le64_length])
  rw [le64_length] at this
  rw [← this]; rfl

end Abyss
