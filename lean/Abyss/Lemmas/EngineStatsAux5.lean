import Abyss.Lemmas.EngineStatsAux4
import Abyss.Lemmas.EngineStatsAux1
/-!
# statistics calls, byte level: the four walks of `dbxxx.rs` on the image of a state
-/
namespace Abyss
open Store FileM RecFile Vu64

section
variable {kt : KeyType} {s : Store} {d : DbSt}

/-! ## key file: iterator and loaders -/

theorem keyNew_img (g : Store.Regular kt s) (hd : d.IsImage kt s) :
    ∃ p, DbM.liftKey (Gen.pieceOffsetIterNew Gen.keyPieceA) d =
      some ((keyCfg.headerSz, s.kf.end_, 0), { d with key := ⟨d.key.bytes, p⟩ }) :=
  liftKey_img hd (fun pos => ⟨_, iterNew_img keyIterA g.kok pos⟩)

theorem keyNext_some (g : Store.Regular kt s) (hd : d.IsImage kt s) {cur a : Nat}
    (hn : NextIs s.kf keyCfg.headerSz cur a) (hlt : a < s.kf.end_) :
    ∃ p, DbM.liftKey (Gen.pieceOffsetIterNextPieceOffset Gen.keyPieceA (keyCfg.headerSz, s.kf.end_, cur)) d =
      some ((some a, (keyCfg.headerSz, s.kf.end_, a)), { d with key := ⟨d.key.bytes, p⟩ }) :=
  liftKey_img hd (fun pos => by
    obtain ⟨p, hp⟩ := iterNext_img keyIterA g.kok (keySlotForm g) hn s.kf.end_ pos
    rw [if_pos hlt] at hp
    exact ⟨p, hp⟩)

theorem keyNext_none (g : Store.Regular kt s) (hd : d.IsImage kt s) {cur a : Nat}
    (hn : NextIs s.kf keyCfg.headerSz cur a) (hlt : ¬ a < s.kf.end_) :
    ∃ p, DbM.liftKey (Gen.pieceOffsetIterNextPieceOffset Gen.keyPieceA (keyCfg.headerSz, s.kf.end_, cur)) d =
      some ((none, (keyCfg.headerSz, s.kf.end_, cur)), { d with key := ⟨d.key.bytes, p⟩ }) :=
  liftKey_img hd (fun pos => by
    obtain ⟨p, hp⟩ := iterNext_img keyIterA g.kok (keySlotForm g) hn s.kf.end_ pos
    rw [if_neg hlt] at hp
    exact ⟨p, hp⟩)

theorem loadKeyPieceSize_img (g : Store.Regular kt s) (hd : d.IsImage kt s) {o : Nat} {sl : Slot KeyRec}
    (hg : s.kf.get o = some sl) :
    ∃ p, Gen.loadKeyPieceSize o d = some (sl.size, { d with key := ⟨d.key.bytes, p⟩ }) :=
  liftKey_img hd (fun pos => sizeAt_img g.kok (keySlotForm g) hg pos)

theorem loadKeyLength_img (g : Store.Regular kt s) (hd : d.IsImage kt s) {o : Nat} {sl : Slot KeyRec}
    (hg : s.kf.get o = some sl) :
    ∃ p, Gen.loadKeyLength o d = some (keyLenOf sl, { d with key := ⟨d.key.bytes, p⟩ }) :=
  liftKey_img hd (fun pos => keyLenAt_img g.kok (keySlotForm g) hg pos)

/-! ## value file: iterator and loaders -/

theorem valNew_img (g : Store.Regular kt s) (hd : d.IsImage kt s) :
    ∃ p, DbM.liftVal (Gen.pieceOffsetIterNew Gen.valPieceA) d =
      some ((valCfg.headerSz, s.vf.end_, 0), { d with val := ⟨d.val.bytes, p⟩ }) :=
  liftVal_img hd (fun pos => ⟨_, iterNew_img valIterA g.vok pos⟩)

theorem valNext_some (g : Store.Regular kt s) (hd : d.IsImage kt s) {cur a : Nat}
    (hn : NextIs s.vf valCfg.headerSz cur a) (hlt : a < s.vf.end_) :
    ∃ p, DbM.liftVal (Gen.pieceOffsetIterNextPieceOffset Gen.valPieceA (valCfg.headerSz, s.vf.end_, cur)) d =
      some ((some a, (valCfg.headerSz, s.vf.end_, a)), { d with val := ⟨d.val.bytes, p⟩ }) :=
  liftVal_img hd (fun pos => by
    obtain ⟨p, hp⟩ := iterNext_img valIterA g.vok (valSlotForm g) hn s.vf.end_ pos
    rw [if_pos hlt] at hp
    exact ⟨p, hp⟩)

theorem valNext_none (g : Store.Regular kt s) (hd : d.IsImage kt s) {cur a : Nat}
    (hn : NextIs s.vf valCfg.headerSz cur a) (hlt : ¬ a < s.vf.end_) :
    ∃ p, DbM.liftVal (Gen.pieceOffsetIterNextPieceOffset Gen.valPieceA (valCfg.headerSz, s.vf.end_, cur)) d =
      some ((none, (valCfg.headerSz, s.vf.end_, cur)), { d with val := ⟨d.val.bytes, p⟩ }) :=
  liftVal_img hd (fun pos => by
    obtain ⟨p, hp⟩ := iterNext_img valIterA g.vok (valSlotForm g) hn s.vf.end_ pos
    rw [if_neg hlt] at hp
    exact ⟨p, hp⟩)

theorem loadValuePieceSize_img (g : Store.Regular kt s) (hd : d.IsImage kt s) {o : Nat} {sl : Slot (List Nat)}
    (hg : s.vf.get o = some sl) :
    ∃ p, Gen.loadValuePieceSize o d = some (sl.size, { d with val := ⟨d.val.bytes, p⟩ }) :=
  liftVal_img hd (fun pos => sizeAt_img g.vok (valSlotForm g) hg pos)

theorem loadValueLength_img (g : Store.Regular kt s) (hd : d.IsImage kt s) {o : Nat} {sl : Slot (List Nat)}
    (hg : s.vf.get o = some sl) :
    ∃ p, Gen.loadValueLength o d = some (valLenOf sl, { d with val := ⟨d.val.bytes, p⟩ }) :=
  liftVal_img hd (fun pos => valLenAt_img g.vok (valSlotForm g) hg pos)

end

/-! ## what a step of the walk needs of the slot list -/

section
variable {α : Type} {c : FileCfg} {sig2 : List Nat} {rs : Slot α → List Nat} {f : RecFile α}

/-- the walk has come to the end of the file -/
theorem walk_nil {a : Nat} (ht : Tiled ([] : List (Nat × Slot α)) a f.end_) : ¬ a < f.end_ := by
  have : a = f.end_ := ht
  omega

/-- the walk stands before the slot `(o, sl)` -/
theorem walk_cons (h : ByteOK c sig2 rs f) {o a : Nat} {sl : Slot α} {rest : List (Nat × Slot α)}
    (ht : Tiled ((o, sl) :: rest) a f.end_) (hm : ∀ p ∈ (o, sl) :: rest, f.get p.1 = some p.2) :
    o = a ∧ a < f.end_ ∧ f.get a = some sl ∧ Tiled rest (a + sl.size) f.end_ ∧
      (∀ p ∈ rest, f.get p.1 = some p.2) ∧ NextIs f c.headerSz a (a + sl.size) := by
  obtain ⟨ho, hpos, ht'⟩ := ht
  subst ho
  have hg : f.get o = some sl := hm (o, sl) List.mem_cons_self
  have hle := ht'.le
  obtain ⟨_, _, _, hhdr, _⟩ := h.slot_bounds hg
  have hp := h.cfg.hdr_pos
  exact ⟨rfl, by omega, hg, ht', fun p hp => hm p (List.mem_cons_of_mem _ hp),
    Or.inr ⟨by omega, sl, hg, rfl⟩⟩

end

/-! ## `key_piece_size_stats` -/

theorem keySizeLoop_img {kt : KeyType} {s : Store} (g : Store.Regular kt s) :
    ∀ (rest : List (Nat × Slot KeyRec)) (a cur : Nat) (acc : List (Nat × Nat)) (fuel : Nat) (d : DbSt),
      Tiled rest a s.kf.end_ → (∀ p ∈ rest, s.kf.get p.1 = some p.2) →
      NextIs s.kf keyCfg.headerSz cur a → rest.length < fuel → d.IsImage kt s →
      ∃ d', d'.IsImage kt s ∧
        Gen.keyPieceSizeStatsLoop fuel ((keyCfg.headerSz, s.kf.end_, cur), acc) d =
          some (rest.foldl (fun acc p => if keyLenOf p.2 ≠ 0 then touch acc p.2.size else acc) acc, d') := by
  intro rest
  induction rest with
  | nil =>
    intro a cur acc fuel d ht _ hn hfuel hd
    obtain _ | fuel := fuel
    · omega
    obtain ⟨p, hp⟩ := keyNext_none g hd hn (walk_nil ht)
    refine ⟨_, hd.keyPos p, ?_⟩
    unfold Gen.keyPieceSizeStatsLoop
    rw [DbM.bind_some hp]
    rfl
  | cons q rest ih =>
    intro a cur acc fuel d ht hm hn hfuel hd
    obtain ⟨o, sl⟩ := q
    obtain _ | fuel := fuel
    · omega
    obtain ⟨ho, hlt, hg, ht', hm', hn'⟩ := walk_cons g.kok ht hm
    subst ho
    obtain ⟨p1, h1⟩ := keyNext_some g hd hn hlt
    obtain ⟨p2, h2⟩ := loadKeyPieceSize_img g (hd.keyPos p1) hg
    obtain ⟨p3, h3⟩ := loadKeyLength_img g ((hd.keyPos p1).keyPos p2) hg
    have hd3 := ((hd.keyPos p1).keyPos p2).keyPos p3
    have hfuel' : rest.length < fuel := by
      rw [List.length_cons] at hfuel; omega
    unfold Gen.keyPieceSizeStatsLoop
    rw [DbM.bind_some h1]
    dsimp only
    rw [DbM.bind_some h2, DbM.bind_some h3, List.foldl_cons]
    by_cases hz : keyLenOf sl = 0
    · obtain ⟨d', hd', hl⟩ := ih (o + sl.size) o acc fuel _ ht' hm' hn' hfuel' hd3
      refine ⟨d', hd', ?_⟩
      rw [hz, if_neg not_beq_zero_self, if_neg (by simp only [ne_eq, not_true_eq_false, not_false_eq_true])]
      exact hl
    · obtain ⟨d', hd', hl⟩ := ih (o + sl.size) o (touch acc sl.size) fuel _ ht' hm' hn' hfuel' hd3
      refine ⟨d', hd', ?_⟩
      rw [if_pos (not_beq_zero hz), if_pos (by simpa using hz), touchSize_eq]
      exact hl

/-! ## `value_piece_size_stats` -/

theorem valSizeLoop_img {kt : KeyType} {s : Store} (g : Store.Regular kt s) :
    ∀ (rest : List (Nat × Slot (List Nat))) (a cur : Nat) (acc : List (Nat × Nat)) (fuel : Nat) (d : DbSt),
      Tiled rest a s.vf.end_ → (∀ p ∈ rest, s.vf.get p.1 = some p.2) →
      NextIs s.vf valCfg.headerSz cur a → rest.length < fuel → d.IsImage kt s →
      ∃ d', d'.IsImage kt s ∧
        Gen.valuePieceSizeStatsLoop fuel ((valCfg.headerSz, s.vf.end_, cur), acc) d =
          some (rest.foldl (fun acc p => if valLenOf p.2 ≠ 0 then touch acc p.2.size else acc) acc, d') := by
  intro rest
  induction rest with
  | nil =>
    intro a cur acc fuel d ht _ hn hfuel hd
    obtain _ | fuel := fuel
    · omega
    obtain ⟨p, hp⟩ := valNext_none g hd hn (walk_nil ht)
    refine ⟨_, hd.valPos p, ?_⟩
    unfold Gen.valuePieceSizeStatsLoop
    rw [DbM.bind_some hp]
    rfl
  | cons q rest ih =>
    intro a cur acc fuel d ht hm hn hfuel hd
    obtain ⟨o, sl⟩ := q
    obtain _ | fuel := fuel
    · omega
    obtain ⟨ho, hlt, hg, ht', hm', hn'⟩ := walk_cons g.vok ht hm
    subst ho
    obtain ⟨p1, h1⟩ := valNext_some g hd hn hlt
    obtain ⟨p2, h2⟩ := loadValuePieceSize_img g (hd.valPos p1) hg
    obtain ⟨p3, h3⟩ := loadValueLength_img g ((hd.valPos p1).valPos p2) hg
    have hd3 := ((hd.valPos p1).valPos p2).valPos p3
    have hfuel' : rest.length < fuel := by
      rw [List.length_cons] at hfuel; omega
    unfold Gen.valuePieceSizeStatsLoop
    rw [DbM.bind_some h1]
    dsimp only
    rw [DbM.bind_some h2, DbM.bind_some h3, List.foldl_cons]
    by_cases hz : valLenOf sl = 0
    · obtain ⟨d', hd', hl⟩ := ih (o + sl.size) o acc fuel _ ht' hm' hn' hfuel' hd3
      refine ⟨d', hd', ?_⟩
      rw [hz, if_neg not_beq_zero_self, if_neg (by simp only [ne_eq, not_true_eq_false, not_false_eq_true])]
      exact hl
    · obtain ⟨d', hd', hl⟩ := ih (o + sl.size) o (touch acc sl.size) fuel _ ht' hm' hn' hfuel' hd3
      refine ⟨d', hd', ?_⟩
      rw [if_pos (not_beq_zero hz), if_pos (by simpa using hz), touchSize_eq]
      exact hl

/-! ## `key_length_stats` -/

theorem keyLenLoop_img {kt : KeyType} {s : Store} (g : Store.Regular kt s) :
    ∀ (rest : List (Nat × Slot KeyRec)) (a cur : Nat) (acc : List (Nat × Nat)) (fuel : Nat) (d : DbSt),
      Tiled rest a s.kf.end_ → (∀ p ∈ rest, s.kf.get p.1 = some p.2) →
      NextIs s.kf keyCfg.headerSz cur a → rest.length < fuel → d.IsImage kt s →
      ∃ d', d'.IsImage kt s ∧
        Gen.keyLengthStatsLoop fuel ((keyCfg.headerSz, s.kf.end_, cur), acc) d =
          some (rest.foldl (fun acc p => if keyLenOf p.2 ≠ 0 then touch acc (keyLenOf p.2) else acc) acc, d') := by
  intro rest
  induction rest with
  | nil =>
    intro a cur acc fuel d ht _ hn hfuel hd
    obtain _ | fuel := fuel
    · omega
    obtain ⟨p, hp⟩ := keyNext_none g hd hn (walk_nil ht)
    refine ⟨_, hd.keyPos p, ?_⟩
    unfold Gen.keyLengthStatsLoop
    rw [DbM.bind_some hp]
    rfl
  | cons q rest ih =>
    intro a cur acc fuel d ht hm hn hfuel hd
    obtain ⟨o, sl⟩ := q
    obtain _ | fuel := fuel
    · omega
    obtain ⟨ho, hlt, hg, ht', hm', hn'⟩ := walk_cons g.kok ht hm
    subst ho
    obtain ⟨p1, h1⟩ := keyNext_some g hd hn hlt
    obtain ⟨p3, h3⟩ := loadKeyLength_img g (hd.keyPos p1) hg
    have hd3 := (hd.keyPos p1).keyPos p3
    have hfuel' : rest.length < fuel := by
      rw [List.length_cons] at hfuel; omega
    unfold Gen.keyLengthStatsLoop
    rw [DbM.bind_some h1]
    dsimp only
    rw [DbM.bind_some h3, List.foldl_cons]
    by_cases hz : keyLenOf sl = 0
    · obtain ⟨d', hd', hl⟩ := ih (o + sl.size) o acc fuel _ ht' hm' hn' hfuel' hd3
      refine ⟨d', hd', ?_⟩
      rw [hz, if_neg not_beq_zero_self, if_neg (by simp only [ne_eq, not_true_eq_false, not_false_eq_true])]
      exact hl
    · obtain ⟨d', hd', hl⟩ := ih (o + sl.size) o (touch acc (keyLenOf sl)) fuel _ ht' hm' hn' hfuel' hd3
      refine ⟨d', hd', ?_⟩
      rw [if_pos (not_beq_zero hz), if_pos (by simpa using hz), touchLength_eq]
      exact hl

/-! ## `value_length_stats` -/

theorem valLenLoop_img {kt : KeyType} {s : Store} (g : Store.Regular kt s) :
    ∀ (rest : List (Nat × Slot (List Nat))) (a cur : Nat) (acc : List (Nat × Nat)) (fuel : Nat) (d : DbSt),
      Tiled rest a s.vf.end_ → (∀ p ∈ rest, s.vf.get p.1 = some p.2) →
      NextIs s.vf valCfg.headerSz cur a → rest.length < fuel → d.IsImage kt s →
      ∃ d', d'.IsImage kt s ∧
        Gen.valueLengthStatsLoop fuel ((valCfg.headerSz, s.vf.end_, cur), acc) d =
          some (rest.foldl (fun acc p => if valLenOf p.2 ≠ 0 then touch acc (valLenOf p.2) else acc) acc, d') := by
  intro rest
  induction rest with
  | nil =>
    intro a cur acc fuel d ht _ hn hfuel hd
    obtain _ | fuel := fuel
    · omega
    obtain ⟨p, hp⟩ := valNext_none g hd hn (walk_nil ht)
    refine ⟨_, hd.valPos p, ?_⟩
    unfold Gen.valueLengthStatsLoop
    rw [DbM.bind_some hp]
    rfl
  | cons q rest ih =>
    intro a cur acc fuel d ht hm hn hfuel hd
    obtain ⟨o, sl⟩ := q
    obtain _ | fuel := fuel
    · omega
    obtain ⟨ho, hlt, hg, ht', hm', hn'⟩ := walk_cons g.vok ht hm
    subst ho
    obtain ⟨p1, h1⟩ := valNext_some g hd hn hlt
    obtain ⟨p3, h3⟩ := loadValueLength_img g (hd.valPos p1) hg
    have hd3 := (hd.valPos p1).valPos p3
    have hfuel' : rest.length < fuel := by
      rw [List.length_cons] at hfuel; omega
    unfold Gen.valueLengthStatsLoop
    rw [DbM.bind_some h1]
    dsimp only
    rw [DbM.bind_some h3, List.foldl_cons]
    by_cases hz : valLenOf sl = 0
    · obtain ⟨d', hd', hl⟩ := ih (o + sl.size) o acc fuel _ ht' hm' hn' hfuel' hd3
      refine ⟨d', hd', ?_⟩
      rw [hz, if_neg not_beq_zero_self, if_neg (by simp only [ne_eq, not_true_eq_false, not_false_eq_true])]
      exact hl
    · obtain ⟨d', hd', hl⟩ := ih (o + sl.size) o (touch acc (valLenOf sl)) fuel _ ht' hm' hn' hfuel' hd3
      refine ⟨d', hd', ?_⟩
      rw [if_pos (not_beq_zero hz), if_pos (by simpa using hz), touchLength_eq]
      exact hl

end Abyss
