import Abyss.Lemmas.AllocSteps
/-!
# `pushFree`, `popLarge`, `popFree`, `addPiece` on well-formed record files
-/
namespace Abyss
variable {α : Type}
namespace RecFile

theorem used_eq_some {f : RecFile α} {o sz : Nat} {p : α} :
    f.used o = some (sz, p) ↔ f.get o = some (.used sz p) := by
  unfold used
  split
  · rename_i s p' hg; rw [hg]; simp
  · rename_i hn
    constructor
    · intro h; cases h
    · intro h; exact absurd h (hn sz p)

theorem used_of_free {f : RecFile α} {o sz nx : Nat} (h : f.get o = some (.free sz nx)) : f.used o = none := by
  unfold used; rw [h]

theorem used_of_none {f : RecFile α} {o : Nat} (h : f.get o = none) : f.used o = none := by
  unfold used; rw [h]

/-- `pushFree` of a used slot -/
theorem pushFree_spec {c : FileCfg} {f : RecFile α} (hc : CfgOK c) (h : WF c f) {off sz0 : Nat} {p0 : α}
    (hg : f.get off = some (.used sz0 p0)) :
    WF c (pushFree c f off sz0) ∧ (∃ nx, (pushFree c f off sz0).get off = some (.free sz0 nx)) ∧
    (∀ o, o ≠ off → (pushFree c f off sz0).get o = f.get o) ∧
    usedCount (pushFree c f off sz0) + 1 = usedCount f ∧
    (pushFree c f off sz0).slots.length = f.slots.length ∧ (pushFree c f off sz0).end_ = f.end_ := by
  have hb := h.tiled.bounds hg
  have hpos := hc.hdr_pos
  have h0 : off ≠ 0 := by omega
  have e : pushFree c f off sz0 = setHead c (f.set off (.free sz0 (headOf c f sz0))) sz0 off := by
    unfold pushFree; rw [if_neg h0]
  rw [e]
  have hsz : (Slot.free sz0 (headOf c f sz0) : Slot α).size = (Slot.used sz0 p0 : Slot α).size := rfl
  have w1 : WFH c f off := h.toWFH (by intro sz nx; rw [hg]; simp)
  have w2 := w1.set_same hc hg hsz
  have w3 := w2.link_head hc h0 (sz := sz0) (by rw [get_set_self]; rfl)
  refine ⟨w3.toWF0 hc, ⟨_, by rw [setHead_get, get_set_self]⟩, ?_, ?_, ?_, ?_⟩
  · intro o ho; rw [setHead_get, get_set_ne _ _ _ _ ho]
  · rw [setHead_usedCount]
    have := usedCount_set_some (.free sz0 (headOf c f sz0)) hg
    simpa [Slot.isUsed] using this
  · rw [setHead_slots]; exact set_length_same _ hg
  · rw [setHead_end]; exact set_end_same h.tiled hg hsz

/-- outcome of a pop: nothing that fits, or a slot that is now a hole -/
def PopOK (c : FileCfg) (f : RecFile α) (need off : Nat) (f1 : RecFile α) : Prop :=
  (off = 0 ∧ f1 = f ∧ ∀ l, IsChain f (f.heads.getD (headIdx c need) 0) l →
      ∀ o ∈ l, ∀ sz nx, f.get o = some (.free sz nx) → sz < need) ∨
  (off ≠ 0 ∧ ∃ sz nx, f.get off = some (.free sz nx) ∧ need ≤ sz ∧ f1.get off = some (.free sz 0) ∧
      WFH c f1 off ∧ (∀ o, f1.used o = f.used o) ∧ usedCount f1 = usedCount f ∧
      f1.slots.length = f.slots.length ∧ f1.end_ = f.end_)

theorem popOK_head {c : FileCfg} {f : RecFile α} (hc : CfgOK c) (h : WFH c f 0) {need hd sz nx : Nat}
    (hh : f.heads.getD (headIdx c need) 0 = hd) (hd0 : hd ≠ 0) (hg : f.get hd = some (.free sz nx))
    (hi : headIdx c sz = headIdx c need) (hn : need ≤ sz) :
    PopOK c f need hd ((setHead c f need nx).set hd (.free sz 0)) := by
  have e : setHead c f need nx = setHead c f sz nx := by unfold setHead; rw [hi]
  rw [e]
  rw [← hi] at hh
  have w1 := h.unlink_head hc hh hd0 hg
  have hg1 : (setHead c f sz nx).get hd = some (.free sz nx) := hg
  have hsz : (Slot.free sz 0 : Slot α).size = (Slot.free sz nx : Slot α).size := rfl
  have w2 := w1.set_same hc hg1 hsz
  refine Or.inr ⟨hd0, sz, nx, hg, hn, get_set_self _ _ _, w2, ?_, ?_, ?_, ?_⟩
  · intro o
    by_cases ho : o = hd
    · subst ho; rw [used_of_free (get_set_self _ _ _), used_of_free hg]
    · rw [used_set_ne _ _ _ _ ho, setHead_used]
  · have := usedCount_set_some (.free sz 0) hg1
    simpa [Slot.isUsed, setHead_usedCount] using this
  · rw [set_length_same _ hg1, setHead_slots]
  · have ht : Tiled (setHead c f sz nx).slots c.headerSz (setHead c f sz nx).end_ := h.tiled
    rw [set_end_same ht hg1 hsz, setHead_end]

theorem popOK_mid {c : FileCfg} {f : RecFile α} (hc : CfgOK c) (h : WFH c f 0) {need : Nat}
    {l1 l2 : List Nat} {prev cur : Nat}
    (hl : IsChain f (f.heads.getD (headIdx c need) 0) (l1 ++ prev :: cur :: l2))
    {psz sz nx : Nat} (hgp : f.get prev = some (.free psz cur)) (hgc : f.get cur = some (.free sz nx))
    (hn : need ≤ sz) :
    PopOK c f need cur ((f.set prev (.free psz nx)).set cur (.free sz 0)) := by
  have hi := hc.idx_lt need
  have w1 := h.unlink_mid hc hi hl hgp hgc
  have hc0 : cur ≠ 0 := (hl.mem_free (o := cur) (by simp)).1
  have hpc : cur ≠ prev := by
    obtain ⟨l, a1, a2, _, _⟩ := h.lists _ hi
    have := a1.unique hl
    subst this
    intro e; subst e
    have := (List.nodup_append.mp a2).2.1
    simp at this
  have hg1 : (f.set prev (.free psz nx)).get cur = some (.free sz nx) := by
    rw [get_set_ne _ _ _ _ hpc]; exact hgc
  have hsz : (Slot.free sz 0 : Slot α).size = (Slot.free sz nx : Slot α).size := rfl
  have hszp : (Slot.free psz nx : Slot α).size = (Slot.free psz cur : Slot α).size := rfl
  have w2 := w1.set_same hc hg1 hsz
  refine Or.inr ⟨hc0, sz, nx, hgc, hn, get_set_self _ _ _, w2, ?_, ?_, ?_, ?_⟩
  · intro o
    by_cases ho : o = cur
    · subst ho; rw [used_of_free (get_set_self _ _ _), used_of_free hgc]
    · rw [used_set_ne _ _ _ _ ho]
      by_cases hop : o = prev
      · subst hop; rw [used_of_free (get_set_self _ _ _), used_of_free hgp]
      · rw [used_set_ne _ _ _ _ hop]
  · have a := usedCount_set_some (.free sz 0) hg1
    have b := usedCount_set_some (.free psz nx) hgp
    simp [Slot.isUsed] at a b
    omega
  · rw [set_length_same _ hg1, set_length_same _ hgp]
  · rw [set_end_same w1.tiled hg1 hsz, set_end_same h.tiled hgp hszp]

theorem popLarge_spec {c : FileCfg} {f : RecFile α} (hc : CfgOK c) (h : WFH c f 0) {need : Nat}
    {l2 : List Nat} : ∀ {fuel prev cur : Nat} {l1 : List Nat},
    IsChain f (f.heads.getD (headIdx c need) 0) (l1 ++ l2) → IsChain f cur l2 → l2.length < fuel →
    ((l1 = [] ∧ prev = 0) ∨ ∃ l1', l1 = l1' ++ [prev]) →
    (∀ o ∈ l1, ∀ sz nx, f.get o = some (.free sz nx) → sz < need) →
    ∃ off f1, popLarge c need fuel f prev cur = some (off, f1) ∧ PopOK c f need off f1 := by
  induction l2 with
  | nil =>
    intro fuel prev cur l1 hl hcur hfuel hprev hsmall
    obtain ⟨fuel, rfl⟩ : ∃ k, fuel = k + 1 := ⟨fuel - 1, by omega⟩
    have hc0 : cur = 0 := hcur
    refine ⟨0, f, by simp [popLarge, hc0], Or.inl ⟨rfl, rfl, ?_⟩⟩
    intro l hl' o ho
    have := hl'.unique hl
    subst this
    simp only [List.append_nil] at ho
    exact hsmall o ho
  | cons o l2 ih =>
    intro fuel prev cur l1 hl hcur hfuel hprev hsmall
    obtain ⟨fuel, rfl⟩ : ∃ k, fuel = k + 1 := ⟨fuel - 1, by omega⟩
    obtain ⟨hc0, rfl, sz, nx, hg, hnx⟩ := hcur
    simp only [List.length_cons, Nat.add_lt_add_iff_right] at hfuel
    have hi := hc.idx_lt need
    obtain ⟨l, a1, a2, _, a4⟩ := h.lists _ hi
    have := a1.unique hl
    subst this
    by_cases hn : need ≤ sz
    · by_cases hp : prev = 0
      · subst hp
        have hl1 : l1 = [] := by
          rcases hprev with ⟨e, _⟩ | ⟨l1', e⟩
          · exact e
          · exfalso
            have : (0 : Nat) ∈ l1 ++ o :: l2 := by rw [e]; simp
            exact (hl.mem_free this).1 rfl
        subst hl1
        simp only [List.nil_append] at hl a4
        have hh : f.heads.getD (headIdx c need) 0 = o := hl.2.1.symm
        obtain ⟨sz', nx', hg', hcl⟩ := a4 o (by simp)
        rw [hg] at hg'
        simp only [Option.some.injEq, Slot.free.injEq] at hg'
        obtain ⟨rfl, rfl⟩ := hg'
        refine ⟨o, _, ?_, popOK_head hc h hh hc0 hg hcl hn⟩
        simp [popLarge, hc0, hg, hn]
      · obtain ⟨l1', e⟩ : ∃ l1', l1 = l1' ++ [prev] := by
          rcases hprev with ⟨_, e⟩ | e
          · exact absurd e hp
          · exact e
        subst e
        have hl' : IsChain f (f.heads.getD (headIdx c need) 0) (l1' ++ prev :: o :: l2) := by
          simpa using hl
        have a2' : (l1' ++ prev :: o :: l2).Nodup := by simpa using a2
        obtain ⟨psz, sz', nx', hgp, hg', _⟩ := hl'.unlink a2'
        refine ⟨o, _, ?_, popOK_mid hc h hl' hgp hg hn⟩
        simp [popLarge, hc0, hg, hn, hp, hgp]
    · have := @ih fuel o nx (l1 ++ [o]) (by simpa using hl) hnx hfuel (Or.inr ⟨l1, rfl⟩) (by
        intro o' ho' sz' nx' hg'
        rcases List.mem_append.mp ho' with hm | hm
        · exact hsmall o' hm sz' nx' hg'
        · simp only [List.mem_singleton] at hm
          subst hm
          rw [hg] at hg'
          simp only [Option.some.injEq, Slot.free.injEq] at hg'
          obtain ⟨rfl, _⟩ := hg'
          omega)
      obtain ⟨off, f1, e1, e2⟩ := this
      refine ⟨off, f1, ?_, e2⟩
      simp [popLarge, hc0, hg, hn, e1]

theorem popFree_spec {c : FileCfg} {f : RecFile α} (hc : CfgOK c) (h : WF c f) {need : Nat}
    (hn : LegalSz c need) : ∃ off f1, popFree c f need = some (off, f1) ∧ PopOK c f need off f1 := by
  have w := h.toWFH0 hc
  have hi := hc.idx_lt need
  obtain ⟨l, a1, a2, _, a4⟩ := w.lists _ hi
  unfold popFree
  simp only
  cases hL : Gen.isLargePieceSize c.sizeAry need with
  | true =>
    simp only [if_true]
    have hlen := a1.length_le a2
    exact popLarge_spec hc w (l1 := []) (l2 := l) (by simpa using a1) a1 (by omega) (Or.inl ⟨rfl, rfl⟩)
      (by intro o ho; simp at ho)
  | false =>
    simp only [Bool.false_eq_true, if_false]
    by_cases hd0 : headOf c f need = 0
    · rw [if_pos hd0]
      refine ⟨0, f, rfl, Or.inl ⟨rfl, rfl, ?_⟩⟩
      intro l' hl' o ho
      have e : f.heads.getD (headIdx c need) 0 = 0 := hd0
      rw [e] at hl'
      cases l' with
      | nil => simp at ho
      | cons a l' => exact absurd rfl hl'.1
    · rw [if_neg hd0]
      have e : f.heads.getD (headIdx c need) 0 = headOf c f need := rfl
      cases l with
      | nil => exact absurd (e ▸ a1) hd0
      | cons o t =>
        obtain ⟨_, ho, sz, nx, hg, _⟩ := a1
        rw [e] at ho hg
        subst ho
        obtain ⟨sz', nx', hg', hcl⟩ := a4 (headOf c f need) (by simp)
        rw [hg] at hg'
        simp only [Option.some.injEq, Slot.free.injEq] at hg'
        obtain ⟨rfl, rfl⟩ := hg'
        have hsz : sz = need := hc.small_exact need sz hn (h.sizes _ _ hg) hL hcl
        rw [hg]
        exact ⟨_, _, rfl, popOK_head hc w e hd0 hg hcl (by omega)⟩

/-- everything the later lemmas need about `addPiece` on a well-formed file -/
theorem addPiece_full {c : FileCfg} {f : RecFile α} (hc : CfgOK c) (h : WF c f) {need : Nat}
    (hn : LegalSz c need) (p : α) :
    ∃ off sz f', addPiece c f need p = some (off, f') ∧ WF c f' ∧ need ≤ sz ∧
      f'.used off = some (sz, p) ∧ f.used off = none ∧ off ≠ 0 ∧
      (∀ o, o ≠ off → f'.used o = f.used o) ∧
      usedCount f' = usedCount f + 1 ∧ f.slots.length ≤ f'.slots.length ∧ f.end_ ≤ f'.end_ ∧
      ((off = f.end_ ∧ f'.end_ = f.end_ + need ∧
          ∀ l, IsChain f (f.heads.getD (headIdx c need) 0) l →
            ∀ o ∈ l, ∀ sz nx, f.get o = some (.free sz nx) → sz < need) ∨
       (∃ nx, f.get off = some (.free sz nx) ∧ f'.end_ = f.end_)) := by
  obtain ⟨off, f1, hpop, hok⟩ := popFree_spec hc h hn
  have hpos := hc.legal_pos _ hn
  rcases hok with ⟨rfl, rfl, hsmall⟩ | ⟨h0, sz, nx, hg, hle, hg1, w, hu, hcnt, hlen, hend⟩
  · have hend : f1.get f1.end_ = none := h.tiled.aget_end
    have w := (h.toWFH0 hc).set_end hc (s := Slot.used need p) hn (by intro _ _ e; cases e)
    have hpos' := hc.hdr_pos
    have hle := h.tiled.le
    have e' : (f1.set f1.end_ (Slot.used need p)).end_ = f1.end_ + need := by
      show max f1.end_ (f1.end_ + need) = _
      omega
    refine ⟨f1.end_, need, f1.set f1.end_ (.used need p), by simp [addPiece, allocSlot, hpop],
      w.toWF0 hc, Nat.le_refl _, used_eq_some.mpr (get_set_self _ _ _), used_of_none hend, by omega,
      fun o ho => used_set_ne _ _ _ _ ho, ?_, length_le_upsert _ _ _, by omega, Or.inl ⟨rfl, e', hsmall⟩⟩
    have := usedCount_set_none (.used need p) hend
    simpa [Slot.isUsed] using this
  · have hsz : (Slot.used sz p : Slot α).size = (Slot.free sz 0 : Slot α).size := rfl
    have w2 := w.set_same hc hg1 hsz
    have e' : (f1.set off (.used sz p)).end_ = f.end_ := by
      rw [set_end_same w.tiled hg1 hsz, hend]
    refine ⟨off, sz, f1.set off (.used sz p), by simp [addPiece, allocSlot, hpop, h0, hg1, Slot.size],
      w2.toWF (by intro _ _; rw [get_set_self]; simp), hle, used_eq_some.mpr (get_set_self _ _ _),
      used_of_free hg, h0, fun o ho => by rw [used_set_ne _ _ _ _ ho, hu], ?_, ?_, by omega,
      Or.inr ⟨nx, hg, e'⟩⟩
    · have := usedCount_set_some (.used sz p) hg1
      simp [Slot.isUsed] at this
      omega
    · rw [set_length_same _ hg1, hlen]; exact Nat.le_refl _

end RecFile
end Abyss
