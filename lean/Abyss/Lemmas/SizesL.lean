import Abyss.Render
import Abyss.Lemmas.Vu64L
/-!
# Slot-size arithmetic (helper lemmas for C09)

* `Gen.roundup` on the generated size tables: result is ≥ the request, a multiple of 8, ≥ 16,
  and either a table entry (≤ 896) or at most 128 above the request;
* `Vu64.encodedLen` is monotone, with an explicit case description usable by `omega`;
* the central inequality `fits_arith`: a slot that has room for the *estimated* size field
  (computed from the payload length) also has room for the *actual* size field (computed from
  the slot size);
* closed forms of `valueNeed`, `keyNeed` and of the lengths of the rendered record contents.

Everything lives in `Abyss.Sizes` so that the names cannot clash with `Abyss/Lemmas/Vu64L.lean`.
-/
namespace Abyss.Sizes
open Vu64

/-! ## `encodedLen` -/

/-- `encodedLen` by cases, in a form `omega` can consume. -/
theorem encodedLen_cases (v : Nat) :
    (v < 2^7 ∧ encodedLen v = 1) ∨ (2^7 ≤ v ∧ v < 2^14 ∧ encodedLen v = 2) ∨
    (2^14 ≤ v ∧ v < 2^21 ∧ encodedLen v = 3) ∨ (2^21 ≤ v ∧ v < 2^28 ∧ encodedLen v = 4) ∨
    (2^28 ≤ v ∧ v < 2^35 ∧ encodedLen v = 5) ∨ (2^35 ≤ v ∧ v < 2^42 ∧ encodedLen v = 6) ∨
    (2^42 ≤ v ∧ v < 2^49 ∧ encodedLen v = 7) ∨ (2^49 ≤ v ∧ v < 2^56 ∧ encodedLen v = 8) ∨
    (2^56 ≤ v ∧ encodedLen v = 9) := by
  unfold encodedLen
  repeat' split
  all_goals omega

theorem encodedLen_ge_one (v : Nat) : 1 ≤ encodedLen v := by
  rcases encodedLen_cases v with h | h | h | h | h | h | h | h | h <;> omega

theorem encodedLen_le_nine (v : Nat) : encodedLen v ≤ 9 := by
  rcases encodedLen_cases v with h | h | h | h | h | h | h | h | h <;> omega

theorem encodedLen_mono {a b : Nat} (hab : a ≤ b) : encodedLen a ≤ encodedLen b := by
  rcases encodedLen_cases a with h | h | h | h | h | h | h | h | h <;>
  rcases encodedLen_cases b with g | g | g | g | g | g | g | g | g <;> omega

theorem encodedLen_div8_le (a : Nat) : encodedLen (a / 8) ≤ encodedLen a :=
  encodedLen_mono (Nat.div_le_self a 8)

/-- a value below `2^35` needs at most 5 bytes -/
theorem encodedLen_le_five {v : Nat} (h : v < 2^35) : encodedLen v ≤ 5 := by
  rcases encodedLen_cases v with h | h | h | h | h | h | h | h | h <;> omega

/-! ## `roundup` -/

/-- `roundup` returns a member of the table without its last entry that is ≥ the request,
or else the next multiple of 128 strictly above the request. -/
theorem roundup_cases (tbl : List Nat) (x : Nat) :
    (∃ n ∈ tbl.take (tbl.length - 1), x ≤ n ∧ Gen.roundup tbl x = n) ∨
    Gen.roundup tbl x = ((x + 128) / 128) * 128 := by
  unfold Gen.roundup
  cases h : (tbl.take (tbl.length - 1)).find? (fun nSz => decide (x ≤ nSz)) with
  | some n =>
    left
    exact ⟨n, List.mem_of_find?_eq_some h, by simpa using List.find?_some h, by simp only [h]⟩
  | none => right; simp only [h]

theorem roundup_val_spec (x : Nat) :
    x ≤ Gen.roundup Gen.valSizeAry x ∧ 8 ∣ Gen.roundup Gen.valSizeAry x ∧
    16 ≤ Gen.roundup Gen.valSizeAry x ∧
    (Gen.roundup Gen.valSizeAry x ≤ 896 ∨ Gen.roundup Gen.valSizeAry x ≤ x + 128) := by
  rcases roundup_cases Gen.valSizeAry x with ⟨n, hmem, hle, heq⟩ | heq
  · rw [heq]
    simp [Gen.valSizeAry] at hmem
    omega
  · rw [heq]
    omega

theorem roundup_key_spec (x : Nat) :
    x ≤ Gen.roundup Gen.keySizeAry x ∧ 8 ∣ Gen.roundup Gen.keySizeAry x ∧
    16 ≤ Gen.roundup Gen.keySizeAry x ∧
    (Gen.roundup Gen.keySizeAry x ≤ 896 ∨ Gen.roundup Gen.keySizeAry x ≤ x + 128) := by
  rcases roundup_cases Gen.keySizeAry x with ⟨n, hmem, hle, heq⟩ | heq
  · rw [heq]
    simp [Gen.keySizeAry] at hmem
    omega
  · rw [heq]
    omega

/-! ## the central inequality -/

/-- If a slot of size `S` (a multiple of 8 below 2^32) has room for the payload `pl` plus the
size field *estimated from the payload*, it has room for the payload plus the size field
*computed from `S`*. -/
theorem fits_arith (pl S : Nat) (h8 : 8 ∣ S) (hlt : S < 2^32)
    (hest : encodedLen ((pl + 7) / 8) + pl ≤ S) : encodedLen (S / 8) + pl ≤ S := by
  obtain ⟨k, rfl⟩ := h8
  rw [Nat.mul_div_cancel_left k (by decide : 0 < 8)]
  have hk : k < 2^29 := by omega
  rcases encodedLen_cases k with h | h | h | h | h | h | h | h | h <;>
  rcases encodedLen_cases ((pl + 7) / 8) with g | g | g | g | g | g | g | g | g <;> omega

/-! ## closed forms of the requested sizes -/

/-- payload length of a value record: length field + bytes -/
def valPl (len : Nat) : Nat := encodedLen len + len

/-- payload length the Rust code *estimates* for a key record (offsets unscaled) -/
def keyPlEst (r : KeyRec) : Nat :=
  encodedLen r.key.length + r.key.length + encodedLen r.valOff + encodedLen r.next

/-- payload length of a key record as written (offsets divided by 8) -/
def keyPl (r : KeyRec) : Nat :=
  encodedLen r.key.length + r.key.length + encodedLen (r.valOff / 8) + encodedLen (r.next / 8)

theorem keyPl_le_est (r : KeyRec) : keyPl r ≤ keyPlEst r := by
  have h1 := encodedLen_div8_le r.valOff
  have h2 := encodedLen_div8_le r.next
  unfold keyPl keyPlEst
  omega

theorem valueNeed_eq (len : Nat) (h : len < 2^32) :
    valueNeed len =
      Gen.roundup Gen.valSizeAry (encodedLen ((valPl len + 7) / 8) + valPl len) := by
  simp only [valueNeed, Gen.valueEncodedPieceSize, valCfg, valPl, Nat.mod_eq_of_lt h]

theorem keyNeed_eq (r : KeyRec) (h : r.key.length < 2^32) :
    keyNeed r =
      Gen.roundup Gen.keySizeAry (encodedLen ((keyPlEst r + 7) / 8) + keyPlEst r) := by
  simp only [keyNeed, Gen.keyEncodedPieceSize, keyCfg, keyPlEst, Nat.mod_eq_of_lt h]

/-! ## lengths of the rendered contents -/

theorem valContent_length (S : Nat) (v : List Nat) :
    (valContent S v).length = encodedLen (S / 8) + valPl v.length := by
  simp only [valContent, valPl, List.length_append, Vu64.encode_length]
  omega

theorem keyContent_length (S : Nat) (r : KeyRec) :
    (keyContent S r).length = encodedLen (S / 8) + keyPl r := by
  simp only [keyContent, keyPl, List.length_append, Vu64.encode_length]
  omega

theorem freeContent_length (S nx : Nat) :
    (freeContent S nx).length = encodedLen (S / 8) + 9 := by
  simp only [freeContent, le64, List.length_append, Vu64.encode_length, Vu64.leBytes_length,
    List.length_cons, List.length_nil]

theorem padTo_length {S : Nat} {c : List Nat} (h : c.length ≤ S) : (padTo S c).length = S := by
  simp only [padTo, zeros, List.length_append, List.length_replicate]
  omega

end Abyss.Sizes
