import Abyss.Open
import Abyss.Lemmas.ParseRecGen
/-!
# Header lemmas for the open checks (`recHeaderAccepts`, `htxHeaderAccepts`) on rendered files
-/
namespace Abyss
open Vu64

theorem KeyType.sig_length (kt : KeyType) : kt.sig.length = 8 := by cases kt <;> rfl

theorem ofLeBytes_zeros8 : ofLeBytes (zeros 8) = 0 := by decide

/-- bytes 16..24 of a record-file header are the reserved zero field -/
theorem renderRecHeader_drop16_take {α : Type} (c : FileCfg) (sig2 : List Nat) (f : RecFile α)
    (rest : List Nat) (h1 : c.sig1.length = 8) (h2 : sig2.length = 8) (h3 : 24 ≤ c.first) :
    ((renderRecHeader c sig2 f ++ rest).drop 16).take 8 = zeros 8 := by
  unfold renderRecHeader
  have hl : (c.sig1 ++ sig2).length = 16 := by simp [h1, h2]
  simp only [hl, List.append_assoc]
  rw [← List.append_assoc, List.drop_left' hl]
  obtain ⟨k, hk⟩ : ∃ k, c.first - 16 = 8 + k := ⟨c.first - 24, by omega⟩
  rw [hk]
  have : zeros (8 + k) = zeros 8 ++ zeros k := by
    unfold zeros; rw [List.replicate_append_replicate]
  rw [this, List.append_assoc]
  exact List.take_left' (zeros_length 8)

theorem recHeaderAccepts_render {α : Type} (c : FileCfg) (kt : KeyType) (f : RecFile α) (rest : List Nat)
    (h1 : c.sig1.length = 8) (h3 : 24 ≤ c.first) :
    recHeaderAccepts c.sig1 kt (renderRecHeader c kt.sig f ++ rest) = true := by
  unfold recHeaderAccepts
  rw [renderRecHeader_take _ _ _ _ h1, renderRecHeader_drop_take _ _ _ _ h1 kt.sig_length,
    renderRecHeader_drop16_take _ _ _ _ h1 kt.sig_length h3, ofLeBytes_zeros8]
  simp

theorem renderHtxFile_take (sig2 : List Nat) (s : Store) : (renderHtxFile sig2 s).take 8 = Gen.htxSig1 := by
  unfold renderHtxFile
  simp only [List.append_assoc]
  exact List.take_left' rfl

theorem renderHtxFile_drop_take (sig2 : List Nat) (s : Store) (h2 : sig2.length = 8) :
    ((renderHtxFile sig2 s).drop 8).take 8 = sig2 := by
  unfold renderHtxFile
  simp only [List.append_assoc]
  rw [List.drop_left' (show Gen.htxSig1.length = 8 from rfl)]
  exact List.take_left' h2

theorem renderHtxFile_drop16_take (sig2 : List Nat) (s : Store) (h2 : sig2.length = 8) :
    ((renderHtxFile sig2 s).drop 16).take 8 = le64 s.n := by
  unfold renderHtxFile
  simp only [List.append_assoc]
  rw [← List.append_assoc, List.drop_left' (show (Gen.htxSig1 ++ sig2).length = 16 by
    simp [h2, show Gen.htxSig1.length = 8 from rfl])]
  exact List.take_left' (le64_length _)

theorem htxHeaderAccepts_render (kt : KeyType) (s : Store) (hn : 0 < s.n) (hn2 : s.n < 2^64) :
    htxHeaderAccepts kt (renderHtxFile kt.sig s) = true := by
  unfold htxHeaderAccepts
  rw [renderHtxFile_take, renderHtxFile_drop_take _ _ kt.sig_length,
    renderHtxFile_drop16_take _ _ kt.sig_length, ofLeBytes_le64 _ hn2]
  simp; omega

/-! ## one changed signature byte -/

theorem take16_eq (l : List Nat) : l.take 16 = l.take 8 ++ (l.drop 8).take 8 := by
  rw [show 16 = 8 + 8 from rfl, List.take_add]

/-- if the first 16 bytes of `l` are `s1 ++ s2`, then after changing one of them to a different
value they no longer are -/
theorem set_sig_ne (l s1 s2 : List Nat) (h1 : l.take 8 = s1) (h2 : (l.drop 8).take 8 = s2)
    (hl1 : s1.length = 8) (hl2 : s2.length = 8) (pos b : Nat) (hpos : pos < 16)
    (hb : b ≠ l.getD pos 0) :
    ¬ ((l.set pos b).take 8 = s1 ∧ ((l.set pos b).drop 8).take 8 = s2) := by
  rintro ⟨g1, g2⟩
  have e : (l.set pos b).take 16 = l.take 16 := by rw [take16_eq, take16_eq, g1, g2, h1, h2]
  have hlen : 16 ≤ l.length := by
    have := congrArg List.length (take16_eq l)
    rw [h1, h2] at this
    simp [hl1, hl2] at this
    omega
  have hp : pos < l.length := by omega
  have e' := congrArg (fun x => x[pos]?) e
  simp only [List.getElem?_take, hpos, if_true] at e'
  rw [List.getElem?_set_self hp, List.getElem?_eq_getElem hp] at e'
  apply hb
  rw [List.getD_eq_getElem?_getD, List.getElem?_eq_getElem hp]
  exact Option.some.inj e'

theorem recHeaderAccepts_set (sig1 : List Nat) (kt : KeyType) (l : List Nat) (h1 : l.take 8 = sig1)
    (h2 : (l.drop 8).take 8 = kt.sig) (hl1 : sig1.length = 8) (pos b : Nat) (hpos : pos < 16)
    (hb : b ≠ l.getD pos 0) : recHeaderAccepts sig1 kt (l.set pos b) = false := by
  cases h : recHeaderAccepts sig1 kt (l.set pos b) with
  | false => rfl
  | true =>
    exfalso
    simp only [recHeaderAccepts, Bool.and_eq_true, beq_iff_eq] at h
    exact set_sig_ne l sig1 kt.sig h1 h2 hl1 kt.sig_length pos b hpos hb ⟨h.1.1, h.1.2⟩

theorem htxHeaderAccepts_set (kt : KeyType) (l : List Nat) (h1 : l.take 8 = Gen.htxSig1)
    (h2 : (l.drop 8).take 8 = kt.sig) (pos b : Nat) (hpos : pos < 16)
    (hb : b ≠ l.getD pos 0) : htxHeaderAccepts kt (l.set pos b) = false := by
  cases h : htxHeaderAccepts kt (l.set pos b) with
  | false => rfl
  | true =>
    exfalso
    simp only [htxHeaderAccepts, Bool.and_eq_true, beq_iff_eq] at h
    exact set_sig_ne l Gen.htxSig1 kt.sig h1 h2 rfl kt.sig_length pos b hpos hb ⟨h.1.1, h.1.2⟩

end Abyss
