import Abyss.Lemmas.EngineStatsAux3
/-!
# statistics calls, byte level: the walk in `DbM` on the image of a state (key file, value file)
-/
namespace Abyss
open Store FileM RecFile Vu64

/-! ## the slot renderers have the form the walk needs -/

theorem keySlotForm {kt : KeyType} {s : Store} (g : Store.Regular kt s) : SlotForm renderKeySlot keyLenOf s.kf := by
  intro o sl hg
  cases sl with
  | used sz r =>
    have hfit := g.fits hg
    refine ⟨by have := hfit.1; show r.key.length < 2^32; omega,
      r.key ++ (encode (r.valOff / 8) ++ (encode (r.next / 8) ++ zeros (sz - (keyContent sz r).length))), ?_⟩
    show padTo sz (keyContent sz r) = _
    unfold padTo keyContent
    simp only [Slot.size, keyLenOf, List.append_assoc]
  | free sz nx =>
    refine ⟨by show (0 : Nat) < 2^32; omega, le64 nx ++ zeros (sz - (freeContent sz nx).length), ?_⟩
    show padTo sz (freeContent sz nx) = _
    unfold padTo freeContent
    simp only [Slot.size, keyLenOf, encode_zero, List.append_assoc]

theorem valSlotForm {kt : KeyType} {s : Store} (g : Store.Regular kt s) : SlotForm renderValSlot valLenOf s.vf := by
  intro o sl hg
  cases sl with
  | used sz v =>
    have hfit := g.vlen hg
    refine ⟨by show v.length < 2^32; omega, v ++ zeros (sz - (valContent sz v).length), ?_⟩
    show padTo sz (valContent sz v) = _
    unfold padTo valContent
    simp only [Slot.size, valLenOf, List.append_assoc]
  | free sz nx =>
    refine ⟨by show (0 : Nat) < 2^32; omega, le64 nx ++ zeros (sz - (freeContent sz nx).length), ?_⟩
    show padTo sz (freeContent sz nx) = _
    unfold padTo freeContent
    simp only [Slot.size, valLenOf, encode_zero, List.append_assoc]

theorem keyIterA : IterA Gen.keyPieceA keyCfg := ⟨rfl, rfl, fun _ => rfl⟩
theorem valIterA : IterA Gen.valPieceA valCfg := ⟨rfl, rfl, fun _ => rfl⟩

/-! ## from one file to the three files -/

section
variable {kt : KeyType} {s : Store} {d : DbSt}

theorem liftKey_img {β : Type} {m : M β} {x : β} (hd : d.IsImage kt s)
    (h : ∀ pos, ∃ pos', m ⟨renderRecFile keyCfg kt.sig renderKeySlot s.kf, pos⟩ =
      some (x, ⟨renderRecFile keyCfg kt.sig renderKeySlot s.kf, pos'⟩)) :
    ∃ p, DbM.liftKey m d = some (x, { d with key := ⟨d.key.bytes, p⟩ }) := by
  obtain ⟨p, hp⟩ := h d.key.pos
  have hb : d.key.bytes = renderRecFile keyCfg kt.sig renderKeySlot s.kf := hd.2.1
  refine ⟨p, DbM.liftKey_some ?_⟩
  have e : d.key = ⟨renderRecFile keyCfg kt.sig renderKeySlot s.kf, d.key.pos⟩ := hd.key_eq
  rw [hb]
  rw [e]
  exact hp

theorem liftVal_img {β : Type} {m : M β} {x : β} (hd : d.IsImage kt s)
    (h : ∀ pos, ∃ pos', m ⟨renderRecFile valCfg kt.sig renderValSlot s.vf, pos⟩ =
      some (x, ⟨renderRecFile valCfg kt.sig renderValSlot s.vf, pos'⟩)) :
    ∃ p, DbM.liftVal m d = some (x, { d with val := ⟨d.val.bytes, p⟩ }) := by
  obtain ⟨p, hp⟩ := h d.val.pos
  have hb : d.val.bytes = renderRecFile valCfg kt.sig renderValSlot s.vf := hd.2.2
  refine ⟨p, DbM.liftVal_some ?_⟩
  have e : d.val = ⟨renderRecFile valCfg kt.sig renderValSlot s.vf, d.val.pos⟩ := hd.val_eq
  rw [hb]
  rw [e]
  exact hp

theorem DbSt.IsImage.val_length (g : Store.Regular kt s) (h : d.IsImage kt s) : d.val.bytes.length = s.vf.end_ := by
  rw [h.2.2]
  exact image_length g.vok.lay

end

end Abyss
