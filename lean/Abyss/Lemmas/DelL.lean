import Abyss.Inv
import Abyss.Lemmas.AllocL
import Abyss.Lemmas.ChainL
import Abyss.Lemmas.RelinkL
import Abyss.Lemmas.SpecL
import Abyss.Lemmas.DelAbs
import Abyss.Lemmas.DelFinish
import Abyss.Lemmas.DelUnlink
/-!
# `del` refines the ideal map and keeps the invariant
-/
namespace Abyss
namespace Store
namespace Del

/-- the last step of `del` -/
def finishStep (s1 : Store) (valOff off : Nat) (value : List Nat) : Option (Store × Option (List Nat)) :=
  match RecFile.deletePiece valCfg s1.vf valOff with
  | none => none
  | some vf' =>
    match RecFile.deletePiece keyCfg s1.kf off with
    | none => none
    | some kf' =>
      some ({ s1 with vf := vf', kf := kf', count := s1.count - 1 }, some value)

/-- `del` on a key that `find` locates: unlink, then free -/
theorem del_found {kt : KeyType} {s : Store} {k : List Nat} {o prev sz vs : Nat} {r : KeyRec} {v : List Nat}
    (hf : find kt s k = some (some (o, prev))) (hg : s.kf.get o = some (.used sz r))
    (hv : s.vf.get r.valOff = some (.used vs v)) :
    s.del kt k = (unlinkStep (bucketOf k s.n) s prev r.next).bind fun s1 => finishStep s1 r.valOff o v := by
  unfold del
  simp only [hf, hg, hv]
  unfold unlinkStep finishStep
  cases hh : (if prev = 0 then some (s.writeHead (bucketOf k s.n) r.next) else
  match s.kf.get prev with
  | some (.used _ pr) =>
    let pr' := { pr with next := r.next }
    match RecFile.rewrite keyCfg s.kf prev (keyNeed pr') pr' with
    | none => none
    | some (p', kf') =>
      let s' := { s with kf := kf' }
      if p' = prev then some s' else relink (bucketOf k s.n) (s'.kf.slots.length + 1) s' prev p'
  | _ => none) <;> rfl

theorem del_absent {kt : KeyType} {s : Store} {k : List Nat} (hf : find kt s k = some none) :
    s.del kt k = some (s, none) := by
  unfold del
  simp only [hf]

/-- the last step never fails on a state whose only defect is the unlinked victim `o` -/
theorem finish_spec {kt : KeyType} {s1 : Store} {o sz vs : Nat} {r : KeyRec} {v : List Nat}
    (h1 : InvX kt s1 o) (hu : s1.kf.used o = some (sz, r)) (hv : s1.vf.used r.valOff = some (vs, v)) :
    ∃ s2, finishStep s1 r.valOff o v = some (s2, some v) ∧ Inv kt s2 ∧ s2.n = s1.n ∧
      (∀ k' vo, HasKV s2 k' vo ↔ k' ≠ r.key ∧ HasKV s1 k' vo) ∧
      (∀ vo, vo ≠ r.valOff → s2.vf.used vo = s1.vf.used vo) := by
  obtain ⟨vf', hdv, vwf', hv0, hvs, -⟩ := RecFile.deletePiece_spec valCfg_ok h1.vwf hv
  obtain ⟨kf', hdk, kwf', hk0, hks, hkc, hkl, -⟩ := RecFile.deletePiece_spec keyCfg_ok h1.kwf hu
  refine ⟨{ s1 with vf := vf', kf := kf', count := s1.count - 1 }, ?_,
    finish_inv h1 hu kwf' vwf' hk0 hks hkc hkl hv0 hvs, rfl, finish_hasKV h1 hu hk0 hks, hvs⟩
  unfold finishStep
  rw [hdv, hdk]

end Del

/-- `delete` of an admissible key never fails, returns the value the ideal map held (or `none`),
re-establishes the invariant and acts on the abstraction as the ideal map's `del` — wherever the
key sits in its chain, and also when rewriting the predecessor's link moves the predecessor. -/
theorem del_spec {kt : KeyType} {s : Store} (h : Inv kt s) (k : List Nat) (hk : KeyOK kt k) :
    ∃ s', s.del kt k = some (s', Spec.get (abs s) k) ∧ Inv kt s' ∧ s'.n = s.n ∧
      Spec.Equiv (abs s') (Spec.del (abs s) k) := by
  rcases find_spec h k hk with ⟨o, sz, r, l1, l2, hf, hu, hkey, hc⟩ | ⟨hf, hno⟩
  · subst hkey
    obtain ⟨vs, v, hv⟩ := h.val_used o sz r hu
    have hget : Spec.get (abs s) r.key = some v :=
      (abs_get_some h r.key v).mpr ⟨r.valOff, vs, ⟨o, sz, r, hu, rfl, rfl⟩, hv⟩
    have hb : bucketOf r.key s.n < s.n := Del.bucketOf_lt _ h.npos
    obtain ⟨s1, hul, h1, hvf, _, hn1, hu1, hkv1⟩ := Del.unlink_spec h hb hc hu
    obtain ⟨s2, hfin, h2, hn2, hkv2, hvs2⟩ := Del.finish_spec h1 hu1 (by rw [hvf]; exact hv)
    refine ⟨s2, ?_, h2, hn2.trans hn1, ?_⟩
    · rw [Del.del_found hf (Del.used_eq_some.mp hu) (Del.used_eq_some.mp hv), hul, hget]
      exact hfin
    · refine Del.abs_del_equiv h h2 r.key ?_ ?_
      · intro k' vo
        rw [hkv2, hkv1]
      · intro k' vo hne hh
        rw [hvs2 vo, hvf]
        intro e
        obtain ⟨o', sz', r', hu', hk', hvo'⟩ := hh
        have := h.val_inj o' o sz' sz r' r hu' hu (by rw [hvo', e])
        subst this
        rw [hu] at hu'
        cases hu'
        exact hne hk'.symm
  · have hget : Spec.get (abs s) k = none := (abs_get_none h k).mpr hno
    exact ⟨s, by rw [Del.del_absent hf, hget], h, rfl, Del.abs_del_absent h k hno⟩

end Store
end Abyss
