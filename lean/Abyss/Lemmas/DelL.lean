import Abyss.Inv
import Abyss.Lemmas.AllocL
import Abyss.Lemmas.ChainL
import Abyss.Lemmas.RelinkL
import Abyss.Lemmas.SpecL
/-!
# `del` refines the ideal map and keeps the invariant
-/
namespace Abyss
namespace Store

/-- `delete` of an admissible key never fails, returns the value the ideal map held (or `none`),
re-establishes the invariant and acts on the abstraction as the ideal map's `del` — wherever the
key sits in its chain, and also when rewriting the predecessor's link moves the predecessor. -/
theorem del_spec {kt : KeyType} {s : Store} (h : Inv kt s) (k : List Nat) (hk : KeyOK kt k) :
    ∃ s', s.del kt k = some (s', Spec.get (abs s) k) ∧ Inv kt s' ∧ s'.n = s.n ∧
      Spec.Equiv (abs s') (Spec.del (abs s) k) := by sorry

end Store
end Abyss
