import Abyss.Lemmas.EngineReadAux1
/-! # generated engine vs model: find / get / includes / len (see `EngineDefs.lean`) -/
namespace Abyss
open Store FileM

/-! ## the chain walk -/

/-- `cmpOf kt` is the function inside `cmpKey kt` -/
theorem cmpKey_cmpOf (kt : KeyType) (a b : List Nat) :
    cmpKey kt a b = (cmpOf kt a b).map (fun o : Ordering => decide (o = Ordering.eq)) := by
  cases kt <;> rfl

/-- what `find_in_hash_buckets_kt` makes of the way its loop was left -/
def findCollapse : Sum (Option (Nat × Nat)) (Nat × Nat) → Option (Nat × Nat)
  | .inl x => x
  | .inr _ => none

/-- one round of the generated loop, spelled out on a state -/
theorem findLoopGen_succ (cmp : List Nat → List Nat → Option Ordering) (key : List Nat) (fuel prev cur : Nat)
    (d : DbSt) :
    Gen.findInHashBucketsKtLoop cmp key (fuel+1) (prev, cur) d =
      if cur = 0 then some (.inr (prev, cur), d) else
      match DbM.liftKey (Gen.keyReadPieceOnlyKeyMaybeslice cur) d with
      | none => none
      | some (ks, d1) =>
        match cmp key ks with
        | none => none
        | some .eq => some (.inl (some (cur, prev)), d1)
        | some _ =>
          match DbM.liftKey (Gen.keyReadPieceOnlyBucketNextOffset cur) d1 with
          | none => none
          | some (nx, d2) => Gen.findInHashBucketsKtLoop cmp key fuel (cur, nx) d2 := by
  by_cases hc : cur = 0
  · subst hc; rfl
  · rw [if_neg hc]
    have hb : (!(cur == 0)) = true := by simp [hc]
    conv => lhs; unfold Gen.findInHashBucketsKtLoop
    rw [if_pos hb]
    cases h1 : DbM.liftKey (Gen.keyReadPieceOnlyKeyMaybeslice cur) d with
    | none =>
      rw [DbM.bind_none (DbM.bind_none h1)]
    | some p =>
      obtain ⟨ks, d1⟩ := p
      rw [DbM.bind_assoc_apply, DbM.bind_some h1]
      dsimp only
      cases h2 : cmp key ks with
      | none => rfl
      | some o =>
        cases o with
        | eq => rfl
        | lt =>
          show (DbM.liftKey (Gen.keyReadPieceOnlyBucketNextOffset cur) >>= fun nx =>
            Gen.findInHashBucketsKtLoop cmp key fuel (cur, nx)) d1 = _
          cases h3 : DbM.liftKey (Gen.keyReadPieceOnlyBucketNextOffset cur) d1 with
          | none => rw [DbM.bind_none h3]
          | some q => obtain ⟨nx, d2⟩ := q; rw [DbM.bind_some h3]
        | gt =>
          show (DbM.liftKey (Gen.keyReadPieceOnlyBucketNextOffset cur) >>= fun nx =>
            Gen.findInHashBucketsKtLoop cmp key fuel (cur, nx)) d1 = _
          cases h3 : DbM.liftKey (Gen.keyReadPieceOnlyBucketNextOffset cur) d1 with
          | none => rw [DbM.bind_none h3]
          | some q => obtain ⟨nx, d2⟩ := q; rw [DbM.bind_some h3]

/-- the generated loop follows the model's walk: whenever the model's walk ends (`some res`), the
generated loop, on any image and with at least as much fuel, ends the same way and leaves an image -/
theorem findLoop_img {kt : KeyType} {s : Store} (g : Store.Regular kt s) (k : List Nat) :
    ∀ (m cur prev : Nat) (res : Option (Nat × Nat)) (fuel : Nat) (d : DbSt),
      findLoop kt s.kf k m cur prev = some res → m ≤ fuel → d.IsImage kt s →
      ∃ lr d', d'.IsImage kt s ∧
        Gen.findInHashBucketsKtLoop (cmpOf kt) k fuel (prev, cur) d = some (lr, d') ∧
        findCollapse lr = res := by
  intro m
  induction m with
  | zero => intro cur prev res fuel d h; exact nomatch h
  | succ m ih =>
    intro cur prev res fuel d h hf hd
    obtain _ | fuel := fuel
    · omega
    rw [findLoopGen_succ]
    unfold findLoop at h
    by_cases hc : cur = 0
    · rw [if_pos hc] at h ⊢
      cases h
      exact ⟨_, _, hd, rfl, rfl⟩
    · rw [if_neg hc] at h ⊢
      cases hg : s.kf.get cur with
      | none => rw [hg] at h; exact nomatch h
      | some sl =>
        cases sl with
        | free sz nx => rw [hg] at h; exact nomatch h
        | used sz r =>
          rw [hg] at h
          dsimp only at h
          obtain ⟨p1, h1⟩ := (keyRead_img g hd hg).2.2.1
          rw [h1]
          dsimp only
          rw [cmpKey_cmpOf] at h
          cases hcmp : cmpOf kt k r.key with
          | none => rw [hcmp] at h; exact nomatch h
          | some o =>
            rw [hcmp] at h
            obtain ⟨p2, h2⟩ := (keyRead_img g (hd.keyPos p1) hg).2.2.2.2.1
            cases o with
            | eq =>
              have h' : some (some (cur, prev)) = some res := h
              cases h'
              exact ⟨_, _, hd.keyPos p1, rfl, rfl⟩
            | lt =>
              have h : findLoop kt s.kf k m r.next cur = some res := h
              dsimp only
              rw [h2]
              exact ih r.next cur res fuel _ h (by omega) ((hd.keyPos p1).keyPos p2)
            | gt =>
              have h : findLoop kt s.kf k m r.next cur = some res := h
              dsimp only
              rw [h2]
              exact ih r.next cur res fuel _ h (by omega) ((hd.keyPos p1).keyPos p2)

theorem find_bytes {kt : KeyType} {s : Store} (g : Store.Regular kt s) (k : List Nat) (hk : KeyOK kt k)
    {d : DbSt} (hd : d.IsImage kt s) :
    ∃ r d', s.find kt k = some r ∧ d'.IsImage kt s ∧
      Gen.findInHashBucketsKt s.n (cmpOf kt) (hashValue k) k d = some (r, d') := by
  have hfind : ∃ r, s.find kt k = some r := by
    rcases find_spec g.inv k hk with ⟨o, sz, r, l1, l2, h, _⟩ | ⟨h, _⟩
    · exact ⟨_, h⟩
    · exact ⟨_, h⟩
  obtain ⟨r, hr⟩ := hfind
  have hr' : findLoop kt s.kf k (s.kf.slots.length + 1) (s.headOf (hashValue k % s.n)) 0 = some r := hr
  obtain ⟨p0, h0⟩ := htxRead_img g hd (hashValue k)
  refine ⟨r, ?_⟩
  unfold Gen.findInHashBucketsKt
  by_cases hz : s.headOf (hashValue k % s.n) = 0
  · have hrn : r = none := by
      rw [hz] at hr'
      unfold findLoop at hr'
      rw [if_pos rfl] at hr'
      cases hr'
      rfl
    subst hrn
    refine ⟨_, hr, hd.htxPos p0, ?_⟩
    rw [DbM.bind_some h0, hz]
    rfl
  · have hb : (!(s.headOf (hashValue k % s.n) == 0)) = true := by
      simp only [hz, not_false_eq_true, Bool.not_eq_eq_eq_not, Bool.not_true, beq_eq_false_iff_ne, ne_eq]
    have hlen : s.kf.slots.length + 1 ≤ d.key.bytes.length + 1 := by
      have h1 := hd.key_length g
      have h2 := g.inv.kwf.length_le
      omega
    obtain ⟨lr, d', hd', hl, hcol⟩ := findLoop_img g k _ _ _ r (d.key.bytes.length + 1) _ hr' hlen (hd.htxPos p0)
    refine ⟨d', hr, hd', ?_⟩
    rw [DbM.bind_some h0, if_pos hb, DbM.bind_some (DbM.keyLen_apply _), DbM.bind_some hl]
    subst hcol
    cases lr <;> rfl

/-- `load_value` at a key record whose value record is in use: the stored value; the cursors of the
key file and of the value file move -/
theorem loadValue_img {kt : KeyType} {s : Store} (g : Store.Regular kt s) {d : DbSt} (hd : d.IsImage kt s)
    {off sz vs : Nat} {rec : KeyRec} {v : List Nat}
    (hgk : s.kf.get off = some (.used sz rec)) (hgv : s.vf.get rec.valOff = some (.used vs v)) :
    ∃ p1 p2, Gen.loadValue off d =
      some (v, { d with key := ⟨d.key.bytes, p1⟩, val := ⟨d.val.bytes, p2⟩ }) := by
  obtain ⟨p1, h1⟩ := (keyRead_img g hd hgk).2.2.2.1
  obtain ⟨p2, h2⟩ := (valRead_img g (hd.keyPos p1) hgv).2.1
  refine ⟨p1, p2, ?_⟩
  unfold Gen.loadValue
  rw [DbM.bind_some h1, h2]

theorem get_bytes {kt : KeyType} {s : Store} (g : Store.Regular kt s) (k : List Nat) (hk : KeyOK kt k)
    {d : DbSt} (hd : d.IsImage kt s) :
    ∃ r d', s.get kt k = some r ∧ d'.IsImage kt s ∧
      Gen.getKt s.n (cmpOf kt) (hashValue k) k d = some (r, d') := by
  obtain ⟨r, d1, hr, hd1, h⟩ := find_bytes g k hk hd
  cases r with
  | none =>
    refine ⟨none, d1, by simp only [Store.get, hr], hd1, ?_⟩
    unfold Gen.getKt
    rw [DbM.bind_some h]
    rfl
  | some p =>
    obtain ⟨off, prev⟩ := p
    rcases find_spec g.inv k hk with ⟨o, sz, rec, l1, l2, hf, hu, _, _⟩ | ⟨hf, _⟩
    · rw [hr] at hf
      simp only [Option.some.injEq, Prod.mk.injEq] at hf
      obtain ⟨ho, _⟩ := hf
      subst ho
      obtain ⟨vs, v, hv⟩ := g.inv.val_used off sz rec hu
      have hgk := get_of_used _ _ _ _ hu
      have hgv := get_of_used _ _ _ _ hv
      obtain ⟨p1, p2, hl⟩ := loadValue_img g hd1 hgk hgv
      refine ⟨some v, _, ?_, (hd1.keyPos p1).valPos p2, ?_⟩
      · simp only [Store.get, hr, Store.loadValue, hgk, hgv, Option.map_some]
      · unfold Gen.getKt
        rw [DbM.bind_some h]
        show (Gen.loadValue off >>= fun tryVal => pure (some tryVal)) d1 = _
        rw [DbM.bind_some hl]
        rfl
    · rw [hr] at hf
      cases hf

theorem includes_bytes {kt : KeyType} {s : Store} (g : Store.Regular kt s) (k : List Nat) (hk : KeyOK kt k)
    {d : DbSt} (hd : d.IsImage kt s) :
    ∃ r d', s.includes kt k = some r ∧ d'.IsImage kt s ∧
      Gen.includesKeyKt s.n (cmpOf kt) (hashValue k) k d = some (r, d') := by
  obtain ⟨r, d', hr, hd', h⟩ := find_bytes g k hk hd
  refine ⟨r.isSome, d', by simp only [Store.includes, hr, Option.map_some], hd', ?_⟩
  unfold Gen.includesKeyKt
  rw [DbM.bind_some h]
  cases r with
  | none => rfl
  | some p => rfl

theorem len_bytes {kt : KeyType} {s : Store} (g : Store.Regular kt s) {d : DbSt} (hd : d.IsImage kt s) :
    ∃ d', d'.IsImage kt s ∧ Gen.lenKt d = some (s.len, d') := by
  obtain ⟨p, h⟩ := htxCount_img g hd
  exact ⟨_, hd.htxPos p, h⟩

end Abyss
