import Abyss.Sized
import Abyss.Lemmas.AllocL
import Abyss.Lemmas.RelinkL
/-!
# `put`, `del`, `relink` keep `Sized` (together with well-formedness of the two record files)
-/
namespace Abyss
variable {α : Type}

namespace RecFile

/-- every used record satisfies `P slotSize payload` -/
def AllUsed (P : Nat → α → Prop) (f : RecFile α) : Prop := ∀ o sz p, f.used o = some (sz, p) → P sz p

theorem AllUsed.addPiece {P : Nat → α → Prop} {c : FileCfg} {f f' : RecFile α} (hc : CfgOK c) (h : WF c f)
    (hP : AllUsed P f) {need off : Nat} (hn : LegalSz c need) {p : α} (hp : ∀ sz, need ≤ sz → P sz p)
    (hadd : addPiece c f need p = some (off, f')) : WF c f' ∧ AllUsed P f' := by
  obtain ⟨off1, sz1, f1, a1, a2, a3, a4, _, _, a7, _⟩ := addPiece_spec hc h hn p
  rw [hadd] at a1
  simp only [Option.some.injEq, Prod.mk.injEq] at a1
  obtain ⟨rfl, rfl⟩ := a1
  refine ⟨a2, ?_⟩
  intro o sz q hu
  by_cases e : o = off
  · subst e
    rw [a4] at hu
    simp only [Option.some.injEq, Prod.mk.injEq] at hu
    obtain ⟨rfl, rfl⟩ := hu
    exact hp _ a3
  · rw [a7 o e] at hu
    exact hP o sz q hu

theorem AllUsed.rewrite {P : Nat → α → Prop} {c : FileCfg} {f f' : RecFile α} (hc : CfgOK c) (h : WF c f)
    (hP : AllUsed P f) {off sz0 : Nat} {p0 : α} (hu0 : f.used off = some (sz0, p0))
    {need off' : Nat} (hn : LegalSz c need) {p : α} (hp : ∀ sz, need ≤ sz → P sz p)
    (hrw : rewrite c f off need p = some (off', f')) : WF c f' ∧ AllUsed P f' := by
  obtain ⟨off1, sz1, f1, a1, a2, a3, a4, a5, a6, _⟩ := rewrite_spec hc h hu0 hn p
  rw [hrw] at a1
  simp only [Option.some.injEq, Prod.mk.injEq] at a1
  obtain ⟨rfl, rfl⟩ := a1
  refine ⟨a2, ?_⟩
  intro o sz q hu
  by_cases e : o = off'
  · subst e
    rw [a3] at hu
    simp only [Option.some.injEq, Prod.mk.injEq] at hu
    obtain ⟨rfl, rfl⟩ := hu
    exact hp _ a4
  · by_cases e2 : o = off
    · subst e2
      rcases a5 with ⟨e3, _⟩ | ⟨_, _, _, e3⟩
      · exact absurd e3.symm e
      · rw [e3] at hu; cases hu
    · rw [a6 o e2 e] at hu
      exact hP o sz q hu

theorem AllUsed.deletePiece {P : Nat → α → Prop} {c : FileCfg} {f f' : RecFile α} (hc : CfgOK c) (h : WF c f)
    (hP : AllUsed P f) {off sz0 : Nat} {p0 : α} (hu0 : f.used off = some (sz0, p0))
    (hd : deletePiece c f off = some f') : WF c f' ∧ AllUsed P f' := by
  obtain ⟨f1, a1, a2, a3, a4, _⟩ := deletePiece_spec hc h hu0
  rw [hd] at a1
  simp only [Option.some.injEq] at a1
  subst a1
  refine ⟨a2, ?_⟩
  intro o sz q hu
  by_cases e : o = off
  · subst e; rw [a3] at hu; cases hu
  · rw [a4 o e] at hu
    exact hP o sz q hu

/-- `deletePiece` only removes a used record (no well-formedness needed) -/
theorem AllUsed.deletePiece' {P : Nat → α → Prop} {c : FileCfg} {f f' : RecFile α}
    (hP : AllUsed P f) {off : Nat} (hd : RecFile.deletePiece c f off = some f') : AllUsed P f' := by
  unfold RecFile.deletePiece at hd
  split at hd
  · cases hd
  · next sl hg =>
    simp only [Option.some.injEq] at hd
    subst hd
    unfold pushFree
    split
    · exact hP
    · intro o sz q hu
      rw [setHead_used] at hu
      by_cases e : o = off
      · subst e
        rw [used_of_free (get_set_self _ _ _)] at hu; cases hu
      · rw [used_set_ne _ _ _ _ e] at hu
        exact hP o sz q hu

end RecFile

open RecFile

/-- the `kfit` clause of `Sized` as an `AllUsed` -/
def KFitP (sz : Nat) (r : KeyRec) : Prop := keyNeed r ≤ sz ∧ r.key.length < 2^31
/-- the `vfit` clause of `Sized` as an `AllUsed` -/
def VFitP (sz : Nat) (v : List Nat) : Prop := valueNeed v.length ≤ sz ∧ v.length < 2^31

namespace Store

/-- `Sized` plus well-formedness of the two record files: the invariant carried through the
primitive steps of `put` / `del` / `relink` -/
structure SzW (s : Store) : Prop where
  kwf : WF keyCfg s.kf
  vwf : WF valCfg s.vf
  kfit : AllUsed KFitP s.kf
  vfit : AllUsed VFitP s.vf
  htx_len : Gen.htxHeaderSz + 8 * s.n ≤ s.htxEnd
  bits_in : ∀ b, s.bitOf b = true → b < 8 * (s.htxEnd - (Gen.htxHeaderSz + 8 * s.n))

theorem SzW.sized {s : Store} (h : SzW s) : s.Sized := ⟨h.kfit, h.vfit, h.htx_len, h.bits_in⟩

theorem SzW.of {s : Store} (kwf : WF keyCfg s.kf) (vwf : WF valCfg s.vf) (hs : s.Sized) : SzW s :=
  ⟨kwf, vwf, hs.kfit, hs.vfit, hs.htx_len, hs.bits_in⟩

theorem SzW.writeHead {s : Store} (h : SzW s) (b off : Nat) : SzW (s.writeHead b off) := by
  have hl := h.htx_len
  have hE : s.htxEnd ≤ (s.writeHead b off).htxEnd := Nat.le_max_left _ _
  have hE2 : Gen.htxHeaderSz + s.n * 8 + b / 8 + 1 ≤ (s.writeHead b off).htxEnd := Nat.le_max_right _ _
  have hn : (s.writeHead b off).n = s.n := rfl
  refine ⟨h.kwf, h.vwf, h.kfit, h.vfit, ?_, ?_⟩
  · rw [hn]; omega
  · intro b' hb'
    rw [hn]
    rw [bitOf_writeHead] at hb'
    by_cases e : b' = b
    · subst e
      omega
    · rw [if_neg e] at hb'
      have := h.bits_in b' hb'
      omega

theorem SzW.setKf {s : Store} (h : SzW s) {kf' : RecFile KeyRec} (w : WF keyCfg kf') (a : AllUsed KFitP kf') :
    SzW { s with kf := kf' } := ⟨w, h.vwf, a, h.vfit, h.htx_len, h.bits_in⟩

theorem SzW.setVf {s : Store} (h : SzW s) {vf' : RecFile (List Nat)} (w : WF valCfg vf') (a : AllUsed VFitP vf') :
    SzW { s with vf := vf' } := ⟨h.kwf, w, h.kfit, a, h.htx_len, h.bits_in⟩

theorem kfitP_of_need {r : KeyRec} (hk : r.key.length < 2^31) : ∀ sz, keyNeed r ≤ sz → KFitP sz r :=
  fun _ h => ⟨h, hk⟩

theorem vfitP_of_need {v : List Nat} (hv : v.length < 2^31) : ∀ sz, valueNeed v.length ≤ sz → VFitP sz v :=
  fun _ h => ⟨h, hv⟩

/-- rewriting a used key record by one with the same key keeps `SzW` -/
theorem SzW.rewriteKey {s : Store} (h : SzW s) {off sz0 : Nat} {r0 r : KeyRec}
    (hg : s.kf.get off = some (.used sz0 r0)) (hkey : r.key = r0.key) {off' : Nat} {kf' : RecFile KeyRec}
    (hrw : RecFile.rewrite keyCfg s.kf off (keyNeed r) r = some (off', kf')) :
    SzW { s with kf := kf' } := by
  have hu : s.kf.used off = some (sz0, r0) := used_of_get _ _ _ _ hg
  have hk : r.key.length < 2^31 := by rw [hkey]; exact (h.kfit _ _ _ hu).2
  obtain ⟨w, a⟩ := AllUsed.rewrite keyCfg_ok h.kwf h.kfit hu (keyNeed_legal r) (kfitP_of_need hk) hrw
  exact h.setKf w a

theorem relink_szw (b : Nat) : ∀ (fuel : Nat) {s s' : Store} (old new : Nat), SzW s →
    relink b fuel s old new = some s' → SzW s' := by
  intro fuel
  induction fuel with
  | zero => intro s s' old new _ h; simp [relink] at h
  | succ fuel ih =>
    intro s s' old new hs h
    rw [relink] at h
    split at h
    · cases h
    · next prev _ =>
      split at h
      · simp only [Option.some.injEq] at h
        subst h
        exact hs.writeHead b new
      · split at h
        · next sz0 pr hg =>
          simp only at h
          split at h
          · cases h
          · next p' kf' hrw =>
            have hs1 := hs.rewriteKey (r := { pr with next := new }) hg rfl hrw
            split at h
            · simp only [Option.some.injEq] at h
              subst h; exact hs1
            · exact ih _ _ hs1 h
        · cases h

theorem put_szw {kt : KeyType} {s s' : Store} (hs : SzW s) {k v : List Nat} (hk : k.length < 2^31)
    (hv : v.length < 2^31) (h : s.put kt k v = some s') : SzW s' := by
  unfold Store.put at h
  simp only at h
  split at h
  · cases h
  · next off _ _ =>
    split at h
    · next sz0 kr hg =>
      split at h
      · next vsz0 v0 hgv =>
        split at h
        · cases h
        · next voff' vf' hrwv =>
          have huv : s.vf.used kr.valOff = some (vsz0, v0) := used_of_get _ _ _ _ hgv
          obtain ⟨wv, av⟩ := AllUsed.rewrite valCfg_ok hs.vwf hs.vfit huv (valueNeed_legal v.length)
            (vfitP_of_need hv) hrwv
          have hs1 := hs.setVf wv av
          split at h
          · simp only [Option.some.injEq] at h
            subst h; exact hs1
          · split at h
            · cases h
            · next koff' kf' hrwk =>
              have hs2 := SzW.rewriteKey (s := { s with vf := vf' }) hs1 (r := { kr with valOff := voff' }) hg rfl hrwk
              split at h
              · simp only [Option.some.injEq] at h
                subst h; exact hs2
              · exact relink_szw _ _ _ _ hs2 h
      · cases h
    · cases h
  · split at h
    · cases h
    · next voff vf' haddv =>
      obtain ⟨wv, av⟩ := AllUsed.addPiece valCfg_ok hs.vwf hs.vfit (valueNeed_legal v.length)
        (vfitP_of_need hv) haddv
      split at h
      · cases h
      · next koff kf' haddk =>
        obtain ⟨wk, ak⟩ := AllUsed.addPiece keyCfg_ok hs.kwf hs.kfit (keyNeed_legal _)
          (kfitP_of_need (r := { key := k, valOff := voff, next := s.headOf (bucketOf k s.n) }) hk) haddk
        simp only [Option.some.injEq] at h
        subst h
        have hs2 := ((hs.setVf wv av).setKf wk ak).writeHead (bucketOf k s.n) koff
        exact ⟨hs2.kwf, hs2.vwf, hs2.kfit, hs2.vfit, hs2.htx_len, hs2.bits_in⟩

theorem del_sized {kt : KeyType} {s s' : Store} (hs : SzW s) {k : List Nat} {r : Option (List Nat)}
    (h : s.del kt k = some (s', r)) : s'.Sized := by
  unfold Store.del at h
  simp only at h
  split at h
  · cases h
  · simp only [Option.some.injEq, Prod.mk.injEq] at h
    obtain ⟨rfl, _⟩ := h; exact hs.sized
  · next off prev _ =>
    split at h
    · next sz0 kr hg =>
      split at h
      · next vsz0 value hgv =>
        split at h
        · cases h
        · next s1 hs1eq =>
          have hs1 : SzW s1 := by
            split at hs1eq
            · simp only [Option.some.injEq] at hs1eq
              subst hs1eq; exact hs.writeHead _ _
            · split at hs1eq
              · next psz pr hgp =>
                split at hs1eq
                · cases hs1eq
                · next p' kf' hrw =>
                  have hs2 := hs.rewriteKey (r := { pr with next := kr.next }) hgp rfl hrw
                  split at hs1eq
                  · simp only [Option.some.injEq] at hs1eq
                    subst hs1eq; exact hs2
                  · exact relink_szw _ _ _ _ hs2 hs1eq
              · cases hs1eq
          split at h
          · cases h
          · next vf' hdv =>
            split at h
            · cases h
            · next kf' hdk =>
              simp only [Option.some.injEq, Prod.mk.injEq] at h
              obtain ⟨rfl, _⟩ := h
              exact ⟨hs1.kfit.deletePiece' hdk, hs1.vfit.deletePiece' hdv, hs1.htx_len, hs1.bits_in⟩
      · cases h
    · cases h

end Store
end Abyss
