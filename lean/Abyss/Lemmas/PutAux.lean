import Abyss.Inv
import Abyss.Lemmas.AllocL
import Abyss.Lemmas.ChainL
import Abyss.Lemmas.RelinkL
import Abyss.Lemmas.SpecL
/-!
# Helper lemmas for `put_spec`: segments, the "cut chain" intermediate state `Mid`,
and the abstraction after replacing the value of one key
-/
namespace Abyss
namespace Store
namespace Put

theorem used_iff_get {α : Type} {f : RecFile α} {o sz : Nat} {p : α} :
    f.used o = some (sz, p) ↔ f.get o = some (.used sz p) := by
  unfold RecFile.used
  cases hg : f.get o with
  | none => simp
  | some s =>
    cases s with
    | used s' q => simp
    | free s' nx => simp

/-- `usedCount` is the count the invariant speaks of (the two `match`es are different constants) -/
theorem usedCount_eq (f : RecFile KeyRec) :
    RecFile.usedCount f = (f.slots.filter fun p => match p.2 with | .used _ _ => true | _ => false).length := by
  unfold RecFile.usedCount
  congr 2
  funext p
  cases p.2 <;> rfl

theorem kused_ne_zero {f : RecFile KeyRec} (hwf : RecFile.WF keyCfg f) {o sz : Nat} {r : KeyRec}
    (hu : f.used o = some (sz, r)) : o ≠ 0 := by
  have := (RecFile.WF.get_bounds keyCfg_ok hwf (used_iff_get.1 hu)).1
  have := keyCfg_ok.hdr_pos
  omega

theorem bucketOf_lt (k : List Nat) {n : Nat} (hn : 0 < n) : bucketOf k n < n :=
  Nat.mod_lt _ hn

/-! ## segments -/

theorem segFrom_used {kf : RecFile KeyRec} : ∀ {l : List (Nat × KeyRec)} {cur tgt : Nat},
    segFrom kf l cur tgt → ∀ p ∈ l, p.1 ≠ 0 ∧ ∃ sz, kf.used p.1 = some (sz, p.2)
  | [], _, _, _, p, hp => by cases hp
  | (o, r) :: rest, cur, tgt, h, p, hp => by
    obtain ⟨_, h0, hu, hrest⟩ := h
    rcases List.mem_cons.1 hp with rfl | hp
    · exact ⟨h0, hu⟩
    · exact segFrom_used hrest p hp

theorem segFrom_congr {kf kf' : RecFile KeyRec} : ∀ {l : List (Nat × KeyRec)} {cur tgt : Nat},
    (∀ p ∈ l, kf'.used p.1 = kf.used p.1) → segFrom kf l cur tgt → segFrom kf' l cur tgt
  | [], _, _, _, h => h
  | (o, r) :: rest, cur, tgt, hs, h => by
    obtain ⟨hc, h0, hu, hrest⟩ := h
    refine ⟨hc, h0, ?_, segFrom_congr (fun p hp => hs p (List.mem_cons_of_mem _ hp)) hrest⟩
    rw [hs (o, r) (List.mem_cons_self ..)]
    exact hu

theorem segFrom_append {kf : RecFile KeyRec} : ∀ {l1 l2 : List (Nat × KeyRec)} {a m c : Nat},
    segFrom kf l1 a m → segFrom kf l2 m c → segFrom kf (l1 ++ l2) a c
  | [], _, _, _, _, h1, h2 => by
    have : _ = _ := h1
    subst this
    exact h2
  | (o, r) :: rest, l2, a, m, c, h1, h2 => by
    obtain ⟨hc, h0, hu, hrest⟩ := h1
    exact ⟨hc, h0, hu, segFrom_append hrest h2⟩

theorem segFrom_split {kf : RecFile KeyRec} : ∀ {l1 l2 : List (Nat × KeyRec)} {o : Nat} {r : KeyRec} {a c : Nat},
    segFrom kf (l1 ++ (o, r) :: l2) a c → segFrom kf l1 a o ∧ segFrom kf ((o, r) :: l2) o c
  | [], l2, o, r, a, c, h => by
    obtain ⟨hc, h0, hu, hrest⟩ := h
    exact ⟨hc, rfl, h0, hu, hrest⟩
  | (o', r') :: rest, l2, o, r, a, c, h => by
    obtain ⟨hc, h0, hu, hrest⟩ := h
    obtain ⟨h1, h2⟩ := segFrom_split hrest
    exact ⟨⟨hc, h0, hu, h1⟩, h2⟩

/-- a duplicate-free segment that ends in 0 is the chain found with the standard fuel -/
theorem chainFrom_of_seg_nodup {kf : RecFile KeyRec} {cur : Nat} {l : List (Nat × KeyRec)}
    (hseg : segFrom kf l cur 0) (hnd : (l.map (·.1)).Nodup) :
    chainFrom kf (kf.slots.length + 1) cur = some l := by
  apply chainFrom_of_seg _ _ _ hseg
  have := nodup_offsets_length kf l hnd (fun p hp => (segFrom_used hseg p hp).2)
  omega

theorem chain_of_seg {s : Store} {b : Nat} {l : List (Nat × KeyRec)}
    (hseg : segFrom s.kf l (s.headOf b) 0) (hnd : (l.map (·.1)).Nodup) : s.chain b = some l :=
  chainFrom_of_seg_nodup hseg hnd

theorem seg_of_chain {s : Store} {b : Nat} {l : List (Nat × KeyRec)} (hc : s.chain b = some l) :
    segFrom s.kf l (s.headOf b) 0 :=
  chainFrom_seg _ _ _ _ hc

/-- a chain survives any change that leaves its head and its members alone -/
theorem chain_transfer {s s' : Store} {b : Nat} {l : List (Nat × KeyRec)} (hc : s.chain b = some l)
    (hnd : (l.map (·.1)).Nodup) (hhead : s'.headOf b = s.headOf b)
    (hsame : ∀ p ∈ l, s'.kf.used p.1 = s.kf.used p.1) : s'.chain b = some l := by
  apply chain_of_seg _ hnd
  rw [hhead]
  exact segFrom_congr hsame (seg_of_chain hc)

/-! ## the cut-chain state without the "stale offset" clause -/

/-- `Broken` (with `x = 0`) minus `old_free`: the chain of `b` consists of a segment `l1` from
the bucket to `old` and a chain `l2` starting at `new`. With `old = new` this is the invariant. -/
structure Mid (kt : KeyType) (s : Store) (b old new : Nat) (l1 l2 : List (Nat × KeyRec)) : Prop where
  npos : 0 < s.n
  kwf : RecFile.WF keyCfg s.kf
  vwf : RecFile.WF valCfg s.vf
  heads_lt : ∀ b', s.n ≤ b' → s.headOf b' = 0
  bits_ok : ∀ b', s.bitOf b' = decide (s.headOf b' ≠ 0)
  b_lt : b < s.n
  chains_other : ∀ b', b' < s.n → b' ≠ b → ∃ l, s.chain b' = some l ∧ (l.map (·.1)).Nodup ∧
            ∀ p ∈ l, bucketOf p.2.key s.n = b' ∧ p.1 ≠ 0
  seg : segFrom s.kf l1 (s.headOf b) old
  tail : segFrom s.kf l2 new 0
  nodup : ((l1 ++ l2).map (·.1)).Nodup
  bucket : ∀ p ∈ l1 ++ l2, bucketOf p.2.key s.n = b
  on_chain : ∀ o sz r, s.kf.used o = some (sz, r) →
            if bucketOf r.key s.n = b then (o, r) ∈ l1 ++ l2
            else ∃ l, s.chain (bucketOf r.key s.n) = some l ∧ (o, r) ∈ l
  keys_ok : ∀ o sz r, s.kf.used o = some (sz, r) → KeyOK kt r.key
  keys_inj : ∀ o o' sz sz' r r', s.kf.used o = some (sz, r) → s.kf.used o' = some (sz', r') →
            r.key = r'.key → o = o'
  val_used : ∀ o sz r, s.kf.used o = some (sz, r) → ∃ vs v, s.vf.used r.valOff = some (vs, v)
  val_inj : ∀ o o' sz sz' r r', s.kf.used o = some (sz, r) → s.kf.used o' = some (sz', r') →
            r.valOff = r'.valOff → o = o'
  val_owned : ∀ vo vs v, s.vf.used vo = some (vs, v) → ∃ o sz r, s.kf.used o = some (sz, r) ∧ r.valOff = vo
  count_ok : s.count = RecFile.usedCount s.kf

theorem Mid.ne_zero {kt : KeyType} {s : Store} {b old new : Nat} {l1 l2 : List (Nat × KeyRec)}
    (hm : Mid kt s b old new l1 l2) : ∀ p ∈ l1 ++ l2, p.1 ≠ 0 := by
  intro p hp
  rcases List.mem_append.1 hp with hp | hp
  · exact (segFrom_used hm.seg p hp).1
  · exact (segFrom_used hm.tail p hp).1

theorem Mid.toBroken {kt : KeyType} {s : Store} {b old new : Nat} {l1 l2 : List (Nat × KeyRec)}
    (hm : Mid kt s b old new l1 l2) (hold : old ≠ 0 ∧ s.kf.used old = none) (hnew : new ≠ 0) :
    Broken kt s 0 b old new l1 l2 where
  npos := hm.npos
  kwf := hm.kwf
  vwf := hm.vwf
  heads_lt := hm.heads_lt
  bits_ok := hm.bits_ok
  b_lt := hm.b_lt
  chains_other := hm.chains_other
  seg := hm.seg
  old_free := hold
  x_used := fun h => absurd rfl h
  tail := ⟨hnew, chainFrom_of_seg_nodup hm.tail
    ((List.nodup_append.1 (by simpa using hm.nodup)).2.1)⟩
  nodup := hm.nodup
  bucket := fun p hp => ⟨hm.bucket p hp, hm.ne_zero p hp⟩
  on_chain := fun o sz r hu _ => hm.on_chain o sz r hu
  keys_ok := hm.keys_ok
  keys_inj := hm.keys_inj
  val_used := hm.val_used
  val_inj := hm.val_inj
  val_owned := hm.val_owned
  count_ok := hm.count_ok.trans (usedCount_eq _)

theorem Mid.chain {kt : KeyType} {s : Store} {b m : Nat} {l1 l2 : List (Nat × KeyRec)}
    (hm : Mid kt s b m m l1 l2) : s.chain b = some (l1 ++ l2) :=
  chain_of_seg (segFrom_append hm.seg hm.tail) hm.nodup

theorem Mid.toInv {kt : KeyType} {s : Store} {b m : Nat} {l1 l2 : List (Nat × KeyRec)}
    (hm : Mid kt s b m m l1 l2) : Inv kt s where
  npos := hm.npos
  kwf := hm.kwf
  vwf := hm.vwf
  heads_lt := hm.heads_lt
  bits_ok := hm.bits_ok
  chains := by
    intro b' hb'
    by_cases hbb : b' = b
    · subst hbb
      exact ⟨l1 ++ l2, hm.chain, hm.nodup, fun p hp => ⟨hm.bucket p hp, hm.ne_zero p hp⟩⟩
    · exact hm.chains_other b' hb' hbb
  on_chain := by
    intro o sz r hu _
    have := hm.on_chain o sz r hu
    by_cases hbb : bucketOf r.key s.n = b
    · rw [if_pos hbb] at this
      exact ⟨l1 ++ l2, hbb ▸ hm.chain, this⟩
    · rw [if_neg hbb] at this
      exact this
  keys_ok := hm.keys_ok
  keys_inj := hm.keys_inj
  val_used := hm.val_used
  val_inj := hm.val_inj
  val_owned := hm.val_owned
  count_ok := hm.count_ok.trans (usedCount_eq _)

/-! ## the abstraction after giving key `k` the value `v` (stored at `vn`) -/

theorem equiv_put_of_hasKV {kt : KeyType} {s s' : Store} {x x' : Nat} (h : InvX kt s x) (h' : InvX kt s' x')
    (k v : List Nat) (vn vsz : Nat)
    (hkv : ∀ k' vo', HasKV s' k' vo' ↔ (k' = k ∧ vo' = vn) ∨ (k' ≠ k ∧ HasKV s k' vo'))
    (hvn : s'.vf.used vn = some (vsz, v))
    (hvo : ∀ k' vo, k' ≠ k → HasKV s k' vo → s'.vf.used vo = s.vf.used vo) :
    Spec.Equiv (abs s') (Spec.put (abs s) k v) := by
  refine ⟨abs_nodup h', Spec.nodup_put _ _ _ (abs_nodup h), ?_⟩
  intro k'
  by_cases hkk : k' = k
  · subst hkk
    rw [Spec.get_put_self, abs_get_some h']
    exact ⟨vn, vsz, (hkv _ _).2 (Or.inl ⟨rfl, rfl⟩), hvn⟩
  · rw [Spec.get_put_ne _ _ _ _ hkk]
    cases hg : Spec.get (abs s) k' with
    | none =>
      rw [abs_get_none h] at hg
      rw [abs_get_none h']
      intro o sz r hu hrk
      rcases (hkv k' r.valOff).1 ⟨o, sz, r, hu, hrk, rfl⟩ with ⟨e, _⟩ | ⟨_, o2, sz2, r2, hu2, hk2, _⟩
      · exact hkk e
      · exact hg o2 sz2 r2 hu2 hk2
    | some w =>
      rw [abs_get_some h] at hg
      obtain ⟨vo, vs, hkv0, hvu⟩ := hg
      rw [abs_get_some h']
      exact ⟨vo, vs, (hkv _ _).2 (Or.inr ⟨hkk, hkv0⟩), (hvo k' vo hkk hkv0).trans hvu⟩

end Put
end Store
end Abyss
