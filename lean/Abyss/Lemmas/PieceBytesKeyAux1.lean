import Abyss.Lemmas.AllocBytes
import Abyss.Props.C09
/-!
# Piece-level I/O of the key file, part 1: the generated readers / writers on plain byte lists

Spec lemmas for the remaining primitives (`readBytes`, `seekSkipLength`, `seekToEnd`,
`readPieceOffset`, `writePieceOffset`, `writeZeroToOffset` when nothing is left to fill),
for `seekSkipToPieceKey`, for `keyDatWritePieceOne` (one `wr` of the rendered slot) and for the
readers of a key record found at an offset (`b.drop o = keyContent sz r ++ rest`).
-/
namespace Abyss
open Vu64 FileM

namespace PBK

/-! ## more primitives -/

theorem decodedLen_head_encode (v : Nat) :
    decodedLen ((encode v).headD 0) = (encode v).length := by
  rw [encode_length]
  rcases encodedLen_cases v with hc | hc | hc | hc | hc | hc | hc | hc | hc
  · obtain ⟨hL, hr⟩ := hc
    have he : encode v = [v] := by simp [encode, hL]
    rw [he, hL]
    have := decodedLen_cases v
    simp only [List.headD_cons]
    omega
  all_goals
    obtain ⟨hL, hr⟩ := hc
    have he : encode v = (if encodedLen v ≤ 7 then
          (prefixOnes (encodedLen v) + v % 2^(8-encodedLen v)) ::
            leBytes (v / 2^(8-encodedLen v)) (encodedLen v - 1)
        else if encodedLen v = 8 then 254 :: leBytes v 7 else 255 :: leBytes v 8) := by
      simp [encode, hL]
    rw [hL] at he
    simp only [prefixOnes, Nat.reducePow, Nat.reduceSub, Nat.reduceLeDiff, Nat.reduceEqDiff,
      ↓reduceIte] at he
    rw [he, hL, List.headD_cons]
    unfold decodedLen; repeat' split
    all_goals omega

theorem wr_nil (s : FSt) : wr [] s = s := by
  obtain ⟨b, p⟩ := s
  unfold wr
  simp only [List.append_nil, List.length_nil, Nat.add_zero, List.take_append_drop]

/-- a write at the end of the file appends -/
theorem wr_end (X A : List Nat) : wr X ⟨A, A.length⟩ = ⟨A ++ X, A.length + X.length⟩ := by
  unfold wr
  simp only [List.take_length, FSt.mk.injEq, and_true]
  rw [List.drop_eq_nil_of_le (by omega), List.append_nil]

theorem wr_end' (X b : List Nat) (p : Nat) (hp : p = b.length) : wr X ⟨b, p⟩ = ⟨b ++ X, p + X.length⟩ := by
  subst hp; exact wr_end X b

theorem readBytes_spec {b X rest : List Nat} {p : Nat} (hd : b.drop p = X ++ rest)
    (hp : p + X.length ≤ b.length) :
    FileM.readBytes X.length ⟨b, p⟩ = some (X, ⟨b, p + X.length⟩) := by
  unfold FileM.readBytes
  simp only
  rw [if_pos hp, hd, List.take_left' rfl]

theorem seekSkipLength_spec (n : Nat) (b : List Nat) (p : Nat) (h : p + n ≤ b.length) :
    Gen.seekSkipLength n ⟨b, p⟩ = some (p + n, ⟨b, p + n⟩) := by
  unfold Gen.seekSkipLength FileM.seekCur FileM.seek
  simp only [Nat.sub_eq_zero_of_le h, List.replicate_zero, List.append_nil]

theorem seekToEnd_spec (b : List Nat) (p : Nat) :
    Gen.seekToEnd ⟨b, p⟩ = some (b.length, ⟨b, b.length⟩) := rfl

theorem readPieceOffset_spec {b rest : List Nat} {p v : Nat} (hd : b.drop p = encode v ++ rest)
    (hv : v < 2^64) : Gen.readPieceOffset ⟨b, p⟩ = some (v * 8, ⟨b, p + (encode v).length⟩) := by
  unfold Gen.readPieceOffset Gen.readVu64U64
  rw [bind_some (readVu64_spec hd hv), pure_apply]

theorem writePieceOffset_spec (v : Nat) (s : FSt) (h : s.pos ≤ s.bytes.length) :
    Gen.writePieceOffset v s = some ((), wr (encode (v / 8)) s) := by
  unfold Gen.writePieceOffset Gen.writeVu64U64 FileM.writeVu64
  exact writeBytes_eq _ s h

/-- `write_zero_to_offset`, also when the cursor already is at the offset -/
theorem writeZeroToOffset_le (off : Nat) (s : FSt) (h : s.pos ≤ s.bytes.length)
    (hle : s.pos ≤ off) (h32 : off - s.pos < 2^32) :
    Gen.writeZeroToOffset off s = some ((), wr (zeros (off - s.pos)) s) := by
  by_cases hlt : s.pos < off
  · exact writeZeroToOffset_spec off s h hlt h32
  · have e : off - s.pos = 0 := by omega
    rw [e]
    have : zeros 0 = [] := rfl
    rw [this, wr_nil]
    unfold Gen.writeZeroToOffset
    have hp : Gen.seekPosition s = some (s.pos, s) := rfl
    rw [bind_some hp]
    simp only [gt_iff_lt, hlt, decide_false, Bool.false_eq_true, if_false]
    rfl

/-- `seek_skip_to_piece_key`: the cursor ends behind the size field -/
theorem seekSkipToPieceKey_spec {b rest : List Nat} {o v : Nat} (p : Nat)
    (hd : b.drop o = encode v ++ rest) :
    Gen.seekSkipToPieceKey o ⟨b, p⟩ =
      some (o + (encode v).length, ⟨b, o + (encode v).length⟩) := by
  have hl := lt_length_of_drop_eq hd
  have hpos := encode_length_pos v
  have hlen : o + (encode v).length ≤ b.length := by omega
  have hr : FileM.readU8 ⟨b, o⟩ = some ((encode v).headD 0, ⟨b, o + 1⟩) := by
    unfold FileM.readU8
    have : FileM.readPad 1 ⟨b, o⟩ = some ((b.drop o).take 1 ++ List.replicate (1 - ((b.drop o).take 1).length) 0, ⟨b, o + 1⟩) := by
      unfold FileM.readPad
      simp only
      rw [if_pos (by omega)]
    rw [bind_some this, pure_apply, hd]
    cases he : encode v with
    | nil => rw [he] at hpos; simp at hpos
    | cons x t => simp
  unfold Gen.seekSkipToPieceKey
  rw [bind_some (seekFromStart_spec o b p (by omega)), bind_some hr]
  simp only [decodedLen_head_encode, gt_iff_lt]
  by_cases h1 : 1 < (encode v).length
  · simp only [h1, decide_true, if_true]
    rw [bind_some (show (do let _ ← Gen.seekSkipLength ((encode v).length - 1); pure ()) ⟨b, o + 1⟩ =
        some ((), ⟨b, o + 1 + ((encode v).length - 1)⟩) from by
      rw [bind_some (seekSkipLength_spec _ b (o + 1) (by omega)), pure_apply])]
    have e : o + 1 + ((encode v).length - 1) = o + (encode v).length := by omega
    rw [e]; rfl
  · simp only [h1, decide_false, Bool.false_eq_true, if_false]
    rw [pure_bind_apply]
    have e : (encode v).length = 1 := by omega
    rw [e]; rfl

/-! ## a key record at an offset -/

theorem keyContent_len (sz : Nat) (r : KeyRec) :
    (keyContent sz r).length = (encode (sz / 8)).length + (encode r.key.length).length + r.key.length +
      (encode (r.valOff / 8)).length + (encode (r.next / 8)).length := by
  unfold keyContent
  simp only [List.length_append]

/-- positions of the five fields of a used key slot found at offset `o` -/
theorem key_fields {b rest : List Nat} {o sz : Nat} {r : KeyRec} (hd : b.drop o = keyContent sz r ++ rest) :
    b.drop o = encode (sz / 8) ++ (encode r.key.length ++ (r.key ++ (encode (r.valOff / 8) ++
      (encode (r.next / 8) ++ rest)))) ∧
    b.drop (o + (encode (sz / 8)).length) = encode r.key.length ++ (r.key ++ (encode (r.valOff / 8) ++
      (encode (r.next / 8) ++ rest))) ∧
    b.drop (o + (encode (sz / 8)).length + (encode r.key.length).length) =
      r.key ++ (encode (r.valOff / 8) ++ (encode (r.next / 8) ++ rest)) ∧
    b.drop (o + (encode (sz / 8)).length + (encode r.key.length).length + r.key.length) =
      encode (r.valOff / 8) ++ (encode (r.next / 8) ++ rest) ∧
    b.drop (o + (encode (sz / 8)).length + (encode r.key.length).length + r.key.length +
        (encode (r.valOff / 8)).length) = encode (r.next / 8) ++ rest ∧
    o + (keyContent sz r).length ≤ b.length := by
  have h1 : b.drop o = encode (sz / 8) ++ (encode r.key.length ++ (r.key ++ (encode (r.valOff / 8) ++
      (encode (r.next / 8) ++ rest)))) := by
    rw [hd]; unfold keyContent; simp only [List.append_assoc]
  have h2 := drop_add_of_drop_eq h1
  have h3 := drop_add_of_drop_eq h2
  have h4 := drop_add_of_drop_eq h3
  have h5 := drop_add_of_drop_eq h4
  refine ⟨h1, h2, h3, h4, h5, ?_⟩
  have := lt_length_of_drop_eq hd
  have := encode_length_pos (sz / 8)
  rw [keyContent_len] at *
  omega

/-- `read_piece` of the key file at a rendered used slot -/
theorem keyReadPiece_spec {b rest : List Nat} {o sz : Nat} {r : KeyRec} (p : Nat)
    (hd : b.drop o = keyContent sz r ++ rest) (h8 : 8 ∣ sz) (h32 : sz < 2^35)
    (hk : r.key.length < 2^32) (hv : r.valOff < 2^67) (hn : r.next < 2^67)
    (hv8 : 8 ∣ r.valOff) (hn8 : 8 ∣ r.next) :
    ∃ p', Gen.keyReadPiece o ⟨b, p⟩ = some ((sz, r.key, r.valOff, r.next), ⟨b, p'⟩) := by
  obtain ⟨h1, h2, h3, h4, h5, hlen⟩ := key_fields hd
  rw [keyContent_len] at hlen
  apply Exists.intro
  unfold Gen.keyReadPiece
  rw [bind_some (seekFromStart_spec o b p (by omega)),
    bind_some (readPieceSize_spec h1 (by omega)),
    bind_some (readKeyLen_spec h2 hk),
    bind_some (readBytes_spec h3 (by omega)),
    bind_some (readPieceOffset_spec h4 (by omega)),
    bind_some (readPieceOffset_spec h5 (by omega)), pure_apply,
    Nat.div_mul_cancel h8, Nat.div_mul_cancel hv8, Nat.div_mul_cancel hn8]

theorem keyReadPieceOnlySize_spec {b rest : List Nat} {o sz : Nat} {r : KeyRec} (p : Nat)
    (hd : b.drop o = keyContent sz r ++ rest) (h8 : 8 ∣ sz) (h32 : sz < 2^35) :
    Gen.keyReadPieceOnlySize o ⟨b, p⟩ = some (sz, ⟨b, o + (encode (sz / 8)).length⟩) := by
  obtain ⟨h1, h2, h3, h4, h5, hlen⟩ := key_fields hd
  unfold Gen.keyReadPieceOnlySize
  rw [bind_some (seekFromStart_spec o b p (by omega)),
    readPieceSize_spec h1 (by omega), Nat.div_mul_cancel h8]

theorem keyReadPieceOnlyKey_spec {b rest : List Nat} {o sz : Nat} {r : KeyRec} (p : Nat)
    (hd : b.drop o = keyContent sz r ++ rest) (hk : r.key.length < 2^32) :
    ∃ p', Gen.keyReadPieceOnlyKey o ⟨b, p⟩ = some (r.key, ⟨b, p'⟩) := by
  obtain ⟨h1, h2, h3, h4, h5, hlen⟩ := key_fields hd
  rw [keyContent_len] at hlen
  apply Exists.intro
  unfold Gen.keyReadPieceOnlyKey
  rw [bind_some (seekSkipToPieceKey_spec p h1),
    bind_some (readKeyLen_spec h2 hk), readBytes_spec h3 (by omega)]

theorem keyReadPieceOnlyValueOffset_spec {b rest : List Nat} {o sz : Nat} {r : KeyRec} (p : Nat)
    (hd : b.drop o = keyContent sz r ++ rest) (hk : r.key.length < 2^32) (hv : r.valOff < 2^67)
    (hv8 : 8 ∣ r.valOff) :
    ∃ p', Gen.keyReadPieceOnlyValueOffset o ⟨b, p⟩ = some (r.valOff, ⟨b, p'⟩) := by
  obtain ⟨h1, h2, h3, h4, h5, hlen⟩ := key_fields hd
  rw [keyContent_len] at hlen
  apply Exists.intro
  unfold Gen.keyReadPieceOnlyValueOffset
  rw [bind_some (seekSkipToPieceKey_spec p h1),
    bind_some (readKeyLen_spec h2 hk),
    bind_some (seekSkipLength_spec r.key.length b _ (by omega)),
    readPieceOffset_spec h4 (by omega), Nat.div_mul_cancel hv8]

theorem keyReadPieceOnlyBucketNextOffset_spec {b rest : List Nat} {o sz : Nat} {r : KeyRec} (p : Nat)
    (hd : b.drop o = keyContent sz r ++ rest) (hk : r.key.length < 2^32) (hv : r.valOff < 2^67)
    (hn : r.next < 2^67) (hn8 : 8 ∣ r.next) :
    ∃ p', Gen.keyReadPieceOnlyBucketNextOffset o ⟨b, p⟩ = some (r.next, ⟨b, p'⟩) := by
  obtain ⟨h1, h2, h3, h4, h5, hlen⟩ := key_fields hd
  rw [keyContent_len] at hlen
  apply Exists.intro
  unfold Gen.keyReadPieceOnlyBucketNextOffset
  rw [bind_some (seekSkipToPieceKey_spec p h1),
    bind_some (readKeyLen_spec h2 hk),
    bind_some (seekSkipLength_spec r.key.length b _ (by omega)),
    bind_some (readPieceOffset_spec h4 (by omega)),
    readPieceOffset_spec h5 (by omega), Nat.div_mul_cancel hn8]

/-! ## the writer -/

/-- `dat_write_piece_one` of the key file: one overwrite with the rendered slot -/
theorem keyDatWritePieceOne_spec (o sz : Nat) (r : KeyRec) (b : List Nat) (p : Nat)
    (ho : o ≤ b.length) (hsz : sz ≠ 0) (h32 : sz < 2^32) (hk : r.key.length < 2^32)
    (hfit : (keyContent sz r).length ≤ sz) :
    Gen.keyDatWritePieceOne o sz r.key r.valOff r.next ⟨b, p⟩ =
      some ((), wr (padTo sz (keyContent sz r)) ⟨b, o⟩) := by
  have hok : (⟨b, o⟩ : FSt).pos ≤ (⟨b, o⟩ : FSt).bytes.length := ho
  have ok1 := wr_ok (encode (sz / 8)) _ hok
  have ok2 := wr_ok (encode r.key.length) _ ok1
  have ok3 := wr_ok r.key _ ok2
  have ok4 := wr_ok (encode (r.valOff / 8)) _ ok3
  have ok5 := wr_ok (encode (r.next / 8)) _ ok4
  rw [keyContent_len] at hfit
  unfold Gen.keyDatWritePieceOne
  have hz : (sz == 0) = false := by simpa using hsz
  rw [hz]
  simp only [Bool.false_eq_true, if_false, Nat.mod_eq_of_lt hk]
  rw [pure_bind_apply, bind_some (seekFromStart_spec o b p ho),
    bind_some (writePieceSize_spec sz _ hok), bind_some (writeKeyLen_spec _ _ ok1),
    bind_some (writeBytes_eq r.key _ ok2), bind_some (writePieceOffset_spec _ _ ok3),
    bind_some (writePieceOffset_spec _ _ ok4)]
  have hpos : (wr (encode (r.next / 8)) (wr (encode (r.valOff / 8)) (wr r.key (wr (encode r.key.length)
      (wr (encode (sz / 8)) ⟨b, o⟩))))).pos =
      o + (encode (sz / 8)).length + (encode r.key.length).length + r.key.length +
        (encode (r.valOff / 8)).length + (encode (r.next / 8)).length := by
    simp only [wr_pos]
  rw [bind_some (writeZeroToOffset_le (o + sz) _ ok5 (by rw [hpos]; omega) (by rw [hpos]; omega)),
    hpos, pure_apply, wr_wr _ _ _ hok, wr_wr _ _ _ hok, wr_wr _ _ _ hok, wr_wr _ _ _ hok, wr_wr _ _ _ hok]
  congr 3
  unfold padTo
  rw [keyContent_len]
  unfold keyContent
  congr 2
  omega

end PBK
end Abyss
