import Abyss.Lemmas.DelBasic
/-!
# The abstraction after removing one key: `abs s' ≈ Spec.del (abs s) k`
-/
namespace Abyss
namespace Store
namespace Del

/-- If the used key records of `s'` are those of `s` without the one holding `k` (as (key, value
offset) pairs) and the value records of the remaining keys are unchanged, then `abs s'` is the
ideal map `abs s` with `k` deleted. -/
theorem abs_del_equiv {kt : KeyType} {s s' : Store} {x x' : Nat} (h : InvX kt s x) (h' : InvX kt s' x')
    (k : List Nat)
    (hkv : ∀ k' vo, HasKV s' k' vo ↔ k' ≠ k ∧ HasKV s k' vo)
    (hv : ∀ k' vo, k' ≠ k → HasKV s k' vo → s'.vf.used vo = s.vf.used vo) :
    Spec.Equiv (abs s') (Spec.del (abs s) k) := by
  refine ⟨abs_nodup h', Spec.nodup_del _ _ (abs_nodup h), ?_⟩
  intro k'
  by_cases hkk : k' = k
  · subst hkk
    rw [Spec.get_del_self, abs_get_none h']
    intro o sz r hu hkey
    have : HasKV s' k' r.valOff := ⟨o, sz, r, hu, hkey, rfl⟩
    exact ((hkv _ _).mp this).1 rfl
  · rw [Spec.get_del_ne _ _ _ hkk]
    apply Option.ext
    intro v
    rw [abs_get_some h', abs_get_some h]
    constructor
    · rintro ⟨vo, vs, hh, hu⟩
      have hh' := (hkv _ _).mp hh
      exact ⟨vo, vs, hh'.2, by rw [← hv k' vo hkk hh'.2]; exact hu⟩
    · rintro ⟨vo, vs, hh, hu⟩
      exact ⟨vo, vs, (hkv _ _).mpr ⟨hkk, hh⟩, by rw [hv k' vo hkk hh]; exact hu⟩

/-- deleting a key that is not there leaves the ideal map as it is -/
theorem abs_del_absent {kt : KeyType} {s : Store} {x : Nat} (h : InvX kt s x) (k : List Nat)
    (hno : ∀ o sz r, s.kf.used o = some (sz, r) → r.key ≠ k) :
    Spec.Equiv (abs s) (Spec.del (abs s) k) := by
  refine ⟨abs_nodup h, Spec.nodup_del _ _ (abs_nodup h), ?_⟩
  intro k'
  by_cases hkk : k' = k
  · subst hkk
    rw [Spec.get_del_self, abs_get_none h]
    exact hno
  · rw [Spec.get_del_ne _ _ _ hkk]

end Del
end Store
end Abyss
