import Abyss.Inv
import Abyss.Lemmas.AllocL
import Abyss.Lemmas.ChainL
import Abyss.Lemmas.RelinkL
import Abyss.Lemmas.SpecL
/-!
# Helpers for `del_spec`: the `used` view, link segments, chains under a change of the key file
-/
namespace Abyss
variable {α : Type}

namespace Store
namespace Del

theorem used_eq_some {f : RecFile α} {o sz : Nat} {p : α} :
    f.used o = some (sz, p) ↔ f.get o = some (.used sz p) := by
  unfold RecFile.used
  split
  · next s' p' hg =>
    rw [hg]
    constructor
    · intro h; cases h; rfl
    · intro h; cases h; rfl
  · next hne =>
    constructor
    · intro h; cases h
    · intro h; exact absurd h (hne sz p)

theorem used_ne_zero {c : FileCfg} {f : RecFile α} (hc : CfgOK c) (h : RecFile.WF c f) {o sz : Nat} {p : α}
    (hu : f.used o = some (sz, p)) : o ≠ 0 := by
  have hb := RecFile.WF.get_bounds hc h (used_eq_some.mp hu)
  have := hc.hdr_pos
  omega

/-! ### segments -/

theorem segFrom_append (kf : RecFile KeyRec) (l1 l2 : List (Nat × KeyRec)) (cur tgt : Nat) :
    segFrom kf (l1 ++ l2) cur tgt ↔ ∃ mid, segFrom kf l1 cur mid ∧ segFrom kf l2 mid tgt := by
  induction l1 generalizing cur with
  | nil =>
    constructor
    · intro h; exact ⟨cur, rfl, h⟩
    · rintro ⟨mid, h1, h2⟩
      have : cur = mid := h1
      subst this; exact h2
  | cons p l1 ih =>
    obtain ⟨o, r⟩ := p
    constructor
    · intro h
      obtain ⟨h1, h2, h3, h4⟩ := h
      obtain ⟨mid, h5, h6⟩ := (ih r.next).mp h4
      exact ⟨mid, ⟨h1, h2, h3, h5⟩, h6⟩
    · rintro ⟨mid, ⟨h1, h2, h3, h5⟩, h6⟩
      exact ⟨h1, h2, h3, (ih r.next).mpr ⟨mid, h5, h6⟩⟩

/-- every member of a segment is a used record, at a non-zero offset -/
theorem segFrom_mem {kf : RecFile KeyRec} {l : List (Nat × KeyRec)} {cur tgt : Nat}
    (h : segFrom kf l cur tgt) : ∀ p ∈ l, p.1 ≠ 0 ∧ ∃ sz, kf.used p.1 = some (sz, p.2) := by
  induction l generalizing cur with
  | nil => intro p hp; cases hp
  | cons q l ih =>
    obtain ⟨o, r⟩ := q
    obtain ⟨_, h2, h3, h4⟩ := h
    intro p hp
    rcases List.mem_cons.mp hp with rfl | hp
    · exact ⟨h2, h3⟩
    · exact ih h4 p hp

/-- a segment does not depend on records that are not on it -/
theorem segFrom_congr {kf kf' : RecFile KeyRec} {l : List (Nat × KeyRec)} {cur tgt : Nat}
    (h : segFrom kf l cur tgt) (hsame : ∀ p ∈ l, kf'.used p.1 = kf.used p.1) :
    segFrom kf' l cur tgt := by
  induction l generalizing cur with
  | nil => exact h
  | cons q l ih =>
    obtain ⟨o, r⟩ := q
    obtain ⟨h1, h2, h3, h4⟩ := h
    refine ⟨h1, h2, ?_, ih h4 (fun p hp => hsame p (List.mem_cons_of_mem _ hp))⟩
    have := hsame (o, r) List.mem_cons_self
    simpa [this] using h3

/-- the members of a chain are used records at non-zero offsets -/
theorem chainFrom_mem {kf : RecFile KeyRec} {fuel cur : Nat} {l : List (Nat × KeyRec)}
    (h : chainFrom kf fuel cur = some l) : ∀ p ∈ l, p.1 ≠ 0 ∧ ∃ sz, kf.used p.1 = some (sz, p.2) :=
  segFrom_mem (chainFrom_seg kf fuel cur l h)

/-- a chain carries over to another key file in which its members are unchanged -/
theorem chainFrom_transfer {kf kf' : RecFile KeyRec} {fuel fuel' cur : Nat} {l : List (Nat × KeyRec)}
    (h : chainFrom kf fuel cur = some l) (hsame : ∀ p ∈ l, kf'.used p.1 = kf.used p.1)
    (hf : l.length < fuel') : chainFrom kf' fuel' cur = some l :=
  chainFrom_of_seg kf' cur l (segFrom_congr (chainFrom_seg kf fuel cur l h) hsame) fuel' hf

/-- a segment with duplicate-free offsets fits into the slot list -/
theorem seg_length_le {kf : RecFile KeyRec} {l : List (Nat × KeyRec)} {cur tgt : Nat}
    (h : segFrom kf l cur tgt) (hn : (l.map (·.1)).Nodup) : l.length ≤ kf.slots.length :=
  nodup_offsets_length kf l hn (fun p hp => (segFrom_mem h p hp).2)

/-- the last record of a segment points to the target -/
theorem segFrom_snoc (kf : RecFile KeyRec) (l : List (Nat × KeyRec)) (po : Nat) (pr : KeyRec)
    (cur tgt : Nat) :
    segFrom kf (l ++ [(po, pr)]) cur tgt ↔
      segFrom kf l cur po ∧ po ≠ 0 ∧ (∃ sz, kf.used po = some (sz, pr)) ∧ pr.next = tgt := by
  rw [segFrom_append]
  constructor
  · rintro ⟨mid, h1, h2, h3, h4, h5⟩
    have : mid = po := h2
    subst this
    exact ⟨h1, h3, h4, h5⟩
  · rintro ⟨h1, h3, h4, h5⟩
    exact ⟨po, h1, rfl, h3, h4, h5⟩

theorem bucketOf_lt (k : List Nat) {n : Nat} (hn : 0 < n) : bucketOf k n < n := by
  unfold bucketOf
  exact Nat.mod_lt _ hn

/-- `InvX.count_ok` in terms of `RecFile.usedCount` -/
theorem count_ok_iff (s : Store) :
    (s.count = (s.kf.slots.filter fun p => match p.2 with | .used _ _ => true | _ => false).length) ↔
    s.count = RecFile.usedCount s.kf := by
  unfold RecFile.usedCount
  constructor
  · intro h; rw [h]; congr 1; apply List.filter_congr; intro p _; rcases p with ⟨a, b⟩; cases b <;> rfl
  · intro h; rw [h]; congr 1; apply List.filter_congr; intro p _; rcases p with ⟨a, b⟩; cases b <;> rfl

theorem count_eq {kt : KeyType} {s : Store} {x : Nat} (h : InvX kt s x) :
    s.count = RecFile.usedCount s.kf := (count_ok_iff s).mp h.count_ok

theorem chain_length_le {kt : KeyType} {s : Store} {x b : Nat} (h : InvX kt s x) (hb : b < s.n)
    {l : List (Nat × KeyRec)} (hc : s.chain b = some l) : l.length ≤ s.kf.slots.length := by
  obtain ⟨l', hc', hn, _⟩ := h.chains b hb
  rw [hc] at hc'
  cases hc'
  exact nodup_offsets_length s.kf l hn (fun p hp => (chainFrom_mem hc p hp).2)

end Del
end Store
end Abyss
