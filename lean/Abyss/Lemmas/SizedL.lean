import Abyss.Sized
import Abyss.Props.C01
import Abyss.Props.C09
import Abyss.Lemmas.SizedOps
import Abyss.Lemmas.SizedRender
/-!
# `Sized` is an invariant of every history of small operations, and gives `Renderable`
-/
namespace Abyss
open Store

theorem init_sized (n : Nat) : (Store.init n).Sized := by
  refine ⟨?_, ?_, ?_, ?_⟩
  · intro o sz r h
    simp [Store.init, RecFile.used, RecFile.empty, RecFile.get, aget] at h
  · intro o sz r h
    simp [Store.init, RecFile.used, RecFile.empty, RecFile.get, aget] at h
  · show Gen.htxHeaderSz + 8 * n ≤ Gen.htxInitLen n
    unfold Gen.htxInitLen
    omega
  · intro b hb
    simp [Store.init, Store.bitOf, aget] at hb

/-- one call keeps `Sized` -/
theorem step_sized {kt : KeyType} {s s' : Store} (h : Inv kt s) (hs : s.Sized) (op : Op) (hop : Op.OK kt op)
    (hsm : op.Small) (o : Out) (hstep : s.step kt op = some (s', o)) : s'.Sized := by
  have hw : SzW s := SzW.of h.kwf h.vwf hs
  cases op with
  | put k v =>
    simp only [Store.step, Option.map_eq_some_iff, Prod.mk.injEq] at hstep
    obtain ⟨s1, h1, rfl, _⟩ := hstep
    exact (put_szw hw hsm.1 hsm.2 h1).sized
  | del k =>
    simp only [Store.step, Option.map_eq_some_iff, Prod.mk.injEq] at hstep
    obtain ⟨⟨s1, r⟩, h1, rfl, _⟩ := hstep
    exact del_sized hw h1
  | get k =>
    simp only [Store.step, Option.map_eq_some_iff, Prod.mk.injEq] at hstep
    obtain ⟨_, _, rfl, _⟩ := hstep
    exact hs
  | includes k =>
    simp only [Store.step, Option.map_eq_some_iff, Prod.mk.injEq] at hstep
    obtain ⟨_, _, rfl, _⟩ := hstep
    exact hs
  | len =>
    simp only [Store.step, Option.some.injEq, Prod.mk.injEq] at hstep
    obtain ⟨rfl, _⟩ := hstep
    exact hs
  | isEmpty =>
    simp only [Store.step, Option.some.injEq, Prod.mk.injEq] at hstep
    obtain ⟨rfl, _⟩ := hstep
    exact hs

/-- a whole history keeps `Sized` -/
theorem run_sized {kt : KeyType} (ops : List Op) :
    ∀ {s s' : Store} (_ : Inv kt s) (_ : s.Sized) (_ : ∀ op ∈ ops, Op.OK kt op ∧ op.Small) (outs : List Out),
      s.run kt ops = some (s', outs) → s'.Sized := by
  induction ops with
  | nil =>
    intro s s' _ hs _ outs hrun
    simp only [Store.run, Option.some.injEq, Prod.mk.injEq] at hrun
    obtain ⟨rfl, _⟩ := hrun
    exact hs
  | cons op ops ih =>
    intro s s' h hs hops outs hrun
    have hop := hops op List.mem_cons_self
    obtain ⟨s1, h1, hi1, _, _⟩ := step_refines h op hop.1
    have hs1 := step_sized h hs op hop.1 hop.2 _ h1
    simp only [Store.run, h1] at hrun
    split at hrun
    · cases hrun
    · next s2 os hr2 =>
      simp only [Option.some.injEq, Prod.mk.injEq] at hrun
      obtain ⟨rfl, _⟩ := hrun
      exact ih hi1 hs1 (fun o ho => hops o (List.mem_cons_of_mem _ ho)) os hr2

/-- with files below 4 GiB and fewer than 2^60 buckets, a state that satisfies the invariant and is
`Sized` is `Renderable`: every number fits its field and every record fits its slot (C09) -/
theorem renderable_of_sized {kt : KeyType} {s : Store} (h : Inv kt s) (hs : s.Sized)
    (hk : s.kf.end_ < 2^32) (hv : s.vf.end_ < 2^32) (hn : s.n < 2^60) : Renderable kt s := by
  refine ⟨?_, hn, ?_, ?_, ?_, ?_, ?_, ?_, hs.htx_len, hs.bits_in⟩
  · cases kt <;> rfl
  · have hc : s.count = RecFile.usedCount s.kf := h.count_ok.trans (Relink.usedCount_eq _)
    rw [hc, RecFile.usedCount_eq]
    have h1 := List.length_filter_le (fun p : Nat × Slot KeyRec => RecFile.Slot.isUsed p.2) s.kf.slots
    have h2 := h.kwf.length_le
    omega
  · intro b
    have := headOf_le h b
    omega
  · intro x hx
    have := h.kwf.head_lt keyCfg8 x hx
    omega
  · intro x hx
    have := h.vwf.head_lt valCfg8 x hx
    omega
  · rintro ⟨o, sl⟩ hp
    have hg := get_of_mem_slots h.kwf o sl hp
    have hL := h.kwf.legalSize keyCfg8 hg hk
    have hb := RecFile.WF.get_bounds keyCfg_ok h.kwf hg
    cases sl with
    | used sz r =>
      have hu := used_of_get _ _ _ _ hg
      obtain ⟨hfit, hlen⟩ := hs.kfit o sz r hu
      obtain ⟨hv1, hv2⟩ := valOff_lt h hu
      obtain ⟨hn1, hn2⟩ := next_le h hu
      have hsz : sz ≤ s.kf.end_ := by have : (Slot.used sz r).size = sz := rfl; omega
      exact ⟨by omega, hlen, by omega, by omega, hv2, hn2,
        C09_key_fits_larger r hlen (by omega) (by omega) sz hL hfit⟩
    | free sz nx =>
      have hnx := h.kwf.free_next_lt keyCfg8 hg
      have hsz : sz ≤ s.kf.end_ := by have : (Slot.free sz nx : Slot KeyRec).size = sz := rfl; omega
      exact ⟨by omega, by omega, C09_free_fits sz nx hL⟩
  · rintro ⟨o, sl⟩ hp
    have hg := get_of_mem_slots h.vwf o sl hp
    have hL := h.vwf.legalSize valCfg8 hg hv
    have hb := RecFile.WF.get_bounds valCfg_ok h.vwf hg
    cases sl with
    | used sz v =>
      have hu := used_of_get _ _ _ _ hg
      obtain ⟨hfit, hlen⟩ := hs.vfit o sz v hu
      have hsz : sz ≤ s.vf.end_ := by have : (Slot.used sz v).size = sz := rfl; omega
      exact ⟨by omega, hlen, C09_value_fits_larger v hlen sz hL hfit⟩
    | free sz nx =>
      have hnx := h.vwf.free_next_lt valCfg8 hg
      have hsz : sz ≤ s.vf.end_ := by have : (Slot.free sz nx : Slot (List Nat)).size = sz := rfl; omega
      exact ⟨by omega, by omega, C09_free_fits sz nx hL⟩

theorem chain_of_same {s t : Store} (hst : t.Same s) (b : Nat) : t.chain b = s.chain b := by
  obtain ⟨_, _, _, hk, _, hh, _⟩ := hst
  unfold Store.chain
  rw [hk, hh]

/-- `Inv` only looks at the bucket table through `headOf` / `bitOf` -/
theorem inv_of_same {kt : KeyType} {s t : Store} (h : Inv kt s) (hst : t.Same s) : Inv kt t := by
  have hch := chain_of_same hst
  obtain ⟨hn, hc, he, hk, hv, hh, hb⟩ := hst
  refine ⟨?_, ?_, ?_, ?_, ?_, ?_, ?_, ?_, ?_, ?_, ?_, ?_, ?_⟩
  · rw [hn]; exact h.npos
  · rw [hk]; exact h.kwf
  · rw [hv]; exact h.vwf
  · intro b; rw [hn, hh]; exact h.heads_lt b
  · intro b; rw [hb, hh]; exact h.bits_ok b
  · intro b; rw [hn, hch]; exact h.chains b
  · intro o sz r; rw [hk, hn, hch]; exact h.on_chain o sz r
  · intro o sz r; rw [hk]; exact h.keys_ok o sz r
  · intro o o' sz sz' r r'; rw [hk]; exact h.keys_inj o o' sz sz' r r'
  · intro o sz r; rw [hk, hv]; exact h.val_used o sz r
  · intro o o' sz sz' r r'; rw [hk]; exact h.val_inj o o' sz sz' r r'
  · intro vo vs v; rw [hk, hv]; exact h.val_owned vo vs v
  · rw [hc, hk]; exact h.count_ok

end Abyss
