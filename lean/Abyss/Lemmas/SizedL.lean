import Abyss.Sized
import Abyss.Props.C01
import Abyss.Props.C09
/-!
# `Sized` is an invariant of every history of small operations, and gives `Renderable`
-/
namespace Abyss
open Store

theorem init_sized (n : Nat) : (Store.init n).Sized := by sorry

/-- one call keeps `Sized` -/
theorem step_sized {kt : KeyType} {s s' : Store} (h : Inv kt s) (hs : s.Sized) (op : Op) (hop : Op.OK kt op)
    (hsm : op.Small) (o : Out) (hstep : s.step kt op = some (s', o)) : s'.Sized := by sorry

/-- a whole history keeps `Sized` -/
theorem run_sized {kt : KeyType} (ops : List Op) :
    ∀ {s s' : Store} (_ : Inv kt s) (_ : s.Sized) (_ : ∀ op ∈ ops, Op.OK kt op ∧ op.Small) (outs : List Out),
      s.run kt ops = some (s', outs) → s'.Sized := by sorry

/-- with files below 4 GiB and fewer than 2^60 buckets, a state that satisfies the invariant and is
`Sized` is `Renderable`: every number fits its field and every record fits its slot (C09) -/
theorem renderable_of_sized {kt : KeyType} {s : Store} (h : Inv kt s) (hs : s.Sized)
    (hk : s.kf.end_ < 2^32) (hv : s.vf.end_ < 2^32) (hn : s.n < 2^60) : Renderable kt s := by sorry

/-- `Inv` only looks at the bucket table through `headOf` / `bitOf` -/
theorem inv_of_same {kt : KeyType} {s t : Store} (h : Inv kt s) (hst : t.Same s) : Inv kt t := by sorry

end Abyss
