import Abyss.Lemmas.AllocCount
/-!
# Slot census under allocator operations — every class, including the shared first-fit large list

`sizeCount f sz` = number of slots of size `sz`, `usedCount f` = number of used slots.
An allocation either reuses a free slot (census unchanged) or extends the file by one slot of
size `need`, and then — also on the large list, where the first slot with `size ≥ need` would have
been taken — no free slot of size `need` existed, so all slots of that size are in use.
-/
namespace Abyss
variable {α : Type}
open RecFile

theorem usedSizeCount_le_usedCount (f : RecFile α) (sz : Nat) : usedSizeCount f sz ≤ usedCount f := by
  rw [usedCount_eq]
  unfold usedSizeCount
  rw [← List.countP_eq_length_filter, ← List.countP_eq_length_filter]
  apply List.countP_mono_left
  intro p _ hp
  cases hs : p.2 with
  | used s q => rfl
  | free s nx => rw [hs] at hp; simp [Slot.usedSz] at hp

/-- the first-fit pop on the large list keeps the number of slots of each size, and returns the
file itself when it finds nothing -/
theorem popLarge_count {c : FileCfg} {need : Nat} : ∀ (fuel : Nat) (f : RecFile α) (prev cur off : Nat)
    (f1 : RecFile α), popLarge c need fuel f prev cur = some (off, f1) →
    (∀ sz, sizeCount f1 sz = sizeCount f sz) ∧ (off = 0 → f1 = f) := by
  intro fuel
  induction fuel with
  | zero => intro f prev cur off f1 h; simp [popLarge] at h
  | succ fuel ih =>
    intro f prev cur off f1 h
    unfold popLarge at h
    by_cases hc0 : cur = 0
    · simp only [hc0, if_true, Option.some.injEq, Prod.mk.injEq] at h
      obtain ⟨rfl, rfl⟩ := h
      exact ⟨fun _ => rfl, fun _ => rfl⟩
    · simp only [hc0, if_false] at h
      cases hg : f.get cur with
      | none => simp [hg] at h
      | some s =>
        cases s with
        | used s q => simp [hg] at h
        | free s nx =>
          simp only [hg] at h
          by_cases hn : need ≤ s
          · simp only [hn, if_true] at h
            by_cases hp : prev = 0
            · simp only [hp, ne_eq, not_true_eq_false, if_false, Option.some.injEq, Prod.mk.injEq] at h
              obtain ⟨rfl, rfl⟩ := h
              refine ⟨fun sz => ?_, fun e => absurd e hc0⟩
              have hg1 : (setHead c f need nx).get cur = some (.free s nx) := hg
              rw [sizeCount_set_same (v := .free s 0) hg1 rfl, setHead_sizeCount]
            · simp only [ne_eq, hp, not_false_eq_true, if_true] at h
              cases hgp : f.get prev with
              | none => simp [hgp] at h
              | some t =>
                cases t with
                | used t q => simp [hgp] at h
                | free psz pnx =>
                  simp only [hgp, Option.some.injEq, Prod.mk.injEq] at h
                  obtain ⟨rfl, rfl⟩ := h
                  refine ⟨fun sz => ?_, fun e => absurd e hc0⟩
                  by_cases hcp : cur = prev
                  · subst hcp
                    rw [hg] at hgp
                    simp only [Option.some.injEq, Slot.free.injEq] at hgp
                    obtain ⟨rfl, rfl⟩ := hgp
                    rw [sizeCount_set_same (w := .free s nx) (v := .free s 0) (get_set_self _ _ _) rfl,
                      sizeCount_set_same (v := .free s nx) hg rfl]
                  · have hg1 : (f.set prev (.free psz nx)).get cur = some (.free s nx) := by
                      rw [get_set_ne _ _ _ _ hcp]; exact hg
                    rw [sizeCount_set_same (v := .free s 0) hg1 rfl,
                      sizeCount_set_same (v := .free psz nx) hgp rfl]
          · simp only [hn, if_false] at h
            exact ih _ _ _ _ _ h

/-- census of one allocation, any class -/
theorem addPiece_count {c : FileCfg} {f f' : RecFile α} (hc : CfgOK c) (h : WF c f) {need off : Nat}
    (hn : LegalSz c need) {p : α} (hadd : addPiece c f need p = some (off, f')) :
    (sizeCount f' need = usedSizeCount f' need ∧ ∀ sz, sz ≠ need → sizeCount f' sz = sizeCount f sz) ∨
    (∀ sz, sizeCount f' sz = sizeCount f sz) := by
  cases hL : Gen.isLargePieceSize c.sizeAry need with
  | false => exact addPiece_small_count h hL hadd
  | true =>
    obtain ⟨off', sz', f'', a1, _, _, _, _, _, _, _, _, _, a11⟩ := addPiece_full hc h hn p
    rw [hadd] at a1
    simp only [Option.some.injEq, Prod.mk.injEq] at a1
    obtain ⟨rfl, rfl⟩ := a1
    unfold addPiece allocSlot popFree at hadd
    simp only [hL, if_true] at hadd
    cases hpop : popLarge c need (f.slots.length + 1) f 0 (headOf c f need) with
    | none => simp [hpop] at hadd
    | some r =>
      obtain ⟨o1, f1⟩ := r
      obtain ⟨hcnt, h0⟩ := popLarge_count _ _ _ _ _ _ hpop
      simp only [hpop] at hadd
      by_cases ho : o1 = 0
      · subst ho
        have := h0 rfl
        subst this
        simp only [ne_eq, not_true_eq_false, if_false, Option.some.injEq, Prod.mk.injEq] at hadd
        obtain ⟨rfl, rfl⟩ := hadd
        have hend : f1.get f1.end_ = none := h.tiled.aget_end
        have hs : ∀ l, IsChain f1 (f1.heads.getD (headIdx c need) 0) l →
            ∀ o ∈ l, ∀ sz nx, f1.get o = some (.free sz nx) → sz < need := by
          rcases a11 with ⟨_, _, hs⟩ | ⟨nx, e, _⟩
          · exact hs
          · rw [hend] at e; cases e
        have hfree : ∀ o nx, f1.get o ≠ some (.free need nx) := by
          intro o nx hg
          obtain ⟨l, hl, hm⟩ := h.onlist o need nx hg
          have := hs l ((freeChain_iff _ _ _ _).mp hl).1 o hm need nx hg
          omega
        left
        constructor
        · rw [sizeCount_set_none _ hend, usedSizeCount_set_none _ hend,
            sizeCount_eq_used h need hfree]
          simp [Slot.size, Slot.usedSz]
        · intro sz hsz
          rw [sizeCount_set_none _ hend]
          simp [Slot.size, Ne.symm hsz]
      · simp only [ne_eq, ho, not_false_eq_true, if_true] at hadd
        cases hg1 : f1.get o1 with
        | none => simp [hg1] at hadd
        | some s =>
          simp only [hg1, Option.some.injEq, Prod.mk.injEq] at hadd
          obtain ⟨rfl, rfl⟩ := hadd
          right
          intro sz
          rw [sizeCount_set_same (v := .used s.size p) hg1 rfl, hcnt]

theorem addPiece_bound {c : FileCfg} {f f' : RecFile α} (hc : CfgOK c) (h : WF c f) {need off : Nat}
    (hn : LegalSz c need) {p : α} (hadd : addPiece c f need p = some (off, f')) (sz : Nat) :
    sizeCount f' sz ≤ max (sizeCount f sz) (usedCount f') := by
  have hle := usedSizeCount_le_usedCount f' need
  rcases addPiece_count hc h hn hadd with ⟨e1, e2⟩ | e
  · by_cases hsz : sz = need
    · subst hsz; omega
    · rw [e2 sz hsz]; omega
  · rw [e sz]; omega

theorem rewrite_bound {c : FileCfg} {f f' : RecFile α} (hc : CfgOK c) (h : WF c f) {off sz0 : Nat} {p0 : α}
    (hu : f.used off = some (sz0, p0)) {need off' : Nat} (hn : LegalSz c need) {p : α}
    (hrw : rewrite c f off need p = some (off', f')) (sz : Nat) :
    sizeCount f' sz ≤ max (sizeCount f sz) (usedCount f') := by
  have hg := used_eq_some.mp hu
  unfold rewrite at hrw
  simp only [hg, Slot.size] at hrw
  by_cases hle : need ≤ sz0
  · simp only [hle, if_true, Option.some.injEq, Prod.mk.injEq] at hrw
    obtain ⟨_, rfl⟩ := hrw
    rw [sizeCount_set_same (v := .used sz0 p) hg rfl]
    omega
  · simp only [hle, if_false] at hrw
    obtain ⟨w1, _⟩ := pushFree_spec hc h hg
    have := addPiece_bound hc w1 hn hrw sz
    rw [sizeCount_pushFree hc h hg] at this
    exact this

theorem deletePiece_bound {c : FileCfg} {f f' : RecFile α} (hc : CfgOK c) (h : WF c f) {off sz0 : Nat} {p0 : α}
    (hu : f.used off = some (sz0, p0)) (hd : deletePiece c f off = some f') (sz : Nat) :
    sizeCount f' sz = sizeCount f sz := by
  have hg := used_eq_some.mp hu
  unfold deletePiece at hd
  simp only [hg, Slot.size, Option.some.injEq] at hd
  subst hd
  exact sizeCount_pushFree hc h hg sz

/-- allocator-level reachability with a ceiling `P` on the number of used slots after every
allocating operation: what a sequence of `addPiece` / `rewrite` / `deletePiece` calls (on used
records, with legal sizes) does to one record file -/
inductive AReach (c : FileCfg) (P : Nat) : RecFile α → RecFile α → Prop
  | refl (f : RecFile α) : AReach c P f f
  | add {f g h : RecFile α} {need off : Nat} {p : α} : AReach c P f g → LegalSz c need →
      addPiece c g need p = some (off, h) → usedCount h ≤ P → AReach c P f h
  | rew {f g h : RecFile α} {off off' need sz0 : Nat} {p0 p : α} : AReach c P f g → LegalSz c need →
      g.used off = some (sz0, p0) → rewrite c g off need p = some (off', h) → usedCount h ≤ P → AReach c P f h
  | del {f g h : RecFile α} {off sz0 : Nat} {p0 : α} : AReach c P f g →
      g.used off = some (sz0, p0) → deletePiece c g off = some h → AReach c P f h

theorem AReach.trans {c : FileCfg} {P : Nat} {f g h : RecFile α} (a : AReach c P f g) (b : AReach c P g h) :
    AReach c P f h := by
  induction b with
  | refl => exact a
  | add _ h1 h2 h3 ih => exact .add ih h1 h2 h3
  | rew _ h1 h2 h3 h4 ih => exact .rew ih h1 h2 h3 h4
  | del _ h1 h2 ih => exact .del ih h1 h2

theorem AReach.mono {c : FileCfg} {P Q : Nat} (hPQ : P ≤ Q) {f g : RecFile α} (a : AReach c P f g) :
    AReach c Q f g := by
  induction a with
  | refl => exact .refl _
  | add _ h1 h2 h3 ih => exact .add ih h1 h2 (Nat.le_trans h3 hPQ)
  | rew _ h1 h2 h3 h4 ih => exact .rew ih h1 h2 h3 (Nat.le_trans h4 hPQ)
  | del _ h1 h2 ih => exact .del ih h1 h2

theorem AReach.wf {c : FileCfg} {P : Nat} {f g : RecFile α} (hc : CfgOK c) (a : AReach c P f g) (h : WF c f) :
    WF c g := by
  induction a with
  | refl => exact h
  | @add _ _ _ _ p _ hn hadd _ ih =>
    obtain ⟨off, sz, f', a1, a2, _⟩ := addPiece_spec hc ih hn p
    rw [hadd] at a1
    simp only [Option.some.injEq, Prod.mk.injEq] at a1
    obtain ⟨_, rfl⟩ := a1
    exact a2
  | @rew _ _ _ _ _ _ _ p _ hn hu hrw _ ih =>
    obtain ⟨off, sz, f', a1, a2, _⟩ := rewrite_spec hc ih hu hn p
    rw [hrw] at a1
    simp only [Option.some.injEq, Prod.mk.injEq] at a1
    obtain ⟨_, rfl⟩ := a1
    exact a2
  | del _ hu hd ih =>
    obtain ⟨f', a1, a2, _⟩ := deletePiece_spec hc ih hu
    rw [hd] at a1
    simp only [Option.some.injEq] at a1
    subst a1
    exact a2

/-- the census bound: if never more than `P` slots are in use, no size ever has more than
`max (what it had) P` slots -/
theorem AReach.bound {c : FileCfg} {P : Nat} {f g : RecFile α} (hc : CfgOK c) (a : AReach c P f g) (h : WF c f)
    (sz : Nat) : sizeCount g sz ≤ max (sizeCount f sz) P := by
  induction a with
  | refl => omega
  | add a hn hadd hP ih =>
    have := addPiece_bound hc (a.wf hc h) hn hadd sz
    have := ih
    omega
  | rew a hn hu hrw hP ih =>
    have := rewrite_bound hc (a.wf hc h) hu hn hrw sz
    have := ih
    omega
  | del a hu hd ih =>
    rw [deletePiece_bound hc (a.wf hc h) hu hd sz]
    exact ih

theorem Tiled.end_eq {l : List (Nat × Slot α)} {a b : Nat} (h : Tiled l a b) :
    b = a + (l.map fun p => p.2.size).sum := by
  induction l generalizing a with
  | nil =>
    have : a = b := h
    simp [this]
  | cons p rest ih =>
    obtain ⟨o, s⟩ := p
    obtain ⟨_, _, h3⟩ := h
    have := ih h3
    simp only [List.map_cons, List.sum_cons]
    omega

/-- the sizes of a slot list, split into the slots of size `s0` and the others -/
theorem sum_sizes_split (s0 : Nat) (l : List (Nat × Slot α)) :
    (l.map fun p => p.2.size).sum =
      s0 * (l.filter fun p => decide (p.2.size = s0)).length +
        ((l.filter fun p => !decide (p.2.size = s0)).map fun p => p.2.size).sum := by
  induction l with
  | nil => simp
  | cons p rest ih =>
    by_cases hp : p.2.size = s0
    · simp only [List.map_cons, List.sum_cons, List.filter_cons, hp, decide_true, if_true,
        Bool.not_true, Bool.false_eq_true, if_false, List.length_cons, Nat.mul_succ]
      omega
    · simp only [List.map_cons, List.sum_cons, List.filter_cons, hp, decide_false,
        Bool.false_eq_true, if_false, Bool.not_false, if_true]
      omega

theorem sum_sizes_le (P : Nat) : ∀ (sizes : List Nat), sizes.Nodup → ∀ (l : List (Nat × Slot α)),
    (∀ p ∈ l, p.2.size ∈ sizes) →
    (∀ sz ∈ sizes, (l.filter fun p => decide (p.2.size = sz)).length ≤ P) →
    (l.map fun p => p.2.size).sum ≤ P * sizes.sum := by
  intro sizes
  induction sizes with
  | nil =>
    intro _ l hs _
    cases l with
    | nil => simp
    | cons p rest => exact absurd (hs p (by simp)) (by simp)
  | cons s0 rest ih =>
    intro hnd l hs hP
    have hnd' := List.nodup_cons.mp hnd
    have hsub : (l.filter fun p => !decide (p.2.size = s0)).Sublist l := List.filter_sublist
    have h1 := ih hnd'.2 (l.filter fun p => !decide (p.2.size = s0))
      (by
        intro p hp
        have hm := List.mem_filter.mp hp
        have hne : p.2.size ≠ s0 := by simpa using hm.2
        rcases List.mem_cons.mp (hs p hm.1) with e | e
        · exact absurd e hne
        · exact e)
      (by
        intro sz hsz
        exact Nat.le_trans (hsub.filter _).length_le (hP sz (List.mem_cons_of_mem _ hsz)))
    have h2 := hP s0 (by simp)
    have h3 := Nat.mul_le_mul_left s0 h2
    rw [sum_sizes_split s0 l, List.sum_cons, Nat.mul_add, Nat.mul_comm P s0]
    omega

/-- the length of a well-formed record file is its header plus the sizes of its slots -/
theorem WF.end_eq {c : FileCfg} {f : RecFile α} (h : WF c f) :
    f.end_ = c.headerSz + (f.slots.map fun p => p.2.size).sum :=
  h.tiled.end_eq

/-- hence: with at most `P` slots of each size, and all slot sizes among `sizes`, the file is
no longer than the header plus `P` times the sum of those sizes -/
theorem WF.end_le {c : FileCfg} {f : RecFile α} (h : WF c f) (sizes : List Nat) (hnd : sizes.Nodup)
    (hs : ∀ p ∈ f.slots, p.2.size ∈ sizes) (P : Nat) (hP : ∀ sz ∈ sizes, sizeCount f sz ≤ P) :
    f.end_ ≤ c.headerSz + P * sizes.sum := by
  have := sum_sizes_le P sizes hnd f.slots hs hP
  rw [WF.end_eq h]
  omega

end Abyss
