import Abyss.Ops
/-!
# The table file never gets shorter than at creation (frame facts for `reach_htxLen`)
-/
namespace Abyss
open Store

/-- the number of buckets is `n` and the table file is at least as long as a fresh one -/
def HLen (n : Nat) (s : Store) : Prop := s.n = n ∧ Gen.htxInitLen n ≤ s.htxEnd

theorem HLen.init (n : Nat) : HLen n (Store.init n) := ⟨rfl, Nat.le_refl _⟩

theorem HLen.writeHead {n : Nat} {s : Store} (h : HLen n s) (b off : Nat) : HLen n (s.writeHead b off) :=
  ⟨h.1, Nat.le_trans h.2 (Nat.le_max_left _ _)⟩

theorem HLen.setKf {n : Nat} {s : Store} (h : HLen n s) (kf' : RecFile KeyRec) :
    HLen n { s with kf := kf' } := h

theorem HLen.setVf {n : Nat} {s : Store} (h : HLen n s) (vf' : RecFile (List Nat)) :
    HLen n { s with vf := vf' } := h

theorem relink_hlen {n : Nat} (b : Nat) : ∀ (fuel : Nat) {s s' : Store} (old new : Nat), HLen n s →
    relink b fuel s old new = some s' → HLen n s' := by
  intro fuel
  induction fuel with
  | zero => intro s s' old new _ h; simp [relink] at h
  | succ fuel ih =>
    intro s s' old new hs h
    rw [relink] at h
    split at h
    · cases h
    · split at h
      · simp only [Option.some.injEq] at h
        subst h
        exact hs.writeHead b new
      · split at h
        · simp only at h
          split at h
          · cases h
          · next p' kf' hrw =>
            have hs1 : HLen n { s with kf := kf' } := hs.setKf kf'
            split at h
            · simp only [Option.some.injEq] at h
              subst h; exact hs1
            · exact ih _ _ hs1 h
        · cases h

theorem put_hlen {n : Nat} {kt : KeyType} {s s' : Store} (hs : HLen n s) {k v : List Nat}
    (h : s.put kt k v = some s') : HLen n s' := by
  unfold Store.put at h
  simp only at h
  split at h
  · cases h
  · split at h
    · next sz0 kr hg =>
      split at h
      · split at h
        · cases h
        · next voff' vf' hrwv =>
          have hs1 : HLen n { s with vf := vf' } := hs.setVf vf'
          split at h
          · simp only [Option.some.injEq] at h
            subst h; exact hs1
          · split at h
            · cases h
            · next koff' kf' hrwk =>
              have hs2 : HLen n { s with vf := vf', kf := kf' } := hs
              split at h
              · simp only [Option.some.injEq] at h
                subst h; exact hs2
              · exact relink_hlen _ _ _ _ hs2 h
      · cases h
    · cases h
  · split at h
    · cases h
    · next voff vf' haddv =>
      split at h
      · cases h
      · next koff kf' haddk =>
        simp only [Option.some.injEq] at h
        subst h
        have hs2 : HLen n { s with vf := vf', kf := kf' } := hs
        exact hs2.writeHead (bucketOf k s.n) koff

theorem del_hlen {n : Nat} {kt : KeyType} {s s' : Store} (hs : HLen n s) {k : List Nat}
    {r : Option (List Nat)} (h : s.del kt k = some (s', r)) : HLen n s' := by
  unfold Store.del at h
  simp only at h
  split at h
  · cases h
  · simp only [Option.some.injEq, Prod.mk.injEq] at h
    obtain ⟨rfl, _⟩ := h; exact hs
  · next off prev _ =>
    split at h
    · next sz0 kr hg =>
      split at h
      · next vsz0 value hgv =>
        split at h
        · cases h
        · next s1 hs1eq =>
          have hs1 : HLen n s1 := by
            split at hs1eq
            · simp only [Option.some.injEq] at hs1eq
              subst hs1eq; exact hs.writeHead _ _
            · split at hs1eq
              · next psz pr hgp =>
                split at hs1eq
                · cases hs1eq
                · next p' kf' hrw =>
                  have hs2 : HLen n { s with kf := kf' } := hs.setKf kf'
                  split at hs1eq
                  · simp only [Option.some.injEq] at hs1eq
                    subst hs1eq; exact hs2
                  · exact relink_hlen _ _ _ _ hs2 hs1eq
              · cases hs1eq
          split at h
          · cases h
          · split at h
            · cases h
            · simp only [Option.some.injEq, Prod.mk.injEq] at h
              obtain ⟨rfl, _⟩ := h
              exact hs1
      · cases h
    · cases h

theorem step_hlen {n : Nat} {kt : KeyType} {s s' : Store} (hs : HLen n s) (op : Op) {o : Out}
    (h : s.step kt op = some (s', o)) : HLen n s' := by
  cases op with
  | put k v =>
    simp only [Store.step, Option.map_eq_some_iff, Prod.mk.injEq] at h
    obtain ⟨t, ht, rfl, _⟩ := h
    exact put_hlen hs ht
  | del k =>
    simp only [Store.step, Option.map_eq_some_iff, Prod.mk.injEq] at h
    obtain ⟨⟨t, r⟩, ht, rfl, _⟩ := h
    exact del_hlen hs ht
  | get k =>
    simp only [Store.step, Option.map_eq_some_iff, Prod.mk.injEq] at h
    obtain ⟨_, _, rfl, _⟩ := h
    exact hs
  | includes k =>
    simp only [Store.step, Option.map_eq_some_iff, Prod.mk.injEq] at h
    obtain ⟨_, _, rfl, _⟩ := h
    exact hs
  | len =>
    simp only [Store.step, Option.some.injEq, Prod.mk.injEq] at h
    obtain ⟨rfl, _⟩ := h
    exact hs
  | isEmpty =>
    simp only [Store.step, Option.some.injEq, Prod.mk.injEq] at h
    obtain ⟨rfl, _⟩ := h
    exact hs

theorem run_hlen {n : Nat} {kt : KeyType} (ops : List Op) : ∀ {s s' : Store} {outs : List Out}, HLen n s →
    s.run kt ops = some (s', outs) → HLen n s' := by
  induction ops with
  | nil =>
    intro s s' outs hs h
    simp only [Store.run, Option.some.injEq, Prod.mk.injEq] at h
    obtain ⟨rfl, _⟩ := h
    exact hs
  | cons op ops ih =>
    intro s s' outs hs h
    rw [Store.run] at h
    split at h
    · cases h
    · next s1 o hstep =>
      have hs1 := step_hlen hs op hstep
      split at h
      · cases h
      · next s2 os hrun =>
        simp only [Option.some.injEq, Prod.mk.injEq] at h
        obtain ⟨rfl, _⟩ := h
        exact ih hs1 hrun

end Abyss
