import Abyss.Inv
/-!
# Facts about the generated size / free-list-head tables (`CfgOK`), proved for `keyCfg`, `valCfg`
-/
namespace Abyss

/-- facts about the (generated) size table and free-list-head table of a record file that the
allocator proofs need; proved for `keyCfg` and `valCfg` by evaluation. -/
structure CfgOK (c : FileCfg) : Prop where
  hdr_pos : 0 < c.headerSz
  idx_lt : ∀ sz, RecFile.headIdx c sz < 16
  legal_pos : ∀ sz, LegalSz c sz → 0 < sz
  /-- a small class list holds exactly one size -/
  small_exact : ∀ sz sz', LegalSz c sz → LegalSz c sz' →
    Gen.isLargePieceSize c.sizeAry sz = false → RecFile.headIdx c sz' = RecFile.headIdx c sz → sz' = sz
  /-- all large sizes share one list, and only they -/
  large_idx : ∀ sz sz', LegalSz c sz → LegalSz c sz' → Gen.isLargePieceSize c.sizeAry sz = true →
    (RecFile.headIdx c sz' = RecFile.headIdx c sz ↔ Gen.isLargePieceSize c.sizeAry sz' = true)
  roundup_legal : ∀ x, 1 ≤ x → LegalSz c (Gen.roundup c.sizeAry x)
  roundup_ge : ∀ x, 1 ≤ x → x ≤ Gen.roundup c.sizeAry x

namespace AllocCfg

/-- the common size table of both record files -/
def tbl : List Nat := [16, 24, 32, 48, 64, 80, 96, 112, 128, 256, 384, 512, 640, 768, 896, 1024]

/-- closed form of `headIdx` -/
def idxCF (sz : Nat) : Nat := if sz ∈ tbl then tbl.idxOf sz else 15

set_option linter.unusedSimpArgs false in
theorem headIdx_key (sz : Nat) : RecFile.headIdx keyCfg sz = idxCF sz := by
  by_cases h : sz ∈ tbl
  · simp only [tbl, List.mem_cons, List.not_mem_nil, or_false] at h
    rcases h with rfl | rfl | rfl | rfl | rfl | rfl | rfl | rfl | rfl | rfl | rfl | rfl | rfl | rfl | rfl | rfl <;> rfl
  · rw [idxCF, if_neg h]
    simp only [tbl, List.mem_cons, List.not_mem_nil, or_false, not_or] at h
    obtain ⟨h1, h2, h3, h4, h5, h6, h7, h8, h9, h10, h11, h12, h13, h14, h15, h16⟩ := h
    unfold RecFile.headIdx Gen.freePieceListOffsetOfHeader
    have e : ∀ a, (a = sz) = (sz = a) := fun a => propext eq_comm
    simp [keyCfg, Gen.keySizeAry, Gen.keyFreeOffsets, Gen.keyFreeOffset1st, List.range', List.find?_cons, e, *]

set_option linter.unusedSimpArgs false in
theorem headIdx_val (sz : Nat) : RecFile.headIdx valCfg sz = idxCF sz := by
  by_cases h : sz ∈ tbl
  · simp only [tbl, List.mem_cons, List.not_mem_nil, or_false] at h
    rcases h with rfl | rfl | rfl | rfl | rfl | rfl | rfl | rfl | rfl | rfl | rfl | rfl | rfl | rfl | rfl | rfl <;> rfl
  · rw [idxCF, if_neg h]
    simp only [tbl, List.mem_cons, List.not_mem_nil, or_false, not_or] at h
    obtain ⟨h1, h2, h3, h4, h5, h6, h7, h8, h9, h10, h11, h12, h13, h14, h15, h16⟩ := h
    unfold RecFile.headIdx Gen.freePieceListOffsetOfHeader
    have e : ∀ a, (a = sz) = (sz = a) := fun a => propext eq_comm
    simp [valCfg, Gen.valSizeAry, Gen.valFreeOffsets, Gen.valFreeOffset1st, List.range', List.find?_cons, e, *]

theorem tbl_pos (sz : Nat) (h : sz ∈ tbl) : 0 < sz ∧ sz ≤ 1024 := by
  simp only [tbl, List.mem_cons, List.not_mem_nil, or_false] at h
  omega

theorem idxCF_small (sz : Nat) (h : sz ∈ tbl) (h' : sz < 1024) : idxCF sz < 15 ∧ tbl.getD (idxCF sz) 0 = sz := by
  simp only [tbl, List.mem_cons, List.not_mem_nil, or_false] at h
  rcases h with rfl | rfl | rfl | rfl | rfl | rfl | rfl | rfl | rfl | rfl | rfl | rfl | rfl | rfl | rfl | rfl
  all_goals first | omega | decide

theorem idxCF_large (sz : Nat) (h : 1024 ≤ sz) : idxCF sz = 15 := by
  by_cases hm : sz ∈ tbl
  · have := (tbl_pos sz hm).2
    have : sz = 1024 := by omega
    subst this; rfl
  · rw [idxCF, if_neg hm]

theorem idxCF_lt (sz : Nat) : idxCF sz < 16 := by
  by_cases hm : sz ∈ tbl
  · by_cases hs : sz < 1024
    · have := (idxCF_small sz hm hs).1; omega
    · rw [idxCF_large sz (by omega)]; omega
  · rw [idxCF, if_neg hm]; omega

theorem isLarge_tbl (sz : Nat) : Gen.isLargePieceSize tbl sz = decide (1024 ≤ sz) := by
  simp [Gen.isLargePieceSize, tbl]

theorem cfgOK_of (c : FileCfg) (h1 : c.sizeAry = tbl) (h2 : ∀ sz, RecFile.headIdx c sz = idxCF sz)
    (h3 : 0 < c.headerSz) : CfgOK c where
  hdr_pos := h3
  idx_lt sz := by rw [h2]; exact idxCF_lt sz
  legal_pos sz h := by
    rcases h with h | h
    · rw [h1] at h; exact (tbl_pos sz h).1
    · omega
  small_exact sz sz' hl hl' hs he := by
    rw [h1, isLarge_tbl] at hs
    simp only [decide_eq_false_iff_not, Nat.not_le] at hs
    rw [h2, h2] at he
    have hm : sz ∈ tbl := by
      rcases hl with h | h
      · rw [h1] at h; exact h
      · omega
    obtain ⟨a1, a2⟩ := idxCF_small sz hm hs
    by_cases hb : sz' < 1024
    · have hm' : sz' ∈ tbl := by
        rcases hl' with h | h
        · rw [h1] at h; exact h
        · omega
      obtain ⟨b1, b2⟩ := idxCF_small sz' hm' hb
      rw [← a2, ← b2, he]
    · have := idxCF_large sz' (by omega)
      omega
  large_idx sz sz' hl hl' hs := by
    rw [h1, isLarge_tbl] at hs ⊢
    simp only [decide_eq_true_eq] at hs ⊢
    rw [h2, h2, idxCF_large sz hs]
    constructor
    · intro he
      by_cases hb : sz' < 1024
      · have hm' : sz' ∈ tbl := by
          rcases hl' with h | h
          · rw [h1] at h; exact h
          · omega
        have := (idxCF_small sz' hm' hb).1
        omega
      · omega
    · exact idxCF_large sz'
  roundup_legal x hx := by
    rw [h1]
    unfold Gen.roundup
    simp only
    split
    · rename_i n hn
      left
      rw [h1]
      have := List.mem_of_find?_eq_some hn
      exact List.mem_of_mem_take this
    · rename_i hn
      right
      rw [List.find?_eq_none] at hn
      have := hn 896 (by decide)
      simp only [decide_eq_true_eq, Nat.not_le] at this
      omega
  roundup_ge x hx := by
    rw [h1]
    unfold Gen.roundup
    simp only
    split
    · rename_i n hn
      have := List.find?_some hn
      simpa using this
    · omega

end AllocCfg

theorem keyCfg_ok : CfgOK keyCfg := AllocCfg.cfgOK_of keyCfg rfl AllocCfg.headIdx_key (by decide)
theorem valCfg_ok : CfgOK valCfg := AllocCfg.cfgOK_of valCfg rfl AllocCfg.headIdx_val (by decide)

end Abyss
