import Abyss.Renderable
import Abyss.Lemmas.AllocL
import Abyss.Lemmas.ParseRecBytes
/-!
# Helper lemmas for `byteOK_key` / `byteOK_val` (the `ByteOK` fields for the real record files)
-/
namespace Abyss
namespace ByteOKAux
open RecFile AllocCfg

set_option linter.unusedSimpArgs false in
/-- where the generated code looks for the head of a size's list, key file (all sizes) -/
theorem headOff_key (sz : Nat) :
    Gen.freePieceListOffsetOfHeader keyCfg.freeOffsets keyCfg.sizeAry sz = keyCfg.first + 8 * headIdx keyCfg sz := by
  by_cases h : sz ∈ tbl
  · simp only [tbl, List.mem_cons, List.not_mem_nil, or_false] at h
    rcases h with rfl | rfl | rfl | rfl | rfl | rfl | rfl | rfl | rfl | rfl | rfl | rfl | rfl | rfl | rfl | rfl <;> rfl
  · rw [headIdx_key, idxCF, if_neg h]
    simp only [tbl, List.mem_cons, List.not_mem_nil, or_false, not_or] at h
    obtain ⟨h1, h2, h3, h4, h5, h6, h7, h8, h9, h10, h11, h12, h13, h14, h15, h16⟩ := h
    unfold Gen.freePieceListOffsetOfHeader
    have e : ∀ a, (a = sz) = (sz = a) := fun a => propext eq_comm
    simp [keyCfg, Gen.keySizeAry, Gen.keyFreeOffsets, Gen.keyFreeOffset1st, List.range', List.find?_cons, e, *]

set_option linter.unusedSimpArgs false in
theorem headOff_val (sz : Nat) :
    Gen.freePieceListOffsetOfHeader valCfg.freeOffsets valCfg.sizeAry sz = valCfg.first + 8 * headIdx valCfg sz := by
  by_cases h : sz ∈ tbl
  · simp only [tbl, List.mem_cons, List.not_mem_nil, or_false] at h
    rcases h with rfl | rfl | rfl | rfl | rfl | rfl | rfl | rfl | rfl | rfl | rfl | rfl | rfl | rfl | rfl | rfl <;> rfl
  · rw [headIdx_val, idxCF, if_neg h]
    simp only [tbl, List.mem_cons, List.not_mem_nil, or_false, not_or] at h
    obtain ⟨h1, h2, h3, h4, h5, h6, h7, h8, h9, h10, h11, h12, h13, h14, h15, h16⟩ := h
    unfold Gen.freePieceListOffsetOfHeader
    have e : ∀ a, (a = sz) = (sz = a) := fun a => propext eq_comm
    simp [valCfg, Gen.valSizeAry, Gen.valFreeOffsets, Gen.valFreeOffset1st, List.range', List.find?_cons, e, *]

/-- legal sizes are multiples of 8 and at least 16 (common size table) -/
theorem legal8_of (c : FileCfg) (h1 : c.sizeAry = tbl) (sz : Nat) (h : LegalSz c sz) : 8 ∣ sz ∧ 16 ≤ sz := by
  rcases h with h | ⟨h, hd⟩
  · rw [h1] at h
    simp only [tbl, List.mem_cons, List.not_mem_nil, or_false] at h
    rcases h with rfl | rfl | rfl | rfl | rfl | rfl | rfl | rfl | rfl | rfl | rfl | rfl | rfl | rfl | rfl | rfl <;> decide
  · exact ⟨Nat.dvd_trans (by decide) hd, by omega⟩

theorem slotLen_key (p : Slot KeyRec) (h : slotOKKey p) : (renderKeySlot p).length = p.size := by
  cases p with
  | used sz r => exact padTo_length _ _ h.2.2.2.2.2.2
  | free sz nx => exact padTo_length _ _ h.2.2

theorem slotLen_val (p : Slot (List Nat)) (h : slotOKVal p) : (renderValSlot p).length = p.size := by
  cases p with
  | used sz r => exact padTo_length _ _ h.2.2
  | free sz nx => exact padTo_length _ _ h.2.2

theorem get_mem {α : Type} (f : RecFile α) (o : Nat) (s : Slot α) (h : f.get o = some s) : (o, s) ∈ f.slots := by
  unfold RecFile.get at h
  generalize f.slots = l at h
  induction l with
  | nil => simp [aget] at h
  | cons p t ih =>
    obtain ⟨k, v⟩ := p
    unfold aget at h
    by_cases hk : k = o
    · simp [hk] at h; subst hk h; simp
    · simp [hk] at h; exact List.mem_cons_of_mem _ (ih h)

theorem freeLt_key (f : RecFile KeyRec) (hs : ∀ p ∈ f.slots, slotOKKey p.2) (o sz nx : Nat)
    (h : f.get o = some (.free sz nx)) : nx < 2^64 :=
  (hs _ (get_mem f o _ h)).2.1

theorem freeLt_val (f : RecFile (List Nat)) (hs : ∀ p ∈ f.slots, slotOKVal p.2) (o sz nx : Nat)
    (h : f.get o = some (.free sz nx)) : nx < 2^64 :=
  (hs _ (get_mem f o _ h)).2.1

theorem sigFit_key (sig2 : List Nat) (h : sig2.length = 8) : (keyCfg.sig1 ++ sig2).length ≤ keyCfg.first := by
  simp [keyCfg, Gen.keySig1, Gen.keyFreeOffset1st, h]

theorem sigFit_val (sig2 : List Nat) (h : sig2.length = 8) : (valCfg.sig1 ++ sig2).length ≤ valCfg.first := by
  simp [valCfg, Gen.valSig1, Gen.valFreeOffset1st, h]

theorem headsFit_key : keyCfg.first + 128 ≤ keyCfg.headerSz := by decide
theorem headsFit_val : valCfg.first + 128 ≤ valCfg.headerSz := by decide

end ByteOKAux
end Abyss
