import Abyss.Lemmas.EngineScan
import Abyss.Lemmas.EngineRead
import Abyss.Lemmas.IterL
import Abyss.Lemmas.EngineIterAux1
/-!
# The iterator state machine generated from `DbXxxIterMut` refines the model's iterator (C04)
-/
namespace Abyss
open Store FileM

/-- the generated state tuple `(remaining_item_count, buckets_size, buckets_idx, key_offset)` of a model state -/
def IterState.tup (it : IterState) : Nat × Nat × Nat × Nat := (it.remaining, it.bucketsSize, it.bucketsIdx, it.keyOff)

/-- the bucket-count field (offset 16) of the header -/
theorem htxReadHashBucketsSize_spec (sig : List Nat) (n count : Nat) (h : Nat → Nat) (m : Nat) (f : Nat → Bool)
    (hsig : sig.length = 8) (pos : Nat) (hn : n < 2^64) :
    Gen.htxReadHashBucketsSize ⟨htxImg sig n count h m f, pos⟩ =
      some (n, ⟨htxImg sig n count h m f, 24⟩) := by
  have hlen := htxImg_length sig n count h m f hsig
  unfold Gen.htxReadHashBucketsSize
  have h16 : Gen.htxHtSizeOffset = 16 := rfl
  rw [h16, bind_some (seekFromStart_spec _ _ pos (by omega))]
  have hs1 : Gen.htxSig1.length = 8 := rfl
  have hl : (Gen.htxSig1 ++ sig).length = 16 := by rw [List.length_append, hs1, hsig]
  have hd : (htxImg sig n count h m f).drop 16 =
      le64 n ++ (le64 count ++ (zeros 96 ++ htxTbl n h ++ htxBm m f)) := by
    have e : htxImg sig n count h m f =
        (Gen.htxSig1 ++ sig) ++ le64 n ++ (le64 count ++ (zeros 96 ++ htxTbl n h ++ htxBm m f)) := by
      unfold htxImg; simp only [List.append_assoc]
    rw [e, ← hl]; exact drop_app_mid _ _ _
  exact readU64Le_spec hd hn

/-- the bucket count, read from the hash-table file -/
theorem htxSize_img {kt : KeyType} {s : Store} {d : DbSt} (g : Store.Regular kt s) (hd : d.IsImage kt s) :
    ∃ pos', DbM.liftHtx Gen.htxReadHashBucketsSizeH d = some (s.n, { d with htx := ⟨d.htx.bytes, pos'⟩ }) := by
  have R := g.renderable
  have hn : s.n < 2^64 := Nat.lt_trans g.n_lt (by decide)
  have hr := htxReadHashBucketsSize_spec kt.sig s.n s.count s.headOf (s.htxEnd - (Gen.htxHeaderSz + s.n * 8))
    s.bitOf R.sig_len d.htx.pos hn
  have himg0 : (render kt s).htx =
      htxImg kt.sig s.n s.count s.headOf (s.htxEnd - (Gen.htxHeaderSz + s.n * 8)) s.bitOf :=
    renderHtx_eq _ _ R.sig_len
  rw [← himg0, ← hd.htx_eq] at hr
  have hb : d.htx.bytes = (render kt s).htx := hd.1
  rw [← hb] at hr
  exact ⟨24, DbM.liftHtx_some hr⟩

theorem iterNew_bytes {kt : KeyType} {s : Store} (g : Store.Regular kt s) {d : DbSt} (hd : d.IsImage kt s) :
    ∃ d', d'.IsImage kt s ∧ Gen.iterNew d = some (s.iterNew.tup, d') := by
  obtain ⟨p1, h1⟩ := htxSize_img g hd
  obtain ⟨p2, h2⟩ := htxCount_img g (hd.htxPos p1)
  refine ⟨_, (hd.htxPos p1).htxPos p2, ?_⟩
  unfold Gen.iterNew
  rw [DbM.bind_assoc_apply, DbM.bind_some h1, DbM.bind_assoc_apply, DbM.bind_some h2]
  rfl

/-- one `next_piece_offset()`: same yielded offset, same new state, bytes untouched — for every
state the model's iterator can be in while it runs over `s` (bucket size `s.n`, the current key
offset 0 or a used key record) -/
theorem iterNextOffset_bytes {kt : KeyType} {s : Store} (g : Store.Regular kt s)
    (hlen : Gen.htxInitLen s.n ≤ s.htxEnd) (it : IterState) (hn : it.bucketsSize = s.n)
    {it' : IterState} {r : Option Nat} (hm : s.iterNextOffset it = some (it', r))
    {d : DbSt} (hd : d.IsImage kt s) :
    ∃ d', d'.IsImage kt s ∧ Gen.iterNextPieceOffset it.tup d = some ((r, it'.tup), d') := by
  show ∃ d', _ ∧ Gen.iterNextPieceOffset (it.remaining, it.bucketsSize, it.bucketsIdx, it.keyOff) d = _
  rw [iterNextPieceOffset_eq]
  by_cases hk : it.keyOff = 0
  · rw [iterNextOffset_zero s it hk] at hm
    have hb : ¬ (!(it.keyOff == 0)) = true := by simp [hk]
    rw [if_neg hb, DbM.pure_bind_apply, hk]
    exact iterFinish_img g hlen it hn 0 hm hd
  · have hb : (!(it.keyOff == 0)) = true := by simp [hk]
    cases hg : s.kf.get it.keyOff with
    | none => unfold iterNextOffset at hm; rw [if_pos hk, hg] at hm; exact nomatch hm
    | some sl =>
      cases sl with
      | free sz nx => unfold iterNextOffset at hm; rw [if_pos hk, hg] at hm; exact nomatch hm
      | used sz rec =>
        rw [iterNextOffset_used s it sz rec hk hg] at hm
        obtain ⟨p, h1⟩ := (keyRead_img g hd hg).2.2.2.2.1
        rw [if_pos hb, DbM.bind_some h1]
        exact iterFinish_img g hlen it hn rec.next hm (hd.keyPos p)

theorem iterNext_eq (rem bs idx ko : Nat) :
    Gen.iterNext (rem, bs, idx, ko) =
      Gen.iterNextPieceOffset (rem, bs, idx, ko) >>= fun p =>
        match p.1 with
        | some off => do
          let key ← Gen.loadKeyData off
          let v ← Gen.loadValue off
          pure (some (key, v), p.2)
        | none => pure (none, p.2) := rfl

/-- one `Iterator::next()` -/
theorem iterNext_bytes {kt : KeyType} {s : Store} (g : Store.Regular kt s)
    (hlen : Gen.htxInitLen s.n ≤ s.htxEnd) (it : IterState) (hn : it.bucketsSize = s.n)
    {it' : IterState} {r : Option (List Nat × List Nat)} (hm : s.iterNext it = some (it', r))
    {d : DbSt} (hd : d.IsImage kt s) :
    ∃ d', d'.IsImage kt s ∧ Gen.iterNext it.tup d = some ((r, it'.tup), d') := by
  show ∃ d', _ ∧ Gen.iterNext (it.remaining, it.bucketsSize, it.bucketsIdx, it.keyOff) d = _
  rw [iterNext_eq]
  unfold Store.iterNext at hm
  cases hno : s.iterNextOffset it with
  | none => rw [hno] at hm; exact nomatch hm
  | some q =>
    obtain ⟨it1, ro⟩ := q
    rw [hno] at hm
    obtain ⟨d1, hd1, hgen⟩ := iterNextOffset_bytes g hlen it hn hno hd
    have hgen' : Gen.iterNextPieceOffset (it.remaining, it.bucketsSize, it.bucketsIdx, it.keyOff) d =
      some ((ro, it1.tup), d1) := hgen
    rw [DbM.bind_some hgen']
    cases ro with
    | none =>
      cases hm
      exact ⟨d1, hd1, rfl⟩
    | some off =>
      dsimp only at hm ⊢
      cases hg : s.kf.get off with
      | none => rw [hg] at hm; exact nomatch hm
      | some sl =>
        cases sl with
        | free sz nx => rw [hg] at hm; exact nomatch hm
        | used sz rec =>
          rw [hg] at hm
          dsimp only at hm
          cases hv : s.loadValue off with
          | none => rw [hv] at hm; exact nomatch hm
          | some v =>
            rw [hv] at hm
            cases hm
            have hgv : ∃ vs, s.vf.get rec.valOff = some (.used vs v) := by
              unfold Store.loadValue at hv
              rw [hg] at hv
              dsimp only at hv
              cases hvf : s.vf.get rec.valOff with
              | none => rw [hvf] at hv; exact nomatch hv
              | some vsl =>
                cases vsl with
                | free a b => rw [hvf] at hv; exact nomatch hv
                | used vs v' =>
                  rw [hvf] at hv
                  cases hv
                  exact ⟨vs, rfl⟩
            obtain ⟨vs, hgv⟩ := hgv
            obtain ⟨p1, h1⟩ := (keyRead_img g hd1 hg).2.1
            obtain ⟨p2, p3, h2⟩ := loadValue_img g (hd1.keyPos p1) hg hgv
            refine ⟨_, ((hd1.keyPos p1).keyPos p2).valPos p3, ?_⟩
            have h1' : Gen.loadKeyData off d1 = some (rec.key, { d1 with key := ⟨d1.key.bytes, p1⟩ }) := h1
            rw [DbM.bind_some h1', DbM.bind_some h2]
            rfl

end Abyss
