import Abyss.Lemmas.PieceBytesKeyAux1
/-!
# Piece-level I/O, part 2: `ByteOK` / `Lay` of a changed record file, writes of a whole slot on the image

Generic over the configuration and the slot renderer.

* `lay_of`, `byteOK_of`: `Lay` / `ByteOK` of a file follow from the static part of `ByteOK` of another
  file, the shape (`Tiled`, legal sizes / `WF`), the 4 GiB bound and the rendered length of the used slots;
* `byteOK_pushFree`: `ByteOK` is kept by `pushFree` of a used slot;
* `wr_slot_img`, `wr_end_img`: overwriting a slot with a rendered slot of the same size / appending a
  rendered slot at the end of the image is `set` on the record file.
-/
namespace Abyss
open Vu64 FileM RecFile

namespace PBK
variable {α : Type}

theorem mem_heads_getD {l : List Nat} {x : Nat} (hx : x ∈ l) : ∃ i, i < l.length ∧ l.getD i 0 = x := by
  obtain ⟨i, hi, e⟩ := List.mem_iff_getElem.mp hx
  exact ⟨i, hi, by rw [getD_of_lt l i hi]; exact e⟩

/-- a free-list head is 0 or the offset of a slot -/
theorem head_le_end {c : FileCfg} {f : RecFile α} (h : WF c f) : ∀ x ∈ f.heads, x ≤ f.end_ := by
  intro x hx
  obtain ⟨i, hi, e⟩ := mem_heads_getD hx
  rw [h.heads_len] at hi
  obtain ⟨l, hl, _, _⟩ := h.lists i hi
  unfold freeList at hl
  rw [e] at hl
  obtain ⟨hc, _⟩ := (freeChain_iff _ _ _ _).mp hl
  cases l with
  | nil => have : x = 0 := hc; omega
  | cons o l =>
    obtain ⟨_, _, sz, nx, hg, _⟩ := hc
    have := h.tiled.bounds hg
    omega

theorem chain_next_free {f : RecFile α} {hd : Nat} {l : List Nat} (a : IsChain f hd l) {o sz nx : Nat}
    (ho : o ∈ l) (hg : f.get o = some (.free sz nx)) :
    nx = 0 ∨ ∃ sz' nx', f.get nx = some (.free sz' nx') := by
  induction l generalizing hd with
  | nil => cases ho
  | cons o' l ih =>
    obtain ⟨h0, rfl, sz1, nx1, hg1, hc⟩ := a
    rcases List.mem_cons.mp ho with e | ho'
    · subst e
      rw [hg1] at hg
      simp only [Option.some.injEq, Slot.free.injEq] at hg
      obtain ⟨_, rfl⟩ := hg
      cases l with
      | nil => left; exact hc
      | cons o2 l2 =>
        obtain ⟨_, _, sz2, nx2, hg2, _⟩ := hc
        exact Or.inr ⟨sz2, nx2, hg2⟩
    · exact ih hc ho'

/-- the link of a free slot is 0 or the offset of a slot -/
theorem free_next_le_end {c : FileCfg} {f : RecFile α} (h : WF c f) {o sz nx : Nat}
    (hg : f.get o = some (.free sz nx)) : nx ≤ f.end_ := by
  obtain ⟨l, hl, ho⟩ := h.onlist o sz nx hg
  obtain ⟨hc, _⟩ := (freeChain_iff _ _ _ _).mp hl
  rcases chain_next_free hc ho hg with e | ⟨sz', nx', hg'⟩
  · omega
  · have := h.tiled.bounds hg'
    omega

section
variable {c : FileCfg} {sig2 : List Nat} {rs : Slot α → List Nat}

/-- `Lay` of a file from the static part of `ByteOK` of another one -/
theorem lay_of {f0 f1 : RecFile α} (h0 : ByteOK c sig2 rs f0)
    (ht : Tiled f1.slots c.headerSz f1.end_) (hl : f1.heads.length = 16)
    (hs : ∀ o s, f1.get o = some s → LegalSz c s.size) (he : f1.end_ < 2^32)
    (hu : ∀ o sz p, f1.get o = some (.used sz p) → (rs (.used sz p)).length = sz) :
    Lay c sig2 rs f1 where
  sig_fit := h0.sig_fit
  heads_fit := h0.heads_fit
  heads_len := hl
  tiled := ht
  slot_len := by
    rintro ⟨o, s⟩ hp
    have hg : f1.get o = some s := ht.aget_of_mem hp
    cases s with
    | used sz p => exact hu o sz p hg
    | free sz nx =>
      have hb := ht.bounds hg
      have hsz : (Slot.free sz nx : Slot α).size = sz := rfl
      rw [hsz] at hb
      obtain ⟨_, h16⟩ := h0.legal8 sz (hs o _ hg)
      exact free_render_length h0.free_form sz nx h16 (by omega)

/-- `ByteOK` of a well-formed file from the static part of `ByteOK` of another one -/
theorem byteOK_of {f0 f1 : RecFile α} (h0 : ByteOK c sig2 rs f0) (w : WF c f1) (he : f1.end_ < 2^32)
    (hu : ∀ o sz p, f1.get o = some (.used sz p) → (rs (.used sz p)).length = sz) :
    ByteOK c sig2 rs f1 where
  cfg := h0.cfg
  wf := w
  sig_fit := h0.sig_fit
  heads_fit := h0.heads_fit
  head_off := h0.head_off
  heads_lt := by
    intro x hx
    have := head_le_end w x hx
    omega
  end_lt := he
  legal8 := h0.legal8
  slot_len := (lay_of h0 w.tiled w.heads_len w.sizes he hu).slot_len
  free_form := h0.free_form
  free_lt := by
    intro o sz nx hg
    have := free_next_le_end w hg
    omega

theorem used_len {f : RecFile α} (h : ByteOK c sig2 rs f) {o sz : Nat} {p : α}
    (hg : f.get o = some (.used sz p)) : (rs (.used sz p)).length = sz :=
  h.slot_len (o, .used sz p) (aget_mem _ _ _ hg)

/-- `ByteOK` is kept by `pushFree` of a used slot -/
theorem byteOK_pushFree {f : RecFile α} (h : ByteOK c sig2 rs f) {off sz : Nat} {p : α}
    (hg : f.get off = some (.used sz p)) : ByteOK c sig2 rs (pushFree c f off sz) := by
  obtain ⟨w1, ⟨nx1, g1⟩, g2, _, _, g5⟩ := pushFree_spec h.cfg h.wf hg
  refine byteOK_of h w1 (by rw [g5]; exact h.end_lt) ?_
  intro o s q hq
  by_cases ho : o = off
  · subst ho; rw [g1] at hq; cases hq
  · rw [g2 o ho] at hq
    exact used_len h hq

/-! ## whole-slot writes on the image -/

/-- overwrite the slot at `o` with a rendered slot of the same length -/
theorem wr_slot_img {f : RecFile α} (lay : Lay c sig2 rs f) {o : Nat} {s : Slot α} (hg : f.get o = some s)
    (s' : Slot α) (hs : (rs s').length = s.size) :
    wr (rs s') ⟨recImage c sig2 rs f, o⟩ = ⟨recImage c sig2 rs (f.set o s'), o + s.size⟩ := by
  obtain ⟨P, Q, hP, e1, e2⟩ := image_slot lay hg
  have hl := slot_render_length lay hg
  rw [wr_app' (rs s') P (rs s) Q _ o e1 hP.symm (by rw [hl, hs]), e2, hs]

/-- the image after `set` at an offset that holds no slot: the rendered slot is appended -/
theorem image_set_none {f : RecFile α} {o : Nat} (hn : f.get o = none) (s' : Slot α) :
    recImage c sig2 rs (f.set o s') = recImage c sig2 rs f ++ rs s' := by
  have hh : renderRecHeader c sig2 (f.set o s') = renderRecHeader c sig2 f := rfl
  unfold recImage
  rw [hh]
  show _ ++ ((upsert f.slots o s').map fun p => rs p.2).flatten = _
  rw [upsert_of_none s' hn]
  simp only [List.map_append, List.map_cons, List.map_nil, List.flatten_append, List.flatten_cons,
    List.flatten_nil, List.append_nil, List.append_assoc]

/-- append a rendered slot at the end of the image -/
theorem wr_end_img {f : RecFile α} (lay : Lay c sig2 rs f) (s' : Slot α) :
    wr (rs s') ⟨recImage c sig2 rs f, f.end_⟩ =
      ⟨recImage c sig2 rs (f.set f.end_ s'), f.end_ + (rs s').length⟩ := by
  rw [wr_end' _ _ _ (image_length lay).symm, image_set_none lay.tiled.aget_end]

end
end PBK
end Abyss
