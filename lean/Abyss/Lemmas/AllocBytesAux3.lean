import Abyss.Lemmas.AllocBytesAux2
import Abyss.Lemmas.AllocL
import Abyss.Lemmas.ParseRecGen
/-!
# Byte-level allocator, part 3: where the heads and the slots sit in the image

`recImage` is the image of a record file for an arbitrary slot renderer (`renderRecFile` of
`AllocBytes.lean` is the same term).  `Lay` is the part of `ByteOK` that the layout needs; it is
kept by `set` of a slot of the same size and by `setHead`, so it is available in the middle of an
allocator operation, where the file is not `WF`.

* `image_slot`: a slot's bytes sit at its offset, and `set` replaces exactly them;
* `image_head`: head `i` sits at `c.first + 8 * i`, and `lset` replaces exactly these 8 bytes.
-/
namespace Abyss
open Vu64 FileM RecFile
variable {α : Type}

def recImage (c : FileCfg) (sig2 : List Nat) (rs : Slot α → List Nat) (f : RecFile α) : List Nat :=
  renderRecHeader c sig2 f ++ (f.slots.map fun p => rs p.2).flatten

/-- what the layout lemmas need -/
structure Lay (c : FileCfg) (sig2 : List Nat) (rs : Slot α → List Nat) (f : RecFile α) : Prop where
  sig_fit : (c.sig1 ++ sig2).length ≤ c.first
  heads_fit : c.first + 128 ≤ c.headerSz
  heads_len : f.heads.length = 16
  tiled : Tiled f.slots c.headerSz f.end_
  slot_len : ∀ p ∈ f.slots, (rs p.2).length = p.2.size

/-! ## association lists -/

theorem mem_upsert {β : Type} {l : List (Nat × β)} {k : Nat} {v : β} {p : Nat × β}
    (h : p ∈ upsert l k v) : p ∈ l ∨ p = (k, v) := by
  induction l with
  | nil => simp only [upsert, List.mem_singleton] at h; exact Or.inr h
  | cons q rest ih =>
    obtain ⟨k0, w⟩ := q
    by_cases h0 : k0 = k
    · simp only [upsert, h0, if_true, List.mem_cons] at h
      rcases h with h | h
      · exact Or.inr h
      · exact Or.inl (List.mem_cons_of_mem _ h)
    · simp only [upsert, h0, if_false, List.mem_cons] at h
      rcases h with h | h
      · exact Or.inl (h ▸ List.mem_cons_self)
      · rcases ih h with h | h
        · exact Or.inl (List.mem_cons_of_mem _ h)
        · exact Or.inr h

/-! ## `Lay` is kept by the allocator steps -/

theorem Lay.set_same {c : FileCfg} {sig2 : List Nat} {rs : Slot α → List Nat} {f : RecFile α}
    (lay : Lay c sig2 rs f) {o : Nat} {s s' : Slot α} (hg : f.get o = some s) (hs : s'.size = s.size)
    (hr : (rs s').length = s'.size) : Lay c sig2 rs (f.set o s') where
  sig_fit := lay.sig_fit
  heads_fit := lay.heads_fit
  heads_len := lay.heads_len
  tiled := by rw [set_end_same lay.tiled hg hs]; exact lay.tiled.upsert_same hg hs
  slot_len p hp := by
    rcases mem_upsert (show p ∈ upsert f.slots o s' from hp) with h | h
    · exact lay.slot_len p h
    · subst h; exact hr

theorem Lay.setHead {c : FileCfg} {sig2 : List Nat} {rs : Slot α → List Nat} {f : RecFile α}
    (lay : Lay c sig2 rs f) (sz v : Nat) : Lay c sig2 rs (setHead c f sz v) where
  sig_fit := lay.sig_fit
  heads_fit := lay.heads_fit
  heads_len := by rw [setHead_heads_len]; exact lay.heads_len
  tiled := lay.tiled
  slot_len := lay.slot_len

/-! ## the header -/

/-- the header up to the first head -/
def hpre (c : FileCfg) (sig2 : List Nat) : List Nat :=
  c.sig1 ++ sig2 ++ zeros (c.first - (c.sig1 ++ sig2).length)

theorem hpre_length (c : FileCfg) (sig2 : List Nat) (h : (c.sig1 ++ sig2).length ≤ c.first) :
    (hpre c sig2).length = c.first := by
  unfold hpre
  rw [List.length_append, zeros_length]
  omega

theorem header_eq (c : FileCfg) (sig2 : List Nat) (f : RecFile α) :
    renderRecHeader c sig2 f = hpre c sig2 ++ (f.heads.map le64).flatten ++
      zeros (c.headerSz - ((hpre c sig2).length + 8 * f.heads.length)) := by
  unfold renderRecHeader hpre
  simp only [List.length_append, flatten_le64_length]

theorem header_length {c : FileCfg} {sig2 : List Nat} {rs : Slot α → List Nat} {f : RecFile α}
    (lay : Lay c sig2 rs f) : (renderRecHeader c sig2 f).length = c.headerSz := by
  rw [header_eq]
  simp only [List.length_append, flatten_le64_length, zeros_length, hpre_length c sig2 lay.sig_fit,
    lay.heads_len]
  have := lay.heads_fit
  omega

theorem image_length {c : FileCfg} {sig2 : List Nat} {rs : Slot α → List Nat} {f : RecFile α}
    (lay : Lay c sig2 rs f) : (recImage c sig2 rs f).length = f.end_ := by
  unfold recImage
  rw [List.length_append, header_length lay]
  exact slots_flatten_length rs f.slots _ _ lay.tiled lay.slot_len

theorem heads_split (hs : List Nat) : ∀ (i : Nat), i < hs.length →
    ∃ P Q, P.length = 8 * i ∧ (hs.map le64).flatten = P ++ le64 (hs.getD i 0) ++ Q ∧
      ∀ v, ((lset hs i v).map le64).flatten = P ++ le64 v ++ Q := by
  induction hs with
  | nil => intro i hi; simp at hi
  | cons h t ih =>
    intro i hi
    cases i with
    | zero =>
      refine ⟨[], (t.map le64).flatten, rfl, ?_, fun v => ?_⟩
      · simp only [List.map_cons, List.flatten_cons, List.getD_cons_zero, List.nil_append]
      · simp only [lset, List.map_cons, List.flatten_cons, List.nil_append]
    | succ j =>
      obtain ⟨P, Q, hP, h1, h2⟩ := ih j (by simpa using hi)
      refine ⟨le64 h ++ P, Q, ?_, ?_, fun v => ?_⟩
      · rw [List.length_append, le64_length, hP]; omega
      · simp only [List.map_cons, List.flatten_cons, List.getD_cons_succ, h1, List.append_assoc]
      · simp only [lset, List.map_cons, List.flatten_cons, h2 v, List.append_assoc]

/-- step 2: head `i` occupies the 8 bytes at `c.first + 8 * i`; `lset` changes exactly these -/
theorem image_head {c : FileCfg} {sig2 : List Nat} {rs : Slot α → List Nat} {f : RecFile α}
    (lay : Lay c sig2 rs f) (i : Nat) (hi : i < 16) :
    ∃ P Q, P.length = c.first + 8 * i ∧
      recImage c sig2 rs f = P ++ le64 (f.heads.getD i 0) ++ Q ∧
      ∀ v, recImage c sig2 rs { f with heads := lset f.heads i v } = P ++ le64 v ++ Q := by
  obtain ⟨P, Q, hP, h1, h2⟩ := heads_split f.heads i (by rw [lay.heads_len]; exact hi)
  refine ⟨hpre c sig2 ++ P,
    Q ++ zeros (c.headerSz - ((hpre c sig2).length + 8 * 16)) ++ (f.slots.map fun p => rs p.2).flatten,
    ?_, ?_, fun v => ?_⟩
  · rw [List.length_append, hpre_length c sig2 lay.sig_fit, hP]
  · unfold recImage
    rw [header_eq, h1, lay.heads_len]
    simp only [List.append_assoc]
  · unfold recImage
    rw [header_eq]
    simp only [h2 v, lset_length, lay.heads_len, List.append_assoc]

/-! ## the slot area -/

theorem slots_split (rs : Slot α → List Nat) (l : List (Nat × Slot α)) :
    ∀ (a b o : Nat) (s : Slot α), Tiled l a b → (∀ p ∈ l, (rs p.2).length = p.2.size) →
      aget l o = some s →
      ∃ P Q, a + P.length = o ∧ (l.map fun p => rs p.2).flatten = P ++ rs s ++ Q ∧
        ∀ s', ((upsert l o s').map fun p => rs p.2).flatten = P ++ rs s' ++ Q := by
  induction l with
  | nil => intro a b o s _ _ hg; simp [aget] at hg
  | cons q t ih =>
    intro a b o s ht hl hg
    obtain ⟨o0, s0⟩ := q
    obtain ⟨h1, h2, h3⟩ := ht
    by_cases h0 : o0 = o
    · simp only [aget, h0, if_true, Option.some.injEq] at hg
      subst hg
      refine ⟨[], (t.map fun p => rs p.2).flatten, by simp only [List.length_nil]; omega, ?_, fun s' => ?_⟩
      · simp only [List.map_cons, List.flatten_cons, List.nil_append]
      · simp only [upsert, h0, if_true, List.map_cons, List.flatten_cons, List.nil_append]
    · simp only [aget, h0, if_false] at hg
      obtain ⟨P, Q, hP, e1, e2⟩ := ih _ _ o s h3 (fun p hp => hl p (List.mem_cons_of_mem _ hp)) hg
      have hlen : (rs s0).length = s0.size := hl (o0, s0) List.mem_cons_self
      refine ⟨rs s0 ++ P, Q, ?_, ?_, fun s' => ?_⟩
      · rw [List.length_append, hlen]; omega
      · simp only [List.map_cons, List.flatten_cons, e1, List.append_assoc]
      · simp only [upsert, h0, if_false, List.map_cons, List.flatten_cons, e2 s', List.append_assoc]

/-- step 1: the bytes of the slot at `o` sit at position `o`; `set` replaces exactly them -/
theorem image_slot {c : FileCfg} {sig2 : List Nat} {rs : Slot α → List Nat} {f : RecFile α}
    (lay : Lay c sig2 rs f) {o : Nat} {s : Slot α} (hg : f.get o = some s) :
    ∃ P Q, P.length = o ∧ recImage c sig2 rs f = P ++ rs s ++ Q ∧
      ∀ s', recImage c sig2 rs (f.set o s') = P ++ rs s' ++ Q := by
  obtain ⟨P, Q, hP, e1, e2⟩ := slots_split rs f.slots _ _ o s lay.tiled lay.slot_len hg
  refine ⟨renderRecHeader c sig2 f ++ P, Q, ?_, ?_, fun s' => ?_⟩
  · rw [List.length_append, header_length lay]; exact hP
  · unfold recImage; rw [e1]; simp only [List.append_assoc]
  · have hh : renderRecHeader c sig2 (f.set o s') = renderRecHeader c sig2 f := rfl
    unfold recImage
    rw [hh]
    show _ ++ ((upsert f.slots o s').map fun p => rs p.2).flatten = _
    rw [e2 s']; simp only [List.append_assoc]

end Abyss
