import Abyss.Lemmas.EngineRead
import Abyss.Stats
import Abyss.Lemmas.EngineStatsAux2
import Abyss.Lemmas.EngineStatsAux5
/-!
# The statistics calls generated from `dbxxx.rs` / `mod.rs` / `piece.rs` refine the model's (C17)
-/
namespace Abyss
open Store FileM

/-- strictly increasing first components: the shape of the statistics vectors -/
def StatSorted : List (Nat × Nat) → Prop
  | [] => True
  | [_] => True
  | a :: b :: rest => a.1 < b.1 ∧ StatSorted (b :: rest)

/-! ## `touch` keeps `StatSorted` -/

theorem StatSorted.tail {a : Nat × Nat} {l : List (Nat × Nat)} (h : StatSorted (a :: l)) : StatSorted l := by
  cases l with
  | nil => trivial
  | cons b r => exact h.2

theorem StatSorted.head_lt {a : Nat × Nat} {l : List (Nat × Nat)} (h : StatSorted (a :: l)) :
    ∀ p r, l = p :: r → a.1 < p.1 := by
  intro p r e
  subst e
  exact h.1

theorem StatSorted.cons {a : Nat × Nat} {l : List (Nat × Nat)} (hl : StatSorted l)
    (hh : ∀ p r, l = p :: r → a.1 < p.1) : StatSorted (a :: l) := by
  cases l with
  | nil => trivial
  | cons b r => exact ⟨hh b r rfl, hl⟩

/-- `touch` below a lower bound of the keys and of `x` keeps the order and the bound -/
theorem touch_statSorted_aux : ∀ (l : List (Nat × Nat)) (x m : Nat), StatSorted l →
    (∀ p r, l = p :: r → m < p.1) → m < x →
    StatSorted (touch l x) ∧ ∀ p r, touch l x = p :: r → m < p.1 := by
  intro l
  induction l with
  | nil =>
    intro x m _ _ hx
    refine ⟨trivial, ?_⟩
    intro p r e
    have e' : (x, 1) = p := (List.cons.inj e).1
    subst e'
    exact hx
  | cons q rest ih =>
    intro x m h hm hx
    obtain ⟨a, c⟩ := q
    have hma : m < a := hm (a, c) rest rfl
    unfold touch
    by_cases h1 : x = a
    · rw [if_pos h1]
      refine ⟨StatSorted.cons h.tail h.head_lt, ?_⟩
      intro p r e
      have e' := (List.cons.inj e).1
      subst e'
      exact hma
    · rw [if_neg h1]
      by_cases h2 : x < a
      · rw [if_pos h2]
        refine ⟨⟨h2, h⟩, ?_⟩
        intro p r e
        have e' := (List.cons.inj e).1
        subst e'
        exact hx
      · rw [if_neg h2]
        obtain ⟨i1, i2⟩ := ih x a h.tail h.head_lt (by omega)
        refine ⟨StatSorted.cons i1 i2, ?_⟩
        intro p r e
        have e' := (List.cons.inj e).1
        subst e'
        exact hma

theorem touch_statSorted (l : List (Nat × Nat)) (x : Nat) (h : StatSorted l) : StatSorted (touch l x) := by
  cases l with
  | nil => trivial
  | cons q rest =>
    obtain ⟨a, c⟩ := q
    unfold touch
    by_cases h1 : x = a
    · rw [if_pos h1]
      exact StatSorted.cons h.tail h.head_lt
    · rw [if_neg h1]
      by_cases h2 : x < a
      · rw [if_pos h2]
        exact ⟨h2, h⟩
      · rw [if_neg h2]
        obtain ⟨i1, i2⟩ := touch_statSorted_aux rest x a h.tail h.head_lt (by omega)
        exact StatSorted.cons i1 i2

/-- `touch_size` / `touch_length` (binary search + insert / increment) on a sorted vector is the
model's linear `touch`, and keeps it sorted -/
theorem touchSize_eq_touch (vec : List (Nat × Nat)) (x : Nat) (h : StatSorted vec) :
    Gen.touchSize vec x = touch vec x ∧ StatSorted (touch vec x) :=
  ⟨touchSize_eq vec x, touch_statSorted vec x h⟩

theorem touchLength_eq_touch (vec : List (Nat × Nat)) (x : Nat) (h : StatSorted vec) :
    Gen.touchLength vec x = touch vec x :=
  touchLength_eq vec x

/-! ## the four walks -/

section
variable {kt : KeyType} {s : Store} {d : DbSt}

theorem keyFuel (g : Store.Regular kt s) (hd : d.IsImage kt s) : s.kf.slots.length < d.key.bytes.length + 1 := by
  have h1 := hd.key_length g
  have h2 := g.inv.kwf.length_le
  omega

theorem valFuel (g : Store.Regular kt s) (hd : d.IsImage kt s) : s.vf.slots.length < d.val.bytes.length + 1 := by
  have h1 := hd.val_length g
  have h2 := g.inv.vwf.length_le
  omega

theorem keyPieceSizeStats_bytes (g : Store.Regular kt s) (hd : d.IsImage kt s) :
    ∃ r d', s.keyPieceSizeStats = some r ∧ d'.IsImage kt s ∧ Gen.keyPieceSizeStats d = some (r, d') := by
  obtain ⟨p, hp⟩ := keyNew_img g hd
  obtain ⟨d', hd', hl⟩ := keySizeLoop_img g s.kf.slots keyCfg.headerSz 0 [] (d.key.bytes.length + 1) _
    g.inv.kwf.tiled (fun _ hp => g.inv.kwf.tiled.aget_of_mem hp) (Or.inl ⟨rfl, rfl⟩) (keyFuel g hd) (hd.keyPos p)
  refine ⟨(s.kf.slots.foldl (fun acc p => if keyLenOf p.2 ≠ 0 then touch acc p.2.size else acc) []), d', ?_, hd', ?_⟩
  · unfold Store.keyPieceSizeStats
    rw [RecFile.walk_spec keyCfg_ok g.inv.kwf]
    rfl
  · unfold Gen.keyPieceSizeStats
    rw [DbM.bind_some hp, DbM.bind_some (DbM.keyLen_apply _)]
    exact hl

theorem keyLengthStats_bytes (g : Store.Regular kt s) (hd : d.IsImage kt s) :
    ∃ r d', s.keyLengthStats = some r ∧ d'.IsImage kt s ∧ Gen.keyLengthStats d = some (r, d') := by
  obtain ⟨p, hp⟩ := keyNew_img g hd
  obtain ⟨d', hd', hl⟩ := keyLenLoop_img g s.kf.slots keyCfg.headerSz 0 [] (d.key.bytes.length + 1) _
    g.inv.kwf.tiled (fun _ hp => g.inv.kwf.tiled.aget_of_mem hp) (Or.inl ⟨rfl, rfl⟩) (keyFuel g hd) (hd.keyPos p)
  refine ⟨(s.kf.slots.foldl (fun acc p => if keyLenOf p.2 ≠ 0 then touch acc (keyLenOf p.2) else acc) []), d', ?_, hd', ?_⟩
  · unfold Store.keyLengthStats
    rw [RecFile.walk_spec keyCfg_ok g.inv.kwf]
    rfl
  · unfold Gen.keyLengthStats
    rw [DbM.bind_some hp, DbM.bind_some (DbM.keyLen_apply _)]
    exact hl

theorem valuePieceSizeStats_bytes (g : Store.Regular kt s) (hd : d.IsImage kt s) :
    ∃ r d', s.valuePieceSizeStats = some r ∧ d'.IsImage kt s ∧ Gen.valuePieceSizeStats d = some (r, d') := by
  obtain ⟨p, hp⟩ := valNew_img g hd
  obtain ⟨d', hd', hl⟩ := valSizeLoop_img g s.vf.slots valCfg.headerSz 0 [] (d.val.bytes.length + 1) _
    g.inv.vwf.tiled (fun _ hp => g.inv.vwf.tiled.aget_of_mem hp) (Or.inl ⟨rfl, rfl⟩) (valFuel g hd) (hd.valPos p)
  refine ⟨(s.vf.slots.foldl (fun acc p => if valLenOf p.2 ≠ 0 then touch acc p.2.size else acc) []), d', ?_, hd', ?_⟩
  · unfold Store.valuePieceSizeStats
    rw [RecFile.walk_spec valCfg_ok g.inv.vwf]
    rfl
  · unfold Gen.valuePieceSizeStats
    have hlen : DbM.valLen { d with val := ⟨d.val.bytes, p⟩ } =
        some (d.val.bytes.length, { d with val := ⟨d.val.bytes, p⟩ }) := rfl
    rw [DbM.bind_some hp, DbM.bind_some hlen]
    exact hl

theorem valueLengthStats_bytes (g : Store.Regular kt s) (hd : d.IsImage kt s) :
    ∃ r d', s.valueLengthStats = some r ∧ d'.IsImage kt s ∧ Gen.valueLengthStats d = some (r, d') := by
  obtain ⟨p, hp⟩ := valNew_img g hd
  obtain ⟨d', hd', hl⟩ := valLenLoop_img g s.vf.slots valCfg.headerSz 0 [] (d.val.bytes.length + 1) _
    g.inv.vwf.tiled (fun _ hp => g.inv.vwf.tiled.aget_of_mem hp) (Or.inl ⟨rfl, rfl⟩) (valFuel g hd) (hd.valPos p)
  refine ⟨(s.vf.slots.foldl (fun acc p => if valLenOf p.2 ≠ 0 then touch acc (valLenOf p.2) else acc) []), d', ?_, hd', ?_⟩
  · unfold Store.valueLengthStats
    rw [RecFile.walk_spec valCfg_ok g.inv.vwf]
    rfl
  · unfold Gen.valueLengthStats
    have hlen : DbM.valLen { d with val := ⟨d.val.bytes, p⟩ } =
        some (d.val.bytes.length, { d with val := ⟨d.val.bytes, p⟩ }) := rfl
    rw [DbM.bind_some hp, DbM.bind_some hlen]
    exact hl

end

/-- the four walks over the record files -/
theorem sizeStats_bytes {kt : KeyType} {s : Store} (g : Store.Regular kt s) {d : DbSt} (hd : d.IsImage kt s) :
    (∃ r d', s.keyPieceSizeStats = some r ∧ d'.IsImage kt s ∧ Gen.keyPieceSizeStats d = some (r, d')) ∧
    (∃ r d', s.valuePieceSizeStats = some r ∧ d'.IsImage kt s ∧ Gen.valuePieceSizeStats d = some (r, d')) ∧
    (∃ r d', s.keyLengthStats = some r ∧ d'.IsImage kt s ∧ Gen.keyLengthStats d = some (r, d')) ∧
    (∃ r d', s.valueLengthStats = some r ∧ d'.IsImage kt s ∧ Gen.valueLengthStats d = some (r, d')) :=
  ⟨keyPieceSizeStats_bytes g hd, valuePieceSizeStats_bytes g hd, keyLengthStats_bytes g hd,
    valueLengthStats_bytes g hd⟩

/-- the free-list counts per size class -/
theorem freeCounts_bytes {kt : KeyType} {s : Store} (g : Store.Regular kt s) {d : DbSt} (hd : d.IsImage kt s) :
    (∃ r d', s.countOfFreeKeyPiece = some r ∧ d'.IsImage kt s ∧ Gen.countOfFreeKeyPiece keyCfg d = some (r, d')) ∧
    (∃ r d', s.countOfFreeValuePiece = some r ∧ d'.IsImage kt s ∧ Gen.countOfFreeValuePiece valCfg d = some (r, d')) := by
  constructor
  · obtain ⟨r, p, hr, h⟩ := keyCountOfFree_bytes g d.key.pos
    have hb : d.key.bytes = renderKeyFile kt.sig s.kf := hd.2.1
    rw [← hd.key_eq] at h
    rw [← hb] at h
    exact ⟨r, _, hr, hd.keyPos p, DbM.liftKey_some h⟩
  · obtain ⟨r, p, hr, h⟩ := valCountOfFree_bytes g d.val.pos
    have hb : d.val.bytes = renderValFile kt.sig s.vf := hd.2.2
    rw [← hd.val_eq] at h
    rw [← hb] at h
    exact ⟨r, _, hr, hd.valPos p, DbM.liftVal_some h⟩

/-- the filling rate: non-empty buckets, and per mille of the table size -/
theorem fillingRate_bytes {kt : KeyType} {s : Store} (g : Store.Regular kt s) {d : DbSt} (hd : d.IsImage kt s) :
    ∃ d', d'.IsImage kt s ∧ Gen.htxFillingRatePerMill s.n d = some (s.htxFillingRate, d') := by
  obtain ⟨p, h⟩ := fillingRate_htx g d.htx.pos
  have hb : d.htx.bytes = (render kt s).htx := hd.1
  rw [← hd.htx_eq] at h
  rw [← hb] at h
  exact ⟨_, hd.htxPos p, DbM.liftHtx_some h⟩

end Abyss
