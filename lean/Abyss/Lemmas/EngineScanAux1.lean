import Abyss.Lemmas.EngineHtx
import Abyss.Lemmas.ScanL
import Abyss.Scan
/-!
# Helpers for `EngineScan.lean`, part 1: padded reads, bitmap bytes vs `byteZero` / `wordZero`,
what the scan needs of the table file (`BmFile`)
-/
namespace Abyss
open Store FileM

/-! ## little-endian values and padded reads -/

theorem ofLeBytes_eq_zero (bs : List Nat) : Vu64.ofLeBytes bs = 0 ↔ ∀ x ∈ bs, x = 0 := by
  induction bs with
  | nil => simp [Vu64.ofLeBytes]
  | cons b bs ih =>
    simp only [Vu64.ofLeBytes, List.mem_cons, forall_eq_or_imp]
    rw [← ih]; omega

/-- `readPad k` anywhere up to the end of the file: the bytes there, zeros beyond the end -/
theorem readPad_getD (b : List Nat) (p k : Nat) (hp : p ≤ b.length) :
    FileM.readPad k ⟨b, p⟩ = some ((List.range k).map (fun t => b.getD (p + t) 0), ⟨b, p + k⟩) := by
  unfold FileM.readPad
  simp only
  rw [if_pos hp]
  congr 2
  apply List.ext_getElem?
  intro i
  have hl : (List.take k (List.drop p b)).length = min k (b.length - p) := by
    simp only [List.length_take, List.length_drop]
  by_cases h1 : i < k
  · rw [List.getElem?_map, List.getElem?_range h1, Option.map_some, List.getD_eq_getElem?_getD]
    by_cases h2 : p + i < b.length
    · rw [List.getElem?_append_left (by omega),
        List.getElem?_take_of_lt h1, List.getElem?_drop, List.getElem?_eq_getElem h2]
      rfl
    · rw [List.getElem?_append_right (by omega), List.getElem?_replicate, if_pos (by omega),
        List.getElem?_eq_none (by omega)]
      rfl
  · rw [List.getElem?_eq_none (by rw [List.length_append, List.length_replicate]; omega),
      List.getElem?_eq_none (by rw [List.length_map, List.length_range]; omega)]

/-- an 8-byte read anywhere up to the end of the file is zero iff the eight bytes (or their padding) are -/
theorem readU64Le_zero_iff (b : List Nat) (p : Nat) (hp : p ≤ b.length) :
    ∃ v, FileM.readU64Le ⟨b, p⟩ = some (v, ⟨b, p + 8⟩) ∧ (v = 0 ↔ ∀ t, t < 8 → b.getD (p + t) 0 = 0) := by
  refine ⟨Vu64.ofLeBytes ((List.range 8).map (fun t => b.getD (p + t) 0)), ?_, ?_⟩
  · unfold FileM.readU64Le
    rw [bind_some (readPad_getD b p 8 hp), pure_apply]
  · rw [ofLeBytes_eq_zero]
    constructor
    · intro h t ht
      exact h _ (List.mem_map.mpr ⟨t, List.mem_range.mpr ht, rfl⟩)
    · intro h x hx
      obtain ⟨t, ht, e⟩ := List.mem_map.mp hx
      rw [← e]
      exact h t (List.mem_range.mp ht)

/-! ## bitmap bytes vs the model's predicates -/

theorem byteZero_iff (f : Nat → Bool) (j : Nat) : byteZero f j = true ↔ bitmapByte f j = 0 := by
  constructor
  · intro h
    exact bitmapByte_zero f j (fun k hk => byteZero_true h _ (by omega) (by omega))
  · intro h
    simp only [byteZero, List.all_eq_true, List.mem_range]
    intro k hk
    have := bitmapByte_testBit f j k
    rw [h, Nat.zero_testBit] at this
    simp only [hk, decide_true, Bool.true_and] at this
    rw [← this]; rfl

theorem wordZero_iff (f : Nat → Bool) (j : Nat) :
    wordZero f j = true ↔ ∀ t, t < 8 → bitmapByte f (j + t) = 0 := by
  simp only [wordZero, List.all_eq_true, List.mem_range, byteZero_iff]

/-! ## what the scan needs of the table file -/

/-- a table file of `n` buckets `h` whose bitmap bytes (with the zero padding beyond its end) are those of `f` -/
structure BmFile (F : List Nat) (n m : Nat) (h : Nat → Nat) (f : Nat → Bool) : Prop where
  len : F.length = 128 + 8 * n + m
  bm : ∀ j, F.getD (128 + 8 * n + j) 0 = bitmapByte f j
  tbl : ∀ b, b < n → FileM.readU64Le ⟨F, 128 + 8 * b⟩ = some (h b, ⟨F, 128 + 8 * b + 8⟩)

theorem bmFile_htxImg (sig : List Nat) (n count : Nat) (h : Nat → Nat) (m : Nat) (f : Nat → Bool)
    (hsig : sig.length = 8) (hlt : ∀ b, h b < 2^64) (hf : ∀ k, 8 * m ≤ k → f k = false) :
    BmFile (htxImg sig n count h m f) n m h f := by
  have hz : ∀ i, m ≤ i → bitmapByte f i = 0 := fun i hi =>
    bitmapByte_zero f i (fun k _ => hf _ (by omega))
  obtain ⟨A, hA, hAe⟩ := htxImg_bm_split sig n count h hsig
  refine ⟨htxImg_length sig n count h m f hsig, ?_, ?_⟩
  · intro j
    rw [hAe, List.getD_eq_getElem?_getD, List.getElem?_append_right (by omega),
      ← List.getD_eq_getElem?_getD]
    have : 128 + 8 * n + j - A.length = j := by omega
    rw [this]
    exact htxBm_getD m j f hz
  · intro b hb
    obtain ⟨A2, B2, hA2, e, _⟩ := htxImg_tbl_split sig n count h h m f hsig b hb (fun _ _ => rfl)
    have hd : (htxImg sig n count h m f).drop (128 + 8 * b) = le64 (h b) ++ B2 := by
      rw [e, ← hA2]; exact drop_app_mid _ _ _
    exact readU64Le_spec hd (hlt b)

namespace BmFile
variable {F : List Nat} {n m : Nat} {h : Nat → Nat} {f : Nat → Bool}

/-- the 8-byte read at bitmap byte `j` -/
theorem read8 (B : BmFile F n m h f) (j : Nat) (hj : j ≤ m) :
    ∃ v, FileM.readU64Le ⟨F, 128 + 8 * n + j⟩ = some (v, ⟨F, 128 + 8 * n + j + 8⟩) ∧
      (v == 0) = wordZero f j := by
  obtain ⟨v, e, hv⟩ := readU64Le_zero_iff F (128 + 8 * n + j) (by rw [B.len]; omega)
  refine ⟨v, e, ?_⟩
  have h2 : v = 0 ↔ wordZero f j = true := by
    rw [hv, wordZero_iff]
    constructor
    · intro h1 t ht
      rw [← B.bm (j + t), ← Nat.add_assoc]; exact h1 t ht
    · intro h1 t ht
      rw [Nat.add_assoc, B.bm (j + t)]; exact h1 t ht
  cases hw : wordZero f j
  · rw [hw] at h2
    have : ¬ v = 0 := fun hv0 => absurd (h2.mp hv0) (by simp)
    simpa using this
  · rw [hw] at h2
    have := h2.mpr rfl
    simpa using this

/-- the one-byte read at bitmap byte `j` -/
theorem read1 (B : BmFile F n m h f) (j : Nat) (hj : j ≤ m) :
    ∃ v, FileM.readU8 ⟨F, 128 + 8 * n + j⟩ = some (v, ⟨F, 128 + 8 * n + j + 1⟩) ∧
      (v == 0) = byteZero f j := by
  refine ⟨bitmapByte f j, ?_, ?_⟩
  · rw [readU8_getD _ _ (by rw [B.len]; omega), B.bm j]
  · cases hw : byteZero f j
    · have : ¬ bitmapByte f j = 0 := fun h0 => by
        have := (byteZero_iff f j).mpr h0
        rw [hw] at this; exact absurd this (by simp)
      simpa using this
    · have := (byteZero_iff f j).mp hw
      simpa using this

end BmFile
end Abyss
