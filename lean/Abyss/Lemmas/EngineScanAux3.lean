import Abyss.Lemmas.EngineScanAux2
namespace Abyss
open Store FileM

theorem fileLen_apply (s : FSt) : FileM.fileLen s = some (s.bytes.length, s) := rfl

theorem nextKeyPieceOffset_odd (f : Nat → Bool) (h : Nat → Nat) (n idx : Nat) (h8 : ¬ idx % 8 = 0) :
    nextKeyPieceOffset f h n idx = scanBuckets h n (n + 1) idx 0 := by
  simp only [nextKeyPieceOffset, h8, if_false]

theorem nextKeyPieceOffset_even (f : Nat → Bool) (h : Nat → Nat) (n idx : Nat) (h8 : idx % 8 = 0) :
    nextKeyPieceOffset f h n idx =
      scanBuckets h n (n + 1)
        (scanBytes f n (n + 1)
          (if (scanWords f n (n + 1) idx true false).2 then (scanWords f n (n + 1) idx true false).1 - 64
            else (scanWords f n (n + 1) idx true false).1) true - 8) 0 := by
  simp only [nextKeyPieceOffset, h8, if_true]

theorem seekBackSize_spec (k : Nat) (b : List Nat) (p : Nat) (h1 : k ≤ p) (h2 : p - k ≤ b.length) :
    Gen.seekBackSize k ⟨b, p⟩ = some (p - k, ⟨b, p - k⟩) := by
  unfold Gen.seekBackSize FileM.seekBack FileM.seek
  simp only [h1, if_true, Nat.sub_eq_zero_of_le h2, List.replicate_zero, List.append_nil]

namespace BmFile
variable {F : List Nat} {n m : Nat} {h : Nat → Nat} {f : Nat → Bool}

theorem tail3 (B : BmFile F n m h f) (i pos : Nat) (hi : i < n) :
    ∃ pos', (do
      let _ ← Gen.seekFromStart (Gen.htxHeaderSz + (8 * i))
      let idx := i
      let off := 0
      let loopFuel ← FileM.fileLen
      let (idx, off) ← Gen.htxNextKeyPieceOffsetLoop3 n (loopFuel + 1) (idx, off)
      pure (idx, off) : M (Nat × Nat)) ⟨F, pos⟩ = some (scanBuckets h n (n + 1) i 0, ⟨F, pos'⟩) := by
  have h128 : Gen.htxHeaderSz = 128 := rfl
  obtain ⟨p, e⟩ := B.loop3 (F.length + 1) (n + 1) i 0 (by have := B.len; omega) (by omega)
  refine ⟨p, ?_⟩
  rw [h128, bind_some (seekFromStart_spec _ _ pos (by rw [B.len]; omega)), bind_some (fileLen_apply _),
    bind_some e]
  rfl

theorem next (B : BmFile F n m h f) (hm : n / 8 ≤ m) (idx pos : Nat) (hidx : idx < n) :
    ∃ pos', Gen.htxNextKeyPieceOffset n idx ⟨F, pos⟩ =
      some (nextKeyPieceOffset f h n idx, ⟨F, pos'⟩) := by
  have h128 : Gen.htxHeaderSz = 128 := rfl
  unfold Gen.htxNextKeyPieceOffset
  by_cases h8 : idx % 8 = 0
  · rw [nextKeyPieceOffset_even f h n idx h8]
    dsimp only
    rw [if_pos (by simpa using h8)]
    obtain ⟨r, hr⟩ : ∃ r, r = scanWords f n (n + 1) idx true false := ⟨_, rfl⟩
    have A := scanStart_mid f n idx hidx h8
    dsimp only at A
    rw [← hr] at A ⊢
    obtain ⟨A1, A2, A3⟩ := A
    obtain ⟨i3, hi3⟩ : ∃ i3, i3 = if r.2 = true then r.1 - 64 else r.1 := ⟨_, rfl⟩
    rw [← hi3] at A2 A3 ⊢
    have hlen := B.len
    obtain ⟨v1, L1⟩ := B.loop1 hm (F.length + 1) (n + 1) idx 0 false h8 (by omega) (by omega)
    have h00 : ((0 : Nat) == 0) = true := rfl
    rw [h00, ← hr] at L1
    obtain ⟨v2, p4, L2⟩ := B.loop2 hm (F.length + 1) (n + 1) i3 0 A2 (by omega) (by omega)
    rw [h00] at L2
    obtain ⟨C1, C2⟩ := scanBytes_end f n i3 A2 A3
    obtain ⟨i4, hi4⟩ : ∃ i4, i4 = scanBytes f n (n + 1) i3 true := ⟨_, rfl⟩
    rw [← hi4] at C1 C2 L2 ⊢
    obtain ⟨p, T⟩ := B.tail3 (i4 - 8) p4 C2
    refine ⟨p, (bind_some (a := i4 - 8) (s' := ⟨F, p4⟩) ?_).trans T⟩
    rw [h128]
    refine (bind_some (seekFromStart_spec _ _ pos (by omega))).trans ?_
    refine (bind_some (fileLen_apply _)).trans ?_
    have e0 : 128 + n * 8 + idx / 8 = 128 + 8 * n + idx / 8 := by omega
    rw [e0]
    refine (bind_some L1).trans ?_
    have M1 : (if r.2 = true then
                  Gen.seekBackSize 8 >>= fun _ =>
                  (if decide (r.1 < 8 * 8) = true then fail else pure ()) >>= fun (_ : Unit) =>
                  pure (r.1 - 8 * 8)
                else pure r.1 : M Nat) ⟨F, 128 + 8 * n + r.1 / 8⟩ = some (i3, ⟨F, 128 + 8 * n + i3 / 8⟩) := by
      by_cases hrd : r.2 = true
      · obtain ⟨a1, a2⟩ := A1 hrd
        rw [if_pos hrd] at hi3
        rw [if_pos hrd, bind_some (seekBackSize_spec 8 _ _ (by omega) (by omega)),
          if_neg (by simpa using a1), pure_bind_apply, pure_apply, hi3]
        have : 128 + 8 * n + r.1 / 8 - 8 = 128 + 8 * n + (r.1 - 64) / 8 := by omega
        rw [this]
      · rw [if_neg hrd] at hi3
        rw [if_neg hrd, pure_apply, hi3]
    refine (bind_some M1).trans ?_
    refine (bind_some (fileLen_apply _)).trans ?_
    refine (bind_some L2).trans ?_
    show ((if decide (i4 < 8) = true then fail else pure ()) >>= fun _ => (pure (i4 - 8) : M Nat)) _ = _
    rw [if_neg (by simpa using C1), pure_bind_apply, pure_apply]
  · obtain ⟨p, e⟩ := B.tail3 idx pos hidx
    refine ⟨p, ?_⟩
    rw [nextKeyPieceOffset_odd f h n idx h8]
    dsimp only
    rw [if_neg (by simpa using h8), pure_bind_apply]
    exact e

end BmFile
end Abyss
