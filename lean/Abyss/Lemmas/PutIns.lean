import Abyss.Lemmas.PutAux
/-!
# `put` on a key that is absent: a new value record, a new key record at the front of the chain
-/
namespace Abyss
namespace Store
namespace Put

/-- `s'` arises from `s` by adding the value record `v` at the fresh offset `voff`, the key
record `⟨k, voff, old head⟩` at the fresh offset `koff`, making it the head of the bucket of `k`
and counting it. -/
structure Ins (s s' : Store) (k v : List Nat) (koff ksz voff vsz : Nat) : Prop where
  hn : s'.n = s.n
  hhead : ∀ b', s'.headOf b' = if b' = bucketOf k s.n then koff else s.headOf b'
  hbit : ∀ b', s'.bitOf b' = if b' = bucketOf k s.n then decide (koff ≠ 0) else s.bitOf b'
  hcount : s'.count = s.count + 1
  kwf : RecFile.WF keyCfg s'.kf
  vwf : RecFile.WF valCfg s'.vf
  hk1 : ∀ o, s'.kf.used o =
    if o = koff then some (ksz, ⟨k, voff, s.headOf (bucketOf k s.n)⟩) else s.kf.used o
  hv1 : ∀ o, s'.vf.used o = if o = voff then some (vsz, v) else s.vf.used o
  hkfresh : s.kf.used koff = none
  hk0 : koff ≠ 0
  hvfresh : s.vf.used voff = none
  huc : RecFile.usedCount s'.kf = RecFile.usedCount s.kf + 1

section
variable {kt : KeyType} {s s' : Store} {k v : List Nat} {koff ksz voff vsz : Nat}

theorem Ins.used_new (I : Ins s s' k v koff ksz voff vsz) :
    s'.kf.used koff = some (ksz, ⟨k, voff, s.headOf (bucketOf k s.n)⟩) := by
  rw [I.hk1, if_pos rfl]

theorem Ins.val_new (I : Ins s s' k v koff ksz voff vsz) : s'.vf.used voff = some (vsz, v) := by
  rw [I.hv1, if_pos rfl]

theorem Ins.same (I : Ins s s' k v koff ksz voff vsz) {o sz : Nat} {r : KeyRec}
    (hu : s.kf.used o = some (sz, r)) : s'.kf.used o = s.kf.used o := by
  have hne : o ≠ koff := by
    rintro rfl
    rw [I.hkfresh] at hu; cases hu
  rw [I.hk1, if_neg hne]

theorem Ins.vsame (I : Ins s s' k v koff ksz voff vsz) {o sz : Nat} {w : List Nat}
    (hu : s.vf.used o = some (sz, w)) : s'.vf.used o = s.vf.used o := by
  have hne : o ≠ voff := by
    rintro rfl
    rw [I.hvfresh] at hu; cases hu
  rw [I.hv1, if_neg hne]

theorem Ins.cases (I : Ins s s' k v koff ksz voff vsz) {o sz : Nat} {r : KeyRec}
    (hu : s'.kf.used o = some (sz, r)) :
    (o = koff ∧ sz = ksz ∧ r = ⟨k, voff, s.headOf (bucketOf k s.n)⟩) ∨ (o ≠ koff ∧ s.kf.used o = some (sz, r)) := by
  rw [I.hk1] at hu
  by_cases h1 : o = koff
  · rw [if_pos h1] at hu
    injection hu with hu
    injection hu with e1 e2
    exact Or.inl ⟨h1, e1.symm, e2.symm⟩
  · rw [if_neg h1] at hu
    exact Or.inr ⟨h1, hu⟩

/-! ### record-level clauses -/

theorem Ins.keys_ok (I : Ins s s' k v koff ksz voff vsz) {x : Nat} (h : InvX kt s x) (hk : KeyOK kt k) :
    ∀ o sz r, s'.kf.used o = some (sz, r) → KeyOK kt r.key := by
  intro o sz r hu1
  rcases I.cases hu1 with ⟨_, _, rfl⟩ | ⟨_, hu0⟩
  · exact hk
  · exact h.keys_ok _ _ _ hu0

theorem Ins.keys_inj (I : Ins s s' k v koff ksz voff vsz) {x : Nat} (h : InvX kt s x)
    (hnf : ∀ o sz r, s.kf.used o = some (sz, r) → r.key ≠ k) :
    ∀ o o' sz sz' r r', s'.kf.used o = some (sz, r) → s'.kf.used o' = some (sz', r') →
      r.key = r'.key → o = o' := by
  intro o o' sz1 sz2 r r' hu1 hu2 hkey
  rcases I.cases hu1 with ⟨e1, _, rfl⟩ | ⟨_, hu1'⟩ <;>
  rcases I.cases hu2 with ⟨e2, _, rfl⟩ | ⟨_, hu2'⟩
  · rw [e1, e2]
  · exact absurd hkey.symm (hnf _ _ _ hu2')
  · exact absurd hkey (hnf _ _ _ hu1')
  · exact h.keys_inj _ _ _ _ _ _ hu1' hu2' hkey

theorem Ins.val_used (I : Ins s s' k v koff ksz voff vsz) {x : Nat} (h : InvX kt s x) :
    ∀ o sz r, s'.kf.used o = some (sz, r) → ∃ vs v, s'.vf.used r.valOff = some (vs, v) := by
  intro o sz r hu1
  rcases I.cases hu1 with ⟨_, _, rfl⟩ | ⟨_, hu0⟩
  · exact ⟨vsz, v, I.val_new⟩
  · obtain ⟨vs, w, hw⟩ := h.val_used _ _ _ hu0
    exact ⟨vs, w, (I.vsame hw).trans hw⟩

theorem Ins.val_inj (I : Ins s s' k v koff ksz voff vsz) {x : Nat} (h : InvX kt s x) :
    ∀ o o' sz sz' r r', s'.kf.used o = some (sz, r) → s'.kf.used o' = some (sz', r') →
      r.valOff = r'.valOff → o = o' := by
  have key : ∀ o sz r, s.kf.used o = some (sz, r) → r.valOff ≠ voff := by
    intro o sz r hu0 e
    obtain ⟨vs, w, hw⟩ := h.val_used _ _ _ hu0
    rw [e, I.hvfresh] at hw; cases hw
  intro o o' sz1 sz2 r r' hu1 hu2 hvo
  rcases I.cases hu1 with ⟨e1, _, rfl⟩ | ⟨_, hu1'⟩ <;>
  rcases I.cases hu2 with ⟨e2, _, rfl⟩ | ⟨_, hu2'⟩
  · rw [e1, e2]
  · exact absurd hvo.symm (key _ _ _ hu2')
  · exact absurd hvo (key _ _ _ hu1')
  · exact h.val_inj _ _ _ _ _ _ hu1' hu2' hvo

theorem Ins.val_owned (I : Ins s s' k v koff ksz voff vsz) {x : Nat} (h : InvX kt s x) :
    ∀ vo vs v, s'.vf.used vo = some (vs, v) → ∃ o sz r, s'.kf.used o = some (sz, r) ∧ r.valOff = vo := by
  intro vo vs w hw
  rw [I.hv1] at hw
  by_cases h1 : vo = voff
  · exact ⟨koff, ksz, _, I.used_new, h1.symm⟩
  · rw [if_neg h1] at hw
    obtain ⟨o, sz, r, hu0, e⟩ := h.val_owned _ _ _ hw
    exact ⟨o, sz, r, (I.same hu0).trans hu0, e⟩

/-! ### (key, value offset) pairs -/

theorem Ins.hasKV (I : Ins s s' k v koff ksz voff vsz)
    (hnf : ∀ o sz r, s.kf.used o = some (sz, r) → r.key ≠ k) (k' : List Nat) (vo' : Nat) :
    HasKV s' k' vo' ↔ (k' = k ∧ vo' = voff) ∨ (k' ≠ k ∧ HasKV s k' vo') := by
  constructor
  · rintro ⟨o, sz, r, hu1, rfl, rfl⟩
    rcases I.cases hu1 with ⟨_, _, rfl⟩ | ⟨_, hu0⟩
    · exact Or.inl ⟨rfl, rfl⟩
    · exact Or.inr ⟨hnf _ _ _ hu0, o, sz, r, hu0, rfl, rfl⟩
  · rintro (⟨rfl, rfl⟩ | ⟨_, o, sz, r, hu0, rfl, rfl⟩)
    · exact ⟨koff, ksz, _, I.used_new, rfl, rfl⟩
    · exact ⟨o, sz, r, (I.same hu0).trans hu0, rfl, rfl⟩

theorem Ins.vals (I : Ins s s' k v koff ksz voff vsz) {x : Nat} (h : InvX kt s x)
    (k' : List Nat) (vo : Nat) (hkv : HasKV s k' vo) : s'.vf.used vo = s.vf.used vo := by
  obtain ⟨o, sz, r, hu0, rfl, rfl⟩ := hkv
  obtain ⟨vs, w, hw⟩ := h.val_used _ _ _ hu0
  exact I.vsame hw

/-! ### chains -/

theorem Ins.chain_other (I : Ins s s' k v koff ksz voff vsz) (h : Inv kt s)
    {b' : Nat} {l : List (Nat × KeyRec)} (hb' : b' < s.n)
    (hne : b' ≠ bucketOf k s.n) (hc : s.chain b' = some l) : s'.chain b' = some l := by
  obtain ⟨l0, hc0, hnd, hb⟩ := h.chains b' hb'
  rw [hc] at hc0
  injection hc0 with e
  subst e
  have hh : s'.headOf b' = s.headOf b' := by rw [I.hhead, if_neg hne]
  apply chain_transfer hc hnd hh
  intro p hp
  obtain ⟨_, sz, hup⟩ := segFrom_used (seg_of_chain hc) p hp
  exact I.same hup

theorem Ins.mid (I : Ins s s' k v koff ksz voff vsz) (h : Inv kt s) (hk : KeyOK kt k)
    (hnf : ∀ o sz r, s.kf.used o = some (sz, r) → r.key ≠ k) {l : List (Nat × KeyRec)}
    (hch : s.chain (bucketOf k s.n) = some l) :
    Mid kt s' (bucketOf k s.n) koff koff [] ((koff, ⟨k, voff, s.headOf (bucketOf k s.n)⟩) :: l) := by
  have hblt : bucketOf k s.n < s.n := bucketOf_lt _ h.npos
  obtain ⟨l0, hc0, hnd, hb⟩ := h.chains _ hblt
  rw [hch] at hc0
  injection hc0 with e
  subst e
  have hseg := seg_of_chain hch
  have hused : ∀ p ∈ l, ∃ sz, s.kf.used p.1 = some (sz, p.2) :=
    fun p hp => (segFrom_used hseg p hp).2
  have hsame : ∀ p ∈ l, s'.kf.used p.1 = s.kf.used p.1 := by
    intro p hp
    obtain ⟨sz, hup⟩ := hused p hp
    exact I.same hup
  refine
    { npos := I.hn ▸ h.npos
      kwf := I.kwf
      vwf := I.vwf
      heads_lt := ?_
      bits_ok := ?_
      b_lt := I.hn ▸ hblt
      chains_other := ?_
      seg := ?_
      tail := ?_
      nodup := ?_
      bucket := ?_
      on_chain := ?_
      keys_ok := I.keys_ok h hk
      keys_inj := I.keys_inj h hnf
      val_used := I.val_used h
      val_inj := I.val_inj h
      val_owned := I.val_owned h
      count_ok := ?_ }
  · intro b' hb'
    rw [I.hn] at hb'
    have : b' ≠ bucketOf k s.n := by omega
    rw [I.hhead, if_neg this]
    exact h.heads_lt b' hb'
  · intro b'
    rw [I.hhead, I.hbit]
    by_cases hbb : b' = bucketOf k s.n
    · rw [if_pos hbb, if_pos hbb]
    · rw [if_neg hbb, if_neg hbb]
      exact h.bits_ok b'
  · intro b' hb' hne
    rw [I.hn] at hb' ⊢
    obtain ⟨l', hc, hnd', hbk⟩ := h.chains b' hb'
    exact ⟨l', I.chain_other h hb' hne hc, hnd', hbk⟩
  · show s'.headOf (bucketOf k s.n) = koff
    rw [I.hhead, if_pos rfl]
  · exact ⟨rfl, I.hk0, ⟨ksz, I.used_new⟩, segFrom_congr hsame hseg⟩
  · rw [List.nil_append, List.map_cons]
    refine List.nodup_cons.2 ⟨?_, hnd⟩
    intro hin
    obtain ⟨p, hp, e⟩ := List.mem_map.1 hin
    obtain ⟨sz, hup⟩ := hused p hp
    rw [e, I.hkfresh] at hup
    cases hup
  · intro p hp
    rw [I.hn]
    rw [List.nil_append] at hp
    rcases List.mem_cons.1 hp with rfl | hp
    · rfl
    · exact (hb p hp).1
  · intro o sz r hu1
    rw [I.hn, List.nil_append]
    rcases I.cases hu1 with ⟨rfl, _, rfl⟩ | ⟨_, hu0⟩
    · rw [if_pos rfl]
      exact List.mem_cons_self ..
    · obtain ⟨l', hc, hin⟩ := h.on_chain o sz r hu0 (kused_ne_zero h.kwf hu0)
      by_cases hbb : bucketOf r.key s.n = bucketOf k s.n
      · rw [if_pos hbb]
        rw [hbb, hch] at hc
        injection hc with e
        subst e
        exact List.mem_cons_of_mem _ hin
      · rw [if_neg hbb]
        exact ⟨l', I.chain_other h (bucketOf_lt _ h.npos) hbb hc, hin⟩
  · rw [I.hcount, I.huc]
    exact congrArg (· + 1) (h.count_ok.trans (usedCount_eq _).symm)

theorem Ins.done (I : Ins s s' k v koff ksz voff vsz) (h : Inv kt s) (hk : KeyOK kt k)
    (hnf : ∀ o sz r, s.kf.used o = some (sz, r) → r.key ≠ k) :
    Inv kt s' ∧ Spec.Equiv (abs s') (Spec.put (abs s) k v) := by
  obtain ⟨l, hch, _, _⟩ := h.chains _ (bucketOf_lt k h.npos)
  have hi : Inv kt s' := (I.mid h hk hnf hch).toInv
  exact ⟨hi, equiv_put_of_hasKV h hi k v voff vsz (I.hasKV hnf) I.val_new
    (fun k' vo _ hkv => I.vals h k' vo hkv)⟩

end
end Put
end Store
end Abyss
