import Abyss.Lemmas.DelCut
/-!
# The unlink step of `del`: afterwards the invariant holds except for the unlinked record
-/
namespace Abyss
namespace Store
namespace Del

/-- the unlink step of `del` -/
def unlinkStep (b : Nat) (s : Store) (prev next : Nat) : Option Store :=
  if prev = 0 then some (s.writeHead b next) else
  match s.kf.get prev with
  | some (.used _ pr) =>
    let pr' := { pr with next := next }
    match RecFile.rewrite keyCfg s.kf prev (keyNeed pr') pr' with
    | none => none
    | some (p', kf') =>
      let s' := { s with kf := kf' }
      if p' = prev then some s' else relink b (s'.kf.slots.length + 1) s' prev p'
  | _ => none

theorem chain_writeHead (s : Store) (b off b' : Nat) :
    (s.writeHead b off).chain b' =
      chainFrom s.kf (s.kf.slots.length + 1) (if b' = b then off else s.headOf b') := by
  unfold chain
  rw [headOf_writeHead]
  rfl

/-- case (a): the victim is the first record of its chain -/
theorem unlink_head {kt : KeyType} {s : Store} {b o : Nat} {r : KeyRec} {l2 : List (Nat × KeyRec)}
    (h : Inv kt s) (hb : b < s.n) (hc : s.chain b = some ((o, r) :: l2)) :
    InvX kt (s.writeHead b r.next) o := by
  obtain ⟨l, hcl, hn, hbk⟩ := h.chains b hb
  rw [hc] at hcl; cases hcl
  obtain ⟨hhd, ho0, ⟨sz, ho⟩, hs2⟩ := chainFrom_seg _ _ _ _ hc
  have hrb : bucketOf r.key s.n = b := (hbk (o, r) (by simp)).1
  have hlen := chain_length_le h hb hc
  have hc2 : chainFrom s.kf (s.kf.slots.length + 1) r.next = some l2 :=
    chainFrom_of_seg s.kf r.next l2 hs2 _ (by simp at hlen; omega)
  have hn' : o ∉ l2.map (·.1) ∧ (l2.map (·.1)).Nodup := by
    simpa [List.nodup_cons] using hn
  have hl2o : ∀ p ∈ l2, p.1 ≠ o := by
    intro p hp e
    exact hn'.1 (List.mem_map.mpr ⟨p, hp, e⟩)
  refine
    { npos := h.npos, kwf := h.kwf, vwf := h.vwf, heads_lt := ?_, bits_ok := ?_,
      chains := ?_, on_chain := ?_, keys_ok := h.keys_ok, keys_inj := h.keys_inj,
      val_used := h.val_used, val_inj := h.val_inj, val_owned := h.val_owned, count_ok := h.count_ok }
  · intro b' hb'
    rw [headOf_writeHead]
    have : b' ≠ b := by
      have : (s.writeHead b r.next).n = s.n := rfl
      omega
    rw [if_neg this]
    exact h.heads_lt b' hb'
  · intro b'
    rw [headOf_writeHead, bitOf_writeHead]
    by_cases e : b' = b
    · simp [e]
    · simp only [if_neg e]; exact h.bits_ok b'
  · intro b' hb'
    rw [chain_writeHead]
    by_cases e : b' = b
    · rw [if_pos e]
      subst e
      exact ⟨l2, hc2, hn'.2, fun p hp => ⟨(hbk p (List.mem_cons_of_mem _ hp)).1, hl2o p hp⟩⟩
    · rw [if_neg e]
      obtain ⟨l, hl, hnl, hbl⟩ := h.chains b' hb'
      have hne' : b ≠ b' := fun e' => e e'.symm
      exact ⟨l, hl, hnl, fun p hp =>
        ⟨(hbl p hp).1, chain_mem_ne h hb' hl ho (by rw [hrb]; exact hne') p hp⟩⟩
  · intro o1 sz1 r1 hu1 hne1
    have ho10 : o1 ≠ 0 := used_ne_zero keyCfg_ok h.kwf hu1
    obtain ⟨l, hl, hml⟩ := h.on_chain o1 sz1 r1 hu1 ho10
    rw [chain_writeHead]
    by_cases hbb : bucketOf r1.key s.n = b
    · have : bucketOf r1.key (s.writeHead b r.next).n = b := hbb
      rw [if_pos this]
      rw [hbb, hc] at hl
      cases hl
      rcases List.mem_cons.mp hml with e | hml
      · cases e; exact absurd rfl hne1
      · exact ⟨l2, hc2, hml⟩
    · have : ¬ bucketOf r1.key (s.writeHead b r.next).n = b := hbb
      rw [if_neg this]
      exact ⟨l, hl, hml⟩

/-- case (b): the predecessor was rewritten in place -/
theorem invX_of_cut_inplace {kt : KeyType} {s : Store} {f' : RecFile KeyRec} {b o po : Nat}
    {pr pr' : KeyRec} {l1 l2 : List (Nat × KeyRec)}
    (h : Inv kt s) (hb : b < s.n) (R : Rewr s.kf f' po po pr pr')
    (C : ChainCut { s with kf := f' } o b po po l1 l2) :
    InvX kt { s with kf := f' } o := by
  obtain ⟨k1, k2, k3, k4, k5, k6⟩ := R.recs h
  have hseg : segFrom f' (l1 ++ l2) (s.headOf b) 0 :=
    (segFrom_append _ _ _ _ _).mpr ⟨po, C.seg, chainFrom_seg _ _ _ _ C.tail.2⟩
  have hcb : chainFrom f' (f'.slots.length + 1) (s.headOf b) = some (l1 ++ l2) := by
    refine chainFrom_of_seg f' _ _ hseg _ ?_
    have := seg_length_le hseg C.nodup
    omega
  refine
    { npos := h.npos, kwf := R.wf, vwf := h.vwf, heads_lt := h.heads_lt, bits_ok := h.bits_ok,
      chains := ?_, on_chain := ?_, keys_ok := k1, keys_inj := k2,
      val_used := k3, val_inj := k4, val_owned := k5, count_ok := (count_ok_iff _).mpr k6 }
  · intro b' hb'
    by_cases e : b' = b
    · subst e
      exact ⟨l1 ++ l2, hcb, C.nodup, C.bucket⟩
    · exact C.chains_other b' hb' e
  · intro o1 sz1 r1 hu1 hne1
    have := C.on_chain o1 sz1 r1 hu1 hne1
    by_cases hbb : bucketOf r1.key s.n = b
    · have hbb' : bucketOf r1.key ({ s with kf := f' } : Store).n = b := hbb
      rw [if_pos hbb'] at this
      refine ⟨l1 ++ l2, ?_, this⟩
      rw [hbb']; exact hcb
    · have hbb' : ¬ bucketOf r1.key ({ s with kf := f' } : Store).n = b := hbb
      rw [if_neg hbb'] at this
      exact this

/-- case (c): the predecessor moved; the state is `Broken` -/
theorem broken_of_cut {kt : KeyType} {s : Store} {f' : RecFile KeyRec} {b o po p' : Nat}
    {pr pr' : KeyRec} {l1 l2 : List (Nat × KeyRec)}
    (h : Inv kt s) (hb : b < s.n) (R : Rewr s.kf f' po p' pr pr')
    (C : ChainCut { s with kf := f' } o b po p' l1 l2)
    (hpo0 : po ≠ 0) (hfree : f'.used po = none) :
    Broken kt { s with kf := f' } o b po p' l1 l2 := by
  obtain ⟨k1, k2, k3, k4, k5, k6⟩ := R.recs h
  exact
    { npos := h.npos, kwf := R.wf, vwf := h.vwf, heads_lt := h.heads_lt, bits_ok := h.bits_ok,
      b_lt := hb, chains_other := C.chains_other, seg := C.seg, old_free := ⟨hpo0, hfree⟩,
      x_used := fun _ => C.x_used, tail := C.tail, nodup := C.nodup, bucket := C.bucket,
      on_chain := C.on_chain, keys_ok := k1, keys_inj := k2,
      val_used := k3, val_inj := k4, val_owned := k5, count_ok := (count_ok_iff _).mpr k6 }

/-- The unlink step never fails; afterwards the invariant holds with the victim `o` as the
exception, the victim record is still there, and nothing else changed. -/
theorem unlink_spec {kt : KeyType} {s : Store} {b o sz : Nat} {r : KeyRec} {l1 l2 : List (Nat × KeyRec)}
    (h : Inv kt s) (hb : b < s.n) (hc : s.chain b = some (l1 ++ (o, r) :: l2))
    (hu : s.kf.used o = some (sz, r)) :
    ∃ s1, unlinkStep b s (((l1.getLast?).map (·.1)).getD 0) r.next = some s1 ∧ InvX kt s1 o ∧
      s1.vf = s.vf ∧ s1.count = s.count ∧ s1.n = s.n ∧ s1.kf.used o = some (sz, r) ∧
      ∀ k vo, HasKV s1 k vo ↔ HasKV s k vo := by
  rcases List.eq_nil_or_concat l1 with rfl | ⟨l1', ⟨po, pr⟩, rfl⟩
  · -- (a)
    refine ⟨s.writeHead b r.next, by simp [unlinkStep], unlink_head h hb hc, rfl, rfl, rfl, hu, ?_⟩
    intro k vo
    exact Iff.rfl
  · have hc' : s.chain b = some (l1' ++ (po, pr) :: (o, r) :: l2) := by
      rw [hc]; simp
    have hseg := chainFrom_seg _ _ _ _ hc'
    rw [segFrom_append] at hseg
    obtain ⟨mid, hs1, hmid, hpo0, ⟨psz, hpo⟩, hnx, -⟩ := hseg
    have hmid' : mid = po := hmid
    subst hmid'
    let pr' : KeyRec := { pr with next := r.next }
    obtain ⟨p', f', hrw, R, hcase⟩ := rewr_of_rewrite h.kwf hpo pr' rfl rfl
    have C := chainCut_of_rewr h hb hc' R rfl
    have hprev : ((((l1'.concat (mid, pr)).getLast?).map (·.1)).getD 0) = mid := by simp
    have hstep : unlinkStep b s mid r.next =
        if p' = mid then some { s with kf := f' }
        else relink b (f'.slots.length + 1) { s with kf := f' } mid p' := by
      unfold unlinkStep
      rw [if_neg hpo0, used_eq_some.mp hpo]
      simp only []
      rw [hrw]
    rw [hprev, hstep]
    obtain ⟨sz', r', hux⟩ := C.x_used
    obtain ⟨_, _, hpoo, hl1, _, _⟩ :=
      nodup_mid (l1 := l1') (l2 := l2) (po := mid) (o := o) (pr := pr) (r := r) (by
        obtain ⟨l, hcl, hn, _⟩ := h.chains b hb
        rw [hc'] at hcl; cases hcl; exact hn)
    have hux' : f'.used o = some (sz, r) := (R.fwd _ _ _ hu (fun e => hpoo e.symm)).2
    rcases hcase with e | ⟨hne, _, _, hfree⟩
    · -- (b)
      subst e
      rw [if_pos rfl]
      exact ⟨_, rfl, invX_of_cut_inplace h hb R C, rfl, rfl, rfl, hux', R.hasKV s rfl⟩
    · -- (c)
      rw [if_neg hne]
      have hB := broken_of_cut h hb R C hpo0 hfree
      have hlen : l1'.length < f'.slots.length + 1 := by
        have hnd : (l1'.map (·.1)).Nodup := by
          have := C.nodup
          rw [List.map_append] at this
          exact (List.nodup_append.mp this).1
        have := seg_length_le C.seg hnd
        have e : ({ s with kf := f' } : Store).kf.slots.length = f'.slots.length := rfl
        omega
      obtain ⟨s1, hrel, hinv, hvf, hcnt, hn, hkv, hkeep⟩ := relink_spec hB (f'.slots.length + 1) hlen
      refine ⟨s1, hrel, hinv, hvf, hcnt, hn, hkeep o sz r hux' (fun p hp => (hl1 p hp).2), ?_⟩
      intro k vo
      rw [hkv]
      exact R.hasKV s rfl k vo

end Del
end Store
end Abyss
