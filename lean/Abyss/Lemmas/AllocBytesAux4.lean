import Abyss.Lemmas.AllocBytesAux3
/-!
# Byte-level allocator, part 4: the generated functions on the image of a record file

Each lemma runs one generated function (or one block of a generated function) on
`recImage c sig2 rs f` and gives the image of the changed record file.
-/
namespace Abyss
open Vu64 FileM RecFile
variable {α : Type}

/-- the renderer writes a free slot as size, zero key length, link, zeros -/
def FreeForm (rs : Slot α → List Nat) : Prop :=
  ∀ sz nx, rs (.free sz nx) = padTo sz (freeContent sz nx)

/-- the fields of every free slot fit -/
def FreeOK (f : RecFile α) : Prop :=
  ∀ o sz nx, f.get o = some (.free sz nx) → 8 ∣ sz ∧ 16 ≤ sz ∧ sz < 2^32 ∧ nx < 2^64

theorem not_beq_zero {x : Nat} (h : x ≠ 0) : (!(x == 0)) = true := by
  simp only [Bool.not_eq_eq_eq_not, Bool.not_true, beq_eq_false_iff_ne, ne_eq]; exact h

theorem not_beq_zero_self : ¬ ((!((0 : Nat) == 0)) = true) := by decide

section
variable {c : FileCfg} {sig2 : List Nat} {rs : Slot α → List Nat} {f : RecFile α}

theorem free_render_length (hff : FreeForm rs) (sz nx : Nat) (h16 : 16 ≤ sz) (h32 : sz < 2^32) :
    (rs (.free sz nx)).length = (Slot.free sz nx : Slot α).size := by
  rw [hff, padTo_length _ _ (by have := freeContent_len_le14 sz nx h32; omega)]; rfl

theorem slot_render_length (lay : Lay c sig2 rs f) {o : Nat} {s : Slot α} (hg : f.get o = some s) :
    (rs s).length = s.size := lay.slot_len (o, s) (aget_mem _ _ _ hg)

theorem slot_off_le (lay : Lay c sig2 rs f) {o : Nat} {s : Slot α} (hg : f.get o = some s) :
    o + s.size ≤ (recImage c sig2 rs f).length := by
  rw [image_length lay]; exact (lay.tiled.bounds hg).2.1

/-- step 2, read -/
theorem readHead_img (lay : Lay c sig2 rs f) (hc : CfgOK c) (size : Nat)
    (hoff : Gen.freePieceListOffsetOfHeader c.freeOffsets c.sizeAry size = c.first + 8 * headIdx c size)
    (hlt : ∀ h ∈ f.heads, h < 2^64) (pos : Nat) :
    ∃ pos', Gen.readFreePieceOffsetOnHeader c size ⟨recImage c sig2 rs f, pos⟩ =
      some (headOf c f size, ⟨recImage c sig2 rs f, pos'⟩) := by
  have hi := hc.idx_lt size
  obtain ⟨P, Q, hP, e1, _⟩ := image_head lay (headIdx c size) hi
  have hh : headOf c f size < 2^64 := by
    unfold headOf
    have hi' : headIdx c size < f.heads.length := by rw [lay.heads_len]; exact hi
    rw [getD_of_lt _ _ hi']
    exact hlt _ (List.getElem_mem hi')
  exact ⟨_, readFreePieceOffsetOnHeader_spec c size pos e1 (by rw [hP, hoff]) hh⟩

/-- step 2, write -/
theorem writeHead_img (lay : Lay c sig2 rs f) (hc : CfgOK c) (size v : Nat)
    (hoff : Gen.freePieceListOffsetOfHeader c.freeOffsets c.sizeAry size = c.first + 8 * headIdx c size)
    (pos : Nat) :
    ∃ pos', Gen.writeFreePieceOffsetOnHeader c size v ⟨recImage c sig2 rs f, pos⟩ =
      some ((), ⟨recImage c sig2 rs (setHead c f size v), pos'⟩) := by
  have hi := hc.idx_lt size
  obtain ⟨P, Q, hP, e1, e2⟩ := image_head lay (headIdx c size) hi
  refine ⟨P.length + 8, ?_⟩
  rw [writeFreePieceOffsetOnHeader_spec c size v pos e1 (by rw [hP, hoff])]
  have : recImage c sig2 rs (setHead c f size v) = P ++ le64 v ++ Q := e2 v
  rw [this]

/-- the bytes from the start of a free slot on -/
theorem free_drop_img (lay : Lay c sig2 rs f) (hff : FreeForm rs) {o sz nx : Nat}
    (hg : f.get o = some (.free sz nx)) :
    ∃ rest, (recImage c sig2 rs f).drop o = freeContent sz nx ++ rest := by
  obtain ⟨P, Q, hP, e1, _⟩ := image_slot lay hg
  refine ⟨zeros (sz - (freeContent sz nx).length) ++ Q, ?_⟩
  rw [e1, ← hP, drop_app_mid, hff]
  unfold padTo
  simp only [List.append_assoc]

/-- step 3 -/
theorem readFree_img (lay : Lay c sig2 rs f) (hff : FreeForm rs) (hfo : FreeOK f) {o sz nx : Nat}
    (hg : f.get o = some (.free sz nx)) (pos : Nat) :
    ∃ pos', Gen.readFreePieceSizeNext o ⟨recImage c sig2 rs f, pos⟩ =
      some ((sz, nx), ⟨recImage c sig2 rs f, pos'⟩) := by
  obtain ⟨h8, _, h32, hnx⟩ := hfo o sz nx hg
  obtain ⟨rest, hd⟩ := free_drop_img lay hff hg
  exact ⟨_, readFreePieceSizeNext_spec pos hd h8 h32 hnx⟩

/-- step 4: the slot at `o` is overwritten with a free slot of the same size -/
theorem makeFree_img {β : Type} (k : M β) (lay : Lay c sig2 rs f) (hff : FreeForm rs) {o sz : Nat}
    {s : Slot α} (hg : f.get o = some s) (hsz : s.size = sz) (h16 : 16 ≤ sz) (h32 : sz < 2^32) (nx : Nat) :
    (do Gen.writePieceSize sz
        Gen.writeKeyLen 0
        Gen.writeFreePieceOffset nx
        Gen.writeZeroToOffset (o + sz)
        k) ⟨recImage c sig2 rs f, o⟩ = k ⟨recImage c sig2 rs (f.set o (.free sz nx)), o + sz⟩ := by
  obtain ⟨P, Q, hP, e1, e2⟩ := image_slot lay hg
  have hl := slot_render_length lay hg
  rw [writeFreeSlot_spec k P (rs s) Q _ o sz nx e1 hP.symm (by rw [hl, hsz])
    (by have := freeContent_len_le14 sz nx h32; omega) h32, e2, hff]

/-- `write_piece_clear` on a whole slot: it becomes a free slot with link 0 -/
theorem clear_img (lay : Lay c sig2 rs f) (hff : FreeForm rs) {o sz : Nat}
    {s : Slot α} (hg : f.get o = some s) (hsz : s.size = sz) (h16 : 16 ≤ sz) (h32 : sz < 2^32) (pos : Nat) :
    Gen.writePieceClear o sz ⟨recImage c sig2 rs f, pos⟩ =
      some ((), ⟨recImage c sig2 rs (f.set o (.free sz 0)), o + sz⟩) := by
  obtain ⟨P, Q, hP, e1, e2⟩ := image_slot lay hg
  have hl := slot_render_length lay hg
  rw [writePieceClear_spec P (rs s) Q _ o sz pos e1 hP.symm (by rw [hl, hsz])
    (by have := encode_length_le5 (sz / 8) (by omega); omega) h32, e2, hff]

/-- relinking a predecessor: seek to it, skip its size and key length, overwrite its link -/
theorem relink_img (lay : Lay c sig2 rs f) (hff : FreeForm rs) (hfo : FreeOK f) {prev psz pnx : Nat}
    (hg : f.get prev = some (.free psz pnx)) (nx pos : Nat) :
    ∃ pos', (do let _ ← Gen.seekFromStart prev
                let _pieceSize ← Gen.readPieceSize
                let _keyLen ← Gen.readKeyLen
                Gen.writeFreePieceOffset nx
                pure ()) ⟨recImage c sig2 rs f, pos⟩ =
      some ((), ⟨recImage c sig2 rs (f.set prev (.free psz nx)), pos'⟩) := by
  obtain ⟨h8, h16, h32, hnx⟩ := hfo prev psz pnx hg
  obtain ⟨P, Q, hP, e1, e2⟩ := image_slot lay hg
  obtain ⟨rest, hd⟩ := free_drop_img lay hff hg
  obtain ⟨h1, h2, h3, hlen⟩ := free_fields hd
  refine ⟨prev + (encode (psz / 8)).length + 1 + (le64 nx).length, ?_⟩
  rw [bind_some (seekFromStart_spec prev _ pos (by omega)),
    bind_some (readPieceSize_spec h1 (by omega)),
    bind_some (readKeyLen_zero_spec h2),
    bind_some (writeFreePieceOffset_spec nx _ (by simp only; omega)), pure_apply]
  -- the link field inside the image
  have hfl := freeContent_len_le14 psz pnx h32
  rw [freeContent_len_enc] at hfl
  have hb : recImage c sig2 rs f = (P ++ encode (psz / 8) ++ [0]) ++ le64 pnx ++
      (zeros (psz - (freeContent psz pnx).length) ++ Q) := by
    rw [e1, hff]; unfold padTo freeContent; simp only [List.append_assoc]
  have hp : prev + (encode (psz / 8)).length + 1 = (P ++ encode (psz / 8) ++ [0]).length := by
    simp only [List.length_append, hP, List.length_cons, List.length_nil]
  rw [wr_app' (le64 nx) _ (le64 pnx) _ _ _ hb hp (by rw [le64_length, le64_length])]
  have : recImage c sig2 rs (f.set prev (.free psz nx)) = (P ++ encode (psz / 8) ++ [0]) ++ le64 nx ++
      (zeros (psz - (freeContent psz pnx).length) ++ Q) := by
    rw [e2, hff]; unfold padTo
    rw [freeContent_len_enc, freeContent_len_enc]
    unfold freeContent; simp only [List.append_assoc]
  rw [this]

theorem get_set_free_same_size {prev cur psz x y sz nx : Nat} (hgp : f.get prev = some (.free psz x))
    (hg : f.get cur = some (.free sz nx)) :
    ∃ s, (f.set prev (.free psz y)).get cur = some s ∧ s.size = sz := by
  by_cases hcp : cur = prev
  · subst hcp
    rw [hgp] at hg
    simp only [Option.some.injEq, Slot.free.injEq] at hg
    exact ⟨_, get_set_self _ _ _, hg.1⟩
  · exact ⟨_, (get_set_ne _ _ _ _ hcp).trans hg, rfl⟩

/-! ## the loops -/

/-- step 6: the loop of `count_of_free_piece_list` along a chain -/
theorem countLoop_img (lay : Lay c sig2 rs f) (hff : FreeForm rs) (hfo : FreeOK f) :
    ∀ (l : List Nat) (fuel cur n pos : Nat), IsChain f cur l → l.length < fuel →
    ∃ pos', Gen.countOfFreePieceListLoop fuel (n, cur) ⟨recImage c sig2 rs f, pos⟩ =
      some ((n + l.length, 0), ⟨recImage c sig2 rs f, pos'⟩) := by
  intro l
  induction l with
  | nil =>
    intro fuel cur n pos hc hf
    obtain ⟨fuel, rfl⟩ : ∃ k, fuel = k + 1 := ⟨fuel - 1, by simp only [List.length_nil] at hf; omega⟩
    have h0 : cur = 0 := hc
    subst h0
    refine ⟨pos, ?_⟩
    rw [Gen.countOfFreePieceListLoop, if_neg not_beq_zero_self]
    rfl
  | cons o l ih =>
    intro fuel cur n pos hc hf
    obtain ⟨fuel, rfl⟩ : ∃ k, fuel = k + 1 := ⟨fuel - 1, by omega⟩
    obtain ⟨h0, rfl, sz, nx, hg, hnx⟩ := hc
    simp only [List.length_cons, Nat.add_lt_add_iff_right] at hf
    obtain ⟨p1, r1⟩ := readFree_img lay hff hfo hg pos
    obtain ⟨p2, r2⟩ := ih fuel nx (n + 1) p1 hnx hf
    refine ⟨p2, ?_⟩
    rw [Gen.countOfFreePieceListLoop, if_pos (not_beq_zero h0), bind_some r1]
    simp only []
    rw [r2, List.length_cons]
    congr 3
    omega

/-- result of the loop of `pop_free_piece_list_large` as seen by its caller -/
def loopRet : Sum Nat (Nat × Nat) → Nat
  | .inl x => x
  | .inr (_, x) => x

/-- step 7: the first-fit loop of `pop_free_piece_list_large` along a chain is `popLarge` -/
theorem popLoop_img (lay : Lay c sig2 rs f) (hc : CfgOK c) (hff : FreeForm rs) (hfo : FreeOK f) (need : Nat)
    (hoff : Gen.freePieceListOffsetOfHeader c.freeOffsets c.sizeAry need = c.first + 8 * headIdx c need) :
    ∀ (l : List Nat) (fuel fuel' prev cur pos : Nat), IsChain f cur l → l.length < fuel → l.length < fuel' →
    (prev = 0 ∨ ∃ psz, f.get prev = some (.free psz cur)) →
    ∃ off f' pos' r, popLarge c need fuel' f prev cur = some (off, f') ∧
      Gen.popFreePieceListLargeLoop c need fuel (prev, cur) ⟨recImage c sig2 rs f, pos⟩ =
        some (r, ⟨recImage c sig2 rs f', pos'⟩) ∧ loopRet r = off := by
  intro l
  induction l with
  | nil =>
    intro fuel fuel' prev cur pos hch hf hf' _
    obtain ⟨fuel, rfl⟩ : ∃ k, fuel = k + 1 := ⟨fuel - 1, by simp only [List.length_nil] at hf; omega⟩
    obtain ⟨fuel', rfl⟩ : ∃ k, fuel' = k + 1 := ⟨fuel' - 1, by simp only [List.length_nil] at hf'; omega⟩
    have h0 : cur = 0 := hch
    subst h0
    refine ⟨0, f, pos, .inr (prev, 0), ?_, ?_, rfl⟩
    · simp only [popLarge, if_true]
    · rw [Gen.popFreePieceListLargeLoop, if_neg not_beq_zero_self]
      rfl
  | cons o l ih =>
    intro fuel fuel' prev cur pos hch hf hf' hprev
    obtain ⟨fuel, rfl⟩ : ∃ k, fuel = k + 1 := ⟨fuel - 1, by omega⟩
    obtain ⟨fuel', rfl⟩ : ∃ k, fuel' = k + 1 := ⟨fuel' - 1, by omega⟩
    obtain ⟨h0, rfl, sz, nx, hg, hnxc⟩ := hch
    simp only [List.length_cons, Nat.add_lt_add_iff_right] at hf hf'
    obtain ⟨h8, h16, h32, hnx⟩ := hfo o sz nx hg
    obtain ⟨rest, hd⟩ := free_drop_img lay hff hg
    obtain ⟨h1, h2, h3, hlen⟩ := free_fields hd
    -- the reads at `cur`
    have hblock : (do
          let pieceSize ← Gen.readPieceSize
          let _keyLen ← Gen.readKeyLen
          let pieceOffset ← Gen.readFreePieceOffset
          pure (pieceOffset, pieceSize)) ⟨recImage c sig2 rs f, o⟩ =
        some ((nx, sz), ⟨recImage c sig2 rs f, o + (encode (sz / 8)).length + 1 + 8⟩) := by
      rw [bind_some (readPieceSize_spec h1 (by omega)), bind_some (readKeyLen_zero_spec h2),
        bind_some (readFreePieceOffset_spec h3 hnx), pure_apply, Nat.div_mul_cancel h8]
    rw [Gen.popFreePieceListLargeLoop, if_pos (not_beq_zero h0),
      bind_some (seekFromStart_spec o _ pos (by omega)), bind_some hblock]
    simp only [decide_eq_true_eq]
    by_cases hn : need ≤ sz
    · rw [if_pos hn]
      by_cases hp : prev = 0
      · subst hp
        rw [if_neg not_beq_zero_self]
        obtain ⟨p1, r1⟩ := writeHead_img lay hc need nx hoff (o + (encode (sz / 8)).length + 1 + 8)
        have lay1 := lay.setHead need nx
        have hg1 : (setHead c f need nx).get o = some (.free sz nx) := hg
        have r2 := clear_img (sz := sz) lay1 hff hg1 rfl h16 h32 p1
        refine ⟨o, (setHead c f need nx).set o (.free sz 0), o + sz, .inl o, ?_, ?_, rfl⟩
        · simp only [popLarge, h0, if_false, hg, hn, if_true, ne_eq, not_true_eq_false]
        · rw [bind_some (show (do Gen.writeFreePieceOffsetOnHeader c need nx; pure ()) _ = some ((), _) from by
            rw [bind_some r1, pure_apply]), bind_some r2, pure_apply]
      · rw [if_pos (not_beq_zero hp)]
        obtain ⟨psz, hgp⟩ : ∃ psz, f.get prev = some (.free psz o) := by
          rcases hprev with e | e
          · exact absurd e hp
          · exact e
        obtain ⟨p1, r1⟩ := relink_img lay hff hfo hgp nx (o + (encode (sz / 8)).length + 1 + 8)
        obtain ⟨_, ph16, ph32, _⟩ := hfo prev psz o hgp
        have lay1 := lay.set_same (s' := .free psz nx) hgp rfl (free_render_length hff psz nx ph16 ph32)
        obtain ⟨s1, hg1, hs1⟩ := get_set_free_same_size (y := nx) hgp hg
        have r2 := clear_img lay1 hff hg1 hs1 h16 h32 p1
        refine ⟨o, (f.set prev (.free psz nx)).set o (.free sz 0), o + sz, .inl o, ?_, ?_, rfl⟩
        · simp only [popLarge, h0, if_false, hg, hn, if_true, ne_eq, hp, not_false_eq_true, hgp]
        · rw [bind_some r1, bind_some r2, pure_apply]
    · rw [if_neg hn]
      obtain ⟨off, f', pos', r, e1, e2, e3⟩ := ih fuel fuel' o nx (o + (encode (sz / 8)).length + 1 + 8) hnxc hf hf'
        (Or.inr ⟨sz, hg⟩)
      refine ⟨off, f', pos', r, ?_, e2, e3⟩
      simp only [popLarge, h0, if_false, hg, hn, e1]

end
end Abyss
