import Abyss.Gen.Engine
import Abyss.Open
import Abyss.Lemmas.EngineDefs
import Abyss.Lemmas.EngineReadAux1
import Abyss.Lemmas.KeyGenL
import Abyss.Props.C13
/-!
# Helpers for `OpenBytes.lean`, part 1: the header checks of existing files

`check_keyrecf_header` / `check_valrecf_header` / `check_htxf_header` read with `readPad` (no `UnexpectedEof`:
zero padding beyond the end), the model `recHeaderAccepts` / `htxHeaderAccepts` compares plain `take`s.  They
agree on every file: a read that was padded leaves the cursor beyond the end, and the next read fails there;
the padding of the last field (a little-endian number) does not change its value.
-/
namespace Abyss
open Store FileM

namespace FileM

theorem bind_none {α β : Type} {m : M α} {f : α → M β} {s : FSt}
    (h : m s = none) : (m >>= f) s = none := by
  show (match m s with | none => none | some (a, s') => f a s') = _
  rw [h]

theorem fail_apply {α : Type} (s : FSt) : (FileM.fail : M α) s = none := rfl

/-- `assert!(c)` that holds -/
theorem guard_pass {β : Type} (c : Bool) (k : Unit → M β) (s : FSt) (h : c = true) :
    ((if (!c) = true then FileM.fail else pure ()) >>= k) s = k () s := by
  subst h
  rfl

/-- `assert!(c)` that fails -/
theorem guard_fail {β : Type} (c : Bool) (k : Unit → M β) (s : FSt) (h : c = false) :
    ((if (!c) = true then FileM.fail else pure ()) >>= k) s = none := by
  subst h
  rfl

end FileM

/-! ## padded reads -/

/-- a padded read that lies inside the file is the plain `take` -/
theorem readPad_inside (n : Nat) (b : List Nat) (p : Nat) (h : p + n ≤ b.length) :
    FileM.readPad n ⟨b, p⟩ = some ((b.drop p).take n, ⟨b, p + n⟩) := by
  unfold FileM.readPad
  simp only
  rw [if_pos (by omega)]
  have : ((b.drop p).take n).length = n := by
    rw [List.length_take, List.length_drop]; omega
  rw [this, Nat.sub_self, List.replicate_zero, List.append_nil]

/-- a padded read anywhere up to the end of the file: some bytes, the cursor moved by `n` -/
theorem readPad_some (n : Nat) (b : List Nat) (p : Nat) (h : p ≤ b.length) :
    ∃ bs, FileM.readPad n ⟨b, p⟩ = some (bs, ⟨b, p + n⟩) := by
  unfold FileM.readPad
  simp only
  rw [if_pos h]
  exact ⟨_, rfl⟩

/-- a cursor beyond the end: the read fails -/
theorem readPad_beyond (n : Nat) (b : List Nat) (p : Nat) (h : b.length < p) :
    FileM.readPad n ⟨b, p⟩ = none := by
  unfold FileM.readPad
  simp only
  rw [if_neg (by omega)]

/-- `read_u64_le` anywhere up to the end of the file: the padding does not change the value -/
theorem readU64Le_pad (b : List Nat) (p : Nat) (h : p ≤ b.length) :
    FileM.readU64Le ⟨b, p⟩ = some (Vu64.ofLeBytes ((b.drop p).take 8), ⟨b, p + 8⟩) := by
  unfold FileM.readU64Le
  have : FileM.readPad 8 ⟨b, p⟩ = some ((b.drop p).take 8 ++
      List.replicate (8 - ((b.drop p).take 8).length) 0, ⟨b, p + 8⟩) := by
    unfold FileM.readPad
    simp only
    rw [if_pos h]
  rw [bind_some this, pure_apply, Gen.ofLeBytes_append_zeros]

theorem readU64Le_beyond (b : List Nat) (p : Nat) (h : b.length < p) :
    FileM.readU64Le ⟨b, p⟩ = none := by
  unfold FileM.readU64Le
  exact FileM.bind_none (readPad_beyond 8 b p h)

/-! ## the three header checks have one shape -/

/-- the common shape of `check_keyrecf_header`, `check_valrecf_header`, `check_htxf_header` -/
def chk3 (sig1 sig2 : List Nat) (ok : Nat → Bool) : M Unit := do
  let _ ← Gen.seekFromStart 0
  let s1 ← FileM.readPad 8
  (if (!(s1 == sig1)) then FileM.fail else pure ())
  let s2 ← FileM.readPad 8
  (if (!(s2 == sig2)) then FileM.fail else pure ())
  let r ← FileM.readU64Le
  (if (!(ok r)) then FileM.fail else pure ())
  pure ()

theorem keyCheckHeader_eq (sig2 : List Nat) : Gen.keyCheckHeader sig2 = chk3 Gen.keySig1 sig2 (· == 0) := rfl
theorem valCheckHeader_eq (sig2 : List Nat) : Gen.valCheckHeader sig2 = chk3 Gen.valSig1 sig2 (· == 0) := rfl
theorem htxCheckHeader_eq (sig2 : List Nat) : Gen.htxCheckHeader sig2 = chk3 Gen.htxSig1 sig2 (· != 0) := rfl

/-- the model's check of the same shape -/
def acc3 (sig1 sig2 : List Nat) (ok : Nat → Bool) (file : List Nat) : Bool :=
  file.take 8 == sig1 && (file.drop 8).take 8 == sig2 && ok (Vu64.ofLeBytes ((file.drop 16).take 8))

theorem beq_false_of_length {a b : List Nat} (h : a.length ≠ b.length) : (a == b) = false := by
  cases hab : a == b with
  | false => rfl
  | true =>
    exfalso
    apply h
    rw [beq_iff_eq.mp hab]

/-- the padded checks of the code = the plain checks of the model, on every file -/
theorem chk3_spec (sig1 sig2 : List Nat) (ok : Nat → Bool) (h1 : sig1.length = 8) (h2 : sig2.length = 8)
    (file : List Nat) (p : Nat) :
    chk3 sig1 sig2 ok ⟨file, p⟩ = if acc3 sig1 sig2 ok file = true then some ((), ⟨file, 24⟩) else none := by
  unfold chk3 acc3
  rw [bind_some (seekFromStart_spec 0 file p (Nat.zero_le _))]
  by_cases l8 : 8 ≤ file.length
  · -- the first read is inside the file
    rw [bind_some (readPad_inside 8 file 0 (by omega)), List.drop_zero]
    cases e1 : file.take 8 == sig1 with
    | false =>
      rw [FileM.guard_fail _ _ _ rfl]
      simp only [Bool.false_and, Bool.false_eq_true, if_false]
    | true =>
      rw [FileM.guard_pass _ _ _ rfl]
      by_cases l16 : 16 ≤ file.length
      · rw [bind_some (readPad_inside 8 file (0 + 8) (by omega))]
        cases e2 : (file.drop (0 + 8)).take 8 == sig2 with
        | false =>
          rw [FileM.guard_fail _ _ _ rfl]
          have e2' : ((file.drop 8).take 8 == sig2) = false := e2
          simp only [Bool.and_false, Bool.false_and, Bool.false_eq_true, if_false]
        | true =>
          rw [FileM.guard_pass _ _ _ rfl]
          have e2' : ((file.drop 8).take 8 == sig2) = true := e2
          rw [bind_some (readU64Le_pad file (0 + 8 + 8) (by omega))]
          simp only [Bool.true_and]
          cases e3 : ok (Vu64.ofLeBytes ((file.drop (0 + 8 + 8)).take 8)) with
          | false =>
            rw [FileM.guard_fail _ _ _ rfl]
            have e3' : ok (Vu64.ofLeBytes ((file.drop 16).take 8)) = false := e3
            simp only [Bool.false_eq_true, if_false]
          | true =>
            rw [FileM.guard_pass _ _ _ rfl]
            have e3' : ok (Vu64.ofLeBytes ((file.drop 16).take 8)) = true := e3
            simp only [if_true]
            rfl
      · -- the second read is padded: the model refuses, the code fails at the third read at the latest
        have e2 : ((file.drop 8).take 8 == sig2) = false := by
          apply beq_false_of_length
          rw [List.length_take, List.length_drop, h2]; omega
        simp only [e2, Bool.and_false, Bool.false_and, Bool.false_eq_true, if_false]
        obtain ⟨bs, hbs⟩ := readPad_some 8 file (0 + 8) (by omega)
        rw [bind_some hbs]
        cases e2c : bs == sig2 with
        | false => rw [FileM.guard_fail _ _ _ rfl]
        | true =>
          rw [FileM.guard_pass _ _ _ rfl]
          exact FileM.bind_none (readU64Le_beyond file (0 + 8 + 8) (by omega))
  · -- the first read is padded: the model refuses, the code fails at the second read at the latest
    have e1 : (file.take 8 == sig1) = false := by
      apply beq_false_of_length
      rw [List.length_take, h1]; omega
    simp only [e1, Bool.false_and, Bool.false_eq_true, if_false]
    obtain ⟨bs, hbs⟩ := readPad_some 8 file 0 (Nat.zero_le _)
    rw [bind_some hbs]
    cases e1c : bs == sig1 with
    | false => rw [FileM.guard_fail _ _ _ rfl]
    | true =>
      rw [FileM.guard_pass _ _ _ rfl]
      exact FileM.bind_none (readPad_beyond 8 file (0 + 8) (by omega))

/-- an accepted file has its 24 header bytes … at least the first 16 -/
theorem acc3_length {sig1 sig2 : List Nat} {ok : Nat → Bool} (h2 : sig2.length = 8)
    {file : List Nat} (h : acc3 sig1 sig2 ok file = true) : 16 ≤ file.length := by
  unfold acc3 at h
  simp only [Bool.and_eq_true, beq_iff_eq] at h
  have := congrArg List.length h.1.2
  rw [List.length_take, List.length_drop, h2] at this
  omega

theorem recHeaderAccepts_eq (sig1 : List Nat) (kt : KeyType) (file : List Nat) :
    recHeaderAccepts sig1 kt file = acc3 sig1 kt.sig (· == 0) file := rfl

theorem htxHeaderAccepts_eq (kt : KeyType) (file : List Nat) :
    htxHeaderAccepts kt file = acc3 Gen.htxSig1 kt.sig (· != 0) file := rfl

/-! ## `open_with_params` of the three files on a non-empty file -/

theorem length_beq_zero {file : List Nat} (h : file ≠ []) : (file.length == 0) = false := by
  cases file with
  | nil => exact absurd rfl h
  | cons a l => rfl

theorem keyOpen_existing (kt : KeyType) (file : List Nat) (h : file ≠ []) (p : Nat) :
    Gen.keyOpen kt.sig ⟨file, p⟩ =
      if recHeaderAccepts Gen.keySig1 kt file = true then some ((), ⟨file, 24⟩) else none := by
  unfold Gen.keyOpen
  rw [bind_some (seekToEnd_spec file p)]
  simp only [length_beq_zero h, Bool.false_eq_true, if_false]
  rw [bind_assoc_apply, keyCheckHeader_eq, recHeaderAccepts_eq]
  by_cases ha : acc3 Gen.keySig1 kt.sig (· == 0) file = true
  · have := chk3_spec Gen.keySig1 kt.sig (· == 0) rfl kt.sig_length file file.length
    rw [if_pos ha] at this
    rw [bind_some this, if_pos ha]
    rfl
  · have := chk3_spec Gen.keySig1 kt.sig (· == 0) rfl kt.sig_length file file.length
    rw [if_neg ha] at this
    rw [FileM.bind_none this, if_neg ha]

theorem valOpen_existing (kt : KeyType) (file : List Nat) (h : file ≠ []) (p : Nat) :
    Gen.valOpen kt.sig ⟨file, p⟩ =
      if recHeaderAccepts Gen.valSig1 kt file = true then some ((), ⟨file, 24⟩) else none := by
  unfold Gen.valOpen
  rw [bind_some (seekToEnd_spec file p)]
  simp only [length_beq_zero h, Bool.false_eq_true, if_false]
  rw [bind_assoc_apply, valCheckHeader_eq, recHeaderAccepts_eq]
  by_cases ha : acc3 Gen.valSig1 kt.sig (· == 0) file = true
  · have := chk3_spec Gen.valSig1 kt.sig (· == 0) rfl kt.sig_length file file.length
    rw [if_pos ha] at this
    rw [bind_some this, if_pos ha]
    rfl
  · have := chk3_spec Gen.valSig1 kt.sig (· == 0) rfl kt.sig_length file file.length
    rw [if_neg ha] at this
    rw [FileM.bind_none this, if_neg ha]

theorem htxReadHashBucketsSize_any (file : List Nat) (p : Nat) (h : 16 ≤ file.length) :
    Gen.htxReadHashBucketsSize ⟨file, p⟩ = some (Vu64.ofLeBytes ((file.drop 16).take 8), ⟨file, 24⟩) := by
  unfold Gen.htxReadHashBucketsSize
  have h16 : Gen.htxHtSizeOffset = 16 := rfl
  rw [h16, bind_some (seekFromStart_spec 16 file p h), readU64Le_pad file 16 h]

theorem htxOpen_existing (kt : KeyType) (file : List Nat) (h : file ≠ []) (prm : Gen.HashBucketsParam) (p : Nat) :
    Gen.htxOpen kt.sig prm ⟨file, p⟩ =
      if htxHeaderAccepts kt file = true then some (Vu64.ofLeBytes ((file.drop 16).take 8), ⟨file, 24⟩)
      else none := by
  unfold Gen.htxOpen
  rw [bind_some (seekToEnd_spec file p)]
  simp only [length_beq_zero h, Bool.false_eq_true, if_false]
  rw [htxCheckHeader_eq, htxHeaderAccepts_eq]
  by_cases ha : acc3 Gen.htxSig1 kt.sig (· != 0) file = true
  · have := chk3_spec Gen.htxSig1 kt.sig (· != 0) rfl kt.sig_length file file.length
    rw [if_pos ha] at this
    rw [bind_some this, if_pos ha,
      (htxReadHashBucketsSize_any file 24 (acc3_length kt.sig_length ha))]
  · have := chk3_spec Gen.htxSig1 kt.sig (· != 0) rfl kt.sig_length file file.length
    rw [if_neg ha] at this
    rw [FileM.bind_none this, if_neg ha]

end Abyss
