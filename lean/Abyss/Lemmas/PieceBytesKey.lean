import Abyss.Lemmas.AllocBytes
import Abyss.Props.C09
import Abyss.Lemmas.PieceBytesKeyAux2
import Abyss.Lemmas.RelinkL
/-!
# Piece-level I/O, byte level: the code generated from `val.rs` / `key.rs` refines the model

`Gen.valWritePiece` / `Gen.keyWritePiece` (`write_piece`: in place if the rounded need fits the old
slot, else free the old slot and allocate — pop a free slot, which keeps its own size, or append),
`Gen.valAddPiece` / `Gen.keyAddPiece`, `Gen.valDeletePiece` / `Gen.keyDeletePiece` and the record
readers are translated from the Rust source on every run. Run on the rendered image of a record
file they give the rendered image of what `RecFile.addPiece` / `rewrite` / `deletePiece` give, the
same offsets and sizes, and the readers return the stored record.
-/
namespace Abyss
open RecFile FileM

/-! ## key file -/

abbrev KOK (sig2 : List Nat) (f : RecFile KeyRec) : Prop := ByteOK keyCfg sig2 renderKeySlot f

/-- the field bounds of a key record (what `Store.Renderable` asks of every stored record) -/
def KeyRec.Fits (r : KeyRec) : Prop :=
  r.key.length < 2^31 ∧ r.valOff < 2^63 ∧ r.next < 2^63 ∧ 8 ∣ r.valOff ∧ 8 ∣ r.next


namespace PBK

/-! ### the generated `write_piece` of the key file, cut into its blocks -/

/-- where the new record goes: the popped free slot with its own size, or the end of the file -/
def pickSlot (need freePieceOffset : Nat) : M (Nat × Nat) :=
  if (!(freePieceOffset == 0)) then do
    let _ ← Gen.seekFromStart freePieceOffset
    let freePieceSize ← Gen.readPieceSize
    let _ ← Gen.seekFromStart freePieceOffset
    pure (freePieceOffset, freePieceSize)
  else do
    let tryVal ← Gen.seekToEnd
    pure (tryVal, need)

/-- the "add new" half of `write_piece` of the key file -/
def addNewBlock (c : FileCfg) (need : Nat) (key : List Nat) (vo nx : Nat) : M (Nat × Nat) := do
  let freePieceOffset ← Gen.popFreePieceList c need
  let (newPieceOffset, newPieceSize) ← pickSlot need freePieceOffset
  Gen.keyDatWritePieceOne newPieceOffset newPieceSize key vo nx
  pure (newPieceOffset, newPieceSize)

/-- the rounded size the generated code asks for -/
def codeNeed (c : FileCfg) (klen vo nx : Nat) : Nat :=
  Gen.roundup c.sizeAry
    (((Gen.keyEncodedPieceSize klen vo nx).1 + (Gen.keyEncodedPieceSize klen vo nx).2.1) % 2^32)

theorem keyWritePiece_new (c : FileCfg) (off : Nat) (key : List Nat) (vo nx : Nat) :
    Gen.keyWritePiece c off key vo nx true = addNewBlock c (codeNeed c key.length vo nx) key vo nx := rfl

theorem keyWritePiece_old (c : FileCfg) (off : Nat) (key : List Nat) (vo nx : Nat) :
    Gen.keyWritePiece c off key vo nx false = (do
      let oldPieceSize ← (do
        let _ ← Gen.seekFromStart off
        Gen.readPieceSize)
      if (decide (codeNeed c key.length vo nx ≤ oldPieceSize)) then
        let _ ← Gen.seekFromStart off
        Gen.keyDatWritePieceOne off oldPieceSize key vo nx
        pure (off, oldPieceSize)
      else
        Gen.pushFreePieceList c off oldPieceSize
        addNewBlock c (codeNeed c key.length vo nx) key vo nx) := rfl

/-- the size the code computes is `keyNeed` (the `as u32` sum does not wrap) -/
theorem codeNeed_eq (r : KeyRec) (hk : r.key.length < 2^31) :
    codeNeed keyCfg r.key.length r.valOff r.next = keyNeed r := by
  unfold codeNeed keyNeed Gen.keyEncodedPieceSize
  simp only
  have h1 := Sizes.encodedLen_le_nine ((Vu64.encodedLen (r.key.length % 2^32) + r.key.length % 2^32 +
    Vu64.encodedLen r.valOff + Vu64.encodedLen r.next + 7) / 8)
  have h2 := Sizes.encodedLen_le_nine (r.key.length % 2^32)
  have h3 := Sizes.encodedLen_le_nine r.valOff
  have h4 := Sizes.encodedLen_le_nine r.next
  have h5 : r.key.length % 2^32 = r.key.length := Nat.mod_eq_of_lt (by omega)
  rw [Nat.mod_eq_of_lt (a := _ + _) (by omega)]

/-! ### the key file: sizes, used slots on the image -/

section
variable {sig2 : List Nat} {f : RecFile KeyRec}

theorem legalSize_of_get (h : KOK sig2 f) {o : Nat} {s : Slot KeyRec} (hg : f.get o = some s) :
    LegalSize s.size := by
  obtain ⟨h8, h16⟩ := h.legal8 _ (h.wf.sizes o s hg)
  have hb : _ ∧ o + s.size ≤ f.end_ ∧ _ := h.wf.tiled.bounds hg
  have := h.end_lt
  exact ⟨h8, h16, by omega⟩

/-- a key record with bounded fields, rendered into a legal slot with room for it, fills the slot -/
theorem key_used_len {r : KeyRec} (hr : r.Fits) {sz : Nat} (hS : LegalSize sz) (hle : keyNeed r ≤ sz) :
    (renderKeySlot (.used sz r)).length = sz :=
  C09_renderKeySlot_length sz r hr.1 hr.2.1 hr.2.2.1 hS hle

/-- `KOK` of a well-formed file below 4 GiB whose used slots are old ones or hold a fitting record -/
theorem kok_of {f' : RecFile KeyRec} (h : KOK sig2 f) (w : WF keyCfg f') (he : f'.end_ < 2^32)
    (hu : ∀ o sz p, f'.get o = some (.used sz p) →
      f.get o = some (.used sz p) ∨ (keyNeed p ≤ sz ∧ p.Fits)) : KOK sig2 f' := by
  refine byteOK_of h w he ?_
  intro o sz p hg
  rcases hu o sz p hg with h1 | ⟨h1, h2⟩
  · exact used_len h h1
  · obtain ⟨h8, h16⟩ := h.legal8 _ (w.sizes o _ hg)
    have hb : _ ∧ o + (Slot.used sz p).size ≤ f'.end_ ∧ _ := w.tiled.bounds hg
    have hsz : (Slot.used sz p).size = sz := rfl
    rw [hsz] at hb h8 h16
    exact key_used_len h2 ⟨h8, h16, by omega⟩ h1

/-- the bytes from the start of a used key slot on -/
theorem used_drop_img (lay : Lay keyCfg sig2 renderKeySlot f) {o sz : Nat} {r : KeyRec}
    (hg : f.get o = some (.used sz r)) :
    ∃ rest, (recImage keyCfg sig2 renderKeySlot f).drop o = keyContent sz r ++ rest := by
  obtain ⟨P, Q, hP, e1, _⟩ := image_slot lay hg
  refine ⟨zeros (sz - (keyContent sz r).length) ++ Q, ?_⟩
  rw [e1, ← hP, drop_app_mid]
  show padTo sz (keyContent sz r) ++ Q = _
  unfold padTo
  simp only [List.append_assoc]

/-- seek to a slot and read its size -/
theorem readSize_img (lay : Lay keyCfg sig2 renderKeySlot f) {o : Nat} {s : Slot KeyRec}
    (hg : f.get o = some s) (h8 : 8 ∣ s.size) (h32 : s.size < 2^32) (pos : Nat) :
    ∃ pos', (do let _ ← Gen.seekFromStart o
                Gen.readPieceSize) ⟨recImage keyCfg sig2 renderKeySlot f, pos⟩ =
      some (s.size, ⟨recImage keyCfg sig2 renderKeySlot f, pos'⟩) := by
  have hle := slot_off_le lay hg
  have hd : ∃ rest, (recImage keyCfg sig2 renderKeySlot f).drop o = Vu64.encode (s.size / 8) ++ rest := by
    cases s with
    | used sz r =>
      obtain ⟨rest, hd⟩ := used_drop_img lay hg
      exact ⟨_, (key_fields hd).1⟩
    | free sz nx =>
      obtain ⟨rest, hd⟩ := free_drop_img lay (fun _ _ => rfl) hg
      exact ⟨_, (free_fields hd).1⟩
  obtain ⟨rest, hd⟩ := hd
  apply Exists.intro
  rw [bind_some (seekFromStart_spec o _ pos (by omega)), readPieceSize_spec hd (by omega),
    Nat.div_mul_cancel h8]

/-- `dat_write_piece_one` over a whole slot of the image -/
theorem writeSlot_img (lay : Lay keyCfg sig2 renderKeySlot f) {o : Nat} {s : Slot KeyRec}
    (hg : f.get o = some s) (hS : LegalSize s.size) {r : KeyRec} (hr : r.Fits) (hle : keyNeed r ≤ s.size)
    (pos : Nat) :
    Gen.keyDatWritePieceOne o s.size r.key r.valOff r.next ⟨recImage keyCfg sig2 renderKeySlot f, pos⟩ =
      some ((), ⟨recImage keyCfg sig2 renderKeySlot (f.set o (.used s.size r)), o + s.size⟩) := by
  have hoff := slot_off_le lay hg
  rw [keyDatWritePieceOne_spec o s.size r _ pos (by omega) (by have := hS.2.1; omega) hS.2.2
    (by have := hr.1; omega) (C09_key_fits_larger r hr.1 hr.2.1 hr.2.2.1 _ hS hle)]
  have := wr_slot_img lay hg (.used s.size r) (key_used_len hr hS hle)
  exact congrArg (fun x => some ((), x)) this

/-- `dat_write_piece_one` at the end of the image -/
theorem writeEnd_img (lay : Lay keyCfg sig2 renderKeySlot f) {r : KeyRec} (hr : r.Fits) (pos : Nat) :
    Gen.keyDatWritePieceOne f.end_ (keyNeed r) r.key r.valOff r.next
        ⟨recImage keyCfg sig2 renderKeySlot f, pos⟩ =
      some ((), ⟨recImage keyCfg sig2 renderKeySlot (f.set f.end_ (.used (keyNeed r) r)),
        f.end_ + keyNeed r⟩) := by
  have hS := C09_keyNeed_legal r hr.1 hr.2.1 hr.2.2.1
  rw [keyDatWritePieceOne_spec f.end_ (keyNeed r) r _ pos (by rw [image_length lay]; exact Nat.le_refl _)
    (by have := hS.2.1; omega) hS.2.2 (by have := hr.1; omega) (C09_key_fits r hr.1 hr.2.1 hr.2.2.1)]
  have := wr_end_img lay (.used (keyNeed r) r)
  rw [key_used_len hr hS (Nat.le_refl _)] at this
  exact congrArg (fun x => some ((), x)) this

/-- "add new": pop a free slot or take the end of the file, write the record there -/
theorem addNew_bytes (h : KOK sig2 f) (r : KeyRec) (hr : r.Fits) (pos : Nat) :
    ∃ off f' sz pos', addPiece keyCfg f (keyNeed r) r = some (off, f') ∧
      f'.get off = some (.used sz r) ∧
      addNewBlock keyCfg (keyNeed r) r.key r.valOff r.next ⟨recImage keyCfg sig2 renderKeySlot f, pos⟩ =
        some ((off, sz), ⟨recImage keyCfg sig2 renderKeySlot f', pos'⟩) ∧
      (f'.end_ < 2^32 → KOK sig2 f') := by
  have hn := Store.keyNeed_legal r
  have lay := h.lay
  obtain ⟨off, f1, p1, hpop, hrun⟩ := popFree_bytes h hn pos
  simp only [renderRecFile_eq_recImage] at hrun
  obtain ⟨off', f1', hpop', hok⟩ := popFree_spec keyCfg_ok h.wf hn
  rw [hpop] at hpop'
  simp only [Option.some.injEq, Prod.mk.injEq] at hpop'
  obtain ⟨rfl, rfl⟩ := hpop'
  -- `KOK` of the result, from the slot-level specification
  obtain ⟨offA, szA, fA, a1, a2, a3, a4, _, _, a7, _⟩ := addPiece_full keyCfg_ok h.wf hn r
  have hk : fA.end_ < 2^32 → KOK sig2 fA := fun he => kok_of h a2 he (by
    intro o sz p hg
    by_cases ho : o = offA
    · subst ho
      rw [used_eq_some.mp a4] at hg
      simp only [Option.some.injEq, Slot.used.injEq] at hg
      obtain ⟨rfl, rfl⟩ := hg
      exact Or.inr ⟨a3, hr⟩
    · exact Or.inl (used_eq_some.mp ((a7 o ho).symm.trans (used_eq_some.mpr hg))))
  rcases hok with ⟨rfl, rfl, _⟩ | ⟨h0, sz, nx, hg, hle, hg1, w, hu, _, _, hend⟩
  · have hadd : addPiece keyCfg f1 (keyNeed r) r = some (f1.end_, f1.set f1.end_ (.used (keyNeed r) r)) := by
      simp [addPiece, allocSlot, hpop]
    rw [hadd] at a1
    simp only [Option.some.injEq, Prod.mk.injEq] at a1
    obtain ⟨rfl, rfl⟩ := a1
    refine ⟨_, _, keyNeed r, f1.end_ + keyNeed r, hadd, get_set_self _ _ _, ?_, hk⟩
    have hpick : pickSlot (keyNeed r) 0 ⟨recImage keyCfg sig2 renderKeySlot f1, p1⟩ =
        some ((f1.end_, keyNeed r), ⟨recImage keyCfg sig2 renderKeySlot f1, f1.end_⟩) := by
      unfold pickSlot
      rw [if_neg not_beq_zero_self, bind_some (seekToEnd_spec _ _), pure_apply, image_length lay]
    unfold addNewBlock
    rw [bind_some hrun, bind_some hpick]
    simp only []
    rw [bind_some (writeEnd_img lay hr _), pure_apply]
  · have he1 : f1.end_ < 2^32 := by rw [hend]; exact h.end_lt
    have lay1 : Lay keyCfg sig2 renderKeySlot f1 := lay_of h w.tiled w.heads_len w.sizes he1 (by
      intro o s p hq
      exact used_len h (used_eq_some.mp ((hu o).symm.trans (used_eq_some.mpr hq))))
    have hsz : (Slot.free sz 0 : Slot KeyRec).size = sz := rfl
    obtain ⟨h8, h16⟩ := h.legal8 _ (w.sizes off _ hg1)
    have hb : _ ∧ off + (Slot.free sz 0 : Slot KeyRec).size ≤ f1.end_ ∧ _ := w.tiled.bounds hg1
    rw [hsz] at h8 h16 hb
    have hS : LegalSize (Slot.free sz 0 : Slot KeyRec).size := ⟨h8, h16, by omega⟩
    have hadd : addPiece keyCfg f (keyNeed r) r = some (off, f1.set off (.used sz r)) := by
      simp [addPiece, allocSlot, hpop, h0, hg1, Slot.size]
    rw [hadd] at a1
    simp only [Option.some.injEq, Prod.mk.injEq] at a1
    obtain ⟨rfl, rfl⟩ := a1
    refine ⟨_, _, sz, off + sz, hadd, get_set_self _ _ _, ?_, hk⟩
    obtain ⟨p2, r2⟩ := readSize_img lay1 hg1 h8 hS.2.2 p1
    have hoff := slot_off_le lay1 hg1
    have hw := writeSlot_img lay1 hg1 hS hr hle off
    rw [hsz] at r2 hoff hw
    have hpick : pickSlot (keyNeed r) off ⟨recImage keyCfg sig2 renderKeySlot f1, p1⟩ =
        some ((off, sz), ⟨recImage keyCfg sig2 renderKeySlot f1, off⟩) := by
      unfold pickSlot
      rw [if_pos (not_beq_zero h0)]
      simp only [← bind_assoc_apply]
      rw [bind_some r2, bind_some (seekFromStart_spec off _ p2 (by omega)), pure_apply]
    unfold addNewBlock
    rw [bind_some hrun, bind_some hpick]
    simp only []
    rw [bind_some hw, pure_apply]

end
end PBK
open PBK

theorem keyAddPiece_bytes {sig2 : List Nat} {f : RecFile KeyRec} (h : KOK sig2 f) (r : KeyRec) (hr : r.Fits) (pos : Nat) :
    ∃ off f' sz pos', addPiece keyCfg f (keyNeed r) r = some (off, f') ∧
      f'.get off = some (.used sz r) ∧
      Gen.keyAddPiece keyCfg r.key r.valOff r.next ⟨renderKeyFile sig2 f, pos⟩ =
        some ((off, sz), ⟨renderKeyFile sig2 f', pos'⟩) ∧
      (f'.end_ < 2^32 → KOK sig2 f') := by
  have e : Gen.keyAddPiece keyCfg r.key r.valOff r.next =
      addNewBlock keyCfg (keyNeed r) r.key r.valOff r.next := by
    unfold Gen.keyAddPiece
    rw [keyWritePiece_new, codeNeed_eq r hr.1]
  rw [e]
  exact addNew_bytes h r hr pos

theorem keyRewrite_bytes {sig2 : List Nat} {f : RecFile KeyRec} (h : KOK sig2 f) {off sz0 : Nat} {r0 : KeyRec}
    (hu : f.get off = some (.used sz0 r0)) (r : KeyRec) (hr : r.Fits) (pos : Nat) :
    ∃ off' f' sz pos', rewrite keyCfg f off (keyNeed r) r = some (off', f') ∧
      f'.get off' = some (.used sz r) ∧
      Gen.keyWritePiece keyCfg off r.key r.valOff r.next false ⟨renderKeyFile sig2 f, pos⟩ =
        some ((off', sz), ⟨renderKeyFile sig2 f', pos'⟩) ∧
      (f'.end_ < 2^32 → KOK sig2 f') := by
  have lay := h.lay
  have hS := legalSize_of_get h hu
  have hsz : (Slot.used sz0 r0).size = sz0 := rfl
  -- `KOK` of the result, from the slot-level specification
  obtain ⟨offR, szR, fR, b1, b2, b3, b4, b5, b6, _⟩ :=
    rewrite_spec keyCfg_ok h.wf (used_eq_some.mpr hu) (Store.keyNeed_legal r) r
  have hk : fR.end_ < 2^32 → KOK sig2 fR := fun he => kok_of h b2 he (by
    intro o sz p hg
    by_cases ho' : o = offR
    · subst ho'
      rw [used_eq_some.mp b3] at hg
      simp only [Option.some.injEq, Slot.used.injEq] at hg
      obtain ⟨rfl, rfl⟩ := hg
      exact Or.inr ⟨b4, hr⟩
    · by_cases ho : o = off
      · subst ho
        rcases b5 with ⟨e, _⟩ | ⟨_, _, _, e⟩
        · exact absurd e.symm ho'
        · rw [used_eq_some.mpr hg] at e; cases e
      · exact Or.inl (used_eq_some.mp ((b6 o ho ho').symm.trans (used_eq_some.mpr hg))))
  obtain ⟨p1, r1⟩ := readSize_img lay hu hS.1 hS.2.2 pos
  rw [hsz] at r1 hS
  show ∃ off' f' sz pos', _ ∧ _ ∧ Gen.keyWritePiece keyCfg off r.key r.valOff r.next false
    ⟨recImage keyCfg sig2 renderKeySlot f, pos⟩ = some ((off', sz), ⟨recImage keyCfg sig2 renderKeySlot f', pos'⟩) ∧ _
  rw [keyWritePiece_old, codeNeed_eq r hr.1]
  by_cases hle : keyNeed r ≤ sz0
  · have hrw : rewrite keyCfg f off (keyNeed r) r = some (off, f.set off (.used sz0 r)) := by
      simp [rewrite, hu, Slot.size, hle]
    rw [hrw] at b1
    simp only [Option.some.injEq, Prod.mk.injEq] at b1
    obtain ⟨rfl, rfl⟩ := b1
    refine ⟨_, _, sz0, off + sz0, hrw, get_set_self _ _ _, ?_, hk⟩
    have hoff := slot_off_le lay hu
    rw [bind_some r1]
    simp only [hle, decide_true, if_true]
    have hw : Gen.keyDatWritePieceOne off sz0 r.key r.valOff r.next ⟨recImage keyCfg sig2 renderKeySlot f, off⟩ =
        some ((), ⟨recImage keyCfg sig2 renderKeySlot (f.set off (.used sz0 r)), off + sz0⟩) :=
      writeSlot_img lay hu hS hr hle off
    rw [hsz] at hoff
    rw [bind_some (seekFromStart_spec off _ p1 (by omega)), bind_some hw, pure_apply]
  · obtain ⟨p2, r2⟩ := pushFree_bytes h hu p1
    simp only [renderRecFile_eq_recImage] at r2
    obtain ⟨off', f', sz, p3, c1, c2, c3, _⟩ := addNew_bytes (byteOK_pushFree h hu) r hr p2
    have hrw : rewrite keyCfg f off (keyNeed r) r = some (off', f') := by
      simp [rewrite, hu, Slot.size, hle, c1]
    rw [hrw] at b1
    simp only [Option.some.injEq, Prod.mk.injEq] at b1
    obtain ⟨rfl, rfl⟩ := b1
    refine ⟨_, _, sz, p3, hrw, c2, ?_, hk⟩
    rw [bind_some r1]
    simp only [hle, decide_false, Bool.false_eq_true, if_false]
    rw [bind_some r2, c3]

theorem keyDeletePiece_bytes {sig2 : List Nat} {f : RecFile KeyRec} (h : KOK sig2 f) {off sz0 : Nat} {r0 : KeyRec}
    (hu : f.get off = some (.used sz0 r0)) (pos : Nat) :
    ∃ f' pos', deletePiece keyCfg f off = some f' ∧
      Gen.keyDeletePiece keyCfg off ⟨renderKeyFile sig2 f, pos⟩ = some (sz0, ⟨renderKeyFile sig2 f', pos'⟩) ∧
      KOK sig2 f' := by
  have lay := h.lay
  have hS := legalSize_of_get h hu
  obtain ⟨p1, r1⟩ := readSize_img lay hu hS.1 hS.2.2 pos
  have hsz : (Slot.used sz0 r0).size = sz0 := rfl
  rw [hsz] at r1
  obtain ⟨p2, r2⟩ := pushFree_bytes h hu p1
  simp only [renderRecFile_eq_recImage] at r2
  refine ⟨pushFree keyCfg f off sz0, p2, by simp [deletePiece, hu, Slot.size], ?_, byteOK_pushFree h hu⟩
  show Gen.keyDeletePiece keyCfg off ⟨recImage keyCfg sig2 renderKeySlot f, pos⟩ =
    some (sz0, ⟨recImage keyCfg sig2 renderKeySlot (pushFree keyCfg f off sz0), p2⟩)
  unfold Gen.keyDeletePiece
  rw [bind_some r1, bind_some r2, pure_apply]

theorem keyRead_bytes {sig2 : List Nat} {f : RecFile KeyRec} (h : KOK sig2 f) {off sz : Nat} {r : KeyRec}
    (hu : f.get off = some (.used sz r)) (hr : r.Fits) (pos : Nat) :
    (∃ pos', Gen.keyReadPiece off ⟨renderKeyFile sig2 f, pos⟩ =
        some ((sz, r.key, r.valOff, r.next), ⟨renderKeyFile sig2 f, pos'⟩)) ∧
    (∃ pos', Gen.keyReadPieceOnlyKey off ⟨renderKeyFile sig2 f, pos⟩ = some (r.key, ⟨renderKeyFile sig2 f, pos'⟩)) ∧
    (∃ pos', Gen.keyReadPieceOnlyValueOffset off ⟨renderKeyFile sig2 f, pos⟩ = some (r.valOff, ⟨renderKeyFile sig2 f, pos'⟩)) ∧
    (∃ pos', Gen.keyReadPieceOnlyBucketNextOffset off ⟨renderKeyFile sig2 f, pos⟩ = some (r.next, ⟨renderKeyFile sig2 f, pos'⟩)) ∧
    (∃ pos', Gen.keyReadPieceOnlySize off ⟨renderKeyFile sig2 f, pos⟩ = some (sz, ⟨renderKeyFile sig2 f, pos'⟩)) := by
  have lay := h.lay
  have hS := legalSize_of_get h hu
  have hsz : (Slot.used sz r).size = sz := rfl
  rw [hsz] at hS
  obtain ⟨rest, hd⟩ := used_drop_img lay hu
  obtain ⟨hk, hv, hn, hv8, hn8⟩ := hr
  have hd' : (renderKeyFile sig2 f).drop off = keyContent sz r ++ rest := hd
  exact ⟨keyReadPiece_spec pos hd' hS.1 (by have := hS.2.2; omega) (by omega) (by omega) (by omega) hv8 hn8,
    keyReadPieceOnlyKey_spec pos hd' (by omega),
    keyReadPieceOnlyValueOffset_spec pos hd' (by omega) (by omega) hv8,
    keyReadPieceOnlyBucketNextOffset_spec pos hd' (by omega) (by omega) (by omega) hn8,
    ⟨_, keyReadPieceOnlySize_spec pos hd' hS.1 (by have := hS.2.2; omega)⟩⟩

end Abyss
