import Abyss.Vu64
import Abyss.Hash
/-!
# Lemmas about the vu64 codec, little-endian integers and typed keys (helper lemmas only)
-/
namespace Abyss
open Vu64

theorem Vu64.encodedLen_pos (v : Nat) : 1 ≤ encodedLen v := by sorry
theorem Vu64.encodedLen_le (v : Nat) : encodedLen v ≤ 9 := by sorry
theorem Vu64.leBytes_length (v k : Nat) : (leBytes v k).length = k := by sorry
theorem Vu64.leBytes_lt (v k : Nat) : ∀ b ∈ leBytes v k, b < 256 := by sorry
theorem Vu64.ofLeBytes_leBytes (v k : Nat) : ofLeBytes (leBytes v k) = v % 256 ^ k := by sorry
theorem Vu64.encode_length (v : Nat) : (encode v).length = encodedLen v := by sorry
theorem Vu64.encode_lt (v : Nat) (h : v < 2^64) : ∀ b ∈ encode v, b < 256 := by sorry
/-- round trip, with arbitrary bytes following -/
theorem Vu64.decode_encode (v : Nat) (h : v < 2^64) (r : List Nat) :
    decode (encode v ++ r) = some (v, r) := by sorry
theorem Vu64.encode_inj (a b : Nat) (ha : a < 2^64) (hb : b < 2^64) (h : encode a = encode b) : a = b := by sorry

theorem u64_roundtrip (x : Nat) (h : x < 2^64) : u64OfKey (u64Key x) = x := by sorry
theorem u64Key_inj (a b : Nat) (ha : a < 2^64) (hb : b < 2^64) (h : u64Key a = u64Key b) : a = b := by sorry
theorem i64_roundtrip (x : Int) (h1 : -2^63 ≤ x) (h2 : x < 2^63) : i64OfKey (i64Key x) = x := by sorry
theorem i64Key_inj (a b : Int) (ha1 : -2^63 ≤ a) (ha2 : a < 2^63) (hb1 : -2^63 ≤ b) (hb2 : b < 2^63)
    (h : i64Key a = i64Key b) : a = b := by sorry
theorem vu64_roundtrip (x : Nat) (h : x < 2^64) : vu64OfKey (vu64Key x) = some x := by sorry
theorem vu64Key_inj (a b : Nat) (ha : a < 2^64) (hb : b < 2^64) (h : vu64Key a = vu64Key b) : a = b := by sorry
/-- the stored-key comparison of `DbVu64` decides equality of the integers -/
theorem cmpKey_vu64 (a b : Nat) (ha : a < 2^64) (hb : b < 2^64) :
    cmpKey .vu64 (vu64Key a) (vu64Key b) = some (decide (a = b)) := by sorry
/-- the stored-key comparison of the other key types decides equality of the bytes -/
theorem cmpKey_bytes (kt : KeyType) (hk : kt ≠ .vu64) (a b : List Nat) :
    cmpKey kt a b = some (decide (a = b)) := by sorry

end Abyss
