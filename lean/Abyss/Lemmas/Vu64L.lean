import Abyss.Vu64
import Abyss.Hash
import Abyss.Lemmas.KeyGenL
/-!
# Lemmas about the vu64 codec, little-endian integers and typed keys (helper lemmas only)
-/
namespace Abyss
open Vu64

theorem Vu64.encodedLen_pos (v : Nat) : 1 ≤ encodedLen v := by
  unfold encodedLen; repeat' split
  all_goals omega
theorem Vu64.encodedLen_le (v : Nat) : encodedLen v ≤ 9 := by
  unfold encodedLen; repeat' split
  all_goals omega
theorem Vu64.leBytes_length (v k : Nat) : (leBytes v k).length = k := by
  induction k generalizing v with
  | zero => rfl
  | succ k ih => simp [leBytes, ih]
theorem Vu64.leBytes_lt (v k : Nat) : ∀ b ∈ leBytes v k, b < 256 := by
  induction k generalizing v with
  | zero => intro b hb; simp [leBytes] at hb
  | succ k ih =>
    intro b hb
    simp only [leBytes, List.mem_cons] at hb
    rcases hb with hb | hb
    · omega
    · exact ih _ b hb
theorem Vu64.ofLeBytes_leBytes (v k : Nat) : ofLeBytes (leBytes v k) = v % 256 ^ k := by
  induction k generalizing v with
  | zero => simp [leBytes, ofLeBytes, Nat.mod_one]
  | succ k ih =>
    simp only [leBytes, ofLeBytes, ih]
    rw [Nat.pow_succ', Nat.mod_mul]

/-- the nine ranges of `encodedLen` -/
theorem Vu64.encodedLen_cases (v : Nat) :
    (encodedLen v = 1 ∧ v < 2^7) ∨ (encodedLen v = 2 ∧ 2^7 ≤ v ∧ v < 2^14) ∨
    (encodedLen v = 3 ∧ 2^14 ≤ v ∧ v < 2^21) ∨ (encodedLen v = 4 ∧ 2^21 ≤ v ∧ v < 2^28) ∨
    (encodedLen v = 5 ∧ 2^28 ≤ v ∧ v < 2^35) ∨ (encodedLen v = 6 ∧ 2^35 ≤ v ∧ v < 2^42) ∨
    (encodedLen v = 7 ∧ 2^42 ≤ v ∧ v < 2^49) ∨ (encodedLen v = 8 ∧ 2^49 ≤ v ∧ v < 2^56) ∨
    (encodedLen v = 9 ∧ 2^56 ≤ v) := by
  unfold encodedLen; repeat' split
  all_goals omega

theorem Vu64.encode_length (v : Nat) : (encode v).length = encodedLen v := by
  have h1 := encodedLen_pos v
  have h9 := encodedLen_le v
  unfold encode
  simp only
  split
  · simp_all
  · split
    · simp [leBytes_length]; omega
    · split
      · simp [leBytes_length]; omega
      · simp [leBytes_length]; omega

theorem Vu64.encode_lt (v : Nat) (h : v < 2^64) : ∀ b ∈ encode v, b < 256 := by
  intro b hb
  unfold encode at hb
  simp only at hb
  rcases encodedLen_cases v with hc | hc | hc | hc | hc | hc | hc | hc | hc
  all_goals
    obtain ⟨hL, hr⟩ := hc
    simp [hL, prefixOnes] at hb
    first
      | (rcases hb with hb | hb
         · omega
         · exact leBytes_lt _ _ b hb)
      | omega

/-- decoding a first byte that announces `k` following bytes, followed by `k` little-endian bytes -/
theorem Vu64.decode_cons_leBytes (b x k : Nat) (r : List Nat) (hd : decodedLen b = k + 1) :
    decode (b :: (leBytes x k ++ r)) =
      some ((if k + 1 = 1 then b
             else if k + 1 ≤ 7 then (x % 256 ^ k) * 2^(8-(k+1)) + b % 2^(8-(k+1))
             else x % 256 ^ k), r) := by
  unfold decode
  simp only [hd, Nat.add_sub_cancel, List.length_append, leBytes_length]
  rw [if_neg (by omega), List.take_left' (leBytes_length x k), List.drop_left' (leBytes_length x k),
    ofLeBytes_leBytes]

theorem Vu64.decodedLen_cases (b : Nat) :
    (decodedLen b = 1 ∧ b < 128) ∨ (decodedLen b = 2 ∧ 128 ≤ b ∧ b < 192) ∨
    (decodedLen b = 3 ∧ 192 ≤ b ∧ b < 224) ∨ (decodedLen b = 4 ∧ 224 ≤ b ∧ b < 240) ∨
    (decodedLen b = 5 ∧ 240 ≤ b ∧ b < 248) ∨ (decodedLen b = 6 ∧ 248 ≤ b ∧ b < 252) ∨
    (decodedLen b = 7 ∧ 252 ≤ b ∧ b < 254) ∨ (decodedLen b = 8 ∧ b = 254) ∨
    (decodedLen b = 9 ∧ 255 ≤ b) := by
  unfold decodedLen; repeat' split
  all_goals omega

/-- round trip, with arbitrary bytes following -/
theorem Vu64.decode_encode (v : Nat) (h : v < 2^64) (r : List Nat) :
    decode (encode v ++ r) = some (v, r) := by
  rcases encodedLen_cases v with hc | hc | hc | hc | hc | hc | hc | hc | hc
  · obtain ⟨hL, hr⟩ := hc
    have he : encode v = v :: leBytes 0 0 := by simp [encode, hL, leBytes]
    have hd : decodedLen v = 0 + 1 := by
      have := decodedLen_cases v; omega
    rw [he, List.cons_append, decode_cons_leBytes _ _ _ _ hd]
    simp
  all_goals
    obtain ⟨hL, hr⟩ := hc
    have he : encode v = (if encodedLen v ≤ 7 then
          (prefixOnes (encodedLen v) + v % 2^(8-encodedLen v)) ::
            leBytes (v / 2^(8-encodedLen v)) (encodedLen v - 1)
        else if encodedLen v = 8 then 254 :: leBytes v 7 else 255 :: leBytes v 8) := by
      simp [encode, hL]
    rw [hL] at he
    simp only [prefixOnes, Nat.reducePow, Nat.reduceSub, Nat.reduceLeDiff, Nat.reduceEqDiff,
      ↓reduceIte] at he
    rw [he, List.cons_append, decode_cons_leBytes]
    · simp only [Nat.reducePow, Nat.reduceSub, Nat.reduceLeDiff, Nat.reduceEqDiff, Nat.reduceAdd,
        ↓reduceIte] at hr ⊢
      congr 2
      omega
    · unfold decodedLen; repeat' split
      all_goals omega
theorem Vu64.encode_inj (a b : Nat) (ha : a < 2^64) (hb : b < 2^64) (h : encode a = encode b) : a = b := by
  have h1 := decode_encode a ha []
  have h2 := decode_encode b hb []
  rw [h, h2] at h1
  simp at h1
  exact h1.symm

theorem u64_roundtrip (x : Nat) (h : x < 2^64) : u64OfKey (u64Key x) = x := by
  rw [u64OfKey_eq, u64Key_eq]
  rw [List.take_of_length_le (by rw [leBytes_length]; exact Nat.le_refl _), ofLeBytes_leBytes]
  exact Nat.mod_eq_of_lt (by simpa using h)
theorem u64Key_inj (a b : Nat) (ha : a < 2^64) (hb : b < 2^64) (h : u64Key a = u64Key b) : a = b := by
  rw [← u64_roundtrip a ha, ← u64_roundtrip b hb, h]
theorem i64_roundtrip (x : Int) (h1 : -2^63 ≤ x) (h2 : x < 2^63) : i64OfKey (i64Key x) = x := by
  rw [i64OfKey_eq, i64Key_eq]
  simp only
  rw [List.take_of_length_le (by rw [leBytes_length]; exact Nat.le_refl _), ofLeBytes_leBytes]
  simp only [Nat.reducePow, Int.reducePow] at *
  split <;> omega
theorem i64Key_inj (a b : Int) (ha1 : -2^63 ≤ a) (ha2 : a < 2^63) (hb1 : -2^63 ≤ b) (hb2 : b < 2^63)
    (h : i64Key a = i64Key b) : a = b := by
  rw [← i64_roundtrip a ha1 ha2, ← i64_roundtrip b hb1 hb2, h]
theorem vu64_roundtrip (x : Nat) (h : x < 2^64) : vu64OfKey (vu64Key x) = some x := by
  rw [vu64OfKey_eq, vu64Key_eq]
  have := decode_encode x h []
  rw [List.append_nil] at this
  rw [this]; rfl
theorem vu64Key_inj (a b : Nat) (ha : a < 2^64) (hb : b < 2^64) (h : vu64Key a = vu64Key b) : a = b :=
  encode_inj a b ha hb (by rwa [vu64Key_eq, vu64Key_eq] at h)
/-- the stored-key comparison of `DbVu64` decides equality of the integers -/
theorem cmpKey_vu64 (a b : Nat) (ha : a < 2^64) (hb : b < 2^64) :
    cmpKey .vu64 (vu64Key a) (vu64Key b) = some (decide (a = b)) := by
  have h1 := decode_encode a ha []
  have h2 := decode_encode b hb []
  rw [List.append_nil] at h1 h2
  rw [cmpKey_vu64_eq, vu64Key_eq, vu64Key_eq]
  simp only [h1, h2]
/-- the stored-key comparison of the other key types decides equality of the bytes -/
theorem cmpKey_bytes (kt : KeyType) (hk : kt ≠ .vu64) (a b : List Nat) :
    cmpKey kt a b = some (decide (a = b)) := by
  have hd : decide (Gen.cmpBytes a b = Ordering.eq) = decide (a = b) :=
    decide_eq_decide.mpr (Gen.cmpBytes_eq_iff a b)
  cases kt
  case vu64 => exact absurd rfl hk
  all_goals
    unfold cmpKey
    simp only [Gen.cmpU8String_eq, Gen.cmpU8Bytes_eq, Gen.cmpU8U64_eq, Gen.cmpU8I64_eq, Option.map_some, hd]

end Abyss
