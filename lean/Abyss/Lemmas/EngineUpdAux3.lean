import Abyss.Lemmas.EngineUpdAux2
/-!
# generated engine vs model, updates: `relink_moved_key_piece`, `store_value_on_insert`
-/
set_option linter.unusedVariables false
namespace Abyss
open Store FileM RecFile
namespace EU

/-- a bucket entry of a `Regular` store is 0 or the offset of a key slot: aligned and small -/
theorem headOf_fits {kt : KeyType} {s : Store} (g : Store.Regular kt s) (b : Nat) :
    s.headOf b < 2^63 ∧ 8 ∣ s.headOf b := by
  by_cases hb : b < s.n
  · obtain ⟨l, hl, _, _⟩ := g.inv.chains b hb
    unfold Store.chain at hl
    rcases chainFrom_succ_inv _ _ _ _ hl with ⟨e, _⟩ | ⟨_, sz, r, t, hg, _, _⟩
    · rw [e]; exact ⟨by omega, Nat.dvd_zero _⟩
    · have := (KG.of_good g).off hg
      exact ⟨by omega, this.1⟩
  · rw [g.inv.heads_lt b (by omega)]
    exact ⟨by omega, Nat.dvd_zero _⟩

theorem sig_len (kt : KeyType) : kt.sig.length = 8 := by cases kt <;> rfl

/-- well-formedness of a rewritten key file -/
theorem rewrite_wf {kf kf' : RecFile KeyRec} (w : WF keyCfg kf) {off sz0 : Nat} {r0 : KeyRec}
    (hu : kf.get off = some (.used sz0 r0)) {r : KeyRec} {off' : Nat}
    (hrw : RecFile.rewrite keyCfg kf off (keyNeed r) r = some (off', kf')) : WF keyCfg kf' := by
  obtain ⟨o1, s1, f1, a1, a2, _⟩ :=
    rewrite_spec keyCfg_ok w (RecFile.used_eq_some.mpr hu) (Store.keyNeed_legal r) r
  rw [hrw] at a1
  simp only [Option.some.injEq, Prod.mk.injEq] at a1
  obtain ⟨rfl, rfl⟩ := a1
  exact a2

/-- `relink_moved_key_piece` on an image -/
theorem relinkPiece_img {kt : KeyType} (hash : Nat) {t s' : Store} {old new : Nat} {d : DbSt}
    (h : relink (hash % t.n) (t.kf.slots.length + 1) t old new = some s') (he : s'.kf.end_ < 2^32)
    (kg : KG kt.sig t.kf) (hx : HtxRW kt t) (hn : new < 2^63) (hn8 : 8 ∣ new) (hd : d.IsImage kt t) :
    ∃ d', Gen.relinkMovedKeyPiece keyCfg t.n hash old new d = some ((), d') ∧
      d'.IsImage kt s' ∧ KG kt.sig s'.kf := by
  have hlen : t.kf.slots.length + 1 ≤ d.key.bytes.length + 1 := by
    rw [hd.2.1]
    show _ ≤ (renderKeyFile kt.sig t.kf).length + 1
    rw [kg.len]
    have := kg.ok.wf.length_le
    omega
  obtain ⟨d', r, hd', kg'⟩ := relinkLoop_img hash _ _ t s' old new d hlen h he kg hx hn hn8 hd
  refine ⟨d', ?_, hd', kg'⟩
  unfold Gen.relinkMovedKeyPiece
  rw [DbM.bind_some (DbM.keyLen_apply d)]
  exact r

theorem storeValue_unfold (kc vc : FileCfg) (off : Nat) (value : List Nat) :
    Gen.storeValueOnInsert kc vc off value = (do
  let (keyPieceSize, keyPieceKey, keyPieceValueOffset, keyPieceBucketNextOffset) ← DbM.liftKey (Gen.keyReadPiece off)
  let (valPieceSize, valPieceValue) ← DbM.liftVal (Gen.valReadPiece keyPieceValueOffset)
  let (newValuePieceOffset, newValuePieceSize) ← DbM.liftVal (Gen.valWritePiece vc keyPieceValueOffset value false)
  let (newKeyPieceOffset, newKeyPieceSize, newKeyPieceKey, newKeyPieceValueOffset, newKeyPieceBucketNextOffset) ← (if (keyPieceValueOffset == newValuePieceOffset) then do
      pure (off, keyPieceSize, keyPieceKey, keyPieceValueOffset, keyPieceBucketNextOffset)
    else do
      let (tryVal, tryVal2) ← DbM.liftKey (Gen.keyWritePiece kc off keyPieceKey newValuePieceOffset keyPieceBucketNextOffset false)
      pure (tryVal, tryVal2, keyPieceKey, newValuePieceOffset, keyPieceBucketNextOffset))
  pure newKeyPieceOffset) := rfl

/-- `store_value_on_insert` on an image: the value record is rewritten; if it moved, the key record is
rewritten with the new value offset -/
theorem storeValue_img {kt : KeyType} {s : Store} (kg : KG kt.sig s.kf) (vg : VG kt.sig s.vf)
    {off sz0 : Nat} {kr : KeyRec} (hg : s.kf.get off = some (.used sz0 kr))
    {vsz0 : Nat} {v0 : List Nat} (hgv : s.vf.get kr.valOff = some (.used vsz0 v0))
    (v : List Nat) (hv : v.length < 2^31) {voff' : Nat} {vf' : RecFile (List Nat)}
    (hrwv : RecFile.rewrite valCfg s.vf kr.valOff (valueNeed v.length) v = some (voff', vf'))
    (hve : vf'.end_ < 2^32) {d : DbSt} (hd : d.IsImage kt s) :
    VG kt.sig vf' ∧
    (voff' = kr.valOff → ∃ d', Gen.storeValueOnInsert keyCfg valCfg off v d = some (off, d') ∧
      d'.IsImage kt { s with vf := vf' }) ∧
    (voff' ≠ kr.valOff → ∀ koff' kf',
      RecFile.rewrite keyCfg s.kf off (keyNeed { kr with valOff := voff' }) { kr with valOff := voff' } =
        some (koff', kf') → kf'.end_ < 2^32 →
      ∃ d', Gen.storeValueOnInsert keyCfg valCfg off v d = some (koff', d') ∧
        d'.IsImage kt { s with vf := vf', kf := kf' } ∧ KG kt.sig kf' ∧ koff' < 2^63 ∧ 8 ∣ koff') := by
  obtain ⟨vg', _, vsz, hgv', hw⟩ := vg.rewrite hgv hv hrwv hve
  obtain ⟨d1, r1, hd1⟩ := key_read hd (kg.readPiece hg)
  obtain ⟨d2, r2, hd2⟩ := val_read hd1 (vg.readPiece hgv)
  obtain ⟨d3, r3, hd3⟩ := val_step hd2 hw
  refine ⟨vg', ?_, ?_⟩
  · intro e
    refine ⟨d3, ?_, hd3⟩
    rw [storeValue_unfold, DbM.bind_some r1]
    try simp only []
    rw [DbM.bind_some r2]
    try simp only []
    rw [DbM.bind_some r3]
    try simp only []
    have hb : (kr.valOff == voff') = true := by simp [e]
    rw [hb]
    rfl
  · intro hne koff' kf' hrwk hke
    have hkf := kg.fits_get hg
    have hvo := vg'.off hgv'
    have hfit : KeyRec.Fits { kr with valOff := voff' } :=
      ⟨hkf.1, by show voff' < 2^63; omega, hkf.2.2.1, hvo.1, hkf.2.2.2.2⟩
    obtain ⟨kg', _, ksz, hgk', hwk⟩ := kg.rewrite hg hfit hrwk hke
    obtain ⟨d4, r4, hd4⟩ := key_step (t := { s with vf := vf' }) hd3 hwk
    have ho := kg'.off hgk'
    refine ⟨d4, ?_, hd4, kg', by omega, ho.1⟩
    rw [storeValue_unfold, DbM.bind_some r1]
    try simp only []
    rw [DbM.bind_some r2]
    try simp only []
    rw [DbM.bind_some r3]
    try simp only []
    have hb : (kr.valOff == voff') = false := by
      simp only [beq_eq_false_iff_ne, ne_eq]
      exact fun e => hne e.symm
    rw [hb]
    simp only [Bool.false_eq_true, if_false]
    rw [DbM.bind_assoc_apply, DbM.bind_some r4]
    rfl

end EU
end Abyss
