import Abyss.Renderable
import Abyss.Lemmas.Vu64L
import Abyss.Lemmas.ParseHtxAux
/-!
# The reader recovers a rendered table file (helper lemma for `parse_render`)
-/
namespace Abyss

/-- reading the rendered table file gives back bucket count, item count, length, and — as
functions of the bucket index — the bucket entries and the bitmap bits -/
theorem parseHtx_render (kt : KeyType) (s : Store) (hsig : kt.sig.length = 8)
    (hn : s.n < 2^60) (hc : s.count < 2^64) (hh : ∀ b, s.headOf b < 2^64)
    (hlt : ∀ b, s.n ≤ b → s.headOf b = 0)
    (hlen : Gen.htxHeaderSz + 8 * s.n ≤ s.htxEnd)
    (hbits : ∀ b, s.bitOf b = true → b < 8 * (s.htxEnd - (Gen.htxHeaderSz + 8 * s.n))) :
    ∃ heads bits, parseHtx kt.sig (renderHtxFile kt.sig s) = some (s.n, s.count, heads, bits, s.htxEnd) ∧
      (∀ b, (aget heads b).getD 0 = s.headOf b) ∧ (∀ b, (aget bits b).getD false = s.bitOf b) := by
  have h128 : Gen.htxHeaderSz = 128 := rfl
  rw [h128] at hlen hbits
  have hs1 : Gen.htxSig1.length = 8 := rfl
  -- the three parts
  obtain ⟨H, hH⟩ : ∃ H, H = Gen.htxSig1 ++ kt.sig ++ le64 s.n ++ le64 s.count ++ zeros 96 := ⟨_, rfl⟩
  obtain ⟨T, hT⟩ : ∃ T, T = ((List.range s.n).map fun i => le64 (s.headOf i)).flatten := ⟨_, rfl⟩
  obtain ⟨L, hL⟩ : ∃ L, L = s.htxEnd - (128 + 8 * s.n) := ⟨_, rfl⟩
  have hfile : renderHtxFile kt.sig s = H ++ T ++ (List.range L).map (bitmapByte s.bitOf) := by
    unfold renderHtxFile
    simp only [h128, List.length_append, hs1, hsig, le64_length]
    rw [hH, hT, hL, Nat.mul_comm s.n 8]
  have hHlen : H.length = 128 := by
    rw [hH]; simp [hs1, hsig, le64_length, zeros]
  have hTlen : T.length = 8 * s.n := by
    rw [hT]; exact flatten_range_length _ (fun j => le64_length _) _
  have hflen : (renderHtxFile kt.sig s).length = s.htxEnd := by
    rw [hfile]; simp [hHlen, hTlen, hL]; omega
  generalize hF : renderHtxFile kt.sig s = file at *
  have htake : file.take 8 = Gen.htxSig1 := by
    rw [hfile, hH]; simp only [List.append_assoc]
    exact List.take_left' hs1
  have hdt : (file.drop 8).take 8 = kt.sig := by
    rw [hfile, hH]; simp only [List.append_assoc]
    rw [List.drop_left' hs1]; exact List.take_left' hsig
  have hN : getLe64 file 16 = s.n := by
    rw [hfile, hH]
    have := getLe64_mid (Gen.htxSig1 ++ kt.sig)
      (le64 s.count ++ zeros 96 ++ T ++ (List.range L).map (bitmapByte s.bitOf)) s.n 16
      (by omega) (by simp [hs1, hsig])
    simpa only [List.append_assoc] using this
  have hC : getLe64 file 24 = s.count := by
    rw [hfile, hH]
    have := getLe64_mid (Gen.htxSig1 ++ kt.sig ++ le64 s.n)
      (zeros 96 ++ T ++ (List.range L).map (bitmapByte s.bitOf)) s.count 24
      hc (by simp [hs1, hsig, le64_length])
    simpa only [List.append_assoc] using this
  have hE : ∀ i, i < s.n → getLe64 file (128 + 8 * i) = s.headOf i := by
    intro i hi
    obtain ⟨pre, post, h1, h2⟩ := flatten_range_split (fun i => le64 (s.headOf i)) (fun j => le64_length _) s.n i hi
    rw [hfile, hT, h1]
    have := getLe64_mid (H ++ pre) (post ++ (List.range L).map (bitmapByte s.bitOf)) (s.headOf i) (128 + 8 * i)
      (hh i) (by simp [hHlen, h2])
    simpa only [List.append_assoc] using this
  have hB : ∀ j, j < L → file.getD (128 + 8 * s.n + j) 0 = bitmapByte s.bitOf j := by
    intro j hj
    rw [hfile, List.getD_eq_getElem?_getD, List.getElem?_append_right (by simp [hHlen, hTlen])]
    simp [hHlen, hTlen, hj]
  have hparse : parseHtx kt.sig file = some (s.n, s.count,
      (List.range s.n).filterMap (fun i => (if s.headOf i = 0 then none else some (s.headOf i)).map fun v => (i, v)),
      (List.range (8 * L)).filterMap (fun i => (if s.bitOf i = true then some true else none).map fun v => (i, v)),
      s.htxEnd) := by
    unfold parseHtx
    have c1 : ¬ file.length < Gen.htxHeaderSz := by rw [h128, hflen]; omega
    have c2 : (!(file.take 8 == Gen.htxSig1 && (file.drop 8).take 8 == kt.sig)) = false := by
      rw [htake, hdt]; simp
    have c3 : ¬ file.length < Gen.htxHeaderSz + 8 * s.n := by rw [h128, hflen]; omega
    rw [if_neg c1, c2]
    simp only [Bool.false_eq_true, if_false, show Gen.htxHtSizeOffset = 16 from rfl,
      show Gen.htxItemCountOffset = 24 from rfl, hN, hC, h128, hflen, ← hL]
    rw [if_neg (by omega)]
    have e1 : (List.range s.n).filterMap
          (fun i => if getLe64 file (128 + 8 * i) = 0 then none else some (i, getLe64 file (128 + 8 * i))) =
        (List.range s.n).filterMap
          (fun i => (if s.headOf i = 0 then none else some (s.headOf i)).map fun v => (i, v)) := by
      apply filterMap_congr_mem
      intro i hi
      rw [hE i (List.mem_range.mp hi)]
      split <;> simp_all
    have e2 : (List.range (8 * L)).filterMap
          (fun i => if file.getD (128 + 8 * s.n + i / 8) 0 / 2 ^ (i % 8) % 2 = 1 then some (i, true) else none) =
        (List.range (8 * L)).filterMap
          (fun i => (if s.bitOf i = true then some true else none).map fun v => (i, v)) := by
      apply filterMap_congr_mem
      intro i hi
      have hi' := List.mem_range.mp hi
      have hiff := bitmapByte_bit s.bitOf (i / 8) (i % 8) (Nat.mod_lt _ (by omega))
      rw [Nat.div_add_mod] at hiff
      rw [hB (i / 8) (by omega)]
      by_cases hb : s.bitOf i = true
      · rw [if_pos (hiff.mpr hb), if_pos hb]; rfl
      · rw [if_neg (fun h => hb (hiff.mp h)), if_neg hb]; rfl
    rw [e1, e2]
  refine ⟨_, _, hparse, ?_, ?_⟩
  · intro b
    rw [aget_filterMap]
    by_cases hb : b < s.n
    · simp only [List.mem_range, hb, if_true]
      split <;> simp_all
    · simp only [List.mem_range, hb, if_false]
      rw [hlt b (by omega)]; rfl
  · intro b
    rw [aget_filterMap]
    by_cases hb : b < 8 * L
    · simp only [List.mem_range, hb, if_true]
      cases s.bitOf b <;> simp
    · simp only [List.mem_range, hb, if_false]
      cases hbb : s.bitOf b with
      | false => rfl
      | true => exact absurd (hL ▸ hbits b hbb) hb

end Abyss
