import Abyss.Renderable
import Abyss.Lemmas.Vu64L
/-!
# The reader recovers a rendered table file (helper lemma for `parse_render`)
-/
namespace Abyss

/-- reading the rendered table file gives back bucket count, item count, length, and — as
functions of the bucket index — the bucket entries and the bitmap bits -/
theorem parseHtx_render (kt : KeyType) (s : Store) (hsig : kt.sig.length = 8)
    (hn : s.n < 2^60) (hc : s.count < 2^64) (hh : ∀ b, s.headOf b < 2^64)
    (hlt : ∀ b, s.n ≤ b → s.headOf b = 0)
    (hlen : Gen.htxHeaderSz + 8 * s.n ≤ s.htxEnd)
    (hbits : ∀ b, s.bitOf b = true → b < 8 * (s.htxEnd - (Gen.htxHeaderSz + 8 * s.n))) :
    ∃ heads bits, parseHtx kt.sig (renderHtxFile kt.sig s) = some (s.n, s.count, heads, bits, s.htxEnd) ∧
      (∀ b, (aget heads b).getD 0 = s.headOf b) ∧ (∀ b, (aget bits b).getD false = s.bitOf b) := by sorry

end Abyss
