import Abyss.Gen.Engine
import Abyss.Open
import Abyss.Lemmas.EngineDefs
import Abyss.Lemmas.OpenBytesAux2
/-!
# Create / open generated from `open_with_params` and the header functions

`Gen.openMap sig2 p` = `FileDbXxxInner::open_with_params` after the buffers are built: key file, value
file, table file in that order; an empty file gets its initial header (and, for the table file, its
initial length), a non-empty one has its header checked.
-/
namespace Abyss
open Store FileM

/-- **creation**: on three empty files the translated code produces exactly the image the model starts
from, and reports the bucket count the parameters ask for (`Capacity(0)` panics: `bucketsOf = none`) -/
theorem openMap_create (kt : KeyType) (p : Gen.HashBucketsParam) (n : Nat) (hp : Gen.bucketsOf p = some n)
    (hn : 0 < n) (hn2 : n < 2^60) (ph pk pv : Nat) :
    ∃ d', Gen.openMap kt.sig p ⟨⟨[], ph⟩, ⟨[], pk⟩, ⟨[], pv⟩⟩ = some (n, d') ∧ d'.IsImage kt (Store.init n) := by
  have _ := hn2
  refine ⟨⟨⟨renderHtxFile kt.sig (Store.init n), Gen.htxInitLen n⟩,
    ⟨renderKeyFile kt.sig (RecFile.empty keyCfg), 192⟩, ⟨renderValFile kt.sig (RecFile.empty valCfg), 192⟩⟩,
    ?_, ⟨rfl, rfl, rfl⟩⟩
  unfold Gen.openMap
  rw [DbM.bind_some (DbM.liftKey_some (keyOpen_create kt pk)),
    DbM.bind_some (DbM.liftVal_some (valOpen_create kt pv))]
  exact DbM.liftHtx_some (htxOpen_create kt.sig kt.sig_length p n hp hn ph)

theorem openMap_create_panics (kt : KeyType) (p : Gen.HashBucketsParam) (hp : Gen.bucketsOf p = none) (ph pk pv : Nat) :
    Gen.openMap kt.sig p ⟨⟨[], ph⟩, ⟨[], pk⟩, ⟨[], pv⟩⟩ = none := by
  unfold Gen.openMap
  rw [DbM.bind_some (DbM.liftKey_some (keyOpen_create kt pk)),
    DbM.bind_some (DbM.liftVal_some (valOpen_create kt pv))]
  exact DbM.liftHtx_none (htxOpen_create_panics kt.sig p hp ph)

/-- **open of existing files**: accepted exactly when the model's header check accepts (key file,
value file, table file: file signature, type signature, reserved word zero / bucket count non-zero);
then the bytes are untouched and the stored bucket count is returned — whatever parameters are passed
(C07: parameters of an existing map are ignored; C13: the type signature is checked) -/
theorem openMap_existing (kt : KeyType) (img : Image) (hk : img.key ≠ []) (hv : img.val ≠ []) (hh : img.htx ≠ [])
    (p : Gen.HashBucketsParam) (ph pk pv : Nat) :
    (openAccepts kt img = true →
      ∃ ph' pk' pv', Gen.openMap kt.sig p ⟨⟨img.htx, ph⟩, ⟨img.key, pk⟩, ⟨img.val, pv⟩⟩ =
        some (Vu64.ofLeBytes ((img.htx.drop 16).take 8), ⟨⟨img.htx, ph'⟩, ⟨img.key, pk'⟩, ⟨img.val, pv'⟩⟩)) ∧
    (openAccepts kt img = false →
      Gen.openMap kt.sig p ⟨⟨img.htx, ph⟩, ⟨img.key, pk⟩, ⟨img.val, pv⟩⟩ = none) := by
  have hK := keyOpen_existing kt img.key hk pk
  have hV := valOpen_existing kt img.val hv pv
  have hH := htxOpen_existing kt img.htx hh p ph
  unfold Gen.openMap openAccepts
  constructor
  · intro h
    simp only [Bool.and_eq_true] at h
    obtain ⟨⟨a1, a2⟩, a3⟩ := h
    rw [if_pos a1] at hK
    rw [if_pos a2] at hV
    rw [if_pos a3] at hH
    refine ⟨24, 24, 24, ?_⟩
    rw [DbM.bind_some (DbM.liftKey_some hK), DbM.bind_some (DbM.liftVal_some hV)]
    exact DbM.liftHtx_some hH
  · intro h
    cases a1 : recHeaderAccepts Gen.keySig1 kt img.key with
    | false =>
      rw [a1, if_neg (by decide)] at hK
      exact DbM.bind_none (DbM.liftKey_none hK)
    | true =>
      rw [a1, if_pos rfl] at hK
      rw [DbM.bind_some (DbM.liftKey_some hK)]
      cases a2 : recHeaderAccepts Gen.valSig1 kt img.val with
      | false =>
        rw [a2, if_neg (by decide)] at hV
        exact DbM.bind_none (DbM.liftVal_none hV)
      | true =>
        rw [a2, if_pos rfl] at hV
        rw [DbM.bind_some (DbM.liftVal_some hV)]
        have a3 : htxHeaderAccepts kt img.htx = false := by
          rw [a1, a2] at h
          simpa using h
        rw [a3, if_neg (by decide)] at hH
        exact DbM.liftHtx_none hH

/-- reopening a model state in the regular regime: accepted, bytes untouched, returns its bucket count -/
theorem openMap_reopen {kt : KeyType} {s : Store} (g : Store.Regular kt s) (p : Gen.HashBucketsParam) {d : DbSt}
    (hd : d.IsImage kt s) : ∃ d', Gen.openMap kt.sig p d = some (s.n, d') ∧ d'.IsImage kt s := by
  have hn2 : s.n < 2^64 := Nat.lt_trans g.n_lt (by decide)
  have hacc : openAccepts kt (render kt s) = true := C13_own_type kt s g.inv.npos hn2
  have hne : ∀ {sig1 : List Nat} {file : List Nat}, sig1.length = 8 → (file.take 8 == sig1) = true → file ≠ [] := by
    intro sig1 file h1 h hf
    subst hf
    rw [beq_iff_eq] at h
    rw [← h] at h1
    cases h1
  have hacc' := hacc
  unfold openAccepts recHeaderAccepts htxHeaderAccepts at hacc'
  simp only [Bool.and_eq_true] at hacc'
  obtain ⟨⟨⟨⟨k1, _⟩, _⟩, ⟨⟨v1, _⟩, _⟩⟩, ⟨⟨h1, _⟩, _⟩⟩ := hacc'
  obtain ⟨ph', pk', pv', ho⟩ := (openMap_existing kt (render kt s) (hne rfl k1) (hne rfl v1) (hne rfl h1) p
    d.htx.pos d.key.pos d.val.pos).1 hacc
  have hd0 : d = ⟨⟨(render kt s).htx, d.htx.pos⟩, ⟨(render kt s).key, d.key.pos⟩, ⟨(render kt s).val, d.val.pos⟩⟩ := by
    obtain ⟨⟨hb, hp⟩, ⟨kb, kp⟩, ⟨vb, vp⟩⟩ := d
    obtain ⟨e1, e2, e3⟩ := hd
    simp only at e1 e2 e3
    subst e1 e2 e3
    rfl
  have hv : Vu64.ofLeBytes (((render kt s).htx.drop 16).take 8) = s.n := by
    show Vu64.ofLeBytes (((renderHtxFile kt.sig s).drop 16).take 8) = s.n
    rw [renderHtxFile_drop16_take _ _ kt.sig_length, ofLeBytes_le64 _ hn2]
  rw [hv] at ho
  rw [hd0]
  exact ⟨_, ho, ⟨rfl, rfl, rfl⟩⟩

end Abyss
