import Abyss.Lemmas.EngineScan
import Abyss.Lemmas.EngineRead
import Abyss.Lemmas.IterL
/-!
# Helpers for `EngineIter.lean`: the header field `buckets_size`, the loop over the buckets, the tail of
`next_piece_offset`
-/
namespace Abyss
open Store FileM

theorem DbM.htxLen_apply (d : DbSt) : DbM.htxLen d = some (d.htx.bytes.length, d) := rfl

/-- one round of the generated loop over the buckets, spelled out on a state -/
theorem iterLoop_succ (n fuel ko idx : Nat) (d : DbSt) :
    Gen.iterNextPieceOffsetLoop n (fuel+1) (ko, idx) d =
      if ko = 0 ∧ idx < n then
        match DbM.liftHtx (Gen.htxNextKeyPieceOffset n idx) d with
        | none => none
        | some (p, d1) => Gen.iterNextPieceOffsetLoop n fuel (p.2, p.1) d1
      else some ((ko, idx), d) := by
  by_cases hc : ko = 0 ∧ idx < n
  · rw [if_pos hc]
    have hb : ((ko == 0) && (decide (idx < n))) = true := by simp [hc.1, hc.2]
    conv => lhs; unfold Gen.iterNextPieceOffsetLoop
    rw [if_pos hb]
    cases h1 : DbM.liftHtx (Gen.htxNextKeyPieceOffset n idx) d with
    | none => rw [DbM.bind_none h1]
    | some q =>
      obtain ⟨⟨i', o'⟩, d1⟩ := q
      rw [DbM.bind_some h1]
  · rw [if_neg hc]
    have hb : ¬ ((ko == 0) && (decide (idx < n))) = true := by
      simp only [Bool.and_eq_true, beq_iff_eq, decide_eq_true_eq]; exact hc
    conv => lhs; unfold Gen.iterNextPieceOffsetLoop
    rw [if_neg hb]
    rfl

/-- the model's scan from a bucket inside the table stops the loop: a chain head or the end of the table -/
theorem nextKeyPieceOffset_stop {kt : KeyType} {s : Store} (g : Store.Regular kt s) {idx : Nat} (hidx : idx < s.n) :
    (nextKeyPieceOffset s.bitOf s.headOf s.n idx).2 ≠ 0 ∨ s.n ≤ (nextKeyPieceOffset s.bitOf s.headOf s.n idx).1 := by
  have G := good_of_inv g.inv
  have hsp := nextKeyPieceOffset_spec s.bitOf s.headOf s.n idx hidx
    (fun b _ => by rw [G.bits_ok b]; simp)
    (fun b hb' => by rw [G.bits_ok b, G.heads_lt b hb']; simp)
  rw [hsp]
  cases hf : firstNonEmpty s.headOf idx s.n with
  | none => exact Or.inr (Nat.le_refl _)
  | some j => exact Or.inl (firstNonEmpty_some hf).2.2

/-- the model's loop over the buckets from key offset 0: at most one scan -/
theorem advanceBuckets_zero {kt : KeyType} {s : Store} (g : Store.Regular kt s) (fuel idx : Nat) :
    advanceBuckets s s.n (fuel + 1) idx 0 =
      if idx < s.n then nextKeyPieceOffset s.bitOf s.headOf s.n idx else (idx, 0) := by
  by_cases hidx : idx < s.n
  · rw [if_pos hidx]
    unfold advanceBuckets
    rw [if_pos ⟨rfl, hidx⟩]
    exact advanceBuckets_stop s s.n fuel _ _ (nextKeyPieceOffset_stop g hidx)
  · rw [if_neg hidx]
    exact advanceBuckets_stop s s.n _ idx 0 (Or.inr (by omega))

/-- the generated loop over the buckets (two rounds of fuel are enough) follows the model's loop -/
theorem iterLoop_img {kt : KeyType} {s : Store} (g : Store.Regular kt s)
    (hlen : Gen.htxInitLen s.n ≤ s.htxEnd) (idx fuel mf : Nat) {d : DbSt} (hd : d.IsImage kt s) :
    ∃ d', d'.IsImage kt s ∧
      Gen.iterNextPieceOffsetLoop s.n (fuel + 2) (0, idx) d =
        some (((advanceBuckets s s.n (mf + 1) idx 0).2, (advanceBuckets s s.n (mf + 1) idx 0).1), d') := by
  rw [advanceBuckets_zero g, iterLoop_succ]
  by_cases hidx : idx < s.n
  · rw [if_pos hidx, if_pos ⟨rfl, hidx⟩]
    obtain ⟨p, h⟩ := htxNext_bytes g hlen idx hidx d.htx.pos
    have hb : d.htx.bytes = (render kt s).htx := hd.1
    rw [← hd.htx_eq] at h
    rw [← hb] at h
    rw [DbM.liftHtx_some h]
    dsimp only
    rw [iterLoop_succ]
    have hs := nextKeyPieceOffset_stop g hidx
    have hc : ¬ ((nextKeyPieceOffset s.bitOf s.headOf s.n idx).2 = 0 ∧
        (nextKeyPieceOffset s.bitOf s.headOf s.n idx).1 < s.n) := by omega
    rw [if_neg hc]
    exact ⟨_, hd.htxPos p, rfl⟩
  · rw [if_neg hidx, if_neg (by omega)]
    exact ⟨_, hd, rfl⟩

/-- the table file has at least its header -/
theorem DbSt.IsImage.htx_length_pos {kt : KeyType} {s : Store} {d : DbSt} (g : Store.Regular kt s)
    (hd : d.IsImage kt s) : 128 ≤ d.htx.bytes.length := by
  rw [hd.1]
  show 128 ≤ (renderHtxFile kt.sig s).length
  rw [renderHtx_eq _ _ g.renderable.sig_len, htxImg_length _ _ _ _ _ _ g.renderable.sig_len]
  omega

/-- the last statements of the generated `next_piece_offset` -/
def genIterTail (rem bs idx ko : Nat) : DbM (Option Nat × (Nat × Nat × Nat × Nat)) :=
  if ((ko == 0) || (rem == 0)) then
    pure (none, (rem, bs, idx, ko))
  else do
    let rem ← (if (decide (rem > 0)) then do
        let rem := (rem - 1)
        pure rem
      else do
        pure rem)
    pure ((some ko), (rem, bs, idx, ko))

theorem genIterTail_apply (rem bs idx ko : Nat) (d : DbSt) :
    genIterTail rem bs idx ko d =
      some ((if ko = 0 ∨ rem = 0 then (none, (rem, bs, idx, ko)) else (some ko, (rem - 1, bs, idx, ko))), d) := by
  unfold genIterTail
  by_cases hc : ko = 0 ∨ rem = 0
  · have hb : ((ko == 0) || (rem == 0)) = true := by
      simp only [Bool.or_eq_true, beq_iff_eq]; exact hc
    rw [if_pos hb, if_pos hc]
    rfl
  · have hb : ¬ ((ko == 0) || (rem == 0)) = true := by
      simp only [Bool.or_eq_true, beq_iff_eq]; exact hc
    rw [if_neg hb, if_neg hc]
    have hr : decide (rem > 0) = true := by
      simp only [decide_eq_true_eq]; omega
    rw [hr]
    rfl

/-- the generated `next_piece_offset` after the `next` field of the current record has been read -/
def genIterFinish (rem bs idx ko : Nat) : DbM (Option Nat × (Nat × Nat × Nat × Nat)) := do
  let (selfBucketsIdx, selfKeyOffset) ← (if (ko == 0) then do
      let loopFuel ← DbM.htxLen
      let (keyOffset, bucketsIdx) ← Gen.iterNextPieceOffsetLoop bs (loopFuel + 1) (ko, idx)
      pure (bucketsIdx, keyOffset)
    else do
      pure (idx, ko))
  genIterTail rem bs selfBucketsIdx selfKeyOffset

theorem iterNextPieceOffset_eq (rem bs idx ko : Nat) :
    Gen.iterNextPieceOffset (rem, bs, idx, ko) =
      (if (!(ko == 0)) then DbM.liftKey (Gen.keyReadPieceOnlyBucketNextOffset ko)
        else pure ko) >>= fun ko' => genIterFinish rem bs idx ko' := rfl

/-- the part of `next_piece_offset` after the `next` field has been read follows the model's `iterFinish` -/
theorem iterFinish_img {kt : KeyType} {s : Store} (g : Store.Regular kt s)
    (hlen : Gen.htxInitLen s.n ≤ s.htxEnd) (it : IterState) (hn : it.bucketsSize = s.n) (ko : Nat)
    {it' : IterState} {r : Option Nat} (hm : iterFinish s it ko = some (it', r))
    {d : DbSt} (hd : d.IsImage kt s) :
    ∃ d', d'.IsImage kt s ∧
      genIterFinish it.remaining it.bucketsSize it.bucketsIdx ko d =
        some ((r, (it'.remaining, it'.bucketsSize, it'.bucketsIdx, it'.keyOff)), d') := by
  unfold genIterFinish
  unfold iterFinish at hm
  by_cases hk : ko = 0
  · subst hk
    rw [if_pos rfl] at hm
    have hb : ((0 : Nat) == 0) = true := rfl
    rw [if_pos hb]
    obtain ⟨d', hd', hl⟩ := iterLoop_img g hlen it.bucketsIdx (d.htx.bytes.length - 1) it.bucketsSize hd
    have hpos := hd.htx_length_pos g
    have e : d.htx.bytes.length - 1 + 2 = d.htx.bytes.length + 1 := by omega
    rw [e, ← hn] at hl
    refine ⟨d', hd', ?_⟩
    rw [DbM.bind_assoc_apply, DbM.bind_some (DbM.htxLen_apply _), DbM.bind_assoc_apply, DbM.bind_some hl]
    generalize advanceBuckets s it.bucketsSize (it.bucketsSize + 1) it.bucketsIdx 0 = p at hm ⊢
    obtain ⟨i, o⟩ := p
    dsimp only at hm
    show genIterTail it.remaining it.bucketsSize i o d' = _
    rw [genIterTail_apply]
    by_cases hc : o = 0 ∨ it.remaining = 0
    · rw [if_pos hc] at hm ⊢
      cases hm
      rfl
    · rw [if_neg hc] at hm ⊢
      cases hm
      rfl
  · rw [if_neg hk] at hm
    have hb : ¬ (ko == 0) = true := by simp only [beq_iff_eq]; exact hk
    rw [if_neg hb]
    refine ⟨d, hd, ?_⟩
    dsimp only at hm
    show genIterTail it.remaining it.bucketsSize it.bucketsIdx ko d = _
    rw [genIterTail_apply]
    by_cases hc : ko = 0 ∨ it.remaining = 0
    · rw [if_pos hc] at hm ⊢
      cases hm
      rfl
    · rw [if_neg hc] at hm ⊢
      cases hm
      rfl

end Abyss
