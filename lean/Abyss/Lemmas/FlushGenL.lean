import Abyss.Gen.FlushOps
import Abyss.Props.RaBufMap
/-!
# The generated flush / sync functions reduce to the hand model's `flushLike`

`Abyss/Gen/FlushOps.lean` (generated from `FileDbXxxInner::{flush, sync_all, sync_data}`) is a statement-by-statement
rendering in `FlushM`.  Here: each of the three functions, run on a map, is `MapSt.flushLike` with its per-file action
(`mapFlush_eq_flushLike`, …); instantiated with the chunk-level buffer model `RaBuf` (`flush φ`, `sync φ`) it is
`RaBuf.MapRb.flushLike φ` — the function the C03 theorems of `Abyss/Props/RaBufMap.lean` are about.
-/
namespace Abyss

variable {β : Type}

/-- the shape all three generated functions have, by unfolding -/
theorem flushM_shape (act : FileAct β) (m : MapSt β) (k : Nat) :
    FlushM.run (do
      let isDirty ← FlushM.isDirty
      (if isDirty then do
          FlushM.onVal act
          FlushM.onKey act
          FlushM.onHtx act
          FlushM.setDirty false
          pure ()
        else do
          pure ())
      pure ()) m k = m.flushLike act k := by
  obtain ⟨v, ky, h, d⟩ := m
  simp only [FlushM.run, MapSt.flushLike, bind, pure, FlushM.isDirty, FlushM.onVal, FlushM.onKey, FlushM.onHtx,
    FlushM.setDirty]
  cases d
  · simp
  · cases hv : (act v k).2.2 <;> simp [hv]
    cases (act ky (act v k).2.1).2.2 <;> simp
    cases (act h (act ky (act v k).2.1).2.1).2.2 <;> simp

/-- **`flush` of the map, as generated, is `flushLike` with the file's `flush`** -/
theorem mapFlush_eq_flushLike (p : FilePrims β) (m : MapSt β) (k : Nat) :
    (Gen.mapFlush p).run m k = m.flushLike p.flush k := flushM_shape p.flush m k

theorem mapSyncAll_eq_flushLike (p : FilePrims β) (m : MapSt β) (k : Nat) :
    (Gen.mapSyncAll p).run m k = m.flushLike p.syncAll k := flushM_shape p.syncAll m k

theorem mapSyncData_eq_flushLike (p : FilePrims β) (m : MapSt β) (k : Nat) :
    (Gen.mapSyncData p).run m k = m.flushLike p.syncData k := flushM_shape p.syncData m k

/-- the position of `self.dirty = true` in the constructor and in `put_kt` / `del_kt`, as pinned by the translator -/
theorem dirty_flag_pins : Gen.dirtyAtOpen = true ∧ Gen.putSetsDirty = true ∧ Gen.delSetsDirtyOnlyWhenFound = true :=
  ⟨rfl, rfl, rfl⟩

namespace RaBuf

/-- the three buffered files of the chunk-level model as a `MapSt` -/
def MapRb.toSt (m : MapRb) : MapSt St := ⟨m.val, m.key, m.htx, m.dirty⟩

/-- the per-file actions of the chunk-level buffer: `flush`, and `sync` (= `flush`: `sync_all` / `sync_data` flush first,
the model does not distinguish the kernel's caches) -/
def prims (φ : Faults) : FilePrims St := ⟨flush φ, sync φ, sync φ⟩

theorem toSt_flushLike (φ : Faults) (m : MapRb) (k : Nat) :
    m.toSt.flushLike (flush φ) k = ((m.flushLike φ k).1.toSt, (m.flushLike φ k).2.1, (m.flushLike φ k).2.2) := by
  obtain ⟨v, ky, h, d⟩ := m
  cases d
  · simp [MapSt.flushLike, MapRb.flushLike, MapRb.toSt]
  · by_cases hv : (flush φ v k).2.2 = true
    · by_cases hk : (flush φ ky (flush φ v k).2.1).2.2 = true
      · by_cases hh : (flush φ h (flush φ ky (flush φ v k).2.1).2.1).2.2 = true
        · simp [MapSt.flushLike, MapRb.flushLike, MapRb.toSt, hv, hk, hh]
        · simp [MapSt.flushLike, MapRb.flushLike, MapRb.toSt, hv, hk, hh]
      · simp [MapSt.flushLike, MapRb.flushLike, MapRb.toSt, hv, hk]
    · simp [MapSt.flushLike, MapRb.flushLike, MapRb.toSt, hv]

/-- **the generated `flush` over the `RaBuf` model is `MapRb.flushLike`** (map, fault counter, `Ok`) -/
theorem mapFlush_eq_MapRb_flushLike (φ : Faults) (m : MapRb) (k : Nat) :
    (Gen.mapFlush (prims φ)).run m.toSt k =
      ((m.flushLike φ k).1.toSt, (m.flushLike φ k).2.1, (m.flushLike φ k).2.2) := by
  rw [mapFlush_eq_flushLike]; exact toSt_flushLike φ m k

theorem mapSyncAll_eq_MapRb_flushLike (φ : Faults) (m : MapRb) (k : Nat) :
    (Gen.mapSyncAll (prims φ)).run m.toSt k =
      ((m.flushLike φ k).1.toSt, (m.flushLike φ k).2.1, (m.flushLike φ k).2.2) := by
  rw [mapSyncAll_eq_flushLike]; exact toSt_flushLike φ m k

theorem mapSyncData_eq_MapRb_flushLike (φ : Faults) (m : MapRb) (k : Nat) :
    (Gen.mapSyncData (prims φ)).run m.toSt k =
      ((m.flushLike φ k).1.toSt, (m.flushLike φ k).2.1, (m.flushLike φ k).2.2) := by
  rw [mapSyncData_eq_flushLike]; exact toSt_flushLike φ m k

end RaBuf
end Abyss
