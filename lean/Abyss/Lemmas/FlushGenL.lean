import Abyss.Gen.FlushOps
import Abyss.Props.RaBufMap
import Abyss.DbSync
/-!
# The generated flush / sync functions reduce to the hand model's `flushLike`

`Abyss/Gen/FlushOps.lean` (generated from `FileDbXxxInner::{flush, sync_all, sync_data}`) is a statement-by-statement
rendering in `FlushM`.  Here: each of the three functions, run on a map, is `MapSt.flushLike` with its per-file action
(`mapFlush_eq_flushLike`, …); instantiated with the chunk-level buffer model `RaBuf` (`flush φ`, `sync φ`) it is
`RaBuf.MapRb.flushLike φ` — the function the C03 theorems of `Abyss/Props/RaBufMap.lean` are about.

Database level (second half): `Gen.dbApplyAll` (generated from `FileDbInner::applay_all`) on registries without repeated
names applies the action to the maps in visiting order (`DbReg.all`: bytes, string, i64, u64, vu64, each in name order)
and stops at the first error (`dbApplyAll_eq_applyList`); so `Gen.dbSyncAll` / `Gen.dbSyncData` are `flushLike` on every
map in that order (`dbSyncAll_eq_applyList`, `dbSyncData_eq_applyList`), and with the hand model's per-map step
`Gen.dbApplyAll` is the hand model `Buf.dbSync` of `Abyss/DbSync.lean` (`Buf.dbApplyAll_eq_dbSync`) — the function the
theorems of `Abyss/Props/C03Db.lean` are about.
-/
namespace Abyss

variable {β : Type}

/-- the shape all three generated functions have, by unfolding -/
theorem flushM_shape (act : FileAct β) (m : MapSt β) (k : Nat) :
    FlushM.run (do
      let isDirty ← FlushM.isDirty
      (if isDirty then do
          FlushM.onVal act
          FlushM.onKey act
          FlushM.onHtx act
          FlushM.setDirty false
          pure ()
        else do
          pure ())
      pure ()) m k = m.flushLike act k := by
  obtain ⟨v, ky, h, d⟩ := m
  simp only [FlushM.run, MapSt.flushLike, bind, pure, FlushM.isDirty, FlushM.onVal, FlushM.onKey, FlushM.onHtx,
    FlushM.setDirty]
  cases d
  · simp
  · cases hv : (act v k).2.2 <;> simp [hv]
    cases (act ky (act v k).2.1).2.2 <;> simp
    cases (act h (act ky (act v k).2.1).2.1).2.2 <;> simp

/-- **`flush` of the map, as generated, is `flushLike` with the file's `flush`** -/
theorem mapFlush_eq_flushLike (p : FilePrims β) (m : MapSt β) (k : Nat) :
    (Gen.mapFlush p).run m k = m.flushLike p.flush k := flushM_shape p.flush m k

theorem mapSyncAll_eq_flushLike (p : FilePrims β) (m : MapSt β) (k : Nat) :
    (Gen.mapSyncAll p).run m k = m.flushLike p.syncAll k := flushM_shape p.syncAll m k

theorem mapSyncData_eq_flushLike (p : FilePrims β) (m : MapSt β) (k : Nat) :
    (Gen.mapSyncData p).run m k = m.flushLike p.syncData k := flushM_shape p.syncData m k

/-- the position of `self.dirty = true` in the constructor and in `put_kt` / `del_kt`, as pinned by the translator -/
theorem dirty_flag_pins : Gen.dirtyAtOpen = true ∧ Gen.putSetsDirty = true ∧ Gen.delSetsDirtyOnlyWhenFound = true :=
  ⟨rfl, rfl, rfl⟩

namespace RaBuf

/-- the three buffered files of the chunk-level model as a `MapSt` -/
def MapRb.toSt (m : MapRb) : MapSt St := ⟨m.val, m.key, m.htx, m.dirty⟩

/-- the per-file actions of the chunk-level buffer: `flush`, and `sync` (= `flush`: `sync_all` / `sync_data` flush first,
the model does not distinguish the kernel's caches) -/
def prims (φ : Faults) : FilePrims St := ⟨flush φ, sync φ, sync φ⟩

theorem toSt_flushLike (φ : Faults) (m : MapRb) (k : Nat) :
    m.toSt.flushLike (flush φ) k = ((m.flushLike φ k).1.toSt, (m.flushLike φ k).2.1, (m.flushLike φ k).2.2) := by
  obtain ⟨v, ky, h, d⟩ := m
  cases d
  · simp [MapSt.flushLike, MapRb.flushLike, MapRb.toSt]
  · by_cases hv : (flush φ v k).2.2 = true
    · by_cases hk : (flush φ ky (flush φ v k).2.1).2.2 = true
      · by_cases hh : (flush φ h (flush φ ky (flush φ v k).2.1).2.1).2.2 = true
        · simp [MapSt.flushLike, MapRb.flushLike, MapRb.toSt, hv, hk, hh]
        · simp [MapSt.flushLike, MapRb.flushLike, MapRb.toSt, hv, hk, hh]
      · simp [MapSt.flushLike, MapRb.flushLike, MapRb.toSt, hv, hk]
    · simp [MapSt.flushLike, MapRb.flushLike, MapRb.toSt, hv]

/-- **the generated `flush` over the `RaBuf` model is `MapRb.flushLike`** (map, fault counter, `Ok`) -/
theorem mapFlush_eq_MapRb_flushLike (φ : Faults) (m : MapRb) (k : Nat) :
    (Gen.mapFlush (prims φ)).run m.toSt k =
      ((m.flushLike φ k).1.toSt, (m.flushLike φ k).2.1, (m.flushLike φ k).2.2) := by
  rw [mapFlush_eq_flushLike]; exact toSt_flushLike φ m k

theorem mapSyncAll_eq_MapRb_flushLike (φ : Faults) (m : MapRb) (k : Nat) :
    (Gen.mapSyncAll (prims φ)).run m.toSt k =
      ((m.flushLike φ k).1.toSt, (m.flushLike φ k).2.1, (m.flushLike φ k).2.2) := by
  rw [mapSyncAll_eq_flushLike]; exact toSt_flushLike φ m k

theorem mapSyncData_eq_MapRb_flushLike (φ : Faults) (m : MapRb) (k : Nat) :
    (Gen.mapSyncData (prims φ)).run m.toSt k =
      ((m.flushLike φ k).1.toSt, (m.flushLike φ k).2.1, (m.flushLike φ k).2.2) := by
  rw [mapSyncData_eq_flushLike]; exact toSt_flushLike φ m k

end RaBuf
end Abyss

/-! ## the database object: `Gen.dbApplyAll`, `Gen.dbSyncAll`, `Gen.dbSyncData` -/
namespace Abyss
variable {μ : Type}

namespace DbReg
@[simp] theorem get_set_self (r : DbReg μ) (k : RegKind) (l : List (String × μ)) : (r.set k l).get k = l := by
  cases k <;> rfl
@[simp] theorem set_set (r : DbReg μ) (k : RegKind) (l l' : List (String × μ)) : (r.set k l).set k l' = r.set k l' := by
  cases k <;> rfl
@[simp] theorem set_get (r : DbReg μ) (k : RegKind) : r.set k (r.get k) = r := by
  cases k <;> rfl
end DbReg

/-- the shape of the five loops of `Gen.dbApplyAll` -/
def regLoop (k : RegKind) (func : MapAct μ) : List String → DbRegM μ Unit
  | [] => pure ()
  | a :: rest => do
    let b ← DbRegM.handle k a
    DbRegM.call func b
    regLoop k func rest

theorem find_pre (a : String) (m : μ) (pre suf : List (String × μ)) (h : ∀ e' ∈ pre, e'.1 ≠ a) :
    (pre ++ (a, m) :: suf).find? (fun e => decide (e.1 = a)) = some (a, m) := by
  induction pre with
  | nil => simp
  | cons e pre ih =>
    have h1 : e.1 ≠ a := h e (List.mem_cons_self ..)
    have h2 := ih (fun e' he' => h e' (List.mem_cons_of_mem _ he'))
    simp [h1, h2]

theorem regUpdate_pre (a : String) (m m' : μ) (pre suf : List (String × μ)) (h : ∀ e' ∈ pre, e'.1 ≠ a) :
    regUpdate a m' (pre ++ (a, m) :: suf) = pre ++ (a, m') :: suf := by
  induction pre with
  | nil => simp [regUpdate]
  | cons e pre ih =>
    have h1 : e.1 ≠ a := h e (List.mem_cons_self ..)
    have h2 := ih (fun e' he' => h e' (List.mem_cons_of_mem _ he'))
    simp [regUpdate, h1, h2]

theorem regLoop_spec (k : RegKind) (func : MapAct μ) :
    ∀ (suf pre : List (String × μ)) (r : DbReg μ), r.get k = pre ++ suf →
      (∀ e ∈ suf, ∀ e' ∈ pre, e'.1 ≠ e.1) → (suf.map (·.1)).Nodup →
      regLoop k func (suf.map (·.1)) r =
        (if (applyList func suf).2 then some () else none, r.set k (pre ++ (applyList func suf).1)) := by
  intro suf
  induction suf with
  | nil =>
    intro pre r h _ _
    have h' : r.get k = pre := by simpa using h
    have : r.set k pre = r := by rw [← h', DbReg.set_get]
    simp [regLoop, applyList, pure, this]
  | cons e suf ih =>
    intro pre r h hdis hnd
    obtain ⟨a, m⟩ := e
    have hpre : ∀ e' ∈ pre, e'.1 ≠ a := fun e' he' => hdis (a, m) (List.mem_cons_self ..) e' he'
    simp only [List.map_cons, List.nodup_cons] at hnd
    have hfind := find_pre a m pre suf hpre
    have hupd := regUpdate_pre a m (func m).1 pre suf hpre
    cases hok : (func m).2 with
    | false =>
      simp [regLoop, bind, DbRegM.handle, DbRegM.call, h, hfind, hupd, hok, applyList]
    | true =>
      have ih' := ih (pre ++ [(a, (func m).1)]) (r.set k (pre ++ (a, (func m).1) :: suf))
        (by simp)
        (by
          intro e he e' he'
          rcases List.mem_append.1 he' with h1 | h1
          · exact hdis e (List.mem_cons_of_mem _ he) e' h1
          · have : e' = (a, (func m).1) := by simpa using h1
            subst this
            intro heq
            exact hnd.1 (List.mem_map.2 ⟨e, he, heq.symm⟩))
        hnd.2
      simp [regLoop, bind, DbRegM.handle, DbRegM.call, h, hfind, hupd, hok, applyList, ih']

/-- one block of `applay_all`: the names of registry `k`, then the loop over them -/
theorem regBlock_spec (k : RegKind) (func : MapAct μ) (r : DbReg μ) (hnd : ((r.get k).map (·.1)).Nodup) :
    (do let keys ← DbRegM.keys k; regLoop k func keys : DbRegM μ Unit) r =
      (if (applyList func (r.get k)).2 then some () else none, r.set k (applyList func (r.get k)).1) := by
  have := regLoop_spec k func (r.get k) [] r (by simp) (by simp) hnd
  simpa [bind, DbRegM.keys] using this

theorem applyList_append (func : MapAct μ) (a b : List (String × μ)) :
    applyList func (a ++ b) =
      if (applyList func a).2 then ((applyList func a).1 ++ (applyList func b).1, (applyList func b).2)
      else ((applyList func a).1 ++ b, false) := by
  induction a with
  | nil => simp [applyList]
  | cons e a ih =>
    obtain ⟨n, m⟩ := e
    cases h1 : (func m).2 <;> cases h2 : (applyList func a).2 <;> simp [applyList, h1, h2, ih]

theorem loop1_eq (func : MapAct μ) (ns : List String) : Gen.dbApplyAllLoop1 func ns = regLoop .bytes func ns := by
  induction ns with
  | nil => rfl
  | cons a ns ih => simp only [Gen.dbApplyAllLoop1, regLoop, ih]
theorem loop2_eq (func : MapAct μ) (ns : List String) : Gen.dbApplyAllLoop2 func ns = regLoop .string func ns := by
  induction ns with
  | nil => rfl
  | cons a ns ih => simp only [Gen.dbApplyAllLoop2, regLoop, ih]
theorem loop3_eq (func : MapAct μ) (ns : List String) : Gen.dbApplyAllLoop3 func ns = regLoop .i64 func ns := by
  induction ns with
  | nil => rfl
  | cons a ns ih => simp only [Gen.dbApplyAllLoop3, regLoop, ih]
theorem loop4_eq (func : MapAct μ) (ns : List String) : Gen.dbApplyAllLoop4 func ns = regLoop .u64 func ns := by
  induction ns with
  | nil => rfl
  | cons a ns ih => simp only [Gen.dbApplyAllLoop4, regLoop, ih]
theorem loop5_eq (func : MapAct μ) (ns : List String) : Gen.dbApplyAllLoop5 func ns = regLoop .vu64 func ns := by
  induction ns with
  | nil => rfl
  | cons a ns ih => simp only [Gen.dbApplyAllLoop5, regLoop, ih]

/-- one block of `applay_all` followed by the rest of the function -/
theorem regBlock_bind {α : Type} (k : RegKind) (func : MapAct μ) (r : DbReg μ) (hnd : ((r.get k).map (·.1)).Nodup)
    (f : Unit → DbRegM μ α) :
    (bind (DbRegM.keys k) (fun keys => bind (regLoop k func keys) f)) r =
      if (applyList func (r.get k)).2 then f () (r.set k (applyList func (r.get k)).1)
      else (none, r.set k (applyList func (r.get k)).1) := by
  have := regLoop_spec k func (r.get k) [] r (by simp) (by simp) hnd
  cases h : (applyList func (r.get k)).2 <;> simp [bind, DbRegM.keys, this, h]

/-- **`applay_all`, as generated, applies `func` to the maps in visiting order (bytes, string, i64, u64, vu64; each in
name order) and stops at the first error** — for registries without repeated names (a `BTreeMap`) -/
theorem dbApplyAll_eq_applyList (func : MapAct μ) (r : DbReg μ) (hnd : ∀ k, ((r.get k).map (·.1)).Nodup) :
    (((Gen.dbApplyAll func).run r).1.all, ((Gen.dbApplyAll func).run r).2) = applyList func r.all := by
  obtain ⟨b, s, i, u, v⟩ := r
  have hb : (b.map (·.1)).Nodup := hnd .bytes
  have hs : (s.map (·.1)).Nodup := hnd .string
  have hi : (i.map (·.1)).Nodup := hnd .i64
  have hu : (u.map (·.1)).Nodup := hnd .u64
  have hv : (v.map (·.1)).Nodup := hnd .vu64
  have e : ∀ r : DbReg μ, (Gen.dbApplyAll func) r =
      (bind (DbRegM.keys .bytes) (fun keys => bind (regLoop .bytes func keys) (fun _ =>
       bind (DbRegM.keys .string) (fun keys => bind (regLoop .string func keys) (fun _ =>
       bind (DbRegM.keys .i64) (fun keys => bind (regLoop .i64 func keys) (fun _ =>
       bind (DbRegM.keys .u64) (fun keys => bind (regLoop .u64 func keys) (fun _ =>
       bind (DbRegM.keys .vu64) (fun keys => bind (regLoop .vu64 func keys) (fun _ => pure ()))))))))))) r := by
    intro r
    simp only [Gen.dbApplyAll, loop1_eq, loop2_eq, loop3_eq, loop4_eq, loop5_eq]
  simp only [DbRegM.run, e]
  rw [regBlock_bind .bytes func ⟨b, s, i, u, v⟩ hb]
  simp only [DbReg.get, DbReg.set, DbReg.all, List.append_assoc]
  rw [applyList_append]
  by_cases hB : (applyList func b).2 = true
  case neg => simp [hB]
  simp only [hB, if_true]
  rw [regBlock_bind .string func ⟨_, s, i, u, v⟩ hs]
  simp only [DbReg.get, DbReg.set]
  rw [applyList_append]
  by_cases hS : (applyList func s).2 = true
  case neg => simp [hS]
  simp only [hS, if_true]
  rw [regBlock_bind .i64 func ⟨_, _, i, u, v⟩ hi]
  simp only [DbReg.get, DbReg.set]
  rw [applyList_append]
  by_cases hI : (applyList func i).2 = true
  case neg => simp [hI]
  simp only [hI, if_true]
  rw [regBlock_bind .u64 func ⟨_, _, _, u, v⟩ hu]
  simp only [DbReg.get, DbReg.set]
  rw [applyList_append]
  by_cases hU : (applyList func u).2 = true
  case neg => simp [hU]
  simp only [hU, if_true]
  rw [regBlock_bind .vu64 func ⟨_, _, _, _, v⟩ hv]
  simp only [DbReg.get, DbReg.set]
  by_cases hV : (applyList func v).2 = true
  case neg => simp [hV]
  simp [hV, pure]

/-- `|o| o.sync_all()` on (map, fault counter), through `mapSyncAll_eq_flushLike` -/
theorem onMap_mapSyncAll {β : Type} (p : FilePrims β) (o : MapSt β × Nat) :
    FlushM.onMap (Gen.mapSyncAll p) o = (((o.1.flushLike p.syncAll o.2).1, (o.1.flushLike p.syncAll o.2).2.1),
      (o.1.flushLike p.syncAll o.2).2.2) := by
  simp only [FlushM.onMap, mapSyncAll_eq_flushLike]

theorem onMap_mapSyncData {β : Type} (p : FilePrims β) (o : MapSt β × Nat) :
    FlushM.onMap (Gen.mapSyncData p) o = (((o.1.flushLike p.syncData o.2).1, (o.1.flushLike p.syncData o.2).2.1),
      (o.1.flushLike p.syncData o.2).2.2) := by
  simp only [FlushM.onMap, mapSyncData_eq_flushLike]

/-- `flushLike` of a map with its own fault counter as a `MapAct` -/
def flushLikeAct {β : Type} (act : FileAct β) : MapAct (MapSt β × Nat) := fun o =>
  (((o.1.flushLike act o.2).1, (o.1.flushLike act o.2).2.1), (o.1.flushLike act o.2).2.2)

/-- **the database-level `sync_all`, as generated: `flushLike` with the files' `sync_all` on every open map in visiting
order, up to the first error** -/
theorem dbSyncAll_eq_applyList {β : Type} (p : FilePrims β) (r : DbReg (MapSt β × Nat))
    (hnd : ∀ k, ((r.get k).map (·.1)).Nodup) :
    (((Gen.dbSyncAll p).run r).1.all, ((Gen.dbSyncAll p).run r).2) = applyList (flushLikeAct p.syncAll) r.all := by
  have : FlushM.onMap (Gen.mapSyncAll p) = flushLikeAct p.syncAll := funext (onMap_mapSyncAll p)
  simpa [Gen.dbSyncAll, this] using dbApplyAll_eq_applyList (flushLikeAct p.syncAll) r hnd

theorem dbSyncData_eq_applyList {β : Type} (p : FilePrims β) (r : DbReg (MapSt β × Nat))
    (hnd : ∀ k, ((r.get k).map (·.1)).Nodup) :
    (((Gen.dbSyncData p).run r).1.all, ((Gen.dbSyncData p).run r).2) = applyList (flushLikeAct p.syncData) r.all := by
  have : FlushM.onMap (Gen.mapSyncData p) = flushLikeAct p.syncData := funext (onMap_mapSyncData p)
  simpa [Gen.dbSyncData, this] using dbApplyAll_eq_applyList (flushLikeAct p.syncData) r hnd

namespace Buf

/-- the hand model's per-map step as a `MapAct` on (buffers, fault schedule) -/
def syncAct (kind : SyncKind) : MapAct (MapBuf × Faults) := fun o =>
  (((o.1.flushLike o.2 kind).1, o.2), (o.1.flushLike o.2 kind).2.1)

/-- **the hand model `dbSync` (`Abyss/DbSync.lean`) is `applyList`** — the shape `Gen.dbApplyAll` has
(`dbApplyAll_eq_applyList`) -/
theorem dbSync_eq_applyList (kind : SyncKind) (l : List (String × MapBuf × Faults)) :
    dbSync kind l = applyList (syncAct kind) l := by
  induction l with
  | nil => rfl
  | cons e l ih =>
    obtain ⟨n, m, φ⟩ := e
    cases h : (m.flushLike φ kind).2.1 <;> simp [dbSync, applyList, syncAct, h, ih]

/-- **`applay_all`, as generated, with the hand model's per-map step is the hand model `dbSync`** on the maps in visiting
order -/
theorem dbApplyAll_eq_dbSync (kind : SyncKind) (r : DbReg (MapBuf × Faults)) (hnd : ∀ k, ((r.get k).map (·.1)).Nodup) :
    (((Gen.dbApplyAll (syncAct kind)).run r).1.all, ((Gen.dbApplyAll (syncAct kind)).run r).2) = dbSync kind r.all := by
  rw [dbSync_eq_applyList]; exact dbApplyAll_eq_applyList (syncAct kind) r hnd

end Buf

end Abyss
