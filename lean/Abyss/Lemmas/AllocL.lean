import Abyss.Inv
/-!
# Record-file allocator: well-formedness is preserved and the allocation contract holds

Helper lemmas only (property theorems live in `Abyss/Props`). The store-level proofs use only the
`used` view of a record file through the `*_spec` lemmas below.
-/
namespace Abyss
variable {α : Type}

/-- facts about the (generated) size table and free-list-head table of a record file that the
allocator proofs need; proved for `keyCfg` and `valCfg` by evaluation. -/
structure CfgOK (c : FileCfg) : Prop where
  hdr_pos : 0 < c.headerSz
  idx_lt : ∀ sz, RecFile.headIdx c sz < 16
  legal_pos : ∀ sz, LegalSz c sz → 0 < sz
  /-- a small class list holds exactly one size -/
  small_exact : ∀ sz sz', LegalSz c sz → LegalSz c sz' →
    Gen.isLargePieceSize c.sizeAry sz = false → RecFile.headIdx c sz' = RecFile.headIdx c sz → sz' = sz
  /-- all large sizes share one list, and only they -/
  large_idx : ∀ sz sz', LegalSz c sz → LegalSz c sz' → Gen.isLargePieceSize c.sizeAry sz = true →
    (RecFile.headIdx c sz' = RecFile.headIdx c sz ↔ Gen.isLargePieceSize c.sizeAry sz' = true)
  roundup_legal : ∀ x, 1 ≤ x → LegalSz c (Gen.roundup c.sizeAry x)
  roundup_ge : ∀ x, 1 ≤ x → x ≤ Gen.roundup c.sizeAry x

theorem keyCfg_ok : CfgOK keyCfg := by sorry
theorem valCfg_ok : CfgOK valCfg := by sorry

namespace RecFile

/-- number of used slots -/
def usedCount (f : RecFile α) : Nat :=
  (f.slots.filter fun p => match p.2 with | .used _ _ => true | _ => false).length

theorem get_set_self (f : RecFile α) (o : Nat) (s : Slot α) : (f.set o s).get o = some s := by sorry
theorem get_set_ne (f : RecFile α) (o o' : Nat) (s : Slot α) (h : o' ≠ o) :
    (f.set o s).get o' = f.get o' := by sorry

theorem WF.empty (c : FileCfg) : WF c (RecFile.empty c : RecFile α) := by sorry

/-- a slot lies inside the file, behind the header, and has a positive size -/
theorem WF.get_bounds {c : FileCfg} {f : RecFile α} (hc : CfgOK c) (h : WF c f) {o : Nat} {s : Slot α}
    (hg : f.get o = some s) : c.headerSz ≤ o ∧ o + s.size ≤ f.end_ ∧ 0 < s.size := by sorry
theorem WF.get_end {c : FileCfg} {f : RecFile α} (hc : CfgOK c) (h : WF c f) : f.get f.end_ = none := by sorry
theorem WF.hdr_le_end {c : FileCfg} {f : RecFile α} (h : WF c f) : c.headerSz ≤ f.end_ := by sorry

/-- `add piece`: never fails; the new record is at an offset that held no used record; all
other used records are untouched. -/
theorem addPiece_spec {c : FileCfg} {f : RecFile α} (hc : CfgOK c) (h : WF c f) {need : Nat}
    (hn : LegalSz c need) (p : α) :
    ∃ off sz f', addPiece c f need p = some (off, f') ∧ WF c f' ∧ need ≤ sz ∧
      f'.used off = some (sz, p) ∧ f.used off = none ∧ off ≠ 0 ∧
      (∀ o, o ≠ off → f'.used o = f.used o) ∧
      usedCount f' = usedCount f + 1 ∧ f.slots.length ≤ f'.slots.length ∧ f.end_ ≤ f'.end_ := by sorry

/-- `rewrite piece`: never fails on a used record; either in place (same offset, same slot size)
or moved to an offset that held no used record, the old slot being free afterwards; all other
used records are untouched. -/
theorem rewrite_spec {c : FileCfg} {f : RecFile α} (hc : CfgOK c) (h : WF c f) {off sz0 : Nat} {p0 : α}
    (hu : f.used off = some (sz0, p0)) {need : Nat} (hn : LegalSz c need) (p : α) :
    ∃ off' sz' f', rewrite c f off need p = some (off', f') ∧ WF c f' ∧
      f'.used off' = some (sz', p) ∧ need ≤ sz' ∧
      ((off' = off ∧ sz' = sz0) ∨ (off' ≠ off ∧ off' ≠ 0 ∧ f.used off' = none ∧ f'.used off = none)) ∧
      (∀ o, o ≠ off → o ≠ off' → f'.used o = f.used o) ∧
      usedCount f' = usedCount f ∧ f.slots.length ≤ f'.slots.length ∧ f.end_ ≤ f'.end_ := by sorry

/-- `delete piece`: never fails on a used record; it becomes free; the others are untouched. -/
theorem deletePiece_spec {c : FileCfg} {f : RecFile α} (hc : CfgOK c) (h : WF c f) {off sz0 : Nat} {p0 : α}
    (hu : f.used off = some (sz0, p0)) :
    ∃ f', deletePiece c f off = some f' ∧ WF c f' ∧ f'.used off = none ∧
      (∀ o, o ≠ off → f'.used o = f.used o) ∧
      usedCount f' + 1 = usedCount f ∧ f'.slots.length = f.slots.length ∧ f'.end_ = f.end_ := by sorry

/-- the file is extended only if the free list of the requested class offers nothing that fits -/
theorem addPiece_extends_only_if {c : FileCfg} {f f' : RecFile α} (hc : CfgOK c) (h : WF c f) {need off : Nat}
    (hn : LegalSz c need) {p : α} (hadd : addPiece c f need p = some (off, f')) (hext : f.end_ < f'.end_) :
    ∀ l, freeList f (headIdx c need) = some l → ∀ o ∈ l, ∀ sz nx, f.get o = some (.free sz nx) → sz < need := by sorry

/-- and when it is not extended, the record went into a slot that was free -/
theorem addPiece_reuses {c : FileCfg} {f f' : RecFile α} (hc : CfgOK c) (h : WF c f) {need off : Nat}
    (hn : LegalSz c need) {p : α} (hadd : addPiece c f need p = some (off, f')) (hext : f'.end_ = f.end_) :
    ∃ sz nx, f.get off = some (.free sz nx) ∧ need ≤ sz := by sorry

/-- the free-slot count reported for a class is the length of its free list -/
theorem countFree_spec {c : FileCfg} {f : RecFile α} (hc : CfgOK c) (h : WF c f) (sz : Nat) :
    ∃ l, freeList f (headIdx c sz) = some l ∧ countFree c f sz = some l.length := by sorry

/-- the sequential slot walk terminates and visits exactly the slots, in address order -/
theorem walk_spec {c : FileCfg} {f : RecFile α} (hc : CfgOK c) (h : WF c f) : walk c f = some f.slots := by sorry

end RecFile
end Abyss
