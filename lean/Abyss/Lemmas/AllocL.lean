import Abyss.Lemmas.AllocOps
/-!
# Record-file allocator: well-formedness is preserved and the allocation contract holds

Helper lemmas only (property theorems live in `Abyss/Props`). The store-level proofs use only the
`used` view of a record file through the `*_spec` lemmas below.

The structure `CfgOK` and its instances `keyCfg_ok`, `valCfg_ok` live in `Abyss/Lemmas/AllocCfg.lean`
(the helper files need them); `RecFile.usedCount`, `RecFile.get_set_self`, `RecFile.get_set_ne` live
in `Abyss/Lemmas/AllocWF.lean`. Their names and statements are unchanged; they are re-checked below.
-/
namespace Abyss
variable {α : Type}

/- facts about the (generated) size table and free-list-head table of a record file that the
allocator proofs need; proved for `keyCfg` and `valCfg` by evaluation (`AllocCfg.lean`):

structure CfgOK (c : FileCfg) : Prop where
  hdr_pos : 0 < c.headerSz
  idx_lt : ∀ sz, RecFile.headIdx c sz < 16
  legal_pos : ∀ sz, LegalSz c sz → 0 < sz
  small_exact : ∀ sz sz', LegalSz c sz → LegalSz c sz' →
    Gen.isLargePieceSize c.sizeAry sz = false → RecFile.headIdx c sz' = RecFile.headIdx c sz → sz' = sz
  large_idx : ∀ sz sz', LegalSz c sz → LegalSz c sz' → Gen.isLargePieceSize c.sizeAry sz = true →
    (RecFile.headIdx c sz' = RecFile.headIdx c sz ↔ Gen.isLargePieceSize c.sizeAry sz' = true)
  roundup_legal : ∀ x, 1 ≤ x → LegalSz c (Gen.roundup c.sizeAry x)
  roundup_ge : ∀ x, 1 ≤ x → x ≤ Gen.roundup c.sizeAry x
-/
example : CfgOK keyCfg := keyCfg_ok
example : CfgOK valCfg := valCfg_ok

namespace RecFile

/- number of used slots (`AllocWF.lean`) -/
example (f : RecFile α) : usedCount f =
    (f.slots.filter fun p => match p.2 with | .used _ _ => true | _ => false).length := rfl

example (f : RecFile α) (o : Nat) (s : Slot α) : (f.set o s).get o = some s := get_set_self f o s
example (f : RecFile α) (o o' : Nat) (s : Slot α) (h : o' ≠ o) :
    (f.set o s).get o' = f.get o' := get_set_ne f o o' s h

theorem getD_replicate_zero (n i : Nat) : (List.replicate n 0).getD i 0 = 0 := by
  induction n generalizing i with
  | zero => simp
  | succ n ih =>
    cases i with
    | zero => simp [List.replicate_succ]
    | succ i => simpa [List.replicate_succ] using ih i

theorem WF.empty (c : FileCfg) : WF c (RecFile.empty c : RecFile α) where
  tiled := rfl
  heads_len := by simp [RecFile.empty]
  sizes o s h := by simp [RecFile.empty, get, aget] at h
  lists i hi := by
    refine ⟨[], ?_, List.nodup_nil, by simp⟩
    have : (RecFile.empty c : RecFile α).heads.getD i 0 = 0 := getD_replicate_zero 16 i
    unfold freeList
    rw [this]
    rfl
  onlist o sz nx h := by simp [RecFile.empty, get, aget] at h

set_option linter.unusedVariables false in
/-- a slot lies inside the file, behind the header, and has a positive size -/
theorem WF.get_bounds {c : FileCfg} {f : RecFile α} (hc : CfgOK c) (h : WF c f) {o : Nat} {s : Slot α}
    (hg : f.get o = some s) : c.headerSz ≤ o ∧ o + s.size ≤ f.end_ ∧ 0 < s.size := h.tiled.bounds hg
set_option linter.unusedVariables false in
theorem WF.get_end {c : FileCfg} {f : RecFile α} (hc : CfgOK c) (h : WF c f) : f.get f.end_ = none :=
  h.tiled.aget_end
theorem WF.hdr_le_end {c : FileCfg} {f : RecFile α} (h : WF c f) : c.headerSz ≤ f.end_ := h.tiled.le

/-- `add piece`: never fails; the new record is at an offset that held no used record; all
other used records are untouched. -/
theorem addPiece_spec {c : FileCfg} {f : RecFile α} (hc : CfgOK c) (h : WF c f) {need : Nat}
    (hn : LegalSz c need) (p : α) :
    ∃ off sz f', addPiece c f need p = some (off, f') ∧ WF c f' ∧ need ≤ sz ∧
      f'.used off = some (sz, p) ∧ f.used off = none ∧ off ≠ 0 ∧
      (∀ o, o ≠ off → f'.used o = f.used o) ∧
      usedCount f' = usedCount f + 1 ∧ f.slots.length ≤ f'.slots.length ∧ f.end_ ≤ f'.end_ := by
  obtain ⟨off, sz, f', a1, a2, a3, a4, a5, a6, a7, a8, a9, a10, _⟩ := addPiece_full hc h hn p
  exact ⟨off, sz, f', a1, a2, a3, a4, a5, a6, a7, a8, a9, a10⟩

/-- `rewrite piece`: never fails on a used record; either in place (same offset, same slot size)
or moved to an offset that held no used record, the old slot being free afterwards; all other
used records are untouched. -/
theorem rewrite_spec {c : FileCfg} {f : RecFile α} (hc : CfgOK c) (h : WF c f) {off sz0 : Nat} {p0 : α}
    (hu : f.used off = some (sz0, p0)) {need : Nat} (hn : LegalSz c need) (p : α) :
    ∃ off' sz' f', rewrite c f off need p = some (off', f') ∧ WF c f' ∧
      f'.used off' = some (sz', p) ∧ need ≤ sz' ∧
      ((off' = off ∧ sz' = sz0) ∨ (off' ≠ off ∧ off' ≠ 0 ∧ f.used off' = none ∧ f'.used off = none)) ∧
      (∀ o, o ≠ off → o ≠ off' → f'.used o = f.used o) ∧
      usedCount f' = usedCount f ∧ f.slots.length ≤ f'.slots.length ∧ f.end_ ≤ f'.end_ := by
  have hg := used_eq_some.mp hu
  by_cases hle : need ≤ sz0
  · have hsz : (Slot.used sz0 p : Slot α).size = (Slot.used sz0 p0 : Slot α).size := rfl
    have w := ((h.toWFH (x := off) (by intro _ _; rw [hg]; simp)).set_same hc hg hsz).toWF
      (by intro _ _; rw [get_set_self]; simp)
    refine ⟨off, sz0, f.set off (.used sz0 p), by simp [rewrite, hg, Slot.size, hle], w,
      used_eq_some.mpr (get_set_self _ _ _), hle, Or.inl ⟨rfl, rfl⟩,
      fun o ho _ => used_set_ne _ _ _ _ ho, ?_, ?_, ?_⟩
    · have := usedCount_set_some (.used sz0 p) hg
      simpa [Slot.isUsed] using this
    · rw [set_length_same _ hg]; exact Nat.le_refl _
    · rw [set_end_same h.tiled hg hsz]; exact Nat.le_refl _
  · obtain ⟨w1, ⟨nx1, g1⟩, g2, g3, g4, g5⟩ := pushFree_spec hc h hg
    obtain ⟨off', sz', f', a1, a2, a3, a4, a5, a6, a7, a8, a9, a10, a11⟩ := addPiece_full hc w1 hn p
    have hb := h.tiled.bounds hg
    have hne : off' ≠ off := by
      rcases a11 with ⟨e, _, _⟩ | ⟨nx, e, _⟩
      · rw [e, g5]; omega
      · intro e'; subst e'
        rw [g1] at e
        simp only [Option.some.injEq, Slot.free.injEq] at e
        omega
    refine ⟨off', sz', f', by simp [rewrite, hg, Slot.size, hle, a1], a2, a4, a3,
      Or.inr ⟨hne, a6, ?_, ?_⟩, ?_, by omega, by omega, by omega⟩
    · rw [← a5]; unfold used; rw [g2 off' hne]
    · rw [a7 off (Ne.symm hne)]; exact used_of_free g1
    · intro o ho ho'
      rw [a7 o ho']; unfold used; rw [g2 o ho]

/-- `delete piece`: never fails on a used record; it becomes free; the others are untouched. -/
theorem deletePiece_spec {c : FileCfg} {f : RecFile α} (hc : CfgOK c) (h : WF c f) {off sz0 : Nat} {p0 : α}
    (hu : f.used off = some (sz0, p0)) :
    ∃ f', deletePiece c f off = some f' ∧ WF c f' ∧ f'.used off = none ∧
      (∀ o, o ≠ off → f'.used o = f.used o) ∧
      usedCount f' + 1 = usedCount f ∧ f'.slots.length = f.slots.length ∧ f'.end_ = f.end_ := by
  have hg := used_eq_some.mp hu
  obtain ⟨w1, ⟨nx1, g1⟩, g2, g3, g4, g5⟩ := pushFree_spec hc h hg
  refine ⟨pushFree c f off sz0, by simp [deletePiece, hg, Slot.size], w1, used_of_free g1, ?_, g3, g4, g5⟩
  intro o ho; unfold used; rw [g2 o ho]

/-- the file is extended only if the free list of the requested class offers nothing that fits -/
theorem addPiece_extends_only_if {c : FileCfg} {f f' : RecFile α} (hc : CfgOK c) (h : WF c f) {need off : Nat}
    (hn : LegalSz c need) {p : α} (hadd : addPiece c f need p = some (off, f')) (hext : f.end_ < f'.end_) :
    ∀ l, freeList f (headIdx c need) = some l → ∀ o ∈ l, ∀ sz nx, f.get o = some (.free sz nx) → sz < need := by
  obtain ⟨off', sz', f'', a1, _, _, _, _, _, _, _, _, _, a11⟩ := addPiece_full hc h hn p
  rw [hadd] at a1
  simp only [Option.some.injEq, Prod.mk.injEq] at a1
  obtain ⟨rfl, rfl⟩ := a1
  rcases a11 with ⟨_, _, hs⟩ | ⟨_, _, e⟩
  · intro l hl
    exact hs l ((freeChain_iff _ _ _ _).mp hl).1
  · omega

/-- and when it is not extended, the record went into a slot that was free -/
theorem addPiece_reuses {c : FileCfg} {f f' : RecFile α} (hc : CfgOK c) (h : WF c f) {need off : Nat}
    (hn : LegalSz c need) {p : α} (hadd : addPiece c f need p = some (off, f')) (hext : f'.end_ = f.end_) :
    ∃ sz nx, f.get off = some (.free sz nx) ∧ need ≤ sz := by
  obtain ⟨off', sz', f'', a1, _, a3, _, _, _, _, _, _, _, a11⟩ := addPiece_full hc h hn p
  rw [hadd] at a1
  simp only [Option.some.injEq, Prod.mk.injEq] at a1
  obtain ⟨rfl, rfl⟩ := a1
  rcases a11 with ⟨_, e, _⟩ | ⟨nx, e, _⟩
  · have := hc.legal_pos _ hn
    omega
  · exact ⟨sz', nx, e, a3⟩

theorem countFreeFrom_of_chain {f : RecFile α} {l : List Nat} : ∀ {fuel cur : Nat},
    IsChain f cur l → l.length < fuel → countFreeFrom f fuel cur = some l.length := by
  induction l with
  | nil =>
    intro fuel cur hc hf
    obtain ⟨fuel, rfl⟩ : ∃ k, fuel = k + 1 := ⟨fuel - 1, by omega⟩
    have : cur = 0 := hc
    simp [countFreeFrom, this]
  | cons o l ih =>
    intro fuel cur hc hf
    obtain ⟨fuel, rfl⟩ : ∃ k, fuel = k + 1 := ⟨fuel - 1, by omega⟩
    obtain ⟨h0, rfl, sz, nx, hg, hnx⟩ := hc
    simp only [List.length_cons, Nat.add_lt_add_iff_right] at hf
    simp [countFreeFrom, h0, hg, ih hnx hf]

/-- the free-slot count reported for a class is the length of its free list -/
theorem countFree_spec {c : FileCfg} {f : RecFile α} (hc : CfgOK c) (h : WF c f) (sz : Nat) :
    ∃ l, freeList f (headIdx c sz) = some l ∧ countFree c f sz = some l.length := by
  obtain ⟨l, hl, _, _⟩ := h.lists _ (hc.idx_lt sz)
  refine ⟨l, hl, ?_⟩
  obtain ⟨a, b⟩ := (freeChain_iff _ _ _ _).mp hl
  exact countFreeFrom_of_chain a b

theorem walkFrom_of_tiled {f : RecFile α} {rest : List (Nat × Slot α)} : ∀ {a : Nat},
    (∀ p ∈ rest, f.get p.1 = some p.2) → Tiled rest a f.end_ →
    walkFrom f (rest.length + 1) a = some rest := by
  induction rest with
  | nil =>
    intro a _ ht
    have : a = f.end_ := ht
    simp [walkFrom, this]
  | cons q rest ih =>
    intro a hm ht
    obtain ⟨o, s⟩ := q
    obtain ⟨rfl, hpos, ht'⟩ := ht
    have hle := ht'.le
    have hg : f.get o = some s := hm (o, s) (by simp)
    have hlt : o < f.end_ := by omega
    have hne : ¬ s.size = 0 := by omega
    have := ih (fun p hp => hm p (List.mem_cons_of_mem _ hp)) ht'
    simp only [List.length_cons]
    rw [walkFrom]
    simp [hlt, hg, hne, this]

set_option linter.unusedVariables false in
/-- the sequential slot walk terminates and visits exactly the slots, in address order -/
theorem walk_spec {c : FileCfg} {f : RecFile α} (hc : CfgOK c) (h : WF c f) : walk c f = some f.slots :=
  walkFrom_of_tiled (fun _ hp => h.tiled.aget_of_mem hp) h.tiled

end RecFile
end Abyss
