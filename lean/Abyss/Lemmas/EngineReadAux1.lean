import Abyss.Lemmas.EngineHtx
/-!
# generated engine vs model: the monad `DbM` and the readers on an image (`DbSt.IsImage`)

Small lemmas for `DbM` (the analogues of `FileM.bind_some`, `FileM.pure_apply`), the lifts of a
one-file function, and the record readers / hash-table readers run on a state whose three files
hold the rendered image of a model state (`d.IsImage kt s`): they return the stored fields and
move one cursor only.
-/
namespace Abyss
open Store FileM

namespace DbM

theorem bind_some {α β : Type} {m : DbM α} {f : α → DbM β} {d d' : DbSt} {a : α}
    (h : m d = some (a, d')) : (m >>= f) d = f a d' := by
  show (match m d with | none => none | some (a, s') => f a s') = _
  rw [h]

theorem bind_none {α β : Type} {m : DbM α} {f : α → DbM β} {d : DbSt}
    (h : m d = none) : (m >>= f) d = none := by
  show (match m d with | none => none | some (a, s') => f a s') = _
  rw [h]

theorem pure_apply {α : Type} (a : α) (d : DbSt) : (pure a : DbM α) d = some (a, d) := rfl

theorem pure_bind_apply {α β : Type} (a : α) (k : α → DbM β) (d : DbSt) : (pure a >>= k) d = k a d := rfl

theorem fail_apply {α : Type} (d : DbSt) : (DbM.fail : DbM α) d = none := rfl

theorem bind_assoc_apply {α β γ : Type} (m : DbM α) (g : α → DbM β) (k : β → DbM γ) (d : DbSt) :
    ((m >>= g) >>= k) d = (m >>= fun a => g a >>= k) d := by
  show (match (match m d with | none => none | some (a, s') => g a s') with
        | none => none | some (b, s'') => k b s'') =
       (match m d with | none => none | some (a, s') => (g a >>= k) s')
  cases m d with
  | none => rfl
  | some p => rfl

theorem keyLen_apply (d : DbSt) : DbM.keyLen d = some (d.key.bytes.length, d) := rfl

theorem liftHtx_some {α : Type} {m : FileM.M α} {d : DbSt} {a : α} {f : FSt}
    (h : m d.htx = some (a, f)) : liftHtx m d = some (a, { d with htx := f }) := by
  show (match m d.htx with | none => none | some (a, f) => some (a, { d with htx := f })) = _
  rw [h]

theorem liftKey_some {α : Type} {m : FileM.M α} {d : DbSt} {a : α} {f : FSt}
    (h : m d.key = some (a, f)) : liftKey m d = some (a, { d with key := f }) := by
  show (match m d.key with | none => none | some (a, f) => some (a, { d with key := f })) = _
  rw [h]

theorem liftVal_some {α : Type} {m : FileM.M α} {d : DbSt} {a : α} {f : FSt}
    (h : m d.val = some (a, f)) : liftVal m d = some (a, { d with val := f }) := by
  show (match m d.val with | none => none | some (a, f) => some (a, { d with val := f })) = _
  rw [h]

end DbM

/-! ## images -/

theorem FSt.eta (f : FSt) : f = ⟨f.bytes, f.pos⟩ := rfl

namespace DbSt.IsImage
variable {kt : KeyType} {s : Store} {d : DbSt}

theorem htx_eq (h : d.IsImage kt s) : d.htx = ⟨(render kt s).htx, d.htx.pos⟩ := by
  rw [← h.1]
theorem key_eq (h : d.IsImage kt s) : d.key = ⟨renderKeyFile kt.sig s.kf, d.key.pos⟩ := by
  have := h.2.1
  show d.key = ⟨(render kt s).key, d.key.pos⟩
  rw [← this]
theorem val_eq (h : d.IsImage kt s) : d.val = ⟨renderValFile kt.sig s.vf, d.val.pos⟩ := by
  have := h.2.2
  show d.val = ⟨(render kt s).val, d.val.pos⟩
  rw [← this]

/-- moving the cursor of the hash-table file keeps the image -/
theorem setHtx (h : d.IsImage kt s) {f : FSt} (hf : f.bytes = (render kt s).htx) :
    DbSt.IsImage kt s { d with htx := f } := ⟨hf, h.2.1, h.2.2⟩
theorem setKey (h : d.IsImage kt s) {f : FSt} (hf : f.bytes = (render kt s).key) :
    DbSt.IsImage kt s { d with key := f } := ⟨h.1, hf, h.2.2⟩
theorem setVal (h : d.IsImage kt s) {f : FSt} (hf : f.bytes = (render kt s).val) :
    DbSt.IsImage kt s { d with val := f } := ⟨h.1, h.2.1, hf⟩

theorem key_length (g : Store.Regular kt s) (h : d.IsImage kt s) : d.key.bytes.length = s.kf.end_ := by
  rw [h.2.1]
  have hr := renderable_of_sized g.inv g.sized g.kend g.vend g.n_lt
  exact image_length (byteOK_key g.inv hr g.kend).lay

end DbSt.IsImage

theorem imageSt_isImage (kt : KeyType) (s : Store) (ph pk pv : Nat) : (imageSt kt s ph pk pv).IsImage kt s :=
  ⟨rfl, rfl, rfl⟩

namespace Store.Regular
variable {kt : KeyType} {s : Store}

theorem renderable (g : Store.Regular kt s) : Store.Renderable kt s :=
  renderable_of_sized g.inv g.sized g.kend g.vend g.n_lt

theorem kok (g : Store.Regular kt s) : KOK kt.sig s.kf := byteOK_key g.inv g.renderable g.kend
theorem vok (g : Store.Regular kt s) : VOK kt.sig s.vf := byteOK_val g.inv g.renderable g.vend

/-- a stored key record has its fields within bounds -/
theorem fits (g : Store.Regular kt s) {off sz : Nat} {r : KeyRec} (hu : s.kf.get off = some (.used sz r)) :
    r.Fits := by
  have := g.renderable.kslots (off, .used sz r) (mem_slots_of_get _ _ _ hu)
  obtain ⟨_, h1, h2, h3, h4, h5, _⟩ := this
  exact ⟨h1, h2, h3, h4, h5⟩

/-- a stored value is shorter than 2^31 bytes -/
theorem vlen (g : Store.Regular kt s) {off sz : Nat} {v : List Nat} (hu : s.vf.get off = some (.used sz v)) :
    v.length < 2^31 :=
  (g.sized.vfit off sz v (used_of_get _ _ _ _ hu)).2

end Store.Regular

/-! ## the readers on an image: the stored field, one cursor moved -/

section
variable {kt : KeyType} {s : Store} {d : DbSt}

/-- the key-file readers at a used slot -/
theorem keyRead_img (g : Store.Regular kt s) (hd : d.IsImage kt s) {off sz : Nat} {r : KeyRec}
    (hu : s.kf.get off = some (.used sz r)) :
    (∃ pos', DbM.liftKey (Gen.keyReadPiece off) d =
        some ((sz, r.key, r.valOff, r.next), { d with key := ⟨d.key.bytes, pos'⟩ })) ∧
    (∃ pos', DbM.liftKey (Gen.keyReadPieceOnlyKey off) d = some (r.key, { d with key := ⟨d.key.bytes, pos'⟩ })) ∧
    (∃ pos', DbM.liftKey (Gen.keyReadPieceOnlyKeyMaybeslice off) d =
        some (r.key, { d with key := ⟨d.key.bytes, pos'⟩ })) ∧
    (∃ pos', DbM.liftKey (Gen.keyReadPieceOnlyValueOffset off) d =
        some (r.valOff, { d with key := ⟨d.key.bytes, pos'⟩ })) ∧
    (∃ pos', DbM.liftKey (Gen.keyReadPieceOnlyBucketNextOffset off) d =
        some (r.next, { d with key := ⟨d.key.bytes, pos'⟩ })) ∧
    (∃ pos', DbM.liftKey (Gen.keyReadPieceOnlySize off) d = some (sz, { d with key := ⟨d.key.bytes, pos'⟩ })) := by
  obtain ⟨⟨p1, h1⟩, ⟨p2, h2⟩, ⟨p3, h3⟩, ⟨p4, h4⟩, ⟨p5, h5⟩⟩ := keyRead_bytes g.kok hu (g.fits hu) d.key.pos
  have hb : d.key.bytes = renderKeyFile kt.sig s.kf := hd.2.1
  rw [← hd.key_eq] at h1 h2 h3 h4 h5
  rw [← hb] at h1 h2 h3 h4 h5
  exact ⟨⟨p1, DbM.liftKey_some h1⟩, ⟨p2, DbM.liftKey_some h2⟩, ⟨p2, DbM.liftKey_some h2⟩,
    ⟨p3, DbM.liftKey_some h3⟩, ⟨p4, DbM.liftKey_some h4⟩, ⟨p5, DbM.liftKey_some h5⟩⟩

/-- the value-file readers at a used slot -/
theorem valRead_img (g : Store.Regular kt s) (hd : d.IsImage kt s) {off sz : Nat} {v : List Nat}
    (hu : s.vf.get off = some (.used sz v)) :
    (∃ pos', DbM.liftVal (Gen.valReadPiece off) d = some ((sz, v), { d with val := ⟨d.val.bytes, pos'⟩ })) ∧
    (∃ pos', DbM.liftVal (Gen.valReadPieceOnlyValue off) d = some (v, { d with val := ⟨d.val.bytes, pos'⟩ })) ∧
    (∃ pos', DbM.liftVal (Gen.valReadPieceOnlySize off) d = some (sz, { d with val := ⟨d.val.bytes, pos'⟩ })) := by
  obtain ⟨⟨p1, h1⟩, ⟨p2, h2⟩, ⟨p3, h3⟩⟩ := valRead_bytes g.vok hu (g.vlen hu) d.val.pos
  have hb : d.val.bytes = renderValFile kt.sig s.vf := hd.2.2
  rw [← hd.val_eq] at h1 h2 h3
  rw [← hb] at h1 h2 h3
  exact ⟨⟨p1, DbM.liftVal_some h1⟩, ⟨p2, DbM.liftVal_some h2⟩, ⟨p3, DbM.liftVal_some h3⟩⟩

/-- the head of a bucket, read from the hash-table file -/
theorem htxRead_img (g : Store.Regular kt s) (hd : d.IsImage kt s) (hash : Nat) :
    ∃ pos', DbM.liftHtx (Gen.htxReadKeyPieceOffset s.n hash) d =
      some (s.headOf (hash % s.n), { d with htx := ⟨d.htx.bytes, pos'⟩ }) := by
  obtain ⟨p, h⟩ := htxRead_bytes (kt := kt) g hash d.htx.pos
  have hb : d.htx.bytes = (render kt s).htx := hd.1
  rw [← hd.htx_eq] at h
  rw [← hb] at h
  exact ⟨p, DbM.liftHtx_some h⟩

/-- the item count, read from the hash-table file -/
theorem htxCount_img (g : Store.Regular kt s) (hd : d.IsImage kt s) :
    ∃ pos', DbM.liftHtx Gen.htxReadItemCountH d = some (s.count, { d with htx := ⟨d.htx.bytes, pos'⟩ }) := by
  obtain ⟨p, h⟩ := (htxCount_bytes (kt := kt) g d.htx.pos).1
  have hb : d.htx.bytes = (render kt s).htx := hd.1
  rw [← hd.htx_eq] at h
  rw [← hb] at h
  exact ⟨p, DbM.liftHtx_some h⟩

/-- moving cursors keeps the image -/
theorem DbSt.IsImage.htxPos (hd : d.IsImage kt s) (p : Nat) :
    DbSt.IsImage kt s { d with htx := ⟨d.htx.bytes, p⟩ } := hd.setHtx hd.1
theorem DbSt.IsImage.keyPos (hd : d.IsImage kt s) (p : Nat) :
    DbSt.IsImage kt s { d with key := ⟨d.key.bytes, p⟩ } := hd.setKey hd.2.1
theorem DbSt.IsImage.valPos (hd : d.IsImage kt s) (p : Nat) :
    DbSt.IsImage kt s { d with val := ⟨d.val.bytes, p⟩ } := hd.setVal hd.2.2

end

end Abyss
