import Abyss.Lemmas.ApiGenL
/-!
# Auxiliary lemmas for `Abyss/Props/C14Gen.lean`

From processing order back to input order: answers remembered with the index of their key, for a
processing order that is a permutation of `ApiM.enumerate ks`, come back in input order after
`ApiM.sortByIdx`.  And `getSeq` under a `get` that answers a fixed function and keeps an invariant.
-/
namespace Abyss
open Gen
variable {σ α β : Type}

namespace ApiM

/-- the indices of `enumerate l` are strictly ascending -/
theorem enumerate_pairwise_lt (l : List α) : (enumerate l).Pairwise fun a b => a.1 < b.1 := by
  have h : ((enumerate l).map (·.1)).Pairwise (· < ·) := by
    rw [enumerate_map_fst]; exact List.pairwise_lt_range
  exact List.pairwise_map.1 h

/-- answers stored with the index of their key, for a processing order `p` that is a permutation of
the enumerated batch, come back in input order -/
theorem sortByIdx_restore (ks : List α) (f : α → β) (p : List (Nat × α)) (hp : p.Perm (enumerate ks)) :
    (sortByIdx (p.map fun q => (q.1, f q.2))).map (·.2) = ks.map f := by
  have hE : ((enumerate ks).map fun q => (q.1, f q.2)).Pairwise fun a b => a.1 < b.1 :=
    List.pairwise_map.2 (enumerate_pairwise_lt ks)
  have hperm : (sortByIdx (p.map fun q => (q.1, f q.2))).Perm ((enumerate ks).map fun q => (q.1, f q.2)) :=
    (sortByIdx_perm _).trans (hp.map _)
  have hnd : (sortByIdx (p.map fun q => (q.1, f q.2))).Pairwise fun a b => a.1 ≠ b.1 :=
    (hperm.pairwise_iff (fun {a b} (h : a.1 ≠ b.1) => Ne.symm h)).2 (hE.imp fun h => Nat.ne_of_lt h)
  have hL : (sortByIdx (p.map fun q => (q.1, f q.2))).Pairwise fun a b => a.1 < b.1 :=
    ((sortByIdx_sorted _).and hnd).imp fun h => Nat.lt_of_le_of_ne h.1 h.2
  have he := List.Perm.eq_of_pairwise (le := fun (a b : Nat × β) => a.1 < b.1)
    (fun a b _ _ h1 h2 => absurd h1 (Nat.lt_asymm h2)) hL hE hperm
  rw [he, List.map_map]
  have : ((fun (q : Nat × β) => q.2) ∘ fun (q : Nat × α) => (q.1, f q.2)) = f ∘ fun q => q.2 := rfl
  rw [this, ← List.map_map, enumerate_map_snd]

end ApiM

/-- `getSeq` under a `get` that answers `f` on the admissible keys and keeps `I` -/
theorem getSeq_of_get (ops : KtOps σ) (I : σ → Prop) (ok : List Nat → Prop) (f : List Nat → Option (List Nat))
    (hget : ∀ s k, I s → ok k → ∃ s', ops.getKt k s = some (f k, s') ∧ I s') :
    ∀ (l : List (Nat × List Nat)) (s : σ), I s → (∀ p ∈ l, ok p.2) →
      ∃ s', getSeq ops l s = some (l.map fun p => (p.1, f p.2), s') ∧ I s' := by
  intro l
  induction l with
  | nil => intro s hI _; exact ⟨s, rfl, hI⟩
  | cons ik rest ih =>
    intro s hI hok
    obtain ⟨s1, h1, hI1⟩ := hget s ik.2 hI (hok ik (List.mem_cons_self ..))
    obtain ⟨s2, h2, hI2⟩ := ih s1 hI1 (fun p hp => hok p (List.mem_cons_of_mem _ hp))
    refine ⟨s2, ?_, hI2⟩
    simp only [getSeq, apiGet, bind, h1, h2, List.map_cons]
    rfl

/-- `bulk_get` under such a `get`: the answers in input order -/
theorem apiBulkGet_of_get (ops : KtOps σ) (I : σ → Prop) (ok : List Nat → Prop) (f : List Nat → Option (List Nat))
    (hget : ∀ s k, I s → ok k → ∃ s', ops.getKt k s = some (f k, s') ∧ I s')
    (sortDesc : List (Nat × List Nat) → List (Nat × List Nat)) (hs : ∀ l, (sortDesc l).Perm l)
    (ks : List (List Nat)) (hks : ∀ k ∈ ks, ok k) (s : σ) (hI : I s) :
    ∃ s', apiBulkGet ops sortDesc ks s = some (ks.map f, s') ∧ I s' := by
  have hp : (sortDesc (ApiM.enumerate ks)).reverse.Perm (ApiM.enumerate ks) :=
    (List.reverse_perm _).trans (hs _)
  have hok : ∀ p ∈ (sortDesc (ApiM.enumerate ks)).reverse, ok p.2 := by
    intro p hpm
    apply hks
    rw [← ApiM.enumerate_map_snd ks]
    exact List.mem_map.2 ⟨p, hp.mem_iff.1 hpm, rfl⟩
  obtain ⟨s', h1, hI'⟩ := getSeq_of_get ops I ok f hget _ s hI hok
  refine ⟨s', ?_, hI'⟩
  rw [apiBulkGet_eq, h1, Option.map_some, ApiM.sortByIdx_restore ks f _ hp]

end Abyss
