import Abyss.RaBuf
import Abyss.Lemmas.RaBufAux
/-!
# `rabuf` model: the regular regime, its invariant, and what fetch / flush / eviction preserve

Regular regime = no shrinking `set_len` and no read past the logical end so far (the two things
the crate's own code never does on its healthy paths). `Inv` is I1–I6 of the notes; `abs` is the
flat-file view (`logical` content + cursor). Every statement is for an arbitrary chunk size
`cs > 0`, an arbitrary capacity and an arbitrary fault schedule unless it says otherwise.
-/
namespace Abyss.RaBuf

/-- `l` with `bs` written at `pos` (`pos ≤ l.length`): overwrite, extending at the end -/
def splice (l : List Nat) (pos : Nat) (bs : List Nat) : List Nat :=
  l.take pos ++ bs ++ l.drop (pos + bs.length)

structure Inv (s : St) : Prop where
  cs_pos : 0 < s.cs
  /-- resident chunks are aligned, full-size and start at or before the logical end -/
  shape : ∀ c ∈ s.chunks, c.off % s.cs = 0 ∧ c.data.length = s.cs ∧ c.off ≤ s.end_
  nodup : (s.chunks.map (·.off)).Nodup
  cap : s.chunks.length ≤ s.max
  dlen : s.disk.length ≤ s.end_
  /-- what is not on disk yet lies in a resident dirty chunk -/
  covered : ∀ i, s.disk.length ≤ i → i < s.end_ →
    ∃ c ∈ s.chunks, c.dirty = true ∧ c.off ≤ i ∧ i < c.off + s.cs
  /-- a clean chunk mirrors the disk below the logical end -/
  clean : ∀ c ∈ s.chunks, c.dirty = false → ∀ i, i < s.cs → c.off + i < s.end_ →
    c.off + i < s.disk.length ∧ c.data.getD i 0 = s.disk.getD (c.off + i) 0
  /-- beyond the logical end every resident chunk holds zeros -/
  ztail : ∀ c ∈ s.chunks, ∀ i, i < s.cs → s.end_ ≤ c.off + i → c.data.getD i 0 = 0
  pos_le : s.pos ≤ s.end_

/-- configurations in which a fetch always returns: a fixed capacity of at least two chunks
(`with_capacity`), or an automatic capacity with a chunk size of at most 32768 bytes (the floor of
`buffer_size`) or a per-mille of at least 1000 (the whole file) -/
def NoHangCfg (s : St) : Prop :=
  match s.auto with
  | none => 2 ≤ s.max
  | some pm => s.cs ≤ 32768 ∨ 1000 ≤ pm

/-- what a fetch / flush / eviction leaves alone -/
structure Same (s s' : St) : Prop where
  logical : s'.logical = s.logical
  pos : s'.pos = s.pos
  end_ : s'.end_ = s.end_
  cs : s'.cs = s.cs
  auto : s'.auto = s.auto
  max_fixed : s.auto = none → s'.max = s.max

theorem Same.refl (s : St) : Same s s := ⟨rfl, rfl, rfl, rfl, rfl, fun _ => rfl⟩
theorem Same.trans {a b c : St} (h1 : Same a b) (h2 : Same b c) : Same a c :=
  ⟨h2.logical.trans h1.logical, h2.pos.trans h1.pos, h2.end_.trans h1.end_, h2.cs.trans h1.cs,
    h2.auto.trans h1.auto, fun h => (h2.max_fixed (h1.auto.trans h)).trans (h1.max_fixed h)⟩

theorem NoHangCfg.of_same {s s' : St} (h : NoHangCfg s) (hs : Same s s') : NoHangCfg s' := by
  unfold NoHangCfg at h ⊢
  rw [hs.auto, hs.cs]
  cases ha : s.auto with
  | none => rw [ha] at h; simp only [] at h ⊢; rw [hs.max_fixed ha]; exact h
  | some pm => rw [ha] at h; exact h

theorem logical_length (s : St) : s.logical.length = s.end_ := by
  simp [St.logical]

/-! ## reading through the chunks -/

theorem chunkStart_le (s : St) (i : Nat) : chunkStart s i ≤ i := divmul_le _ _

theorem lt_chunkStart_add {s : St} (h : 0 < s.cs) (i : Nat) : i < chunkStart s i + s.cs := lt_divmul_add h i

theorem chunkStart_mod (s : St) (i : Nat) : chunkStart s i % s.cs = 0 := divmul_mod _ _

theorem chunkStart_eq {s : St} (h : Inv s) {c : Chunk} (hc : c ∈ s.chunks) {i : Nat} (h1 : c.off ≤ i)
    (h2 : i < c.off + s.cs) : chunkStart s i = c.off :=
  aligned_unique h.cs_pos (h.shape c hc).1 h1 h2

/-- a resident chunk answers for its whole range -/
theorem byteAt_of_mem {s : St} (h : Inv s) {c : Chunk} (hc : c ∈ s.chunks) {i : Nat} (h1 : c.off ≤ i)
    (h2 : i < c.off + s.cs) : s.byteAt i = c.data.getD (i - c.off) 0 := by
  unfold St.byteAt
  rw [chunkStart_eq h hc h1 h2, findChunk_of_mem h.nodup hc]

/-- no resident chunk: the disk answers -/
theorem byteAt_of_none {s : St} {i : Nat} (hn : ∀ c ∈ s.chunks, c.off ≠ chunkStart s i) :
    s.byteAt i = s.disk.getD i 0 := by
  unfold St.byteAt
  rw [findChunk_none.2 hn]

theorem resident_cases {s : St} (h : Inv s) (i : Nat) :
    (∃ c ∈ s.chunks, c.off = chunkStart s i ∧ c.off ≤ i ∧ i < c.off + s.cs) ∨
    (∀ c ∈ s.chunks, c.off ≠ chunkStart s i) := by
  by_cases hh : ∃ c ∈ s.chunks, c.off = chunkStart s i
  · obtain ⟨c, hc, ho⟩ := hh
    exact Or.inl ⟨c, hc, ho, ho ▸ chunkStart_le s i, ho ▸ lt_chunkStart_add h.cs_pos i⟩
  · exact Or.inr fun c hc ho => hh ⟨c, hc, ho⟩

theorem not_in_range_of_none {s : St} (h : Inv s) {i : Nat} (hn : ∀ c ∈ s.chunks, c.off ≠ chunkStart s i)
    {c : Chunk} (hc : c ∈ s.chunks) : ¬(c.off ≤ i ∧ i < c.off + s.cs) :=
  fun ⟨h1, h2⟩ => hn c hc (chunkStart_eq h hc h1 h2).symm

theorem logical_congr {s s' : St} (he : s'.end_ = s.end_) (hb : ∀ i, i < s.end_ → s'.byteAt i = s.byteAt i) :
    s'.logical = s.logical := by
  unfold St.logical
  rw [he]
  exact List.map_congr_left fun i hi => hb i (List.mem_range.1 hi)

theorem logical_getElem (s : St) {i : Nat} (hi : i < s.logical.length) : s.logical[i] = s.byteAt i := by
  simp [St.logical]

/-- with nothing dirty the disk is the logical content -/
theorem disk_eq_logical_of_clean {s : St} (h : Inv s) (hcl : ∀ c ∈ s.chunks, c.dirty = false) :
    s.disk = s.logical := by
  have hlen : s.disk.length = s.end_ := by
    refine Nat.le_antisymm h.dlen (Nat.le_of_not_lt fun hlt => ?_)
    obtain ⟨c, hc, hd, _⟩ := h.covered _ (Nat.le_refl _) hlt
    rw [hcl c hc] at hd; exact Bool.noConfusion hd
  apply List.ext_getElem (by rw [logical_length, hlen])
  intro i h1 h2
  rw [logical_getElem]
  have hi : i < s.end_ := hlen ▸ h1
  have hdisk : s.disk[i] = s.disk.getD i 0 := by simp [List.getD_eq_getElem?_getD, h1]
  rw [hdisk]
  rcases resident_cases h i with ⟨c, hc, _, h3, h4⟩ | hn
  · rw [byteAt_of_mem h hc h3 h4]
    have := (h.clean c hc (hcl c hc) (i - c.off) (by omega) (by omega)).2
    rw [this]; congr 1; omega
  · rw [byteAt_of_none hn]

/-! ## constructors -/

/-- a state without resident chunks whose logical end is the disk length -/
theorem inv_of_no_chunks {s : St} (hcs : 0 < s.cs) (hch : s.chunks = []) (hend : s.end_ = s.disk.length)
    (hpos : s.pos ≤ s.end_) : Inv s := by
  refine ⟨hcs, ?_, ?_, ?_, by omega, ?_, ?_, ?_, hpos⟩
  · intro c hc; rw [hch] at hc; cases hc
  · rw [hch]; exact List.nodup_nil
  · rw [hch]; exact Nat.zero_le _
  · intro i h1 h2; omega
  · intro c hc; rw [hch] at hc; cases hc
  · intro c hc; rw [hch] at hc; cases hc

theorem logical_of_no_chunks {s : St} (hch : s.chunks = []) (hend : s.end_ = s.disk.length) :
    s.logical = s.disk := by
  apply List.ext_getElem (by rw [logical_length, hend])
  intro i h1 h2
  rw [logical_getElem, byteAt_of_none (by intro c hc; rw [hch] at hc; cases hc)]
  simp [List.getD_eq_getElem?_getD, h2]

theorem withCapacity_inv (cs max : Nat) (disk : List Nat) (hcs : 0 < cs) : Inv (withCapacity cs max disk) :=
  inv_of_no_chunks hcs rfl rfl (Nat.zero_le _)
theorem withPerMille_inv (cs pm : Nat) (disk : List Nat) (hcs : 0 < cs) : Inv (withPerMille cs pm disk) :=
  inv_of_no_chunks hcs rfl rfl (Nat.zero_le _)
theorem withCapacity_logical (cs max : Nat) (disk : List Nat) : (withCapacity cs max disk).logical = disk :=
  logical_of_no_chunks rfl rfl
theorem withPerMille_logical (cs pm : Nat) (disk : List Nat) : (withPerMille cs pm disk).logical = disk :=
  logical_of_no_chunks rfl rfl

/-! ## flush -/

/-- what a sequence of write-backs does to a state: regular again, same view, same configuration,
same resident offsets in the same order, nothing becomes dirty -/
structure WB (s s' : St) : Prop where
  inv : Inv s'
  same : Same s s'
  max : s'.max = s.max
  offs : s'.chunks.map (·.off) = s.chunks.map (·.off)
  mono : ∀ c' ∈ s'.chunks, c'.dirty = true → ∃ c ∈ s.chunks, c.off = c'.off ∧ c.dirty = true

theorem WB.refl {s : St} (h : Inv s) : WB s s :=
  ⟨h, Same.refl s, rfl, rfl, fun c hc hd => ⟨c, hc, rfl, hd⟩⟩

theorem WB.trans {a b c : St} (h1 : WB a b) (h2 : WB b c) : WB a c :=
  ⟨h2.inv, h1.same.trans h2.same, h2.max.trans h1.max, h2.offs.trans h1.offs, fun x hx hd => by
    obtain ⟨y, hy, hyo, hyd⟩ := h2.mono x hx hd
    obtain ⟨z, hz, hzo, hzd⟩ := h1.mono y hy hyd
    exact ⟨z, hz, hzo.trans hyo, hzd⟩⟩

theorem WB.mem_off {s s' : St} (h : WB s s') {c' : Chunk} (hc' : c' ∈ s'.chunks) :
    ∃ c ∈ s.chunks, c.off = c'.off := by
  have : c'.off ∈ s'.chunks.map (·.off) := List.mem_map.2 ⟨c', hc', rfl⟩
  rw [h.offs] at this
  obtain ⟨c, hc, ho⟩ := List.mem_map.1 this
  exact ⟨c, hc, ho⟩

theorem WB.mem_off' {s s' : St} (h : WB s s') {c : Chunk} (hc : c ∈ s.chunks) :
    ∃ c' ∈ s'.chunks, c'.off = c.off := by
  have : c.off ∈ s.chunks.map (·.off) := List.mem_map.2 ⟨c, hc, rfl⟩
  rw [← h.offs] at this
  obtain ⟨c', hc', ho⟩ := List.mem_map.1 this
  exact ⟨c', hc', ho⟩

/-- the first `m` bytes of the dirty resident chunk `c` reach the disk at `c.off` (possibly behind a
zero-filled hole); the flag is cleared (`b = false`) only if that was everything below the logical end -/
theorem write_back {s : St} (h : Inv s) {c : Chunk} (hc : c ∈ s.chunks) (hd : c.dirty = true) {m : Nat} {b : Bool}
    (hm : m ≤ min s.cs (s.end_ - c.off)) (hb : b = false → m = min s.cs (s.end_ - c.off))
    {D : List Nat} (hD : D = diskWrite s.disk c.off (c.data.take m))
    {c' : Chunk} (hc' : c' = { c with dirty := b }) :
    WB s { s with disk := D, chunks := setChunk s.chunks c' } := by
  obtain ⟨hal, hlen, hle⟩ := h.shape c hc
  have hoff : c'.off = c.off := by rw [hc']
  have hdata : c'.data = c.data := by rw [hc']
  have hdirty : c'.dirty = b := by rw [hc']
  have hbl : (c.data.take m).length = m := by rw [List.length_take, hlen]; omega
  have L1 : s.disk.length ≤ D.length := hD ▸ le_diskWrite_length _ _ _
  have L2 : D.length ≤ s.end_ := by
    have h1 := diskWrite_length_le s.disk (c.data.take m) c.off
    rw [← hD, hbl] at h1
    have h2 := h.dlen
    omega
  have L3 : 0 < m → c.off + m ≤ D.length := by
    intro hm0
    have hne : c.data.take m ≠ [] := by
      intro e; rw [e] at hbl; simp at hbl; omega
    have h1 := diskWrite_length_ge (d := s.disk) c.off hne
    rw [← hD, hbl] at h1; exact h1
  have G1 : ∀ i, ¬(c.off ≤ i ∧ i < c.off + m) → D.getD i 0 = s.disk.getD i 0 := by
    intro i hi
    rw [hD]
    by_cases h1 : i < c.off
    · exact diskWrite_getD_lt _ _ h1
    · exact diskWrite_getD_ge _ _ (by rw [hbl]; omega)
  have G2 : ∀ i, c.off ≤ i → i < c.off + m → D.getD i 0 = c.data.getD (i - c.off) 0 := by
    intro i h1 h2
    rw [hD, diskWrite_getD_mid _ _ h1 (by rw [hbl]; exact h2)]
    have : i - c.off < m := by omega
    simp [List.getD_eq_getElem?_getD, this]
  have hI : Inv { s with disk := D, chunks := setChunk s.chunks c' } := by
    refine ⟨h.cs_pos, ?_, ?_, ?_, L2, ?_, ?_, ?_, h.pos_le⟩
    · intro x hx
      rcases mem_setChunk hx with rfl | ⟨hx, _⟩
      · rw [hoff, hdata]; exact ⟨hal, hlen, hle⟩
      · exact h.shape x hx
    · show ((setChunk s.chunks c').map (·.off)).Nodup
      rw [setChunk_map_off]; exact h.nodup
    · show (setChunk s.chunks c').length ≤ s.max
      rw [setChunk_length]; exact h.cap
    · intro i hi1 hi2
      have hi1' : D.length ≤ i := hi1
      have hi2' : i < s.end_ := hi2
      obtain ⟨d, hd1, hd2, hd3, hd4⟩ := h.covered i (by omega) hi2
      by_cases ho : d.off = c.off
      · have hdc := eq_of_off_eq h.nodup hd1 hc ho
        subst hdc
        cases b with
        | true => exact ⟨c', mem_setChunk_self hd1 hoff.symm, hdirty, by rw [hoff]; exact hd3, by rw [hoff]; exact hd4⟩
        | false =>
          exfalso
          have h1 := hb rfl
          have h2 := L3 (by omega)
          omega
      · exact ⟨d, mem_setChunk_of_ne hd1 (by rw [hoff]; exact ho), hd2, hd3, hd4⟩
    · intro x hx hxd i hi1 hi2
      show x.off + i < D.length ∧ x.data.getD i 0 = D.getD (x.off + i) 0
      have hi2' : x.off + i < s.end_ := hi2
      have hi1' : i < s.cs := hi1
      rcases mem_setChunk hx with hxe | ⟨hx, hne⟩
      · rw [hxe] at hxd hi2' ⊢
        rw [hoff] at hi2' ⊢
        rw [hdata]
        rw [hdirty] at hxd
        have h1 := hb hxd
        have h2 := L3 (by omega)
        refine ⟨by omega, ?_⟩
        rw [G2 _ (by omega) (by omega)]
        congr 1; omega
      · rw [hoff] at hne
        obtain ⟨h1, h2⟩ := h.clean x hx hxd i hi1' hi2'
        refine ⟨by omega, ?_⟩
        rw [h2, G1]
        intro hh
        exact aligned_disjoint h.cs_pos (h.shape x hx).1 hal hne (Nat.le_add_right _ _) (by omega) ⟨hh.1, by omega⟩
    · intro x hx i hi1 hi2
      rcases mem_setChunk hx with rfl | ⟨hx, _⟩
      · rw [hdata]; rw [hoff] at hi2; exact h.ztail c hc i hi1 hi2
      · exact h.ztail x hx i hi1 hi2
  refine ⟨hI, ⟨?_, rfl, rfl, rfl, rfl, fun _ => rfl⟩, rfl, setChunk_map_off _ _, ?_⟩
  · refine logical_congr (s := s) rfl ?_
    intro i hi
    rcases resident_cases h i with ⟨d, hd1, hd2, hd3, hd4⟩ | hn
    · rw [byteAt_of_mem h hd1 hd3 hd4]
      by_cases ho : d.off = c.off
      · have hdc := eq_of_off_eq h.nodup hd1 hc ho
        subst hdc
        have hmem : c' ∈ ({ s with disk := D, chunks := setChunk s.chunks c' } : St).chunks :=
          mem_setChunk_self hd1 hoff.symm
        rw [byteAt_of_mem hI hmem (by rw [hoff]; exact hd3) (by rw [hoff]; exact hd4), hdata, hoff]
      · have hmem : d ∈ ({ s with disk := D, chunks := setChunk s.chunks c' } : St).chunks :=
          mem_setChunk_of_ne hd1 (by rw [hoff]; exact ho)
        rw [byteAt_of_mem hI hmem hd3 hd4]
    · rw [byteAt_of_none hn, byteAt_of_none]
      · apply G1
        intro hh
        exact not_in_range_of_none h hn hc ⟨hh.1, by omega⟩
      · intro x hx
        rcases mem_setChunk hx with rfl | ⟨hx, _⟩
        · rw [hoff]; exact hn c hc
        · exact hn x hx
  · intro x hx hxd
    rcases mem_setChunk hx with rfl | ⟨hx, _⟩
    · exact ⟨c, hc, hoff.symm, hd⟩
    · exact ⟨x, hx, rfl, hxd⟩

/-- one `Chunk::write` of a resident chunk -/
theorem chunkWrite_step (φ : Faults) {s : St} (h : Inv s) (k : Nat) {c : Chunk} (hc : c ∈ s.chunks) :
    WB s { s with disk := (chunkWrite φ s.end_ s.disk k c).1,
                  chunks := setChunk s.chunks (chunkWrite φ s.end_ s.disk k c).2.2.1 } ∧
    (chunkWrite φ s.end_ s.disk k c).2.2.1.off = c.off ∧
    ((chunkWrite φ s.end_ s.disk k c).2.2.2 = true → (chunkWrite φ s.end_ s.disk k c).2.2.1.dirty = false) ∧
    k ≤ (chunkWrite φ s.end_ s.disk k c).2.1 ∧
    ((chunkWrite φ s.end_ s.disk k c).2.2.2 = true →
      ∀ j, k ≤ j → j < (chunkWrite φ s.end_ s.disk k c).2.1 → φ.fails j = false) := by
  obtain ⟨hal, hlen, hle⟩ := h.shape c hc
  have hgt : ¬ c.off > s.end_ := by omega
  cases hd : c.dirty with
  | false =>
    have hr : chunkWrite φ s.end_ s.disk k c = (s.disk, k, c, true) := by simp [chunkWrite, hd]
    rw [hr]
    dsimp only
    rw [setChunk_self h.nodup hc]
    exact ⟨WB.refl h, rfl, fun _ => hd, Nat.le_refl _, fun _ j h1 h2 => by omega⟩
  | true =>
    by_cases hn : min c.data.length (s.end_ - c.off) = 0
    · have hr : chunkWrite φ s.end_ s.disk k c = (s.disk, k, { c with dirty := false }, true) := by
        simp only [chunkWrite, hd, hgt, hn]; simp
      rw [hr]
      dsimp only
      refine ⟨?_, rfl, fun _ => rfl, Nat.le_refl _, fun _ j h1 h2 => by omega⟩
      exact write_back h hc hd (m := 0) (b := false) (Nat.zero_le _) (fun _ => by rw [← hlen]; exact hn.symm)
        (by simp [diskWrite_nil]) rfl
    · cases hf : φ.fails k with
      | true =>
        have hr : chunkWrite φ s.end_ s.disk k c =
            (diskWrite s.disk c.off (c.data.take (min (min c.data.length (s.end_ - c.off)) (φ.prefixLen k))),
              k + 1, c, false) := by
          simp only [chunkWrite, hd, hgt, hn, hf]; simp
        rw [hr]
        dsimp only
        refine ⟨?_, rfl, fun hh => Bool.noConfusion hh, Nat.le_succ _, fun hh => Bool.noConfusion hh⟩
        exact write_back h hc hd (b := true) (by rw [hlen]; exact Nat.min_le_left _ _)
          (fun hh => Bool.noConfusion hh) rfl (by cases c; simp_all)
      | false =>
        have hr : chunkWrite φ s.end_ s.disk k c =
            (diskWrite s.disk c.off (c.data.take (min c.data.length (s.end_ - c.off))),
              k + 1, { c with dirty := false }, true) := by
          simp only [chunkWrite, hd, hgt, hn, hf]; simp
        rw [hr]
        dsimp only
        refine ⟨?_, rfl, fun _ => rfl, Nat.le_succ _, fun _ j h1 h2 => ?_⟩
        · exact write_back h hc hd (b := false) (by rw [hlen]; exact Nat.le_refl _)
            (fun _ => by rw [hlen]) rfl rfl
        · have : j = k := by omega
          rw [this]; exact hf

theorem chunkWrite_noFaults_ok (end_ : Nat) (disk : List Nat) (k : Nat) (c : Chunk) :
    (chunkWrite noFaults end_ disk k c).2.2.2 = true := by
  unfold chunkWrite
  split
  · rfl
  · split
    · rfl
    · simp only []
      split
      · rfl
      · simp [noFaults]

/-- `flushOffs` as a state transformer -/
def flushOffsSt (φ : Faults) (os : List Nat) (s : St) (k : Nat) : St × Nat × Bool :=
  ({ s with disk := (flushOffs φ s.end_ os s.disk k s.chunks).1,
            chunks := (flushOffs φ s.end_ os s.disk k s.chunks).2.2.1 },
    (flushOffs φ s.end_ os s.disk k s.chunks).2.1, (flushOffs φ s.end_ os s.disk k s.chunks).2.2.2)

theorem flush_eq (φ : Faults) (s : St) (k : Nat) :
    flush φ s k = flushOffsSt φ (sortOffs (s.chunks.map (·.off))) s k := rfl

theorem flushOffsSt_nil (φ : Faults) (s : St) (k : Nat) : flushOffsSt φ [] s k = (s, k, true) := rfl

theorem flushOffsSt_cons_none (φ : Faults) (o : Nat) (os : List Nat) (s : St) (k : Nat)
    (hf : findChunk s.chunks o = none) : flushOffsSt φ (o :: os) s k = flushOffsSt φ os s k := by
  unfold flushOffsSt
  rw [flushOffs, hf]

theorem flushOffsSt_cons_some (φ : Faults) (o : Nat) (os : List Nat) (s : St) (k : Nat) {c : Chunk}
    (hf : findChunk s.chunks o = some c) :
    flushOffsSt φ (o :: os) s k =
      if (chunkWrite φ s.end_ s.disk k c).2.2.2 = true then
        flushOffsSt φ os { s with disk := (chunkWrite φ s.end_ s.disk k c).1,
                                  chunks := setChunk s.chunks (chunkWrite φ s.end_ s.disk k c).2.2.1 }
          (chunkWrite φ s.end_ s.disk k c).2.1
      else ({ s with disk := (chunkWrite φ s.end_ s.disk k c).1,
                     chunks := setChunk s.chunks (chunkWrite φ s.end_ s.disk k c).2.2.1 },
            (chunkWrite φ s.end_ s.disk k c).2.1, false) := by
  unfold flushOffsSt
  rw [flushOffs, hf]
  simp only []
  cases hok : (chunkWrite φ s.end_ s.disk k c).2.2.2 <;> simp

theorem flushOffsSt_spec (φ : Faults) (os : List Nat) : ∀ (s : St) (k : Nat), Inv s →
    WB s (flushOffsSt φ os s k).1 ∧
    ((flushOffsSt φ os s k).2.2 = true →
      ∀ c' ∈ (flushOffsSt φ os s k).1.chunks, c'.dirty = true → c'.off ∉ os) ∧
    k ≤ (flushOffsSt φ os s k).2.1 ∧
    ((flushOffsSt φ os s k).2.2 = true → ∀ j, k ≤ j → j < (flushOffsSt φ os s k).2.1 → φ.fails j = false) := by
  induction os with
  | nil =>
    intro s k h
    rw [flushOffsSt_nil]
    exact ⟨WB.refl h, fun _ _ _ _ => List.not_mem_nil, Nat.le_refl _, fun _ j h1 h2 => by simp only [] at h2; omega⟩
  | cons o os ih =>
    intro s k h
    cases hf : findChunk s.chunks o with
    | none =>
      rw [flushOffsSt_cons_none φ o os s k hf]
      obtain ⟨h1, h2, h3, h4⟩ := ih s k h
      refine ⟨h1, fun hok c' hc' hd => ?_, h3, h4⟩
      rw [List.mem_cons, not_or]
      refine ⟨fun he => ?_, h2 hok c' hc' hd⟩
      obtain ⟨x, hx, hxo⟩ := h1.mem_off hc'
      exact findChunk_none.1 hf x hx (hxo.trans he)
    | some c =>
      obtain ⟨hc, hco⟩ := findChunk_some hf
      rw [flushOffsSt_cons_some φ o os s k hf]
      obtain ⟨w1, w2, w3, w4, w5⟩ := chunkWrite_step φ h k hc
      by_cases hok : (chunkWrite φ s.end_ s.disk k c).2.2.2 = true
      · rw [if_pos hok]
        obtain ⟨h1, h2, h3, h4⟩ := ih _ (chunkWrite φ s.end_ s.disk k c).2.1 w1.inv
        refine ⟨w1.trans h1, fun hok' c' hc' hd => ?_, Nat.le_trans w4 h3, fun hok' j j1 j2 => ?_⟩
        · rw [List.mem_cons, not_or]
          refine ⟨fun he => ?_, h2 hok' c' hc' hd⟩
          obtain ⟨x, hx, hxo, hxd⟩ := h1.mono c' hc' hd
          rcases mem_setChunk hx with rfl | ⟨_, hne⟩
          · rw [w3 hok] at hxd; exact Bool.noConfusion hxd
          · exact hne (by rw [w2, hxo, he, hco])
        · by_cases hj : j < (chunkWrite φ s.end_ s.disk k c).2.1
          · exact w5 hok j j1 hj
          · exact h4 hok' j (by omega) j2
      · rw [if_neg hok]
        exact ⟨w1, fun hh => Bool.noConfusion hh, w4, fun hh => Bool.noConfusion hh⟩

theorem flushOffsSt_noFaults_ok (os : List Nat) : ∀ (s : St) (k : Nat), (flushOffsSt noFaults os s k).2.2 = true := by
  induction os with
  | nil => intro s k; rfl
  | cons o os ih =>
    intro s k
    cases hf : findChunk s.chunks o with
    | none => rw [flushOffsSt_cons_none _ o os s k hf]; exact ih s k
    | some c =>
      rw [flushOffsSt_cons_some _ o os s k hf, if_pos (chunkWrite_noFaults_ok _ _ _ _)]
      exact ih _ _

/-- everything a flush guarantees, in one place -/
theorem flush_full (φ : Faults) {s : St} (k : Nat) (h : Inv s) :
    WB s (flush φ s k).1 ∧
    ((flush φ s k).2.2 = true → ∀ c ∈ (flush φ s k).1.chunks, c.dirty = false) ∧
    k ≤ (flush φ s k).2.1 ∧
    ((flush φ s k).2.2 = true → ∀ j, k ≤ j → j < (flush φ s k).2.1 → φ.fails j = false) := by
  rw [flush_eq]
  obtain ⟨h1, h2, h3, h4⟩ := flushOffsSt_spec φ (sortOffs (s.chunks.map (·.off))) s k h
  refine ⟨h1, fun hok c hc => ?_, h3, h4⟩
  cases hd : c.dirty with
  | false => rfl
  | true =>
    exfalso
    apply h2 hok c hc hd
    rw [mem_sortOffs]
    obtain ⟨x, hx, hxo⟩ := h1.mem_off hc
    exact List.mem_map.2 ⟨x, hx, hxo⟩

/-- a flush — under any fault schedule — keeps the invariant and the logical view; when it returns
`Ok` the disk *is* the logical content and no chunk is dirty -/
theorem flush_spec (φ : Faults) {s : St} (k : Nat) (h : Inv s) :
    Inv (flush φ s k).1 ∧ Same s (flush φ s k).1 ∧ (flush φ s k).1.max = s.max ∧
    (flush φ s k).1.chunks.map (·.off) = s.chunks.map (·.off) ∧
    ((flush φ s k).2.2 = true → (flush φ s k).1.disk = s.logical ∧ ∀ c ∈ (flush φ s k).1.chunks, c.dirty = false) := by
  obtain ⟨h1, h2, _, _⟩ := flush_full φ k h
  refine ⟨h1.inv, h1.same, h1.max, h1.offs, fun hok => ⟨?_, h2 hok⟩⟩
  rw [disk_eq_logical_of_clean h1.inv (h2 hok), h1.same.logical]

set_option linter.unusedVariables false in
/-- without refused writes a flush returns `Ok` -/
theorem flush_noFaults_ok {s : St} (k : Nat) (h : Inv s) : (flush noFaults s k).2.2 = true := by
  rw [flush_eq]; exact flushOffsSt_noFaults_ok _ s k

/-- a flush that fails reports it: `Ok` is returned only if no attempted write was refused -/
theorem flush_ok_counter (φ : Faults) {s : St} (k : Nat) (h : Inv s) (hok : (flush φ s k).2.2 = true) :
    ∀ j, k ≤ j → j < (flush φ s k).2.1 → φ.fails j = false :=
  (flush_full φ k h).2.2.2 hok

/-! ## eviction and fetch -/

theorem disk_length_of_clean {s : St} (h : Inv s) (hcl : ∀ c ∈ s.chunks, c.dirty = false) :
    s.disk.length = s.end_ := by
  rw [disk_eq_logical_of_clean h hcl, logical_length]

/-- with nothing dirty any set of resident chunks may be dropped -/
theorem drop_clean (p : Chunk → Bool) {s : St} (h : Inv s) (hcl : ∀ c ∈ s.chunks, c.dirty = false) :
    Inv { s with chunks := s.chunks.filter p } ∧ Same s { s with chunks := s.chunks.filter p } := by
  have hlen := disk_length_of_clean h hcl
  have hsub : ∀ x, x ∈ s.chunks.filter p → x ∈ s.chunks := fun x hx => (List.mem_filter.1 hx).1
  have hI : Inv { s with chunks := s.chunks.filter p } := by
    refine ⟨h.cs_pos, fun x hx => h.shape x (hsub x hx), ?_, ?_, h.dlen, ?_, fun x hx => h.clean x (hsub x hx),
      fun x hx => h.ztail x (hsub x hx), h.pos_le⟩
    · exact List.Nodup.sublist (List.Sublist.map _ List.filter_sublist) h.nodup
    · exact Nat.le_trans (List.length_filter_le _ _) h.cap
    · intro i h1 h2
      have h1' : s.disk.length ≤ i := h1
      have h2' : i < s.end_ := h2
      omega
  refine ⟨hI, ⟨?_, rfl, rfl, rfl, rfl, fun _ => rfl⟩⟩
  refine logical_congr (s := s) rfl ?_
  intro i hi
  rcases resident_cases h i with ⟨d, hd1, hd2, hd3, hd4⟩ | hn
  · rw [byteAt_of_mem h hd1 hd3 hd4]
    cases hp : p d with
    | true =>
      have hmem : d ∈ ({ s with chunks := s.chunks.filter p } : St).chunks := List.mem_filter.2 ⟨hd1, hp⟩
      rw [byteAt_of_mem hI hmem hd3 hd4]
    | false =>
      rw [byteAt_of_none]
      · have := (h.clean d hd1 (hcl d hd1) (i - d.off) (by omega) (by omega)).2
        rw [this]
        show s.disk.getD i 0 = _
        congr 1; omega
      · intro x hx hxo
        have hx' := List.mem_filter.1 hx
        have hxo' : x.off = chunkStart s i := hxo
        have := eq_of_off_eq h.nodup hx'.1 hd1 (hxo'.trans hd2.symm)
        rw [this, hp] at hx'
        exact Bool.noConfusion hx'.2
  · rw [byteAt_of_none hn, byteAt_of_none]
    intro x hx
    exact hn x (hsub x hx)

theorem clear_eq (φ : Faults) (s : St) (k : Nat) :
    clear φ s k =
      if (flush φ s k).2.2 = true then
        ({ (flush φ s k).1 with chunks := (flush φ s k).1.chunks.filter (·.off == 0) }, (flush φ s k).2.1, true)
      else ((flush φ s k).1, (flush φ s k).2.1, false) := by
  unfold clear
  cases h : (flush φ s k).2.2 <;> simp [h]

theorem length_le_one_of_off_zero {l : List Chunk} (nd : (l.map (·.off)).Nodup) (h0 : ∀ c ∈ l, c.off = 0) :
    l.length ≤ 1 := by
  match l, nd, h0 with
  | [], _, _ => simp
  | [_], _, _ => simp
  | a :: b :: t, nd, h0 =>
    exfalso
    have h1 := h0 a (by simp)
    have h2 := h0 b (by simp)
    simp only [List.map_cons, List.nodup_cons, List.mem_cons, not_or] at nd
    exact nd.1.1 (h1.trans h2.symm)

/-- everything an eviction guarantees, in one place -/
theorem clear_full (φ : Faults) {s : St} (k : Nat) (h : Inv s) :
    Inv (clear φ s k).1 ∧ Same s (clear φ s k).1 ∧ (clear φ s k).1.max = s.max ∧
    (∀ c ∈ (clear φ s k).1.chunks, ∃ c0 ∈ s.chunks, c0.off = c.off) ∧
    ((clear φ s k).2.2 = true → (clear φ s k).1.chunks.length ≤ 1 ∧
      (∀ c ∈ (clear φ s k).1.chunks, c.off = 0 ∧ c.dirty = false) ∧
      ((∃ c ∈ s.chunks, c.off = 0) → ∃ c ∈ (clear φ s k).1.chunks, c.off = 0)) ∧
    k ≤ (clear φ s k).2.1 ∧
    ((clear φ s k).2.2 = true → ∀ j, k ≤ j → j < (clear φ s k).2.1 → φ.fails j = false) := by
  obtain ⟨w, hcl, hk, hcnt⟩ := flush_full φ k h
  rw [clear_eq]
  by_cases hok : (flush φ s k).2.2 = true
  · rw [if_pos hok]
    obtain ⟨d1, d2⟩ := drop_clean (fun c => c.off == 0) w.inv (hcl hok)
    refine ⟨d1, w.same.trans d2, w.max, ?_, fun _ => ⟨?_, ?_, ?_⟩, hk, fun _ => hcnt hok⟩
    · intro c hc
      exact w.mem_off (List.mem_filter.1 hc).1
    · apply length_le_one_of_off_zero d1.nodup
      intro c hc
      simpa using (List.mem_filter.1 hc).2
    · intro c hc
      have hc' := List.mem_filter.1 hc
      exact ⟨by simpa using hc'.2, hcl hok c hc'.1⟩
    · rintro ⟨c, hc, hc0⟩
      obtain ⟨c', hc', hco⟩ := w.mem_off' hc
      exact ⟨c', List.mem_filter.2 ⟨hc', by simp [hco, hc0]⟩, hco.trans hc0⟩
  · rw [if_neg hok]
    exact ⟨w.inv, w.same, w.max, fun c hc => w.mem_off hc, fun hh => Bool.noConfusion hh, hk,
      fun hh => Bool.noConfusion hh⟩

theorem clear_noFaults_ok {s : St} (k : Nat) (h : Inv s) : (clear noFaults s k).2.2 = true := by
  rw [clear_eq, if_pos (flush_noFaults_ok k h)]

theorem clear_spec (φ : Faults) {s : St} (k : Nat) (h : Inv s) :
    Inv (clear φ s k).1 ∧ Same s (clear φ s k).1 ∧ (clear φ s k).1.max = s.max ∧
    ((clear φ s k).2.2 = true → (clear φ s k).1.chunks.length ≤ 1 ∧
      ∀ c ∈ (clear φ s k).1.chunks, c.off = 0 ∧ c.dirty = false) := by
  obtain ⟨h1, h2, h3, _, h5, _⟩ := clear_full φ k h
  exact ⟨h1, h2, h3, fun hok => ⟨(h5 hok).1, (h5 hok).2.1⟩⟩

theorem setupAutoBufSize_of_none {s : St} (ha : s.auto = none) : setupAutoBufSize s = s := by
  unfold setupAutoBufSize; rw [ha]

theorem setupAutoBufSize_of_some {s : St} {pm : Nat} (ha : s.auto = some pm) :
    setupAutoBufSize s =
      if bufferSize pm s.end_ / s.cs + 1 > s.chunks.length then { s with max := bufferSize pm s.end_ / s.cs + 1 }
      else s := by
  unfold setupAutoBufSize; rw [ha]

theorem setupAutoBufSize_spec {s : St} (h : Inv s) :
    Inv (setupAutoBufSize s) ∧ Same s (setupAutoBufSize s) ∧ (setupAutoBufSize s).chunks = s.chunks ∧
    (setupAutoBufSize s).disk = s.disk := by
  cases ha : s.auto with
  | none => rw [setupAutoBufSize_of_none ha]; exact ⟨h, Same.refl s, rfl, rfl⟩
  | some pm =>
    rw [setupAutoBufSize_of_some ha]
    split
    · rename_i hv
      refine ⟨⟨h.cs_pos, h.shape, h.nodup, Nat.le_of_lt hv, h.dlen, h.covered, h.clean, h.ztail, h.pos_le⟩,
        ⟨rfl, rfl, rfl, rfl, rfl, fun hn => ?_⟩, rfl, rfl⟩
      rw [ha] at hn; nomatch hn
    · exact ⟨h, Same.refl s, rfl, rfl⟩

/-! ### loading a chunk -/

theorem loadChunk_some {s : St} {off : Nat} {c : Chunk} (hl : loadChunk s off = some c) :
    off ≤ s.end_ ∧ (0 < min s.cs (s.end_ - off) → off + min s.cs (s.end_ - off) ≤ s.disk.length) ∧
    c = { off := off, data := (s.disk.drop off).take (min s.cs (s.end_ - off)) ++ zeros (s.cs - min s.cs (s.end_ - off)),
          dirty := false } := by
  unfold loadChunk at hl
  split at hl
  · nomatch hl
  · rename_i h1
    simp only [] at hl
    split at hl
    · nomatch hl
    · rename_i h2
      refine ⟨by omega, fun hp => ?_, (Option.some.inj hl).symm⟩
      by_cases h3 : s.disk.length < off + min s.cs (s.end_ - off)
      · exact absurd ⟨hp, h3⟩ h2
      · omega

/-- what is not on disk is resident: loading a non-resident chunk at or before the end cannot fail -/
theorem loadChunk_isSome {s : St} (h : Inv s) {off : Nat} (ha : off % s.cs = 0) (hle : off ≤ s.end_)
    (hn : findChunk s.chunks off = none) : ∃ c, loadChunk s off = some c := by
  unfold loadChunk
  rw [if_neg (by omega)]
  simp only []
  split
  · rename_i hh
    exfalso
    obtain ⟨h1, h2⟩ := hh
    have hcs := h.cs_pos
    obtain ⟨d, hd1, _, hd3, hd4⟩ := h.covered (max s.disk.length off) (Nat.le_max_left _ _) (by omega)
    have e1 := chunkStart_eq h hd1 hd3 hd4
    have e2 : chunkStart s (max s.disk.length off) = off :=
      aligned_unique hcs ha (Nat.le_max_right _ _) (by omega)
    exact findChunk_none.1 hn d hd1 (e1.symm.trans e2)
  · exact ⟨_, rfl⟩

theorem loaded_getD_lt (disk : List Nat) (off cs n : Nat) {i : Nat} (hi : i < n) (hd : off + n ≤ disk.length) :
    ((disk.drop off).take n ++ zeros (cs - n)).getD i 0 = disk.getD (off + i) 0 := by
  simp only [List.getD_eq_getElem?_getD]
  rw [List.getElem?_append_left (by simp; omega), List.getElem?_take, if_pos hi, List.getElem?_drop]

theorem loaded_getD_ge (disk : List Nat) (off cs n : Nat) {i : Nat} (hi : n ≤ i) (hd : 0 < n → off + n ≤ disk.length) :
    ((disk.drop off).take n ++ zeros (cs - n)).getD i 0 = 0 := by
  have hl : ((disk.drop off).take n).length = n := by
    simp only [List.length_take, List.length_drop]
    by_cases h0 : 0 < n
    · have := hd h0; omega
    · omega
  simp only [List.getD_eq_getElem?_getD]
  rw [List.getElem?_append_right (by omega), hl]
  simp only [zeros, List.getElem?_replicate]
  split <;> rfl

theorem loaded_length (disk : List Nat) (off cs n : Nat) (hn : n ≤ cs) (hd : 0 < n → off + n ≤ disk.length) :
    ((disk.drop off).take n ++ zeros (cs - n)).length = cs := by
  simp only [List.length_append, List.length_take, List.length_drop, zeros, List.length_replicate]
  by_cases h0 : 0 < n
  · have := hd h0; omega
  · omega

/-- pushing a freshly loaded chunk -/
theorem push_spec {s : St} (h : Inv s) {off : Nat} (ha : off % s.cs = 0) (hn : findChunk s.chunks off = none)
    (hroom : s.chunks.length < s.max) {c : Chunk} (hl : loadChunk s off = some c) :
    Inv { s with chunks := s.chunks ++ [c] } ∧ Same s { s with chunks := s.chunks ++ [c] } ∧ c.off = off := by
  obtain ⟨hle, hdisk, hc⟩ := loadChunk_some hl
  have hcs := h.cs_pos
  have hoff : c.off = off := by rw [hc]
  have hdirty : c.dirty = false := by rw [hc]
  have hmin : min s.cs (s.end_ - off) ≤ s.cs := Nat.min_le_left _ _
  have hlen : c.data.length = s.cs := by rw [hc]; exact loaded_length _ _ _ _ hmin hdisk
  have hlt : ∀ i, i < s.cs → off + i < s.end_ → off + i < s.disk.length ∧ c.data.getD i 0 = s.disk.getD (off + i) 0 := by
    intro i h1 h2
    have h3 : i < min s.cs (s.end_ - off) := by omega
    have h4 := hdisk (by omega)
    refine ⟨by omega, ?_⟩
    rw [hc]; exact loaded_getD_lt _ _ _ _ h3 h4
  have hge : ∀ i, s.end_ ≤ off + i → c.data.getD i 0 = 0 := by
    intro i h1
    rw [hc]; exact loaded_getD_ge _ _ _ _ (by omega) hdisk
  have hmem : ∀ x, x ∈ s.chunks ++ [c] → x ∈ s.chunks ∨ x = c := fun x hx => by
    simpa using hx
  have hI : Inv { s with chunks := s.chunks ++ [c] } := by
    refine ⟨hcs, ?_, ?_, ?_, h.dlen, ?_, ?_, ?_, h.pos_le⟩
    · intro x hx
      rcases hmem x hx with hx | hx
      · exact h.shape x hx
      · rw [hx, hoff]; exact ⟨ha, hlen, hle⟩
    · show ((s.chunks ++ [c]).map (·.off)).Nodup
      rw [List.map_append, List.nodup_append]
      refine ⟨h.nodup, by simp, ?_⟩
      intro a ha' b hb
      obtain ⟨x, hx, rfl⟩ := List.mem_map.1 ha'
      have : b = off := by simpa [hoff] using hb
      rw [this]; exact findChunk_none.1 hn x hx
    · show (s.chunks ++ [c]).length ≤ s.max
      simp only [List.length_append, List.length_singleton]; omega
    · intro i h1 h2
      obtain ⟨d, hd1, hd⟩ := h.covered i h1 h2
      exact ⟨d, List.mem_append_left _ hd1, hd⟩
    · intro x hx hxd i h1 h2
      rcases hmem x hx with hx | hx
      · exact h.clean x hx hxd i h1 h2
      · rw [hx, hoff] at h2 ⊢; exact hlt i h1 h2
    · intro x hx i h1 h2
      rcases hmem x hx with hx | hx
      · exact h.ztail x hx i h1 h2
      · rw [hx, hoff] at h2; rw [hx]; exact hge i h2
  refine ⟨hI, ⟨?_, rfl, rfl, rfl, rfl, fun _ => rfl⟩, hoff⟩
  refine logical_congr (s := s) rfl ?_
  intro i hi
  rcases resident_cases h i with ⟨d, hd1, hd2, hd3, hd4⟩ | hnr
  · have hmem' : d ∈ ({ s with chunks := s.chunks ++ [c] } : St).chunks := List.mem_append_left _ hd1
    rw [byteAt_of_mem h hd1 hd3 hd4, byteAt_of_mem hI hmem' hd3 hd4]
  · rw [byteAt_of_none hnr]
    by_cases ho : chunkStart s i = off
    · have hmem' : c ∈ ({ s with chunks := s.chunks ++ [c] } : St).chunks := List.mem_append_right _ (by simp)
      have h1 : off ≤ i := ho ▸ chunkStart_le s i
      have h2 : i < off + s.cs := ho ▸ lt_chunkStart_add hcs i
      rw [byteAt_of_mem hI hmem' (by rw [hoff]; exact h1) (by rw [hoff]; exact h2), hoff]
      rw [(hlt (i - off) (by omega) (by omega)).2]
      congr 1; omega
    · rw [byteAt_of_none]
      intro x hx
      rcases hmem x hx with hx | hx
      · exact hnr x hx
      · rw [hx, hoff]; exact fun e => ho e.symm

/-! ### `add_chunk` -/

/-- the state one entry of `add_chunk` works on -/
def entry (s : St) : St := if s.chunks.length == s.max then setupAutoBufSize s else s

theorem entry_spec {s : St} (h : Inv s) :
    Inv (entry s) ∧ Same s (entry s) ∧ (entry s).chunks = s.chunks ∧ (entry s).disk = s.disk := by
  unfold entry
  split
  · exact setupAutoBufSize_spec h
  · exact ⟨h, Same.refl s, rfl, rfl⟩

theorem entry_of_lt {s : St} (h : s.chunks.length < s.max) : entry s = s := by
  unfold entry
  have : (s.chunks.length == s.max) = false := by simp; omega
  rw [this]; rfl

theorem entry_of_none {s : St} (ha : s.auto = none) : entry s = s := by
  unfold entry
  rw [setupAutoBufSize_of_none ha]; simp

theorem addChunk_zero (φ : Faults) (s : St) (k off : Nat) : addChunk φ 0 s k off = .hang s k := rfl

theorem addChunk_succ (φ : Faults) (fuel : Nat) (s : St) (k off : Nat) :
    addChunk φ (fuel + 1) s k off =
      if (entry s).chunks.length < (entry s).max then
        match loadChunk (entry s) off with
        | none => .err (entry s) k
        | some c => .ok { entry s with chunks := (entry s).chunks ++ [c] } k c
      else if (clear φ (entry s) k).2.2 = true then
        addChunk φ fuel (setupAutoBufSize (clear φ (entry s) k).1) (clear φ (entry s) k).2.1 off
      else .err (clear φ (entry s) k).1 (clear φ (entry s) k).2.1 := by
  rfl

/-- the postcondition of a fetch of the chunk at `off` -/
def FetchPost (s : St) (off : Nat) : Out Chunk → Prop
  | .ok s' _ c => Inv s' ∧ Same s s' ∧ c ∈ s'.chunks ∧ c.off = off
  | .err s' _ => Inv s' ∧ Same s s'
  | .hang _ _ => True

theorem FetchPost.mono {s s0 : St} {off : Nat} {o : Out Chunk} (hs : Same s s0) (h : FetchPost s0 off o) :
    FetchPost s off o := by
  cases o with
  | ok s' k c => exact ⟨h.1, hs.trans h.2.1, h.2.2⟩
  | err s' k => exact ⟨h.1, hs.trans h.2⟩
  | hang s' k => trivial

theorem addChunk_spec (φ : Faults) (fuel : Nat) : ∀ (s : St) (k off : Nat), Inv s → off % s.cs = 0 → off ≤ s.end_ →
    findChunk s.chunks off = none → FetchPost s off (addChunk φ fuel s k off) := by
  induction fuel with
  | zero => intro s k off _ _ _ _; trivial
  | succ fuel ih =>
    intro s k off h ha hle hn
    obtain ⟨e1, e2, e3, e4⟩ := entry_spec h
    rw [addChunk_succ]
    by_cases hroom : (entry s).chunks.length < (entry s).max
    · rw [if_pos hroom]
      cases hl : loadChunk (entry s) off with
      | none => exact ⟨e1, e2⟩
      | some c =>
        obtain ⟨p1, p2, p3⟩ := push_spec e1 (by rw [e2.cs]; exact ha) (by rw [e3]; exact hn) hroom hl
        exact ⟨p1, e2.trans p2, List.mem_append_right _ (by simp), p3⟩
    · rw [if_neg hroom]
      obtain ⟨c1, c2, c3, c4, _⟩ := clear_full φ k e1
      by_cases hok : (clear φ (entry s) k).2.2 = true
      · rw [if_pos hok]
        obtain ⟨a1, a2, a3, _⟩ := setupAutoBufSize_spec c1
        have hs : Same s (setupAutoBufSize (clear φ (entry s) k).1) := (e2.trans c2).trans a2
        apply FetchPost.mono hs
        apply ih _ _ _ a1 (by rw [hs.cs]; exact ha) (by rw [hs.end_]; exact hle)
        rw [a3]
        apply findChunk_none.2
        intro x hx
        obtain ⟨y, hy, hyo⟩ := c4 x hx
        rw [e3] at hy
        rw [← hyo]; exact findChunk_none.1 hn y hy
      · rw [if_neg hok]
        exact ⟨c1, e2.trans c2⟩

theorem fetch_of_some (φ : Faults) {s : St} (k p : Nat) {c : Chunk}
    (hf : findChunk s.chunks (chunkStart s p) = some c) : fetch φ s k p = .ok s k c := by
  unfold fetch; simp only [hf]

theorem fetch_of_none (φ : Faults) {s : St} (k p : Nat) (hf : findChunk s.chunks (chunkStart s p) = none) :
    fetch φ s k p = addChunk φ 2 s k (chunkStart s p) := by
  unfold fetch; simp only [hf, fetchFuel]

theorem fetch_post (φ : Faults) {s : St} (k p : Nat) (h : Inv s) (hp : p ≤ s.end_) :
    FetchPost s (chunkStart s p) (fetch φ s k p) := by
  cases hf : findChunk s.chunks (chunkStart s p) with
  | some c =>
    rw [fetch_of_some φ k p hf]
    exact ⟨h, Same.refl s, (findChunk_some hf).1, (findChunk_some hf).2⟩
  | none =>
    rw [fetch_of_none φ k p hf]
    exact addChunk_spec φ 2 s k _ h (chunkStart_mod s p) (Nat.le_trans (chunkStart_le s p) hp) hf

/-- a fetch at or before the logical end: whatever happens, the invariant and the logical view
survive; on `Ok` the chunk containing `p` is resident -/
theorem fetch_spec (φ : Faults) {s : St} (k p : Nat) (h : Inv s) (hp : p ≤ s.end_) :
    match fetch φ s k p with
    | .ok s' _ c => Inv s' ∧ Same s s' ∧ c ∈ s'.chunks ∧ c.off = chunkStart s p
    | .err s' _ => Inv s' ∧ Same s s'
    | .hang _ _ => True := by
  have := fetch_post φ k p h hp
  cases hf : fetch φ s k p <;> rw [hf] at this <;> exact this

/-! ### no hang -/

theorem addChunk_room (φ : Faults) (fuel : Nat) (s : St) (k off : Nat)
    (hroom : (entry s).chunks.length < (entry s).max) : ∀ s' k', addChunk φ (fuel + 1) s k off ≠ .hang s' k' := by
  intro s' k'
  rw [addChunk_succ, if_pos hroom]
  cases loadChunk (entry s) off <;> simp

theorem setupAutoBufSize_max {s : St} {pm : Nat} (ha : s.auto = some pm)
    (hv : bufferSize pm s.end_ / s.cs + 1 > s.chunks.length) :
    (setupAutoBufSize s).max = bufferSize pm s.end_ / s.cs + 1 := by
  rw [setupAutoBufSize_of_some ha, if_pos hv]

/-- the resident offsets and one more aligned offset at or before the end -/
theorem chunks_count {s : St} (h : Inv s) {off : Nat} (ha : off % s.cs = 0) (hle : off ≤ s.end_)
    (hn : findChunk s.chunks off = none) : s.chunks.length + 1 ≤ s.end_ / s.cs + 1 := by
  have nd : (off :: s.chunks.map (·.off)).Nodup := by
    refine List.nodup_cons.2 ⟨fun hm => ?_, h.nodup⟩
    obtain ⟨x, hx, hxo⟩ := List.mem_map.1 hm
    exact findChunk_none.1 hn x hx hxo
  have := aligned_count (cs := s.cs) (e := s.end_) nd ?_ ?_
  · simpa using this
  · intro x hx
    rcases List.mem_cons.1 hx with rfl | hx
    · exact ha
    · obtain ⟨y, hy, rfl⟩ := List.mem_map.1 hx
      exact (h.shape y hy).1
  · intro x hx
    rcases List.mem_cons.1 hx with rfl | hx
    · exact hle
    · obtain ⟨y, hy, rfl⟩ := List.mem_map.1 hx
      exact (h.shape y hy).2.2

/-- with a per-mille of at least 1000 the first entry of `add_chunk` always has room -/
theorem entry_room_of_whole {s : St} (h : Inv s) {pm : Nat} (hauto : s.auto = some pm) (hpm : 1000 ≤ pm)
    {off : Nat} (ha : off % s.cs = 0) (hle : off ≤ s.end_) (hn : findChunk s.chunks off = none) :
    (entry s).chunks.length < (entry s).max := by
  by_cases heq : s.chunks.length = s.max
  · have he : entry s = setupAutoBufSize s := by
      unfold entry; simp [heq]
    have hcnt := chunks_count h ha hle hn
    have h1 := Nat.div_le_div_right (c := s.cs) (bufferSize_ge_size s.end_ hpm)
    have hv : bufferSize pm s.end_ / s.cs + 1 > s.chunks.length := by omega
    rw [he, setupAutoBufSize_max hauto hv, (setupAutoBufSize_spec h).2.2.1]
    exact hv
  · rw [entry_of_lt (by have := h.cap; omega)]
    have := h.cap; omega

theorem addChunk_two_returns (φ : Faults) {s : St} (k off : Nat) (h : Inv s) (hc : NoHangCfg s)
    (ha : off % s.cs = 0) (hle : off ≤ s.end_) (hn : findChunk s.chunks off = none) :
    ∀ s' k', addChunk φ 2 s k off ≠ .hang s' k' := by
  obtain ⟨e1, e2, e3, e4⟩ := entry_spec h
  by_cases hroom : (entry s).chunks.length < (entry s).max
  · exact addChunk_room φ 1 s k off hroom
  · intro s' k'
    rw [addChunk_succ, if_neg hroom]
    obtain ⟨c1, c2, c3, _, c5, _⟩ := clear_full φ k e1
    by_cases hok : (clear φ (entry s) k).2.2 = true
    · rw [if_pos hok]
      apply addChunk_room φ 0
      obtain ⟨a1, a2, a3, _⟩ := setupAutoBufSize_spec c1
      have hlen : (setupAutoBufSize (clear φ (entry s) k).1).chunks.length ≤ 1 := by
        rw [a3]; exact (c5 hok).1
      have hmax : 2 ≤ (setupAutoBufSize (clear φ (entry s) k).1).max := by
        have hsame : Same s (clear φ (entry s) k).1 := e2.trans c2
        unfold NoHangCfg at hc
        cases hauto : s.auto with
        | none =>
          rw [hauto] at hc
          rw [setupAutoBufSize_of_none (hsame.auto.trans hauto), hsame.max_fixed hauto]
          exact hc
        | some pm =>
          rw [hauto] at hc
          rcases hc with hcs | hpm
          · have hv : 2 ≤ bufferSize pm (clear φ (entry s) k).1.end_ / (clear φ (entry s) k).1.cs + 1 := by
              rw [hsame.cs]
              have h1 := Nat.div_le_div_right (c := s.cs) (bufferSize_ge_floor pm (clear φ (entry s) k).1.end_)
              have h2 := Nat.div_pos hcs h.cs_pos
              omega
            rw [setupAutoBufSize_max (hsame.auto.trans hauto) (by have := (c5 hok).1; omega)]
            exact hv
          · exact absurd (entry_room_of_whole h hauto hpm ha hle hn) hroom
      rw [entry_of_lt (by omega)]
      omega
    · rw [if_neg hok]
      simp

/-- in the configurations of `NoHangCfg` a fetch at or before the logical end returns -/
theorem fetch_returns (φ : Faults) {s : St} (k p : Nat) (h : Inv s) (hc : NoHangCfg s) (hp : p ≤ s.end_) :
    ∀ s' k', fetch φ s k p ≠ .hang s' k' := by
  cases hf : findChunk s.chunks (chunkStart s p) with
  | some c => intro s' k'; rw [fetch_of_some φ k p hf]; simp
  | none =>
    rw [fetch_of_none φ k p hf]
    exact addChunk_two_returns φ k _ h hc (chunkStart_mod s p) (Nat.le_trans (chunkStart_le s p) hp) hf

/-! ### no error without refused writes -/

theorem addChunk_noFaults_no_err (fuel : Nat) : ∀ (s : St) (k off : Nat), Inv s → off % s.cs = 0 → off ≤ s.end_ →
    findChunk s.chunks off = none → ∀ s' k', addChunk noFaults fuel s k off ≠ .err s' k' := by
  induction fuel with
  | zero => intro s k off _ _ _ _ s' k'; rw [addChunk_zero]; simp
  | succ fuel ih =>
    intro s k off h ha hle hn s' k'
    obtain ⟨e1, e2, e3, e4⟩ := entry_spec h
    rw [addChunk_succ]
    by_cases hroom : (entry s).chunks.length < (entry s).max
    · rw [if_pos hroom]
      obtain ⟨c, hl⟩ := loadChunk_isSome e1 (by rw [e2.cs]; exact ha) (by rw [e2.end_]; exact hle)
        (by rw [e3]; exact hn)
      rw [hl]; simp
    · rw [if_neg hroom, if_pos (clear_noFaults_ok k e1)]
      obtain ⟨c1, c2, c3, c4, _⟩ := clear_full noFaults k e1
      obtain ⟨a1, a2, a3, _⟩ := setupAutoBufSize_spec c1
      have hs : Same s (setupAutoBufSize (clear noFaults (entry s) k).1) := (e2.trans c2).trans a2
      apply ih _ _ _ a1 (by rw [hs.cs]; exact ha) (by rw [hs.end_]; exact hle)
      rw [a3]
      apply findChunk_none.2
      intro x hx
      obtain ⟨y, hy, hyo⟩ := c4 x hx
      rw [e3] at hy
      rw [← hyo]; exact findChunk_none.1 hn y hy

/-- and without refused writes it returns `Ok` (a load cannot fail: what is not on disk is resident) -/
theorem fetch_ok {s : St} (k p : Nat) (h : Inv s) (hc : NoHangCfg s) (hp : p ≤ s.end_) :
    ∃ s' k' c, fetch noFaults s k p = .ok s' k' c := by
  cases hr : fetch noFaults s k p with
  | ok s' k' c => exact ⟨s', k', c, rfl⟩
  | hang s' k' => exact absurd hr (fetch_returns noFaults k p h hc hp s' k')
  | err s' k' =>
    exfalso
    cases hf : findChunk s.chunks (chunkStart s p) with
    | some c => rw [fetch_of_some noFaults k p hf] at hr; nomatch hr
    | none =>
      rw [fetch_of_none noFaults k p hf] at hr
      exact addChunk_noFaults_no_err 2 s k _ h (chunkStart_mod s p) (Nat.le_trans (chunkStart_le s p) hp) hf s' k' hr

set_option linter.unusedVariables false in
/-- the non-termination: a fixed capacity of one chunk, the offset-0 chunk resident, another chunk
requested — out of fuel for every amount of fuel (the real `add_chunk` recurses forever) -/
theorem addChunk_hangs {s : St} (k off fuel : Nat) (h : Inv s) (hauto : s.auto = none) (hmax : s.max = 1)
    (h0 : ∃ c ∈ s.chunks, c.off = 0) (hoff : off ≠ 0) :
    ∃ s' k', addChunk noFaults fuel s k off = .hang s' k' := by
  induction fuel generalizing s k with
  | zero => exact ⟨s, k, rfl⟩
  | succ fuel ih =>
    have hlen : ¬ s.chunks.length < s.max := by
      obtain ⟨c, hc, _⟩ := h0
      have := List.length_pos_of_mem hc
      omega
    rw [addChunk_succ, entry_of_none hauto, if_neg hlen, if_pos (clear_noFaults_ok k h)]
    obtain ⟨c1, c2, c3, _, c5, _⟩ := clear_full noFaults k h
    have ha' : (clear noFaults s k).1.auto = none := c2.auto.trans hauto
    rw [setupAutoBufSize_of_none ha']
    exact ih _ c1 ha' (c3.trans hmax) ((c5 (clear_noFaults_ok k h)).2.2 h0)

end Abyss.RaBuf
