import Abyss.Lemmas.BoundAlloc
import Abyss.Props.C01
/-!
# What `put` / `del` do to the two record files, as allocator-level reachability
-/
namespace Abyss
open RecFile Store

namespace Bound
variable {α : Type}

/-- offsets of the used slots, in address order -/
def usedOffs (f : RecFile α) : List Nat :=
  f.slots.filterMap fun p => match p.2 with | .used _ _ => some p.1 | .free _ _ => none

/-- the value offsets the used key records refer to, in address order of the key records -/
def valOffs (f : RecFile KeyRec) : List Nat :=
  f.slots.filterMap fun p => match p.2 with | .used _ r => some r.valOff | .free _ _ => none

theorem usedOffs_length (f : RecFile α) : (usedOffs f).length = usedCount f := by
  unfold usedOffs usedCount
  apply Store.length_filterMap_eq_filter
  rintro ⟨o, sl⟩ _
  cases sl <;> rfl

theorem valOffs_length (f : RecFile KeyRec) : (valOffs f).length = usedCount f := by
  unfold valOffs usedCount
  apply Store.length_filterMap_eq_filter
  rintro ⟨o, sl⟩ _
  cases sl <;> rfl

theorem mem_usedOffs {c : FileCfg} {f : RecFile α} (h : WF c f) (o : Nat) :
    o ∈ usedOffs f ↔ ∃ sz p, f.used o = some (sz, p) := by
  unfold usedOffs
  rw [List.mem_filterMap]
  constructor
  · rintro ⟨⟨o', sl⟩, hm, hf⟩
    cases sl with
    | free a b => simp at hf
    | used sz p =>
      simp only [Option.some.injEq] at hf
      subst hf
      exact ⟨sz, p, Store.used_of_get _ _ _ _ (Store.get_of_mem_slots h _ _ hm)⟩
  · rintro ⟨sz, p, hu⟩
    exact ⟨(o, .used sz p), Store.mem_slots_of_get _ _ _ (Store.get_of_used _ _ _ _ hu), rfl⟩

theorem mem_valOffs {c : FileCfg} {f : RecFile KeyRec} (h : WF c f) (vo : Nat) :
    vo ∈ valOffs f ↔ ∃ o sz r, f.used o = some (sz, r) ∧ r.valOff = vo := by
  unfold valOffs
  rw [List.mem_filterMap]
  constructor
  · rintro ⟨⟨o', sl⟩, hm, hf⟩
    cases sl with
    | free a b => simp at hf
    | used sz r =>
      simp only [Option.some.injEq] at hf
      exact ⟨o', sz, r, Store.used_of_get _ _ _ _ (Store.get_of_mem_slots h _ _ hm), hf⟩
  · rintro ⟨o, sz, r, hu, hv⟩
    exact ⟨(o, .used sz r), Store.mem_slots_of_get _ _ _ (Store.get_of_used _ _ _ _ hu), by simp [hv]⟩

theorem usedOffs_nodup {c : FileCfg} {f : RecFile α} (h : WF c f) : (usedOffs f).Nodup := by
  unfold usedOffs
  refine List.Pairwise.filterMap _ ?_ (Store.tiled_pairwise h.tiled)
  rintro ⟨o, sl⟩ ⟨o', sl'⟩ hne b hb b' hb'
  cases sl with
  | free _ _ => simp at hb
  | used _ _ =>
    cases sl' with
    | free _ _ => simp at hb'
    | used _ _ =>
      simp at hb hb'
      subst hb hb'
      exact hne

theorem valOffs_nodup {kt : KeyType} {s : Store} {x : Nat} (h : InvX kt s x) : (valOffs s.kf).Nodup := by
  unfold valOffs
  have hp := List.Pairwise.and_mem.mp (Store.tiled_pairwise h.kwf.tiled)
  refine List.Pairwise.filterMap _ ?_ hp
  rintro ⟨o, sl⟩ ⟨o', sl'⟩ ⟨hm, hm', hne⟩ b hb b' hb'
  cases sl with
  | free _ _ => simp at hb
  | used sz r =>
    cases sl' with
    | free _ _ => simp at hb'
    | used sz' r' =>
      simp at hb hb'
      subst hb hb'
      intro e
      exact hne (h.val_inj o o' sz sz' r r' (Store.used_of_get _ _ _ _ (Store.get_of_mem_slots h.kwf _ _ hm))
        (Store.used_of_get _ _ _ _ (Store.get_of_mem_slots h.kwf _ _ hm')) e)

end Bound
open Bound

theorem usedCount_kf {kt : KeyType} {s : Store} (h : Inv kt s) : usedCount s.kf = s.count :=
  (Store.Del.count_eq h).symm

/-- under the invariant the value file has as many used slots as the key file (ownership is 1:1) -/
theorem usedCount_vf {kt : KeyType} {s : Store} (h : Inv kt s) : usedCount s.vf = s.count := by
  rw [← usedCount_kf h, ← usedOffs_length, ← valOffs_length]
  have h1 : valOffs s.kf ⊆ usedOffs s.vf := by
    intro vo hvo
    obtain ⟨o, sz, r, hu, rfl⟩ := (mem_valOffs h.kwf vo).mp hvo
    obtain ⟨vs, v, hv⟩ := h.val_used o sz r hu
    exact (mem_usedOffs h.vwf _).mpr ⟨vs, v, hv⟩
  have h2 : usedOffs s.vf ⊆ valOffs s.kf := by
    intro vo hvo
    obtain ⟨vs, v, hv⟩ := (mem_usedOffs h.vwf vo).mp hvo
    exact (mem_valOffs h.kwf vo).mpr (h.val_owned vo vs v hv)
  have l1 := (List.subperm_of_subset (valOffs_nodup h) h1).length_le
  have l2 := (List.subperm_of_subset (usedOffs_nodup h.vwf) h2).length_le
  omega

/-- the abstraction has one entry per used key record -/
theorem abs_length {kt : KeyType} {s : Store} (h : Inv kt s) : (abs s).length = s.count :=
  Store.abs_len h

/-- one `rewrite` of a used key record, as an `AReach` step with the tight ceiling -/
theorem rewrite_areach {c : FileCfg} {α : Type} {f f' : RecFile α} (hc : CfgOK c) (h : WF c f)
    {off sz0 need off' : Nat} {p0 p : α}
    (hg : f.get off = some (.used sz0 p0)) (hn : LegalSz c need)
    (hrw : rewrite c f off need p = some (off', f')) :
    AReach c (usedCount f) f f' ∧ WF c f' ∧ usedCount f' = usedCount f := by
  have hu : f.used off = some (sz0, p0) := Store.Del.used_eq_some.mpr hg
  obtain ⟨o2, sz2, f2, e, wf2, _, _, _, _, hcnt, _, _⟩ := rewrite_spec hc h hu hn p
  rw [hrw] at e
  cases e
  exact ⟨AReach.rew (AReach.refl f) hn hu hrw (Nat.le_of_eq hcnt), wf2, hcnt⟩

/-- `relink` only rewrites used key records -/
theorem relink_areach {b : Nat} : ∀ (fuel : Nat) {s s' : Store} {old new : Nat}, WF keyCfg s.kf →
    relink b fuel s old new = some s' →
    AReach keyCfg (usedCount s.kf) s.kf s'.kf ∧ s'.vf = s.vf ∧ usedCount s'.kf = usedCount s.kf := by
  intro fuel
  induction fuel with
  | zero => intro s s' old new _ h; simp [relink] at h
  | succ fuel ih =>
    intro s s' old new hwf h
    unfold relink at h
    split at h
    · cases h
    · next prev _ =>
      split at h
      · cases h
        exact ⟨AReach.refl _, rfl, rfl⟩
      · split at h
        · next sz0 pr hg =>
          simp only at h
          split at h
          · cases h
          · next p' kf' hrw =>
            obtain ⟨a1, wf', hcnt⟩ := rewrite_areach keyCfg_ok hwf hg (keyNeed_legal _) hrw
            split at h
            · cases h
              exact ⟨a1, rfl, hcnt⟩
            · obtain ⟨a2, hv2, hc2⟩ := ih (s := { s with kf := kf' }) wf' h
              simp only at a2 hv2 hc2
              rw [hcnt] at a2 hc2
              exact ⟨a1.trans a2, hv2, hc2⟩
        · cases h

/-- the unlink step of `del` only rewrites used key records -/
theorem unlinkStep_areach {b : Nat} {s s1 : Store} {prev next : Nat} (hwf : WF keyCfg s.kf)
    (h : Store.Del.unlinkStep b s prev next = some s1) :
    AReach keyCfg (usedCount s.kf) s.kf s1.kf ∧ s1.vf = s.vf ∧ usedCount s1.kf = usedCount s.kf := by
  unfold Store.Del.unlinkStep at h
  split at h
  · cases h
    exact ⟨AReach.refl _, rfl, rfl⟩
  · split at h
    · next sz0 pr hg =>
      simp only at h
      split at h
      · cases h
      · next p' kf' hrw =>
        obtain ⟨a1, wf', hcnt⟩ := rewrite_areach keyCfg_ok hwf hg (keyNeed_legal _) hrw
        split at h
        · cases h
          exact ⟨a1, rfl, hcnt⟩
        · obtain ⟨a2, hv2, hc2⟩ := relink_areach _ (s := { s with kf := kf' }) wf' h
          simp only at a2 hv2 hc2
          rw [hcnt] at a2 hc2
          exact ⟨a1.trans a2, hv2, hc2⟩
    · cases h

/-- one `addPiece`, as an `AReach` step -/
theorem addPiece_areach {c : FileCfg} {α : Type} {f f' : RecFile α} (hc : CfgOK c) (h : WF c f)
    {need off : Nat} {p : α} (hn : LegalSz c need)
    (hadd : addPiece c f need p = some (off, f')) :
    AReach c (usedCount f') f f' ∧ usedCount f' = usedCount f + 1 := by
  obtain ⟨o2, sz2, f2, e, _, _, _, _, _, _, hcnt, _, _⟩ := addPiece_spec hc h hn p
  rw [hadd] at e
  cases e
  exact ⟨AReach.add (AReach.refl f) hn hadd (Nat.le_refl _), hcnt⟩

theorem put_areach {kt : KeyType} {s s' : Store} {k v : List Nat} (hk : WF keyCfg s.kf) (hv : WF valCfg s.vf)
    (hp : s.put kt k v = some s') :
    AReach keyCfg (max (usedCount s.kf) (usedCount s'.kf)) s.kf s'.kf ∧
    AReach valCfg (max (usedCount s.vf) (usedCount s'.vf)) s.vf s'.vf := by
  unfold put at hp
  simp only at hp
  split at hp
  · cases hp
  · next off prev hfind =>
    split at hp
    · next ksz kr hkg =>
      split at hp
      · next vsz v0 hvg =>
        split at hp
        · cases hp
        · next voff' vf' hrwv =>
          obtain ⟨av, _, hcv⟩ := rewrite_areach valCfg_ok hv hvg (valueNeed_legal _) hrwv
          split at hp
          · cases hp
            exact ⟨AReach.refl _, av.mono (Nat.le_max_left _ _)⟩
          · split at hp
            · cases hp
            · next koff' kf' hrwk =>
              obtain ⟨ak, wfk, hck⟩ := rewrite_areach keyCfg_ok hk hkg (keyNeed_legal _) hrwk
              split at hp
              · cases hp
                exact ⟨ak.mono (Nat.le_max_left _ _), av.mono (Nat.le_max_left _ _)⟩
              · obtain ⟨a2, hv2, hc2⟩ := relink_areach _ (s := { s with vf := vf', kf := kf' }) wfk hp
                simp only at a2 hv2 hc2
                rw [hck] at a2
                rw [hv2]
                exact ⟨(ak.trans a2).mono (Nat.le_max_left _ _), av.mono (Nat.le_max_left _ _)⟩
      · cases hp
    · cases hp
  · split at hp
    · cases hp
    · next voff vf' haddv =>
      split at hp
      · cases hp
      · next koff kf' haddk =>
        cases hp
        obtain ⟨av, _⟩ := addPiece_areach valCfg_ok hv (valueNeed_legal _) haddv
        obtain ⟨ak, _⟩ := addPiece_areach keyCfg_ok hk (keyNeed_legal _) haddk
        exact ⟨ak.mono (Nat.le_max_right _ _), av.mono (Nat.le_max_right _ _)⟩

/-- `del` of an admissible key under the invariant (the invariant is what makes the two final
`deletePiece` calls hit used records) -/
theorem del_areach {kt : KeyType} {s s' : Store} {k : List Nat} {r : Option (List Nat)}
    (h : Inv kt s) (hkey : KeyOK kt k) (hd : s.del kt k = some (s', r)) :
    AReach keyCfg (max (usedCount s.kf) (usedCount s'.kf)) s.kf s'.kf ∧
    AReach valCfg (max (usedCount s.vf) (usedCount s'.vf)) s.vf s'.vf := by
  rcases find_spec h k hkey with ⟨o, sz, kr, l1, l2, hf, hu, hkk, hc⟩ | ⟨hf, _⟩
  · subst hkk
    obtain ⟨vs, v, hvu⟩ := h.val_used o sz kr hu
    have hb : bucketOf kr.key s.n < s.n := Del.bucketOf_lt _ h.npos
    obtain ⟨s1, hul, h1, hvf, _, _, hu1, _⟩ := Del.unlink_spec h hb hc hu
    rw [Del.del_found hf (Del.used_eq_some.mp hu) (Del.used_eq_some.mp hvu), hul] at hd
    simp only [Option.bind_some] at hd
    obtain ⟨a1, _, hc1⟩ := unlinkStep_areach h.kwf hul
    unfold Del.finishStep at hd
    split at hd
    · cases hd
    · next vf' hdv =>
      split at hd
      · cases hd
      · next kf' hdk =>
        cases hd
        simp only
        constructor
        · exact (AReach.del a1 hu1 hdk).mono (Nat.le_max_left _ _)
        · rw [hvf] at hdv
          exact (AReach.del (AReach.refl _) hvu hdv).mono (Nat.le_max_left _ _)
  · rw [Del.del_absent hf] at hd
    cases hd
    exact ⟨AReach.refl _, AReach.refl _⟩

/-- one API call: no size gains a slot beyond the number of entries before / after the call -/
theorem step_census {kt : KeyType} {s s' : Store} {op : Op} {out : Out} (h : Inv kt s) (h' : Inv kt s')
    (hop : Op.OK kt op) (hs : s.step kt op = some (s', out)) (sz : Nat) :
    sizeCount s'.kf sz ≤ max (sizeCount s.kf sz) (max s.count s'.count) ∧
    sizeCount s'.vf sz ≤ max (sizeCount s.vf sz) (max s.count s'.count) := by
  have key : AReach keyCfg (max (usedCount s.kf) (usedCount s'.kf)) s.kf s'.kf ∧
      AReach valCfg (max (usedCount s.vf) (usedCount s'.vf)) s.vf s'.vf := by
    cases op with
    | put k v =>
      simp only [Store.step, Option.map_eq_some_iff] at hs
      obtain ⟨s2, hp, e⟩ := hs
      cases e
      exact put_areach h.kwf h.vwf hp
    | del k =>
      simp only [Store.step, Option.map_eq_some_iff] at hs
      obtain ⟨⟨s2, r⟩, hp, e⟩ := hs
      cases e
      exact del_areach h hop hp
    | get k =>
      simp only [Store.step, Option.map_eq_some_iff] at hs
      obtain ⟨_, _, e⟩ := hs
      cases e
      exact ⟨AReach.refl _, AReach.refl _⟩
    | includes k =>
      simp only [Store.step, Option.map_eq_some_iff] at hs
      obtain ⟨_, _, e⟩ := hs
      cases e
      exact ⟨AReach.refl _, AReach.refl _⟩
    | len =>
      simp only [Store.step, Option.some.injEq, Prod.mk.injEq] at hs
      obtain ⟨e, _⟩ := hs
      subst e
      exact ⟨AReach.refl _, AReach.refl _⟩
    | isEmpty =>
      simp only [Store.step, Option.some.injEq, Prod.mk.injEq] at hs
      obtain ⟨e, _⟩ := hs
      subst e
      exact ⟨AReach.refl _, AReach.refl _⟩
  rw [usedCount_kf h, usedCount_kf h', usedCount_vf h, usedCount_vf h'] at key
  exact ⟨key.1.bound keyCfg_ok h.kwf sz, key.2.bound valCfg_ok h.vwf sz⟩

end Abyss
