import Abyss.Lemmas.PutAux
/-!
# `put` on a key that is present: the state after rewriting the value record and (possibly) the
key record, before any relinking
-/
namespace Abyss
namespace Store
namespace Put

/-- `s1` arises from `s` by replacing the used key record `kr` at `off` by
`{kr with valOff := vn}` at `kn` (`kn = off`, or a fresh offset and then `off` is no longer used)
and the used value record at `kr.valOff` by `v` at `vn` (same alternatives); the bucket table
and the count are those of `s`. -/
structure Repl (s s1 : Store) (off : Nat) (kr : KeyRec) (kn ksz vn vsz : Nat) (v : List Nat) : Prop where
  hn : s1.n = s.n
  hhead : ∀ b', s1.headOf b' = s.headOf b'
  hbit : ∀ b', s1.bitOf b' = s.bitOf b'
  hcount : s1.count = s.count
  kwf : RecFile.WF keyCfg s1.kf
  vwf : RecFile.WF valCfg s1.vf
  hk1 : ∀ o, s1.kf.used o =
    if o = kn then some (ksz, { kr with valOff := vn }) else if o = off then none else s.kf.used o
  hv1 : ∀ o, s1.vf.used o =
    if o = vn then some (vsz, v) else if o = kr.valOff then none else s.vf.used o
  hkn : kn = off ∨ s.kf.used kn = none
  hkn0 : kn ≠ 0
  hvn : vn = kr.valOff ∨ s.vf.used vn = none
  huc : RecFile.usedCount s1.kf = RecFile.usedCount s.kf

section
variable {kt : KeyType} {s s1 : Store} {off sz : Nat} {kr : KeyRec} {kn ksz vn vsz : Nat} {v : List Nat}

theorem Repl.used_new (R : Repl s s1 off kr kn ksz vn vsz v) :
    s1.kf.used kn = some (ksz, { kr with valOff := vn }) := by
  rw [R.hk1, if_pos rfl]

/-- a used record of `s` other than the one at `off` is still there -/
theorem Repl.same (R : Repl s s1 off kr kn ksz vn vsz v) {o sz' : Nat} {r : KeyRec}
    (ho : o ≠ off) (hu : s.kf.used o = some (sz', r)) : s1.kf.used o = s.kf.used o := by
  have hne : o ≠ kn := by
    rintro rfl
    rcases R.hkn with e | e
    · exact ho e
    · rw [e] at hu; cases hu
  rw [R.hk1, if_neg hne, if_neg ho]

/-- a used record of `s1` is the new one or an old one -/
theorem Repl.cases (R : Repl s s1 off kr kn ksz vn vsz v) {o sz' : Nat} {r : KeyRec}
    (hu : s1.kf.used o = some (sz', r)) :
    (o = kn ∧ sz' = ksz ∧ r = { kr with valOff := vn }) ∨ (o ≠ kn ∧ o ≠ off ∧ s.kf.used o = some (sz', r)) := by
  rw [R.hk1] at hu
  by_cases h1 : o = kn
  · rw [if_pos h1] at hu
    injection hu with hu
    injection hu with e1 e2
    exact Or.inl ⟨h1, e1.symm, e2.symm⟩
  · rw [if_neg h1] at hu
    by_cases h2 : o = off
    · rw [if_pos h2] at hu; cases hu
    · rw [if_neg h2] at hu
      exact Or.inr ⟨h1, h2, hu⟩

/-! ### record-level clauses of the invariant -/

theorem Repl.keys_ok (R : Repl s s1 off kr kn ksz vn vsz v) {x : Nat} (h : InvX kt s x)
    (hu : s.kf.used off = some (sz, kr)) :
    ∀ o sz r, s1.kf.used o = some (sz, r) → KeyOK kt r.key := by
  intro o sz' r hu1
  rcases R.cases hu1 with ⟨_, _, rfl⟩ | ⟨_, _, hu0⟩
  · exact h.keys_ok off sz kr hu
  · exact h.keys_ok _ _ _ hu0

theorem Repl.keys_inj (R : Repl s s1 off kr kn ksz vn vsz v) {x : Nat} (h : InvX kt s x)
    (hu : s.kf.used off = some (sz, kr)) :
    ∀ o o' sz sz' r r', s1.kf.used o = some (sz, r) → s1.kf.used o' = some (sz', r') →
      r.key = r'.key → o = o' := by
  intro o o' sz1 sz2 r r' hu1 hu2 hkey
  rcases R.cases hu1 with ⟨e1, _, rfl⟩ | ⟨_, n1, hu1'⟩ <;>
  rcases R.cases hu2 with ⟨e2, _, rfl⟩ | ⟨_, n2, hu2'⟩
  · rw [e1, e2]
  · exact absurd (h.keys_inj _ _ _ _ _ _ hu hu2' hkey).symm n2
  · exact absurd (h.keys_inj _ _ _ _ _ _ hu1' hu hkey) n1
  · exact h.keys_inj _ _ _ _ _ _ hu1' hu2' hkey

theorem Repl.val_new (R : Repl s s1 off kr kn ksz vn vsz v) : s1.vf.used vn = some (vsz, v) := by
  rw [R.hv1, if_pos rfl]

/-- the value record of an old key record other than `off` is untouched -/
theorem Repl.val_same (R : Repl s s1 off kr kn ksz vn vsz v) {x : Nat} (h : InvX kt s x)
    (hu : s.kf.used off = some (sz, kr)) {o sz' : Nat} {r : KeyRec}
    (ho : o ≠ off) (hu0 : s.kf.used o = some (sz', r)) : s1.vf.used r.valOff = s.vf.used r.valOff := by
  obtain ⟨vs, w, hw⟩ := h.val_used _ _ _ hu0
  have h1 : r.valOff ≠ kr.valOff := fun e => ho (h.val_inj _ _ _ _ _ _ hu0 hu e)
  have h2 : r.valOff ≠ vn := by
    intro e
    rcases R.hvn with e' | e'
    · exact h1 (e.trans e')
    · rw [← e, hw] at e'; cases e'
  rw [R.hv1, if_neg h2, if_neg h1]

theorem Repl.val_used (R : Repl s s1 off kr kn ksz vn vsz v) {x : Nat} (h : InvX kt s x)
    (hu : s.kf.used off = some (sz, kr)) :
    ∀ o sz r, s1.kf.used o = some (sz, r) → ∃ vs v, s1.vf.used r.valOff = some (vs, v) := by
  intro o sz' r hu1
  rcases R.cases hu1 with ⟨_, _, rfl⟩ | ⟨_, n1, hu0⟩
  · exact ⟨vsz, v, R.val_new⟩
  · rw [R.val_same h hu n1 hu0]
    exact h.val_used _ _ _ hu0

theorem Repl.val_inj (R : Repl s s1 off kr kn ksz vn vsz v) {x : Nat} (h : InvX kt s x)
    (hu : s.kf.used off = some (sz, kr)) :
    ∀ o o' sz sz' r r', s1.kf.used o = some (sz, r) → s1.kf.used o' = some (sz', r') →
      r.valOff = r'.valOff → o = o' := by
  have key : ∀ o sz' r, o ≠ off → s.kf.used o = some (sz', r) → r.valOff ≠ vn := by
    intro o sz' r ho hu0 e
    rcases R.hvn with e' | e'
    · exact ho (h.val_inj _ _ _ _ _ _ hu0 hu (e.trans e'))
    · obtain ⟨vs, w, hw⟩ := h.val_used _ _ _ hu0
      rw [e, e'] at hw; cases hw
  intro o o' sz1 sz2 r r' hu1 hu2 hvo
  rcases R.cases hu1 with ⟨e1, _, rfl⟩ | ⟨_, n1, hu1'⟩ <;>
  rcases R.cases hu2 with ⟨e2, _, rfl⟩ | ⟨_, n2, hu2'⟩
  · rw [e1, e2]
  · exact absurd hvo.symm (key _ _ _ n2 hu2')
  · exact absurd hvo (key _ _ _ n1 hu1')
  · exact h.val_inj _ _ _ _ _ _ hu1' hu2' hvo

theorem Repl.val_owned (R : Repl s s1 off kr kn ksz vn vsz v) {x : Nat} (h : InvX kt s x)
    (hu : s.kf.used off = some (sz, kr)) :
    ∀ vo vs v, s1.vf.used vo = some (vs, v) → ∃ o sz r, s1.kf.used o = some (sz, r) ∧ r.valOff = vo := by
  intro vo vs w hw
  rw [R.hv1] at hw
  by_cases h1 : vo = vn
  · exact ⟨kn, ksz, _, R.used_new, h1.symm⟩
  · rw [if_neg h1] at hw
    by_cases h2 : vo = kr.valOff
    · rw [if_pos h2] at hw; cases hw
    · rw [if_neg h2] at hw
      obtain ⟨o, sz', r, hu0, e⟩ := h.val_owned _ _ _ hw
      have ho : o ≠ off := by
        rintro rfl
        rw [hu] at hu0
        injection hu0 with hu0
        injection hu0 with _ e2
        exact h2 (e2 ▸ e.symm)
      exact ⟨o, sz', r, (R.same ho hu0).trans hu0, e⟩

/-! ### the (key, value offset) pairs and the values of the other keys -/

theorem Repl.hasKV (R : Repl s s1 off kr kn ksz vn vsz v) {x : Nat} (h : InvX kt s x)
    (hu : s.kf.used off = some (sz, kr)) (k' : List Nat) (vo' : Nat) :
    HasKV s1 k' vo' ↔ (k' = kr.key ∧ vo' = vn) ∨ (k' ≠ kr.key ∧ HasKV s k' vo') := by
  constructor
  · rintro ⟨o, sz', r, hu1, rfl, rfl⟩
    rcases R.cases hu1 with ⟨_, _, rfl⟩ | ⟨_, n1, hu0⟩
    · exact Or.inl ⟨rfl, rfl⟩
    · refine Or.inr ⟨fun e => n1 (h.keys_inj _ _ _ _ _ _ hu0 hu e), o, sz', r, hu0, rfl, rfl⟩
  · rintro (⟨rfl, rfl⟩ | ⟨hne, o, sz', r, hu0, rfl, rfl⟩)
    · exact ⟨kn, ksz, _, R.used_new, rfl, rfl⟩
    · have ho : o ≠ off := by
        rintro rfl
        rw [hu] at hu0
        injection hu0 with hu0
        injection hu0 with _ e2
        exact hne (e2 ▸ rfl)
      exact ⟨o, sz', r, (R.same ho hu0).trans hu0, rfl, rfl⟩

theorem Repl.vals (R : Repl s s1 off kr kn ksz vn vsz v) {x : Nat} (h : InvX kt s x)
    (hu : s.kf.used off = some (sz, kr)) (k' : List Nat) (vo : Nat) (hne : k' ≠ kr.key)
    (hkv : HasKV s k' vo) : s1.vf.used vo = s.vf.used vo := by
  obtain ⟨o, sz', r, hu0, rfl, rfl⟩ := hkv
  have ho : o ≠ off := by
    rintro rfl
    rw [hu] at hu0
    injection hu0 with hu0
    injection hu0 with _ e2
    exact hne (e2 ▸ rfl)
  exact R.val_same h hu ho hu0

/-! ### chains -/

theorem Repl.chain_other (R : Repl s s1 off kr kn ksz vn vsz v) (h : Inv kt s)
    (hu : s.kf.used off = some (sz, kr)) {b' : Nat} {l : List (Nat × KeyRec)} (hb' : b' < s.n)
    (hne : b' ≠ bucketOf kr.key s.n) (hc : s.chain b' = some l) : s1.chain b' = some l := by
  obtain ⟨l0, hc0, hnd, hb⟩ := h.chains b' hb'
  rw [hc] at hc0
  injection hc0 with e
  subst e
  apply chain_transfer hc hnd (R.hhead b')
  intro p hp
  obtain ⟨_, sz', hup⟩ := segFrom_used (seg_of_chain hc) p hp
  have ho : p.1 ≠ off := by
    intro e
    rw [e, hu] at hup
    injection hup with hup
    injection hup with _ e2
    have := (hb p hp).1
    rw [← e2] at this
    exact hne this.symm
  exact R.same ho hup

theorem Repl.mid (R : Repl s s1 off kr kn ksz vn vsz v) (h : Inv kt s)
    (hu : s.kf.used off = some (sz, kr)) {l1 l2 : List (Nat × KeyRec)}
    (hch : s.chain (bucketOf kr.key s.n) = some (l1 ++ (off, kr) :: l2)) :
    Mid kt s1 (bucketOf kr.key s.n) off kn l1 ((kn, { kr with valOff := vn }) :: l2) := by
  have hblt : bucketOf kr.key s.n < s.n := bucketOf_lt _ h.npos
  obtain ⟨l0, hc0, hnd, hb⟩ := h.chains _ hblt
  rw [hch] at hc0
  injection hc0 with e
  subst e
  have hseg := seg_of_chain hch
  obtain ⟨hseg1, hseg2⟩ := segFrom_split hseg
  obtain ⟨_, hoff0, _, hseg2'⟩ := hseg2
  -- offsets of the old chain
  have hnd' : (off :: (l1 ++ l2).map (·.1)).Nodup := by
    have : (l1 ++ (off, kr) :: l2).map (·.1) = l1.map (·.1) ++ off :: l2.map (·.1) := by simp
    rw [this] at hnd
    rw [List.map_append]
    exact (List.perm_middle.nodup_iff).1 hnd
  have hoffnot : off ∉ (l1 ++ l2).map (·.1) := (List.nodup_cons.1 hnd').1
  have hnd12 : ((l1 ++ l2).map (·.1)).Nodup := (List.nodup_cons.1 hnd').2
  have hmem : ∀ p ∈ l1 ++ l2, p ∈ l1 ++ (off, kr) :: l2 := by
    intro p hp
    rcases List.mem_append.1 hp with hp | hp
    · exact List.mem_append_left _ hp
    · exact List.mem_append_right _ (List.mem_cons_of_mem _ hp)
  have hne_off : ∀ p ∈ l1 ++ l2, p.1 ≠ off := by
    intro p hp e
    exact hoffnot (e ▸ List.mem_map_of_mem hp)
  have hused : ∀ p ∈ l1 ++ l2, ∃ sz', s.kf.used p.1 = some (sz', p.2) :=
    fun p hp => (segFrom_used hseg p (hmem p hp)).2
  have hsame : ∀ p ∈ l1 ++ l2, s1.kf.used p.1 = s.kf.used p.1 := by
    intro p hp
    obtain ⟨sz', hup⟩ := hused p hp
    exact R.same (hne_off p hp) hup
  have hne_kn : ∀ p ∈ l1 ++ l2, p.1 ≠ kn := by
    intro p hp e
    obtain ⟨sz', hup⟩ := hused p hp
    rcases R.hkn with e' | e'
    · exact hne_off p hp (e.trans e')
    · rw [e, e'] at hup; cases hup
  refine
    { npos := R.hn ▸ h.npos
      kwf := R.kwf
      vwf := R.vwf
      heads_lt := ?_
      bits_ok := ?_
      b_lt := R.hn ▸ hblt
      chains_other := ?_
      seg := ?_
      tail := ?_
      nodup := ?_
      bucket := ?_
      on_chain := ?_
      keys_ok := R.keys_ok h hu
      keys_inj := R.keys_inj h hu
      val_used := R.val_used h hu
      val_inj := R.val_inj h hu
      val_owned := R.val_owned h hu
      count_ok := ?_ }
  · intro b' hb'
    rw [R.hhead]
    exact h.heads_lt b' (R.hn ▸ hb')
  · intro b'
    rw [R.hhead, R.hbit]
    exact h.bits_ok b'
  · intro b' hb' hne
    rw [R.hn] at hb' ⊢
    obtain ⟨l, hc, hnd, hb⟩ := h.chains b' hb'
    exact ⟨l, R.chain_other h hu hb' hne hc, hnd, hb⟩
  · rw [R.hhead]
    exact segFrom_congr (fun p hp => hsame p (List.mem_append_left _ hp)) hseg1
  · exact ⟨rfl, R.hkn0, ⟨ksz, R.used_new⟩,
      segFrom_congr (fun p hp => hsame p (List.mem_append_right _ hp)) hseg2'⟩
  · have : (l1 ++ (kn, ({ kr with valOff := vn } : KeyRec)) :: l2).map (·.1)
        = l1.map (·.1) ++ kn :: l2.map (·.1) := by simp
    rw [this]
    apply (List.perm_middle.nodup_iff).2
    rw [← List.map_append]
    refine List.nodup_cons.2 ⟨?_, hnd12⟩
    intro hin
    obtain ⟨p, hp, e⟩ := List.mem_map.1 hin
    exact hne_kn p hp e
  · intro p hp
    rw [R.hn]
    rcases List.mem_append.1 hp with hp | hp
    · exact (hb p (List.mem_append_left _ hp)).1
    · rcases List.mem_cons.1 hp with rfl | hp
      · rfl
      · exact (hb p (List.mem_append_right _ (List.mem_cons_of_mem _ hp))).1
  · intro o sz' r hu1
    rw [R.hn]
    rcases R.cases hu1 with ⟨rfl, _, rfl⟩ | ⟨_, n1, hu0⟩
    · rw [if_pos rfl]
      exact List.mem_append_right _ (List.mem_cons_self ..)
    · obtain ⟨l, hc, hin⟩ := h.on_chain o sz' r hu0 (kused_ne_zero h.kwf hu0)
      by_cases hbb : bucketOf r.key s.n = bucketOf kr.key s.n
      · rw [if_pos hbb]
        rw [hbb, hch] at hc
        injection hc with e
        subst e
        rcases List.mem_append.1 hin with hin | hin
        · exact List.mem_append_left _ hin
        · rcases List.mem_cons.1 hin with e | hin
          · injection e with e1 _
            exact absurd e1 n1
          · exact List.mem_append_right _ (List.mem_cons_of_mem _ hin)
      · rw [if_neg hbb]
        exact ⟨l, R.chain_other h hu (bucketOf_lt _ h.npos) hbb hc, hin⟩
  · rw [R.hcount, R.huc]
    exact h.count_ok.trans (usedCount_eq _).symm

/-! ### the two ways `put` ends -/

/-- the key record stayed where it was: `s1` is the final state -/
theorem Repl.done (R : Repl s s1 off kr off ksz vn vsz v) (h : Inv kt s)
    (hu : s.kf.used off = some (sz, kr)) {l1 l2 : List (Nat × KeyRec)}
    (hch : s.chain (bucketOf kr.key s.n) = some (l1 ++ (off, kr) :: l2)) :
    Inv kt s1 ∧ Spec.Equiv (abs s1) (Spec.put (abs s) kr.key v) := by
  have hi : Inv kt s1 := (R.mid h hu hch).toInv
  exact ⟨hi, equiv_put_of_hasKV h hi kr.key v vn vsz (R.hasKV h hu) R.val_new (R.vals h hu)⟩

/-- the key record moved: `relink` repairs the chain -/
theorem Repl.relinked (R : Repl s s1 off kr kn ksz vn vsz v) (hne : kn ≠ off) (h : Inv kt s)
    (hu : s.kf.used off = some (sz, kr)) {l1 l2 : List (Nat × KeyRec)}
    (hch : s.chain (bucketOf kr.key s.n) = some (l1 ++ (off, kr) :: l2)) :
    ∃ s', relink (bucketOf kr.key s.n) (s1.kf.slots.length + 1) s1 off kn = some s' ∧ Inv kt s' ∧
      s'.n = s.n ∧ Spec.Equiv (abs s') (Spec.put (abs s) kr.key v) := by
  have hm := R.mid h hu hch
  have hfree : s1.kf.used off = none := by
    rw [R.hk1, if_neg (fun e => hne e.symm), if_pos rfl]
  have hB := hm.toBroken ⟨kused_ne_zero h.kwf hu, hfree⟩ R.hkn0
  have hfuel : l1.length < s1.kf.slots.length + 1 := by
    have hnd : (l1.map (·.1)).Nodup := by
      have := hm.nodup
      rw [List.map_append] at this
      exact (List.nodup_append.1 this).1
    have := nodup_offsets_length s1.kf l1 hnd (fun p hp => (segFrom_used hm.seg p hp).2)
    omega
  obtain ⟨s', hrl, hi, hvf, _, hn, hkv, _⟩ := relink_spec hB _ hfuel
  refine ⟨s', hrl, hi, hn.trans R.hn, ?_⟩
  refine equiv_put_of_hasKV h hi kr.key v vn vsz ?_ ?_ ?_
  · intro k' vo'
    rw [hkv]
    exact R.hasKV h hu k' vo'
  · rw [hvf]
    exact R.val_new
  · intro k' vo hk' hkv'
    rw [hvf]
    exact R.vals h hu k' vo hk' hkv'

end
end Put
end Store
end Abyss
