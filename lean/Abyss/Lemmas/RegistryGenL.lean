import Abyss.Gen.Registry
/-!
# The generated name registry (`Abyss/Gen/Registry.lean`) — C11 for the translated code

`tools/rs2lean.py` translates the five copies of every registry function of `FileDbInner` / `FileDb` separately.  Here:

* each copy of `db_map_<k>_with_params` equals `openSpec` (`Abyss/RegM.lean`) AT ITS OWN KIND (`…_eq`), hence
  (a) `…_hit`: on registries that have `(k, name)` it returns that very handle and changes nothing, whatever the parameters
  (a second handle to the same map: the generated counterpart of `C11_reopen_same`);
  (b) `…_miss`: without `(k, name)` and with `opener k name p = some h` it returns `h`, the registries gain exactly
  `(k, name) ↦ h` — every other entry `(k', name') ≠ (k, name)` is what it was (`C11_open_frame`), the four other
  registries are the same lists; `…_fail`: with `opener k name p = none` the call fails and nothing is registered;
* `db_map_<k>` is `db_map_<k>_with_params` at `FileDbParams.default`;
* the registries stay in ascending name order without repetition (`openSpec_sorted`; what `Gen.dbApplyAll` assumes);
* (c) file names: `keyFileName` / `valFileName` / `htxFileName` are injective, the three files of a map are pairwise
  distinct, and maps of different names share no file (`fileName_inj`, the string version of `C11_fileName_inj`: a name
  may contain dots, but the three suffixes have the same length).
-/
namespace Abyss

variable {μ : Type}

/-! ## lookup after insert -/

theorem regLookup_regInsert (n n' : String) (c : μ) (l : List (String × μ)) :
    regLookup n' (regInsert n c l) = if n' = n then some c else regLookup n' l := by
  induction l with
  | nil =>
    by_cases h : n' = n
    · simp [regInsert, regLookup, h]
    · have h' : ¬ n = n' := fun e => h e.symm
      simp [regInsert, regLookup, h, h']
  | cons e rest ih =>
    unfold regInsert
    by_cases h1 : e.1 = n
    · rw [if_pos h1]
      by_cases h : n' = n
      · simp [regLookup, h, h1]
      · have h' : ¬ e.1 = n' := fun x => h (x.symm.trans h1)
        simp [regLookup, h, h']
    · rw [if_neg h1]
      by_cases h2 : n < e.1
      · rw [if_pos h2]
        by_cases h : n' = n
        · simp [regLookup, h]
        · have h' : ¬ n = n' := fun x => h x.symm
          simp [regLookup, h, h']
      · rw [if_neg h2]
        by_cases h3 : e.1 = n'
        · have h : ¬ n' = n := fun x => h1 (h3.trans x)
          simp [regLookup, h3, h]
        · have := ih
          simp only [regLookup] at this ⊢
          rw [List.find?_cons_of_neg (by simpa using h3), List.find?_cons_of_neg (by simpa using h3)]
          exact this

namespace DbReg

theorem get_set (r : DbReg μ) (k k' : RegKind) (l : List (String × μ)) :
    (r.set k l).get k' = if k' = k then l else r.get k' := by
  cases k <;> cases k' <;> rfl

/-- the four other registries are the same lists -/
theorem get_add_ne (r : DbReg μ) (k k' : RegKind) (n : String) (h : μ) (hk : k' ≠ k) : (r.add k n h).get k' = r.get k' := by
  simp [add, get_set, hk]

/-- after `(k, n) ↦ h`: that entry is `h`, every other entry is what it was -/
theorem find_add (r : DbReg μ) (k k' : RegKind) (n n' : String) (h : μ) :
    (r.add k n h).find k' n' = if k' = k ∧ n' = n then some h else r.find k' n' := by
  unfold find add
  rw [get_set]
  by_cases hk : k' = k
  · subst hk
    rw [if_pos rfl, regLookup_regInsert]
    by_cases hn : n' = n <;> simp [hn]
  · simp [hk]

end DbReg

/-! ## `openSpec`: hit, miss, failure -/

theorem openSpec_hit {π : Type} (opener : Opener π μ) (k : RegKind) (name : String) (p : π) (r : DbReg μ) (h : μ)
    (hh : r.find k name = some h) : openSpec opener k name p r = (some h, r) := by
  simp [openSpec, hh]

theorem openSpec_miss {π : Type} (opener : Opener π μ) (k : RegKind) (name : String) (p : π) (r : DbReg μ) (h : μ)
    (hn : r.find k name = none) (ho : opener k name p = some h) :
    openSpec opener k name p r = (some h, r.add k name h) := by
  simp [openSpec, hn, ho]

theorem openSpec_fail {π : Type} (opener : Opener π μ) (k : RegKind) (name : String) (p : π) (r : DbReg μ)
    (hn : r.find k name = none) (ho : opener k name p = none) : openSpec opener k name p r = (none, r) := by
  simp [openSpec, hn, ho]

/-- the frame of any call, successful or not: an entry under another (kind, name) is what it was -/
theorem openSpec_frame {π : Type} (opener : Opener π μ) (k k' : RegKind) (name name' : String) (p : π) (r : DbReg μ)
    (hne : ¬ (k' = k ∧ name' = name)) : (openSpec opener k name p r).2.find k' name' = r.find k' name' := by
  unfold openSpec
  cases r.find k name with
  | some h => rfl
  | none =>
    cases opener k name p with
    | none => rfl
    | some h => simp [DbReg.find_add, hne]

/-- after a successful call the name is registered under the kind of the call, with the handle returned; a second call
(any parameters, any opener) returns the same handle and changes nothing: handles to one name alias one state -/
theorem openSpec_again {π : Type} (opener opener' : Opener π μ) (k : RegKind) (name : String) (p p' : π) (r : DbReg μ) (h : μ)
    (h1 : (openSpec opener k name p r).1 = some h) :
    (openSpec opener k name p r).2.find k name = some h ∧
    openSpec opener' k name p' (openSpec opener k name p r).2 = (some h, (openSpec opener k name p r).2) := by
  have key : (openSpec opener k name p r).2.find k name = some h := by
    unfold openSpec at h1 ⊢
    cases hf : r.find k name with
    | some h0 => simp only [hf] at h1 ⊢; cases h1; rfl
    | none =>
      simp only [hf] at h1 ⊢
      cases ho : opener k name p with
      | none => simp [ho] at h1
      | some h0 => simp only [ho] at h1 ⊢; cases h1; simp [DbReg.find_add]
  exact ⟨key, openSpec_hit opener' k name p' _ h key⟩

/-! ## the five copies of `db_map_<k>_with_params` (src/filedb/mod.rs) are `openSpec` at their own kind -/

section gen
open Gen
variable (opener : Opener FileDbParams μ) (name : String) (p : FileDbParams) (r : DbReg μ)

theorem dbMapBytesWithParams_eq : dbMapBytesWithParams opener name p r = openSpec opener .bytes name p r := by
  simp only [dbMapBytesWithParams, innerDbMapBytes, createDbMapBytes, dbMapBytesInsert, openSpec, bind, pure, DbRegM.lookup,
    DbRegM.insert, DbRegM.openMap]
  cases h1 : r.find .bytes name with
  | some h => rfl
  | none => cases h2 : opener .bytes name p <;> simp [DbReg.find_add]

theorem dbMapStringWithParams_eq : dbMapStringWithParams opener name p r = openSpec opener .string name p r := by
  simp only [dbMapStringWithParams, innerDbMapString, createDbMap, dbMapInsert, openSpec, bind, pure, DbRegM.lookup,
    DbRegM.insert, DbRegM.openMap]
  cases h1 : r.find .string name with
  | some h => rfl
  | none => cases h2 : opener .string name p <;> simp [DbReg.find_add]

theorem dbMapI64WithParams_eq : dbMapI64WithParams opener name p r = openSpec opener .i64 name p r := by
  simp only [dbMapI64WithParams, innerDbMapI64, createDbMapDbi64, dbMapDbi64Insert, openSpec, bind, pure, DbRegM.lookup,
    DbRegM.insert, DbRegM.openMap]
  cases h1 : r.find .i64 name with
  | some h => rfl
  | none => cases h2 : opener .i64 name p <;> simp [DbReg.find_add]

theorem dbMapU64WithParams_eq : dbMapU64WithParams opener name p r = openSpec opener .u64 name p r := by
  simp only [dbMapU64WithParams, innerDbMapU64, createDbMapDbu64, dbMapDbu64Insert, openSpec, bind, pure, DbRegM.lookup,
    DbRegM.insert, DbRegM.openMap]
  cases h1 : r.find .u64 name with
  | some h => rfl
  | none => cases h2 : opener .u64 name p <;> simp [DbReg.find_add]

theorem dbMapVu64WithParams_eq : dbMapVu64WithParams opener name p r = openSpec opener .vu64 name p r := by
  simp only [dbMapVu64WithParams, innerDbMapVu64, createDbMapDbvu64, dbMapDbvu64Insert, openSpec, bind, pure, DbRegM.lookup,
    DbRegM.insert, DbRegM.openMap]
  cases h1 : r.find .vu64 name with
  | some h => rfl
  | none => cases h2 : opener .vu64 name p <;> simp [DbReg.find_add]

/-! ### (a) a registered name: that very handle, nothing changes, whatever the parameters -/

theorem dbMapBytesWithParams_hit (h : μ) (hh : r.find .bytes name = some h) : dbMapBytesWithParams opener name p r = (some h, r) := by
  rw [dbMapBytesWithParams_eq, openSpec_hit _ _ _ _ _ h hh]
theorem dbMapStringWithParams_hit (h : μ) (hh : r.find .string name = some h) : dbMapStringWithParams opener name p r = (some h, r) := by
  rw [dbMapStringWithParams_eq, openSpec_hit _ _ _ _ _ h hh]
theorem dbMapI64WithParams_hit (h : μ) (hh : r.find .i64 name = some h) : dbMapI64WithParams opener name p r = (some h, r) := by
  rw [dbMapI64WithParams_eq, openSpec_hit _ _ _ _ _ h hh]
theorem dbMapU64WithParams_hit (h : μ) (hh : r.find .u64 name = some h) : dbMapU64WithParams opener name p r = (some h, r) := by
  rw [dbMapU64WithParams_eq, openSpec_hit _ _ _ _ _ h hh]
theorem dbMapVu64WithParams_hit (h : μ) (hh : r.find .vu64 name = some h) : dbMapVu64WithParams opener name p r = (some h, r) := by
  rw [dbMapVu64WithParams_eq, openSpec_hit _ _ _ _ _ h hh]

/-! ### (b) an unregistered name: the handle of the opener, registered under (own kind, name), all else unchanged -/

/-- what a successful creating call leaves behind: exactly `(k, name) ↦ h` more -/
def Gained (r r' : DbReg μ) (k : RegKind) (name : String) (h : μ) : Prop :=
  r'.find k name = some h ∧
  (∀ k' name', ¬ (k' = k ∧ name' = name) → r'.find k' name' = r.find k' name') ∧
  (∀ k', k' ≠ k → r'.get k' = r.get k')

theorem gained_add (k : RegKind) (h : μ) : Gained r (r.add k name h) k name h :=
  ⟨by simp [DbReg.find_add], fun k' name' hne => by simp [DbReg.find_add, hne], fun k' hk => DbReg.get_add_ne r k k' name h hk⟩

theorem dbMapBytesWithParams_miss (h : μ) (hn : r.find .bytes name = none) (ho : opener .bytes name p = some h) :
    ∃ r', dbMapBytesWithParams opener name p r = (some h, r') ∧ Gained r r' .bytes name h :=
  ⟨_, by rw [dbMapBytesWithParams_eq, openSpec_miss _ _ _ _ _ h hn ho], gained_add name r .bytes h⟩
theorem dbMapStringWithParams_miss (h : μ) (hn : r.find .string name = none) (ho : opener .string name p = some h) :
    ∃ r', dbMapStringWithParams opener name p r = (some h, r') ∧ Gained r r' .string name h :=
  ⟨_, by rw [dbMapStringWithParams_eq, openSpec_miss _ _ _ _ _ h hn ho], gained_add name r .string h⟩
theorem dbMapI64WithParams_miss (h : μ) (hn : r.find .i64 name = none) (ho : opener .i64 name p = some h) :
    ∃ r', dbMapI64WithParams opener name p r = (some h, r') ∧ Gained r r' .i64 name h :=
  ⟨_, by rw [dbMapI64WithParams_eq, openSpec_miss _ _ _ _ _ h hn ho], gained_add name r .i64 h⟩
theorem dbMapU64WithParams_miss (h : μ) (hn : r.find .u64 name = none) (ho : opener .u64 name p = some h) :
    ∃ r', dbMapU64WithParams opener name p r = (some h, r') ∧ Gained r r' .u64 name h :=
  ⟨_, by rw [dbMapU64WithParams_eq, openSpec_miss _ _ _ _ _ h hn ho], gained_add name r .u64 h⟩
theorem dbMapVu64WithParams_miss (h : μ) (hn : r.find .vu64 name = none) (ho : opener .vu64 name p = some h) :
    ∃ r', dbMapVu64WithParams opener name p r = (some h, r') ∧ Gained r r' .vu64 name h :=
  ⟨_, by rw [dbMapVu64WithParams_eq, openSpec_miss _ _ _ _ _ h hn ho], gained_add name r .vu64 h⟩

/-- … and when the files cannot be opened (or carry another signature) the call fails, nothing is registered -/
theorem dbMapBytesWithParams_fail (hn : r.find .bytes name = none) (ho : opener .bytes name p = none) :
    dbMapBytesWithParams opener name p r = (none, r) := by rw [dbMapBytesWithParams_eq, openSpec_fail _ _ _ _ _ hn ho]
theorem dbMapStringWithParams_fail (hn : r.find .string name = none) (ho : opener .string name p = none) :
    dbMapStringWithParams opener name p r = (none, r) := by rw [dbMapStringWithParams_eq, openSpec_fail _ _ _ _ _ hn ho]
theorem dbMapI64WithParams_fail (hn : r.find .i64 name = none) (ho : opener .i64 name p = none) :
    dbMapI64WithParams opener name p r = (none, r) := by rw [dbMapI64WithParams_eq, openSpec_fail _ _ _ _ _ hn ho]
theorem dbMapU64WithParams_fail (hn : r.find .u64 name = none) (ho : opener .u64 name p = none) :
    dbMapU64WithParams opener name p r = (none, r) := by rw [dbMapU64WithParams_eq, openSpec_fail _ _ _ _ _ hn ho]
theorem dbMapVu64WithParams_fail (hn : r.find .vu64 name = none) (ho : opener .vu64 name p = none) :
    dbMapVu64WithParams opener name p r = (none, r) := by rw [dbMapVu64WithParams_eq, openSpec_fail _ _ _ _ _ hn ho]

/-! ### `db_map_<k>(name)` is `db_map_<k>_with_params(name, FileDbParams::default())` -/

theorem dbMapBytes_eq : dbMapBytes opener name r = openSpec opener .bytes name FileDbParams.default r := by
  simp only [dbMapBytes]; exact dbMapBytesWithParams_eq opener name _ r
theorem dbMapString_eq : dbMapString opener name r = openSpec opener .string name FileDbParams.default r := by
  simp only [dbMapString]; exact dbMapStringWithParams_eq opener name _ r
theorem dbMapI64_eq : dbMapI64 opener name r = openSpec opener .i64 name FileDbParams.default r := by
  simp only [dbMapI64]; exact dbMapI64WithParams_eq opener name _ r
theorem dbMapU64_eq : dbMapU64 opener name r = openSpec opener .u64 name FileDbParams.default r := by
  simp only [dbMapU64]; exact dbMapU64WithParams_eq opener name _ r
theorem dbMapVu64_eq : dbMapVu64 opener name r = openSpec opener .vu64 name FileDbParams.default r := by
  simp only [dbMapVu64]; exact dbMapVu64WithParams_eq opener name _ r

end gen

/-! ## the registries stay ascending (the obligation of `DbReg`, what `Gen.dbApplyAll` iterates over) -/

/-- ascending name order, no name twice -/
def RegSorted (l : List (String × μ)) : Prop := l.Pairwise (fun a b => a.1 < b.1)

theorem regInsert_mem (n : String) (c : μ) (l : List (String × μ)) (x : String × μ) (hx : x ∈ regInsert n c l) :
    x.1 = n ∨ x ∈ l := by
  induction l with
  | nil => simp only [regInsert, List.mem_singleton] at hx; exact Or.inl (by rw [hx])
  | cons e rest ih =>
    unfold regInsert at hx
    split at hx
    · rename_i h1
      rcases List.mem_cons.mp hx with hx | hx
      · exact Or.inl (by rw [hx]; exact h1)
      · exact Or.inr (List.mem_cons_of_mem _ hx)
    · split at hx
      · rcases List.mem_cons.mp hx with hx | hx
        · exact Or.inl (by rw [hx])
        · exact Or.inr hx
      · rcases List.mem_cons.mp hx with hx | hx
        · exact Or.inr (by rw [hx]; exact List.mem_cons_self)
        · rcases ih hx with h | h
          · exact Or.inl h
          · exact Or.inr (List.mem_cons_of_mem _ h)

theorem regInsert_sorted (n : String) (c : μ) (l : List (String × μ)) (hs : RegSorted l) : RegSorted (regInsert n c l) := by
  induction l with
  | nil => simp [regInsert, RegSorted]
  | cons e rest ih =>
    have hs' := List.pairwise_cons.mp hs
    unfold regInsert
    split
    · exact List.pairwise_cons.mpr ⟨fun x hx => hs'.1 x hx, hs'.2⟩
    · rename_i h1
      split
      · rename_i h2
        refine List.pairwise_cons.mpr ⟨fun x hx => ?_, hs⟩
        rcases List.mem_cons.mp hx with hx | hx
        · rw [hx]; exact h2
        · exact String.lt_trans h2 (hs'.1 x hx)
      · rename_i h2
        have hlt : e.1 < n := Std.lt_of_le_of_ne (Std.not_lt.mp h2) h1
        refine List.pairwise_cons.mpr ⟨fun x hx => ?_, ih hs'.2⟩
        rcases regInsert_mem n c rest x hx with hx | hx
        · rw [hx]; exact hlt
        · exact hs'.1 x hx

/-- every call of `db_map_<k>[_with_params]` (each equals `openSpec`) leaves all five registries ascending -/
theorem openSpec_sorted {π : Type} (opener : Opener π μ) (k : RegKind) (name : String) (p : π) (r : DbReg μ)
    (hs : ∀ k', RegSorted (r.get k')) : ∀ k', RegSorted ((openSpec opener k name p r).2.get k') := by
  intro k'
  unfold openSpec
  cases r.find k name with
  | some h => exact hs k'
  | none =>
    cases opener k name p with
    | none => exact hs k'
    | some h =>
      simp only [DbReg.add, DbReg.get_set]
      split
      · exact regInsert_sorted _ _ _ (hs k)
      · exact hs k'

theorem dbRegNew_sorted : ∀ k', RegSorted ((Gen.dbRegNew : DbReg μ).get k') := by
  intro k'; cases k' <;> exact List.Pairwise.nil

/-! ## (c) file names (`Gen.keyFileName`, `Gen.valFileName`, `Gen.htxFileName`) -/

/-- suffixes of equal length: `n ++ s = n' ++ s'` forces `n = n'` and `s = s'` (a name may itself contain dots) -/
theorem append_suffix_inj (n n' s s' : String) (hl : s.length = s'.length) (h : n ++ s = n' ++ s') : n = n' ∧ s = s' := by
  have h' := congrArg String.toList h
  rw [String.toList_append, String.toList_append] at h'
  have hl' : s.toList.length = s'.toList.length := by rw [String.length_toList, String.length_toList]; exact hl
  obtain ⟨h1, h2⟩ := List.append_inj' h' hl'
  exact ⟨String.toList_inj.mp h1, String.toList_inj.mp h2⟩

theorem keyFileName_inj (n n' : String) (h : Gen.keyFileName n = Gen.keyFileName n') : n = n' :=
  (append_suffix_inj n n' _ _ rfl h).1
theorem valFileName_inj (n n' : String) (h : Gen.valFileName n = Gen.valFileName n') : n = n' :=
  (append_suffix_inj n n' _ _ rfl h).1
theorem htxFileName_inj (n n' : String) (h : Gen.htxFileName n = Gen.htxFileName n') : n = n' :=
  (append_suffix_inj n n' _ _ rfl h).1

/-- files of different roles never coincide, whatever the two names (`"a.b"` vs `"a"`, `"a.key"` vs `"a"`, …) -/
theorem keyFileName_ne_valFileName (n n' : String) : Gen.keyFileName n ≠ Gen.valFileName n' := fun h =>
  absurd (append_suffix_inj n n' _ _ (by decide) h).2 (by decide)
theorem keyFileName_ne_htxFileName (n n' : String) : Gen.keyFileName n ≠ Gen.htxFileName n' := fun h =>
  absurd (append_suffix_inj n n' _ _ (by decide) h).2 (by decide)
theorem valFileName_ne_htxFileName (n n' : String) : Gen.valFileName n ≠ Gen.htxFileName n' := fun h =>
  absurd (append_suffix_inj n n' _ _ (by decide) h).2 (by decide)

/-- the three files of one map are pairwise distinct -/
theorem mapFileNames_nodup (n : String) : (Gen.mapFileNames n).Nodup := by
  simp only [Gen.mapFileNames, List.nodup_cons, List.mem_cons, List.not_mem_nil, or_false, not_or, List.nodup_nil, and_true,
    not_false_eq_true]
  exact ⟨⟨keyFileName_ne_valFileName n n, keyFileName_ne_htxFileName n n⟩, valFileName_ne_htxFileName n n⟩

/-- the string version of `C11_fileName_inj`: a file name of the map `n` that is also a file name of the map `n'` forces
`n = n'` — maps of different names share no file -/
theorem fileName_inj (n n' f : String) (h : f ∈ Gen.mapFileNames n) (h' : f ∈ Gen.mapFileNames n') : n = n' := by
  simp only [Gen.mapFileNames, List.mem_cons, List.not_mem_nil, or_false] at h h'
  rcases h with rfl | rfl | rfl <;> rcases h' with h' | h' | h'
  · exact keyFileName_inj _ _ h'
  · exact absurd h' (keyFileName_ne_valFileName _ _)
  · exact absurd h' (keyFileName_ne_htxFileName _ _)
  · exact absurd h'.symm (keyFileName_ne_valFileName _ _)
  · exact valFileName_inj _ _ h'
  · exact absurd h' (valFileName_ne_htxFileName _ _)
  · exact absurd h'.symm (keyFileName_ne_htxFileName _ _)
  · exact absurd h'.symm (valFileName_ne_htxFileName _ _)
  · exact htxFileName_inj _ _ h'

/-- the generated file names are the hand model's `Db.fileName name ext` (`Abyss/Db.lean`) on the characters -/
theorem fileNames_toList (n : String) :
    (Gen.keyFileName n).toList = n.toList ++ '.' :: "key".toList ∧
    (Gen.valFileName n).toList = n.toList ++ '.' :: "val".toList ∧
    (Gen.htxFileName n).toList = n.toList ++ '.' :: "htx".toList := by
  simp only [Gen.keyFileName, Gen.valFileName, Gen.htxFileName, String.toList_append]
  exact ⟨rfl, rfl, rfl⟩

end Abyss
