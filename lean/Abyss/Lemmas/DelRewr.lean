import Abyss.Lemmas.DelBasic
/-!
# Rewriting one key record (same key, same value offset), in place or moved: record-level facts
-/
namespace Abyss
namespace Store
namespace Del

/-- `f'` is `f` with the record `pr` at `po` replaced by `pr'` at `p'` (`p' = po`: in place;
otherwise `p'` held no used record before and `po` holds none afterwards). -/
structure Rewr (f f' : RecFile KeyRec) (po p' : Nat) (pr pr' : KeyRec) : Prop where
  old : ∃ sz, f.used po = some (sz, pr)
  new : ∃ sz, f'.used p' = some (sz, pr')
  key : pr'.key = pr.key
  val : pr'.valOff = pr.valOff
  back : ∀ o sz r, f'.used o = some (sz, r) →
    (o = p' ∧ r = pr') ∨ (o ≠ p' ∧ o ≠ po ∧ f.used o = some (sz, r))
  fwd : ∀ o sz r, f.used o = some (sz, r) → o ≠ po → o ≠ p' ∧ f'.used o = some (sz, r)
  cnt : RecFile.usedCount f' = RecFile.usedCount f
  len : f.slots.length ≤ f'.slots.length
  wf : RecFile.WF keyCfg f'

/-- what `rewrite_spec` gives is a `Rewr` -/
theorem rewr_of_rewrite {f : RecFile KeyRec} (hwf : RecFile.WF keyCfg f) {po psz : Nat} {pr : KeyRec}
    (hu : f.used po = some (psz, pr)) (pr' : KeyRec) (hkey : pr'.key = pr.key) (hval : pr'.valOff = pr.valOff) :
    ∃ p' f', RecFile.rewrite keyCfg f po (keyNeed pr') pr' = some (p', f') ∧ Rewr f f' po p' pr pr' ∧
      (p' = po ∨ (p' ≠ po ∧ p' ≠ 0 ∧ f.used p' = none ∧ f'.used po = none)) := by
  obtain ⟨p', sz', f', hrw, hwf', hnew, _, hcase, hoth, hcnt, hlen, _⟩ :=
    RecFile.rewrite_spec keyCfg_ok hwf hu (keyNeed_legal pr') pr'
  refine ⟨p', f', hrw, ⟨⟨psz, hu⟩, ⟨sz', hnew⟩, hkey, hval, ?_, ?_, hcnt, hlen, hwf'⟩, ?_⟩
  · intro o sz r hu'
    by_cases h1 : o = p'
    · subst h1
      rw [hnew] at hu'
      cases hu'
      exact Or.inl ⟨rfl, rfl⟩
    · by_cases h2 : o = po
      · subst h2
        rcases hcase with ⟨e, _⟩ | ⟨_, _, _, hnone⟩
        · exact absurd e.symm h1
        · rw [hnone] at hu'; cases hu'
      · exact Or.inr ⟨h1, h2, by rw [← hoth o h2 h1]; exact hu'⟩
  · intro o sz r hu' h2
    have h1 : o ≠ p' := by
      rcases hcase with ⟨e, _⟩ | ⟨_, _, hnone, _⟩
      · rw [e]; exact h2
      · intro e; subst e; rw [hnone] at hu'; cases hu'
    exact ⟨h1, by rw [hoth o h2 h1]; exact hu'⟩
  · rcases hcase with ⟨e, _⟩ | ⟨a, b, c, d⟩
    · exact Or.inl e
    · exact Or.inr ⟨a, b, c, d⟩

namespace Rewr
variable {f f' : RecFile KeyRec} {po p' : Nat} {pr pr' : KeyRec}

/-- the record of `f` a used record of `f'` comes from -/
theorem src (R : Rewr f f' po p' pr pr') {o sz : Nat} {r : KeyRec} (hu : f'.used o = some (sz, r)) :
    ∃ sz0 r0, f.used (if o = p' then po else o) = some (sz0, r0) ∧ r0.key = r.key ∧ r0.valOff = r.valOff := by
  rcases R.back o sz r hu with ⟨e, er⟩ | ⟨h1, _, h3⟩
  · obtain ⟨psz, hold⟩ := R.old
    subst e er
    exact ⟨psz, pr, by simpa using hold, R.key.symm, R.val.symm⟩
  · exact ⟨sz, r, by simpa [h1] using h3, rfl, rfl⟩

theorem src_inj (R : Rewr f f' po p' pr pr') {o1 sz1 o2 sz2 : Nat} {r1 r2 : KeyRec}
    (hu1 : f'.used o1 = some (sz1, r1)) (hu2 : f'.used o2 = some (sz2, r2))
    (he : (if o1 = p' then po else o1) = (if o2 = p' then po else o2)) : o1 = o2 := by
  rcases R.back o1 sz1 r1 hu1 with ⟨e1, _⟩ | ⟨h1, h1', _⟩ <;>
  rcases R.back o2 sz2 r2 hu2 with ⟨e2, _⟩ | ⟨h2, h2', _⟩
  · rw [e1, e2]
  · simp [e1, h2] at he; exact absurd he.symm h2'
  · simp [e2, h1] at he; exact absurd he h1'
  · simpa [h1, h2] using he

/-- the record of `f'` a used record of `f` goes to -/
theorem dst (R : Rewr f f' po p' pr pr') {o sz : Nat} {r : KeyRec} (hu : f.used o = some (sz, r)) :
    ∃ o' sz' r', f'.used o' = some (sz', r') ∧ r'.key = r.key ∧ r'.valOff = r.valOff := by
  by_cases h : o = po
  · obtain ⟨psz, hold⟩ := R.old
    obtain ⟨nsz, hnew⟩ := R.new
    subst h
    rw [hold] at hu
    cases hu
    exact ⟨p', nsz, pr', hnew, R.key, R.val⟩
  · exact ⟨o, sz, r, (R.fwd o sz r hu h).2, rfl, rfl⟩

/-- records other than `po` are the same in both files -/
theorem same (R : Rewr f f' po p' pr pr') {o sz : Nat} {r : KeyRec} (hu : f.used o = some (sz, r))
    (h : o ≠ po) : f'.used o = f.used o := by
  rw [hu]; exact (R.fwd o sz r hu h).2

theorem hasKV (R : Rewr f f' po p' pr pr') (s : Store) (hs : s.kf = f) (k : List Nat) (vo : Nat) :
    HasKV { s with kf := f' } k vo ↔ HasKV s k vo := by
  subst hs
  constructor
  · rintro ⟨o, sz, r, hu, hk, hv⟩
    obtain ⟨sz0, r0, hu0, hk0, hv0⟩ := R.src hu
    exact ⟨_, sz0, r0, hu0, hk0.trans hk, hv0.trans hv⟩
  · rintro ⟨o, sz, r, hu, hk, hv⟩
    obtain ⟨o', sz', r', hu', hk', hv'⟩ := R.dst hu
    exact ⟨o', sz', r', hu', hk'.trans hk, hv'.trans hv⟩

/-- the record-level clauses of the invariant carry over -/
theorem recs {kt : KeyType} {s : Store} {x : Nat} (R : Rewr s.kf f' po p' pr pr') (h : InvX kt s x) :
    (∀ o sz r, f'.used o = some (sz, r) → KeyOK kt r.key) ∧
    (∀ o o' sz sz' r r', f'.used o = some (sz, r) → f'.used o' = some (sz', r') → r.key = r'.key → o = o') ∧
    (∀ o sz r, f'.used o = some (sz, r) → ∃ vs v, s.vf.used r.valOff = some (vs, v)) ∧
    (∀ o o' sz sz' r r', f'.used o = some (sz, r) → f'.used o' = some (sz', r') → r.valOff = r'.valOff → o = o') ∧
    (∀ vo vs v, s.vf.used vo = some (vs, v) → ∃ o sz r, f'.used o = some (sz, r) ∧ r.valOff = vo) ∧
    s.count = RecFile.usedCount f' := by
  refine ⟨?_, ?_, ?_, ?_, ?_, ?_⟩
  · intro o sz r hu
    obtain ⟨sz0, r0, hu0, hk0, _⟩ := R.src hu
    rw [← hk0]; exact h.keys_ok _ sz0 r0 hu0
  · intro o o' sz sz' r r' hu hu' hk
    obtain ⟨sz0, r0, hu0, hk0, _⟩ := R.src hu
    obtain ⟨sz0', r0', hu0', hk0', _⟩ := R.src hu'
    exact R.src_inj hu hu' (h.keys_inj _ _ sz0 sz0' r0 r0' hu0 hu0' (by rw [hk0, hk0', hk]))
  · intro o sz r hu
    obtain ⟨sz0, r0, hu0, _, hv0⟩ := R.src hu
    rw [← hv0]; exact h.val_used _ sz0 r0 hu0
  · intro o o' sz sz' r r' hu hu' hk
    obtain ⟨sz0, r0, hu0, _, hv0⟩ := R.src hu
    obtain ⟨sz0', r0', hu0', _, hv0'⟩ := R.src hu'
    exact R.src_inj hu hu' (h.val_inj _ _ sz0 sz0' r0 r0' hu0 hu0' (by rw [hv0, hv0', hk]))
  · intro vo vs v hv
    obtain ⟨o, sz, r, hu, hvo⟩ := h.val_owned vo vs v hv
    obtain ⟨o', sz', r', hu', _, hv'⟩ := R.dst hu
    exact ⟨o', sz', r', hu', hv'.trans hvo⟩
  · rw [R.cnt]; exact count_eq h

end Rewr
end Del
end Store
end Abyss
