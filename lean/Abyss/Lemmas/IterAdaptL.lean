import Abyss.Lemmas.EngineIter
/-!
# The generated iterator adaptors are projections of the generated iterator

`Gen.iter<X>New`, `Gen.iter<X>Next`, `Gen.iter<X>SizeHint` (`<X>` = `Iter`, `IntoIter`, `Keys`, `Values`) and `Gen.iterSizeHint` are
regenerated from `DbXxxIter`, `DbXxxIntoIter`, `DbXxxKeys`, `DbXxxValues` and `DbXxxIterMut::size_hint` (dbxxx.rs) on every run, the
`Gen.map…` from the API paths of dbmap/mod.rs.  Each adaptor's `next` is the corresponding projection of `Gen.iterNext` on the same
state tuple (an equation in `DbM`), each `size_hint` is the remaining count of the state, twice; each constructor and each API
path is `Gen.iterNew`.  All proofs are by unfolding the generated terms: a source change that alters a term breaks them.
-/
namespace Abyss
open Store FileM

/-- `size_hint` of `DbXxxIterMut`: the remaining count, as lower and as upper bound -/
theorem iterSizeHint_eq (st : Nat × Nat × Nat × Nat) : Gen.iterSizeHint st = (st.1, some st.1) := rfl

theorem iterIterSizeHint_eq (st : Nat × Nat × Nat × Nat) : Gen.iterIterSizeHint st = (st.1, some st.1) := rfl
theorem iterIntoIterSizeHint_eq (st : Nat × Nat × Nat × Nat) : Gen.iterIntoIterSizeHint st = (st.1, some st.1) := rfl
theorem iterKeysSizeHint_eq (st : Nat × Nat × Nat × Nat) : Gen.iterKeysSizeHint st = (st.1, some st.1) := rfl
theorem iterValuesSizeHint_eq (st : Nat × Nat × Nat × Nat) : Gen.iterValuesSizeHint st = (st.1, some st.1) := rfl

/-- `DbXxxKeys::next`: the key of what `iterNext` yields, on the same state -/
theorem iterKeysNext_eq (st : Nat × Nat × Nat × Nat) :
    Gen.iterKeysNext st = Gen.iterNext st >>= fun p => pure (p.1.map Prod.fst, p.2) := rfl

/-- `DbXxxValues::next`: the value of what `iterNext` yields, on the same state -/
theorem iterValuesNext_eq (st : Nat × Nat × Nat × Nat) :
    Gen.iterValuesNext st = Gen.iterNext st >>= fun p => pure (p.1.map Prod.snd, p.2) := rfl

/-- … as `Functor.map` -/
theorem iterKeysNext_map (st : Nat × Nat × Nat × Nat) :
    Gen.iterKeysNext st = (fun p => (p.1.map Prod.fst, p.2)) <$> Gen.iterNext st := rfl

theorem iterValuesNext_map (st : Nat × Nat × Nat × Nat) :
    Gen.iterValuesNext st = (fun p => (p.1.map Prod.snd, p.2)) <$> Gen.iterNext st := rfl

/-- in `DbM`, binding a value and returning it is the action itself -/
theorem DbM.bind_pure_id {α : Type} (m : DbM α) : (m >>= fun p => pure p) = m := by
  funext d
  show (match m d with | none => none | some (a, s') => some (a, s')) = m d
  cases m d with
  | none => rfl
  | some p => rfl

/-- `DbXxxIter::next` is `iterNext` -/
theorem iterIterNext_eq (st : Nat × Nat × Nat × Nat) : Gen.iterIterNext st = Gen.iterNext st :=
  DbM.bind_pure_id (Gen.iterNext st)

/-- `DbXxxIntoIter::next` is `iterNext` -/
theorem iterIntoIterNext_eq (st : Nat × Nat × Nat × Nat) : Gen.iterIntoIterNext st = Gen.iterNext st :=
  DbM.bind_pure_id (Gen.iterNext st)

/-- the four constructors are `DbXxxIterMut::new` -/
theorem iterIterNew_eq : Gen.iterIterNew = Gen.iterNew := rfl
theorem iterIntoIterNew_eq : Gen.iterIntoIterNew = Gen.iterNew := rfl
theorem iterKeysNew_eq : Gen.iterKeysNew = Gen.iterNew := rfl
theorem iterValuesNew_eq : Gen.iterValuesNew = Gen.iterNew := rfl

/-- the API paths: each builds its struct from the map, i.e. runs `iterNew` -/
theorem mapIter_eq : Gen.mapIter = Gen.iterNew := rfl
theorem mapIterMut_eq : Gen.mapIterMut = Gen.iterNew := rfl
theorem mapKeys_eq : Gen.mapKeys = Gen.iterNew := rfl
theorem mapValues_eq : Gen.mapValues = Gen.iterNew := rfl
theorem mapIntoIter_eq : Gen.mapIntoIter = Gen.iterNew := rfl
theorem mapIntoIterRef_eq : Gen.mapIntoIterRef = Gen.iterNew := rfl
theorem mapIntoIterMut_eq : Gen.mapIntoIterMut = Gen.iterNew := rfl

/-- `iterNext` as the identity projection of itself (the form `genCollectWith_proj` takes) -/
theorem iterNext_proj_id (st : Nat × Nat × Nat × Nat) :
    Gen.iterNext st = Gen.iterNext st >>= fun p => pure (p.1.map id, p.2) := by
  funext d0
  cases hn : Gen.iterNext st d0 with
  | none => rw [DbM.bind_none hn]
  | some q =>
    obtain ⟨⟨r, st'⟩, d1⟩ := q
    rw [DbM.bind_some hn]
    cases r <;> rfl

end Abyss
