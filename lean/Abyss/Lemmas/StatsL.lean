import Abyss.Stats
/-!
# Lemmas on `touch` (sorted histogram vector) for the statistics calls (C17)
-/
namespace Abyss

/-- the count recorded for `y` in a histogram vector -/
def histGet (acc : List (Nat × Nat)) (y : Nat) : Option Nat := (acc.find? (·.1 = y)).map (·.2)

/-- sorted strictly by first component -/
def HistSorted (acc : List (Nat × Nat)) : Prop := (acc.map (·.1)).Pairwise (· < ·)

theorem touch_keys (acc : List (Nat × Nat)) (x b : Nat) (hb : b ∈ (touch acc x).map (·.1)) :
    b = x ∨ b ∈ acc.map (·.1) := by
  induction acc with
  | nil => simp [touch] at hb; exact Or.inl hb
  | cons p rest ih =>
    obtain ⟨a, c⟩ := p
    simp only [touch] at hb
    split at hb
    · right; simpa using hb
    · split at hb
      · simp only [List.map_cons, List.mem_cons] at hb ⊢
        rcases hb with hb | hb | hb
        · exact Or.inl hb
        · exact Or.inr (Or.inl hb)
        · exact Or.inr (Or.inr hb)
      · simp only [List.map_cons, List.mem_cons] at hb ⊢
        rcases hb with hb | hb
        · exact Or.inr (Or.inl hb)
        · rcases ih hb with h | h
          · exact Or.inl h
          · exact Or.inr (Or.inr h)

theorem touch_sorted (acc : List (Nat × Nat)) (x : Nat) (h : HistSorted acc) : HistSorted (touch acc x) := by
  unfold HistSorted at *
  induction acc with
  | nil => simp [touch]
  | cons p rest ih =>
    obtain ⟨a, c⟩ := p
    simp only [List.map_cons, List.pairwise_cons] at h
    simp only [touch]
    split
    · simpa using h
    · split
      · rename_i _ hlt
        simp only [List.map_cons, List.pairwise_cons, List.mem_cons]
        refine ⟨?_, h⟩
        rintro b (hb | hb)
        · omega
        · have := h.1 b hb; omega
      · simp only [List.map_cons, List.pairwise_cons]
        refine ⟨?_, ih h.2⟩
        intro b hb
        rcases touch_keys rest x b hb with hb | hb
        · omega
        · exact h.1 b hb

theorem histGet_none_of_lt (acc : List (Nat × Nat)) (x : Nat) (h : ∀ b ∈ acc.map (·.1), x < b) :
    histGet acc x = none := by
  unfold histGet
  rw [Option.map_eq_none_iff, List.find?_eq_none]
  intro p hp
  have := h p.1 (List.mem_map_of_mem hp)
  simp; omega

theorem touch_get (acc : List (Nat × Nat)) (x y : Nat) (h : HistSorted acc) :
    histGet (touch acc x) y = if y = x then some ((histGet acc x).getD 0 + 1) else histGet acc y := by
  induction acc with
  | nil =>
    by_cases hy : y = x
    · simp [touch, histGet, hy]
    · have : ¬ x = y := fun e => hy e.symm
      simp [touch, histGet, hy, this]
  | cons p rest ih =>
    obtain ⟨a, c⟩ := p
    unfold HistSorted at h ih
    simp only [List.map_cons, List.pairwise_cons] at h
    simp only [touch]
    split
    · rename_i hxa
      subst hxa
      by_cases hy : y = x
      · subst hy; simp [histGet]
      · have : ¬ x = y := fun e => hy e.symm
        simp [histGet, hy, this]
    · rename_i hxa
      split
      · rename_i hlt
        have hnone : histGet ((a, c) :: rest) x = none := by
          apply histGet_none_of_lt
          intro b hb
          simp only [List.map_cons, List.mem_cons] at hb
          rcases hb with hb | hb
          · omega
          · have := h.1 b hb; omega
        by_cases hy : y = x
        · subst hy; rw [hnone]; simp [histGet]
        · have : ¬ x = y := fun e => hy e.symm
          simp [histGet, hy, this]
      · have ih' := ih h.2
        by_cases hay : a = y
        · subst hay
          have : ¬ a = x := fun e => hxa e.symm
          simp [histGet, this]
        · have e1 : histGet ((a, c) :: touch rest x) y = histGet (touch rest x) y := by
            simp [histGet, hay]
          have e2 : histGet ((a, c) :: rest) y = histGet rest y := by
            simp [histGet, hay]
          have hax : ¬ a = x := fun e => hxa e.symm
          have e3 : histGet ((a, c) :: rest) x = histGet rest x := by
            simp [histGet, hax]
          rw [e1, e2, e3, ih']

theorem foldl_touch_sorted (l : List Nat) (acc : List (Nat × Nat)) (h : HistSorted acc) :
    HistSorted (l.foldl touch acc) := by
  induction l generalizing acc with
  | nil => exact h
  | cons a l ih => exact ih _ (touch_sorted acc a h)

theorem foldl_touch_get (l : List Nat) (acc : List (Nat × Nat)) (x : Nat) (h : HistSorted acc) :
    histGet (l.foldl touch acc) x =
      if l.count x = 0 then histGet acc x else some ((histGet acc x).getD 0 + l.count x) := by
  induction l generalizing acc with
  | nil => simp
  | cons a l ih =>
    rw [List.foldl_cons, ih _ (touch_sorted acc a h), touch_get acc a x h, List.count_cons]
    by_cases hxa : x = a
    · subst hxa
      simp only [if_true, beq_self_eq_true, Option.getD_some]
      split
      · rename_i h0; simp [h0]
      · simp; omega
    · have : ¬ (a == x) = true := by simp; exact fun e => hxa e.symm
      simp [hxa, this]

/-- a fold with a conditional `touch` is the plain `touch`-fold over the filtered, mapped list -/
theorem foldl_cond_touch {β : Type} (c : β → Prop) [DecidablePred c] (g : β → Nat) (l : List β)
    (acc : List (Nat × Nat)) :
    l.foldl (fun acc p => if c p then touch acc (g p) else acc) acc =
      ((l.filter fun p => c p).map g).foldl touch acc := by
  induction l generalizing acc with
  | nil => rfl
  | cons p l ih =>
    rw [List.foldl_cons, ih]
    by_cases hp : c p
    · simp [hp]
    · simp [hp]

end Abyss
