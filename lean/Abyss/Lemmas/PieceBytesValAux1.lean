import Abyss.Lemmas.AllocBytes
/-!
# Piece-level I/O, byte level, part 1 (generic in the configuration and the slot renderer)

* `ByteOK.transfer`: `ByteOK` of a file carries over to every well-formed file below 4 GiB whose slots
  are rendered in full (the bounds on the heads and on the links follow from `WF`);
* `ByteOK.pushFree`: `ByteOK` is preserved by `pushFree` of a used slot;
* `slot_len_of_used`, `PopOK.lay`: the file in the middle of an allocation (`WFH`) has the layout `Lay`.
-/
namespace Abyss
open Vu64 FileM RecFile
variable {α : Type}

namespace RecFile

/-- the start of a chain and every link on it is 0 or the offset of a slot -/
theorem IsChain.links {f : RecFile α} {h : Nat} {l : List Nat} (a : IsChain f h l) :
    (h = 0 ∨ ∃ s, f.get h = some s) ∧
    ∀ o ∈ l, ∀ sz nx, f.get o = some (.free sz nx) → nx = 0 ∨ ∃ s, f.get nx = some s := by
  induction l generalizing h with
  | nil => exact ⟨Or.inl a, fun o ho => by simp at ho⟩
  | cons o' l ih =>
    obtain ⟨h0, rfl, sz, nx, hg, hc⟩ := a
    obtain ⟨i1, i2⟩ := ih hc
    refine ⟨Or.inr ⟨_, hg⟩, fun o ho sz' nx' hg' => ?_⟩
    rcases List.mem_cons.mp ho with e | ho'
    · subst e
      rw [hg] at hg'
      simp only [Option.some.injEq, Slot.free.injEq] at hg'
      obtain ⟨_, rfl⟩ := hg'
      exact i1
    · exact i2 o ho' sz' nx' hg'

end RecFile

theorem zero_or_slot_lt {a b : Nat} {l : List (Nat × Slot α)} (ht : Tiled l a b) {x : Nat}
    (h : x = 0 ∨ ∃ s, aget l x = some s) (hb : b < 2^32) : x < 2^64 := by
  rcases h with rfl | ⟨s, hg⟩
  · omega
  · have := ht.bounds hg
    omega

/-- the bounds on heads and links follow from well-formedness -/
theorem ByteOK.transfer {c : FileCfg} {sig2 : List Nat} {rs : Slot α → List Nat} {f f' : RecFile α}
    (h : ByteOK c sig2 rs f) (w : WF c f') (hend : f'.end_ < 2^32)
    (hsl : ∀ p ∈ f'.slots, (rs p.2).length = p.2.size) : ByteOK c sig2 rs f' where
  cfg := h.cfg
  wf := w
  sig_fit := h.sig_fit
  heads_fit := h.heads_fit
  head_off := h.head_off
  heads_lt := by
    intro x hx
    obtain ⟨i, hi, rfl⟩ := List.getElem_of_mem hx
    have hi16 : i < 16 := by rw [← w.heads_len]; exact hi
    obtain ⟨l, hl, _, _⟩ := w.lists i hi16
    have a := ((freeChain_iff _ _ _ _).mp hl).1
    have e : f'.heads.getD i 0 = f'.heads[i] := getD_of_lt _ _ hi
    rw [e] at a
    exact zero_or_slot_lt w.tiled a.links.1 hend
  end_lt := hend
  legal8 := h.legal8
  slot_len := hsl
  free_form := h.free_form
  free_lt := by
    intro o sz nx hg
    obtain ⟨l, hl, hm⟩ := w.onlist o sz nx hg
    have a := ((freeChain_iff _ _ _ _).mp hl).1
    exact zero_or_slot_lt w.tiled (a.links.2 o hm sz nx hg) hend

/-- a free slot of legal size below 4 GiB is rendered in full -/
theorem ByteOK.free_len {c : FileCfg} {sig2 : List Nat} {rs : Slot α → List Nat} {f : RecFile α}
    (h : ByteOK c sig2 rs f) {sz : Nat} (nx : Nat) (hl : LegalSz c sz) (h32 : sz < 2^32) :
    (rs (.free sz nx)).length = (Slot.free sz nx : Slot α).size :=
  free_render_length h.free_form sz nx (h.legal8 sz hl).2 h32

/-- every slot of `f1` is rendered in full if its used slots are used slots of a `ByteOK` file -/
theorem slot_len_of_used {c : FileCfg} {sig2 : List Nat} {rs : Slot α → List Nat} {f f1 : RecFile α}
    (h : ByteOK c sig2 rs f) (ht : Tiled f1.slots c.headerSz f1.end_)
    (hs : ∀ o s, f1.get o = some s → LegalSz c s.size) (hend : f1.end_ < 2^32)
    (hu : ∀ o sz p, f1.get o = some (.used sz p) → f.get o = some (.used sz p)) :
    ∀ p ∈ f1.slots, (rs p.2).length = p.2.size := by
  intro p hp
  have hg : f1.get p.1 = some p.2 := ht.aget_of_mem hp
  have hb := ht.bounds hg
  have hl := hs _ _ hg
  obtain ⟨o, s⟩ := p
  cases s with
  | used sz q => exact h.slot_len (o, .used sz q) (aget_mem _ _ _ (hu o sz q hg))
  | free sz nx =>
    have : sz < 2^32 := by simp only [Slot.size] at hb; omega
    exact h.free_len nx hl this

theorem used_get_of_used_eq {f f1 : RecFile α} (hu : ∀ o, f1.used o = f.used o) :
    ∀ o sz p, f1.get o = some (.used sz p) → f.get o = some (.used sz p) := by
  intro o sz p hg
  exact used_eq_some.mp ((hu o).symm ▸ used_eq_some.mpr hg)

/-- `ByteOK` is preserved by `pushFree` of a used slot -/
theorem ByteOK.pushFree {c : FileCfg} {sig2 : List Nat} {rs : Slot α → List Nat} {f : RecFile α}
    (h : ByteOK c sig2 rs f) {off sz : Nat} {p : α} (hg : f.get off = some (.used sz p)) :
    ByteOK c sig2 rs (pushFree c f off sz) := by
  obtain ⟨w1, ⟨nx1, g1⟩, g2, _, _, g5⟩ := pushFree_spec h.cfg h.wf hg
  have hend : (RecFile.pushFree c f off sz).end_ < 2^32 := by rw [g5]; exact h.end_lt
  refine h.transfer w1 hend (slot_len_of_used h w1.tiled w1.sizes hend ?_)
  intro o sz' p' hg'
  by_cases ho : o = off
  · subst ho; rw [g1] at hg'; cases hg'
  · rw [g2 o ho] at hg'; exact hg'

/-- the file after a successful pop has the layout `Lay` -/
theorem lay_of_WFH {c : FileCfg} {sig2 : List Nat} {rs : Slot α → List Nat} {f f1 : RecFile α} {x : Nat}
    (h : ByteOK c sig2 rs f) (w : WFH c f1 x) (hend : f1.end_ < 2^32) (hu : ∀ o, f1.used o = f.used o) :
    Lay c sig2 rs f1 :=
  ⟨h.sig_fit, h.heads_fit, w.heads_len, w.tiled,
    slot_len_of_used h w.tiled w.sizes hend (used_get_of_used_eq hu)⟩

end Abyss
