import Abyss.Lemmas.PieceBytesValAux1
import Abyss.Lemmas.Vu64L
/-!
# Piece-level I/O, byte level, part 2 (generic): writing a whole slot, reading the size field

* `wr_nil`, `wr_end`, `writeZeroToOffset_spec'` (also when nothing is left to fill), `seekToEnd_spec`;
* `wr_slot_img`: overwriting the bytes of a slot with the rendering of a slot of the same size gives the
  image of `f.set o s'`; `wr_end_img`: writing a rendered slot at the end gives the image of
  `f.set f.end_ s'`;
* `readSize_img`: seek + `read_piece_size` at any slot whose rendering starts with its size field;
* `decodedLen_encode`, `seekSkipToPieceValue_spec` / `seekSkipToPieceKey_spec`.
-/
namespace Abyss
open Vu64 FileM RecFile
variable {α : Type}

namespace FileM

theorem wr_nil (s : FSt) (h : s.pos ≤ s.bytes.length) : wr [] s = s := by
  obtain ⟨b, p⟩ := s
  unfold wr
  simp only [List.append_nil, List.length_nil, Nat.add_zero, List.take_append_drop]

/-- writing at the end of the file appends -/
theorem wr_end (X A : List Nat) : wr X ⟨A, A.length⟩ = ⟨A ++ X, A.length + X.length⟩ := by
  unfold wr
  simp only [List.take_length, FSt.mk.injEq, and_true]
  rw [List.drop_eq_nil_of_le (by omega), List.append_nil]

end FileM

/-- `write_zero_to_offset`, also when the cursor already is at the target -/
theorem writeZeroToOffset_spec' (off : Nat) (s : FSt) (h : s.pos ≤ s.bytes.length)
    (hle : s.pos ≤ off) (h32 : off - s.pos < 2^32) :
    Gen.writeZeroToOffset off s = some ((), wr (zeros (off - s.pos)) s) := by
  by_cases hlt : s.pos < off
  · exact writeZeroToOffset_spec off s h hlt h32
  · have e : off - s.pos = 0 := by omega
    rw [e]
    have : zeros 0 = [] := rfl
    rw [this, wr_nil s h]
    unfold Gen.writeZeroToOffset
    have hp : Gen.seekPosition s = some (s.pos, s) := rfl
    rw [bind_some hp]
    simp only [gt_iff_lt, hlt, decide_false, Bool.false_eq_true, if_false]
    rfl

theorem seekToEnd_spec (b : List Nat) (p : Nat) : Gen.seekToEnd ⟨b, p⟩ = some (b.length, ⟨b, b.length⟩) := rfl

theorem writeValueLen_spec (n : Nat) (s : FSt) (h : s.pos ≤ s.bytes.length) :
    Gen.writeValueLen n s = some ((), wr (encode n) s) := by
  unfold Gen.writeValueLen Gen.writeVu64U32 FileM.writeVu64
  exact writeBytes_eq _ s h

theorem readValueLen_spec {b rest : List Nat} {p v : Nat} (hd : b.drop p = encode v ++ rest)
    (hv : v < 2^32) : Gen.readValueLen ⟨b, p⟩ = some (v, ⟨b, p + (encode v).length⟩) := by
  unfold Gen.readValueLen
  exact readVu64U32_spec hd hv

theorem readBytes_spec {b X rest : List Nat} {p : Nat} (hd : b.drop p = X ++ rest) (hp : p ≤ b.length) :
    FileM.readBytes X.length ⟨b, p⟩ = some (X, ⟨b, p + X.length⟩) := by
  have h1 := congrArg List.length hd
  simp only [List.length_drop, List.length_append] at h1
  unfold FileM.readBytes
  simp only
  rw [if_pos (by omega), hd, List.take_left' rfl]

/-! ## a whole slot in the image -/

section
variable {c : FileCfg} {sig2 : List Nat} {rs : Slot α → List Nat} {f : RecFile α}

/-- the bytes from the start of a slot on -/
theorem slot_drop_img (lay : Lay c sig2 rs f) {o : Nat} {s : Slot α} (hg : f.get o = some s) :
    ∃ Q, (recImage c sig2 rs f).drop o = rs s ++ Q := by
  obtain ⟨P, Q, hP, e1, _⟩ := image_slot lay hg
  exact ⟨Q, by rw [e1, ← hP, drop_app_mid]⟩

/-- overwriting a slot with the rendering of a slot of the same size -/
theorem wr_slot_img (lay : Lay c sig2 rs f) {o : Nat} {s s' : Slot α} (hg : f.get o = some s)
    (hs : s'.size = s.size) (hr : (rs s').length = s'.size) :
    wr (rs s') ⟨recImage c sig2 rs f, o⟩ = ⟨recImage c sig2 rs (f.set o s'), o + s'.size⟩ := by
  obtain ⟨P, Q, hP, e1, e2⟩ := image_slot lay hg
  have hl := slot_render_length lay hg
  rw [wr_app' (rs s') P (rs s) Q _ o e1 hP.symm (by rw [hl, hr, hs]), e2, hr]

/-- the image of a file with a slot appended -/
theorem image_set_end (lay : Lay c sig2 rs f) (s' : Slot α) :
    recImage c sig2 rs (f.set f.end_ s') = recImage c sig2 rs f ++ rs s' := by
  have hn : aget f.slots f.end_ = none := lay.tiled.aget_end
  have hh : renderRecHeader c sig2 (f.set f.end_ s') = renderRecHeader c sig2 f := rfl
  unfold recImage
  rw [hh]
  show _ ++ ((upsert f.slots f.end_ s').map fun p => rs p.2).flatten = _
  rw [upsert_of_none s' hn]
  simp only [List.map_append, List.flatten_append, List.map_cons, List.map_nil, List.flatten_cons,
    List.flatten_nil, List.append_nil, List.append_assoc]

/-- writing the rendering of a slot at the end of the file -/
theorem wr_end_img (lay : Lay c sig2 rs f) (s' : Slot α) (hr : (rs s').length = s'.size) :
    wr (rs s') ⟨recImage c sig2 rs f, f.end_⟩ =
      ⟨recImage c sig2 rs (f.set f.end_ s'), f.end_ + s'.size⟩ := by
  have hl := image_length lay
  rw [image_set_end lay, ← hr]
  have := wr_end (rs s') (recImage c sig2 rs f)
  rw [hl] at this
  exact this

/-- `read_piece_size` with the cursor at a slot -/
theorem readSizeAt_img (lay : Lay c sig2 rs f) {o : Nat} {s : Slot α} (hg : f.get o = some s)
    {t : List Nat} (hform : rs s = encode (s.size / 8) ++ t) (h8 : 8 ∣ s.size) (h32 : s.size < 2^32) :
    Gen.readPieceSize ⟨recImage c sig2 rs f, o⟩ =
      some (s.size, ⟨recImage c sig2 rs f, o + (encode (s.size / 8)).length⟩) := by
  obtain ⟨Q, hd⟩ := slot_drop_img lay hg
  rw [hform, List.append_assoc] at hd
  rw [readPieceSize_spec hd (by omega), Nat.div_mul_cancel h8]

/-- seek to a slot and read its size field -/
theorem readSize_img (lay : Lay c sig2 rs f) {o : Nat} {s : Slot α} (hg : f.get o = some s)
    {t : List Nat} (hform : rs s = encode (s.size / 8) ++ t) (h8 : 8 ∣ s.size) (h32 : s.size < 2^32)
    (pos : Nat) :
    (Gen.seekFromStart o >>= fun _ => Gen.readPieceSize) ⟨recImage c sig2 rs f, pos⟩ =
      some (s.size, ⟨recImage c sig2 rs f, o + (encode (s.size / 8)).length⟩) := by
  obtain ⟨Q, hd⟩ := slot_drop_img lay hg
  have hle := slot_off_le lay hg
  rw [hform, List.append_assoc] at hd
  rw [bind_some (seekFromStart_spec o _ pos (by omega)), readPieceSize_spec hd (by omega),
    Nat.div_mul_cancel h8]

/-- the rendering of a free slot starts with its size field -/
theorem free_form_size (hff : FreeForm rs) (sz nx : Nat) :
    ∃ t, rs (.free sz nx) = encode ((Slot.free sz nx : Slot α).size / 8) ++ t := by
  refine ⟨[0] ++ le64 nx ++ zeros (sz - (freeContent sz nx).length), ?_⟩
  rw [hff]
  unfold padTo freeContent
  simp only [Slot.size, List.append_assoc]

end

/-! ## the allocation block of `write_piece` -/

/-- the block of `write_piece` that follows `pop_free_piece_list`: the popped slot keeps its own size
(it is read back), or the record goes to the end of the file (the same text in `val.rs` and `key.rs`) -/
def allocBlock (need freePieceOffset : Nat) : M (Nat × Nat) :=
  if (!(freePieceOffset == 0)) then do
    let _ ← Gen.seekFromStart freePieceOffset
    let freePieceSize ← Gen.readPieceSize
    let _ ← Gen.seekFromStart freePieceOffset
    pure (freePieceOffset, freePieceSize)
  else do
    let tryVal ← Gen.seekToEnd
    pure (tryVal, need)

/-- `pop_free_piece_list` + the block above = `allocSlot`; the file in between has the layout `Lay`,
the cursor is at the slot, which is a cleared free slot or the end of the file -/
theorem allocSlot_bytes {c : FileCfg} {sig2 : List Nat} {rs : Slot α → List Nat} {f : RecFile α}
    (h : ByteOK c sig2 rs f) {need : Nat} (hn : LegalSz c need) (pos : Nat) :
    ∃ off sz f1, allocSlot c f need = some (off, sz, f1) ∧
      (Gen.popFreePieceList c need >>= allocBlock need) ⟨recImage c sig2 rs f, pos⟩ =
        some ((off, sz), ⟨recImage c sig2 rs f1, off⟩) ∧
      Lay c sig2 rs f1 ∧ need ≤ sz ∧ LegalSz c sz ∧ off ≤ f1.end_ ∧
      ((off = f.end_ ∧ sz = need ∧ f1 = f) ∨
       (f1.get off = some (.free sz 0) ∧ f1.end_ = f.end_ ∧ sz < 2^32)) := by
  obtain ⟨off, f1, p1, e1, r1⟩ := popFree_bytes h hn pos
  obtain ⟨off', f1', e1', hok⟩ := popFree_spec h.cfg h.wf hn
  rw [e1] at e1'
  simp only [Option.some.injEq, Prod.mk.injEq] at e1'
  obtain ⟨rfl, rfl⟩ := e1'
  simp only [renderRecFile_eq_recImage] at r1
  rcases hok with ⟨rfl, rfl, _⟩ | ⟨h0, sz, nx, hg, hle, hg1, w, hu, _, _, hend⟩
  · refine ⟨f1.end_, need, f1, ?_, ?_, h.lay, Nat.le_refl _, hn, Nat.le_refl _, Or.inl ⟨rfl, rfl, rfl⟩⟩
    · simp only [allocSlot, e1, ne_eq, not_true_eq_false, if_false]
    · rw [bind_some r1]
      unfold allocBlock
      rw [if_neg not_beq_zero_self, bind_some (seekToEnd_spec _ _), pure_apply, image_length h.lay]
  · have hend32 : f1.end_ < 2^32 := by rw [hend]; exact h.end_lt
    have lay1 : Lay c sig2 rs f1 := lay_of_WFH h w hend32 hu
    have hb := w.tiled.bounds hg1
    simp only [Slot.size] at hb
    have hl : LegalSz c sz := w.sizes _ _ hg1
    obtain ⟨t, hform⟩ := free_form_size (rs := rs) h.free_form sz 0
    have hle' : off ≤ (recImage c sig2 rs f1).length := by rw [image_length lay1]; omega
    refine ⟨off, sz, f1, ?_, ?_, lay1, hle, hl, by omega, Or.inr ⟨hg1, hend, by omega⟩⟩
    · simp only [allocSlot, e1, ne_eq, h0, not_false_eq_true, if_true, hg1, Slot.size]
    · rw [bind_some r1]
      unfold allocBlock
      rw [if_pos (not_beq_zero h0), bind_some (seekFromStart_spec off _ p1 hle'),
        bind_some (readSizeAt_img lay1 hg1 hform (h.legal8 sz hl).1 (by simp only [Slot.size]; omega)),
        bind_some (seekFromStart_spec off _ _ hle'), pure_apply]
      rfl

/-! ## skipping the size field by its first byte -/

theorem Vu64.decodedLen_encode (v : Nat) : decodedLen ((encode v).headD 0) = encodedLen v := by
  rcases encodedLen_cases v with hc | hc | hc | hc | hc | hc | hc | hc | hc
  · obtain ⟨hL, hr⟩ := hc
    have he : encode v = [v] := by simp [encode, hL]
    rw [he, hL, List.headD_cons]
    have := decodedLen_cases v
    omega
  all_goals
    obtain ⟨hL, hr⟩ := hc
    have he : encode v = (if encodedLen v ≤ 7 then
          (prefixOnes (encodedLen v) + v % 2^(8-encodedLen v)) ::
            leBytes (v / 2^(8-encodedLen v)) (encodedLen v - 1)
        else if encodedLen v = 8 then 254 :: leBytes v 7 else 255 :: leBytes v 8) := by
      simp [encode, hL]
    rw [hL] at he
    simp only [prefixOnes, Nat.reducePow, Nat.reduceSub, Nat.reduceLeDiff, Nat.reduceEqDiff,
      ↓reduceIte] at he
    rw [he, hL, List.headD_cons]
    unfold decodedLen; repeat' split
    all_goals omega

theorem readU8_spec {b rest : List Nat} {p x : Nat} (hd : b.drop p = x :: rest) (hp : p ≤ b.length) :
    FileM.readU8 ⟨b, p⟩ = some (x, ⟨b, p + 1⟩) := by
  unfold FileM.readU8
  have : FileM.readPad 1 ⟨b, p⟩ = some ([x], ⟨b, p + 1⟩) := by
    unfold FileM.readPad
    simp only
    rw [if_pos hp, hd]
    simp
  rw [bind_some this, pure_apply]
  rfl

/-- `seek_skip_to_piece_value(off)`: the cursor ends behind the size field -/
theorem seekSkipToPieceValue_spec {b rest : List Nat} {o x : Nat} (p : Nat)
    (hd : b.drop o = encode x ++ rest) (ho : o ≤ b.length) :
    Gen.seekSkipToPieceValue o ⟨b, p⟩ =
      some (o + (encode x).length, ⟨b, o + (encode x).length⟩) := by
  have hlen := lt_length_of_drop_eq hd
  have hpos := encode_length_pos x
  obtain ⟨y, ys, he⟩ : ∃ y ys, encode x = y :: ys := by
    cases h : encode x with
    | nil => rw [h] at hpos; simp at hpos
    | cons y ys => exact ⟨y, ys, rfl⟩
  have hdl : decodedLen y = (encode x).length := by
    have := Vu64.decodedLen_encode x
    rw [he, List.headD_cons] at this
    rw [this, encode_length]
  have hd' : b.drop o = y :: (ys ++ rest) := by rw [hd, he]; rfl
  unfold Gen.seekSkipToPieceValue
  rw [bind_some (seekFromStart_spec o b p ho), bind_some (readU8_spec hd' ho)]
  simp only [hdl, gt_iff_lt]
  by_cases h1 : 1 < (encode x).length
  · simp only [h1, decide_true, if_true]
    have hs : Gen.seekSkipLength ((encode x).length - 1) ⟨b, o + 1⟩ =
        some (o + (encode x).length, ⟨b, o + (encode x).length⟩) := by
      unfold Gen.seekSkipLength FileM.seekCur FileM.seek
      simp only
      have e1 : o + 1 + ((encode x).length - 1) = o + (encode x).length := by omega
      rw [e1, Nat.sub_eq_zero_of_le (by omega), List.replicate_zero, List.append_nil]
    simp only [bind_assoc_apply]
    rw [bind_some hs, pure_bind_apply]
    rfl
  · simp only [h1, decide_false, Bool.false_eq_true, if_false]
    have e1 : (encode x).length = 1 := by omega
    rw [pure_bind_apply, e1]
    rfl

theorem seekSkipToPieceKey_spec {b rest : List Nat} {o x : Nat} (p : Nat)
    (hd : b.drop o = encode x ++ rest) (ho : o ≤ b.length) :
    Gen.seekSkipToPieceKey o ⟨b, p⟩ =
      some (o + (encode x).length, ⟨b, o + (encode x).length⟩) :=
  seekSkipToPieceValue_spec p hd ho

end Abyss
