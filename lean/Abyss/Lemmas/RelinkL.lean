import Abyss.Inv
import Abyss.Lemmas.AllocL
import Abyss.Lemmas.ChainL
import Abyss.Lemmas.Vu64L
import Mathlib.Data.List.Nodup
/-!
# `relink_moved_key_piece` repairs a chain that was cut by the relocation of a key record

The helper lemmas live in the namespace `Abyss.Store.Relink`; the statements other files use
(`keyNeed_legal`, `valueNeed_legal`, `headOf_writeHead`, `bitOf_writeHead`, `relink_spec`) are in
`Abyss.Store`.
-/
namespace Abyss
namespace Store
namespace Relink

/-- lookup after `upsert` -/
theorem aget_upsert {β : Type} (l : List (Nat × β)) (k : Nat) (v : β) (k' : Nat) :
    aget (upsert l k v) k' = if k' = k then some v else aget l k' := by
  induction l with
  | nil =>
    simp only [upsert, aget]
    by_cases h : k = k'
    · subst h; simp
    · have : ¬ k' = k := fun e => h e.symm
      simp [h, this]
  | cons hd tl ih =>
    obtain ⟨a, w⟩ := hd
    simp only [upsert]
    by_cases hak : a = k
    · subst hak
      simp only [if_true, aget]
      by_cases h : a = k'
      · subst h; simp
      · have : ¬ k' = a := fun e => h e.symm
        simp [h, this]
    · simp only [hak, if_false, aget, ih]
      by_cases h : a = k'
      · subst h; simp [hak]
      · simp [h]

end Relink
open Relink

/-- the slot size requested for a key record / a value is one `roundup` produces -/
theorem keyNeed_legal (r : KeyRec) : LegalSz keyCfg (keyNeed r) := by
  unfold keyNeed Gen.keyEncodedPieceSize
  apply keyCfg_ok.roundup_legal
  have := Vu64.encodedLen_pos ((Vu64.encodedLen (r.key.length % 2^32) + r.key.length % 2^32 + Vu64.encodedLen r.valOff + Vu64.encodedLen r.next + 7) / 8)
  show 1 ≤ _ + _
  omega

theorem valueNeed_legal (len : Nat) : LegalSz valCfg (valueNeed len) := by
  unfold valueNeed Gen.valueEncodedPieceSize
  apply valCfg_ok.roundup_legal
  have := Vu64.encodedLen_pos ((Vu64.encodedLen (len % 2^32) + len % 2^32 + 7) / 8)
  show 1 ≤ _ + _
  omega

/-- `writeHead` changes one bucket entry and its bitmap bit, nothing else -/
theorem headOf_writeHead (s : Store) (b off b' : Nat) :
    (s.writeHead b off).headOf b' = if b' = b then off else s.headOf b' := by
  unfold headOf writeHead
  simp only [aget_upsert]
  split <;> simp

theorem bitOf_writeHead (s : Store) (b off b' : Nat) :
    (s.writeHead b off).bitOf b' = if b' = b then decide (off ≠ 0) else s.bitOf b' := by
  unfold bitOf writeHead
  simp only [aget_upsert]
  split <;> simp

namespace Relink

/-- `used` is the `used` case of `get` -/
theorem used_eq_some_iff {α : Type} (f : RecFile α) (o sz : Nat) (p : α) :
    f.used o = some (sz, p) ↔ f.get o = some (.used sz p) := by
  unfold RecFile.used
  split
  · next s q h => rw [h]; simp
  · next h =>
    constructor
    · intro e; cases e
    · intro e; exact absurd e (h sz p)

/-- offsets of used key records are not 0 -/
theorem used_ne_zero {f : RecFile KeyRec} (h : RecFile.WF keyCfg f) {o sz : Nat} {r : KeyRec}
    (hu : f.used o = some (sz, r)) : o ≠ 0 := by
  have hb := RecFile.WF.get_bounds keyCfg_ok h ((used_eq_some_iff f o sz r).1 hu)
  have := keyCfg_ok.hdr_pos
  omega

/-! ### link segments -/

theorem segFrom_used {kf : RecFile KeyRec} {l : List (Nat × KeyRec)} {cur tgt : Nat}
    (h : segFrom kf l cur tgt) : ∀ p ∈ l, ∃ sz, kf.used p.1 = some (sz, p.2) := by
  induction l generalizing cur with
  | nil => intro p hp; cases hp
  | cons hd tl ih =>
    obtain ⟨o, r⟩ := hd
    obtain ⟨_, _, hu, hrest⟩ := h
    intro p hp
    rcases List.mem_cons.1 hp with rfl | hp
    · exact hu
    · exact ih hrest p hp

theorem segFrom_congr {kf kf' : RecFile KeyRec} {l : List (Nat × KeyRec)} {cur tgt : Nat}
    (h : segFrom kf l cur tgt)
    (hs : ∀ p ∈ l, ∀ sz, kf.used p.1 = some (sz, p.2) → kf'.used p.1 = some (sz, p.2)) :
    segFrom kf' l cur tgt := by
  induction l generalizing cur with
  | nil => exact h
  | cons hd tl ih =>
    obtain ⟨o, r⟩ := hd
    obtain ⟨h1, h2, ⟨sz, hu⟩, hrest⟩ := h
    exact ⟨h1, h2, ⟨sz, hs (o, r) (List.mem_cons_self ..) sz hu⟩,
      ih hrest (fun p hp => hs p (List.mem_cons_of_mem _ hp))⟩

theorem segFrom_concat {kf : RecFile KeyRec} {l : List (Nat × KeyRec)} {o : Nat} {r : KeyRec} {cur tgt : Nat} :
    segFrom kf (l ++ [(o, r)]) cur tgt ↔
      segFrom kf l cur o ∧ o ≠ 0 ∧ (∃ sz, kf.used o = some (sz, r)) ∧ r.next = tgt := by
  induction l generalizing cur with
  | nil => simp [segFrom]
  | cons hd tl ih =>
    obtain ⟨o1, r1⟩ := hd
    simp only [List.cons_append, segFrom, ih, and_assoc]

theorem segFrom_append {kf : RecFile KeyRec} {l l' : List (Nat × KeyRec)} {cur mid tgt : Nat}
    (h : segFrom kf l cur mid) (h' : segFrom kf l' mid tgt) : segFrom kf (l ++ l') cur tgt := by
  induction l generalizing cur with
  | nil => simp only [segFrom] at h; subst h; exact h'
  | cons hd tl ih =>
    obtain ⟨o1, r1⟩ := hd
    obtain ⟨h1, h2, hu, hrest⟩ := h
    exact ⟨h1, h2, hu, ih hrest⟩

/-- a duplicate-free segment that ends in 0 is the chain found with the standard fuel -/
theorem chain_of_seg (kf : RecFile KeyRec) (L : List (Nat × KeyRec)) (cur : Nat)
    (hseg : segFrom kf L cur 0) (hnd : (L.map (·.1)).Nodup) :
    chainFrom kf (kf.slots.length + 1) cur = some L :=
  chainFrom_of_seg kf cur L hseg _ (Nat.lt_succ_of_le (nodup_offsets_length kf L hnd (segFrom_used hseg)))

/-- the part of the invariant that only talks about the set of used key records -/
structure DataOK (kt : KeyType) (kf : RecFile KeyRec) (vf : RecFile (List Nat)) (count : Nat) : Prop where
  keys_ok : ∀ o sz r, kf.used o = some (sz, r) → KeyOK kt r.key
  keys_inj : ∀ o o' sz sz' r r', kf.used o = some (sz, r) → kf.used o' = some (sz', r') →
            r.key = r'.key → o = o'
  val_used : ∀ o sz r, kf.used o = some (sz, r) → ∃ vs v, vf.used r.valOff = some (vs, v)
  val_inj : ∀ o o' sz sz' r r', kf.used o = some (sz, r) → kf.used o' = some (sz', r') →
            r.valOff = r'.valOff → o = o'
  val_owned : ∀ vo vs v, vf.used vo = some (vs, v) → ∃ o sz r, kf.used o = some (sz, r) ∧ r.valOff = vo
  count_ok : count = RecFile.usedCount kf

/-- `RecFile.usedCount` is the count expression of `InvX.count_ok` (the two `match`es are compiled to
different auxiliary matchers, so this is not closed by `Iff.rfl`) -/
theorem usedCount_eq (f : RecFile KeyRec) :
    (f.slots.filter fun p => match p.2 with | .used _ _ => true | _ => false).length
      = RecFile.usedCount f := by
  unfold RecFile.usedCount
  congr 2
  funext p
  obtain ⟨o, s⟩ := p
  cases s <;> rfl

theorem broken_data {kt : KeyType} {s : Store} {x b old new : Nat} {l1 l2 : List (Nat × KeyRec)}
    (hB : Broken kt s x b old new l1 l2) : DataOK kt s.kf s.vf s.count :=
  ⟨hB.keys_ok, hB.keys_inj, hB.val_used, hB.val_inj, hB.val_owned, hB.count_ok.trans (usedCount_eq _)⟩

/-- the effect of `RecFile.rewrite` of the record `pr` at `po` by `pr'` (same key, same value
offset), which ends up at `off'`, on the `used` view of the key file -/
structure Rew (kf kf' : RecFile KeyRec) (po off' : Nat) (pr pr' : KeyRec) : Prop where
  wf' : RecFile.WF keyCfg kf'
  used_po : ∃ sz, kf.used po = some (sz, pr)
  used_off' : ∃ sz, kf'.used off' = some (sz, pr')
  key_eq : pr'.key = pr.key
  val_eq : pr'.valOff = pr.valOff
  back : ∀ o sz r, kf'.used o = some (sz, r) →
    (o = off' ∧ r = pr') ∨ (o ≠ off' ∧ o ≠ po ∧ kf.used o = some (sz, r))
  fwd : ∀ o sz r, kf.used o = some (sz, r) →
    (o = po ∧ r = pr) ∨ (o ≠ po ∧ o ≠ off' ∧ kf'.used o = some (sz, r))
  cnt : RecFile.usedCount kf' = RecFile.usedCount kf

variable {kt : KeyType} {kf kf' : RecFile KeyRec} {vf : RecFile (List Nat)} {count po off' : Nat}
  {pr pr' : KeyRec}

theorem Rew.seg (R : Rew kf kf' po off' pr pr') {l : List (Nat × KeyRec)} {cur tgt : Nat}
    (h : segFrom kf l cur tgt) (hne : ∀ p ∈ l, p.1 ≠ po) : segFrom kf' l cur tgt := by
  refine segFrom_congr h ?_
  intro p hp sz hu
  rcases R.fwd _ _ _ hu with ⟨e, _⟩ | ⟨_, _, hu'⟩
  · exact absurd e (hne p hp)
  · exact hu'

theorem DataOK.rew (h : DataOK kt kf vf count) (R : Rew kf kf' po off' pr pr') :
    DataOK kt kf' vf count := by
  obtain ⟨sz0, h0⟩ := R.used_po
  obtain ⟨sz1, h1⟩ := R.used_off'
  refine ⟨?_, ?_, ?_, ?_, ?_, ?_⟩
  · intro o sz r hu
    rcases R.back o sz r hu with ⟨_, e⟩ | ⟨_, _, hu0⟩
    · rw [e, R.key_eq]; exact h.keys_ok _ _ _ h0
    · exact h.keys_ok _ _ _ hu0
  · intro o o' sz sz' r r' hu hu' hk
    rcases R.back o sz r hu with ⟨e1, e2⟩ | ⟨_, hn, hu0⟩ <;>
      rcases R.back o' sz' r' hu' with ⟨e1', e2'⟩ | ⟨_, hn', hu0'⟩
    · rw [e1, e1']
    · rw [e2, R.key_eq] at hk
      exact absurd (h.keys_inj _ _ _ _ _ _ hu0' h0 hk.symm) hn'
    · rw [e2', R.key_eq] at hk
      exact absurd (h.keys_inj _ _ _ _ _ _ hu0 h0 hk) hn
    · exact h.keys_inj _ _ _ _ _ _ hu0 hu0' hk
  · intro o sz r hu
    rcases R.back o sz r hu with ⟨_, e⟩ | ⟨_, _, hu0⟩
    · rw [e, R.val_eq]; exact h.val_used _ _ _ h0
    · exact h.val_used _ _ _ hu0
  · intro o o' sz sz' r r' hu hu' hk
    rcases R.back o sz r hu with ⟨e1, e2⟩ | ⟨_, hn, hu0⟩ <;>
      rcases R.back o' sz' r' hu' with ⟨e1', e2'⟩ | ⟨_, hn', hu0'⟩
    · rw [e1, e1']
    · rw [e2, R.val_eq] at hk
      exact absurd (h.val_inj _ _ _ _ _ _ hu0' h0 hk.symm) hn'
    · rw [e2', R.val_eq] at hk
      exact absurd (h.val_inj _ _ _ _ _ _ hu0 h0 hk) hn
    · exact h.val_inj _ _ _ _ _ _ hu0 hu0' hk
  · intro vo vs v hv
    obtain ⟨o, sz, r, hu, e⟩ := h.val_owned vo vs v hv
    rcases R.fwd o sz r hu with ⟨_, e2⟩ | ⟨_, _, hu'⟩
    · exact ⟨off', sz1, pr', h1, by rw [R.val_eq, ← e2, e]⟩
    · exact ⟨o, sz, r, hu', e⟩
  · rw [R.cnt]; exact h.count_ok

theorem Rew.hasKV (R : Rew kf kf' po off' pr pr') (s : Store) (hs : s.kf = kf) (k : List Nat) (vo : Nat) :
    HasKV { s with kf := kf' } k vo ↔ HasKV s k vo := by
  subst hs
  obtain ⟨sz0, h0⟩ := R.used_po
  obtain ⟨sz1, h1⟩ := R.used_off'
  constructor
  · rintro ⟨o, sz, r, hu, ek, ev⟩
    rcases R.back o sz r hu with ⟨_, e⟩ | ⟨_, _, hu0⟩
    · exact ⟨po, sz0, pr, h0, by rw [← R.key_eq, ← e, ek], by rw [← R.val_eq, ← e, ev]⟩
    · exact ⟨o, sz, r, hu0, ek, ev⟩
  · rintro ⟨o, sz, r, hu, ek, ev⟩
    rcases R.fwd o sz r hu with ⟨_, e⟩ | ⟨_, _, hu'⟩
    · exact ⟨off', sz1, pr', h1, by rw [R.key_eq, ← e, ek], by rw [R.val_eq, ← e, ev]⟩
    · exact ⟨o, sz, r, hu', ek, ev⟩

theorem bucketOf_lt (k : List Nat) {n : Nat} (h : 0 < n) : bucketOf k n < n := Nat.mod_lt _ h

/-- `InvX` from its parts, the chain condition being given bucket `b` apart -/
theorem invx_of_parts {kt : KeyType} {s : Store} {x b : Nat} {L : List (Nat × KeyRec)}
    (npos : 0 < s.n) (kwf : RecFile.WF keyCfg s.kf) (vwf : RecFile.WF valCfg s.vf)
    (heads_lt : ∀ b', s.n ≤ b' → s.headOf b' = 0)
    (bits_ok : ∀ b', s.bitOf b' = decide (s.headOf b' ≠ 0))
    (chains_other : ∀ b', b' < s.n → b' ≠ b → ∃ l, s.chain b' = some l ∧ (l.map (·.1)).Nodup ∧
            ∀ p ∈ l, bucketOf p.2.key s.n = b' ∧ p.1 ≠ x)
    (chain_b : s.chain b = some L) (nodup : (L.map (·.1)).Nodup)
    (bucket : ∀ p ∈ L, bucketOf p.2.key s.n = b ∧ p.1 ≠ x)
    (on_chain : ∀ o sz r, s.kf.used o = some (sz, r) → o ≠ x →
            if bucketOf r.key s.n = b then (o, r) ∈ L
            else ∃ l, s.chain (bucketOf r.key s.n) = some l ∧ (o, r) ∈ l)
    (data : DataOK kt s.kf s.vf s.count) : InvX kt s x where
  npos := npos
  kwf := kwf
  vwf := vwf
  heads_lt := heads_lt
  bits_ok := bits_ok
  chains := by
    intro b' hb'
    by_cases e : b' = b
    · subst e; exact ⟨L, chain_b, nodup, bucket⟩
    · exact chains_other b' hb' e
  on_chain := by
    intro o sz r hu hx
    have h := on_chain o sz r hu hx
    by_cases e : bucketOf r.key s.n = b
    · rw [if_pos e] at h; rw [e]; exact ⟨L, chain_b, h⟩
    · rw [if_neg e] at h; exact h
  keys_ok := data.keys_ok
  keys_inj := data.keys_inj
  val_used := data.val_used
  val_inj := data.val_inj
  val_owned := data.val_owned
  count_ok := data.count_ok.trans (usedCount_eq _).symm

theorem chain_writeHead_ne (s : Store) {b b' : Nat} (off : Nat) (h : b' ≠ b) :
    (s.writeHead b off).chain b' = s.chain b' := by
  unfold chain
  rw [headOf_writeHead, if_neg h]
  rfl

theorem chain_writeHead_self (s : Store) (b off : Nat) :
    (s.writeHead b off).chain b = chainFrom s.kf (s.kf.slots.length + 1) off := by
  unfold chain
  rw [headOf_writeHead, if_pos rfl]
  rfl

/-- `relink` when the stale offset is the bucket head -/
theorem relink_nil {kt : KeyType} {s : Store} {x b old new : Nat} {l2 : List (Nat × KeyRec)}
    (hB : Broken kt s x b old new [] l2) (fuel : Nat) :
    ∃ s', relink b (fuel + 1) s old new = some s' ∧ InvX kt s' x ∧
      s'.vf = s.vf ∧ s'.count = s.count ∧ s'.n = s.n ∧
      (∀ k vo, HasKV s' k vo ↔ HasKV s k vo) ∧
      (∀ o sz r, s.kf.used o = some (sz, r) → s'.kf.used o = some (sz, r)) := by
  have hpred := predLoop_spec s.kf [] (s.headOf b) old 0 (s.kf.slots.length + 1) hB.seg hB.old_free.1
    (by simp) (by simp)
  simp only [List.getLast?_nil, Option.map_none, Option.getD_none] at hpred
  refine ⟨s.writeHead b new, by simp [relink, hpred], ?_, rfl, rfl, rfl, fun _ _ => Iff.rfl,
    fun _ _ _ h => h⟩
  have hnd : (l2.map (·.1)).Nodup := by simpa using hB.nodup
  have hbk : ∀ p ∈ l2, bucketOf p.2.key s.n = b ∧ p.1 ≠ x := by simpa using hB.bucket
  have hd := broken_data hB
  refine invx_of_parts (b := b) (L := l2) hB.npos hB.kwf hB.vwf ?_ ?_ ?_ ?_ hnd hbk ?_ hd
  · intro b' hb'
    have hb'' : s.n ≤ b' := hb'
    rw [headOf_writeHead, if_neg (by have := hB.b_lt; show b' ≠ b; omega)]
    exact hB.heads_lt b' hb'
  · intro b'
    rw [bitOf_writeHead, headOf_writeHead]
    split
    · rfl
    · exact hB.bits_ok b'
  · intro b' hb' hne
    rw [chain_writeHead_ne s new hne]
    exact hB.chains_other b' hb' hne
  · rw [chain_writeHead_self]; exact hB.tail.2
  · intro o sz r hu hx
    have h := hB.on_chain o sz r hu hx
    show if bucketOf r.key s.n = b then (o, r) ∈ l2
      else ∃ l, (s.writeHead b new).chain (bucketOf r.key s.n) = some l ∧ (o, r) ∈ l
    by_cases e : bucketOf r.key s.n = b
    · rw [if_pos e] at h ⊢; simpa using h
    · rw [if_neg e] at h ⊢; rw [chain_writeHead_ne s new e]; exact h

variable {kt : KeyType} {s : Store} {x b old new po off' : Nat} {l1' l2 : List (Nat × KeyRec)}
  {pr pr' : KeyRec} {kf' : RecFile KeyRec}

/-- what `Broken` says when the leading segment is not empty -/
theorem concat_facts (hB : Broken kt s x b old new (l1' ++ [(po, pr)]) l2) :
    segFrom s.kf l1' (s.headOf b) po ∧ po ≠ 0 ∧ (∃ sz, s.kf.used po = some (sz, pr)) ∧ pr.next = old ∧
    segFrom s.kf l2 new 0 ∧
    (∀ p ∈ l1' ++ l2, p.1 ≠ po) ∧
    (∀ p ∈ l1' ++ l2, ∃ sz, s.kf.used p.1 = some (sz, p.2)) ∧
    ((l1' ++ l2).map (·.1)).Nodup ∧
    (∀ p ∈ l1' ++ l2, bucketOf p.2.key s.n = b ∧ p.1 ≠ x) ∧
    bucketOf pr.key s.n = b ∧ po ≠ x := by
  obtain ⟨hs1, hpo0, hupo, hnext⟩ := segFrom_concat.1 hB.seg
  have hs2 : segFrom s.kf l2 new 0 := chainFrom_seg _ _ _ _ hB.tail.2
  have hnd := hB.nodup
  simp only [List.map_append, List.append_assoc, List.map_cons,
    List.singleton_append] at hnd
  obtain ⟨hnotin, hnd'⟩ := List.nodup_cons.1 (List.nodup_middle.1 hnd)
  have hbk := hB.bucket
  refine ⟨hs1, hpo0, hupo, hnext, hs2, ?_, ?_, ?_, ?_, ?_, ?_⟩
  · intro p hp e
    apply hnotin
    rw [← e, ← List.map_append]
    exact List.mem_map_of_mem hp
  · intro p hp
    rcases List.mem_append.1 hp with h | h
    · exact segFrom_used hs1 p h
    · exact segFrom_used hs2 p h
  · rw [List.map_append]; exact hnd'
  · intro p hp
    apply hbk
    rcases List.mem_append.1 hp with h | h
    · exact List.mem_append_left _ (List.mem_append_left _ h)
    · exact List.mem_append_right _ h
  · exact (hbk (po, pr) (by simp)).1
  · exact (hbk (po, pr) (by simp)).2

/-- the first half of a `relink` step: the predecessor is found and rewritten -/
theorem relink_step (hB : Broken kt s x b old new (l1' ++ [(po, pr)]) l2) :
    ∃ sz off' kf',
      predLoop s.kf old (s.kf.slots.length + 1) (s.headOf b) 0 = some po ∧ po ≠ 0 ∧
      s.kf.get po = some (.used sz pr) ∧
      RecFile.rewrite keyCfg s.kf po (keyNeed { pr with next := new }) { pr with next := new }
        = some (off', kf') ∧
      Rew s.kf kf' po off' pr { pr with next := new } ∧ s.kf.slots.length ≤ kf'.slots.length ∧
      (off' = po ∨ (off' ≠ po ∧ off' ≠ 0 ∧ s.kf.used off' = none ∧ kf'.used po = none)) := by
  obtain ⟨hs1, hpo0, ⟨sz, hupo⟩, hnext, hs2, hnepo, hused, hnd, hbk, hbpo, hpox⟩ := concat_facts hB
  have hused1 := segFrom_used hB.seg
  have hpred := predLoop_spec s.kf (l1' ++ [(po, pr)]) (s.headOf b) old 0 (s.kf.slots.length + 1)
    hB.seg hB.old_free.1
    (by
      intro p hp e
      obtain ⟨sz', hu⟩ := hused1 p hp
      rw [e, hB.old_free.2] at hu
      cases hu)
    (by
      apply Nat.lt_succ_of_le
      apply nodup_offsets_length s.kf _ _ hused1
      have := hB.nodup
      rw [List.map_append] at this
      exact (List.nodup_append.1 this).1)
  simp only [List.getLast?_concat, Option.map_some, Option.getD_some] at hpred
  obtain ⟨off', sz', kf', hrew, hwf', hu', _, hcase, hsame, hcnt, hlen, _⟩ :=
    RecFile.rewrite_spec keyCfg_ok hB.kwf hupo (keyNeed_legal { pr with next := new })
      { pr with next := new }
  refine ⟨sz, off', kf', hpred, hpo0, (used_eq_some_iff _ _ _ _).1 hupo, hrew, ?_, hlen, ?_⟩
  · refine ⟨hwf', ⟨sz, hupo⟩, ⟨sz', hu'⟩, rfl, rfl, ?_, ?_, hcnt⟩
    · intro o sz1 r hu
      by_cases e1 : o = off'
      · left
        rw [e1, hu'] at hu
        exact ⟨e1, by cases hu; rfl⟩
      · right
        have e2 : o ≠ po := by
          intro e2
          rcases hcase with ⟨h, _⟩ | ⟨_, _, _, h⟩
          · exact e1 (e2.trans h.symm)
          · rw [e2, h] at hu; cases hu
        exact ⟨e1, e2, by rw [← hsame o e2 e1]; exact hu⟩
    · intro o sz1 r hu
      by_cases e1 : o = po
      · left
        rw [e1, hupo] at hu
        exact ⟨e1, by cases hu; rfl⟩
      · right
        have e2 : o ≠ off' := by
          intro e2
          rcases hcase with ⟨h, _⟩ | ⟨_, _, h, _⟩
          · exact e1 (e2.trans h)
          · rw [e2, h] at hu; cases hu
        exact ⟨e1, e2, by rw [hsame o e1 e2]; exact hu⟩
  · rcases hcase with ⟨h, _⟩ | h
    · exact Or.inl h
    · exact Or.inr h

/-- the chain of another bucket survives the rewrite -/
theorem Rew.chain_other (R : Rew s.kf kf' po off' pr pr') {b' : Nat} {l : List (Nat × KeyRec)}
    (hne : b' ≠ bucketOf pr.key s.n) (hl : s.chain b' = some l) (hnd : (l.map (·.1)).Nodup)
    (hbk : ∀ p ∈ l, bucketOf p.2.key s.n = b') :
    chain { s with kf := kf' } b' = some l := by
  have hseg := chainFrom_seg _ _ _ _ hl
  refine chain_of_seg kf' l _ (R.seg hseg ?_) hnd
  intro p hp e
  obtain ⟨sz, hu⟩ := segFrom_used hseg p hp
  obtain ⟨sz0, h0⟩ := R.used_po
  rw [e, h0] at hu
  have : pr = p.2 := by cases hu; rfl
  exact hne (by rw [this]; exact (hbk p hp).symm)

/-- what survives the rewrite of the predecessor record, whether it moved or not -/
theorem rew_common (hB : Broken kt s x b old new (l1' ++ [(po, pr)]) l2)
    (R : Rew s.kf kf' po off' pr pr') (hoff : ∀ p ∈ l1' ++ l2, p.1 ≠ off') (hx : off' ≠ x) :
    segFrom kf' l1' (s.headOf b) po ∧ segFrom kf' l2 new 0 ∧
    ((l1' ++ (off', pr') :: l2).map (·.1)).Nodup ∧
    (∀ p ∈ l1' ++ (off', pr') :: l2, bucketOf p.2.key s.n = b ∧ p.1 ≠ x) ∧
    (∀ b', b' < s.n → b' ≠ b → ∃ l, chain { s with kf := kf' } b' = some l ∧ (l.map (·.1)).Nodup ∧
            ∀ p ∈ l, bucketOf p.2.key s.n = b' ∧ p.1 ≠ x) ∧
    (∀ o sz r, kf'.used o = some (sz, r) → o ≠ x →
            if bucketOf r.key s.n = b then (o, r) ∈ l1' ++ (off', pr') :: l2
            else ∃ l, chain { s with kf := kf' } (bucketOf r.key s.n) = some l ∧ (o, r) ∈ l) := by
  obtain ⟨hs1, hpo0, ⟨sz, hupo⟩, hnext, hs2, hnepo, hused, hnd, hbk, hbpo, hpox⟩ := concat_facts hB
  refine ⟨?_, ?_, ?_, ?_, ?_, ?_⟩
  · exact R.seg hs1 (fun p hp => hnepo p (List.mem_append_left _ hp))
  · exact R.seg hs2 (fun p hp => hnepo p (List.mem_append_right _ hp))
  · simp only [List.map_append, List.map_cons]
    rw [List.map_append] at hnd
    refine List.nodup_middle.2 (List.nodup_cons.2 ⟨?_, hnd⟩)
    intro hmem
    rw [← List.map_append] at hmem
    obtain ⟨p, hp, e⟩ := List.mem_map.1 hmem
    exact hoff p hp e
  · intro p hp
    rcases List.mem_append.1 hp with h | h
    · exact hbk p (List.mem_append_left _ h)
    · rcases List.mem_cons.1 h with rfl | h
      · exact ⟨by show bucketOf pr'.key s.n = b; rw [R.key_eq]; exact hbpo, hx⟩
      · exact hbk p (List.mem_append_right _ h)
  · intro b' hb' hne
    obtain ⟨l, hl, hndl, hbkl⟩ := hB.chains_other b' hb' hne
    exact ⟨l, R.chain_other (by rw [hbpo]; exact hne) hl hndl (fun p hp => (hbkl p hp).1), hndl, hbkl⟩
  · intro o sz1 r hu hox
    rcases R.back o sz1 r hu with ⟨e1, e2⟩ | ⟨e1, e2, hu0⟩
    · rw [e2, R.key_eq, if_pos hbpo, e1]
      exact List.mem_append_right _ (List.mem_cons_self ..)
    · have h := hB.on_chain o sz1 r hu0 hox
      by_cases e : bucketOf r.key s.n = b
      · rw [if_pos e] at h ⊢
        rcases List.mem_append.1 h with h | h
        · rcases List.mem_append.1 h with h | h
          · exact List.mem_append_left _ h
          · simp only [List.mem_singleton, Prod.mk.injEq] at h
            exact absurd h.1 e2
        · exact List.mem_append_right _ (List.mem_cons_of_mem _ h)
      · rw [if_neg e] at h ⊢
        obtain ⟨l, hl, hmem⟩ := h
        obtain ⟨l0, hl0, hndl, hbkl⟩ := hB.chains_other _ (bucketOf_lt r.key hB.npos) e
        rw [hl] at hl0
        cases hl0
        exact ⟨l, R.chain_other (by rw [hbpo]; exact e) hl hndl (fun p hp => (hbkl p hp).1), hmem⟩

/-- the predecessor was rewritten in place: the chain is repaired -/
theorem invx_inplace (hB : Broken kt s x b old new (l1' ++ [(po, pr)]) l2)
    (R : Rew s.kf kf' po po pr pr') (hnext : pr'.next = new) :
    InvX kt { s with kf := kf' } x := by
  obtain ⟨_, hpo0, _, _, _, hnepo, _, _, _, _, hpox⟩ := concat_facts hB
  obtain ⟨hs1, hs2, hnd, hbk, hco, hoc⟩ := rew_common hB R hnepo hpox
  refine invx_of_parts (b := b) (L := l1' ++ (po, pr') :: l2) hB.npos R.wf' hB.vwf hB.heads_lt
    hB.bits_ok hco ?_ hnd hbk hoc ((broken_data hB).rew R)
  refine chain_of_seg kf' _ _ (segFrom_append hs1 ⟨rfl, hpo0, R.used_off', ?_⟩) hnd
  rw [hnext]; exact hs2

/-- the predecessor moved: the cut is now one record closer to the bucket -/
theorem broken_moved (hB : Broken kt s x b old new (l1' ++ [(po, pr)]) l2)
    (R : Rew s.kf kf' po off' pr pr') (hnext : pr'.next = new)
    (h0 : off' ≠ 0) (hfree : s.kf.used off' = none) (hfree' : kf'.used po = none) :
    Broken kt { s with kf := kf' } x b po off' l1' ((off', pr') :: l2) := by
  obtain ⟨_, hpo0, _, _, _, hnepo, hused, _, _, _, hpox⟩ := concat_facts hB
  have hoff : ∀ p ∈ l1' ++ l2, p.1 ≠ off' := by
    intro p hp e
    obtain ⟨sz, hu⟩ := hused p hp
    rw [e, hfree] at hu; cases hu
  have hx : off' ≠ x := by
    intro e
    obtain ⟨sz, r, hu⟩ := hB.x_used (by rw [← e]; exact h0)
    rw [← e, hfree] at hu; cases hu
  obtain ⟨hs1, hs2, hnd, hbk, hco, hoc⟩ := rew_common hB R hoff hx
  have hd := (broken_data hB).rew R
  have hnd2 : (((off', pr') :: l2).map (·.1)).Nodup := by
    rw [List.map_append] at hnd
    exact (List.nodup_append.1 hnd).2.1
  exact {
    npos := hB.npos
    kwf := R.wf'
    vwf := hB.vwf
    heads_lt := hB.heads_lt
    bits_ok := hB.bits_ok
    b_lt := hB.b_lt
    chains_other := hco
    seg := hs1
    old_free := ⟨hpo0, hfree'⟩
    x_used := by
      intro hx0
      obtain ⟨sz, r, hu⟩ := hB.x_used hx0
      rcases R.fwd x sz r hu with ⟨e, _⟩ | ⟨_, _, hu'⟩
      · exact absurd e.symm hpox
      · exact ⟨sz, r, hu'⟩
    tail := ⟨h0, chain_of_seg kf' _ _ ⟨rfl, h0, R.used_off', by rw [hnext]; exact hs2⟩ hnd2⟩
    nodup := hnd
    bucket := hbk
    on_chain := hoc
    keys_ok := hd.keys_ok
    keys_inj := hd.keys_inj
    val_used := hd.val_used
    val_inj := hd.val_inj
    val_owned := hd.val_owned
    count_ok := hd.count_ok.trans (usedCount_eq _).symm }

end Relink
open Relink

/-- From a state whose bucket `b` chain is cut (`Broken`), `relink` terminates, restores the
invariant, leaves the value file, the count and every record outside the leading segment `l1`
alone, and keeps the set of (key, value offset) pairs. `fuel` only has to exceed `l1.length`. -/
theorem relink_spec {kt : KeyType} {s : Store} {x b old new : Nat} {l1 l2 : List (Nat × KeyRec)}
    (hB : Broken kt s x b old new l1 l2) (fuel : Nat) (hf : l1.length < fuel) :
    ∃ s', relink b fuel s old new = some s' ∧ InvX kt s' x ∧
      s'.vf = s.vf ∧ s'.count = s.count ∧ s'.n = s.n ∧
      (∀ k vo, HasKV s' k vo ↔ HasKV s k vo) ∧
      (∀ o sz r, s.kf.used o = some (sz, r) → (∀ p ∈ l1, p.1 ≠ o) → s'.kf.used o = some (sz, r)) := by
  induction fuel generalizing s old new l1 l2 with
  | zero => exact absurd hf (Nat.not_lt_zero _)
  | succ fuel ih =>
    rcases List.eq_nil_or_concat l1 with rfl | ⟨l1', ⟨po, pr⟩, rfl⟩
    · obtain ⟨s', h1, h2, h3, h4, h5, h6, h7⟩ := relink_nil hB fuel
      exact ⟨s', h1, h2, h3, h4, h5, h6, fun o sz r hu _ => h7 o sz r hu⟩
    · rw [List.concat_eq_append] at hB hf ⊢
      obtain ⟨sz, off', kf', hpred, hpo0, hget, hrew, R, hlen, hcase⟩ := relink_step hB
      by_cases hoff : off' = po
      · subst hoff
        refine ⟨{ s with kf := kf' }, ?_, invx_inplace hB R rfl, rfl, rfl, rfl, R.hasKV s rfl, ?_⟩
        · simp [relink, hpred, hpo0, hget, hrew]
        · intro o sz1 r hu hne
          rcases R.fwd o sz1 r hu with ⟨e, _⟩ | ⟨_, _, hu'⟩
          · exact absurd e.symm (hne (_, pr) (by simp))
          · exact hu'
      · rcases hcase with h | ⟨_, h0, hfree, hfree'⟩
        · exact absurd h hoff
        have hB' := broken_moved hB R rfl h0 hfree hfree'
        have hf' : l1'.length < fuel := by
          rw [List.length_append] at hf
          simp only [List.length_cons, List.length_nil] at hf
          omega
        obtain ⟨s'', hrel, hinv, hvf, hcnt, hn, hkv, hunt⟩ := ih hB' hf'
        refine ⟨s'', ?_, hinv, hvf, hcnt, hn, ?_, ?_⟩
        · simp [relink, hpred, hpo0, hget, hrew, hoff, hrel]
        · intro k vo
          exact (hkv k vo).trans (R.hasKV s rfl k vo)
        · intro o sz1 r hu hne
          rcases R.fwd o sz1 r hu with ⟨e, _⟩ | ⟨_, _, hu'⟩
          · exact absurd e.symm (hne (_, pr) (by simp))
          · exact hunt o sz1 r hu' (fun p hp => hne p (List.mem_append_left _ hp))

end Store
end Abyss
