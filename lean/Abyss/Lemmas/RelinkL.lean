import Abyss.Inv
import Abyss.Lemmas.AllocL
import Abyss.Lemmas.ChainL
/-!
# `relink_moved_key_piece` repairs a chain that was cut by the relocation of a key record
-/
namespace Abyss
namespace Store

/-- the slot size requested for a key record / a value is one `roundup` produces -/
theorem keyNeed_legal (r : KeyRec) : LegalSz keyCfg (keyNeed r) := by sorry
theorem valueNeed_legal (len : Nat) : LegalSz valCfg (valueNeed len) := by sorry

/-- `writeHead` changes one bucket entry and its bitmap bit, nothing else -/
theorem headOf_writeHead (s : Store) (b off b' : Nat) :
    (s.writeHead b off).headOf b' = if b' = b then off else s.headOf b' := by sorry
theorem bitOf_writeHead (s : Store) (b off b' : Nat) :
    (s.writeHead b off).bitOf b' = if b' = b then decide (off ≠ 0) else s.bitOf b' := by sorry

/-- From a state whose bucket `b` chain is cut (`Broken`), `relink` terminates, restores the
invariant, leaves the value file, the count and every record outside the leading segment `l1`
alone, and keeps the set of (key, value offset) pairs. `fuel` only has to exceed `l1.length`. -/
theorem relink_spec {kt : KeyType} {s : Store} {x b old new : Nat} {l1 l2 : List (Nat × KeyRec)}
    (hB : Broken kt s x b old new l1 l2) (fuel : Nat) (hf : l1.length < fuel) :
    ∃ s', relink b fuel s old new = some s' ∧ InvX kt s' x ∧
      s'.vf = s.vf ∧ s'.count = s.count ∧ s'.n = s.n ∧
      (∀ k vo, HasKV s' k vo ↔ HasKV s k vo) ∧
      (∀ o sz r, s.kf.used o = some (sz, r) → (∀ p ∈ l1, p.1 ≠ o) → s'.kf.used o = some (sz, r)) := by sorry

end Store
end Abyss
