import Abyss.Lemmas.EngineReadAux1
import Abyss.Stats
/-!
# statistics calls, byte level: the free-list counts and the filling rate
-/
namespace Abyss
open Store FileM RecFile

/-! ## `count_of_free_key_piece` / `count_of_free_value_piece` -/

section
variable {α : Type} {c : FileCfg} {sig2 : List Nat} {rs : Slot α → List Nat} {f : RecFile α}

theorem keyCountLoop_img (h : ByteOK c sig2 rs f) :
    ∀ (l : List Nat) (vec : List (Nat × Nat)) (pos : Nat), (∀ sz ∈ l, LegalSz c sz) →
      ∃ r pos', Store.countFreeList c f l = some r ∧
        Gen.keyCountOfFreeKeyPieceLoop c l vec ⟨renderRecFile c sig2 rs f, pos⟩ =
          some (vec ++ r, ⟨renderRecFile c sig2 rs f, pos'⟩) := by
  intro l
  induction l with
  | nil =>
    intro vec pos _
    exact ⟨[], pos, rfl, by rw [List.append_nil]; rfl⟩
  | cons sz rest ih =>
    intro vec pos hl
    obtain ⟨n, p1, hn, h1⟩ := countFree_bytes h (hl sz List.mem_cons_self) pos
    obtain ⟨r, p2, hr, h2⟩ := ih (vec ++ [(sz, n)]) p1 (fun x hx => hl x (List.mem_cons_of_mem _ hx))
    refine ⟨(sz, n) :: r, p2, ?_, ?_⟩
    · simp only [Store.countFreeList, hn, hr]
    · unfold Gen.keyCountOfFreeKeyPieceLoop
      rw [FileM.bind_some h1, h2, List.append_assoc]
      rfl

theorem valCountLoop_img (h : ByteOK c sig2 rs f) :
    ∀ (l : List Nat) (vec : List (Nat × Nat)) (pos : Nat), (∀ sz ∈ l, LegalSz c sz) →
      ∃ r pos', Store.countFreeList c f l = some r ∧
        Gen.valCountOfFreeValuePieceLoop c l vec ⟨renderRecFile c sig2 rs f, pos⟩ =
          some (vec ++ r, ⟨renderRecFile c sig2 rs f, pos'⟩) := by
  intro l
  induction l with
  | nil =>
    intro vec pos _
    exact ⟨[], pos, rfl, by rw [List.append_nil]; rfl⟩
  | cons sz rest ih =>
    intro vec pos hl
    obtain ⟨n, p1, hn, h1⟩ := countFree_bytes h (hl sz List.mem_cons_self) pos
    obtain ⟨r, p2, hr, h2⟩ := ih (vec ++ [(sz, n)]) p1 (fun x hx => hl x (List.mem_cons_of_mem _ hx))
    refine ⟨(sz, n) :: r, p2, ?_, ?_⟩
    · simp only [Store.countFreeList, hn, hr]
    · unfold Gen.valCountOfFreeValuePieceLoop
      rw [FileM.bind_some h1, h2, List.append_assoc]
      rfl

end

theorem keyCountOfFree_bytes {kt : KeyType} {s : Store} (g : Store.Regular kt s) (pos : Nat) :
    ∃ r pos', s.countOfFreeKeyPiece = some r ∧
      Gen.keyCountOfFreeKeyPiece keyCfg ⟨renderKeyFile kt.sig s.kf, pos⟩ =
        some (r, ⟨renderKeyFile kt.sig s.kf, pos'⟩) := by
  obtain ⟨r, p, hr, h⟩ := keyCountLoop_img g.kok keyCfg.sizeAry [] pos (fun sz hsz => Or.inl hsz)
  refine ⟨r, p, hr, ?_⟩
  unfold Gen.keyCountOfFreeKeyPiece
  rw [renderKeyFile_eq]
  have : Gen.keySizeAry = keyCfg.sizeAry := rfl
  rw [this]
  exact h

theorem valCountOfFree_bytes {kt : KeyType} {s : Store} (g : Store.Regular kt s) (pos : Nat) :
    ∃ r pos', s.countOfFreeValuePiece = some r ∧
      Gen.valCountOfFreeValuePiece valCfg ⟨renderValFile kt.sig s.vf, pos⟩ =
        some (r, ⟨renderValFile kt.sig s.vf, pos'⟩) := by
  obtain ⟨r, p, hr, h⟩ := valCountLoop_img g.vok valCfg.sizeAry [] pos (fun sz hsz => Or.inl hsz)
  refine ⟨r, p, hr, ?_⟩
  unfold Gen.valCountOfFreeValuePiece
  rw [renderValFile_eq]
  have : Gen.valSizeAry = valCfg.sizeAry := rfl
  rw [this]
  exact h

/-! ## `htx_filling_rate_per_mill` -/

theorem fillLoop_img (sig : List Nat) (n count : Nat) (h : Nat → Nat) (m : Nat) (f : Nat → Bool)
    (hsig : sig.length = 8) (hlt : ∀ b, h b < 2^64) :
    ∀ (l : List Nat) (cnt pos : Nat), (∀ i ∈ l, i < n) →
      ∃ pos', Gen.htxFillingRatePerMillHLoop l cnt ⟨htxImg sig n count h m f, pos⟩ =
        some (cnt + (l.filter fun i => h i ≠ 0).length, ⟨htxImg sig n count h m f, pos'⟩) := by
  intro l
  induction l with
  | nil => intro cnt pos _; exact ⟨pos, rfl⟩
  | cons i rest ih =>
    intro cnt pos hl
    have h1 := htxReadIdx_spec sig n count h m f hsig i pos (hl i List.mem_cons_self) (hlt i)
    have hl' : ∀ j ∈ rest, j < n := fun j hj => hl j (List.mem_cons_of_mem _ hj)
    unfold Gen.htxFillingRatePerMillHLoop
    rw [FileM.bind_some h1]
    by_cases hz : h i = 0
    · obtain ⟨p, hp⟩ := ih cnt (128 + 8 * i + 8) hl'
      refine ⟨p, ?_⟩
      rw [hz, if_neg not_beq_zero_self]
      have hf : ((i :: rest).filter fun i => h i ≠ 0) = rest.filter fun i => h i ≠ 0 := by
        rw [List.filter_cons_of_neg]
        simp only [hz, ne_eq, not_true_eq_false, decide_false, Bool.false_eq_true, not_false_eq_true]
      rw [hf]
      exact hp
    · obtain ⟨p, hp⟩ := ih (cnt + 1) (128 + 8 * i + 8) hl'
      refine ⟨p, ?_⟩
      rw [if_pos (not_beq_zero hz)]
      have hf : ((i :: rest).filter fun i => h i ≠ 0) = i :: rest.filter fun i => h i ≠ 0 := by
        rw [List.filter_cons_of_pos]
        simp only [hz, ne_eq, not_false_eq_true, decide_true]
      rw [hf, List.length_cons]
      have e : cnt + ((rest.filter fun i => h i ≠ 0).length + 1) =
          cnt + 1 + (rest.filter fun i => h i ≠ 0).length := by omega
      rw [e]
      exact hp

theorem fillingRate_htx {kt : KeyType} {s : Store} (g : Store.Regular kt s) (pos : Nat) :
    ∃ pos', Gen.htxFillingRatePerMillH s.n ⟨(render kt s).htx, pos⟩ =
      some (s.htxFillingRate, ⟨(render kt s).htx, pos'⟩) := by
  have R := g.renderable
  have hnpos := g.inv.npos
  show ∃ pos', Gen.htxFillingRatePerMillH s.n ⟨renderHtxFile kt.sig s, pos⟩ =
      some (s.htxFillingRate, ⟨renderHtxFile kt.sig s, pos'⟩)
  rw [renderHtx_eq kt.sig s R.sig_len]
  obtain ⟨p, hp⟩ := fillLoop_img kt.sig s.n s.count s.headOf (s.htxEnd - (Gen.htxHeaderSz + s.n * 8)) s.bitOf
    R.sig_len (fun b => R.heads_lt b) (List.range s.n) 0 pos (fun i hi => List.mem_range.mp hi)
  refine ⟨p, ?_⟩
  unfold Gen.htxFillingRatePerMillH
  rw [FileM.bind_some hp]
  have hn0 : (s.n == 0) = false := by
    rw [beq_eq_false_iff_ne]; omega
  rw [hn0]
  have hle : ((List.range s.n).filter fun i => s.headOf i ≠ 0).length ≤ s.n := by
    have := List.length_filter_le (fun i => decide (s.headOf i ≠ 0)) (List.range s.n)
    rw [List.length_range] at this
    exact this
  have hdiv : ((List.range s.n).filter fun i => s.headOf i ≠ 0).length * 1000 / s.n < 2^32 := by
    have : ((List.range s.n).filter fun i => s.headOf i ≠ 0).length * 1000 / s.n ≤ 1000 := by
      apply Nat.div_le_of_le_mul
      exact Nat.mul_le_mul_right 1000 hle
    omega
  simp only [Nat.zero_add, Bool.false_eq_true, if_false]
  show some ((_, _ % 2^32), _) = _
  rw [Nat.mod_eq_of_lt hdiv]
  rfl

end Abyss
