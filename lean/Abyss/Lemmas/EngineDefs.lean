import Abyss.Gen.Engine
import Abyss.Lemmas.PieceBytesVal
import Abyss.Lemmas.PieceBytesKey
import Abyss.Lemmas.SizedL
import Abyss.Props.C01
/-!
# The engine generated from `dbxxx.rs` / `htx.rs` refines the hand model, byte for byte

`Gen.getKt`, `Gen.putKt`, `Gen.delKt`, `Gen.includesKeyKt`, `Gen.lenKt` (and what they call:
`findInHashBucketsKt`, `loadValue`, `storeValueOnInsert`, `relinkMovedKeyPiece`, the hash-table file
operations, the piece-level I/O, the allocator) are translated from the Rust source on every run and
act on the bytes of the three files. Run on the rendered image of a model state in the regular
regime they return what `Store.get / put / del / includes / len` return and leave exactly the
rendered image of the model's next state. Hence every theorem about `Store.run` (C01: behaves like
the ideal map; C05: structure; C06: reclamation …) is a theorem about the code as translated.
-/
namespace Abyss
open Store FileM

/-- the `cmp_u8` of a key type, as translated -/
def cmpOf : KeyType → List Nat → List Nat → Option Ordering
  | .string => Gen.cmpU8String
  | .bytes => Gen.cmpU8Bytes
  | .u64 => Gen.cmpU8U64
  | .i64 => Gen.cmpU8I64
  | .vu64 => Gen.cmpU8Vu64

/-- the regular regime of a model state: invariant, records fit their slots, files below 4 GiB -/
structure Store.Regular (kt : KeyType) (s : Store) : Prop where
  inv : Inv kt s
  sized : s.Sized
  kend : s.kf.end_ < 2^32
  vend : s.vf.end_ < 2^32
  n_lt : s.n < 2^60

/-- the three rendered files with arbitrary cursors -/
def imageSt (kt : KeyType) (s : Store) (ph pk pv : Nat) : DbSt :=
  ⟨⟨(render kt s).htx, ph⟩, ⟨(render kt s).key, pk⟩, ⟨(render kt s).val, pv⟩⟩

/-- same bytes, any cursors -/
def DbSt.IsImage (kt : KeyType) (s : Store) (d : DbSt) : Prop :=
  d.htx.bytes = (render kt s).htx ∧ d.key.bytes = (render kt s).key ∧ d.val.bytes = (render kt s).val

end Abyss
