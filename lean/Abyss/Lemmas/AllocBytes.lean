import Abyss.Gen.FileOps
import Abyss.Renderable
import Abyss.Lemmas.AllocL
import Abyss.Lemmas.AllocBytesAux4
import Abyss.Lemmas.ByteOKAux
/-!
# The allocator, byte level: the code generated from `piece.rs` / `vfile.rs` refines the model

`Gen.pushFreePieceList`, `Gen.popFreePieceList` (with its first-fit loop over the large list) and
`Gen.countOfFreePieceList` are translated from the Rust source on every run and act on the bytes
of a record file. The hand-written slot-level model (`RecFile.pushFree`, `popFree`, `countFree`) is
what the refinement / invariant theorems (C01, C05, C06, …) are about. Here the two are connected:
running the generated code on the rendered image of a well-formed record file gives exactly the
rendered image of the model's result, and the same return value — for every well-formed file, every
legal size, both record files.
-/
namespace Abyss
open RecFile FileM

variable {α : Type}

/-- the image of a record file for an arbitrary slot renderer -/
def renderRecFile (c : FileCfg) (sig2 : List Nat) (rs : Slot α → List Nat) (f : RecFile α) : List Nat :=
  renderRecHeader c sig2 f ++ (f.slots.map fun p => rs p.2).flatten

theorem renderKeyFile_eq (sig2 : List Nat) (f : RecFile KeyRec) :
    renderKeyFile sig2 f = renderRecFile keyCfg sig2 renderKeySlot f := rfl
theorem renderValFile_eq (sig2 : List Nat) (f : RecFile (List Nat)) :
    renderValFile sig2 f = renderRecFile valCfg sig2 renderValSlot f := rfl

/-- what the byte-level allocator needs of the configuration, the slot renderer and the file -/
structure ByteOK (c : FileCfg) (sig2 : List Nat) (rs : Slot α → List Nat) (f : RecFile α) : Prop where
  cfg : CfgOK c
  wf : WF c f
  /-- header layout: signatures, then the 16 heads at `c.first`, all inside the header -/
  sig_fit : (c.sig1 ++ sig2).length ≤ c.first
  heads_fit : c.first + 128 ≤ c.headerSz
  /-- where the code looks for the head of a size's list -/
  head_off : ∀ sz, LegalSz c sz → Gen.freePieceListOffsetOfHeader c.freeOffsets c.sizeAry sz = c.first + 8 * headIdx c sz
  heads_lt : ∀ h ∈ f.heads, h < 2^64
  /-- files below 4 GiB (sizes and offsets fit their fields) -/
  end_lt : f.end_ < 2^32
  legal8 : ∀ sz, LegalSz c sz → 8 ∣ sz ∧ 16 ≤ sz
  /-- every slot is rendered in full; a free slot as size, a zero key length, the link, zeros -/
  slot_len : ∀ p ∈ f.slots, (rs p.2).length = p.2.size
  free_form : ∀ sz nx, rs (.free sz nx) = padTo sz (freeContent sz nx)
  free_lt : ∀ o sz nx, f.get o = some (.free sz nx) → nx < 2^64

/-! ## from `ByteOK` to the hypotheses of the layout / image lemmas (`AllocBytesAux1`–`4`) -/

theorem renderRecFile_eq_recImage (c : FileCfg) (sig2 : List Nat) (rs : Slot α → List Nat) (f : RecFile α) :
    renderRecFile c sig2 rs f = recImage c sig2 rs f := rfl

theorem ByteOK.lay {c : FileCfg} {sig2 : List Nat} {rs : Slot α → List Nat} {f : RecFile α}
    (h : ByteOK c sig2 rs f) : Lay c sig2 rs f :=
  ⟨h.sig_fit, h.heads_fit, h.wf.heads_len, h.wf.tiled, h.slot_len⟩

theorem ByteOK.freeOK {c : FileCfg} {sig2 : List Nat} {rs : Slot α → List Nat} {f : RecFile α}
    (h : ByteOK c sig2 rs f) : FreeOK f := by
  intro o sz nx hg
  have hb : _ ∧ o + sz ≤ f.end_ ∧ _ := h.wf.tiled.bounds hg
  obtain ⟨h8, h16⟩ := h.legal8 sz (h.wf.sizes _ _ hg)
  have := h.end_lt
  exact ⟨h8, h16, by omega, h.free_lt o sz nx hg⟩

theorem ByteOK.chain_fuel {c : FileCfg} {sig2 : List Nat} {rs : Slot α → List Nat} {f : RecFile α}
    (h : ByteOK c sig2 rs f) {cur : Nat} {l : List Nat} (a : IsChain f cur l) (nd : l.Nodup) :
    l.length < (recImage c sig2 rs f).length + 1 := by
  have h1 := a.length_le nd
  have h2 := tiled_length_le f.slots _ _ h.wf.tiled
  rw [image_length h.lay]
  omega

/-- `push_free_piece_list(off, size)` on the bytes = `pushFree` on the model, for a used slot -/
theorem pushFree_bytes {c : FileCfg} {sig2 : List Nat} {rs : Slot α → List Nat} {f : RecFile α}
    (h : ByteOK c sig2 rs f) {off sz : Nat} {p : α} (hg : f.get off = some (.used sz p)) (pos : Nat) :
    ∃ pos', Gen.pushFreePieceList c off sz ⟨renderRecFile c sig2 rs f, pos⟩ =
      some ((), ⟨renderRecFile c sig2 rs (pushFree c f off sz), pos'⟩) := by
  have lay := h.lay
  have hb : c.headerSz ≤ off ∧ off + sz ≤ f.end_ ∧ _ := h.wf.tiled.bounds hg
  have hpos := h.cfg.hdr_pos
  have h0 : off ≠ 0 := by omega
  have hleg : LegalSz c sz := h.wf.sizes _ _ hg
  obtain ⟨h8, h16⟩ := h.legal8 sz hleg
  have h32 : sz < 2^32 := by have := h.end_lt; omega
  have e : pushFree c f off sz = setHead c (f.set off (.free sz (headOf c f sz))) sz off := by
    unfold pushFree; rw [if_neg h0]
  simp only [renderRecFile_eq_recImage]
  rw [e]
  obtain ⟨p1, r1⟩ := readHead_img lay h.cfg sz (h.head_off sz hleg) h.heads_lt pos
  have lay1 := lay.set_same (s' := .free sz (headOf c f sz)) hg rfl
    (free_render_length h.free_form sz _ h16 h32)
  obtain ⟨p2, r2⟩ := writeHead_img lay1 h.cfg sz off (h.head_off sz hleg) (off + sz)
  refine ⟨p2, ?_⟩
  unfold Gen.pushFreePieceList
  rw [if_neg (by simpa using h0), bind_some r1,
    bind_some (seekFromStart_spec off _ p1 (by rw [image_length lay]; omega)),
    makeFree_img (sz := sz) _ lay h.free_form hg rfl h16 h32, bind_some r2, pure_apply]

/-- `pop_free_piece_list(need)` on the bytes = `popFree` on the model: same offset (0 = nothing
fits), same file — exact class for the small sizes, first fit in list order on the large list -/
theorem popFree_bytes {c : FileCfg} {sig2 : List Nat} {rs : Slot α → List Nat} {f : RecFile α}
    (h : ByteOK c sig2 rs f) {need : Nat} (hn : LegalSz c need) (pos : Nat) :
    ∃ off f' pos', popFree c f need = some (off, f') ∧
      Gen.popFreePieceList c need ⟨renderRecFile c sig2 rs f, pos⟩ =
        some (off, ⟨renderRecFile c sig2 rs f', pos'⟩) := by
  have lay := h.lay
  have hff : FreeForm rs := h.free_form
  have hfo := h.freeOK
  have hoff := h.head_off need hn
  have hi := h.cfg.idx_lt need
  obtain ⟨l, hl, nd, _⟩ := h.wf.lists _ hi
  obtain ⟨a1, a2⟩ := (freeChain_iff _ _ _ _).mp hl
  have a1' : IsChain f (headOf c f need) l := a1
  obtain ⟨p1, r1⟩ := readHead_img lay h.cfg need hoff h.heads_lt pos
  simp only [renderRecFile_eq_recImage]
  cases hL : Gen.isLargePieceSize c.sizeAry need with
  | true =>
    obtain ⟨off, f', pos', r, e1, e2, e3⟩ := popLoop_img lay h.cfg hff hfo need hoff l
      ((recImage c sig2 rs f).length + 1) (f.slots.length + 1) 0 (headOf c f need) p1 a1'
      (h.chain_fuel a1 nd) a2 (Or.inl rfl)
    refine ⟨off, f', pos', ?_, ?_⟩
    · unfold popFree
      simp only [hL, if_true]
      exact e1
    · have hfl : FileM.fileLen ⟨recImage c sig2 rs f, p1⟩ =
          some ((recImage c sig2 rs f).length, ⟨recImage c sig2 rs f, p1⟩) := rfl
      unfold Gen.popFreePieceList
      rw [bind_some r1]
      simp only [hL, Bool.not_true, Bool.false_eq_true, if_false]
      unfold Gen.popFreePieceListLarge
      rw [bind_some hfl, bind_some e2]
      subst e3
      cases r with
      | inl x => rfl
      | inr q => obtain ⟨a, b⟩ := q; rfl
  | false =>
    by_cases hd0 : headOf c f need = 0
    · refine ⟨0, f, p1, ?_, ?_⟩
      · unfold popFree
        simp only [hL, Bool.false_eq_true, if_false, hd0, if_true]
      · unfold Gen.popFreePieceList
        rw [bind_some r1]
        simp only [hL, Bool.not_false, if_true]
        rw [hd0, if_neg not_beq_zero_self]
        rfl
    · cases l with
      | nil => exact absurd a1' hd0
      | cons o t =>
        obtain ⟨_, ho, sz, nx, hg, _⟩ := a1'
        subst ho
        obtain ⟨h8, h16, h32, hnx⟩ := hfo _ sz nx hg
        obtain ⟨p2, r2⟩ := readFree_img lay hff hfo hg p1
        have r3 := clear_img (sz := sz) lay hff hg rfl h16 h32 p2
        have lay1 := lay.set_same (s' := .free sz 0) hg rfl (free_render_length hff sz 0 h16 h32)
        obtain ⟨p4, r4⟩ := writeHead_img lay1 h.cfg need nx hoff (headOf c f need + sz)
        refine ⟨headOf c f need, (setHead c f need nx).set (headOf c f need) (.free sz 0), p4, ?_, ?_⟩
        · unfold popFree
          simp only [hL, Bool.false_eq_true, if_false, hd0, hg]
        · have e : (setHead c f need nx).set (headOf c f need) (.free sz 0) =
              setHead c (f.set (headOf c f need) (.free sz 0)) need nx := rfl
          rw [e]
          unfold Gen.popFreePieceList
          rw [bind_some r1]
          simp only [hL, Bool.not_false, if_true]
          rw [if_pos (not_beq_zero hd0)]
          simp only [bind_assoc_apply]
          rw [bind_some r2]
          simp only [bind_assoc_apply]
          rw [bind_some r3, pure_bind_apply]
          simp only [bind_assoc_apply]
          rw [bind_some r4, pure_bind_apply, pure_apply]

/-- `count_of_free_piece_list(size)` on the bytes = `countFree` on the model; the bytes are untouched -/
theorem countFree_bytes {c : FileCfg} {sig2 : List Nat} {rs : Slot α → List Nat} {f : RecFile α}
    (h : ByteOK c sig2 rs f) {size : Nat} (hn : LegalSz c size) (pos : Nat) :
    ∃ n pos', countFree c f size = some n ∧
      Gen.countOfFreePieceList c size ⟨renderRecFile c sig2 rs f, pos⟩ =
        some (n, ⟨renderRecFile c sig2 rs f, pos'⟩) := by
  have lay := h.lay
  have hi := h.cfg.idx_lt size
  obtain ⟨l, hl, nd, _⟩ := h.wf.lists _ hi
  obtain ⟨a1, a2⟩ := (freeChain_iff _ _ _ _).mp hl
  have a1' : IsChain f (headOf c f size) l := a1
  have hcnt : countFree c f size = some l.length := countFreeFrom_of_chain a1 a2
  obtain ⟨p1, r1⟩ := readHead_img lay h.cfg size (h.head_off size hn) h.heads_lt pos
  simp only [renderRecFile_eq_recImage]
  by_cases hd0 : headOf c f size = 0
  · have hnil : l = [] := by
      cases l with
      | nil => rfl
      | cons o t => exact absurd hd0 a1'.1
    subst hnil
    refine ⟨0, p1, hcnt, ?_⟩
    unfold Gen.countOfFreePieceList
    rw [bind_some r1, hd0, if_neg not_beq_zero_self]
    rfl
  · obtain ⟨p2, r2⟩ := countLoop_img lay h.free_form h.freeOK l ((recImage c sig2 rs f).length + 1)
      (headOf c f size) 0 p1 a1' (h.chain_fuel a1 nd)
    have hfl : FileM.fileLen ⟨recImage c sig2 rs f, p1⟩ =
        some ((recImage c sig2 rs f).length, ⟨recImage c sig2 rs f, p1⟩) := rfl
    refine ⟨l.length, p2, hcnt, ?_⟩
    unfold Gen.countOfFreePieceList
    rw [bind_some r1, if_pos (not_beq_zero hd0), bind_some hfl, bind_some r2]
    simp only [Nat.zero_add]
    rfl

/-- the key file of a state satisfying the invariant and the field bounds is `ByteOK` -/
theorem byteOK_key {kt : KeyType} {s : Store} (hi : Store.Inv kt s) (hr : Store.Renderable kt s)
    (hend : s.kf.end_ < 2^32) : ByteOK keyCfg kt.sig renderKeySlot s.kf where
  cfg := keyCfg_ok
  wf := hi.kwf
  sig_fit := ByteOKAux.sigFit_key kt.sig hr.sig_len
  heads_fit := ByteOKAux.headsFit_key
  head_off sz _ := ByteOKAux.headOff_key sz
  heads_lt := hr.kf_heads
  end_lt := hend
  legal8 := ByteOKAux.legal8_of keyCfg rfl
  slot_len p hp := ByteOKAux.slotLen_key p.2 (hr.kslots p hp)
  free_form _ _ := rfl
  free_lt := ByteOKAux.freeLt_key s.kf hr.kslots

theorem byteOK_val {kt : KeyType} {s : Store} (hi : Store.Inv kt s) (hr : Store.Renderable kt s)
    (hend : s.vf.end_ < 2^32) : ByteOK valCfg kt.sig renderValSlot s.vf where
  cfg := valCfg_ok
  wf := hi.vwf
  sig_fit := ByteOKAux.sigFit_val kt.sig hr.sig_len
  heads_fit := ByteOKAux.headsFit_val
  head_off sz _ := ByteOKAux.headOff_val sz
  heads_lt := hr.vf_heads
  end_lt := hend
  legal8 := ByteOKAux.legal8_of valCfg rfl
  slot_len p hp := ByteOKAux.slotLen_val p.2 (hr.vslots p hp)
  free_form _ _ := rfl
  free_lt := ByteOKAux.freeLt_val s.vf hr.vslots

end Abyss
