import Abyss.Lemmas.EngineUpdAux0
/-!
# generated engine vs model, updates: one-file steps on an image, `relink`
-/
set_option linter.unusedVariables false
namespace Abyss
open Store FileM RecFile
namespace EU

/-! ## the hash-table file of a store whose bucket table can be read and written -/

/-- reading and writing a bucket entry on the hash-table image of `t` does what the model does -/
def HtxRW (kt : KeyType) (t : Store) : Prop :=
  ∀ hash pos,
    (∃ pos', Gen.htxReadKeyPieceOffset t.n hash ⟨renderHtxFile kt.sig t, pos⟩ =
      some (t.headOf (hash % t.n), ⟨renderHtxFile kt.sig t, pos'⟩)) ∧
    ∀ off, off < 2^64 →
      ∃ pos', Gen.htxWriteKeyPieceOffset t.n hash off ⟨renderHtxFile kt.sig t, pos⟩ =
        some ((), ⟨renderHtxFile kt.sig (t.writeHead (hash % t.n) off), pos'⟩)

theorem HtxRW.of_good {kt : KeyType} {s : Store} (g : Store.Regular kt s) : HtxRW kt s :=
  fun hash pos => ⟨htxRead_bytes g hash pos, fun off ho => htxWrite_bytes g hash off pos ho⟩

theorem HtxRW.setKf {kt : KeyType} {t : Store} (h : HtxRW kt t) (kf' : RecFile KeyRec) :
    HtxRW kt { t with kf := kf' } := h

theorem HtxRW.setVf {kt : KeyType} {t : Store} (h : HtxRW kt t) (vf' : RecFile (List Nat)) :
    HtxRW kt { t with vf := vf' } := h

section steps
variable {kt : KeyType} {t : Store} {d : DbSt}

/-- a key-file step on an image -/
theorem key_step {α : Type} {m : FileM.M α} {a : α} (hd : d.IsImage kt t) {kf' : RecFile KeyRec}
    (h : ∀ pos, ∃ pos', m ⟨renderKeyFile kt.sig t.kf, pos⟩ = some (a, ⟨renderKeyFile kt.sig kf', pos'⟩)) :
    ∃ d', DbM.liftKey m d = some (a, d') ∧ d'.IsImage kt { t with kf := kf' } := by
  obtain ⟨d', h1, h2, h3, h4⟩ := liftKey_img hd.2.1 h
  exact ⟨d', h1, by rw [h3]; exact hd.1, h2, by rw [h4]; exact hd.2.2⟩

theorem key_read {α : Type} {m : FileM.M α} {a : α} (hd : d.IsImage kt t)
    (h : ∀ pos, ∃ pos', m ⟨renderKeyFile kt.sig t.kf, pos⟩ = some (a, ⟨renderKeyFile kt.sig t.kf, pos'⟩)) :
    ∃ d', DbM.liftKey m d = some (a, d') ∧ d'.IsImage kt t := key_step hd h

/-- a value-file step on an image -/
theorem val_step {α : Type} {m : FileM.M α} {a : α} (hd : d.IsImage kt t) {vf' : RecFile (List Nat)}
    (h : ∀ pos, ∃ pos', m ⟨renderValFile kt.sig t.vf, pos⟩ = some (a, ⟨renderValFile kt.sig vf', pos'⟩)) :
    ∃ d', DbM.liftVal m d = some (a, d') ∧ d'.IsImage kt { t with vf := vf' } := by
  obtain ⟨d', h1, h2, h3, h4⟩ := liftVal_img hd.2.2 h
  exact ⟨d', h1, by rw [h3]; exact hd.1, by rw [h4]; exact hd.2.1, h2⟩

theorem val_read {α : Type} {m : FileM.M α} {a : α} (hd : d.IsImage kt t)
    (h : ∀ pos, ∃ pos', m ⟨renderValFile kt.sig t.vf, pos⟩ = some (a, ⟨renderValFile kt.sig t.vf, pos'⟩)) :
    ∃ d', DbM.liftVal m d = some (a, d') ∧ d'.IsImage kt t := val_step hd h

/-- a hash-table step on an image -/
theorem htx_step {α : Type} {m : FileM.M α} {a : α} (hd : d.IsImage kt t) {t' : Store}
    (hk : t'.kf = t.kf) (hv : t'.vf = t.vf)
    (h : ∀ pos, ∃ pos', m ⟨renderHtxFile kt.sig t, pos⟩ = some (a, ⟨renderHtxFile kt.sig t', pos'⟩)) :
    ∃ d', DbM.liftHtx m d = some (a, d') ∧ d'.IsImage kt t' := by
  obtain ⟨d', h1, h2, h3, h4⟩ := liftHtx_img hd.1 h
  refine ⟨d', h1, h2, ?_, ?_⟩
  · rw [h3]; show _ = renderKeyFile kt.sig t'.kf; rw [hk]; exact hd.2.1
  · rw [h4]; show _ = renderValFile kt.sig t'.vf; rw [hv]; exact hd.2.2

end steps

/-! ## `relink`: what it leaves alone -/

theorem relink_frame (b : Nat) : ∀ (fuel : Nat) {t s' : Store} (old new : Nat), WF keyCfg t.kf →
    relink b fuel t old new = some s' →
    t.kf.end_ ≤ s'.kf.end_ ∧ s'.vf = t.vf ∧ s'.count = t.count ∧ s'.n = t.n := by
  intro fuel
  induction fuel with
  | zero => intro t s' old new _ h; simp [relink] at h
  | succ fuel ih =>
    intro t s' old new w h
    rw [relink] at h
    split at h
    · cases h
    · next prev _ =>
      split at h
      · simp only [Option.some.injEq] at h
        subst h
        exact ⟨Nat.le_refl _, rfl, rfl, rfl⟩
      · split at h
        · next sz0 pr hg =>
          simp only at h
          split at h
          · cases h
          · next p' kf' hrw =>
            obtain ⟨o1, s1, f1, a1, a2, _, _, _, _, _, _, a9⟩ :=
              rewrite_spec keyCfg_ok w (RecFile.used_eq_some.mpr hg)
                (Store.keyNeed_legal { pr with next := new }) { pr with next := new }
            rw [hrw] at a1
            simp only [Option.some.injEq, Prod.mk.injEq] at a1
            obtain ⟨rfl, rfl⟩ := a1
            split at h
            · simp only [Option.some.injEq] at h
              subst h; exact ⟨a9, rfl, rfl, rfl⟩
            · obtain ⟨i1, i2, i3, i4⟩ := ih (t := { t with kf := kf' }) _ _ a2 h
              exact ⟨Nat.le_trans a9 i1, i2, i3, i4⟩
        · cases h

/-! ## the predecessor search -/

theorem loop2_succ (old fuel prev off : Nat) :
    Gen.relinkMovedKeyPieceLoop2 old (fuel+1) (prev, off) =
      if ((off != old) && (!(off == 0))) then do
        let offset ← DbM.liftKey (Gen.keyReadPieceOnlyBucketNextOffset off)
        Gen.relinkMovedKeyPieceLoop2 old fuel (off, offset)
      else pure (prev, off) := rfl

theorem predLoop_img {sig : List Nat} {kf : RecFile KeyRec} (kg : KG sig kf) (old : Nat) :
    ∀ (fm fg cur prev p : Nat) (d : DbSt), fm ≤ fg → predLoop kf old fm cur prev = some p →
      d.key.bytes = renderKeyFile sig kf →
      ∃ cur' d', Gen.relinkMovedKeyPieceLoop2 old fg (prev, cur) d = some ((p, cur'), d') ∧
        d'.key.bytes = renderKeyFile sig kf ∧ d'.htx = d.htx ∧ d'.val = d.val := by
  intro fm
  induction fm with
  | zero => intro fg cur prev p d _ h; simp [predLoop] at h
  | succ fm ih =>
    intro fg cur prev p d hle h hd
    obtain ⟨fg', rfl⟩ : ∃ k, fg = k + 1 := ⟨fg - 1, by omega⟩
    rw [predLoop] at h
    rw [loop2_succ]
    by_cases hc : cur = old ∨ cur = 0
    · rw [if_pos hc] at h
      simp only [Option.some.injEq] at h
      subst h
      have hb : ((cur != old) && (!(cur == 0))) = false := by
        rcases hc with e | e <;> simp [e]
      rw [hb]
      exact ⟨cur, d, rfl, hd, rfl, rfl⟩
    · rw [if_neg hc] at h
      have hb : ((cur != old) && (!(cur == 0))) = true := by
        simp only [not_or] at hc
        simp [hc.1, hc.2]
      rw [hb]
      simp only [if_true]
      split at h
      · next sz r hg =>
        obtain ⟨d1, h1, h2, h3, h4⟩ := liftKey_img hd (kg.readNext hg)
        obtain ⟨cur', d', i1, i2, i3, i4⟩ := ih fg' r.next cur p d1 (by omega) h h2
        refine ⟨cur', d', ?_, i2, i3.trans h3, i4.trans h4⟩
        rw [DbM.bind_some h1, i1]
      · cases h

/-! ## the outer loop of `relink_moved_key_piece` -/

theorem loop_succ (kc : FileCfg) (n hash fuel old new : Nat) :
    Gen.relinkMovedKeyPieceLoop kc n hash (fuel+1) (old, new) = (do
      let offset ← DbM.liftHtx (Gen.htxReadKeyPieceOffset n hash)
      let loopFuel ← DbM.keyLen
      let (prevOffset, offset) ← Gen.relinkMovedKeyPieceLoop2 old (loopFuel + 1) (0, offset)
      if (prevOffset == 0) then
        DbM.liftHtx (Gen.htxWriteKeyPieceOffset n hash new)
      else
        let (prevKeyPieceSize, prevKeyPieceKey, prevKeyPieceValueOffset, prevKeyPieceBucketNextOffset) ←
          DbM.liftKey (Gen.keyReadPiece prevOffset)
        let (newPrevKeyPieceOffset, newPrevKeyPieceSize) ←
          DbM.liftKey (Gen.keyWritePiece kc prevOffset prevKeyPieceKey prevKeyPieceValueOffset new false)
        if (newPrevKeyPieceOffset == prevOffset) then
          pure ()
        else
          Gen.relinkMovedKeyPieceLoop kc n hash fuel (prevOffset, newPrevKeyPieceOffset)) := rfl

theorem relinkLoop_img {kt : KeyType} (hash : Nat) :
    ∀ (fm fg : Nat) (t s' : Store) (old new : Nat) (d : DbSt), fm ≤ fg →
      relink (hash % t.n) fm t old new = some s' → s'.kf.end_ < 2^32 →
      KG kt.sig t.kf → HtxRW kt t → new < 2^63 → 8 ∣ new → d.IsImage kt t →
      ∃ d', Gen.relinkMovedKeyPieceLoop keyCfg t.n hash fg (old, new) d = some ((), d') ∧
        d'.IsImage kt s' ∧ KG kt.sig s'.kf := by
  intro fm
  induction fm with
  | zero => intro fg t s' old new d _ h; simp [relink] at h
  | succ fm ih =>
    intro fg t s' old new d hle h he kg hx hn hn8 hd
    obtain ⟨fg', rfl⟩ : ∃ k, fg = k + 1 := ⟨fg - 1, by omega⟩
    rw [relink] at h
    rw [loop_succ]
    -- read the bucket entry
    obtain ⟨d1, r1, hd1⟩ := htx_step (t' := t) hd rfl rfl (fun pos => (hx hash pos).1)
    rw [DbM.bind_some r1, DbM.bind_some (DbM.keyLen_apply d1)]
    split at h
    · cases h
    · next prev hpred =>
      have hlen : t.kf.slots.length + 1 ≤ d1.key.bytes.length + 1 := by
        rw [hd1.2.1]
        show _ ≤ (renderKeyFile kt.sig t.kf).length + 1
        rw [kg.len]
        have := kg.ok.wf.length_le
        omega
      obtain ⟨cur', d2, r2, k2, x2, v2⟩ := predLoop_img kg old _ _ _ _ _ d1 hlen hpred hd1.2.1
      have hd2 : d2.IsImage kt t := ⟨by rw [x2]; exact hd1.1, k2, by rw [v2]; exact hd1.2.2⟩
      rw [DbM.bind_some r2]
      simp only []
      by_cases hp0 : prev = 0
      · rw [if_pos hp0] at h
        simp only [Option.some.injEq] at h
        subst h
        have hb : (prev == 0) = true := by simp [hp0]
        rw [hb]
        simp only [if_true]
        obtain ⟨d3, r3, hd3⟩ := htx_step (t' := t.writeHead (hash % t.n) new) hd2 rfl rfl
          (fun pos => (hx hash pos).2 new (by omega))
        exact ⟨d3, r3, hd3, kg⟩
      · rw [if_neg hp0] at h
        have hb : (prev == 0) = false := by simp [hp0]
        rw [hb]
        simp only [Bool.false_eq_true, if_false]
        split at h
        · next sz0 pr hg =>
          simp only at h
          split at h
          · cases h
          · next p' kf' hrw =>
            have hprf := kg.fits_get hg
            have hfit : KeyRec.Fits { pr with next := new } :=
              ⟨hprf.1, hprf.2.1, hn, hprf.2.2.2.1, hn8⟩
            -- the end of the rewritten file is below the final one
            obtain ⟨o1, s1, f1, a1, a2, _⟩ :=
              rewrite_spec keyCfg_ok kg.ok.wf (RecFile.used_eq_some.mpr hg)
                (Store.keyNeed_legal { pr with next := new }) { pr with next := new }
            rw [hrw] at a1
            simp only [Option.some.injEq, Prod.mk.injEq] at a1
            obtain ⟨rfl, rfl⟩ := a1
            have hend : kf'.end_ < 2^32 := by
              split at h
              · simp only [Option.some.injEq] at h
                subst h; exact he
              · have := (relink_frame _ _ (t := { t with kf := kf' }) _ _ a2 h).1
                exact Nat.lt_of_le_of_lt this he
            obtain ⟨kg', _, sz, hg', hw⟩ := kg.rewrite hg hfit hrw hend
            obtain ⟨d3, r3, hd3⟩ := key_read hd2 (kg.readPiece hg)
            obtain ⟨d4, r4, hd4⟩ := key_step hd3 hw
            rw [DbM.bind_some r3]
            simp only []
            rw [DbM.bind_some r4]
            simp only []
            by_cases hpp : p' = prev
            · rw [if_pos hpp] at h
              simp only [Option.some.injEq] at h
              subst h
              have hb2 : (p' == prev) = true := by simp [hpp]
              rw [hb2]
              simp only [if_true]
              exact ⟨d4, rfl, hd4, kg'⟩
            · rw [if_neg hpp] at h
              have hb2 : (p' == prev) = false := by simp [hpp]
              rw [hb2]
              simp only [Bool.false_eq_true, if_false]
              have ho := kg'.off hg'
              exact ih fg' { t with kf := kf' } s' prev p' d4 (by omega) h he kg' (hx.setKf kf')
                (by omega) ho.1 hd4
        · cases h

end EU
end Abyss
