import Abyss.Lemmas.RaBufOps
import Abyss.FileM
/-!
# `read_fill_buffer` of the buffer in the flat-file view: the justification of `FileM.readFill`

The generated `Gen.vfReadFillBuffer` (vfile.rs `VarFile::read_fill_buffer` = `self.buf_file.read_fill_buffer()`) bottoms out in
the hand-written primitive `FileM.readFill`: cursor to the end of the file, bytes untouched.  Here the chunk-level model of the
call (`RaBuf.readFillBuffer`: `seek(End(0))`, then `fetch` over the file until the cache is full — loads, write-backs and
evictions included, under any fault schedule) is shown to do exactly that to the flat view `RaBuf.abs` of the buffer.
-/
namespace Abyss.RaBuf

/-- what a call may do to the buffer when it returns (`Ok` or `Err`): the invariant holds, the logical content, the
cursor and the configuration are what they were -/
def KeepsFlat (s : St) : Out Unit → Prop
  | .ok s' _ _ => Inv s' ∧ Same s s'
  | .err s' _ => Inv s' ∧ Same s s'
  | .hang _ _ => True

/-- the loop of `read_fill_buffer`: whatever is fetched, written back or evicted, the flat view stays -/
theorem fillAux_keeps (φ : Faults) : ∀ (fuel : Nat) (s : St) (k curr endPos : Nat), Inv s → endPos ≤ s.end_ →
    KeepsFlat s (fillAux φ fuel s k curr endPos) := by
  intro fuel
  induction fuel with
  | zero => intro s k curr endPos h _; exact ⟨h, Same.refl s⟩
  | succ fuel ih =>
    intro s k curr endPos h he
    unfold fillAux
    by_cases hc : curr < endPos
    · rw [if_pos hc]
      have hf := fetch_spec φ k curr h (Nat.le_trans (Nat.le_of_lt hc) he)
      cases hfe : fetch φ s k curr with
      | ok s' k' c =>
        rw [hfe] at hf
        obtain ⟨hi', hs', _, _⟩ := hf
        simp only [Out.bind]
        by_cases hm : s'.chunks.length < s'.max
        · rw [if_pos hm]
          have := ih s' k' (curr + s'.cs) endPos hi' (by rw [hs'.end_]; exact he)
          cases hr : fillAux φ fuel s' k' (curr + s'.cs) endPos with
          | ok s2 k2 u => rw [hr] at this; exact ⟨this.1, hs'.trans this.2⟩
          | err s2 k2 => rw [hr] at this; exact ⟨this.1, hs'.trans this.2⟩
          | hang s2 k2 => trivial
        · rw [if_neg hm]; exact ⟨hi', hs'⟩
      | err s' k' => rw [hfe] at hf; exact hf
      | hang s' k' => trivial
    · rw [if_neg hc]; exact ⟨h, Same.refl s⟩

/-- **`read_fill_buffer` in the flat-file view** (the justification of the primitive `FileM.readFill`): when the call
returns, `Ok` or `Err`, under any fault schedule, the buffered file is — as a flat file — the file before with the cursor
at its end: exactly what `FileM.readFill` makes of it.  (A call that does not return is the known finding
`C07:permille-hang`; it is excluded for the configurations the crate produces, `fetch_returns`.) -/
theorem readFillBuffer_flat (φ : Faults) {s : St} (k : Nat) (h : Inv s) :
    match readFillBuffer φ s k with
    | .ok s' _ _ => Inv s' ∧ FileM.readFill ⟨(abs s).bytes, (abs s).pos⟩ = some ((), ⟨(abs s').bytes, (abs s').pos⟩)
    | .err s' _ => Inv s' ∧ FileM.readFill ⟨(abs s).bytes, (abs s).pos⟩ = some ((), ⟨(abs s').bytes, (abs s').pos⟩)
    | .hang _ _ => True := by
  obtain ⟨hi, hpos, hlog, _, _, _⟩ := seekEnd0_spec h
  have hend : (seekEnd0 s).end_ = s.end_ := by
    rw [← logical_length (seekEnd0 s), hlog, logical_length]
  have hk := fillAux_keeps φ ((seekEnd0 s).end_ / (seekEnd0 s).cs + 1) (seekEnd0 s) k 0 (seekEnd0 s).end_ hi (Nat.le_refl _)
  have key : ∀ s', Same (seekEnd0 s) s' →
      FileM.readFill ⟨(abs s).bytes, (abs s).pos⟩ = some ((), ⟨(abs s').bytes, (abs s').pos⟩) := by
    intro s' hs
    show some ((), (⟨s.logical, s.logical.length⟩ : FileM.FSt)) = some ((), ⟨s'.logical, s'.pos⟩)
    rw [hs.logical, hs.pos, hlog, hpos, logical_length]
  unfold readFillBuffer
  simp only
  cases hr : fillAux φ ((seekEnd0 s).end_ / (seekEnd0 s).cs + 1) (seekEnd0 s) k 0 (seekEnd0 s).end_ with
  | ok s' k' u => rw [hr] at hk; exact ⟨hk.1, key s' hk.2⟩
  | err s' k' => rw [hr] at hk; exact ⟨hk.1, key s' hk.2⟩
  | hang s' k' => trivial

end Abyss.RaBuf
