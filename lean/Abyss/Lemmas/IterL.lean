import Abyss.Lemmas.ScanL
import Abyss.Lemmas.ChainL
import Mathlib.Data.List.Nodup
import Mathlib.Data.List.Perm.Basic
/-!
# The iterator visits the buckets in increasing order and every chain in chain order
(helper lemmas for C04)
-/
namespace Abyss
namespace Store

/-- the chain of bucket `b` (`[]` when it is broken, which the invariant excludes) -/
def chainOf (s : Store) (b : Nat) : List (Nat × KeyRec) := (s.chain b).getD []

/-- the traversal order from bucket `i` on: the chains of the buckets `i, i+1, …, n-1` -/
def restFrom (s : Store) (i : Nat) : List (Nat × KeyRec) :=
  (List.range' i (s.n - i)).flatMap (chainOf s)

/-- what the iterator yields for the key record `p` -/
def kvOf (s : Store) (p : Nat × KeyRec) : List Nat × List Nat :=
  (p.2.key, ((s.vf.used p.2.valOff).map (·.2)).getD [])

/-! ## the expected sequence -/

theorem restFrom_ge (s : Store) {i : Nat} (h : s.n ≤ i) : restFrom s i = [] := by
  have e : s.n - i = 0 := by omega
  simp [restFrom, e]

theorem restFrom_step (s : Store) {i : Nat} (h : i < s.n) :
    restFrom s i = chainOf s i ++ restFrom s (i + 1) := by
  have e : s.n - i = (s.n - (i + 1)) + 1 := by omega
  unfold restFrom
  rw [e, List.range'_succ, List.flatMap_cons]

theorem firstNonEmpty_some {head : Nat → Nat} {idx n j : Nat} (h : firstNonEmpty head idx n = some j) :
    idx ≤ j ∧ j < n ∧ head j ≠ 0 := by
  unfold firstNonEmpty at h
  have h1 := List.find?_some h
  have h2 := List.mem_of_find?_eq_some h
  rw [List.mem_range'_1] at h2
  refine ⟨h2.1, by omega, by simpa using h1⟩

/-- the chains of the buckets skipped by the scan are empty -/
theorem restFrom_first (s : Store) (hE : ∀ b, b < s.n → s.headOf b = 0 → chainOf s b = []) :
    ∀ (d i : Nat), s.n - i = d → i ≤ s.n →
      (∀ j, firstNonEmpty s.headOf i s.n = some j → restFrom s i = chainOf s j ++ restFrom s (j + 1)) ∧
      (firstNonEmpty s.headOf i s.n = none → restFrom s i = []) := by
  intro d
  induction d with
  | zero =>
    intro i h1 h2
    have e : i = s.n := by omega
    subst e
    refine ⟨?_, fun _ => restFrom_ge s (Nat.le_refl _)⟩
    intro j hj
    rw [firstNonEmpty_self] at hj
    cases hj
  | succ d ih =>
    intro i h1 h2
    have hlt : i < s.n := by omega
    rw [firstNonEmpty_step s.headOf hlt, restFrom_step s hlt]
    by_cases h0 : s.headOf i = 0
    · obtain ⟨a1, a2⟩ := ih (i + 1) (by omega) (by omega)
      simp only [h0, ne_eq, not_true_eq_false, if_false]
      rw [hE i hlt h0]
      exact ⟨fun j hj => by simpa using a1 j hj, fun hn => by simpa using a2 hn⟩
    · simp only [ne_eq, h0, not_false_eq_true, if_true]
      refine ⟨?_, fun hn => by cases hn⟩
      intro j hj
      cases hj
      rfl

/-! ## `advanceBuckets` -/

theorem advanceBuckets_stop (s : Store) (n fuel idx off : Nat) (h : off ≠ 0 ∨ n ≤ idx) :
    advanceBuckets s n fuel idx off = (idx, off) := by
  cases fuel with
  | zero => rfl
  | succ f =>
    unfold advanceBuckets
    have : ¬ (off = 0 ∧ idx < n) := by omega
    rw [if_neg this]

theorem advanceBuckets_spec (s : Store) (hb : ∀ b, s.bitOf b = decide (s.headOf b ≠ 0))
    (hl : ∀ b, s.n ≤ b → s.headOf b = 0) (i : Nat) (hi : i ≤ s.n) :
    advanceBuckets s s.n (s.n + 1) i 0 =
      match firstNonEmpty s.headOf i s.n with
      | some j => (j + 1, s.headOf j)
      | none => (s.n, 0) := by
  by_cases hlt : i < s.n
  · have hsp := nextKeyPieceOffset_spec s.bitOf s.headOf s.n i hlt
      (fun b _ => by rw [hb b]; simp)
      (fun b hb' => by rw [hb b, hl b hb']; simp)
    unfold advanceBuckets
    rw [if_pos ⟨rfl, hlt⟩, hsp]
    cases hf : firstNonEmpty s.headOf i s.n with
    | none =>
      simp only
      exact advanceBuckets_stop s s.n s.n s.n 0 (Or.inr (Nat.le_refl _))
    | some j =>
      simp only
      exact advanceBuckets_stop s s.n s.n (j + 1) (s.headOf j) (Or.inl (firstNonEmpty_some hf).2.2)
  · have e : i = s.n := by omega
    subst e
    rw [firstNonEmpty_self]
    exact advanceBuckets_stop s s.n _ s.n 0 (Or.inr (Nat.le_refl _))

/-! ## one call of `next_piece_offset` -/

/-- the part of `iterNextOffset` after the `next` field of the current record has been read -/
def iterFinish (s : Store) (it : IterState) (ko : Nat) : Option (IterState × Option Nat) :=
  let (idx, ko2) :=
    if ko = 0 then advanceBuckets s it.bucketsSize (it.bucketsSize + 1) it.bucketsIdx ko
    else (it.bucketsIdx, ko)
  let it2 := { it with bucketsIdx := idx, keyOff := ko2 }
  if ko2 = 0 ∨ it.remaining = 0 then some (it2, none)
  else some ({ it2 with remaining := it.remaining - 1 }, some ko2)

theorem iterNextOffset_zero (s : Store) (it : IterState) (h : it.keyOff = 0) :
    s.iterNextOffset it = iterFinish s it 0 := by
  simp [iterNextOffset, iterFinish, h]

theorem iterNextOffset_used (s : Store) (it : IterState) (sz : Nat) (r : KeyRec) (h : it.keyOff ≠ 0)
    (hg : s.kf.get it.keyOff = some (.used sz r)) :
    s.iterNextOffset it = iterFinish s it r.next := by
  simp [iterNextOffset, iterFinish, h, hg]

theorem iterFinish_nonzero (s : Store) (it : IterState) (ko : Nat) (h : ko ≠ 0) (hr : it.remaining ≠ 0) :
    iterFinish s it ko =
      some (⟨it.remaining - 1, it.bucketsSize, it.bucketsIdx, ko⟩, some ko) := by
  simp [iterFinish, h, hr]

theorem iterFinish_adv (s : Store) (it : IterState) (idx ko2 : Nat)
    (ha : advanceBuckets s it.bucketsSize (it.bucketsSize + 1) it.bucketsIdx 0 = (idx, ko2)) :
    iterFinish s it 0 =
      if ko2 = 0 ∨ it.remaining = 0 then some (⟨it.remaining, it.bucketsSize, idx, ko2⟩, none)
      else some (⟨it.remaining - 1, it.bucketsSize, idx, ko2⟩, some ko2) := by
  simp [iterFinish, ha]

/-- the iterator stands in bucket-order position `i` (buckets `< i` are done), and the rest of the
chain it is in is `c` (`keyOff = 0`: it is in no chain) -/
structure At (s : Store) (it : IterState) (c : List (Nat × KeyRec)) (i : Nat) : Prop where
  size : it.bucketsSize = s.n
  idx : it.bucketsIdx = i
  le : i ≤ s.n
  cur : (it.keyOff = 0 ∧ c = []) ∨
    (it.keyOff ≠ 0 ∧ ∃ sz r, s.kf.get it.keyOff = some (.used sz r) ∧ segFrom s.kf c r.next 0)

/-- what the state machine needs of the invariant -/
structure Good (s : Store) : Prop where
  bits_ok : ∀ b, s.bitOf b = decide (s.headOf b ≠ 0)
  heads_lt : ∀ b, s.n ≤ b → s.headOf b = 0
  seg : ∀ b, b < s.n → segFrom s.kf (chainOf s b) (s.headOf b) 0

theorem Good.empty {s : Store} (g : Good s) (b : Nat) (hb : b < s.n) (h0 : s.headOf b = 0) :
    chainOf s b = [] := by
  have := g.seg b hb
  cases hc : chainOf s b with
  | nil => rfl
  | cons p t =>
    obtain ⟨o, r⟩ := p
    rw [hc] at this
    obtain ⟨a1, a2, _⟩ := this
    omega

theorem At.end_ {s : Store} (m : Nat) : At s ⟨m, s.n, s.n, 0⟩ [] s.n :=
  ⟨rfl, rfl, Nat.le_refl _, Or.inl ⟨rfl, rfl⟩⟩

/-- one call: it yields the head of the not yet visited part `c ++ restFrom s i`, or nothing when
that is empty -/
theorem iterNextOffset_step {s : Store} (g : Good s) {it : IterState} {c : List (Nat × KeyRec)} {i : Nat}
    (hat : At s it c i) :
    (c ++ restFrom s i = [] → s.iterNextOffset it = some (⟨it.remaining, s.n, s.n, 0⟩, none)) ∧
    (∀ o r rest', c ++ restFrom s i = (o, r) :: rest' → it.remaining ≠ 0 →
      ∃ it', s.iterNextOffset it = some (it', some o) ∧ it'.remaining = it.remaining - 1 ∧
        (∃ sz, s.kf.used o = some (sz, r)) ∧
        ∃ c' i', At s it' c' i' ∧ rest' = c' ++ restFrom s i') := by
  obtain ⟨m, n, bi, k⟩ := it
  obtain ⟨hsize, hidx, hle, hcur⟩ := hat
  simp only at hsize hidx hcur
  subst hsize hidx
  -- the offset read from the current record, and the rest of the chain
  have key : ∃ ko, s.iterNextOffset ⟨m, s.n, bi, k⟩ = iterFinish s ⟨m, s.n, bi, k⟩ ko ∧ segFrom s.kf c ko 0 := by
    rcases hcur with ⟨h0, hc⟩ | ⟨hne, sz, r, hg, hseg⟩
    · exact ⟨0, iterNextOffset_zero s _ h0, by rw [hc]; rfl⟩
    · exact ⟨r.next, iterNextOffset_used s _ sz r hne hg, hseg⟩
  obtain ⟨ko, hko, hseg⟩ := key
  rw [hko]
  cases c with
  | cons p c' =>
    obtain ⟨o, r⟩ := p
    obtain ⟨a1, a2, ⟨sz, a3⟩, a4⟩ := hseg
    subst a1
    refine ⟨fun h => by simp at h, ?_⟩
    intro o' r' rest' he hm
    simp only [List.cons_append, List.cons.injEq, Prod.mk.injEq] at he
    obtain ⟨⟨e1, e2⟩, e3⟩ := he
    subst e1 e2 e3
    refine ⟨_, iterFinish_nonzero s _ ko a2 hm, rfl, ⟨sz, a3⟩, c', bi, ?_, rfl⟩
    exact ⟨rfl, rfl, hle, Or.inr ⟨a2, sz, r, get_of_used _ _ _ _ a3, a4⟩⟩
  | nil =>
    simp only [segFrom] at hseg
    subst hseg
    have hadv := advanceBuckets_spec s g.bits_ok g.heads_lt bi hle
    obtain ⟨f1, f2⟩ := restFrom_first s g.empty (s.n - bi) bi rfl hle
    cases hf : firstNonEmpty s.headOf bi s.n with
    | none =>
      rw [hf] at hadv
      simp only at hadv
      have hr := f2 hf
      rw [iterFinish_adv s _ _ _ hadv]
      simp only [List.nil_append, hr]
      refine ⟨fun _ => by simp, fun o r rest' he => by cases he⟩
    | some j =>
      rw [hf] at hadv
      simp only at hadv
      obtain ⟨b1, b2, b3⟩ := firstNonEmpty_some hf
      have hr := f1 j hf
      rw [iterFinish_adv s _ _ _ hadv]
      have hsg := g.seg j b2
      simp only [List.nil_append, hr]
      cases hc : chainOf s j with
      | nil =>
        rw [hc] at hsg
        simp only [segFrom] at hsg
        exact absurd hsg b3
      | cons p c' =>
        obtain ⟨o, r⟩ := p
        rw [hc] at hsg
        obtain ⟨a1, a2, ⟨sz, a3⟩, a4⟩ := hsg
        refine ⟨fun h => by simp at h, ?_⟩
        intro o' r' rest' he hm
        simp only [List.cons_append, List.cons.injEq, Prod.mk.injEq] at he
        obtain ⟨⟨e1, e2⟩, e3⟩ := he
        subst e1 e2 e3
        have hm' : m ≠ 0 := hm
        refine ⟨⟨m - 1, s.n, j + 1, s.headOf j⟩, ?_, rfl, ⟨sz, a3⟩, c', j + 1, ?_, rfl⟩
        · simp [hm', a1, a2]
        · refine ⟨rfl, rfl, b2, Or.inr ⟨b3, sz, r, ?_, a4⟩⟩
          show s.kf.get (s.headOf j) = _
          rw [a1]; exact get_of_used _ _ _ _ a3

/-! ## `next()`, the whole traversal -/

theorem iterNext_none (s : Store) (it it' : IterState) (h : s.iterNextOffset it = some (it', none)) :
    s.iterNext it = some (it', none) := by
  simp [iterNext, h]

theorem iterNext_some (s : Store) (it it' : IterState) (o sz vs : Nat) (r : KeyRec) (v : List Nat)
    (h : s.iterNextOffset it = some (it', some o)) (hu : s.kf.used o = some (sz, r))
    (hv : s.vf.used r.valOff = some (vs, v)) :
    s.iterNext it = some (it', some (kvOf s (o, r))) := by
  simp [iterNext, h, loadValue, get_of_used _ _ _ _ hu, get_of_used _ _ _ _ hv, kvOf, hv]

/-- at the end a further call returns `none` and stays at the end -/
theorem iterNext_end {s : Store} (g : Good s) (it : IterState) (hat : At s it [] s.n) :
    ∃ it', s.iterNext it = some (it', none) ∧ At s it' [] s.n := by
  have h1 := (iterNextOffset_step g hat).1 (by simp [restFrom_ge s (Nat.le_refl _)])
  exact ⟨_, iterNext_none s _ _ h1, At.end_ _⟩

theorem hints_cons (n : Nat) :
    (List.range (n + 1 + 1)).map (fun j => n + 1 - j) = (n + 1) :: (List.range (n + 1)).map (fun j => n - j) := by
  rw [List.range_succ_eq_map, List.map_cons, List.map_map]
  congr 1
  apply List.map_congr_left
  intro j _
  simp

/-- the traversal from a position with `rest` still to visit yields `rest`, with the size hints
`|rest|, …, 0`, and ends at the end -/
theorem iterCollect_spec {s : Store} (g : Good s)
    (hv : ∀ o sz r, s.kf.used o = some (sz, r) → ∃ vs v, s.vf.used r.valOff = some (vs, v)) :
    ∀ (rest : List (Nat × KeyRec)) (it : IterState) (c : List (Nat × KeyRec)) (i fuel : Nat),
      At s it c i → c ++ restFrom s i = rest → it.remaining = rest.length → rest.length < fuel →
      ∃ itEnd, s.iterCollect fuel it =
          some (rest.map (kvOf s), (List.range (rest.length + 1)).map (fun j => rest.length - j), itEnd) ∧
        At s itEnd [] s.n := by
  intro rest
  induction rest with
  | nil =>
    intro it c i fuel hat he hm hf
    obtain _ | f := fuel
    · simp at hf
    have h1 := iterNext_none s _ _ ((iterNextOffset_step g hat).1 he)
    refine ⟨_, ?_, At.end_ it.remaining⟩
    simp only [List.length_nil] at hm
    simp [iterCollect, h1, hm]
  | cons p rest' ih =>
    obtain ⟨o, r⟩ := p
    intro it c i fuel hat he hm hf
    obtain _ | f := fuel
    · simp at hf
    simp only [List.length_cons] at hm hf
    obtain ⟨it', h1, h2, ⟨sz, h3⟩, c', i', hat', he'⟩ :=
      (iterNextOffset_step g hat).2 o r rest' he (by omega)
    obtain ⟨vs, v, h4⟩ := hv o sz r h3
    have hn := iterNext_some s it it' o sz vs r v h1 h3 h4
    obtain ⟨itEnd, hc, hend⟩ := ih it' c' i' f hat' he'.symm (by omega) (by omega)
    refine ⟨itEnd, ?_, hend⟩
    simp only [iterCollect, hn, hc, List.map_cons, List.length_cons, hints_cons, hm]

/-! ## the expected sequence is the content of the map -/

theorem chainOf_spec {kt : KeyType} {s : Store} (h : Inv kt s) {b : Nat} (hb : b < s.n) :
    s.chain b = some (chainOf s b) := by
  obtain ⟨l, hl, _⟩ := h.chains b hb
  simp [chainOf, hl]

theorem good_of_inv {kt : KeyType} {s : Store} (h : Inv kt s) : Good s :=
  ⟨h.bits_ok, h.heads_lt, fun _ hb => chainFrom_seg _ _ _ _ (chainOf_spec h hb)⟩

theorem mem_restFrom_zero (s : Store) (p : Nat × KeyRec) :
    p ∈ restFrom s 0 ↔ ∃ b, b < s.n ∧ p ∈ chainOf s b := by
  simp [restFrom, List.mem_flatMap, List.mem_range'_1]

/-- the expected sequence holds exactly the used key records -/
theorem restFrom_zero_mem {kt : KeyType} {s : Store} (h : Inv kt s) (o : Nat) (r : KeyRec) :
    (o, r) ∈ restFrom s 0 ↔ ∃ sz, s.kf.used o = some (sz, r) := by
  rw [mem_restFrom_zero]
  constructor
  · rintro ⟨b, hb, hp⟩
    exact seg_used _ _ _ _ ((good_of_inv h).seg b hb) (o, r) hp
  · rintro ⟨sz, hu⟩
    obtain ⟨l, hl, hm⟩ := h.on_chain o sz r hu (used_ne_zero h hu)
    have hb : bucketOf r.key s.n < s.n := Nat.mod_lt _ h.npos
    rw [chainOf_spec h hb] at hl
    cases hl
    exact ⟨_, hb, hm⟩

theorem restFrom_zero_nodup {kt : KeyType} {s : Store} (h : Inv kt s) : (restFrom s 0).Nodup := by
  unfold restFrom
  rw [List.nodup_flatMap]
  constructor
  · intro b hb
    rw [List.mem_range'_1] at hb
    obtain ⟨l, hl, hn, _⟩ := h.chains b (by omega)
    rw [chainOf_spec h (by omega)] at hl
    cases hl
    exact List.Nodup.of_map _ hn
  · have hp := List.Pairwise.and_mem.mp (List.nodup_range' (s := 0) (n := s.n - 0) 1)
    refine List.Pairwise.imp ?_ hp
    rintro b b' ⟨hb, hb', hne⟩ p hp1 hp2
    rw [List.mem_range'_1] at hb hb'
    obtain ⟨l, hl, _, hk⟩ := h.chains b (by omega)
    rw [chainOf_spec h (by omega)] at hl
    cases hl
    obtain ⟨l', hl', _, hk'⟩ := h.chains b' (by omega)
    rw [chainOf_spec h (by omega)] at hl'
    cases hl'
    exact hne ((hk p hp1).1.symm.trans (hk' p hp2).1)

theorem restFrom_zero_keys_nodup {kt : KeyType} {s : Store} (h : Inv kt s) :
    (((restFrom s 0).map (kvOf s)).map Prod.fst).Nodup := by
  rw [List.map_map]
  refine List.Nodup.map_on ?_ (restFrom_zero_nodup h)
  rintro ⟨o, r⟩ hx ⟨o', r'⟩ hy hk
  simp only [Function.comp, kvOf] at hk
  obtain ⟨sz, hu⟩ := (restFrom_zero_mem h o r).mp hx
  obtain ⟨sz', hu'⟩ := (restFrom_zero_mem h o' r').mp hy
  have e := h.keys_inj o o' sz sz' r r' hu hu' hk
  subst e
  rw [hu] at hu'
  cases hu'
  rfl

theorem restFrom_zero_perm {kt : KeyType} {s : Store} (h : Inv kt s) :
    ((restFrom s 0).map (kvOf s)).Perm (abs s) := by
  have hnd1 := List.Nodup.of_map _ (restFrom_zero_keys_nodup h)
  have hnd2 : (abs s).Nodup := List.Nodup.of_map _ (abs_nodup h)
  rw [List.perm_ext_iff_of_nodup hnd1 hnd2]
  rintro ⟨k, v⟩
  rw [List.mem_map, abs_mem_iff h]
  constructor
  · rintro ⟨⟨o, r⟩, hm, he⟩
    obtain ⟨sz, hu⟩ := (restFrom_zero_mem h o r).mp hm
    obtain ⟨vs, v', hv⟩ := h.val_used o sz r hu
    simp only [kvOf, hv, Option.map_some, Option.getD_some, Prod.mk.injEq] at he
    obtain ⟨e1, e2⟩ := he
    subst e1 e2
    exact ⟨r.valOff, vs, ⟨o, sz, r, hu, rfl, rfl⟩, hv⟩
  · rintro ⟨vo, vs, ⟨o, sz, r, hu, hk, hvo⟩, hv⟩
    refine ⟨(o, r), (restFrom_zero_mem h o r).mpr ⟨sz, hu⟩, ?_⟩
    subst hk hvo
    simp [kvOf, hv]

theorem restFrom_zero_length {kt : KeyType} {s : Store} (h : Inv kt s) :
    (restFrom s 0).length = s.count := by
  have := (restFrom_zero_perm h).length_eq
  rw [List.length_map] at this
  rw [this, ← abs_len h]; rfl

/-- the whole traversal on a state satisfying the invariant -/
theorem iterAll_spec {kt : KeyType} {s : Store} (h : Inv kt s) :
    ∃ itEnd, s.iterAll =
        some ((restFrom s 0).map (kvOf s), (List.range (s.count + 1)).map (fun j => s.count - j), itEnd) ∧
      At s itEnd [] s.n := by
  have hlen := restFrom_zero_length h
  have hat : At s s.iterNew [] 0 := ⟨rfl, rfl, Nat.zero_le _, Or.inl ⟨rfl, rfl⟩⟩
  have := iterCollect_spec (good_of_inv h) h.val_used (restFrom s 0) s.iterNew [] 0 (s.count + 2) hat
    rfl (by rw [hlen]; rfl) (by omega)
  rw [hlen] at this
  exact this

end Store
end Abyss
