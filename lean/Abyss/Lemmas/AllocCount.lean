import Abyss.Lemmas.AllocL
/-!
# Counting slots by size: how `set` changes the number of slots / used slots of each size
-/
namespace Abyss
variable {α : Type}

/-- slots of a tiled list do not overlap -/
theorem Tiled.no_overlap {l : List (Nat × Slot α)} {a b : Nat} (h : Tiled l a b) {o o' : Nat} {s s' : Slot α}
    (h1 : aget l o = some s) (h2 : aget l o' = some s') (hlt : o < o') : o + s.size ≤ o' := by
  induction l generalizing a with
  | nil => simp [aget] at h1
  | cons p rest ih =>
    obtain ⟨o0, s0⟩ := p
    obtain ⟨e, hp, h3⟩ := h
    by_cases h0 : o0 = o
    · have h0' : ¬ o0 = o' := by omega
      simp only [aget, h0, if_true, Option.some.injEq] at h1
      subst h1
      simp only [aget, h0', if_false] at h2
      have := h3.bounds h2
      omega
    · simp only [aget, h0, if_false] at h1
      have b1 := h3.bounds h1
      have h0' : ¬ o0 = o' := by omega
      simp only [aget, h0', if_false] at h2
      exact ih h3 h1 h2

namespace RecFile

/-- "used slot of size `sz`" -/
def Slot.usedSz (sz : Nat) : Slot α → Bool
  | .used s _ => decide (s = sz)
  | _ => false

/-- number of slots of size `sz` -/
def sizeCount (f : RecFile α) (sz : Nat) : Nat := (f.slots.filter fun p => decide (p.2.size = sz)).length
/-- number of used slots of size `sz` -/
def usedSizeCount (f : RecFile α) (sz : Nat) : Nat := (f.slots.filter fun p => Slot.usedSz sz p.2).length

@[simp] theorem setHead_sizeCount (c : FileCfg) (f : RecFile α) (s v sz : Nat) :
    sizeCount (setHead c f s v) sz = sizeCount f sz := rfl
@[simp] theorem setHead_usedSizeCount (c : FileCfg) (f : RecFile α) (s v sz : Nat) :
    usedSizeCount (setHead c f s v) sz = usedSizeCount f sz := rfl

/-- overwriting a slot by one of the same size keeps the number of slots of each size -/
theorem sizeCount_set_same {f : RecFile α} {o : Nat} {w v : Slot α} (hg : f.get o = some w)
    (hs : v.size = w.size) (sz : Nat) : sizeCount (f.set o v) sz = sizeCount f sz := by
  have := count_upsert_some (fun s : Slot α => decide (s.size = sz)) v hg
  simp only [hs] at this
  unfold sizeCount
  show ((upsert f.slots o v).filter fun p => decide (p.2.size = sz)).length = _
  omega

theorem sizeCount_set_none {f : RecFile α} {o : Nat} (v : Slot α) (hg : f.get o = none) (sz : Nat) :
    sizeCount (f.set o v) sz = sizeCount f sz + (if v.size = sz then 1 else 0) := by
  have := count_upsert_none (fun s : Slot α => decide (s.size = sz)) v hg
  simp only [decide_eq_true_eq] at this
  exact this

theorem usedSizeCount_set_none {f : RecFile α} {o : Nat} (v : Slot α) (hg : f.get o = none) (sz : Nat) :
    usedSizeCount (f.set o v) sz = usedSizeCount f sz + (if Slot.usedSz sz v then 1 else 0) :=
  count_upsert_none (Slot.usedSz sz) v hg

/-- when no free slot has size `sz`, all slots of that size are in use -/
theorem sizeCount_eq_used {c : FileCfg} {f : RecFile α} (h : WF c f) (sz : Nat)
    (hfree : ∀ o nx, f.get o ≠ some (.free sz nx)) : sizeCount f sz = usedSizeCount f sz := by
  unfold sizeCount usedSizeCount
  congr 1
  apply List.filter_congr
  intro p hp
  have hg : f.get p.1 = some p.2 := h.tiled.aget_of_mem hp
  cases hs : p.2 with
  | used s q => rfl
  | free s nx =>
    simp only [Slot.size, Slot.usedSz]
    show decide (s = sz) = false
    rw [decide_eq_false_iff_not]
    intro e
    rw [hs, e] at hg
    exact hfree _ _ hg

/-- an empty class list means there is no free slot of that size -/
theorem no_free_of_head_zero {c : FileCfg} {f : RecFile α} (h : WF c f) {sz : Nat}
    (hd0 : headOf c f sz = 0) : ∀ o nx, f.get o ≠ some (.free sz nx) := by
  intro o nx hg
  obtain ⟨l, hl, hm⟩ := h.onlist o sz nx hg
  have e : f.heads.getD (headIdx c sz) 0 = 0 := hd0
  unfold freeList at hl
  rw [e] at hl
  simp only [freeChain, if_true, Option.some.injEq] at hl
  subst hl
  simp at hm

/-- `pushFree` of a used slot keeps the number of slots of each size -/
theorem sizeCount_pushFree {c : FileCfg} {f : RecFile α} (hc : CfgOK c) (h : WF c f) {off sz0 : Nat} {p0 : α}
    (hg : f.get off = some (.used sz0 p0)) (sz : Nat) :
    sizeCount (pushFree c f off sz0) sz = sizeCount f sz := by
  have hb := h.tiled.bounds hg
  have hpos := hc.hdr_pos
  have h0 : off ≠ 0 := by omega
  unfold pushFree
  rw [if_neg h0]
  simp only [setHead_sizeCount]
  exact sizeCount_set_same (v := .free sz0 (headOf c f sz0)) hg rfl sz

/-- `addPiece` for a small class: either one slot of size `need` is appended, and then all slots of
that size are in use afterwards; or no count changes -/
theorem addPiece_small_count {c : FileCfg} {f f' : RecFile α} (h : WF c f) {need off : Nat}
    (hsmall : Gen.isLargePieceSize c.sizeAry need = false) {p : α}
    (hadd : addPiece c f need p = some (off, f')) :
    (sizeCount f' need = usedSizeCount f' need ∧ ∀ sz, sz ≠ need → sizeCount f' sz = sizeCount f sz) ∨
    (∀ sz, sizeCount f' sz = sizeCount f sz) := by
  unfold addPiece allocSlot popFree at hadd
  simp only [hsmall, Bool.false_eq_true, if_false] at hadd
  by_cases hd0 : headOf c f need = 0
  · simp only [hd0, if_true, ne_eq, not_true_eq_false, if_false, Option.some.injEq, Prod.mk.injEq] at hadd
    obtain ⟨_, rfl⟩ := hadd
    left
    have hend : f.get f.end_ = none := h.tiled.aget_end
    constructor
    · rw [sizeCount_set_none _ hend, usedSizeCount_set_none _ hend,
        sizeCount_eq_used h need (no_free_of_head_zero h hd0)]
      simp [Slot.size, Slot.usedSz]
    · intro sz hsz
      rw [sizeCount_set_none _ hend]
      simp [Slot.size, Ne.symm hsz]
  · right
    simp only [hd0, if_false] at hadd
    cases hg : f.get (headOf c f need) with
    | none => simp [hg] at hadd
    | some s =>
      cases s with
      | used s q => simp [hg] at hadd
      | free s nx =>
        simp only [hg, ne_eq, hd0, not_false_eq_true, if_true, get_set_self, Slot.size,
          Option.some.injEq, Prod.mk.injEq] at hadd
        obtain ⟨_, rfl⟩ := hadd
        intro sz
        have hg1 : (setHead c f need nx).get (headOf c f need) = some (.free s nx) := hg
        rw [sizeCount_set_same (w := .free s 0) (v := .used s p) (get_set_self _ _ _) rfl,
          sizeCount_set_same (v := .free s 0) hg1 rfl, setHead_sizeCount]

end RecFile
end Abyss
