import Abyss.Sized
import Abyss.Props.C01
import Abyss.Props.C09
/-!
# Bounds on offsets, links and slot sizes in a well-formed state (helpers for `renderable_of_sized`)
-/
namespace Abyss
variable {α : Type}

/-- what the two record-file layouts have in common for the size/offset bounds -/
structure Cfg8 (c : FileCfg) : Prop where
  ok : CfgOK c
  hdr : 8 ∣ c.headerSz
  legal : ∀ sz, LegalSz c sz → 8 ∣ sz ∧ 16 ≤ sz

theorem keyCfg8 : Cfg8 keyCfg := by
  refine ⟨keyCfg_ok, by decide, ?_⟩
  intro sz h
  rcases h with h | ⟨h1, h2⟩
  · have : ∀ x ∈ keyCfg.sizeAry, 8 ∣ x ∧ 16 ≤ x := by decide
    exact this sz h
  · omega

theorem valCfg8 : Cfg8 valCfg := by
  refine ⟨valCfg_ok, by decide, ?_⟩
  intro sz h
  rcases h with h | ⟨h1, h2⟩
  · have : ∀ x ∈ valCfg.sizeAry, 8 ∣ x ∧ 16 ≤ x := by decide
    exact this sz h
  · omega

theorem Tiled.off_dvd {l : List (Nat × Slot α)} {a b : Nat} (h : Tiled l a b) (ha : 8 ∣ a)
    (hs : ∀ p ∈ l, 8 ∣ p.2.size) : ∀ p ∈ l, 8 ∣ p.1 := by
  induction l generalizing a with
  | nil => intro p hp; cases hp
  | cons q t ih =>
    obtain ⟨o, s⟩ := q
    obtain ⟨ho, _, ht⟩ := h
    intro p hp
    rcases List.mem_cons.mp hp with rfl | hp
    · simpa [ho] using ha
    · have h8 : 8 ∣ s.size := hs (o, s) List.mem_cons_self
      exact ih ht (by omega) (fun p hp => hs p (List.mem_cons_of_mem _ hp)) p hp

theorem Tiled.length_le {l : List (Nat × Slot α)} {a b : Nat} (h : Tiled l a b) : a + l.length ≤ b := by
  induction l generalizing a with
  | nil => simp [Tiled] at h; simp [h]
  | cons q t ih =>
    obtain ⟨o, s⟩ := q
    obtain ⟨_, hs, ht⟩ := h
    have := ih ht
    simp only [List.length_cons]
    omega

namespace RecFile

theorem WF.off_dvd {c : FileCfg} {f : RecFile α} (h8 : Cfg8 c) (h : WF c f) {o : Nat} {sl : Slot α}
    (hg : f.get o = some sl) : 8 ∣ o := by
  have hm : (o, sl) ∈ f.slots := Store.mem_slots_of_get f o sl hg
  refine h.tiled.off_dvd h8.hdr ?_ (o, sl) hm
  intro p hp
  exact (h8.legal _ (h.sizes p.1 p.2 (h.tiled.aget_of_mem hp))).1

theorem WF.lt_end {c : FileCfg} {f : RecFile α} (h8 : Cfg8 c) (h : WF c f) {o : Nat} {sl : Slot α}
    (hg : f.get o = some sl) : o < f.end_ := by
  have := WF.get_bounds h8.ok h hg
  omega

theorem WF.legalSize {c : FileCfg} {f : RecFile α} (h8 : Cfg8 c) (h : WF c f) {o : Nat} {sl : Slot α}
    (hg : f.get o = some sl) (he : f.end_ < 2^32) : LegalSize sl.size := by
  have hb := WF.get_bounds h8.ok h hg
  have hl := h8.legal _ (h.sizes o sl hg)
  exact ⟨hl.1, hl.2, by omega⟩

theorem mem_heads_getD {l : List Nat} {x : Nat} (hx : x ∈ l) : ∃ i, i < l.length ∧ l.getD i 0 = x := by
  obtain ⟨i, hi, e⟩ := List.mem_iff_getElem.mp hx
  exact ⟨i, hi, by simp [List.getD, hi, e]⟩

/-- a free-list head is 0 or the offset of a slot -/
theorem WF.head_lt {c : FileCfg} {f : RecFile α} (h8 : Cfg8 c) (h : WF c f) : ∀ x ∈ f.heads, x ≤ f.end_ := by
  intro x hx
  obtain ⟨i, hi, e⟩ := mem_heads_getD hx
  rw [h.heads_len] at hi
  obtain ⟨l, hl, _, _⟩ := h.lists i hi
  unfold freeList at hl
  rw [e] at hl
  obtain ⟨hc, _⟩ := (freeChain_iff _ _ _ _).mp hl
  cases l with
  | nil => have : x = 0 := hc; omega
  | cons o l =>
    obtain ⟨_, _, sz, nx, hg, _⟩ := hc
    exact Nat.le_of_lt (h.lt_end h8 hg)

theorem IsChain.next_free {f : RecFile α} {hd : Nat} {l : List Nat} (a : IsChain f hd l) {o sz nx : Nat}
    (ho : o ∈ l) (hg : f.get o = some (.free sz nx)) :
    nx = 0 ∨ ∃ sz' nx', f.get nx = some (.free sz' nx') := by
  induction l generalizing hd with
  | nil => cases ho
  | cons o' l ih =>
    obtain ⟨h0, rfl, sz1, nx1, hg1, hc⟩ := a
    rcases List.mem_cons.mp ho with e | ho'
    · subst e
      rw [hg1] at hg
      simp only [Option.some.injEq, Slot.free.injEq] at hg
      obtain ⟨_, rfl⟩ := hg
      cases l with
      | nil => left; exact hc
      | cons o2 l2 =>
        obtain ⟨_, _, sz2, nx2, hg2, _⟩ := hc
        exact Or.inr ⟨sz2, nx2, hg2⟩
    · exact ih hc ho'

/-- the link of a free slot is 0 or the offset of a slot -/
theorem WF.free_next_lt {c : FileCfg} {f : RecFile α} (h8 : Cfg8 c) (h : WF c f) {o sz nx : Nat}
    (hg : f.get o = some (.free sz nx)) : nx ≤ f.end_ := by
  obtain ⟨l, hl, ho⟩ := h.onlist o sz nx hg
  obtain ⟨hc, _⟩ := (freeChain_iff _ _ _ _).mp hl
  rcases hc.next_free ho hg with e | ⟨sz', nx', hg'⟩
  · omega
  · exact Nat.le_of_lt (h.lt_end h8 hg')

theorem WF.length_le {c : FileCfg} {f : RecFile α} (h : WF c f) : f.slots.length ≤ f.end_ := by
  have := h.tiled.length_le
  omega

end RecFile

namespace Store
open RecFile

/-- the successor of a chain element is 0 or a used key record -/
theorem segFrom_next {kf : RecFile KeyRec} {l : List (Nat × KeyRec)} {cur : Nat} (h : segFrom kf l cur 0)
    {o : Nat} {r : KeyRec} (hm : (o, r) ∈ l) : r.next = 0 ∨ ∃ sz r', kf.used r.next = some (sz, r') := by
  induction l generalizing cur with
  | nil => cases hm
  | cons q t ih =>
    obtain ⟨o1, r1⟩ := q
    obtain ⟨_, _, _, hrest⟩ := h
    rcases List.mem_cons.mp hm with e | hm'
    · cases e
      cases t with
      | nil => left; exact hrest
      | cons q2 t2 =>
        obtain ⟨o2, r2⟩ := q2
        obtain ⟨e2, _, ⟨sz, hu⟩, _⟩ := hrest
        exact Or.inr ⟨sz, r2, by rw [e2]; exact hu⟩
    · exact ih hrest hm'

/-- `next` of a used key record is 0 or the offset of a key slot -/
theorem next_le {kt : KeyType} {s : Store} (h : Inv kt s) {o sz : Nat} {r : KeyRec}
    (hu : s.kf.used o = some (sz, r)) : r.next ≤ s.kf.end_ ∧ 8 ∣ r.next := by
  obtain ⟨l, hl, hm⟩ := h.on_chain o sz r hu (used_ne_zero h hu)
  have hseg := chainFrom_seg _ _ _ _ hl
  rcases segFrom_next hseg hm with e | ⟨sz', r', hu'⟩
  · rw [e]; exact ⟨Nat.zero_le _, Nat.dvd_zero _⟩
  · have hg := get_of_used _ _ _ _ hu'
    exact ⟨Nat.le_of_lt (h.kwf.lt_end keyCfg8 hg), h.kwf.off_dvd keyCfg8 hg⟩

/-- `valOff` of a used key record is the offset of a value slot -/
theorem valOff_lt {kt : KeyType} {s : Store} (h : Inv kt s) {o sz : Nat} {r : KeyRec}
    (hu : s.kf.used o = some (sz, r)) : r.valOff < s.vf.end_ ∧ 8 ∣ r.valOff := by
  obtain ⟨vs, v, hv⟩ := h.val_used o sz r hu
  have hg := get_of_used _ _ _ _ hv
  exact ⟨h.vwf.lt_end valCfg8 hg, h.vwf.off_dvd valCfg8 hg⟩

/-- a bucket entry is 0 or the offset of a key slot -/
theorem headOf_le {kt : KeyType} {s : Store} (h : Inv kt s) (b : Nat) : s.headOf b ≤ s.kf.end_ := by
  by_cases hb : b < s.n
  · obtain ⟨l, hl, _, _⟩ := h.chains b hb
    unfold Store.chain at hl
    rcases chainFrom_succ_inv _ _ _ _ hl with ⟨e, _⟩ | ⟨_, sz, r, t, hg, _, _⟩
    · omega
    · exact Nat.le_of_lt (h.kwf.lt_end keyCfg8 hg)
  · rw [h.heads_lt b (by omega)]; exact Nat.zero_le _

end Store
end Abyss
