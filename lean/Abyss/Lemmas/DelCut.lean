import Abyss.Lemmas.DelRewr
/-!
# Unlinking a record behind a predecessor: the chain-level facts after the predecessor is rewritten
-/
namespace Abyss
namespace Store
namespace Del

theorem nodup_mid {l1 l2 : List (Nat × KeyRec)} {po o : Nat} {pr r : KeyRec}
    (hn : (List.map (·.1) (l1 ++ (po, pr) :: (o, r) :: l2)).Nodup) :
    (l1.map (·.1)).Nodup ∧ (l2.map (·.1)).Nodup ∧ po ≠ o ∧
    (∀ p ∈ l1, p.1 ≠ po ∧ p.1 ≠ o) ∧ (∀ p ∈ l2, p.1 ≠ po ∧ p.1 ≠ o) ∧
    (∀ p ∈ l1, ∀ q ∈ l2, p.1 ≠ q.1) := by
  simp only [List.map_append, List.map_cons, List.nodup_append, List.nodup_cons, List.mem_cons,
    List.mem_map] at hn
  grind

theorem nodup_join {l1 l2 : List (Nat × KeyRec)} {p' : Nat} {pr' : KeyRec}
    (n1 : (l1.map (·.1)).Nodup) (n2 : (l2.map (·.1)).Nodup)
    (h1 : ∀ p ∈ l1, p.1 ≠ p') (h2 : ∀ p ∈ l2, p.1 ≠ p') (h12 : ∀ p ∈ l1, ∀ q ∈ l2, p.1 ≠ q.1) :
    (List.map (·.1) (l1 ++ (p', pr') :: l2)).Nodup := by
  simp only [List.map_append, List.map_cons, List.nodup_append, List.nodup_cons, List.mem_cons,
    List.mem_map]
  grind

/-- a used record whose key hashes to another bucket is not on this bucket's chain -/
theorem chain_mem_ne {kt : KeyType} {s : Store} {x b : Nat} (h : InvX kt s x) (hb : b < s.n)
    {l : List (Nat × KeyRec)} (hc : s.chain b = some l) {o sz : Nat} {r : KeyRec}
    (hu : s.kf.used o = some (sz, r)) (hne : bucketOf r.key s.n ≠ b) : ∀ p ∈ l, p.1 ≠ o := by
  intro p hp e
  obtain ⟨l', hc', _, hbk⟩ := h.chains b hb
  rw [hc] at hc'; cases hc'
  obtain ⟨_, sz', hu'⟩ := chainFrom_mem hc p hp
  rw [e, hu] at hu'
  cases hu'
  exact hne (hbk p hp).1

/-- the chain-level part of `Broken` -/
structure ChainCut (s : Store) (x b old new : Nat) (l1 l2 : List (Nat × KeyRec)) : Prop where
  chains_other : ∀ b', b' < s.n → b' ≠ b → ∃ l, s.chain b' = some l ∧ (l.map (·.1)).Nodup ∧
            ∀ p ∈ l, bucketOf p.2.key s.n = b' ∧ p.1 ≠ x
  seg : segFrom s.kf l1 (s.headOf b) old
  x_used : ∃ sz r, s.kf.used x = some (sz, r)
  tail : new ≠ 0 ∧ chainFrom s.kf (s.kf.slots.length + 1) new = some l2
  nodup : ((l1 ++ l2).map (·.1)).Nodup
  bucket : ∀ p ∈ l1 ++ l2, bucketOf p.2.key s.n = b ∧ p.1 ≠ x
  on_chain : ∀ o sz r, s.kf.used o = some (sz, r) → o ≠ x →
            if bucketOf r.key s.n = b then (o, r) ∈ l1 ++ l2
            else ∃ l, s.chain (bucketOf r.key s.n) = some l ∧ (o, r) ∈ l

theorem chainCut_of_rewr {kt : KeyType} {s : Store} {f' : RecFile KeyRec} {b o po p' : Nat}
    {r pr pr' : KeyRec} {l1 l2 : List (Nat × KeyRec)}
    (h : Inv kt s) (hb : b < s.n)
    (hc : s.chain b = some (l1 ++ (po, pr) :: (o, r) :: l2))
    (R : Rewr s.kf f' po p' pr pr') (hnext : pr'.next = r.next) :
    ChainCut { s with kf := f' } o b po p' l1 ((p', pr') :: l2) := by
  obtain ⟨l, hcl, hn, hbk⟩ := h.chains b hb
  rw [hc] at hcl; cases hcl
  have hmemU := chainFrom_mem hc
  have hseg := chainFrom_seg _ _ _ _ hc
  rw [segFrom_append] at hseg
  obtain ⟨mid, hs1, hmid, hpo0, ⟨psz, hpo⟩, hnx, ho0, ⟨sz, ho⟩, hs2⟩ := hseg
  have hmid' : mid = po := hmid
  subst hmid'
  obtain ⟨n1, n2, hpoo, hl1, hl2, hl12⟩ := nodup_mid hn
  obtain ⟨nsz, hnew⟩ := R.new
  have hp'0 : p' ≠ 0 := used_ne_zero keyCfg_ok R.wf hnew
  -- members of l1, l2: unchanged, different from p'
  have hm1 : ∀ p ∈ l1, f'.used p.1 = s.kf.used p.1 ∧ p.1 ≠ p' := by
    intro p hp
    obtain ⟨_, sz1, hu1⟩ := hmemU p (List.mem_append_left _ hp)
    exact ⟨R.same hu1 (hl1 p hp).1, (R.fwd _ _ _ hu1 (hl1 p hp).1).1⟩
  have hm2 : ∀ p ∈ l2, f'.used p.1 = s.kf.used p.1 ∧ p.1 ≠ p' := by
    intro p hp
    obtain ⟨_, sz1, hu1⟩ := hmemU p (List.mem_append_right _ (List.mem_cons_of_mem _ (List.mem_cons_of_mem _ hp)))
    exact ⟨R.same hu1 (hl2 p hp).1, (R.fwd _ _ _ hu1 (hl2 p hp).1).1⟩
  have hseg1' : segFrom f' l1 (s.headOf b) mid := segFrom_congr hs1 (fun p hp => (hm1 p hp).1)
  have hseg2' : segFrom f' l2 r.next 0 := segFrom_congr hs2 (fun p hp => (hm2 p hp).1)
  have hnd : (List.map (·.1) (l1 ++ (p', pr') :: l2)).Nodup :=
    nodup_join n1 n2 (fun p hp => (hm1 p hp).2) (fun p hp => (hm2 p hp).2) hl12
  have hpob : bucketOf pr.key s.n = b := (hbk (mid, pr) (by simp)).1
  have hrb : bucketOf r.key s.n = b := (hbk (o, r) (by simp)).1
  -- chains of the other buckets
  have hother : ∀ b', b' < s.n → b' ≠ b → ∀ l, s.chain b' = some l →
      chainFrom f' (f'.slots.length + 1) (s.headOf b') = some l := by
    intro b' hb' hne l hl
    have hne' : b ≠ b' := fun e => hne e.symm
    refine chainFrom_transfer hl (fun p hp => ?_) ?_
    · obtain ⟨_, sz1, hu1⟩ := chainFrom_mem hl p hp
      exact R.same hu1 (chain_mem_ne h hb' hl hpo (by rw [hpob]; exact hne') p hp)
    · have := chain_length_le h hb' hl
      have := R.len
      omega
  refine ⟨?_, hseg1', ?_, ⟨hp'0, ?_⟩, hnd, ?_, ?_⟩
  · intro b' hb' hne
    obtain ⟨l, hl, hnl, hbl⟩ := h.chains b' hb'
    have hne' : b ≠ b' := fun e => hne e.symm
    exact ⟨l, hother b' hb' hne l hl, hnl, fun p hp =>
      ⟨(hbl p hp).1, chain_mem_ne h hb' hl ho (by rw [hrb]; exact hne') p hp⟩⟩
  · exact ⟨sz, r, (R.fwd _ _ _ ho (fun e => hpoo e.symm)).2⟩
  · have hsegn : segFrom f' ((p', pr') :: l2) p' 0 :=
      ⟨rfl, hp'0, ⟨nsz, hnew⟩, by rw [hnext]; exact hseg2'⟩
    refine chainFrom_of_seg f' p' _ hsegn _ ?_
    have hl : (((p', pr') :: l2).map (·.1)).Nodup := by
      rw [List.map_append] at hnd
      exact (List.nodup_append.mp hnd).2.1
    have := nodup_offsets_length f' ((p', pr') :: l2) hl (by
      intro p hp
      rcases List.mem_cons.mp hp with rfl | hp
      · exact ⟨nsz, hnew⟩
      · obtain ⟨_, sz1, hu1⟩ := segFrom_mem hseg2' p hp
        exact ⟨sz1, hu1⟩)
    show ((p', pr') :: l2).length < f'.slots.length + 1
    omega
  · intro p hp
    rcases List.mem_append.mp hp with hp | hp
    · exact ⟨(hbk p (List.mem_append_left _ hp)).1, (hl1 p hp).2⟩
    · rcases List.mem_cons.mp hp with rfl | hp
      · refine ⟨by show bucketOf pr'.key s.n = b; rw [R.key]; exact hpob, ?_⟩
        intro e
        exact (R.fwd _ _ _ ho (fun e => hpoo e.symm)).1 e.symm
      · exact ⟨(hbk p (List.mem_append_right _ (List.mem_cons_of_mem _ (List.mem_cons_of_mem _ hp)))).1,
          (hl2 p hp).2⟩
  · intro o1 sz1 r1 hu1 hne1
    rcases R.back o1 sz1 r1 hu1 with ⟨e, er⟩ | ⟨h1, h2, h3⟩
    · subst e er
      have : bucketOf r1.key s.n = b := by rw [R.key]; exact hpob
      show if bucketOf r1.key s.n = b then _ else _
      rw [if_pos this]
      simp
    · have ho10 : o1 ≠ 0 := used_ne_zero keyCfg_ok h.kwf h3
      obtain ⟨l, hl, hml⟩ := h.on_chain o1 sz1 r1 h3 ho10
      show if bucketOf r1.key s.n = b then _ else _
      by_cases hbb : bucketOf r1.key s.n = b
      · rw [if_pos hbb]
        rw [hbb, hc] at hl
        cases hl
        simp only [List.mem_append, List.mem_cons, Prod.mk.injEq] at hml ⊢
        rcases hml with hml | ⟨e, _⟩ | ⟨e, _⟩ | hml
        · exact Or.inl hml
        · exact absurd e h2
        · exact absurd e hne1
        · exact Or.inr (Or.inr hml)
      · rw [if_neg hbb]
        exact ⟨l, hother _ (bucketOf_lt _ h.npos) hbb l hl, hml⟩

end Del
end Store
end Abyss
