import Abyss.Lemmas.EngineReadAux1
import Abyss.Stats
/-!
# statistics calls, byte level: the slot walk (`PieceOffsetIter`) on the image of a record file

One file, generic in the configuration and the slot renderer: the iterator of `piece.rs` visits the
slots of the model in order, `piece_size` / the `…_only_size` readers return the slot size, the
`…_only_key_length` / `…_only_value_length` readers the length field (0 in a free slot).
-/
namespace Abyss
open Store FileM RecFile Vu64

section
variable {α : Type} {c : FileCfg} {sig2 : List Nat} {rs : Slot α → List Nat} {f : RecFile α}

/-- every slot's rendering starts with its size field followed by a length field -/
def SlotForm (rs : Slot α → List Nat) (len : Slot α → Nat) (f : RecFile α) : Prop :=
  ∀ o s, f.get o = some s → len s < 2^32 ∧ ∃ t, rs s = encode (s.size / 8) ++ (encode (len s) ++ t)

theorem ByteOK.slot_bounds (h : ByteOK c sig2 rs f) {o : Nat} {s : Slot α} (hg : f.get o = some s) :
    8 ∣ s.size ∧ 0 < s.size ∧ s.size < 2^32 ∧ c.headerSz ≤ o ∧ o + s.size ≤ f.end_ := by
  obtain ⟨h8, h16⟩ := h.legal8 _ (h.wf.sizes o s hg)
  have hb : c.headerSz ≤ o ∧ o + s.size ≤ f.end_ ∧ _ := h.wf.tiled.bounds hg
  have := h.end_lt
  exact ⟨h8, by omega, by omega, hb.1, hb.2.1⟩

/-- seek + `read_piece_size` at a slot: its size -/
theorem sizeAt_img (h : ByteOK c sig2 rs f) {len : Slot α → Nat} (hf : SlotForm rs len f) {o : Nat} {s : Slot α}
    (hg : f.get o = some s) (pos : Nat) :
    ∃ pos', (Gen.seekFromStart o >>= fun _ => Gen.readPieceSize) ⟨renderRecFile c sig2 rs f, pos⟩ =
      some (s.size, ⟨renderRecFile c sig2 rs f, pos'⟩) := by
  obtain ⟨_, t, ht⟩ := hf o s hg
  obtain ⟨h8, _, h32, _, _⟩ := h.slot_bounds hg
  exact ⟨_, readSize_img h.lay hg ht h8 h32 pos⟩

theorem fields_drop (h : ByteOK c sig2 rs f) {len : Slot α → Nat} (hf : SlotForm rs len f) {o : Nat} {s : Slot α}
    (hg : f.get o = some s) :
    len s < 2^32 ∧ o ≤ (renderRecFile c sig2 rs f).length ∧
    ∃ rest, (renderRecFile c sig2 rs f).drop o = encode (s.size / 8) ++ (encode (len s) ++ rest) := by
  obtain ⟨hl, t, ht⟩ := hf o s hg
  obtain ⟨Q, hd⟩ := slot_drop_img h.lay hg
  rw [ht, List.append_assoc, List.append_assoc] at hd
  have hle : o + s.size ≤ (renderRecFile c sig2 rs f).length := slot_off_le h.lay hg
  exact ⟨hl, by omega, _, hd⟩

/-- skip the size field, read the key-length field -/
theorem keyLenAt_img (h : ByteOK c sig2 rs f) {len : Slot α → Nat} (hf : SlotForm rs len f) {o : Nat} {s : Slot α}
    (hg : f.get o = some s) (pos : Nat) :
    ∃ pos', (Gen.seekSkipToPieceKey o >>= fun _ => Gen.readKeyLen) ⟨renderRecFile c sig2 rs f, pos⟩ =
      some (len s, ⟨renderRecFile c sig2 rs f, pos'⟩) := by
  obtain ⟨hl, ho, rest, hd⟩ := fields_drop h hf hg
  rw [bind_some (seekSkipToPieceKey_spec pos hd ho)]
  exact ⟨_, readKeyLen_spec (drop_add_of_drop_eq hd) hl⟩

/-- skip the size field, read the value-length field -/
theorem valLenAt_img (h : ByteOK c sig2 rs f) {len : Slot α → Nat} (hf : SlotForm rs len f) {o : Nat} {s : Slot α}
    (hg : f.get o = some s) (pos : Nat) :
    ∃ pos', (Gen.seekSkipToPieceValue o >>= fun _ => Gen.readValueLen) ⟨renderRecFile c sig2 rs f, pos⟩ =
      some (len s, ⟨renderRecFile c sig2 rs f, pos'⟩) := by
  obtain ⟨hl, ho, rest, hd⟩ := fields_drop h hf hg
  rw [bind_some (seekSkipToPieceValue_spec pos hd ho)]
  exact ⟨_, readValueLen_spec (drop_add_of_drop_eq hd) hl⟩

/-! ## the iterator -/

/-- what the walk needs of the trait object: the three methods as in `key.rs` / `val.rs` -/
structure IterA (A : Gen.PieceA) (c : FileCfg) : Prop where
  start : A.pieceOffsetStart = pure c.headerSz
  end_ : A.pieceOffsetEnd = Gen.seekToEnd
  size : ∀ off, A.pieceSize off = Gen.seekFromStart off >>= fun _ => Gen.readPieceSize

theorem iterNew_img {A : Gen.PieceA} (hA : IterA A c) (h : ByteOK c sig2 rs f) (pos : Nat) :
    Gen.pieceOffsetIterNew A ⟨renderRecFile c sig2 rs f, pos⟩ =
      some ((c.headerSz, f.end_, 0), ⟨renderRecFile c sig2 rs f, f.end_⟩) := by
  unfold Gen.pieceOffsetIterNew
  rw [hA.start, hA.end_, pure_bind_apply, bind_some (seekToEnd_spec _ pos), pure_apply]
  rw [show (renderRecFile c sig2 rs f).length = f.end_ from image_length h.lay]

/-- the offset the next call of `next_piece_offset` computes -/
def NextIs (f : RecFile α) (hdr cur a : Nat) : Prop :=
  (cur = 0 ∧ a = hdr) ∨ (cur ≠ 0 ∧ ∃ s, f.get cur = some s ∧ a = cur + s.size)

theorem iterNext_img {A : Gen.PieceA} (hA : IterA A c) (h : ByteOK c sig2 rs f) {len : Slot α → Nat}
    (hf : SlotForm rs len f) {cur a : Nat} (hn : NextIs f c.headerSz cur a) (e pos : Nat) :
    ∃ pos', Gen.pieceOffsetIterNextPieceOffset A (c.headerSz, e, cur) ⟨renderRecFile c sig2 rs f, pos⟩ =
      some ((if a < e then (some a, (c.headerSz, e, a)) else (none, (c.headerSz, e, cur))),
        ⟨renderRecFile c sig2 rs f, pos'⟩) := by
  have hnext : ∃ pos', (if (cur == 0) = true then (pure c.headerSz : M Nat) else do
        let size ← A.pieceSize cur
        pure (cur + size)) ⟨renderRecFile c sig2 rs f, pos⟩ = some (a, ⟨renderRecFile c sig2 rs f, pos'⟩) := by
    rcases hn with ⟨h0, ha⟩ | ⟨h0, s, hg, ha⟩
    · subst h0 ha
      exact ⟨pos, rfl⟩
    · have hb : (cur == 0) = false := by rw [beq_eq_false_iff_ne]; exact h0
      obtain ⟨p, hp⟩ := sizeAt_img h hf hg pos
      refine ⟨p, ?_⟩
      rw [hb, if_neg Bool.false_ne_true, hA.size, bind_some hp, ha]
      rfl
  obtain ⟨p, hp⟩ := hnext
  refine ⟨p, ?_⟩
  unfold Gen.pieceOffsetIterNextPieceOffset
  dsimp only
  rw [bind_some hp]
  by_cases hlt : a < e
  · rw [if_pos hlt, if_pos (by simpa using hlt)]
    rfl
  · rw [if_neg hlt, if_neg (by simpa using hlt)]
    rfl

end

end Abyss
