import Abyss.Scan
/-!
# The bitmap scan returns the first non-empty bucket at or after `idx` (helper lemmas + the spec)
-/
namespace Abyss

/-- least `j` with `idx ≤ j < n` and `head j ≠ 0` -/
def firstNonEmpty (head : Nat → Nat) (idx n : Nat) : Option Nat :=
  (List.range' idx (n - idx)).find? (fun j => head j ≠ 0)

/-! ## bitmap bytes / words -/

theorem byteZero_true {bit : Nat → Bool} {j : Nat} (h : byteZero bit j = true) :
    ∀ i, 8 * j ≤ i → i < 8 * j + 8 → bit i = false := by
  intro i h1 h2
  simp only [byteZero, List.all_eq_true, List.mem_range] at h
  have h3 := h (i - 8 * j) (by omega)
  have e : 8 * j + (i - 8 * j) = i := by omega
  rw [e] at h3
  simpa using h3

theorem wordZero_true {bit : Nat → Bool} {j : Nat} (h : wordZero bit j = true) :
    ∀ i, 8 * j ≤ i → i < 8 * j + 64 → bit i = false := by
  intro i h1 h2
  simp only [wordZero, List.all_eq_true, List.mem_range] at h
  have h3 := h ((i - 8 * j) / 8) (by omega)
  exact byteZero_true h3 i (by omega) (by omega)

/-! ## `firstNonEmpty` -/

theorem firstNonEmpty_self (head : Nat → Nat) (n : Nat) : firstNonEmpty head n n = none := by
  simp [firstNonEmpty]

theorem firstNonEmpty_step (head : Nat → Nat) {idx n : Nat} (h : idx < n) :
    firstNonEmpty head idx n =
      if head idx ≠ 0 then some idx else firstNonEmpty head (idx + 1) n := by
  unfold firstNonEmpty
  have e : n - idx = (n - (idx + 1)) + 1 := by omega
  rw [e, List.range'_succ, List.find?_cons]
  by_cases h0 : head idx = 0 <;> simp [h0]

theorem firstNonEmpty_skip (head : Nat → Nat) (n idx : Nat) :
    ∀ (d : Nat) (idx1 : Nat), idx1 = idx + d → idx1 ≤ n →
      (∀ i, idx ≤ i → i < idx1 → head i = 0) →
      firstNonEmpty head idx n = firstNonEmpty head idx1 n := by
  intro d
  induction d with
  | zero => intro idx1 h1 _ _; simp at h1; rw [h1]
  | succ d ih =>
    intro idx1 h1 h2 h3
    rw [ih (idx + d) rfl (by omega) (fun i hi1 hi2 => h3 i hi1 (by omega))]
    rw [firstNonEmpty_step head (by omega : idx + d < n)]
    have := h3 (idx + d) (by omega) (by omega)
    simp [this, h1, Nat.add_assoc]

theorem firstNonEmpty_skip' (head : Nat → Nat) {n idx idx1 : Nat} (h1 : idx ≤ idx1) (h2 : idx1 ≤ n)
    (h3 : ∀ i, idx ≤ i → i < idx1 → head i = 0) :
    firstNonEmpty head idx n = firstNonEmpty head idx1 n :=
  firstNonEmpty_skip head n idx (idx1 - idx) idx1 (by omega) h2 h3

/-! ## the bucket loop -/

theorem scanBuckets_nonzero (head : Nat → Nat) (n fuel idx off : Nat) (h : off ≠ 0) :
    scanBuckets head n fuel idx off = (idx, off) := by
  cases fuel <;> simp [scanBuckets, h]

theorem scanBuckets_spec (head : Nat → Nat) (n : Nat) :
    ∀ (fuel idx : Nat), idx ≤ n → n - idx < fuel →
      scanBuckets head n fuel idx 0 =
        match firstNonEmpty head idx n with
        | some j => (j + 1, head j)
        | none => (n, 0) := by
  intro fuel
  induction fuel with
  | zero => intro idx _ h; omega
  | succ fuel ih =>
    intro idx h1 h2
    by_cases hlt : idx < n
    · rw [firstNonEmpty_step head hlt]
      simp only [scanBuckets, hlt, and_self, if_true]
      by_cases h0 : head idx = 0
      · rw [h0, ih (idx + 1) (by omega) (by omega)]
        simp
      · rw [scanBuckets_nonzero _ _ _ _ _ h0]
        simp [h0]
    · have e : idx = n := by omega
      subst e
      simp [scanBuckets, firstNonEmpty_self]

/-! ## the word loop -/

theorem scanWords_inv (bit : Nat → Bool) (n idx0 : Nat) :
    ∀ (fuel idx : Nat) (lz : Bool), idx % 8 = 0 → 64 ≤ idx → idx0 ≤ idx - 64 → idx - 64 < n →
      (∀ i, idx0 ≤ i → i < idx - 64 → bit i = false) →
      (lz = true → ∀ i, idx - 64 ≤ i → i < idx → bit i = false) →
      ∃ i2, scanWords bit n fuel idx lz true = (i2, true) ∧ i2 % 8 = 0 ∧ 64 ≤ i2 ∧
        idx0 ≤ i2 - 64 ∧ i2 - 64 < n ∧ (∀ i, idx0 ≤ i → i < i2 - 64 → bit i = false) := by
  intro fuel
  induction fuel with
  | zero =>
    intro idx lz h1 h2 h3 h4 h5 _
    exact ⟨idx, by simp [scanWords], h1, h2, h3, h4, h5⟩
  | succ fuel ih =>
    intro idx lz h1 h2 h3 h4 h5 h6
    by_cases hc : lz = true ∧ idx + 8 < n
    · simp only [scanWords, hc, and_self, if_true]
      have h6' := h6 hc.1
      apply ih (idx + 64) (wordZero bit (idx / 8)) (by omega) (by omega) (by omega) (by omega)
      · intro i hi1 hi2
        by_cases hi : i < idx - 64
        · exact h5 i hi1 hi
        · exact h6' i (by omega) (by omega)
      · intro hw i hi1 hi2
        exact wordZero_true hw i (by omega) (by omega)
    · refine ⟨idx, ?_, h1, h2, h3, h4, h5⟩
      simp only [scanWords]
      rw [if_neg (by simpa using hc)]

/-! ## the byte loop -/

theorem scanBytes_inv (bit : Nat → Bool) (n i3 : Nat) :
    ∀ (fuel idx : Nat) (lz : Bool), idx % 8 = 0 → 8 ≤ idx → i3 ≤ idx - 8 → idx - 8 < n →
      (∀ i, i3 ≤ i → i < idx - 8 → bit i = false) →
      (lz = true → ∀ i, idx - 8 ≤ i → i < idx → bit i = false) →
      let i4 := scanBytes bit n fuel idx lz
      8 ≤ i4 ∧ i3 ≤ i4 - 8 ∧ i4 - 8 < n ∧ (∀ i, i3 ≤ i → i < i4 - 8 → bit i = false) := by
  intro fuel
  induction fuel with
  | zero =>
    intro idx lz h1 h2 h3 h4 h5 _
    simp only [scanBytes]
    exact ⟨h2, h3, h4, h5⟩
  | succ fuel ih =>
    intro idx lz h1 h2 h3 h4 h5 h6
    by_cases hc : lz = true ∧ idx < n
    · simp only [scanBytes, hc, and_self, if_true]
      have h6' := h6 hc.1
      apply ih (idx + 8) (byteZero bit (idx / 8)) (by omega) (by omega) (by omega) (by omega)
      · intro i hi1 hi2
        by_cases hi : i < idx - 8
        · exact h5 i hi1 hi
        · exact h6' i (by omega) (by omega)
      · intro hw i hi1 hi2
        exact byteZero_true hw i (by omega) (by omega)
    · simp only [scanBytes]
      rw [if_neg (by simpa using hc)]
      exact ⟨h2, h3, h4, h5⟩

/-- the start index handed to the bucket loop skips only empty bitmap positions -/
theorem scanStart_inv (bit : Nat → Bool) (n idx : Nat) (hidx : idx < n) (h8 : idx % 8 = 0) :
    let r := scanWords bit n (n + 1) idx true false
    let i3 := if r.2 then r.1 - 64 else r.1
    let i4 := scanBytes bit n (n + 1) i3 true
    idx ≤ i4 - 8 ∧ i4 - 8 < n ∧ (∀ i, idx ≤ i → i < i4 - 8 → bit i = false) := by
  intro r i3 i4
  have hi3 : idx ≤ i3 ∧ i3 % 8 = 0 ∧ i3 < n ∧ (∀ i, idx ≤ i → i < i3 → bit i = false) := by
    by_cases hc : idx + 8 < n
    · obtain ⟨i2, e, a1, a2, a3, a4, a5⟩ :=
        scanWords_inv bit n idx n (idx + 64) (wordZero bit (idx / 8)) (by omega) (by omega)
          (by omega) (by omega) (fun i hi1 hi2 => by omega)
          (fun hw i hi1 hi2 => wordZero_true hw i (by omega) (by omega))
      have er : r = (i2, true) := by
        show scanWords bit n (n + 1) idx true false = _
        simp only [scanWords, hc, and_self, if_true]
        exact e
      have e3 : i3 = i2 - 64 := by
        show (if r.2 then r.1 - 64 else r.1) = _
        rw [er]; simp
      rw [e3]
      exact ⟨a3, by omega, a4, a5⟩
    · have er : r = (idx, false) := by
        show scanWords bit n (n + 1) idx true false = _
        simp [scanWords, hc]
      have e3 : i3 = idx := by
        show (if r.2 then r.1 - 64 else r.1) = _
        rw [er]; simp
      rw [e3]
      exact ⟨Nat.le_refl _, h8, hidx, fun i hi1 hi2 => by omega⟩
  obtain ⟨b1, b2, b3, b4⟩ := hi3
  have e4 : i4 = scanBytes bit n n (i3 + 8) (byteZero bit (i3 / 8)) := by
    show scanBytes bit n (n + 1) i3 true = _
    simp [scanBytes, b3]
  have := scanBytes_inv bit n i3 n (i3 + 8) (byteZero bit (i3 / 8)) (by omega) (by omega)
    (by omega) (by omega) (fun i hi1 hi2 => by omega)
    (fun hw i hi1 hi2 => byteZero_true hw i (by omega) (by omega))
  rw [← e4] at this
  obtain ⟨c1, c2, c3, c4⟩ := this
  refine ⟨by omega, c3, ?_⟩
  intro i hi1 hi2
  by_cases hi : i < i3
  · exact b4 i hi1 hi
  · exact c4 i (by omega) hi2

/-- For every table size `n ≥ 1`, every start index and every occupancy pattern whose bitmap is
consistent with the bucket table, `next_key_piece_offset` returns the first non-empty bucket
at or after `idx` (and the index following it), or `(n, 0)` when there is none. -/
theorem nextKeyPieceOffset_spec (bit : Nat → Bool) (head : Nat → Nat) (n idx : Nat)
    (hidx : idx < n)
    (hb : ∀ i, i < n → (bit i = true ↔ head i ≠ 0))
    (hb2 : ∀ i, n ≤ i → bit i = false) :
    nextKeyPieceOffset bit head n idx =
      match firstNonEmpty head idx n with
      | some j => (j + 1, head j)
      | none => (n, 0) := by
  -- `hb2` (bits beyond the table read as zero) is not needed: a stray set bit there could only
  -- stop the word/byte loops earlier, which never skips a bucket.
  have _ := hb2
  by_cases h8 : idx % 8 = 0
  · obtain ⟨a1, a2, a3⟩ := scanStart_inv bit n idx hidx h8
    simp only [nextKeyPieceOffset, h8, if_true]
    rw [scanBuckets_spec head n (n + 1) _ (Nat.le_of_lt a2) (by omega)]
    rw [← firstNonEmpty_skip' head a1 (Nat.le_of_lt a2)]
    intro i hi1 hi2
    have := a3 i hi1 hi2
    have hb' := hb i (by omega)
    rw [this] at hb'
    simpa using hb'
  · simp only [nextKeyPieceOffset, h8, if_false]
    exact scanBuckets_spec head n (n + 1) idx (Nat.le_of_lt hidx) (by omega)

end Abyss
