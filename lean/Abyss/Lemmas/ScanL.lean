import Abyss.Scan
/-!
# The bitmap scan returns the first non-empty bucket at or after `idx` (helper lemmas + the spec)
-/
namespace Abyss

/-- least `j` with `idx ≤ j < n` and `head j ≠ 0` -/
def firstNonEmpty (head : Nat → Nat) (idx n : Nat) : Option Nat :=
  (List.range' idx (n - idx)).find? (fun j => head j ≠ 0)

/-- For every table size `n ≥ 1`, every start index and every occupancy pattern whose bitmap is
consistent with the bucket table, `next_key_piece_offset` returns the first non-empty bucket
at or after `idx` (and the index following it), or `(n, 0)` when there is none. -/
theorem nextKeyPieceOffset_spec (bit : Nat → Bool) (head : Nat → Nat) (n idx : Nat)
    (hidx : idx < n)
    (hb : ∀ i, i < n → (bit i = true ↔ head i ≠ 0))
    (hb2 : ∀ i, n ≤ i → bit i = false) :
    nextKeyPieceOffset bit head n idx =
      match firstNonEmpty head idx n with
      | some j => (j + 1, head j)
      | none => (n, 0) := by sorry

end Abyss
