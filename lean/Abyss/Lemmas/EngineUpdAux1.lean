import Abyss.Lemmas.EngineRead
/-!
# generated engine vs model, updates: the `DbM` calculus and the per-file invariants

Helper definitions and lemmas for `EngineUpd.lean`.
-/
namespace Abyss
open Store FileM RecFile

namespace EU
open Abyss.DbM (liftHtx liftKey liftVal)

/-- a key-file function that maps image `img` to `img'` (any cursor), lifted -/
theorem liftKey_img {α : Type} {m : FileM.M α} {d : DbSt} {img img' : List Nat} {a : α}
    (hd : d.key.bytes = img) (h : ∀ pos, ∃ pos', m ⟨img, pos⟩ = some (a, ⟨img', pos'⟩)) :
    ∃ d', liftKey m d = some (a, d') ∧ d'.key.bytes = img' ∧ d'.htx = d.htx ∧ d'.val = d.val := by
  obtain ⟨pos', hp⟩ := h d.key.pos
  have e : d.key = ⟨img, d.key.pos⟩ := by rw [← hd]
  refine ⟨{ d with key := ⟨img', pos'⟩ }, ?_, rfl, rfl, rfl⟩
  unfold liftKey
  rw [e, hp]

theorem liftVal_img {α : Type} {m : FileM.M α} {d : DbSt} {img img' : List Nat} {a : α}
    (hd : d.val.bytes = img) (h : ∀ pos, ∃ pos', m ⟨img, pos⟩ = some (a, ⟨img', pos'⟩)) :
    ∃ d', liftVal m d = some (a, d') ∧ d'.val.bytes = img' ∧ d'.htx = d.htx ∧ d'.key = d.key := by
  obtain ⟨pos', hp⟩ := h d.val.pos
  have e : d.val = ⟨img, d.val.pos⟩ := by rw [← hd]
  refine ⟨{ d with val := ⟨img', pos'⟩ }, ?_, rfl, rfl, rfl⟩
  unfold liftVal
  rw [e, hp]

theorem liftHtx_img {α : Type} {m : FileM.M α} {d : DbSt} {img img' : List Nat} {a : α}
    (hd : d.htx.bytes = img) (h : ∀ pos, ∃ pos', m ⟨img, pos⟩ = some (a, ⟨img', pos'⟩)) :
    ∃ d', liftHtx m d = some (a, d') ∧ d'.htx.bytes = img' ∧ d'.key = d.key ∧ d'.val = d.val := by
  obtain ⟨pos', hp⟩ := h d.htx.pos
  have e : d.htx = ⟨img, d.htx.pos⟩ := by rw [← hd]
  refine ⟨{ d with htx := ⟨img', pos'⟩ }, ?_, rfl, rfl, rfl⟩
  unfold liftHtx
  rw [e, hp]



/-! ## the key file in the regular regime -/

/-- byte-level OK and the fields of every record fit -/
structure KG (sig : List Nat) (kf : RecFile KeyRec) : Prop where
  ok : KOK sig kf
  fits : AllUsed (fun _ r => KeyRec.Fits r) kf

/-- byte-level OK and every value is short -/
structure VG (sig : List Nat) (vf : RecFile (List Nat)) : Prop where
  ok : VOK sig vf
  fits : AllUsed (fun _ v => v.length < 2^31) vf

theorem KG.of_good {kt : KeyType} {s : Store} (g : Store.Regular kt s) : KG kt.sig s.kf := by
  have hr := g.renderable
  refine ⟨byteOK_key g.inv hr g.kend, ?_⟩
  intro o sz r hu
  have hg := RecFile.used_eq_some.mp hu
  have := hr.kslots (o, .used sz r) (Store.mem_slots_of_get _ _ _ hg)
  exact ⟨this.2.1, this.2.2.1, this.2.2.2.1, this.2.2.2.2.1, this.2.2.2.2.2.1⟩

theorem VG.of_good {kt : KeyType} {s : Store} (g : Store.Regular kt s) : VG kt.sig s.vf := by
  have hr := g.renderable
  refine ⟨byteOK_val g.inv hr g.vend, ?_⟩
  intro o sz r hu
  have hg := RecFile.used_eq_some.mp hu
  have := hr.vslots (o, .used sz r) (Store.mem_slots_of_get _ _ _ hg)
  exact this.2.1

variable {sig : List Nat}

theorem KG.len {kf : RecFile KeyRec} (h : KG sig kf) : (renderKeyFile sig kf).length = kf.end_ :=
  image_length h.ok.lay

theorem KG.off {kf : RecFile KeyRec} (h : KG sig kf) {o : Nat} {sl : Slot KeyRec} (hg : kf.get o = some sl) :
    8 ∣ o ∧ o < 2^32 ∧ o ≠ 0 := by
  have h1 := h.ok.wf.off_dvd keyCfg8 hg
  have h2 := h.ok.wf.lt_end keyCfg8 hg
  have h3 := h.ok.end_lt
  have hb := RecFile.WF.get_bounds keyCfg_ok h.ok.wf hg
  have := keyCfg_ok.hdr_pos
  exact ⟨h1, by omega, by omega⟩

theorem VG.off {vf : RecFile (List Nat)} (h : VG sig vf) {o : Nat} {sl : Slot (List Nat)} (hg : vf.get o = some sl) :
    8 ∣ o ∧ o < 2^32 := by
  have h1 := h.ok.wf.off_dvd valCfg8 hg
  have h2 := h.ok.wf.lt_end valCfg8 hg
  have h3 := h.ok.end_lt
  exact ⟨h1, by omega⟩

theorem KG.fits_get {kf : RecFile KeyRec} (h : KG sig kf) {o sz : Nat} {r : KeyRec}
    (hg : kf.get o = some (.used sz r)) : r.Fits := h.fits o sz r (RecFile.used_eq_some.mpr hg)

theorem KG.readPiece {kf : RecFile KeyRec} (h : KG sig kf) {o sz : Nat} {r : KeyRec}
    (hg : kf.get o = some (.used sz r)) (pos : Nat) :
    ∃ pos', Gen.keyReadPiece o ⟨renderKeyFile sig kf, pos⟩ =
      some ((sz, r.key, r.valOff, r.next), ⟨renderKeyFile sig kf, pos'⟩) :=
  (keyRead_bytes h.ok hg (h.fits_get hg) pos).1

theorem KG.readNext {kf : RecFile KeyRec} (h : KG sig kf) {o sz : Nat} {r : KeyRec}
    (hg : kf.get o = some (.used sz r)) (pos : Nat) :
    ∃ pos', Gen.keyReadPieceOnlyBucketNextOffset o ⟨renderKeyFile sig kf, pos⟩ =
      some (r.next, ⟨renderKeyFile sig kf, pos'⟩) :=
  (keyRead_bytes h.ok hg (h.fits_get hg) pos).2.2.2.1

theorem KG.rewrite {kf kf' : RecFile KeyRec} (h : KG sig kf) {off sz0 : Nat} {r0 : KeyRec}
    (hu : kf.get off = some (.used sz0 r0)) {r : KeyRec} (hr : r.Fits) {off' : Nat}
    (hrw : RecFile.rewrite keyCfg kf off (keyNeed r) r = some (off', kf')) (he : kf'.end_ < 2^32) :
    KG sig kf' ∧ kf.end_ ≤ kf'.end_ ∧ ∃ sz, kf'.get off' = some (.used sz r) ∧
      ∀ pos, ∃ pos', Gen.keyWritePiece keyCfg off r.key r.valOff r.next false ⟨renderKeyFile sig kf, pos⟩ =
        some ((off', sz), ⟨renderKeyFile sig kf', pos'⟩) := by
  have hu' := RecFile.used_eq_some.mpr hu
  obtain ⟨w, a⟩ := AllUsed.rewrite keyCfg_ok h.ok.wf h.fits hu' (Store.keyNeed_legal r) (fun _ _ => hr) hrw
  obtain ⟨o1, s1, f1, a1, _, _, _, _, _, _, _, a9⟩ := rewrite_spec keyCfg_ok h.ok.wf hu' (Store.keyNeed_legal r) r
  rw [hrw] at a1
  simp only [Option.some.injEq, Prod.mk.injEq] at a1
  obtain ⟨rfl, rfl⟩ := a1
  obtain ⟨o2, f2, sz, p2, b1, b2, _, b4⟩ := keyRewrite_bytes h.ok hu r hr 0
  rw [hrw] at b1
  simp only [Option.some.injEq, Prod.mk.injEq] at b1
  obtain ⟨rfl, rfl⟩ := b1
  refine ⟨⟨b4 he, a⟩, a9, sz, b2, ?_⟩
  intro pos
  obtain ⟨o3, f3, sz3, p3, c1, c2, c3, _⟩ := keyRewrite_bytes h.ok hu r hr pos
  rw [hrw] at c1
  simp only [Option.some.injEq, Prod.mk.injEq] at c1
  obtain ⟨rfl, rfl⟩ := c1
  rw [b2] at c2
  simp only [Option.some.injEq, Slot.used.injEq, and_true] at c2
  subst c2
  exact ⟨p3, c3⟩

theorem KG.addPiece {kf kf' : RecFile KeyRec} (h : KG sig kf) {r : KeyRec} (hr : r.Fits) {off : Nat}
    (hadd : RecFile.addPiece keyCfg kf (keyNeed r) r = some (off, kf')) (he : kf'.end_ < 2^32) :
    KG sig kf' ∧ kf.end_ ≤ kf'.end_ ∧ ∃ sz, kf'.get off = some (.used sz r) ∧
      ∀ pos, ∃ pos', Gen.keyAddPiece keyCfg r.key r.valOff r.next ⟨renderKeyFile sig kf, pos⟩ =
        some ((off, sz), ⟨renderKeyFile sig kf', pos'⟩) := by
  obtain ⟨w, a⟩ := AllUsed.addPiece keyCfg_ok h.ok.wf h.fits (Store.keyNeed_legal r) (fun _ _ => hr) hadd
  obtain ⟨o1, s1, f1, a1, _, _, _, _, _, _, _, _, a9⟩ := addPiece_spec keyCfg_ok h.ok.wf (Store.keyNeed_legal r) r
  rw [hadd] at a1
  simp only [Option.some.injEq, Prod.mk.injEq] at a1
  obtain ⟨rfl, rfl⟩ := a1
  obtain ⟨o2, f2, sz, p2, b1, b2, _, b4⟩ := keyAddPiece_bytes h.ok r hr 0
  rw [hadd] at b1
  simp only [Option.some.injEq, Prod.mk.injEq] at b1
  obtain ⟨rfl, rfl⟩ := b1
  refine ⟨⟨b4 he, a⟩, a9, sz, b2, ?_⟩
  intro pos
  obtain ⟨o3, f3, sz3, p3, c1, c2, c3, _⟩ := keyAddPiece_bytes h.ok r hr pos
  rw [hadd] at c1
  simp only [Option.some.injEq, Prod.mk.injEq] at c1
  obtain ⟨rfl, rfl⟩ := c1
  rw [b2] at c2
  simp only [Option.some.injEq, Slot.used.injEq, and_true] at c2
  subst c2
  exact ⟨p3, c3⟩

theorem KG.deletePiece {kf kf' : RecFile KeyRec} (h : KG sig kf) {off sz0 : Nat} {r0 : KeyRec}
    (hu : kf.get off = some (.used sz0 r0))
    (hdel : RecFile.deletePiece keyCfg kf off = some kf') :
    KG sig kf' ∧ kf'.end_ = kf.end_ ∧
      ∀ pos, ∃ pos', Gen.keyDeletePiece keyCfg off ⟨renderKeyFile sig kf, pos⟩ =
        some (sz0, ⟨renderKeyFile sig kf', pos'⟩) := by
  have hu' := RecFile.used_eq_some.mpr hu
  obtain ⟨f1, a1, _, _, _, _, _, a7⟩ := deletePiece_spec keyCfg_ok h.ok.wf hu'
  rw [hdel] at a1
  simp only [Option.some.injEq] at a1
  subst a1
  obtain ⟨f2, p2, b1, _, b3⟩ := keyDeletePiece_bytes h.ok hu 0
  rw [hdel] at b1
  simp only [Option.some.injEq] at b1
  subst b1
  refine ⟨⟨b3, h.fits.deletePiece' hdel⟩, a7, ?_⟩
  intro pos
  obtain ⟨f3, p3, c1, c2, _⟩ := keyDeletePiece_bytes h.ok hu pos
  rw [hdel] at c1
  simp only [Option.some.injEq] at c1
  subst c1
  exact ⟨p3, c2⟩

/-! ## the value file in the regular regime -/

theorem VG.readPiece {vf : RecFile (List Nat)} (h : VG sig vf) {o sz : Nat} {v : List Nat}
    (hg : vf.get o = some (.used sz v)) (pos : Nat) :
    ∃ pos', Gen.valReadPiece o ⟨renderValFile sig vf, pos⟩ = some ((sz, v), ⟨renderValFile sig vf, pos'⟩) :=
  (valRead_bytes h.ok hg (h.fits o sz v (RecFile.used_eq_some.mpr hg)) pos).1

theorem VG.readValue {vf : RecFile (List Nat)} (h : VG sig vf) {o sz : Nat} {v : List Nat}
    (hg : vf.get o = some (.used sz v)) (pos : Nat) :
    ∃ pos', Gen.valReadPieceOnlyValue o ⟨renderValFile sig vf, pos⟩ = some (v, ⟨renderValFile sig vf, pos'⟩) :=
  (valRead_bytes h.ok hg (h.fits o sz v (RecFile.used_eq_some.mpr hg)) pos).2.1

theorem VG.rewrite {vf vf' : RecFile (List Nat)} (h : VG sig vf) {off sz0 : Nat} {v0 : List Nat}
    (hu : vf.get off = some (.used sz0 v0)) {v : List Nat} (hv : v.length < 2^31) {off' : Nat}
    (hrw : RecFile.rewrite valCfg vf off (valueNeed v.length) v = some (off', vf')) (he : vf'.end_ < 2^32) :
    VG sig vf' ∧ vf.end_ ≤ vf'.end_ ∧ ∃ sz, vf'.get off' = some (.used sz v) ∧
      ∀ pos, ∃ pos', Gen.valWritePiece valCfg off v false ⟨renderValFile sig vf, pos⟩ =
        some ((off', sz), ⟨renderValFile sig vf', pos'⟩) := by
  have hu' := RecFile.used_eq_some.mpr hu
  obtain ⟨w, a⟩ := AllUsed.rewrite valCfg_ok h.ok.wf h.fits hu' (Store.valueNeed_legal v.length) (fun _ _ => hv) hrw
  obtain ⟨o1, s1, f1, a1, _, _, _, _, _, _, _, a9⟩ := rewrite_spec valCfg_ok h.ok.wf hu' (Store.valueNeed_legal v.length) v
  rw [hrw] at a1
  simp only [Option.some.injEq, Prod.mk.injEq] at a1
  obtain ⟨rfl, rfl⟩ := a1
  obtain ⟨o2, f2, sz, p2, b1, b2, _, b4⟩ := valRewrite_bytes h.ok hu v hv 0
  rw [hrw] at b1
  simp only [Option.some.injEq, Prod.mk.injEq] at b1
  obtain ⟨rfl, rfl⟩ := b1
  refine ⟨⟨b4 he, a⟩, a9, sz, b2, ?_⟩
  intro pos
  obtain ⟨o3, f3, sz3, p3, c1, c2, c3, _⟩ := valRewrite_bytes h.ok hu v hv pos
  rw [hrw] at c1
  simp only [Option.some.injEq, Prod.mk.injEq] at c1
  obtain ⟨rfl, rfl⟩ := c1
  rw [b2] at c2
  simp only [Option.some.injEq, Slot.used.injEq, and_true] at c2
  subst c2
  exact ⟨p3, c3⟩

theorem VG.addPiece {vf vf' : RecFile (List Nat)} (h : VG sig vf) {v : List Nat} (hv : v.length < 2^31) {off : Nat}
    (hadd : RecFile.addPiece valCfg vf (valueNeed v.length) v = some (off, vf')) (he : vf'.end_ < 2^32) :
    VG sig vf' ∧ vf.end_ ≤ vf'.end_ ∧ ∃ sz, vf'.get off = some (.used sz v) ∧
      ∀ pos, ∃ pos', Gen.valAddPiece valCfg v ⟨renderValFile sig vf, pos⟩ =
        some ((off, sz), ⟨renderValFile sig vf', pos'⟩) := by
  obtain ⟨w, a⟩ := AllUsed.addPiece valCfg_ok h.ok.wf h.fits (Store.valueNeed_legal v.length) (fun _ _ => hv) hadd
  obtain ⟨o1, s1, f1, a1, _, _, _, _, _, _, _, _, a9⟩ := addPiece_spec valCfg_ok h.ok.wf (Store.valueNeed_legal v.length) v
  rw [hadd] at a1
  simp only [Option.some.injEq, Prod.mk.injEq] at a1
  obtain ⟨rfl, rfl⟩ := a1
  obtain ⟨o2, f2, sz, p2, b1, b2, _, b4⟩ := valAddPiece_bytes h.ok v hv 0
  rw [hadd] at b1
  simp only [Option.some.injEq, Prod.mk.injEq] at b1
  obtain ⟨rfl, rfl⟩ := b1
  refine ⟨⟨b4 he, a⟩, a9, sz, b2, ?_⟩
  intro pos
  obtain ⟨o3, f3, sz3, p3, c1, c2, c3, _⟩ := valAddPiece_bytes h.ok v hv pos
  rw [hadd] at c1
  simp only [Option.some.injEq, Prod.mk.injEq] at c1
  obtain ⟨rfl, rfl⟩ := c1
  rw [b2] at c2
  simp only [Option.some.injEq, Slot.used.injEq, and_true] at c2
  subst c2
  exact ⟨p3, c3⟩

theorem VG.deletePiece {vf vf' : RecFile (List Nat)} (h : VG sig vf) {off sz0 : Nat} {v0 : List Nat}
    (hu : vf.get off = some (.used sz0 v0))
    (hdel : RecFile.deletePiece valCfg vf off = some vf') :
    VG sig vf' ∧ vf'.end_ = vf.end_ ∧
      ∀ pos, ∃ pos', Gen.valDeletePiece valCfg off ⟨renderValFile sig vf, pos⟩ =
        some (sz0, ⟨renderValFile sig vf', pos'⟩) := by
  have hu' := RecFile.used_eq_some.mpr hu
  obtain ⟨f1, a1, _, _, _, _, _, a7⟩ := deletePiece_spec valCfg_ok h.ok.wf hu'
  rw [hdel] at a1
  simp only [Option.some.injEq] at a1
  subst a1
  obtain ⟨f2, p2, b1, _, b3⟩ := valDeletePiece_bytes h.ok hu 0
  rw [hdel] at b1
  simp only [Option.some.injEq] at b1
  subst b1
  refine ⟨⟨b3, h.fits.deletePiece' hdel⟩, a7, ?_⟩
  intro pos
  obtain ⟨f3, p3, c1, c2, _⟩ := valDeletePiece_bytes h.ok hu pos
  rw [hdel] at c1
  simp only [Option.some.injEq] at c1
  subst c1
  exact ⟨p3, c2⟩

end EU
end Abyss
