import Abyss.Inv
import Abyss.Lemmas.AllocL
import Abyss.Lemmas.ChainL
import Abyss.Lemmas.RelinkL
import Abyss.Lemmas.SpecL
/-!
# `put` refines the ideal map and keeps the invariant
-/
namespace Abyss
namespace Store

/-- `put` of an admissible key never fails (no panic, no hang), re-establishes the invariant
and acts on the abstraction as the ideal map's `put` — whether the key is new, or its value is
rewritten in place, or the value record moves, or the key record moves too and the chain has
to be relinked. -/
theorem put_spec {kt : KeyType} {s : Store} (h : Inv kt s) (k v : List Nat) (hk : KeyOK kt k) :
    ∃ s', s.put kt k v = some s' ∧ Inv kt s' ∧ s'.n = s.n ∧
      Spec.Equiv (abs s') (Spec.put (abs s) k v) := by sorry

end Store
end Abyss
