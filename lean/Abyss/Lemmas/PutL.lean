import Abyss.Inv
import Abyss.Lemmas.AllocL
import Abyss.Lemmas.ChainL
import Abyss.Lemmas.RelinkL
import Abyss.Lemmas.SpecL
import Abyss.Lemmas.PutAux
import Abyss.Lemmas.PutRepl
import Abyss.Lemmas.PutIns
/-!
# `put` refines the ideal map and keeps the invariant
-/
namespace Abyss
namespace Store
namespace Put

/-- `rewrite_spec` as a description of the used records of the new file -/
theorem rewrite_desc {α : Type} {c : FileCfg} {f : RecFile α} (hc : CfgOK c) (h : RecFile.WF c f)
    {off sz0 : Nat} {p0 : α} (hu : f.used off = some (sz0, p0)) {need : Nat} (hn : LegalSz c need) (p : α) :
    ∃ off' sz' f', RecFile.rewrite c f off need p = some (off', f') ∧ RecFile.WF c f' ∧
      (∀ o, f'.used o = if o = off' then some (sz', p) else if o = off then none else f.used o) ∧
      (off' = off ∨ f.used off' = none) ∧ off' ≠ 0 ∧
      RecFile.usedCount f' = RecFile.usedCount f := by
  obtain ⟨off', sz', f', hrw, hwf, hnew, _, hcase, hother, huc, _, _⟩ :=
    RecFile.rewrite_spec hc h hu hn p
  have hoff0 : off ≠ 0 := by
    have := (RecFile.WF.get_bounds hc h (used_iff_get.1 hu)).1
    have := hc.hdr_pos
    omega
  refine ⟨off', sz', f', hrw, hwf, ?_, ?_, ?_, huc⟩
  · intro o
    by_cases h1 : o = off'
    · rw [if_pos h1, h1]; exact hnew
    · rw [if_neg h1]
      by_cases h2 : o = off
      · rw [if_pos h2, h2]
        rcases hcase with ⟨e, _⟩ | ⟨_, _, _, e⟩
        · exact absurd (h2.trans e.symm) h1
        · exact e
      · rw [if_neg h2]
        exact hother o h2 h1
  · rcases hcase with ⟨e, _⟩ | ⟨_, _, e, _⟩
    · exact Or.inl e
    · exact Or.inr e
  · rcases hcase with ⟨e, _⟩ | ⟨_, e, _, _⟩
    · rw [e]; exact hoff0
    · exact e

/-- `addPiece_spec` as a description of the used records of the new file -/
theorem addPiece_desc {α : Type} {c : FileCfg} {f : RecFile α} (hc : CfgOK c) (h : RecFile.WF c f)
    {need : Nat} (hn : LegalSz c need) (p : α) :
    ∃ off sz f', RecFile.addPiece c f need p = some (off, f') ∧ RecFile.WF c f' ∧
      (∀ o, f'.used o = if o = off then some (sz, p) else f.used o) ∧
      f.used off = none ∧ off ≠ 0 ∧
      RecFile.usedCount f' = RecFile.usedCount f + 1 := by
  obtain ⟨off, sz, f', hadd, hwf, _, hnew, hfresh, h0, hother, huc, _, _⟩ :=
    RecFile.addPiece_spec hc h hn p
  refine ⟨off, sz, f', hadd, hwf, ?_, hfresh, h0, huc⟩
  intro o
  by_cases h1 : o = off
  · rw [if_pos h1, h1]; exact hnew
  · rw [if_neg h1]; exact hother o h1

end Put

open Put in
/-- `put` of an admissible key never fails (no panic, no hang), re-establishes the invariant
and acts on the abstraction as the ideal map's `put` — whether the key is new, or its value is
rewritten in place, or the value record moves, or the key record moves too and the chain has
to be relinked. -/
theorem put_spec {kt : KeyType} {s : Store} (h : Inv kt s) (k v : List Nat) (hk : KeyOK kt k) :
    ∃ s', s.put kt k v = some s' ∧ Inv kt s' ∧ s'.n = s.n ∧
      Spec.Equiv (abs s') (Spec.put (abs s) k v) := by
  rcases find_spec h k hk with ⟨off, sz, kr, l1, l2, hfind, hu, hkey, hch⟩ | ⟨hfind, hnf⟩
  · -- the key is present, in the record `kr` at `off`
    subst hkey
    have hget := used_iff_get.1 hu
    obtain ⟨vs, v0, hvu⟩ := h.val_used _ _ _ hu
    have hvget := used_iff_get.1 hvu
    obtain ⟨voff', vsz', vf', hvrw, hvwf, hv1, hvn, _, _⟩ :=
      rewrite_desc valCfg_ok h.vwf hvu (valueNeed_legal v.length) v
    simp only [put, hfind, hget, hvget, hvrw]
    by_cases hv : voff' = kr.valOff
    · -- the value record stayed in place
      rw [if_pos hv]
      subst hv
      refine ⟨_, rfl, ?_⟩
      have R : Repl s { s with vf := vf' } off kr off sz kr.valOff vsz' v :=
        { hn := rfl
          hhead := fun _ => rfl
          hbit := fun _ => rfl
          hcount := rfl
          kwf := h.kwf
          vwf := hvwf
          hk1 := by
            intro o
            by_cases h1 : o = off
            · rw [if_pos h1, h1]; exact hu
            · rw [if_neg h1, if_neg h1]
          hv1 := hv1
          hkn := Or.inl rfl
          hkn0 := kused_ne_zero h.kwf hu
          hvn := hvn
          huc := rfl }
      obtain ⟨hi, he⟩ := R.done h hu hch
      exact ⟨hi, rfl, he⟩
    · -- the value record moved: rewrite the key record
      rw [if_neg hv]
      obtain ⟨koff', ksz', kf', hkrw, hkwf, hk1, hkn, hkn0, huc⟩ :=
        rewrite_desc keyCfg_ok h.kwf hu (keyNeed_legal { kr with valOff := voff' })
          { kr with valOff := voff' }
      simp only [hkrw]
      have R : Repl s { s with vf := vf', kf := kf' } off kr koff' ksz' voff' vsz' v :=
        { hn := rfl
          hhead := fun _ => rfl
          hbit := fun _ => rfl
          hcount := rfl
          kwf := hkwf
          vwf := hvwf
          hk1 := hk1
          hv1 := hv1
          hkn := hkn
          hkn0 := hkn0
          hvn := hvn
          huc := huc }
      by_cases hk2 : koff' = off
      · rw [if_pos hk2]
        subst hk2
        refine ⟨_, rfl, ?_⟩
        obtain ⟨hi, he⟩ := R.done h hu hch
        exact ⟨hi, rfl, he⟩
      · rw [if_neg hk2]
        exact R.relinked hk2 h hu hch
  · -- the key is new
    obtain ⟨voff, vsz, vf', hav, hvwf, hv1, hvfresh, _, _⟩ :=
      addPiece_desc valCfg_ok h.vwf (valueNeed_legal v.length) v
    obtain ⟨koff, ksz, kf', hak, hkwf, hk1, hkfresh, hk0, huc⟩ :=
      addPiece_desc keyCfg_ok h.kwf
        (keyNeed_legal ⟨k, voff, s.headOf (bucketOf k s.n)⟩) ⟨k, voff, s.headOf (bucketOf k s.n)⟩
    simp only [put, hfind, hav, hak]
    refine ⟨_, rfl, ?_⟩
    have I : Ins s { ({ s with vf := vf', kf := kf' } : Store).writeHead (bucketOf k s.n) koff with
        count := s.count + 1 } k v koff ksz voff vsz :=
      { hn := rfl
        hhead := fun b' => headOf_writeHead { s with vf := vf', kf := kf' } (bucketOf k s.n) koff b'
        hbit := fun b' => bitOf_writeHead { s with vf := vf', kf := kf' } (bucketOf k s.n) koff b'
        hcount := rfl
        kwf := hkwf
        vwf := hvwf
        hk1 := hk1
        hv1 := hv1
        hkfresh := hkfresh
        hk0 := hk0
        hvfresh := hvfresh
        huc := huc }
    obtain ⟨hi, he⟩ := I.done h hk hnf
    exact ⟨hi, rfl, he⟩

end Store
end Abyss
