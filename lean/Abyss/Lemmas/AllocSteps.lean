import Abyss.Lemmas.AllocWF
/-!
# The elementary allocator steps on `WFH`
-/
namespace Abyss
variable {α : Type}
namespace RecFile

/-- overwrite the hole with a slot of the same size -/
theorem WFH.set_same {c : FileCfg} {f : RecFile α} {x : Nat} (hc : CfgOK c) (h : WFH c f x) {s s' : Slot α}
    (hg : f.get x = some s) (hs : s'.size = s.size) : WFH c (f.set x s') x := by
  obtain ⟨L, hL, hon⟩ := h.exists_L hc
  have hget : ∀ o, o ≠ x → (f.set x s').get o = f.get o := fun o ho => get_set_ne _ _ _ _ ho
  refine WFH.of_L hc ?_ h.heads_len ?_ L ?_ ?_
  · rw [set_end_same h.tiled hg hs]; exact h.tiled.upsert_same hg hs
  · intro o s0 hg0
    by_cases ho : o = x
    · subst ho; rw [get_set_self] at hg0; cases hg0; rw [hs]; exact h.sizes _ _ hg
    · rw [hget o ho] at hg0; exact h.sizes _ _ hg0
  · intro i hi
    obtain ⟨h1, h2, h3, h4⟩ := hL i hi
    have hne : ∀ o ∈ L i, o ≠ x := fun o ho e => h3 (e ▸ ho)
    refine ⟨h1.congr fun o ho => hget o (hne o ho), h2, h3, fun o ho => ?_⟩
    rw [hget o (hne o ho)]; exact h4 o ho
  · intro o sz nx hox hg0
    rw [hget o hox] at hg0
    exact hon o sz nx hox hg0

/-- append a non-free slot at the end of the file -/
theorem WFH.set_end {c : FileCfg} {f : RecFile α} {x : Nat} (hc : CfgOK c) (h : WFH c f x) {s : Slot α}
    (hs : LegalSz c s.size) (hu : ∀ sz nx, s ≠ .free sz nx) : WFH c (f.set f.end_ s) x := by
  obtain ⟨L, hL, hon⟩ := h.exists_L hc
  have hpos := hc.legal_pos _ hs
  have hend : f.get f.end_ = none := h.tiled.aget_end
  have hget : ∀ o, o ≠ f.end_ → (f.set f.end_ s).get o = f.get o := fun o ho => get_set_ne _ _ _ _ ho
  have hfree : ∀ o sz nx, f.get o = some (.free sz nx) → o ≠ f.end_ := by
    intro o sz nx hg e; rw [e, hend] at hg; cases hg
  refine WFH.of_L hc ?_ h.heads_len ?_ L ?_ ?_
  · have : (f.set f.end_ s).end_ = f.end_ + s.size := by
      show max f.end_ (f.end_ + s.size) = _
      omega
    rw [this]; exact h.tiled.upsert_end hpos
  · intro o s0 hg0
    by_cases ho : o = f.end_
    · subst ho; rw [get_set_self] at hg0; cases hg0; exact hs
    · rw [hget o ho] at hg0; exact h.sizes _ _ hg0
  · intro i hi
    obtain ⟨h1, h2, h3, h4⟩ := hL i hi
    have hne : ∀ o ∈ L i, o ≠ f.end_ := by
      intro o ho
      obtain ⟨sz, nx, hg, _⟩ := h4 o ho
      exact hfree o sz nx hg
    refine ⟨h1.congr fun o ho => hget o (hne o ho), h2, h3, fun o ho => ?_⟩
    rw [hget o (hne o ho)]; exact h4 o ho
  · intro o sz nx hox hg0
    by_cases ho : o = f.end_
    · subst ho; rw [get_set_self] at hg0; cases hg0; exact absurd rfl (hu sz nx)
    · rw [hget o ho] at hg0
      exact hon o sz nx hox hg0

/-- make the hole the new head of the list of its class -/
theorem WFH.link_head {c : FileCfg} {f : RecFile α} {x : Nat} (hc : CfgOK c) (h : WFH c f x) (hx : x ≠ 0)
    {sz : Nat} (hg : f.get x = some (.free sz (f.heads.getD (headIdx c sz) 0))) :
    WFH c (setHead c f sz x) 0 := by
  obtain ⟨L, hL, hon⟩ := h.exists_L hc
  have hidx := hc.idx_lt sz
  refine WFH.of_L hc h.tiled (by rw [setHead_heads_len]; exact h.heads_len) h.sizes
    (fun j => if j = headIdx c sz then x :: L j else L j) ?_ ?_
  · intro i hi
    obtain ⟨h1, h2, h3, h4⟩ := hL i hi
    have h0 : 0 ∉ L i := fun hm => (h1.mem_free hm).1 rfl
    by_cases hi' : i = headIdx c sz
    · subst hi'
      simp only [if_true]
      rw [setHead_head_self _ _ _ _ (by rw [h.heads_len]; exact hidx)]
      refine ⟨⟨hx, rfl, sz, _, hg, h1.congr fun _ _ => rfl⟩, List.nodup_cons.mpr ⟨h3, h2⟩, ?_, ?_⟩
      · simp only [List.mem_cons, not_or]; exact ⟨Ne.symm hx, h0⟩
      · intro o ho
        rcases List.mem_cons.mp ho with e | ho'
        · subst e; exact ⟨sz, _, hg, rfl⟩
        · exact h4 o ho'
    · simp only [hi', if_false]
      rw [setHead_head_ne _ _ _ _ _ hi']
      exact ⟨h1.congr fun _ _ => rfl, h2, h0, h4⟩
  · intro o sz' nx _ hg0
    simp only [setHead_get] at hg0
    by_cases hox : o = x
    · subst hox
      rw [hg] at hg0
      simp only [Option.some.injEq, Slot.free.injEq] at hg0
      obtain ⟨rfl, _⟩ := hg0
      simp
    · have := hon o sz' nx hox hg0
      by_cases hi' : headIdx c sz' = headIdx c sz
      · simp only [hi', if_true]; rw [hi'] at this; exact List.mem_cons_of_mem _ this
      · simp only [hi', if_false]; exact this

/-- unlink the head of a list; it becomes the hole -/
theorem WFH.unlink_head {c : FileCfg} {f : RecFile α} (hc : CfgOK c) (h : WFH c f 0) {hd sz nx : Nat}
    (hh : f.heads.getD (headIdx c sz) 0 = hd) (hd0 : hd ≠ 0) (hg : f.get hd = some (.free sz nx)) :
    WFH c (setHead c f sz nx) hd := by
  obtain ⟨L, hL, hon⟩ := h.exists_L hc
  have hidx := hc.idx_lt sz
  obtain ⟨c1, c2, c3, c4⟩ := hL _ hidx
  rw [hh] at c1
  -- the list of the class is `hd :: t`
  obtain ⟨t, ht⟩ : ∃ t, L (headIdx c sz) = hd :: t := by
    cases hl : L (headIdx c sz) with
    | nil => rw [hl] at c1; exact absurd c1 hd0
    | cons o t => rw [hl] at c1; obtain ⟨_, rfl, _⟩ := c1; exact ⟨t, rfl⟩
  rw [ht] at c1 c2 c3 c4
  obtain ⟨_, _, sz', nx', hg', ct⟩ := c1
  rw [hg] at hg'
  simp only [Option.some.injEq, Slot.free.injEq] at hg'
  obtain ⟨rfl, rfl⟩ := hg'
  have hnd := List.nodup_cons.mp c2
  refine WFH.of_L hc h.tiled (by rw [setHead_heads_len]; exact h.heads_len) h.sizes
    (fun j => if j = headIdx c sz then t else L j) ?_ ?_
  · intro i hi
    by_cases hi' : i = headIdx c sz
    · subst hi'
      simp only [if_true]
      rw [setHead_head_self _ _ _ _ (by rw [h.heads_len]; exact hidx)]
      exact ⟨ct.congr fun _ _ => rfl, hnd.2, hnd.1, fun o ho => c4 o (List.mem_cons_of_mem _ ho)⟩
    · simp only [hi', if_false]
      rw [setHead_head_ne _ _ _ _ _ hi']
      obtain ⟨h1, h2, h3, h4⟩ := hL i hi
      refine ⟨h1.congr fun _ _ => rfl, h2, ?_, h4⟩
      intro hm
      obtain ⟨sz'', nx'', hg'', hcl⟩ := h4 hd hm
      rw [hg] at hg''
      simp only [Option.some.injEq, Slot.free.injEq] at hg''
      obtain ⟨rfl, _⟩ := hg''
      exact hi' hcl.symm
  · intro o sz' nx' hox hg0
    simp only [setHead_get] at hg0
    have ho0 : o ≠ 0 := by
      intro e; subst e; rw [get_zero_none hc h.tiled] at hg0; cases hg0
    have := hon o sz' nx' ho0 hg0
    by_cases hi' : headIdx c sz' = headIdx c sz
    · simp only [hi', if_true]
      rw [hi', ht] at this
      rcases List.mem_cons.mp this with e | hm
      · exact absurd e hox
      · exact hm
    · simp only [hi', if_false]; exact this

/-- chain surgery: drop `cur` behind `prev` -/
theorem IsChain.unlink {f : RecFile α} {h : Nat} {l1 l2 : List Nat} {prev cur : Nat}
    (a : IsChain f h (l1 ++ prev :: cur :: l2)) (nd : (l1 ++ prev :: cur :: l2).Nodup) :
    ∃ psz sz nx, f.get prev = some (.free psz cur) ∧ f.get cur = some (.free sz nx) ∧
      ∀ psz', IsChain (f.set prev (.free psz' nx)) h (l1 ++ prev :: l2) := by
  induction l1 generalizing h with
  | nil =>
    simp only [List.nil_append] at a nd
    obtain ⟨h0, rfl, psz, nx0, hg, hc1⟩ := a
    obtain ⟨_, e, sz, nx, hg2, hc2⟩ := hc1
    subst e
    refine ⟨psz, sz, nx, hg, hg2, fun psz' => ?_⟩
    simp only [List.nil_append]
    refine ⟨h0, rfl, psz', nx, get_set_self _ _ _, hc2.congr fun o ho => get_set_ne _ _ _ _ ?_⟩
    intro e; subst e
    have := (List.nodup_cons.mp nd).1
    exact this (List.mem_cons_of_mem _ ho)
  | cons o l1 ih =>
    simp only [List.cons_append] at a nd
    obtain ⟨h0, rfl, sz0, nx0, hg, hc1⟩ := a
    have hnd := List.nodup_cons.mp nd
    obtain ⟨psz, sz, nx, e1, e2, e3⟩ := ih hc1 hnd.2
    refine ⟨psz, sz, nx, e1, e2, fun psz' => ?_⟩
    simp only [List.cons_append]
    refine ⟨h0, rfl, sz0, nx0, ?_, e3 psz'⟩
    rw [get_set_ne _ _ _ _ ?_]; exact hg
    intro e; subst e
    exact hnd.1 (by simp)

/-- unlink `cur` from its predecessor `prev` on the list of class `i`; it becomes the hole -/
theorem WFH.unlink_mid {c : FileCfg} {f : RecFile α} (hc : CfgOK c) (h : WFH c f 0) {i : Nat} (hi : i < 16)
    {l1 l2 : List Nat} {prev cur : Nat} (hl : IsChain f (f.heads.getD i 0) (l1 ++ prev :: cur :: l2))
    {psz sz nx : Nat} (hgp : f.get prev = some (.free psz cur)) (hgc : f.get cur = some (.free sz nx)) :
    WFH c (f.set prev (.free psz nx)) cur := by
  obtain ⟨L, hL, hon⟩ := h.exists_L hc
  obtain ⟨c1, c2, c3, c4⟩ := hL i hi
  have hLi := c1.unique hl
  rw [hLi] at c2 c4
  obtain ⟨psz', sz', nx', e1, e2, e3⟩ := hl.unlink c2
  rw [hgp] at e1; rw [hgc] at e2
  simp only [Option.some.injEq, Slot.free.injEq] at e1 e2
  obtain ⟨rfl, _⟩ := e1
  obtain ⟨rfl, rfl⟩ := e2
  have hpc : prev ≠ cur := by
    intro e; subst e
    have := (List.nodup_append.mp c2).2.1
    simp at this
  have hget : ∀ o, o ≠ prev → (f.set prev (.free psz nx)).get o = f.get o := fun o ho => get_set_ne _ _ _ _ ho
  have hcls : headIdx c psz = i := by
    obtain ⟨s1, n1, g1, k1⟩ := c4 prev (by simp)
    rw [hgp] at g1
    simp only [Option.some.injEq, Slot.free.injEq] at g1
    obtain ⟨rfl, _⟩ := g1
    exact k1
  have hsize : (Slot.free psz nx : Slot α).size = (Slot.free psz cur : Slot α).size := rfl
  refine WFH.of_L hc ?_ h.heads_len ?_ (fun j => if j = i then l1 ++ prev :: l2 else L j) ?_ ?_
  · rw [set_end_same h.tiled hgp hsize]; exact h.tiled.upsert_same hgp hsize
  · intro o s0 hg0
    by_cases ho : o = prev
    · subst ho; rw [get_set_self] at hg0; cases hg0; exact h.sizes _ (.free psz cur) hgp
    · rw [hget o ho] at hg0; exact h.sizes _ _ hg0
  · intro j hj
    by_cases hj' : j = i
    · subst hj'
      simp only [if_true]
      refine ⟨e3 psz, ?_, ?_, ?_⟩
      · have := List.nodup_append.mp c2
        refine List.nodup_append.mpr ⟨this.1, ?_, ?_⟩
        · have := List.nodup_cons.mp this.2.1
          have t2 := List.nodup_cons.mp this.2
          exact List.nodup_cons.mpr ⟨fun hm => this.1 (List.mem_cons_of_mem _ hm), t2.2⟩
        · intro a ha b hb
          exact this.2.2 a ha b (by
            rcases List.mem_cons.mp hb with e | hb
            · simp [e]
            · simp [hb])
      · intro hm
        have hnd := List.nodup_append.mp c2
        rcases List.mem_append.mp hm with hm | hm
        · exact hnd.2.2 cur hm cur (by simp) rfl
        · rcases List.mem_cons.mp hm with e | hm
          · exact hpc e.symm
          · have := (List.nodup_cons.mp (List.nodup_cons.mp hnd.2.1).2).1
            exact this hm
      · intro o ho
        by_cases hop : o = prev
        · subst hop; exact ⟨psz, nx, get_set_self _ _ _, hcls⟩
        · rw [hget o hop]
          apply c4
          rcases List.mem_append.mp ho with hm | hm
          · simp [hm]
          · rcases List.mem_cons.mp hm with e | hm
            · exact absurd e hop
            · simp [hm]
    · simp only [hj', if_false]
      obtain ⟨h1, h2, h3, h4⟩ := hL j hj
      have hnp : ∀ o ∈ L j, o ≠ prev := by
        intro o ho e; subst e
        obtain ⟨s1, n1, g1, k1⟩ := h4 o ho
        rw [hgp] at g1
        simp only [Option.some.injEq, Slot.free.injEq] at g1
        obtain ⟨rfl, _⟩ := g1
        exact hj' (k1.symm.trans hcls)
      refine ⟨h1.congr fun o ho => hget o (hnp o ho), h2, ?_, fun o ho => ?_⟩
      · intro hm
        obtain ⟨s1, n1, g1, k1⟩ := h4 cur hm
        rw [hgc] at g1
        simp only [Option.some.injEq, Slot.free.injEq] at g1
        obtain ⟨rfl, _⟩ := g1
        obtain ⟨s2, n2, g2, k2⟩ := c4 cur (by simp)
        rw [hgc] at g2
        simp only [Option.some.injEq, Slot.free.injEq] at g2
        obtain ⟨rfl, _⟩ := g2
        exact hj' (k1.symm.trans k2)
      · rw [hget o (hnp o ho)]; exact h4 o ho
  · intro o sz' nx' hox hg0
    by_cases hop : o = prev
    · subst hop
      rw [get_set_self] at hg0
      simp only [Option.some.injEq, Slot.free.injEq] at hg0
      obtain ⟨rfl, _⟩ := hg0
      simp [hcls]
    · rw [hget o hop] at hg0
      have ho0 : o ≠ 0 := by
        intro e; subst e; rw [get_zero_none hc h.tiled] at hg0; cases hg0
      have := hon o sz' nx' ho0 hg0
      by_cases hj' : headIdx c sz' = i
      · simp only [hj', if_true]
        rw [hj', hLi] at this
        rcases List.mem_append.mp this with hm | hm
        · simp [hm]
        · rcases List.mem_cons.mp hm with e | hm
          · simp [e]
          · rcases List.mem_cons.mp hm with e | hm
            · exact absurd e hox
            · simp [hm]
      · simp only [hj', if_false]; exact this

end RecFile
end Abyss
