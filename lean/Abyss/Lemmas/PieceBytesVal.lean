import Abyss.Lemmas.AllocBytes
import Abyss.Props.C09
import Abyss.Lemmas.PieceBytesValAux3
import Abyss.Lemmas.RelinkL
/-!
# Piece-level I/O, byte level: the code generated from `val.rs` / `key.rs` refines the model

`Gen.valWritePiece` / `Gen.keyWritePiece` (`write_piece`: in place if the rounded need fits the old
slot, else free the old slot and allocate — pop a free slot, which keeps its own size, or append),
`Gen.valAddPiece` / `Gen.keyAddPiece`, `Gen.valDeletePiece` / `Gen.keyDeletePiece` and the record
readers are translated from the Rust source on every run. Run on the rendered image of a record
file they give the rendered image of what `RecFile.addPiece` / `rewrite` / `deletePiece` give, the
same offsets and sizes, and the readers return the stored record.
-/
namespace Abyss
open RecFile FileM

/-! ## value file -/

abbrev VOK (sig2 : List Nat) (f : RecFile (List Nat)) : Prop := ByteOK valCfg sig2 renderValSlot f

/-- the rendering of a used value slot starts with its size field -/
theorem val_used_form (sz : Nat) (v : List Nat) :
    renderValSlot (.used sz v) = Vu64.encode ((Slot.used sz v : Slot (List Nat)).size / 8) ++
      (Vu64.encode v.length ++ (v ++ zeros (sz - (valContent sz v).length))) := by
  show padTo sz (valContent sz v) = _
  unfold padTo valContent
  simp only [Slot.size, List.append_assoc]

/-- size, alignment and position of a used slot of a `VOK` file -/
theorem VOK.used_bounds {sig2 : List Nat} {f : RecFile (List Nat)} (h : VOK sig2 f) {off sz : Nat} {v : List Nat}
    (hu : f.get off = some (.used sz v)) :
    LegalSz valCfg sz ∧ 8 ∣ sz ∧ 16 ≤ sz ∧ sz < 2^32 ∧ off + sz ≤ f.end_ := by
  have hleg : LegalSz valCfg sz := h.wf.sizes _ _ hu
  obtain ⟨h8, h16⟩ := h.legal8 sz hleg
  have hb : _ ∧ off + sz ≤ f.end_ ∧ _ := h.wf.tiled.bounds hu
  have := h.end_lt
  exact ⟨hleg, h8, h16, by omega, hb.2.1⟩

/-- the "add new" part of `write_piece` on the image of a `VOK` file is `addPiece` -/
theorem valAddNew_bytes {sig2 : List Nat} {f : RecFile (List Nat)} (h : VOK sig2 f) (v : List Nat)
    (hv : v.length < 2^31) (pos : Nat) :
    ∃ off f' sz pos', addPiece valCfg f (valueNeed v.length) v = some (off, f') ∧
      f'.get off = some (.used sz v) ∧
      valAddNew (valueNeed v.length) v ⟨recImage valCfg sig2 renderValSlot f, pos⟩ =
        some ((off, sz), ⟨recImage valCfg sig2 renderValSlot f', pos'⟩) ∧
      (f'.end_ < 2^32 → VOK sig2 f') := by
  have hn := Store.valueNeed_legal v.length
  have hN := C09_valueNeed_legal v.length hv
  obtain ⟨off, sz, f1, ea, rb, lay1, hle, hl, hoe, hcase⟩ := allocSlot_bytes h hn pos
  obtain ⟨off', sz', f', a1, a2, _⟩ := addPiece_full h.cfg h.wf hn v
  have hadd : addPiece valCfg f (valueNeed v.length) v = some (off, f1.set off (.used sz v)) := by
    simp only [addPiece, ea]
  rw [hadd] at a1
  simp only [Option.some.injEq, Prod.mk.injEq] at a1
  obtain ⟨rfl, rfl⟩ := a1
  have hS : LegalSize sz := by
    refine ⟨(h.legal8 sz hl).1, (h.legal8 sz hl).2, ?_⟩
    rcases hcase with ⟨_, e, _⟩ | ⟨_, _, e⟩
    · rw [e]; exact hN.2.2
    · exact e
  have hr : (renderValSlot (.used sz v)).length = sz := C09_renderValSlot_length sz v hv hS hle
  have hfit := C09_value_fits_larger v hv sz hS hle
  have hw : Gen.valDatWritePieceOne off sz v ⟨recImage valCfg sig2 renderValSlot f1, off⟩ =
      some ((), wr (renderValSlot (.used sz v)) ⟨recImage valCfg sig2 renderValSlot f1, off⟩) :=
    valDatWritePieceOne_spec off sz v _ off (by rw [image_length lay1]; exact hoe)
      (by have := hS.2.1; omega) hfit hS.2.2 (by omega)
  have himg : wr (renderValSlot (.used sz v)) ⟨recImage valCfg sig2 renderValSlot f1, off⟩ =
      ⟨recImage valCfg sig2 renderValSlot (f1.set off (.used sz v)), off + sz⟩ := by
    rcases hcase with ⟨e1, _, e3⟩ | ⟨hg1, _, _⟩
    · rw [e1, ← e3]
      exact wr_end_img lay1 (.used sz v) hr
    · exact wr_slot_img lay1 hg1 rfl hr
  refine ⟨off, f1.set off (.used sz v), sz, off + sz, hadd, get_set_self _ _ _, ?_, ?_⟩
  · unfold valAddNew
    rw [← bind_assoc_apply (Gen.popFreePieceList valCfg _) (allocBlock _) _, bind_some rb]
    simp only []
    rw [bind_some hw, pure_apply, himg]
  · intro hend
    refine h.transfer a2 hend ?_
    intro p hp
    rcases mem_upsert (show p ∈ upsert f1.slots off (.used sz v) from hp) with hm | hm
    · exact lay1.slot_len p hm
    · subst hm; exact hr

theorem valAddPiece_bytes {sig2 : List Nat} {f : RecFile (List Nat)} (h : VOK sig2 f) (v : List Nat)
    (hv : v.length < 2^31) (pos : Nat) :
    ∃ off f' sz pos', addPiece valCfg f (valueNeed v.length) v = some (off, f') ∧
      f'.get off = some (.used sz v) ∧
      Gen.valAddPiece valCfg v ⟨renderValFile sig2 f, pos⟩ = some ((off, sz), ⟨renderValFile sig2 f', pos'⟩) ∧
      (f'.end_ < 2^32 → VOK sig2 f') := by
  have e : Gen.valAddPiece valCfg v = Gen.valWritePiece valCfg 0 v true := rfl
  rw [e, valWritePiece_new v hv 0]
  exact valAddNew_bytes h v hv pos

theorem valRewrite_bytes {sig2 : List Nat} {f : RecFile (List Nat)} (h : VOK sig2 f) {off sz0 : Nat} {v0 : List Nat}
    (hu : f.get off = some (.used sz0 v0)) (v : List Nat) (hv : v.length < 2^31) (pos : Nat) :
    ∃ off' f' sz pos', rewrite valCfg f off (valueNeed v.length) v = some (off', f') ∧
      f'.get off' = some (.used sz v) ∧
      Gen.valWritePiece valCfg off v false ⟨renderValFile sig2 f, pos⟩ =
        some ((off', sz), ⟨renderValFile sig2 f', pos'⟩) ∧
      (f'.end_ < 2^32 → VOK sig2 f') := by
  have lay := h.lay
  have hn := Store.valueNeed_legal v.length
  obtain ⟨hleg, h8, h16, h32, hb⟩ := h.used_bounds hu
  have r0 := readSize_img lay hu (val_used_form sz0 v0) h8 h32 pos
  simp only [Slot.size] at r0
  have hlen : off ≤ (recImage valCfg sig2 renderValSlot f).length := by rw [image_length lay]; omega
  show ∃ off' f' sz pos', _ ∧ _ ∧ Gen.valWritePiece valCfg off v false ⟨recImage valCfg sig2 renderValSlot f, pos⟩ =
        some ((off', sz), ⟨recImage valCfg sig2 renderValSlot f', pos'⟩) ∧ _
  rw [valWritePiece_old v hv off]
  by_cases hle : valueNeed v.length ≤ sz0
  · obtain ⟨off', sz', f', e1, w, _⟩ := rewrite_spec h.cfg h.wf (used_eq_some.mpr hu) hn v
    have hrw : rewrite valCfg f off (valueNeed v.length) v = some (off, f.set off (.used sz0 v)) := by
      simp only [rewrite, hu, Slot.size, hle, if_true]
    rw [hrw] at e1
    simp only [Option.some.injEq, Prod.mk.injEq] at e1
    obtain ⟨rfl, rfl⟩ := e1
    have hS : LegalSize sz0 := ⟨h8, h16, h32⟩
    have hr : (renderValSlot (.used sz0 v)).length = sz0 := C09_renderValSlot_length sz0 v hv hS hle
    have hfit := C09_value_fits_larger v hv sz0 hS hle
    refine ⟨off, f.set off (.used sz0 v), sz0, off + sz0, hrw, get_set_self _ _ _, ?_, ?_⟩
    · rw [bind_some r0, if_pos hle, bind_some (seekFromStart_spec off _ _ hlen),
        bind_some (valDatWritePieceOne_spec off sz0 v _ off hlen (by omega) hfit h32 (by omega)),
        pure_apply, wr_slot_img (s' := .used sz0 v) lay hu rfl hr]
      rfl
    · intro hend
      refine h.transfer w hend ?_
      intro p hp
      rcases mem_upsert (show p ∈ upsert f.slots off (.used sz0 v) from hp) with hm | hm
      · exact h.slot_len p hm
      · subst hm; exact hr
  · obtain ⟨p1, r1⟩ := pushFree_bytes h hu (off + (Vu64.encode (sz0 / 8)).length)
    simp only [renderRecFile_eq_recImage] at r1
    obtain ⟨off', f', sz, pos', e1, e2, e3, e4⟩ := valAddNew_bytes (h.pushFree hu) v hv p1
    refine ⟨off', f', sz, pos', ?_, e2, ?_, e4⟩
    · simp only [rewrite, hu, Slot.size, hle, if_false, e1]
    · rw [bind_some r0, if_neg hle, bind_some r1, e3]

theorem valDeletePiece_bytes {sig2 : List Nat} {f : RecFile (List Nat)} (h : VOK sig2 f) {off sz0 : Nat} {v0 : List Nat}
    (hu : f.get off = some (.used sz0 v0)) (pos : Nat) :
    ∃ f' pos', deletePiece valCfg f off = some f' ∧
      Gen.valDeletePiece valCfg off ⟨renderValFile sig2 f, pos⟩ = some (sz0, ⟨renderValFile sig2 f', pos'⟩) ∧
      VOK sig2 f' := by
  have lay := h.lay
  obtain ⟨hleg, h8, h16, h32, hb⟩ := h.used_bounds hu
  have r0 := readSize_img lay hu (val_used_form sz0 v0) h8 h32 pos
  simp only [Slot.size] at r0
  obtain ⟨p1, r1⟩ := pushFree_bytes h hu (off + (Vu64.encode (sz0 / 8)).length)
  simp only [renderRecFile_eq_recImage] at r1
  refine ⟨pushFree valCfg f off sz0, p1, by simp only [deletePiece, hu, Slot.size], ?_, h.pushFree hu⟩
  show Gen.valDeletePiece valCfg off ⟨recImage valCfg sig2 renderValSlot f, pos⟩ =
    some (sz0, ⟨recImage valCfg sig2 renderValSlot (pushFree valCfg f off sz0), p1⟩)
  unfold Gen.valDeletePiece
  rw [bind_some r0, bind_some r1, pure_apply]

/-- the readers return what is stored and leave the bytes alone -/
theorem valRead_bytes {sig2 : List Nat} {f : RecFile (List Nat)} (h : VOK sig2 f) {off sz : Nat} {v : List Nat}
    (hu : f.get off = some (.used sz v)) (hv : v.length < 2^31) (pos : Nat) :
    (∃ pos', Gen.valReadPiece off ⟨renderValFile sig2 f, pos⟩ = some ((sz, v), ⟨renderValFile sig2 f, pos'⟩)) ∧
    (∃ pos', Gen.valReadPieceOnlyValue off ⟨renderValFile sig2 f, pos⟩ = some (v, ⟨renderValFile sig2 f, pos'⟩)) ∧
    (∃ pos', Gen.valReadPieceOnlySize off ⟨renderValFile sig2 f, pos⟩ = some (sz, ⟨renderValFile sig2 f, pos'⟩)) := by
  have lay := h.lay
  obtain ⟨hleg, h8, h16, h32, hb⟩ := h.used_bounds hu
  obtain ⟨Q, hd⟩ := slot_drop_img lay hu
  have hlen : off ≤ (recImage valCfg sig2 renderValSlot f).length := by rw [image_length lay]; omega
  rw [val_used_form] at hd
  simp only [Slot.size, List.append_assoc] at hd
  have h2 := drop_add_of_drop_eq hd
  have h3 := drop_add_of_drop_eq h2
  have hl2 := lt_length_of_drop_eq h2
  have hp1 := encode_length_pos v.length
  have hsz : sz / 8 * 8 = sz := Nat.div_mul_cancel h8
  have hlen3 : off + (Vu64.encode (sz / 8)).length + (Vu64.encode v.length).length ≤
      (recImage valCfg sig2 renderValSlot f).length := by
    omega
  show (∃ pos', Gen.valReadPiece off ⟨recImage valCfg sig2 renderValSlot f, pos⟩ = some ((sz, v), ⟨recImage valCfg sig2 renderValSlot f, pos'⟩)) ∧
    (∃ pos', Gen.valReadPieceOnlyValue off ⟨recImage valCfg sig2 renderValSlot f, pos⟩ = some (v, ⟨recImage valCfg sig2 renderValSlot f, pos'⟩)) ∧
    (∃ pos', Gen.valReadPieceOnlySize off ⟨recImage valCfg sig2 renderValSlot f, pos⟩ = some (sz, ⟨recImage valCfg sig2 renderValSlot f, pos'⟩))
  refine ⟨⟨off + (Vu64.encode (sz / 8)).length + (Vu64.encode v.length).length + v.length, ?_⟩,
    ⟨off + (Vu64.encode (sz / 8)).length + (Vu64.encode v.length).length + v.length, ?_⟩,
    ⟨off + (Vu64.encode (sz / 8)).length, ?_⟩⟩
  · unfold Gen.valReadPiece
    rw [bind_some (seekFromStart_spec off _ pos hlen), bind_some (readPieceSize_spec hd (by omega)),
      bind_some (readValueLen_spec h2 (by omega)), bind_some (readBytes_spec h3 hlen3), pure_apply, hsz]
  · unfold Gen.valReadPieceOnlyValue
    rw [bind_some (seekSkipToPieceValue_spec pos hd hlen),
      bind_some (readValueLen_spec h2 (by omega)), bind_some (readBytes_spec h3 hlen3), pure_apply]
  · unfold Gen.valReadPieceOnlySize
    rw [bind_some (seekFromStart_spec off _ pos hlen), readPieceSize_spec hd (by omega), hsz]

end Abyss
