import Abyss.Lemmas.BoundStore
import Abyss.Lemmas.SizesL
/-!
# Helpers for `Props/C01Budget`: how far one call can extend the two record files

* arithmetic of `Gen.roundup` on the size table, and a `rank` that is strictly increasing along the
  legal slot sizes;
* a *potential* of a record file (`pot`): a sum over the used records, stated over the offsets below
  a bound so that the pointwise specifications of `addPiece` / `rewrite` / `deletePiece` apply;
* `Trans c φ f f' charge`: the file grew from `f` to `f'`, and `end_ + potential` grew by at most
  `charge`;
* the store level: `relink`, `put`, `del` as `Trans` on the key file and on the value file.

Why a potential is needed: one `put` or `del` can move *many* key records (a moved record changes the
`next` field of its predecessor, whose encoding may get longer, so the predecessor may have to move
as well, and so on up the chain — `relink`). A key record moves only to a strictly larger slot, and
all slot sizes a key of a given length can ever need lie within four consecutive legal sizes, so
every key record is appended at most four times during its life. The `put` that creates the record
pays for all of them in advance.
-/
namespace Abyss
namespace Budget
open RecFile
variable {α : Type}

/-! ## `roundup` and `rank` -/

/-- `roundup` on the size table, in a form `omega` can consume -/
theorem roundup_spec (x : Nat) :
    (x ≤ 16 ∧ Gen.roundup AllocCfg.tbl x = 16) ∨ (16 < x ∧ x ≤ 24 ∧ Gen.roundup AllocCfg.tbl x = 24) ∨
    (24 < x ∧ x ≤ 32 ∧ Gen.roundup AllocCfg.tbl x = 32) ∨ (32 < x ∧ x ≤ 48 ∧ Gen.roundup AllocCfg.tbl x = 48) ∨
    (48 < x ∧ x ≤ 64 ∧ Gen.roundup AllocCfg.tbl x = 64) ∨ (64 < x ∧ x ≤ 80 ∧ Gen.roundup AllocCfg.tbl x = 80) ∨
    (80 < x ∧ x ≤ 96 ∧ Gen.roundup AllocCfg.tbl x = 96) ∨ (96 < x ∧ x ≤ 112 ∧ Gen.roundup AllocCfg.tbl x = 112) ∨
    (112 < x ∧ x ≤ 128 ∧ Gen.roundup AllocCfg.tbl x = 128) ∨ (128 < x ∧ x ≤ 256 ∧ Gen.roundup AllocCfg.tbl x = 256) ∨
    (256 < x ∧ x ≤ 384 ∧ Gen.roundup AllocCfg.tbl x = 384) ∨ (384 < x ∧ x ≤ 512 ∧ Gen.roundup AllocCfg.tbl x = 512) ∨
    (512 < x ∧ x ≤ 640 ∧ Gen.roundup AllocCfg.tbl x = 640) ∨ (640 < x ∧ x ≤ 768 ∧ Gen.roundup AllocCfg.tbl x = 768) ∨
    (768 < x ∧ x ≤ 896 ∧ Gen.roundup AllocCfg.tbl x = 896) ∨
    (896 < x ∧ Gen.roundup AllocCfg.tbl x = ((x + 128) / 128) * 128) := by
  by_cases h0 : x ≤ 16
  · have e : Gen.roundup AllocCfg.tbl x = 16 := by simp [Gen.roundup, AllocCfg.tbl, h0]
    exact Or.inl ⟨h0, e⟩
  by_cases h1 : x ≤ 24
  · have e : Gen.roundup AllocCfg.tbl x = 24 := by simp [Gen.roundup, AllocCfg.tbl, h0, h1]
    exact Or.inr (Or.inl ⟨by omega, h1, e⟩)
  by_cases h2 : x ≤ 32
  · have e : Gen.roundup AllocCfg.tbl x = 32 := by simp [Gen.roundup, AllocCfg.tbl, h0, h1, h2]
    exact Or.inr (Or.inr (Or.inl ⟨by omega, h2, e⟩))
  by_cases h3 : x ≤ 48
  · have e : Gen.roundup AllocCfg.tbl x = 48 := by simp [Gen.roundup, AllocCfg.tbl, h0, h1, h2, h3]
    exact Or.inr (Or.inr (Or.inr (Or.inl ⟨by omega, h3, e⟩)))
  by_cases h4 : x ≤ 64
  · have e : Gen.roundup AllocCfg.tbl x = 64 := by simp [Gen.roundup, AllocCfg.tbl, h0, h1, h2, h3, h4]
    exact Or.inr (Or.inr (Or.inr (Or.inr (Or.inl ⟨by omega, h4, e⟩))))
  by_cases h5 : x ≤ 80
  · have e : Gen.roundup AllocCfg.tbl x = 80 := by simp [Gen.roundup, AllocCfg.tbl, h0, h1, h2, h3, h4, h5]
    exact Or.inr (Or.inr (Or.inr (Or.inr (Or.inr (Or.inl ⟨by omega, h5, e⟩)))))
  by_cases h6 : x ≤ 96
  · have e : Gen.roundup AllocCfg.tbl x = 96 := by simp [Gen.roundup, AllocCfg.tbl, h0, h1, h2, h3, h4, h5, h6]
    exact Or.inr (Or.inr (Or.inr (Or.inr (Or.inr (Or.inr (Or.inl ⟨by omega, h6, e⟩))))))
  by_cases h7 : x ≤ 112
  · have e : Gen.roundup AllocCfg.tbl x = 112 := by simp [Gen.roundup, AllocCfg.tbl, h0, h1, h2, h3, h4, h5, h6, h7]
    exact Or.inr (Or.inr (Or.inr (Or.inr (Or.inr (Or.inr (Or.inr (Or.inl ⟨by omega, h7, e⟩)))))))
  by_cases h8 : x ≤ 128
  · have e : Gen.roundup AllocCfg.tbl x = 128 := by simp [Gen.roundup, AllocCfg.tbl, h0, h1, h2, h3, h4, h5, h6, h7, h8]
    exact Or.inr (Or.inr (Or.inr (Or.inr (Or.inr (Or.inr (Or.inr (Or.inr (Or.inl ⟨by omega, h8, e⟩))))))))
  by_cases h9 : x ≤ 256
  · have e : Gen.roundup AllocCfg.tbl x = 256 := by simp [Gen.roundup, AllocCfg.tbl, h0, h1, h2, h3, h4, h5, h6, h7, h8, h9]
    exact Or.inr (Or.inr (Or.inr (Or.inr (Or.inr (Or.inr (Or.inr (Or.inr (Or.inr (Or.inl ⟨by omega, h9, e⟩)))))))))
  by_cases h10 : x ≤ 384
  · have e : Gen.roundup AllocCfg.tbl x = 384 := by simp [Gen.roundup, AllocCfg.tbl, h0, h1, h2, h3, h4, h5, h6, h7, h8, h9, h10]
    exact Or.inr (Or.inr (Or.inr (Or.inr (Or.inr (Or.inr (Or.inr (Or.inr (Or.inr (Or.inr (Or.inl ⟨by omega, h10, e⟩))))))))))
  by_cases h11 : x ≤ 512
  · have e : Gen.roundup AllocCfg.tbl x = 512 := by simp [Gen.roundup, AllocCfg.tbl, h0, h1, h2, h3, h4, h5, h6, h7, h8, h9, h10, h11]
    exact Or.inr (Or.inr (Or.inr (Or.inr (Or.inr (Or.inr (Or.inr (Or.inr (Or.inr (Or.inr (Or.inr (Or.inl ⟨by omega, h11, e⟩)))))))))))
  by_cases h12 : x ≤ 640
  · have e : Gen.roundup AllocCfg.tbl x = 640 := by simp [Gen.roundup, AllocCfg.tbl, h0, h1, h2, h3, h4, h5, h6, h7, h8, h9, h10, h11, h12]
    exact Or.inr (Or.inr (Or.inr (Or.inr (Or.inr (Or.inr (Or.inr (Or.inr (Or.inr (Or.inr (Or.inr (Or.inr (Or.inl ⟨by omega, h12, e⟩))))))))))))
  by_cases h13 : x ≤ 768
  · have e : Gen.roundup AllocCfg.tbl x = 768 := by simp [Gen.roundup, AllocCfg.tbl, h0, h1, h2, h3, h4, h5, h6, h7, h8, h9, h10, h11, h12, h13]
    exact Or.inr (Or.inr (Or.inr (Or.inr (Or.inr (Or.inr (Or.inr (Or.inr (Or.inr (Or.inr (Or.inr (Or.inr (Or.inr (Or.inl ⟨by omega, h13, e⟩)))))))))))))
  by_cases h14 : x ≤ 896
  · have e : Gen.roundup AllocCfg.tbl x = 896 := by simp [Gen.roundup, AllocCfg.tbl, h0, h1, h2, h3, h4, h5, h6, h7, h8, h9, h10, h11, h12, h13, h14]
    exact Or.inr (Or.inr (Or.inr (Or.inr (Or.inr (Or.inr (Or.inr (Or.inr (Or.inr (Or.inr (Or.inr (Or.inr (Or.inr (Or.inr (Or.inl ⟨by omega, h14, e⟩))))))))))))))
  have e : Gen.roundup AllocCfg.tbl x = ((x + 128) / 128) * 128 := by simp [Gen.roundup, AllocCfg.tbl, h0, h1, h2, h3, h4, h5, h6, h7, h8, h9, h10, h11, h12, h13, h14]
  exact Or.inr (Or.inr (Or.inr (Or.inr (Or.inr (Or.inr (Or.inr (Or.inr (Or.inr (Or.inr (Or.inr (Or.inr (Or.inr (Or.inr (Or.inr (⟨by omega, e⟩)))))))))))))))

theorem roundup_mono {a b : Nat} (h : a ≤ b) : Gen.roundup AllocCfg.tbl a ≤ Gen.roundup AllocCfg.tbl b := by
  have := roundup_spec a
  have := roundup_spec b
  omega

/-- `roundup` adds at most 128 -/
theorem roundup_le (x : Nat) : Gen.roundup AllocCfg.tbl x ≤ x + 128 := by
  have := roundup_spec x
  omega

/-- position of a slot size in the sequence of legal sizes 16, 24, 32, 48, …, 128, 256, …, 1024,
1152, …: weakly increasing everywhere, strictly increasing along the legal sizes -/
def rank (z : Nat) : Nat := if z ≤ 32 then z / 8 else if z ≤ 128 then 2 + z / 16 else 9 + z / 128

theorem rank_spec (z : Nat) : (z ≤ 32 ∧ rank z = z / 8) ∨ (32 < z ∧ z ≤ 128 ∧ rank z = 2 + z / 16) ∨
    (128 < z ∧ rank z = 9 + z / 128) := by
  unfold rank
  repeat' split
  all_goals omega

theorem rank_mono {a b : Nat} (h : a ≤ b) : rank a ≤ rank b := by
  have := rank_spec a
  have := rank_spec b
  omega

theorem rank_strict {c : FileCfg} (hc : c.sizeAry = AllocCfg.tbl) {a b : Nat}
    (hb : LegalSz c b) (hab : a < b) : rank a < rank b := by
  unfold LegalSz at hb
  rw [hc] at hb
  simp only [AllocCfg.tbl, List.mem_cons, List.not_mem_nil, or_false] at hb
  have := rank_spec a
  have := rank_spec b
  omega

/-- 24 more bytes requested: at most three legal sizes further -/
theorem rank_range (x : Nat) :
    rank (Gen.roundup AllocCfg.tbl (x + 24)) ≤ rank (Gen.roundup AllocCfg.tbl x) + 3 := by
  have := roundup_spec x
  have := roundup_spec (x + 24)
  have := rank_spec (Gen.roundup AllocCfg.tbl x)
  have := rank_spec (Gen.roundup AllocCfg.tbl (x + 24))
  omega

theorem mul_sub_step {M a b c x : Nat} (hx : x ≤ M) (h1 : a < b) (h2 : b ≤ c) :
    x + M * (c - b) ≤ M * (c - a) := by
  have e : M * (c - b) + M = M * (c - b + 1) := by rw [Nat.mul_add, Nat.mul_one]
  have : M * (c - b + 1) ≤ M * (c - a) := Nat.mul_le_mul_left _ (by omega)
  omega

/-! ## sums over an initial segment of the offsets -/

theorem sum_range_congr {g g' : Nat → Nat} : ∀ (B : Nat), (∀ o, o < B → g' o = g o) →
    ((List.range B).map g').sum = ((List.range B).map g).sum := by
  intro B
  induction B with
  | zero => intro _; rfl
  | succ B ih =>
    intro h
    rw [List.range_succ, List.map_append, List.map_append, List.sum_append, List.sum_append,
      ih (fun o ho => h o (by omega))]
    simp only [List.map_cons, List.map_nil, h B (by omega)]

/-- two functions that differ at one point only -/
theorem sum_range_point {g g' : Nat → Nat} {a : Nat} (h : ∀ o, o ≠ a → g' o = g o) :
    ∀ B, a < B → ((List.range B).map g').sum + g a = ((List.range B).map g).sum + g' a := by
  intro B
  induction B with
  | zero => intro h0; omega
  | succ B ih =>
    intro ha
    rw [List.range_succ, List.map_append, List.map_append, List.sum_append, List.sum_append]
    simp only [List.map_cons, List.map_nil, List.sum_cons, List.sum_nil, Nat.add_zero]
    by_cases hab : a = B
    · subst hab
      rw [sum_range_congr a (fun o ho => h o (by omega))]
      omega
    · have := ih (by omega)
      have := h B (fun e => hab e.symm)
      omega

/-! ## the potential of a record file -/

def potAt (φ : Nat → α → Nat) : Option (Nat × α) → Nat
  | none => 0
  | some (sz, p) => φ sz p

/-- sum of `φ (slot size) (payload)` over the used records at offsets below `B` -/
def pot (φ : Nat → α → Nat) (f : RecFile α) (B : Nat) : Nat :=
  ((List.range B).map fun o => potAt φ (f.used o)).sum

theorem pot_point (φ : Nat → α → Nat) {f f' : RecFile α} {a B : Nat} (ha : a < B)
    (h : ∀ o, o ≠ a → f'.used o = f.used o) :
    pot φ f' B + potAt φ (f.used a) = pot φ f B + potAt φ (f'.used a) := by
  unfold pot
  exact sum_range_point (g := fun o => potAt φ (f.used o)) (g' := fun o => potAt φ (f'.used o))
    (fun o ho => by simp only [h o ho]) B ha

theorem pot_empty (φ : Nat → α → Nat) (c : FileCfg) (B : Nat) : pot φ (RecFile.empty c : RecFile α) B = 0 := by
  unfold pot
  have : ∀ o, potAt φ ((RecFile.empty c : RecFile α).used o) = 0 := fun o => rfl
  simp only [this]
  induction B with
  | zero => rfl
  | succ B ih => rw [List.range_succ, List.map_append, List.sum_append, ih]; rfl

theorem pot_zero (f : RecFile α) (B : Nat) : pot (fun _ _ => 0) f B = 0 := by
  unfold pot
  have : ∀ o, potAt (fun (_ : Nat) (_ : α) => 0) (f.used o) = 0 := by
    intro o
    cases f.used o with
    | none => rfl
    | some q => rfl
  simp only [this]
  induction B with
  | zero => rfl
  | succ B ih => rw [List.range_succ, List.map_append, List.sum_append, ih]; rfl

/-- `addPiece`: the file is extended by exactly the requested size, or not at all; one used record
more -/
theorem addPiece_pot {c : FileCfg} {f f' : RecFile α} (hc : CfgOK c) (h : WF c f) {need off : Nat}
    (hn : LegalSz c need) {p : α} (hadd : addPiece c f need p = some (off, f')) (φ : Nat → α → Nat) :
    WF c f' ∧ ∃ sz, need ≤ sz ∧ LegalSz c sz ∧
      ((f'.end_ = f.end_ + need ∧ sz = need) ∨ f'.end_ = f.end_) ∧
      ∀ B, f'.end_ ≤ B → pot φ f' B = pot φ f B + φ sz p := by
  obtain ⟨off', sz, f'', a1, a2, a3, a4, a5, a6, a7, a8, a9, a10, a11⟩ := addPiece_full hc h hn p
  rw [hadd] at a1
  simp only [Option.some.injEq, Prod.mk.injEq] at a1
  obtain ⟨rfl, rfl⟩ := a1
  have hg := used_eq_some.mp a4
  have hb := a2.tiled.bounds hg
  have hl : LegalSz c sz := a2.sizes _ _ hg
  simp only [Slot.size] at hb
  refine ⟨a2, sz, a3, hl, ?_, ?_⟩
  · rcases a11 with ⟨e1, e2, _⟩ | ⟨nx, _, e⟩
    · left
      refine ⟨e2, ?_⟩
      omega
    · right
      exact e
  · intro B hB
    have := pot_point φ (f := f) (f' := f') (a := off) (B := B) (by omega) a7
    rw [a4, a5] at this
    simpa [potAt] using this

/-- `rewrite`: in place, or moved to a strictly larger slot which is appended (exactly the
requested size) or reused -/
theorem rewrite_pot {c : FileCfg} {f f' : RecFile α} (hc : CfgOK c) (h : WF c f) {off sz0 : Nat} {p0 : α}
    (hu : f.used off = some (sz0, p0)) {need off' : Nat} (hn : LegalSz c need) {p : α}
    (hrw : rewrite c f off need p = some (off', f')) (φ : Nat → α → Nat) :
    WF c f' ∧ ∃ sz, LegalSz c sz ∧
      ((need ≤ sz0 ∧ sz = sz0 ∧ f'.end_ = f.end_) ∨
       (sz0 < need ∧ need ≤ sz ∧ ((f'.end_ = f.end_ + need ∧ sz = need) ∨ f'.end_ = f.end_))) ∧
      ∀ B, f'.end_ ≤ B → pot φ f' B + φ sz0 p0 = pot φ f B + φ sz p := by
  have hg := used_eq_some.mp hu
  have hb := h.tiled.bounds hg
  have hl0 : LegalSz c sz0 := h.sizes _ _ hg
  simp only [Slot.size] at hb
  have hwf : WF c f' := by
    obtain ⟨o2, sz2, f2, e, wf2, _⟩ := rewrite_spec hc h hu hn p
    rw [hrw] at e
    simp only [Option.some.injEq, Prod.mk.injEq] at e
    obtain ⟨_, rfl⟩ := e
    exact wf2
  unfold rewrite at hrw
  simp only [hg, Slot.size] at hrw
  by_cases hle : need ≤ sz0
  · simp only [hle, if_true, Option.some.injEq, Prod.mk.injEq] at hrw
    obtain ⟨rfl, rfl⟩ := hrw
    have hsz : (Slot.used sz0 p : Slot α).size = (Slot.used sz0 p0 : Slot α).size := rfl
    have hend : (f.set off (.used sz0 p)).end_ = f.end_ := set_end_same h.tiled hg hsz
    refine ⟨hwf, sz0, hl0, Or.inl ⟨hle, rfl, hend⟩, ?_⟩
    intro B hB
    have := pot_point φ (f := f) (f' := f.set off (.used sz0 p)) (a := off) (B := B) (by omega)
      (fun o ho => used_set_ne _ _ _ _ ho)
    rw [hu, used_eq_some.mpr (get_set_self f off (.used sz0 p))] at this
    simpa [potAt] using this
  · simp only [hle, if_false] at hrw
    obtain ⟨w1, ⟨nx1, g1⟩, g2, _, _, g5⟩ := pushFree_spec hc h hg
    obtain ⟨_, sz, hns, hls, hend, hpot⟩ := addPiece_pot hc w1 hn hrw φ
    rw [g5] at hend
    refine ⟨hwf, sz, hls, Or.inr ⟨by omega, hns, hend⟩, ?_⟩
    intro B hB
    have h1 := pot_point φ (f := f) (f' := pushFree c f off sz0) (a := off) (B := B)
      (by rcases hend with ⟨e, _⟩ | e <;> omega) (fun o ho => by unfold used; rw [g2 o ho])
    rw [hu, used_of_free g1] at h1
    simp only [potAt] at h1
    have h2 := hpot B hB
    omega

/-- `deletePiece` of a used record: same length, one used record less -/
theorem deletePiece_pot {c : FileCfg} {f f' : RecFile α} (hc : CfgOK c) (h : WF c f) {off sz0 : Nat} {p0 : α}
    (hu : f.used off = some (sz0, p0)) (hd : deletePiece c f off = some f') (φ : Nat → α → Nat) :
    WF c f' ∧ f'.end_ = f.end_ ∧ ∀ B, f'.end_ ≤ B → pot φ f' B + φ sz0 p0 = pot φ f B := by
  obtain ⟨f'', e, wf, hnone, hoth, _, _, hend⟩ := deletePiece_spec hc h hu
  rw [hd] at e
  simp only [Option.some.injEq] at e
  subst e
  have hb := h.tiled.bounds (used_eq_some.mp hu)
  simp only [Slot.size] at hb
  refine ⟨wf, hend, ?_⟩
  intro B hB
  have := pot_point φ (f := f) (f' := f') (a := off) (B := B) (by omega) hoth
  rw [hu, hnone] at this
  simpa [potAt] using this

/-! ## `Trans`: the file grows, `end_ + potential` grows by at most `charge` -/

structure Trans (c : FileCfg) (φ : Nat → α → Nat) (f f' : RecFile α) (charge : Nat) : Prop where
  wf : WF c f'
  mono : f.end_ ≤ f'.end_
  energy : ∀ B, f'.end_ ≤ B → f'.end_ + pot φ f' B ≤ f.end_ + pot φ f B + charge

theorem Trans.refl {c : FileCfg} {φ : Nat → α → Nat} {f : RecFile α} (h : WF c f) : Trans c φ f f 0 :=
  ⟨h, Nat.le_refl _, fun _ _ => Nat.le_refl _⟩

theorem Trans.trans {c : FileCfg} {φ : Nat → α → Nat} {f g h : RecFile α} {a b : Nat}
    (t1 : Trans c φ f g a) (t2 : Trans c φ g h b) : Trans c φ f h (a + b) := by
  refine ⟨t2.wf, Nat.le_trans t1.mono t2.mono, ?_⟩
  intro B hB
  have h1 := t2.energy B hB
  have h2 := t1.energy B (Nat.le_trans t2.mono hB)
  omega

theorem Trans.weaken {c : FileCfg} {φ : Nat → α → Nat} {f g : RecFile α} {a b : Nat}
    (t : Trans c φ f g a) (hab : a ≤ b) : Trans c φ f g b := by
  refine ⟨t.wf, t.mono, ?_⟩
  intro B hB
  have := t.energy B hB
  omega

theorem addPiece_trans {c : FileCfg} {f f' : RecFile α} (hc : CfgOK c) (h : WF c f) {need off : Nat}
    (hn : LegalSz c need) {p : α} (hadd : addPiece c f need p = some (off, f')) {φ : Nat → α → Nat}
    {charge : Nat} (h1 : need + φ need p ≤ charge)
    (h2 : ∀ sz, need ≤ sz → LegalSz c sz → φ sz p ≤ charge) : Trans c φ f f' charge := by
  obtain ⟨wf, sz, hns, hls, hend, hpot⟩ := addPiece_pot hc h hn hadd φ
  refine ⟨wf, by rcases hend with ⟨e, _⟩ | e <;> omega, ?_⟩
  intro B hB
  rw [hpot B hB]
  have := h2 sz hns hls
  rcases hend with ⟨e, rfl⟩ | e <;> omega

theorem rewrite_trans {c : FileCfg} {f f' : RecFile α} (hc : CfgOK c) (h : WF c f) {off sz0 : Nat} {p0 : α}
    (hu : f.used off = some (sz0, p0)) {need off' : Nat} (hn : LegalSz c need) {p : α}
    (hrw : rewrite c f off need p = some (off', f')) {φ : Nat → α → Nat} {charge : Nat}
    (h0 : φ sz0 p ≤ φ sz0 p0 + charge)
    (h1 : sz0 < need → need + φ need p ≤ φ sz0 p0 + charge)
    (h2 : sz0 < need → ∀ sz, need ≤ sz → LegalSz c sz → φ sz p ≤ φ sz0 p0 + charge) :
    Trans c φ f f' charge := by
  obtain ⟨wf, sz, hls, hcase, hpot⟩ := rewrite_pot hc h hu hn hrw φ
  refine ⟨wf, ?_, ?_⟩
  · rcases hcase with ⟨_, _, e⟩ | ⟨_, _, ⟨e, _⟩ | e⟩ <;> omega
  · intro B hB
    have hp := hpot B hB
    rcases hcase with ⟨_, rfl, e⟩ | ⟨hlt, hns, ⟨e, rfl⟩ | e⟩
    · omega
    · have := h1 hlt
      omega
    · have := h2 hlt sz hns hls
      omega

theorem deletePiece_trans {c : FileCfg} {f f' : RecFile α} (hc : CfgOK c) (h : WF c f) {off sz0 : Nat} {p0 : α}
    (hu : f.used off = some (sz0, p0)) (hd : deletePiece c f off = some f') (φ : Nat → α → Nat) :
    Trans c φ f f' 0 := by
  obtain ⟨wf, hend, hpot⟩ := deletePiece_pot hc h hu hd φ
  refine ⟨wf, by omega, ?_⟩
  intro B hB
  have := hpot B hB
  omega

/-! ## the two record files of a map -/

open Store

/-- largest slot size a key record with a key of `L` bytes can ask for (length field ≤ 5 bytes,
two offsets ≤ 9 bytes each, size field ≤ 5 bytes) -/
def keyMax (L : Nat) : Nat := Gen.roundup AllocCfg.tbl (L + 28)

/-- smallest slot size such a record can ask for (each of the four fields ≥ 1 byte) -/
def keyMin (L : Nat) : Nat := Gen.roundup AllocCfg.tbl (L + 4)

/-- what a key record in a slot of size `sz` may still spend on moving to larger slots: the
largest slot it can need, times the number of legal sizes between `sz` and that -/
def φK (sz : Nat) (r : KeyRec) : Nat := keyMax r.key.length * (rank (keyMax r.key.length) - rank sz)

theorem keyNeed_bounds (r : KeyRec) :
    keyNeed r ≤ keyMax r.key.length ∧ (r.key.length < 2^32 → keyMin r.key.length ≤ keyNeed r) := by
  have hL : r.key.length % 2^32 < 2^32 := Nat.mod_lt _ (by decide)
  have hL' : r.key.length % 2^32 ≤ r.key.length := Nat.mod_le _ _
  have e : keyNeed r = Gen.roundup AllocCfg.tbl
      (Vu64.encodedLen ((Vu64.encodedLen (r.key.length % 2^32) + r.key.length % 2^32 +
          Vu64.encodedLen r.valOff + Vu64.encodedLen r.next + 7) / 8) +
        (Vu64.encodedLen (r.key.length % 2^32) + r.key.length % 2^32 +
          Vu64.encodedLen r.valOff + Vu64.encodedLen r.next)) := rfl
  rw [e]
  have a1 := Sizes.encodedLen_ge_one (r.key.length % 2^32)
  have a2 := Sizes.encodedLen_le_five (v := r.key.length % 2^32) (by omega)
  have v1 := Sizes.encodedLen_ge_one r.valOff
  have v2 := Sizes.encodedLen_le_nine r.valOff
  have n1 := Sizes.encodedLen_ge_one r.next
  have n2 := Sizes.encodedLen_le_nine r.next
  have e1 := Sizes.encodedLen_ge_one ((Vu64.encodedLen (r.key.length % 2^32) + r.key.length % 2^32 +
          Vu64.encodedLen r.valOff + Vu64.encodedLen r.next + 7) / 8)
  have e2 := Sizes.encodedLen_le_five (v := (Vu64.encodedLen (r.key.length % 2^32) + r.key.length % 2^32 +
          Vu64.encodedLen r.valOff + Vu64.encodedLen r.next + 7) / 8) (by omega)
  constructor
  · exact roundup_mono (by omega)
  · intro hlt
    rw [Nat.mod_eq_of_lt hlt] at a1 e1 ⊢
    exact roundup_mono (by omega)

theorem valueNeed_le (len : Nat) : valueNeed len ≤ len + 138 := by
  have hL : len % 2^32 < 2^32 := Nat.mod_lt _ (by decide)
  have hL' : len % 2^32 ≤ len := Nat.mod_le _ _
  have e : valueNeed len = Gen.roundup AllocCfg.tbl
      (Vu64.encodedLen ((Vu64.encodedLen (len % 2^32) + len % 2^32 + 7) / 8) +
        (Vu64.encodedLen (len % 2^32) + len % 2^32)) := rfl
  rw [e]
  have a2 := Sizes.encodedLen_le_five (v := len % 2^32) (by omega)
  have e2 := Sizes.encodedLen_le_five (v := (Vu64.encodedLen (len % 2^32) + len % 2^32 + 7) / 8) (by omega)
  have := roundup_le (Vu64.encodedLen ((Vu64.encodedLen (len % 2^32) + len % 2^32 + 7) / 8) +
        (Vu64.encodedLen (len % 2^32) + len % 2^32))
  omega

/-- a new key record, whatever slot (at least the smallest it can ask for) it lands in: the largest
slot it can need plus its potential is at most `4 * (L + 156)` -/
theorem φK_le (r : KeyRec) (sz : Nat) (h : keyMin r.key.length ≤ sz) :
    keyMax r.key.length + φK sz r ≤ 4 * (r.key.length + 156) := by
  have hr := rank_range (r.key.length + 4)
  have e : r.key.length + 4 + 24 = r.key.length + 28 := by omega
  rw [e] at hr
  have hm : rank (keyMin r.key.length) ≤ rank sz := rank_mono h
  have h3 : rank (keyMax r.key.length) - rank sz ≤ 3 := by
    unfold keyMax keyMin at *
    omega
  have h4 := Nat.mul_le_mul_left (keyMax r.key.length) h3
  have h5 : keyMax r.key.length ≤ r.key.length + 28 + 128 := roundup_le _
  unfold φK
  omega

/-- rewriting a key record without changing the key: paid for by the potential -/
theorem rewriteK_trans {f f' : RecFile KeyRec} (h : WF keyCfg f) {off sz0 off' : Nat} {r0 r : KeyRec}
    (hg : f.get off = some (.used sz0 r0))
    (hrw : rewrite keyCfg f off (keyNeed r) r = some (off', f')) (hkey : r.key = r0.key) :
    Trans keyCfg φK f f' 0 := by
  have hu := used_eq_some.mpr hg
  have hM := (keyNeed_bounds r).1
  refine rewrite_trans keyCfg_ok h hu (keyNeed_legal r) hrw ?_ ?_ ?_
  · unfold φK
    rw [hkey]
    omega
  · intro hlt
    have hs := rank_strict (c := keyCfg) rfl (keyNeed_legal r) hlt
    have hm := rank_mono hM
    have := mul_sub_step (M := keyMax r.key.length) (x := keyNeed r) hM hs hm
    unfold φK
    rw [← hkey]
    omega
  · intro hlt sz hns _
    have hm := rank_mono (Nat.le_trans (Nat.le_of_lt hlt) hns)
    have := Nat.mul_le_mul_left (keyMax r.key.length)
      (show rank (keyMax r.key.length) - rank sz ≤ rank (keyMax r.key.length) - rank sz0 by omega)
    unfold φK
    rw [← hkey]
    omega

/-- `relink` only rewrites key records, keeping their keys -/
theorem relink_trans {b : Nat} : ∀ (fuel : Nat) {s s' : Store} {old new : Nat}, WF keyCfg s.kf →
    relink b fuel s old new = some s' → Trans keyCfg φK s.kf s'.kf 0 ∧ s'.vf = s.vf := by
  intro fuel
  induction fuel with
  | zero => intro s s' old new _ h; simp [relink] at h
  | succ fuel ih =>
    intro s s' old new hwf h
    unfold relink at h
    split at h
    · cases h
    · next prev _ =>
      split at h
      · cases h
        exact ⟨Trans.refl hwf, rfl⟩
      · split at h
        · next sz0 pr hg =>
          simp only at h
          split at h
          · cases h
          · next p' kf' hrw =>
            have t1 := rewriteK_trans hwf hg hrw rfl
            split at h
            · cases h
              exact ⟨t1, rfl⟩
            · obtain ⟨t2, hv2⟩ := ih (s := { s with kf := kf' }) t1.wf h
              exact ⟨t1.trans t2, hv2⟩
        · cases h

/-- the unlink step of `del` -/
theorem unlinkStep_trans {b : Nat} {s s1 : Store} {prev next : Nat} (hwf : WF keyCfg s.kf)
    (h : Store.Del.unlinkStep b s prev next = some s1) :
    Trans keyCfg φK s.kf s1.kf 0 ∧ s1.vf = s.vf := by
  unfold Store.Del.unlinkStep at h
  split at h
  · cases h
    exact ⟨Trans.refl hwf, rfl⟩
  · split at h
    · next sz0 pr hg =>
      simp only at h
      split at h
      · cases h
      · next p' kf' hrw =>
        have t1 := rewriteK_trans hwf hg hrw rfl
        split at h
        · cases h
          exact ⟨t1, rfl⟩
        · obtain ⟨t2, hv2⟩ := relink_trans _ (s := { s with kf := kf' }) t1.wf h
          exact ⟨t1.trans t2, hv2⟩
    · cases h

/-- `put`: the key file pays `4 * (k.length + 156)` (only when the key is new), the value file
`v.length + 138` -/
theorem put_trans {kt : KeyType} {s s' : Store} {k v : List Nat} (hk : WF keyCfg s.kf) (hv : WF valCfg s.vf)
    (hkl : k.length < 2^31) (hp : s.put kt k v = some s') :
    Trans keyCfg φK s.kf s'.kf (4 * (k.length + 156)) ∧
    Trans valCfg (fun _ _ => 0) s.vf s'.vf (v.length + 138) := by
  have hvn := valueNeed_le v.length
  unfold put at hp
  simp only at hp
  split at hp
  · cases hp
  · next off prev hfind =>
    split at hp
    · next ksz kr hkg =>
      split at hp
      · next vsz v0 hvg =>
        split at hp
        · cases hp
        · next voff' vf' hrwv =>
          have tv : Trans valCfg (fun _ _ => 0) s.vf vf' (v.length + 138) :=
            rewrite_trans valCfg_ok hv (used_eq_some.mpr hvg) (valueNeed_legal _) hrwv
              (by omega) (fun _ => by omega) (fun _ _ _ _ => by omega)
          split at hp
          · cases hp
            exact ⟨(Trans.refl hk).weaken (Nat.zero_le _), tv⟩
          · split at hp
            · cases hp
            · next koff' kf' hrwk =>
              have tk := rewriteK_trans hk hkg hrwk rfl
              split at hp
              · cases hp
                exact ⟨tk.weaken (Nat.zero_le _), tv⟩
              · obtain ⟨t2, hv2⟩ := relink_trans _ (s := { s with vf := vf', kf := kf' }) tk.wf hp
                rw [hv2]
                exact ⟨(tk.trans t2).weaken (Nat.zero_le _), tv⟩
      · cases hp
    · cases hp
  · split at hp
    · cases hp
    · next voff vf' haddv =>
      split at hp
      · cases hp
      · next koff kf' haddk =>
        cases hp
        have tv : Trans valCfg (fun _ _ => 0) s.vf vf' (v.length + 138) :=
          addPiece_trans valCfg_ok hv (valueNeed_legal _) haddv (by omega) (fun _ _ _ => by omega)
        have hb := keyNeed_bounds { key := k, valOff := voff, next := s.headOf (bucketOf k s.n) }
        have hmin := hb.2 (show k.length < 2^32 by omega)
        have tk : Trans keyCfg φK s.kf kf' (4 * (k.length + 156)) := by
          refine addPiece_trans keyCfg_ok hk (keyNeed_legal _) haddk ?_ ?_
          · have := φK_le { key := k, valOff := voff, next := s.headOf (bucketOf k s.n) } _ hmin
            have := hb.1
            simp only at *
            omega
          · intro sz hns _
            have := φK_le { key := k, valOff := voff, next := s.headOf (bucketOf k s.n) } sz
              (Nat.le_trans hmin hns)
            simp only at *
            omega
        exact ⟨tk, tv⟩

/-- `del` extends neither file beyond what the potential pays for -/
theorem del_trans {kt : KeyType} {s s' : Store} {k : List Nat} {r : Option (List Nat)}
    (h : Inv kt s) (hkey : KeyOK kt k) (hd : s.del kt k = some (s', r)) :
    Trans keyCfg φK s.kf s'.kf 0 ∧ Trans valCfg (fun _ _ => 0) s.vf s'.vf 0 := by
  rcases find_spec h k hkey with ⟨o, sz, kr, l1, l2, hf, hu, hkk, hc⟩ | ⟨hf, _⟩
  · subst hkk
    obtain ⟨vs, v, hvu⟩ := h.val_used o sz kr hu
    have hb : bucketOf kr.key s.n < s.n := Del.bucketOf_lt _ h.npos
    obtain ⟨s1, hul, h1, hvf, _, _, hu1, _⟩ := Del.unlink_spec h hb hc hu
    rw [Del.del_found hf (Del.used_eq_some.mp hu) (Del.used_eq_some.mp hvu), hul] at hd
    simp only [Option.bind_some] at hd
    obtain ⟨t1, _⟩ := unlinkStep_trans h.kwf hul
    unfold Del.finishStep at hd
    split at hd
    · cases hd
    · next vf' hdv =>
      split at hd
      · cases hd
      · next kf' hdk =>
        cases hd
        simp only
        constructor
        · exact t1.trans (deletePiece_trans keyCfg_ok t1.wf hu1 hdk φK)
        · rw [hvf] at hdv
          exact deletePiece_trans valCfg_ok h.vwf hvu hdv _
  · rw [Del.del_absent hf] at hd
    cases hd
    exact ⟨Trans.refl h.kwf, Trans.refl h.vwf⟩

end Budget
end Abyss
