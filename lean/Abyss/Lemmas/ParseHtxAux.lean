import Abyss.Renderable
import Abyss.Lemmas.Vu64L
import Mathlib.Tactic.IntervalCases
/-!
# Helper lemmas for `parseHtx_render`
-/
namespace Abyss
open Vu64

theorem le64_length (v : Nat) : (le64 v).length = 8 := leBytes_length v 8

theorem getLe64_mid (pre post : List Nat) (v off : Nat) (hv : v < 2^64) (hoff : pre.length = off) :
    getLe64 (pre ++ le64 v ++ post) off = v := by
  subst hoff
  unfold getLe64
  rw [List.append_assoc, List.drop_left, List.take_left' (le64_length v)]
  unfold le64; rw [ofLeBytes_leBytes]; exact Nat.mod_eq_of_lt (by simpa using hv)

theorem flatten_range_length (f : Nat → List Nat) (hf : ∀ j, (f j).length = 8) (n : Nat) :
    (((List.range n).map f).flatten).length = 8 * n := by
  induction n with
  | zero => simp
  | succ n ih =>
    rw [List.range_succ, List.map_append, List.flatten_append, List.length_append, ih]
    simp [hf]; omega

theorem flatten_range_split (f : Nat → List Nat) (hf : ∀ j, (f j).length = 8) (n i : Nat) (hi : i < n) :
    ∃ pre post, ((List.range n).map f).flatten = pre ++ f i ++ post ∧ pre.length = 8 * i := by
  induction n with
  | zero => omega
  | succ n ih =>
    rw [List.range_succ, List.map_append, List.flatten_append]
    by_cases h : i < n
    · obtain ⟨pre, post, h1, h2⟩ := ih h
      exact ⟨pre, post ++ f n, by simp [h1], h2⟩
    · have : i = n := by omega
      subst this
      exact ⟨_, [], by simp, flatten_range_length f hf i⟩

theorem aget_filterMap {β : Type} (f : Nat → Option β) (l : List Nat) (b : Nat) :
    aget (l.filterMap fun i => (f i).map fun v => (i, v)) b = if b ∈ l then f b else none := by
  induction l with
  | nil => simp [aget]
  | cons i l ih =>
    rw [List.filterMap_cons]
    cases hfi : f i with
    | none =>
      simp only [Option.map_none, ih, List.mem_cons]
      by_cases hb : b = i
      · subst hb; simp [hfi]
      · simp [hb]
    | some v =>
      simp only [Option.map_some, aget, ih, List.mem_cons]
      by_cases hb : i = b
      · subst hb; simp [hfi]
      · have : ¬ b = i := fun h => hb h.symm
        simp [hb, this]

theorem filterMap_congr_mem {α β : Type} (f g : α → Option β) (l : List α)
    (h : ∀ x ∈ l, f x = g x) : l.filterMap f = l.filterMap g := by
  induction l with
  | nil => rfl
  | cons a l ih =>
    rw [List.filterMap_cons, List.filterMap_cons, h a (List.mem_cons_self ..),
      ih (fun x hx => h x (List.mem_cons_of_mem _ hx))]

theorem bitmapByte_bit (bit : Nat → Bool) (j k : Nat) (hk : k < 8) :
    (bitmapByte bit j / 2 ^ k % 2 = 1) ↔ bit (8 * j + k) = true := by
  have hr : List.range 8 = [0,1,2,3,4,5,6,7] := by decide
  have key : ∀ (c : Bool) (acc p : Nat), (if c = true then acc + p else acc) = acc + p * (if c = true then 1 else 0) := by
    intro c acc p; cases c <;> simp
  unfold bitmapByte
  rw [hr]
  simp only [List.foldl, key]
  have hc : ∀ c : Bool, (if c = true then 1 else 0 : Nat) ≤ 1 ∧ ((if c = true then 1 else 0 : Nat) = 1 ↔ c = true) := by
    intro c; cases c <;> simp
  obtain ⟨a0, e0⟩ := hc (bit (8 * j + 0))
  obtain ⟨a1, e1⟩ := hc (bit (8 * j + 1))
  obtain ⟨a2, e2⟩ := hc (bit (8 * j + 2))
  obtain ⟨a3, e3⟩ := hc (bit (8 * j + 3))
  obtain ⟨a4, e4⟩ := hc (bit (8 * j + 4))
  obtain ⟨a5, e5⟩ := hc (bit (8 * j + 5))
  obtain ⟨a6, e6⟩ := hc (bit (8 * j + 6))
  obtain ⟨a7, e7⟩ := hc (bit (8 * j + 7))
  generalize (if bit (8 * j + 0) = true then 1 else 0 : Nat) = c0 at *
  generalize (if bit (8 * j + 1) = true then 1 else 0 : Nat) = c1 at *
  generalize (if bit (8 * j + 2) = true then 1 else 0 : Nat) = c2 at *
  generalize (if bit (8 * j + 3) = true then 1 else 0 : Nat) = c3 at *
  generalize (if bit (8 * j + 4) = true then 1 else 0 : Nat) = c4 at *
  generalize (if bit (8 * j + 5) = true then 1 else 0 : Nat) = c5 at *
  generalize (if bit (8 * j + 6) = true then 1 else 0 : Nat) = c6 at *
  generalize (if bit (8 * j + 7) = true then 1 else 0 : Nat) = c7 at *
  interval_cases k
  · rw [← e0]; omega
  · rw [← e1]; omega
  · rw [← e2]; omega
  · rw [← e3]; omega
  · rw [← e4]; omega
  · rw [← e5]; omega
  · rw [← e6]; omega
  · rw [← e7]; omega

end Abyss
