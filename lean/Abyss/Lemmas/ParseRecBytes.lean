import Abyss.Renderable
import Abyss.Lemmas.Vu64L
/-!
# Byte-level round trips of single fields and single slots (helpers for `ParseRecL`)
-/
namespace Abyss
open Vu64

theorem le64_length (v : Nat) : (le64 v).length = 8 := leBytes_length v 8

theorem ofLeBytes_le64 (v : Nat) (h : v < 2^64) : ofLeBytes (le64 v) = v := by
  unfold le64
  rw [ofLeBytes_leBytes]
  exact Nat.mod_eq_of_lt (by simpa using h)

theorem take8_le64 (v : Nat) (r : List Nat) : (le64 v ++ r).take 8 = le64 v :=
  List.take_left' (le64_length v)

theorem getLe64_append (pre post : List Nat) (v : Nat) (h : v < 2^64) :
    getLe64 (pre ++ le64 v ++ post) pre.length = v := by
  unfold getLe64
  rw [List.append_assoc, List.drop_left, take8_le64, ofLeBytes_le64 v h]

theorem zeros_length (k : Nat) : (zeros k).length = k := by simp [zeros]

theorem padTo_length (sz : Nat) (c : List Nat) (h : c.length ≤ sz) : (padTo sz c).length = sz := by
  simp [padTo, zeros]; omega

end Abyss
