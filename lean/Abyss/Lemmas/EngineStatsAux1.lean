import Abyss.Stats
import Abyss.Gen.Funcs
/-!
# `touch_size` / `touch_length` (binary search + insert / increment) is the model's `touch`
-/
namespace Abyss

/-- the generated search + update is `touch` on every vector (the scan from the left does not need sortedness) -/
theorem touchGen_eq (vec : List (Nat × Nat)) (x : Nat) :
    (match Gen.binarySearchByKey vec x with
      | .ok i => Gen.listSetSnd vec i (Gen.listGetSnd vec i + 1)
      | .error i => Gen.listInsertAt vec i (x, 1)) = touch vec x := by
  induction vec with
  | nil => rfl
  | cons p rest ih =>
    obtain ⟨a, c⟩ := p
    unfold Gen.binarySearchByKey touch
    by_cases h1 : a = x
    · subst h1
      rw [if_pos rfl, if_pos rfl]
      rfl
    · have h1' : ¬ x = a := fun e => h1 e.symm
      rw [if_neg h1, if_neg h1']
      by_cases h2 : x < a
      · rw [if_pos h2, if_pos h2]
        rfl
      · rw [if_neg h2, if_neg h2, ← ih]
        cases Gen.binarySearchByKey rest x with
        | ok i => rfl
        | error i => rfl

theorem touchSize_eq (vec : List (Nat × Nat)) (x : Nat) : Gen.touchSize vec x = touch vec x := by
  rw [← touchGen_eq]
  unfold Gen.touchSize
  cases Gen.binarySearchByKey vec x <;> rfl

theorem touchLength_eq (vec : List (Nat × Nat)) (x : Nat) : Gen.touchLength vec x = touch vec x := by
  rw [← touchGen_eq]
  unfold Gen.touchLength
  cases Gen.binarySearchByKey vec x <;> rfl

end Abyss
