import Abyss.Lemmas.EngineUpdAux3
/-!
# generated engine vs model, updates: the unlink step of `del_kt`
-/
set_option linter.unusedVariables false
namespace Abyss
open Store FileM RecFile
namespace EU

/-- the unlink block of the generated `del_kt` -/
def unlinkBlock (kc : FileCfg) (bucketsSize hash prev next : Nat) : DbM Unit :=
  (if (prev == 0) then do
      DbM.liftHtx (Gen.htxWriteKeyPieceOffset bucketsSize hash next)
      pure ()
    else do
      let (prevKeyPieceSize, prevKeyPieceKey, prevKeyPieceValueOffset, prevKeyPieceBucketNextOffset) ←
        DbM.liftKey (Gen.keyReadPiece prev)
      let (newPrevKeyOffset, newPrevKeySize) ←
        DbM.liftKey (Gen.keyWritePiece kc prev prevKeyPieceKey prevKeyPieceValueOffset next false)
      (if (prev != newPrevKeyOffset) then do
          Gen.relinkMovedKeyPiece kc bucketsSize hash prev newPrevKeyOffset
          pure ()
        else do
          pure ())
      pure ())

theorem delKt_unfold (kc vc : FileCfg) (bucketsSize : Nat) (cmp : List Nat → List Nat → Option Ordering)
    (hash : Nat) (key : List Nat) :
    Gen.delKt kc vc bucketsSize cmp hash key = (do
      let opt ← Gen.findInHashBucketsKt bucketsSize cmp hash key
      match opt with
      | some (keyOffset, _prevKeyOffset) =>
        let (keyPieceSize, keyPieceKey, keyPieceValueOffset, keyPieceBucketNextOffset) ←
          DbM.liftKey (Gen.keyReadPiece keyOffset)
        let value ← DbM.liftVal (Gen.valReadPieceOnlyValue keyPieceValueOffset)
        unlinkBlock kc bucketsSize hash _prevKeyOffset keyPieceBucketNextOffset
        let _ ← DbM.liftVal (Gen.valDeletePiece vc keyPieceValueOffset)
        let _ ← DbM.liftKey (Gen.keyDeletePiece kc keyOffset)
        DbM.liftHtx Gen.htxWriteItemCountDown
        pure (some value)
      | none =>
        pure none) := rfl

/-- the unlink step of `del_kt` on an image -/
theorem unlink_img {kt : KeyType} (hash : Nat) {s s1 : Store} {prev next : Nat} {d : DbSt}
    (h : Del.unlinkStep (hash % s.n) s prev next = some s1) (he : s1.kf.end_ < 2^32)
    (kg : KG kt.sig s.kf) (hx : HtxRW kt s) (hn : next < 2^63) (hn8 : 8 ∣ next) (hd : d.IsImage kt s) :
    ∃ d', unlinkBlock keyCfg s.n hash prev next d = some ((), d') ∧
      d'.IsImage kt s1 ∧ KG kt.sig s1.kf := by
  unfold Del.unlinkStep at h
  unfold unlinkBlock
  by_cases hp0 : prev = 0
  · rw [if_pos hp0] at h
    simp only [Option.some.injEq] at h
    subst h
    have hb : (prev == 0) = true := by simp [hp0]
    rw [hb]
    simp only [if_true]
    obtain ⟨d1, r1, hd1⟩ := htx_step (t' := s.writeHead (hash % s.n) next) hd rfl rfl
      (fun pos => (hx hash pos).2 next (by omega))
    refine ⟨d1, ?_, hd1, kg⟩
    rw [DbM.bind_some r1]
    rfl
  · rw [if_neg hp0] at h
    have hb : (prev == 0) = false := by simp [hp0]
    rw [hb]
    simp only [Bool.false_eq_true, if_false]
    split at h
    · next sz0 pr hg =>
      simp only at h
      split at h
      · cases h
      · next p' kf' hrw =>
        have hprf := kg.fits_get hg
        have hfit : KeyRec.Fits { pr with next := next } :=
          ⟨hprf.1, hprf.2.1, hn, hprf.2.2.2.1, hn8⟩
        have wk' := rewrite_wf kg.ok.wf hg hrw
        have hend : kf'.end_ < 2^32 := by
          split at h
          · simp only [Option.some.injEq] at h
            subst h; exact he
          · have := (relink_frame _ _ (t := { s with kf := kf' }) _ _ wk' h).1
            exact Nat.lt_of_le_of_lt this he
        obtain ⟨kg', _, sz, hg', hw⟩ := kg.rewrite hg hfit hrw hend
        obtain ⟨d1, r1, hd1⟩ := key_read hd (kg.readPiece hg)
        obtain ⟨d2, r2, hd2⟩ := key_step hd1 hw
        rw [DbM.bind_some r1]
        try simp only []
        rw [DbM.bind_some r2]
        try simp only []
        by_cases hpp : p' = prev
        · rw [if_pos hpp] at h
          simp only [Option.some.injEq] at h
          subst h
          have hb2 : (prev != p') = false := by simp [hpp]
          rw [hb2]
          simp only [Bool.false_eq_true, if_false]
          exact ⟨d2, rfl, hd2, kg'⟩
        · rw [if_neg hpp] at h
          have hb2 : (prev != p') = true := by
            simp only [bne_iff_ne, ne_eq]
            exact fun e => hpp e.symm
          rw [hb2]
          simp only [if_true]
          have ho := kg'.off hg'
          obtain ⟨d3, r3, hd3, kg3⟩ := relinkPiece_img hash (t := { s with kf := kf' }) h he kg' (hx.setKf kf')
            (by omega) ho.1 hd2
          have r3' : Gen.relinkMovedKeyPiece keyCfg s.n hash prev p' d2 = some ((), d3) := r3
          refine ⟨d3, ?_, hd3, kg3⟩
          rw [DbM.bind_assoc_apply, DbM.bind_some r3']
          rfl
    · cases h

end EU
end Abyss
