import Abyss.Hash
/-!
# What the generated key comparison and key conversions compute (helper lemmas)

`Gen.cmpU8String … Gen.cmpU8Vu64` are `DbMapKeyType::cmp_u8` of the five key types and
`Gen.u64ToKey`, `Gen.keyToU64`, … the `From` impls between integers and keys, all translated from
`src/filedb/dbmap/kt_db*.rs` by `tools/rs2lean.py` on every run. The lemmas here equate that
generated code with the closed forms the rest of the development reasons with (equality of the
bytes / of the decoded integers; 8 little-endian bytes, two's complement, vu64). They are
re-checked against whatever the source says: a `cmp_u8` that stops deciding equality, or a
conversion that is no longer the little-endian one, makes this file fail to build.
-/
namespace Abyss
namespace Gen
open Vu64

/-! ## the comparison -/

/-- `<[u8] as Ord>::cmp` answers `Equal` exactly for equal slices -/
theorem cmpBytes_eq_iff (a b : List Nat) : cmpBytes a b = .eq ↔ a = b := by
  induction a generalizing b with
  | nil => cases b <;> simp [cmpBytes]
  | cons x xs ih =>
    cases b with
    | nil => simp [cmpBytes]
    | cons y ys =>
      simp only [cmpBytes, List.cons.injEq]
      split
      · constructor
        · intro h; cases h
        · intro h; omega
      · split
        · constructor
          · intro h; cases h
          · intro h; omega
        · rw [ih]
          constructor
          · intro h; exact ⟨by omega, h⟩
          · intro h; exact h.2

theorem cmpBytes_refl (a : List Nat) : cmpBytes a a = .eq := (cmpBytes_eq_iff a a).mpr rfl

/-- `cmp_u8` of `DbString`, `DbBytes`, `DbU64`, `DbI64` never panics and is the lexicographic
comparison of the bytes -/
theorem cmpU8String_eq (a b : List Nat) : cmpU8String a b = some (cmpBytes a b) := rfl
theorem cmpU8Bytes_eq (a b : List Nat) : cmpU8Bytes a b = some (cmpBytes a b) := rfl
theorem cmpU8U64_eq (a b : List Nat) : cmpU8U64 a b = some (cmpBytes a b) := rfl
theorem cmpU8I64_eq (a b : List Nat) : cmpU8I64 a b = some (cmpBytes a b) := rfl

/-- `cmp_u8` of `DbVu64` decodes both sides (panics when one is not a vu64) and compares the
integers -/
theorem cmpU8Vu64_eq (a b : List Nat) :
    cmpU8Vu64 a b =
      match Vu64.decode a, Vu64.decode b with
      | some (x, _), some (y, _) => some (compare x y)
      | _, _ => none := by
  unfold cmpU8Vu64
  cases Vu64.decode a with
  | none => rfl
  | some p =>
    obtain ⟨x, r⟩ := p
    cases Vu64.decode b with
    | none => rfl
    | some q => rfl

/-! ## integer → key -/

/-- `From<u64> for DbU64`: 8 little-endian bytes -/
theorem u64ToKey_eq (a : Nat) : u64ToKey a = leBytes a 8 := rfl
/-- `From<i64> for DbI64`: 8 little-endian bytes of the two's complement pattern -/
theorem i64ToKey_eq (a : Int) : i64ToKey a = leBytes (a % 2^64).toNat 8 := rfl
/-- `From<u64> for DbVu64`: the vu64 encoding -/
theorem vu64ToKey_eq (a : Nat) : vu64ToKey a = encode a := rfl
/-- `From<u64> for DbBytes` / `for DbString`: 8 big-endian bytes -/
theorem bytesKeyOfU64_eq (a : Nat) : bytesKeyOfU64 a = (leBytes a 8).reverse := rfl
theorem stringKeyOfU64_eq (a : Nat) : stringKeyOfU64 a = (leBytes a 8).reverse := rfl

/-! ## key → integer -/

theorem ofLeBytes_replicate_zero (n : Nat) : ofLeBytes (List.replicate n 0) = 0 := by
  induction n with
  | zero => rfl
  | succ n ih => simp [List.replicate_succ, ofLeBytes, ih]

/-- zero bytes at the most significant end do not change a little-endian value -/
theorem ofLeBytes_append_zeros (l : List Nat) (n : Nat) :
    ofLeBytes (l ++ List.replicate n 0) = ofLeBytes l := by
  induction l with
  | nil => simpa [ofLeBytes] using ofLeBytes_replicate_zero n
  | cons b bs ih => simp [ofLeBytes, ih]

/-- the 8-byte buffer both `From<&DbU64> for u64` and `From<&DbI64> for i64` load: the key
zero-extended when it is shorter than 8 bytes, its first 8 bytes otherwise -/
theorem load8_eq (k : List Nat) :
    ofLeBytes (if decide (k.length < 8) = true then k ++ (List.replicate 8 0).drop k.length
               else k.take 8) = ofLeBytes (k.take 8) := by
  split
  · rename_i h
    have h : k.length < 8 := by simpa using h
    rw [List.drop_replicate, ofLeBytes_append_zeros, List.take_of_length_le (by omega)]
  · rfl

/-- `From<&DbU64> for u64`: the first 8 bytes little endian, zero extended -/
theorem keyToU64_eq (k : List Nat) : keyToU64 k = ofLeBytes (k.take 8) := load8_eq k
/-- `From<&DbI64> for i64`: the same 64 bits read as two's complement -/
theorem keyToI64_eq (k : List Nat) : keyToI64 k = toI64 (ofLeBytes (k.take 8)) :=
  congrArg toI64 (load8_eq k)
/-- `From<&DbVu64> for u64`: the decoded value (`none` = `unwrap` panics) -/
theorem keyToVu64_eq (k : List Nat) : keyToVu64 k = (decode k).map (·.1) := rfl

end Gen

/-! ## the wrappers of `Abyss/Hash.lean` in closed form -/

/-- the stored-key comparison of `DbVu64`: both sides must decode, then the integers decide -/
theorem cmpKey_vu64_eq (a b : List Nat) :
    cmpKey .vu64 a b =
      match Vu64.decode a, Vu64.decode b with
      | some (x, _), some (y, _) => some (decide (x = y))
      | _, _ => none := by
  unfold cmpKey
  simp only [Gen.cmpU8Vu64_eq]
  cases Vu64.decode a with
  | none => rfl
  | some p =>
    obtain ⟨x, r⟩ := p
    cases Vu64.decode b with
    | none => rfl
    | some q =>
      obtain ⟨y, r'⟩ := q
      simp only [Option.map_some, Nat.compare_eq_eq]

theorem u64Key_eq (x : Nat) : u64Key x = Vu64.leBytes x 8 := rfl
theorem u64OfKey_eq (k : List Nat) : u64OfKey k = Vu64.ofLeBytes (k.take 8) := Gen.keyToU64_eq k
theorem i64Key_eq (x : Int) : i64Key x = Vu64.leBytes (x % 2^64).toNat 8 := rfl
theorem i64OfKey_eq (k : List Nat) :
    i64OfKey k = (let u := Vu64.ofLeBytes (k.take 8); if u < 2^63 then (u : Int) else (u : Int) - 2^64) :=
  Gen.keyToI64_eq k
theorem vu64Key_eq (x : Nat) : vu64Key x = Vu64.encode x := rfl
theorem vu64OfKey_eq (k : List Nat) : vu64OfKey k = (Vu64.decode k).map (·.1) := rfl

end Abyss
