import Abyss.Lemmas.RaBufInv
/-!
# `rabuf` model: helper lemmas for `RaBufOps` (lists, chunk lookup, `byteAt`)
-/
namespace Abyss.RaBuf

/-! ## lists -/

theorem ext_getD {l1 l2 : List Nat} (hl : l1.length = l2.length)
    (h : ∀ i, i < l1.length → l1.getD i 0 = l2.getD i 0) : l1 = l2 := by
  apply List.ext_getElem hl
  intro i h1 h2
  have := h i h1
  simpa [List.getD_eq_getElem?_getD, h1, h2] using this

theorem getD_append' (a b : List Nat) (i : Nat) :
    (a ++ b).getD i 0 = if i < a.length then a.getD i 0 else b.getD (i - a.length) 0 := by
  simp only [List.getD_eq_getElem?_getD, List.getElem?_append]
  split <;> rfl

theorem getD_take' (a : List Nat) (n i : Nat) :
    (a.take n).getD i 0 = if i < n then a.getD i 0 else 0 := by
  simp only [List.getD_eq_getElem?_getD, List.getElem?_take]
  split <;> rfl

theorem getD_drop' (a : List Nat) (n i : Nat) :
    (a.drop n).getD i 0 = a.getD (n + i) 0 := by
  simp only [List.getD_eq_getElem?_getD, List.getElem?_drop]

theorem getD_zeros (n i : Nat) : (zeros n).getD i 0 = 0 := by
  simp only [zeros, List.getD_eq_getElem?_getD, List.getElem?_replicate]
  split <;> rfl

theorem getD_ge (a : List Nat) (i : Nat) (h : a.length ≤ i) : a.getD i 0 = 0 := by
  simp [List.getD_eq_getElem?_getD, List.getElem?_eq_none h]

theorem zeros_length (n : Nat) : (zeros n).length = n := by simp [zeros]

theorem resize_length (d : List Nat) (n : Nat) (h : d.length ≤ n) : (resize d n).length = n := by
  simp [resize, zeros]; omega

theorem resize_getD (d : List Nat) (n i : Nat) (h : d.length ≤ n) :
    (resize d n).getD i 0 = d.getD i 0 := by
  unfold resize
  rw [getD_append', getD_take', getD_zeros]
  simp only [List.length_take]
  by_cases h1 : i < d.length
  · have : i < min n d.length := by omega
    simp [this]; omega
  · have : ¬ i < min n d.length := by omega
    rw [getD_ge d i (by omega)]; simp [this]

theorem splice_length (l : List Nat) (p : Nat) (w : List Nat) (hp : p ≤ l.length) :
    (splice l p w).length = max l.length (p + w.length) := by
  simp [splice]; omega

theorem splice_getD (l : List Nat) (p : Nat) (w : List Nat) (i : Nat) (hp : p ≤ l.length) :
    (splice l p w).getD i 0 =
      if i < p then l.getD i 0 else if i < p + w.length then w.getD (i - p) 0 else l.getD i 0 := by
  unfold splice
  rw [getD_append', getD_append', getD_take', getD_drop']
  simp only [List.length_append, List.length_take]
  have hm : min p l.length = p := by omega
  rw [hm]
  by_cases h1 : i < p
  · have : i < p + w.length := by omega
    simp [h1, this]
  · by_cases h2 : i < p + w.length
    · simp [h1, h2]
    · simp only [h1, h2, if_false]
      congr 1; omega

theorem splice_nil (l : List Nat) (p : Nat) : splice l p [] = l := by
  simp [splice]

theorem splice_splice (l : List Nat) (p : Nat) (a b : List Nat) (hp : p ≤ l.length) :
    splice (splice l p a) (p + a.length) b = splice l p (a ++ b) := by
  apply ext_getD
  · rw [splice_length _ _ _ (by rw [splice_length _ _ _ hp]; omega), splice_length _ _ _ hp,
      splice_length _ _ _ hp]
    simp only [List.length_append]; omega
  · intro i _
    rw [splice_getD _ _ _ _ (by rw [splice_length _ _ _ hp]; omega), splice_getD _ _ _ _ hp,
      splice_getD _ _ _ _ hp, getD_append']
    simp only [List.length_append]
    by_cases h1 : i < p
    · have : i < p + a.length := by omega
      simp [h1, this]
    · by_cases h2 : i < p + a.length
      · have h3 : i < p + (a.length + b.length) := by omega
        have h4 : i - p < a.length := by omega
        simp [h1, h2, h3, h4]
      · by_cases h3 : i < p + a.length + b.length
        · have h3' : i < p + (a.length + b.length) := by omega
          have h4 : ¬ i - p < a.length := by omega
          simp only [h1, h2, h3, h3', h4, if_true, if_false]
          congr 1; omega
        · have h3' : ¬ i < p + (a.length + b.length) := by omega
          simp only [h1, h2, h3, h3', if_false]

/-! ## chunk arithmetic -/

theorem chunkStart_le_o (s : St) (i : Nat) : chunkStart s i ≤ i := Nat.div_mul_le_self i s.cs

theorem lt_chunkStart_add_o (s : St) (i : Nat) (h : 0 < s.cs) : i < chunkStart s i + s.cs :=
  Nat.lt_div_mul_add h

theorem aligned_unique_o {cs a x : Nat} (_hcs : 0 < cs) (ha : a % cs = 0) (h1 : a ≤ x) (h2 : x < a + cs) :
    x / cs * cs = a := by
  obtain ⟨q, rfl⟩ := Nat.dvd_of_mod_eq_zero ha
  have : x / cs = q := by
    apply Nat.div_eq_of_lt_le
    · rw [Nat.mul_comm]; exact h1
    · rw [Nat.succ_mul, Nat.mul_comm]; exact h2
  rw [this, Nat.mul_comm]

theorem chunkStart_eq_o {s : St} {a x : Nat} (hcs : 0 < s.cs) (ha : a % s.cs = 0) (h1 : a ≤ x)
    (h2 : x < a + s.cs) : chunkStart s x = a := aligned_unique_o hcs ha h1 h2

/-! ## lookup -/

theorem findChunk_some_o {cs : List Chunk} {off : Nat} {c : Chunk} (h : findChunk cs off = some c) :
    c ∈ cs ∧ c.off = off := by
  unfold findChunk at h
  have h1 := List.mem_of_find?_eq_some h
  have h2 := List.find?_some h
  exact ⟨h1, by simpa using h2⟩

theorem findChunk_none_o {cs : List Chunk} {off : Nat} (h : findChunk cs off = none) :
    ∀ c ∈ cs, c.off ≠ off := by
  unfold findChunk at h
  rw [List.find?_eq_none] at h
  intro c hc
  simpa using h c hc

theorem findChunk_mem {cs : List Chunk} {c : Chunk} (hn : (cs.map (·.off)).Nodup) (hc : c ∈ cs) :
    findChunk cs c.off = some c := by
  induction cs with
  | nil => cases hc
  | cons x xs ih =>
    simp only [List.map_cons, List.nodup_cons] at hn
    unfold findChunk
    rw [List.find?_cons]
    rcases List.mem_cons.mp hc with rfl | hc'
    · simp
    · have hne : x.off ≠ c.off := by
        intro he
        apply hn.1
        rw [he]
        exact List.mem_map.mpr ⟨c, hc', rfl⟩
      have : (x.off == c.off) = false := by simpa using hne
      rw [this]
      exact ih hn.2 hc'

theorem setChunk_offs (cs : List Chunk) (c : Chunk) :
    (setChunk cs c).map (·.off) = cs.map (·.off) := by
  unfold setChunk
  rw [List.map_map]
  apply List.map_congr_left
  intro x _
  simp only [Function.comp]
  by_cases h : x.off = c.off
  · simp [h]
  · have : (x.off == c.off) = false := by simpa using h
    simp [this]

theorem setChunk_length_o (cs : List Chunk) (c : Chunk) : (setChunk cs c).length = cs.length := by
  simp [setChunk]

theorem mem_setChunk_o {cs : List Chunk} {c d : Chunk} (h : d ∈ setChunk cs c) :
    d = c ∨ (d ∈ cs ∧ d.off ≠ c.off) := by
  unfold setChunk at h
  obtain ⟨x, hx, rfl⟩ := List.mem_map.mp h
  by_cases he : x.off = c.off
  · left; simp [he]
  · right
    have : (x.off == c.off) = false := by simpa using he
    simp [this, hx, he]

theorem setChunk_mem_self {cs : List Chunk} {c c' : Chunk} (hc : c ∈ cs) (ho : c'.off = c.off) :
    c' ∈ setChunk cs c' := by
  unfold setChunk
  exact List.mem_map.mpr ⟨c, hc, by simp [ho]⟩

theorem setChunk_mem_other {cs : List Chunk} {c' d : Chunk} (hd : d ∈ cs) (ho : d.off ≠ c'.off) :
    d ∈ setChunk cs c' := by
  unfold setChunk
  have : (d.off == c'.off) = false := by simpa using ho
  exact List.mem_map.mpr ⟨d, hd, by simp [this]⟩

theorem findChunk_setChunk_self {cs : List Chunk} {c c' : Chunk} (hn : (cs.map (·.off)).Nodup)
    (hc : c ∈ cs) (ho : c'.off = c.off) : findChunk (setChunk cs c') c'.off = some c' := by
  apply findChunk_mem
  · rw [setChunk_offs]; exact hn
  · exact setChunk_mem_self hc ho

theorem findChunk_setChunk_other (cs : List Chunk) (c' : Chunk) {off : Nat} (ho : off ≠ c'.off) :
    findChunk (setChunk cs c') off = findChunk cs off := by
  induction cs with
  | nil => rfl
  | cons x xs ih =>
    have ih' : List.find? (fun x => x.off == off) (setChunk xs c') = List.find? (fun x => x.off == off) xs := ih
    show List.find? (fun x => x.off == off) ((if x.off == c'.off then c' else x) :: setChunk xs c') =
      List.find? (fun x => x.off == off) (x :: xs)
    rw [List.find?_cons, List.find?_cons]
    by_cases he : x.off = c'.off
    · have hxo : x.off ≠ off := by rw [he]; exact Ne.symm ho
      have h2 : (c'.off == off) = false := by simpa using (Ne.symm ho)
      have h3 : (x.off == off) = false := by simpa using hxo
      simp only [he, beq_self_eq_true, if_true, h2]
      exact ih'
    · have h1 : (x.off == c'.off) = false := by simpa using he
      simp only [h1, Bool.false_eq_true, if_false]
      rw [ih']

/-! ## `byteAt` and `logical` -/

theorem byteAt_congr {s s' : St} (hc : s'.chunks = s.chunks) (hcs : s'.cs = s.cs)
    (hd : ∀ i, s'.disk.getD i 0 = s.disk.getD i 0) (i : Nat) : s'.byteAt i = s.byteAt i := by
  unfold St.byteAt chunkStart
  rw [hc, hcs, hd]

theorem byteAt_resident {s : St} (h : Inv s) {c : Chunk} (hc : c ∈ s.chunks) {i : Nat}
    (h1 : c.off ≤ i) (h2 : i < c.off + s.cs) : s.byteAt i = c.data.getD (i - c.off) 0 := by
  unfold St.byteAt
  rw [chunkStart_eq_o h.cs_pos (h.shape c hc).1 h1 h2, findChunk_mem h.nodup hc]

theorem byteAt_ge_end {s : St} (h : Inv s) {i : Nat} (hi : s.end_ ≤ i) : s.byteAt i = 0 := by
  unfold St.byteAt
  cases hf : findChunk s.chunks (chunkStart s i) with
  | none =>
    simp only
    exact getD_ge _ _ (Nat.le_trans h.dlen hi)
  | some c =>
    simp only
    obtain ⟨hc, ho⟩ := findChunk_some_o hf
    have h1 := chunkStart_le_o s i
    have h2 := lt_chunkStart_add_o s i h.cs_pos
    apply h.ztail c hc <;> omega

theorem logical_getD {s : St} (h : Inv s) (i : Nat) : s.logical.getD i 0 = s.byteAt i := by
  by_cases hi : i < s.end_
  · simp [St.logical, List.getD_eq_getElem?_getD, hi]
  · rw [getD_ge _ _ (by rw [logical_length]; omega), byteAt_ge_end h (by omega)]

theorem logical_getD_lt (s : St) {i : Nat} (hi : i < s.end_) : s.logical.getD i 0 = s.byteAt i := by
  simp [St.logical, List.getD_eq_getElem?_getD, hi]

/-! ## copying bytes into a resident chunk (`write`, `writeSmall`) -/

theorem patch_length (d w : List Nat) (st m : Nat) (hw : w.length = m) (hfit : st + m ≤ d.length) :
    (d.take st ++ w ++ d.drop (st + m)).length = d.length := by
  simp only [List.length_append, List.length_take, List.length_drop]; omega

theorem patch_getD (d w : List Nat) (st m i : Nat) (hw : w.length = m) (hst : st ≤ d.length) :
    (d.take st ++ w ++ d.drop (st + m)).getD i 0 =
      if i < st then d.getD i 0 else if i < st + m then w.getD (i - st) 0 else d.getD i 0 := by
  rw [getD_append', getD_append', getD_take', getD_drop']
  simp only [List.length_append, List.length_take]
  have hm : min st d.length = st := by omega
  rw [hm, hw]
  by_cases h1 : i < st
  · have : i < st + m := by omega
    simp [h1, this]
  · by_cases h2 : i < st + m
    · simp [h1, h2]
    · simp only [h1, h2, if_false]
      congr 1; omega

/-- the state after copying `w` (`m` bytes) into the resident chunk `c` at the cursor -/
def patched (s : St) (c : Chunk) (w : List Nat) (m : Nat) : St :=
  { s with
    chunks := setChunk s.chunks
      { c with dirty := true,
               data := c.data.take (s.pos - c.off) ++ w ++ c.data.drop (s.pos - c.off + m) },
    pos := s.pos + m,
    end_ := if s.end_ < s.pos + m then s.pos + m else s.end_ }

theorem patched_spec {s : St} {c : Chunk} {w : List Nat} {m : Nat} (h : Inv s) (hc : c ∈ s.chunks)
    (ho : c.off ≤ s.pos) (hw : w.length = m) (hfit : s.pos - c.off + m ≤ s.cs) :
    Inv (patched s c w m) ∧ (patched s c w m).logical = splice s.logical s.pos w := by
  obtain ⟨hal, hlen, hoe⟩ := h.shape c hc
  have hpe := h.pos_le
  have hcs := h.cs_pos
  have hdl := h.dlen
  generalize hc' : ({ c with dirty := true, data := c.data.take (s.pos - c.off) ++ w ++ c.data.drop (s.pos - c.off + m) } : Chunk) = c'
  have hc'off : c'.off = c.off := by rw [← hc']
  have hc'dirty : c'.dirty = true := by rw [← hc']
  have hc'len : c'.data.length = s.cs := by
    rw [← hc']; exact (patch_length _ _ _ _ hw (by omega)).trans hlen
  have hc'get : ∀ i, c'.data.getD i 0 = if i < s.pos - c.off then c.data.getD i 0
      else if i < s.pos - c.off + m then w.getD (i - (s.pos - c.off)) 0 else c.data.getD i 0 := by
    intro i; rw [← hc']; exact patch_getD _ _ _ _ _ hw (by omega)
  generalize he : (if s.end_ < s.pos + m then s.pos + m else s.end_) = e'
  have he' : e' = max s.end_ (s.pos + m) := by rw [← he]; split <;> omega
  have hS : patched s c w m = { s with chunks := setChunk s.chunks c', pos := s.pos + m, end_ := e' } := by
    rw [← hc', ← he]; rfl
  rw [hS]
  have hI : Inv { s with chunks := setChunk s.chunks c', pos := s.pos + m, end_ := e' } := by
    refine ⟨hcs, ?_, ?_, ?_, ?_, ?_, ?_, ?_, ?_⟩
    · intro d hd
      show d.off % s.cs = 0 ∧ d.data.length = s.cs ∧ d.off ≤ e'
      rcases mem_setChunk_o hd with hdc | ⟨hd', _⟩
      · rw [hdc]; exact ⟨by rw [hc'off]; exact hal, hc'len, by rw [hc'off]; omega⟩
      · have := h.shape d hd'; exact ⟨this.1, this.2.1, by omega⟩
    · show ((setChunk s.chunks c').map (·.off)).Nodup
      rw [setChunk_offs]; exact h.nodup
    · show (setChunk s.chunks c').length ≤ s.max
      rw [setChunk_length_o]; exact h.cap
    · show s.disk.length ≤ e'
      omega
    · intro i h1 h2
      have h1' : s.disk.length ≤ i := h1
      have h2' : i < e' := h2
      show ∃ d ∈ setChunk s.chunks c', d.dirty = true ∧ d.off ≤ i ∧ i < d.off + s.cs
      by_cases hi : i < s.end_
      · obtain ⟨d, hd, hdd, hd1, hd2⟩ := h.covered i h1' hi
        by_cases hdo : d.off = c'.off
        · exact ⟨c', setChunk_mem_self hc hc'off, hc'dirty, by omega, by omega⟩
        · exact ⟨d, setChunk_mem_other hd hdo, hdd, hd1, hd2⟩
      · exact ⟨c', setChunk_mem_self hc hc'off, hc'dirty, by omega, by omega⟩
    · intro d hd hdd i hi hlt
      have hlt' : d.off + i < e' := hlt
      have hi' : i < s.cs := hi
      show d.off + i < s.disk.length ∧ d.data.getD i 0 = s.disk.getD (d.off + i) 0
      rcases mem_setChunk_o hd with hdc | ⟨hd', hne⟩
      · rw [hdc, hc'dirty] at hdd; cases hdd
      · apply h.clean d hd' hdd i hi
        by_cases hb : d.off + i < s.end_
        · exact hb
        · exfalso; apply hne
          have hda := (h.shape d hd').1
          have e1 := aligned_unique_o hcs hda (Nat.le_add_right d.off i) (by omega : d.off + i < d.off + s.cs)
          have e2 := aligned_unique_o hcs hal (by omega : c.off ≤ d.off + i) (by omega : d.off + i < c.off + s.cs)
          rw [hc'off, ← e1, ← e2]
    · intro d hd i hi hge
      have hge' : e' ≤ d.off + i := hge
      have hi' : i < s.cs := hi
      rcases mem_setChunk_o hd with hdc | ⟨hd', _⟩
      · have hdo : d.off = c.off := by rw [hdc]; exact hc'off
        rw [hdc, hc'get]
        have n1 : ¬ i < s.pos - c.off := by omega
        have n2 : ¬ i < s.pos - c.off + m := by omega
        rw [if_neg n1, if_neg n2]
        exact h.ztail c hc i hi (by omega)
      · exact h.ztail d hd' i hi (by omega)
    · show s.pos + m ≤ e'
      omega
  refine ⟨hI, ?_⟩
  have hple : s.pos ≤ s.logical.length := by rw [logical_length]; exact hpe
  have hb : ∀ i, St.byteAt { s with chunks := setChunk s.chunks c', pos := s.pos + m, end_ := e' } i =
      if s.pos ≤ i ∧ i < s.pos + m then w.getD (i - s.pos) 0 else s.byteAt i := by
    intro i
    have h1 := chunkStart_le_o s i
    have h2 := lt_chunkStart_add_o s i hcs
    show (match findChunk (setChunk s.chunks c') (chunkStart s i) with
      | some c => c.data.getD (i - c.off) 0
      | none => s.disk.getD i 0) = _
    by_cases hk : chunkStart s i = c.off
    · have f1 : findChunk (setChunk s.chunks c') (chunkStart s i) = some c' := by
        rw [hk, ← hc'off]; exact findChunk_setChunk_self h.nodup hc hc'off
      have f2 : s.byteAt i = c.data.getD (i - c.off) 0 := by
        unfold St.byteAt; rw [hk, findChunk_mem h.nodup hc]
      rw [f1, f2]
      simp only
      rw [hc'get, hc'off]
      by_cases c1 : i - c.off < s.pos - c.off
      · have : ¬ (s.pos ≤ i ∧ i < s.pos + m) := by omega
        rw [if_pos c1, if_neg this]
      · by_cases c2 : i - c.off < s.pos - c.off + m
        · have : s.pos ≤ i ∧ i < s.pos + m := by omega
          rw [if_neg c1, if_pos c2, if_pos this]
          congr 1; omega
        · have : ¬ (s.pos ≤ i ∧ i < s.pos + m) := by omega
          rw [if_neg c1, if_neg c2, if_neg this]
    · have f1 : findChunk (setChunk s.chunks c') (chunkStart s i) = findChunk s.chunks (chunkStart s i) :=
        findChunk_setChunk_other _ _ (by rw [hc'off]; exact hk)
      have : ¬ (s.pos ≤ i ∧ i < s.pos + m) := by
        intro ⟨g1, g2⟩; apply hk
        exact chunkStart_eq_o hcs hal (by omega) (by omega)
      rw [f1, if_neg this]
      rfl
  apply ext_getD
  · rw [logical_length, splice_length _ _ _ hple, logical_length, hw]
    exact he'
  · intro i _
    rw [logical_getD hI, hb, splice_getD _ _ _ _ hple, logical_getD h, hw]
    by_cases c1 : i < s.pos
    · have : ¬ (s.pos ≤ i ∧ i < s.pos + m) := by omega
      rw [if_pos c1, if_neg this]
    · by_cases c2 : i < s.pos + m
      · have : s.pos ≤ i ∧ i < s.pos + m := by omega
        rw [if_neg c1, if_pos c2, if_pos this]
      · have : ¬ (s.pos ≤ i ∧ i < s.pos + m) := by omega
        rw [if_neg c1, if_neg c2, if_neg this]

theorem NoHangCfg.transfer {s s' : St} (h : NoHangCfg s) (hcs : s'.cs = s.cs) (ha : s'.auto = s.auto)
    (hm : s.auto = none → s'.max = s.max) : NoHangCfg s' := by
  unfold NoHangCfg at *
  rw [ha, hcs]
  cases hau : s.auto with
  | none => rw [hau] at h; simp only at h ⊢; rw [hm hau]; exact h
  | some pm => rw [hau] at h; simpa using h

end Abyss.RaBuf
