import Abyss.Lemmas.EngineScanAux1
/-!
# Helpers for `EngineScan.lean`, part 2: the three generated loops vs `scanWords` / `scanBytes` / `scanBuckets`,
facts about the indices the model's scan reaches
-/
namespace Abyss
open Store FileM

namespace BmFile
variable {F : List Nat} {n m : Nat} {h : Nat → Nat} {f : Nat → Bool}

/-- first loop (8 bitmap bytes at a time) -/
theorem loop1 (B : BmFile F n m h f) (hm : n / 8 ≤ m) :
    ∀ (fG fM idx b8 : Nat) (rd : Bool), idx % 8 = 0 → n - idx < fG → n - idx < fM →
      ∃ v, Gen.htxNextKeyPieceOffsetLoop n fG (idx, b8, rd) ⟨F, 128 + 8 * n + idx / 8⟩ =
        some (((scanWords f n fM idx (b8 == 0) rd).1, v, (scanWords f n fM idx (b8 == 0) rd).2),
          ⟨F, 128 + 8 * n + (scanWords f n fM idx (b8 == 0) rd).1 / 8⟩) := by
  intro fG
  induction fG with
  | zero => intro fM idx b8 rd _ h1 _; omega
  | succ fG ih =>
    intro fM idx b8 rd h8 h1 h2
    cases fM with
    | zero => omega
    | succ fM =>
      by_cases hc : (b8 == 0) = true ∧ idx + 8 < n
      · obtain ⟨v, e, hv⟩ := B.read8 (idx / 8) (by omega)
        obtain ⟨w, ew⟩ := ih fM (idx + 64) v true (by omega) (by omega) (by omega)
        have hp : 128 + 8 * n + idx / 8 + 8 = 128 + 8 * n + (idx + 64) / 8 := by omega
        rw [hp] at e
        refine ⟨w, ?_⟩
        simp only [Gen.htxNextKeyPieceOffsetLoop, scanWords]
        rw [if_pos (by simp only [hc, decide_true, Bool.and_self]), if_pos hc, bind_some e, ← hv]
        exact ew
      · refine ⟨b8, ?_⟩
        simp only [Gen.htxNextKeyPieceOffsetLoop, scanWords]
        rw [if_neg (by simpa using hc), if_neg hc, pure_apply]

/-- second loop (one bitmap byte at a time) -/
theorem loop2 (B : BmFile F n m h f) (hm : n / 8 ≤ m) :
    ∀ (fG fM idx b : Nat), idx % 8 = 0 → n - idx < fG → n - idx < fM →
      ∃ v p, Gen.htxNextKeyPieceOffsetLoop2 n fG (idx, b) ⟨F, 128 + 8 * n + idx / 8⟩ =
        some ((scanBytes f n fM idx (b == 0), v), ⟨F, p⟩) := by
  intro fG
  induction fG with
  | zero => intro fM idx b _ h1 _; omega
  | succ fG ih =>
    intro fM idx b h8 h1 h2
    cases fM with
    | zero => omega
    | succ fM =>
      by_cases hc : (b == 0) = true ∧ idx < n
      · obtain ⟨v, e, hv⟩ := B.read1 (idx / 8) (by omega)
        obtain ⟨w, p, ew⟩ := ih fM (idx + 8) v (by omega) (by omega) (by omega)
        have hp : 128 + 8 * n + idx / 8 + 1 = 128 + 8 * n + (idx + 8) / 8 := by omega
        rw [hp] at e
        refine ⟨w, p, ?_⟩
        simp only [Gen.htxNextKeyPieceOffsetLoop2, scanBytes]
        rw [if_pos (by simp only [hc, decide_true, Bool.and_self]), if_pos hc, bind_some e, ← hv]
        exact ew
      · refine ⟨b, 128 + 8 * n + idx / 8, ?_⟩
        simp only [Gen.htxNextKeyPieceOffsetLoop2, scanBytes]
        rw [if_neg (by simpa using hc), if_neg hc, pure_apply]

/-- third loop (bucket entries) -/
theorem loop3 (B : BmFile F n m h f) :
    ∀ (fG fM idx off : Nat), n - idx < fG → n - idx < fM →
      ∃ p, Gen.htxNextKeyPieceOffsetLoop3 n fG (idx, off) ⟨F, 128 + 8 * idx⟩ =
        some (scanBuckets h n fM idx off, ⟨F, p⟩) := by
  intro fG
  induction fG with
  | zero => intro fM idx off h1 _; omega
  | succ fG ih =>
    intro fM idx off h1 h2
    cases fM with
    | zero => omega
    | succ fM =>
      by_cases hc : off = 0 ∧ idx < n
      · have e := B.tbl idx hc.2
        obtain ⟨p, ew⟩ := ih fM (idx + 1) (h idx) (by omega) (by omega)
        have hp : 128 + 8 * idx + 8 = 128 + 8 * (idx + 1) := by omega
        rw [hp] at e
        refine ⟨p, ?_⟩
        simp only [Gen.htxNextKeyPieceOffsetLoop3, scanBuckets]
        rw [if_pos (by simp only [hc, beq_self_eq_true, decide_true, Bool.and_self]), if_pos hc, bind_some e]
        exact ew
      · refine ⟨128 + 8 * idx, ?_⟩
        simp only [Gen.htxNextKeyPieceOffsetLoop3, scanBuckets]
        rw [if_neg (by simpa using hc), if_neg hc, pure_apply]

end BmFile

/-! ## the indices the model's scan reaches -/

/-- after the word loop (and its step back) the index is a multiple of 8 below `n`; if the loop read
anything, its index is at least 64 -/
theorem scanStart_mid (bit : Nat → Bool) (n idx : Nat) (hidx : idx < n) (h8 : idx % 8 = 0) :
    let r := scanWords bit n (n + 1) idx true false
    let i3 := if r.2 then r.1 - 64 else r.1
    (r.2 = true → 64 ≤ r.1 ∧ r.1 % 8 = 0) ∧ i3 % 8 = 0 ∧ i3 < n := by
  intro r i3
  by_cases hc : idx + 8 < n
  · obtain ⟨i2, e, a1, a2, _, a4, _⟩ :=
      scanWords_inv bit n idx n (idx + 64) (wordZero bit (idx / 8)) (by omega) (by omega)
        (by omega) (by omega) (fun i hi1 hi2 => by omega)
        (fun hw i hi1 hi2 => wordZero_true hw i (by omega) (by omega))
    have er : r = (i2, true) := by
      show scanWords bit n (n + 1) idx true false = _
      simp only [scanWords, hc, and_self, if_true]
      exact e
    have e3 : i3 = i2 - 64 := by
      show (if r.2 then r.1 - 64 else r.1) = _
      rw [er]; simp
    rw [e3, er]
    exact ⟨fun _ => ⟨a2, a1⟩, by omega, a4⟩
  · have er : r = (idx, false) := by
      show scanWords bit n (n + 1) idx true false = _
      simp [scanWords, hc]
    have e3 : i3 = idx := by
      show (if r.2 then r.1 - 64 else r.1) = _
      rw [er]; simp
    rw [e3, er]
    exact ⟨fun hf => by simp at hf, h8, hidx⟩

/-- the byte loop started at a multiple of 8 below `n` ends at an index `≥ 8` whose predecessor byte
starts below `n` -/
theorem scanBytes_end (bit : Nat → Bool) (n i3 : Nat) (h8 : i3 % 8 = 0) (hlt : i3 < n) :
    8 ≤ scanBytes bit n (n + 1) i3 true ∧ scanBytes bit n (n + 1) i3 true - 8 < n := by
  have e4 : scanBytes bit n (n + 1) i3 true = scanBytes bit n n (i3 + 8) (byteZero bit (i3 / 8)) := by
    simp [scanBytes, hlt]
  have := scanBytes_inv bit n i3 n (i3 + 8) (byteZero bit (i3 / 8)) (by omega) (by omega)
    (by omega) (by omega) (fun i hi1 hi2 => by omega)
    (fun hw i hi1 hi2 => byteZero_true hw i (by omega) (by omega))
  rw [← e4] at this
  exact ⟨this.1, this.2.2.1⟩

end Abyss
