import Abyss.Lemmas.DelBasic
/-!
# Last step of `del`: freeing the value record and the unlinked key record restores `Inv`
-/
namespace Abyss
namespace Store
namespace Del

/-- freeing the value record and the unlinked key record `o` turns `InvX … o` into `Inv` -/
theorem finish_inv {kt : KeyType} {s1 : Store} {o sz : Nat} {r : KeyRec}
    (h1 : InvX kt s1 o) (hu : s1.kf.used o = some (sz, r))
    {kf' : RecFile KeyRec} {vf' : RecFile (List Nat)}
    (kwf' : RecFile.WF keyCfg kf') (vwf' : RecFile.WF valCfg vf')
    (hk0 : kf'.used o = none) (hks : ∀ o', o' ≠ o → kf'.used o' = s1.kf.used o')
    (hkc : RecFile.usedCount kf' + 1 = RecFile.usedCount s1.kf)
    (hkl : kf'.slots.length = s1.kf.slots.length)
    (hv0 : vf'.used r.valOff = none) (hvs : ∀ vo, vo ≠ r.valOff → vf'.used vo = s1.vf.used vo) :
    Inv kt { s1 with vf := vf', kf := kf', count := s1.count - 1 } := by
  -- used records of kf' are used records of s1.kf other than `o`
  have hback : ∀ o' sz' r', kf'.used o' = some (sz', r') → o' ≠ o ∧ s1.kf.used o' = some (sz', r') := by
    intro o' sz' r' hu'
    have hne : o' ≠ o := by
      intro e; subst e; rw [hk0] at hu'; cases hu'
    exact ⟨hne, by rw [← hks o' hne]; exact hu'⟩
  have hchain : ∀ b l, b < s1.n → s1.chain b = some l →
      chainFrom kf' (kf'.slots.length + 1) (s1.headOf b) = some l := by
    intro b l hb hc
    obtain ⟨l', hc', hn, hp⟩ := h1.chains b hb
    rw [hc] at hc'
    cases hc'
    refine chainFrom_transfer hc (fun p hp' => hks p.1 (hp p hp').2) ?_
    have := chain_length_le h1 hb hc
    omega
  refine
    { npos := h1.npos, kwf := kwf', vwf := vwf', heads_lt := h1.heads_lt, bits_ok := h1.bits_ok,
      chains := ?_, on_chain := ?_, keys_ok := ?_, keys_inj := ?_, val_used := ?_, val_inj := ?_,
      val_owned := ?_, count_ok := ?_ }
  · intro b hb
    obtain ⟨l, hc, hn, hp⟩ := h1.chains b hb
    refine ⟨l, hchain b l hb hc, hn, fun p hp' => ⟨(hp p hp').1, (chainFrom_mem hc p hp').1⟩⟩
  · intro o' sz' r' hu' _
    obtain ⟨hne, hu1⟩ := hback o' sz' r' hu'
    obtain ⟨l, hc, hm⟩ := h1.on_chain o' sz' r' hu1 hne
    exact ⟨l, hchain _ l (bucketOf_lt _ h1.npos) hc, hm⟩
  · intro o' sz' r' hu'
    exact h1.keys_ok o' sz' r' (hback o' sz' r' hu').2
  · intro o1 o2 sz1 sz2 r1 r2 hu1 hu2 hk
    exact h1.keys_inj o1 o2 sz1 sz2 r1 r2 (hback _ _ _ hu1).2 (hback _ _ _ hu2).2 hk
  · intro o' sz' r' hu'
    obtain ⟨hne, hu1⟩ := hback o' sz' r' hu'
    obtain ⟨vs', v', hv'⟩ := h1.val_used o' sz' r' hu1
    refine ⟨vs', v', ?_⟩
    have : r'.valOff ≠ r.valOff := fun e => hne (h1.val_inj o' o sz' sz r' r hu1 hu e)
    show vf'.used r'.valOff = _
    rw [hvs _ this]; exact hv'
  · intro o1 o2 sz1 sz2 r1 r2 hu1 hu2 hk
    exact h1.val_inj o1 o2 sz1 sz2 r1 r2 (hback _ _ _ hu1).2 (hback _ _ _ hu2).2 hk
  · intro vo vs' v' hv'
    have hv'' : vf'.used vo = some (vs', v') := hv'
    have hne : vo ≠ r.valOff := by
      intro e; subst e; rw [hv0] at hv''; cases hv''
    rw [hvs vo hne] at hv''
    obtain ⟨o', sz', r', hu', hvo⟩ := h1.val_owned vo vs' v' hv''
    have hne' : o' ≠ o := by
      intro e; subst e; rw [hu] at hu'; cases hu'; exact hne hvo.symm
    exact ⟨o', sz', r', by show kf'.used o' = _; rw [hks o' hne']; exact hu', hvo⟩
  · have := count_eq h1
    refine (count_ok_iff _).mpr ?_
    show s1.count - 1 = RecFile.usedCount kf'
    omega

/-- the (key, value offset) pairs after the last step -/
theorem finish_hasKV {kt : KeyType} {s1 : Store} {o sz : Nat} {r : KeyRec}
    (h1 : InvX kt s1 o) (hu : s1.kf.used o = some (sz, r))
    {kf' : RecFile KeyRec} {vf' : RecFile (List Nat)} {c : Nat}
    (hk0 : kf'.used o = none) (hks : ∀ o', o' ≠ o → kf'.used o' = s1.kf.used o') (k' : List Nat) (vo : Nat) :
    HasKV { s1 with vf := vf', kf := kf', count := c } k' vo ↔ k' ≠ r.key ∧ HasKV s1 k' vo := by
  constructor
  · rintro ⟨o', sz', r', hu', hk, hvo⟩
    have hu'' : kf'.used o' = some (sz', r') := hu'
    have hne : o' ≠ o := by
      intro e; subst e; rw [hk0] at hu''; cases hu''
    rw [hks o' hne] at hu''
    refine ⟨?_, o', sz', r', hu'', hk, hvo⟩
    intro e
    exact hne (h1.keys_inj o' o sz' sz r' r hu'' hu (by rw [hk, e]))
  · rintro ⟨hne, o', sz', r', hu', hk, hvo⟩
    have hne' : o' ≠ o := by
      intro e; subst e; rw [hu] at hu'; cases hu'; exact hne hk.symm
    exact ⟨o', sz', r', by show kf'.used o' = _; rw [hks o' hne']; exact hu', hk, hvo⟩

end Del
end Store
end Abyss
