import Abyss.Lemmas.ParseRecBytes
import Abyss.Lemmas.AllocL
/-!
# The reader recovers a rendered record file: the part that is generic in the payload type
-/
namespace Abyss
open Vu64
variable {α : Type}

/-! ## header -/

theorem flatten_le64_length (hs : List Nat) : ((hs.map le64).flatten).length = 8 * hs.length := by
  induction hs with
  | nil => rfl
  | cons h t ih => simp only [List.map_cons, List.flatten_cons, List.length_append, le64_length, ih,
      List.length_cons]; omega

theorem renderRecHeader_length (c : FileCfg) (sig2 : List Nat) (f : RecFile α)
    (h1 : c.sig1.length = 8) (h2 : sig2.length = 8) (h3 : 16 ≤ c.first)
    (h4 : c.first + 8 * f.heads.length ≤ c.headerSz) :
    (renderRecHeader c sig2 f).length = c.headerSz := by
  unfold renderRecHeader
  simp only [List.length_append, zeros_length, flatten_le64_length, h1, h2]
  omega

theorem renderRecHeader_take (c : FileCfg) (sig2 : List Nat) (f : RecFile α) (rest : List Nat)
    (h1 : c.sig1.length = 8) : (renderRecHeader c sig2 f ++ rest).take 8 = c.sig1 := by
  unfold renderRecHeader
  simp only [List.append_assoc]
  exact List.take_left' h1

theorem renderRecHeader_drop_take (c : FileCfg) (sig2 : List Nat) (f : RecFile α) (rest : List Nat)
    (h1 : c.sig1.length = 8) (h2 : sig2.length = 8) :
    ((renderRecHeader c sig2 f ++ rest).drop 8).take 8 = sig2 := by
  unfold renderRecHeader
  simp only [List.append_assoc]
  rw [List.drop_left' h1]
  exact List.take_left' h2

theorem getLe64_flatten (hs : List Nat) : ∀ (pre post : List Nat) (i : Nat) (hi : i < hs.length),
    hs[i] < 2^64 → getLe64 (pre ++ (hs.map le64).flatten ++ post) (pre.length + 8 * i) = hs[i] := by
  induction hs with
  | nil => intro pre post i hi; simp at hi
  | cons h t ih =>
    intro pre post i hi hlt
    cases i with
    | zero =>
      simp only [List.map_cons, List.flatten_cons, Nat.mul_zero, Nat.add_zero, List.getElem_cons_zero] at hlt ⊢
      have := getLe64_append pre ((t.map le64).flatten ++ post) h hlt
      simpa only [List.append_assoc] using this
    | succ i =>
      simp only [List.getElem_cons_succ] at hlt ⊢
      have := ih (pre ++ le64 h) post i (by simpa using hi) hlt
      simp only [List.length_append, le64_length] at this
      simp only [List.map_cons, List.flatten_cons]
      rw [show pre.length + 8 * (i + 1) = pre.length + 8 + 8 * i by omega]
      simpa only [List.append_assoc] using this

theorem heads_read (hs pre post : List Nat) (hlt : ∀ h ∈ hs, h < 2^64) :
    ((List.range hs.length).map fun i => getLe64 (pre ++ (hs.map le64).flatten ++ post) (pre.length + 8 * i))
      = hs := by
  apply List.ext_getElem
  · simp
  · intro i h1 h2
    simp only [List.getElem_map, List.getElem_range]
    have hi : i < hs.length := by simpa using h1
    exact getLe64_flatten hs pre post i hi (hlt _ (List.getElem_mem hi))

theorem renderRecHeader_heads (c : FileCfg) (sig2 : List Nat) (f : RecFile α) (rest : List Nat)
    (h1 : c.sig1.length = 8) (h2 : sig2.length = 8) (h3 : 16 ≤ c.first)
    (hlt : ∀ h ∈ f.heads, h < 2^64) :
    ((List.range f.heads.length).map fun i => getLe64 (renderRecHeader c sig2 f ++ rest) (c.first + 8 * i))
      = f.heads := by
  have := heads_read f.heads (c.sig1 ++ sig2 ++ zeros (c.first - (c.sig1 ++ sig2).length))
    (zeros (c.headerSz - (c.sig1 ++ sig2 ++ zeros (c.first - (c.sig1 ++ sig2).length) ++
      (f.heads.map le64).flatten).length) ++ rest) hlt
  have hl : (c.sig1 ++ sig2 ++ zeros (c.first - (c.sig1 ++ sig2).length)).length = c.first := by
    simp only [List.length_append, zeros_length, h1, h2]; omega
  rw [hl] at this
  unfold renderRecHeader
  simpa only [List.append_assoc] using this


/-! ## the slot area -/

/-- what the generic proof needs of one rendered slot -/
def RawOK (render : Slot α → List Nat) (s : Slot α) : Prop :=
  (render s).length = s.size ∧ 8 ∣ s.size ∧ s.size < 2^35 ∧
    ∃ rest, render s = encode (s.size / 8) ++ rest

theorem slots_flatten_length (render : Slot α → List Nat) (l : List (Nat × Slot α)) :
    ∀ (a b : Nat), Tiled l a b → (∀ p ∈ l, (render p.2).length = p.2.size) →
    a + ((l.map fun p => render p.2).flatten).length = b := by
  induction l with
  | nil => intro a b ht _; simpa [Tiled] using ht
  | cons q t ih =>
    intro a b ht hr
    obtain ⟨o, s⟩ := q
    obtain ⟨_, _, ht'⟩ := ht
    have h1 := ih _ _ ht' (fun p hp => hr p (List.mem_cons_of_mem _ hp))
    have h2 := hr (o, s) List.mem_cons_self
    simp only [List.map_cons, List.flatten_cons, List.length_append] at h1 h2 ⊢
    omega

theorem tiled_length_le (l : List (Nat × Slot α)) : ∀ (a b : Nat), Tiled l a b → a + l.length ≤ b := by
  induction l with
  | nil => intro a b ht; simp [Tiled] at ht; simp [ht]
  | cons q t ih =>
    intro a b ht
    obtain ⟨o, s⟩ := q
    obtain ⟨_, hp, ht'⟩ := ht
    have := ih _ _ ht'
    simp only [List.length_cons]; omega

/-- the slot area of a rendered file is cut back into the rendered slots -/
theorem splitSlots_render (render : Slot α → List Nat) (l : List (Nat × Slot α)) :
    ∀ (a b fuel : Nat), Tiled l a b → l.length < fuel → (∀ p ∈ l, RawOK render p.2) →
    splitSlots fuel a (l.map fun p => render p.2).flatten = some (l.map fun p => (p.1, render p.2)) := by
  induction l with
  | nil =>
    intro a b fuel _ hf _
    obtain ⟨fuel, rfl⟩ : ∃ k, fuel = k + 1 := ⟨fuel - 1, by simp at hf; omega⟩
    simp [splitSlots]
  | cons q t ih =>
    intro a b fuel ht hf hr
    obtain ⟨fuel, rfl⟩ : ∃ k, fuel = k + 1 := ⟨fuel - 1, by simp at hf; omega⟩
    obtain ⟨o, s⟩ := q
    obtain ⟨rfl, hpos, ht'⟩ := ht
    obtain ⟨hlen, h8, hlt, rest, hrest⟩ : RawOK render s := hr (o, s) List.mem_cons_self
    have ih' := ih _ _ fuel ht' (by simpa using hf) (fun p hp => hr p (List.mem_cons_of_mem _ hp))
    have h88 : 8 * (s.size / 8) = s.size := Nat.mul_div_cancel' h8
    have hne : ¬ (render s ++ (t.map fun p => render p.2).flatten).isEmpty = true := by
      intro he
      have := List.isEmpty_iff.mp he
      have h0 : (render s ++ (t.map fun p => render p.2).flatten).length = 0 := by rw [this]; rfl
      simp only [List.length_append] at h0
      omega
    have hdec : decode (render s ++ (t.map fun p => render p.2).flatten) =
        some (s.size / 8, rest ++ (t.map fun p => render p.2).flatten) := by
      rw [hrest, List.append_assoc]
      exact decode_encode _ (by omega) _
    simp only [List.map_cons, List.flatten_cons]
    rw [splitSlots, if_neg hne, hdec]
    simp only [h88]
    rw [if_neg (by simp only [List.length_append]; omega), List.drop_left' hlen, List.take_left' hlen, ih']
    rfl

/-! ## association lists -/

theorem aget_map {β γ : Type} (g : β → γ) (l : List (Nat × β)) (o : Nat) :
    aget (l.map fun p => (p.1, g p.2)) o = (aget l o).map g := by
  induction l with
  | nil => rfl
  | cons q t ih =>
    obtain ⟨k, v⟩ := q
    by_cases hk : k = o
    · simp [aget, hk]
    · simp [aget, hk, ih]

theorem aget_mem {β : Type} (l : List (Nat × β)) (o : Nat) (b : β) (h : aget l o = some b) :
    (o, b) ∈ l := by
  induction l with
  | nil => simp [aget] at h
  | cons p t ih =>
    obtain ⟨k, v⟩ := p
    unfold aget at h
    by_cases hk : k = o
    · simp [hk] at h; subst hk h; simp
    · simp [hk] at h; exact List.mem_cons_of_mem _ (ih h)

/-! ## free lists -/

theorem freeOffsetsFrom_of_freeChain (render : Slot α → List Nat) (f : RecFile α)
    (hfree : ∀ o sz nx, f.get o = some (.free sz nx) → parseFree (render (.free sz nx)) = some (sz, nx)) :
    ∀ (fuel h : Nat) (l : List Nat), RecFile.freeChain f fuel h = some l →
      freeOffsetsFrom (f.slots.map fun p => (p.1, render p.2)) fuel h = some l := by
  intro fuel
  induction fuel with
  | zero => intro h l hl; simp [RecFile.freeChain] at hl
  | succ fuel ih =>
    intro h l hl
    unfold RecFile.freeChain at hl
    unfold freeOffsetsFrom
    by_cases h0 : h = 0
    · simpa [h0] using hl
    · simp only [h0, if_false] at hl ⊢
      rw [aget_map]
      cases hg : f.get h with
      | none => simp [hg] at hl
      | some s =>
        cases s with
        | used sz p => simp [hg] at hl
        | free sz nx =>
          simp only [hg, Option.map_eq_some_iff] at hl
          obtain ⟨l', hl', rfl⟩ := hl
          have hg' : aget f.slots h = some (.free sz nx) := hg
          simp only [hg', Option.map_some, hfree h sz nx hg, ih nx l' hl']

theorem allFreeOffsets_of_freeChain (render : Slot α → List Nat) (f : RecFile α)
    (hfree : ∀ o sz nx, f.get o = some (.free sz nx) → parseFree (render (.free sz nx)) = some (sz, nx))
    (hs : List Nat) (hall : ∀ h ∈ hs, ∃ l, RecFile.freeChain f (f.slots.length + 1) h = some l) :
    ∃ frees, allFreeOffsets (f.slots.map fun p => (p.1, render p.2)) hs = some frees ∧
      ∀ o, o ∈ frees ↔ ∃ h ∈ hs, ∃ l, RecFile.freeChain f (f.slots.length + 1) h = some l ∧ o ∈ l := by
  induction hs with
  | nil => exact ⟨[], rfl, by simp⟩
  | cons h t ih =>
    obtain ⟨l, hl⟩ := hall h List.mem_cons_self
    obtain ⟨fr, hfr, hmem⟩ := ih (fun h' hh' => hall h' (List.mem_cons_of_mem _ hh'))
    have h1 := freeOffsetsFrom_of_freeChain render f hfree _ _ _ hl
    refine ⟨l ++ fr, ?_, ?_⟩
    · unfold allFreeOffsets
      simp only [List.length_map, h1, hfr]
    · intro o
      simp only [List.mem_append, hmem, List.mem_cons, exists_eq_or_imp, hl, Option.some.injEq,
        exists_eq_left']

theorem getD_of_lt (l : List Nat) (i : Nat) (hi : i < l.length) : l.getD i 0 = l[i] := by
  simp [List.getD_eq_getElem?_getD, List.getElem?_eq_getElem hi]

/-- an offset is on one of the free lists iff it holds a free slot -/
theorem mem_frees_iff {c : FileCfg} {f : RecFile α} (hc : CfgOK c) (hwf : RecFile.WF c f) (o : Nat) :
    (∃ h ∈ f.heads, ∃ l, RecFile.freeChain f (f.slots.length + 1) h = some l ∧ o ∈ l) ↔
      ∃ sz nx, f.get o = some (.free sz nx) := by
  constructor
  · rintro ⟨h, hh, l, hl, ho⟩
    obtain ⟨i, hi, rfl⟩ := List.getElem_of_mem hh
    obtain ⟨l', hl', _, hm⟩ := hwf.lists i (by rw [← hwf.heads_len]; exact hi)
    unfold RecFile.freeList at hl'
    rw [getD_of_lt _ _ hi, hl] at hl'
    cases hl'
    obtain ⟨sz, nx, hg, _⟩ := hm o ho
    exact ⟨sz, nx, hg⟩
  · rintro ⟨sz, nx, hg⟩
    obtain ⟨l, hl, ho⟩ := hwf.onlist o sz nx hg
    have hi : RecFile.headIdx c sz < f.heads.length := by rw [hwf.heads_len]; exact hc.idx_lt sz
    unfold RecFile.freeList at hl
    rw [getD_of_lt _ _ hi] at hl
    exact ⟨_, List.getElem_mem hi, l, hl, ho⟩

theorem heads_chains {c : FileCfg} {f : RecFile α} (hwf : RecFile.WF c f) :
    ∀ h ∈ f.heads, ∃ l, RecFile.freeChain f (f.slots.length + 1) h = some l := by
  intro h hh
  obtain ⟨i, hi, rfl⟩ := List.getElem_of_mem hh
  obtain ⟨l', hl', _, _⟩ := hwf.lists i (by rw [← hwf.heads_len]; exact hi)
  unfold RecFile.freeList at hl'
  rw [getD_of_lt _ _ hi] at hl'
  exact ⟨l', hl'⟩

/-! ## rebuilding the slots -/

theorem mapM_rebuild {β γ : Type} (φ : γ → β) (g : β → Option γ) (l : List γ)
    (h : ∀ p ∈ l, g (φ p) = some p) : (l.map φ).mapM g = some l := by
  induction l with
  | nil => rfl
  | cons q t ih =>
    have h1 := h q List.mem_cons_self
    have h2 := ih (fun p hp => h p (List.mem_cons_of_mem _ hp))
    simp [List.mapM_cons, h1, h2]


/-! ## the whole file -/

theorem parseRecFile_generic (c : FileCfg) (hc : CfgOK c) (hsig1 : c.sig1.length = 8)
    (hfirst : 16 ≤ c.first) (hhdr : c.first + 128 ≤ c.headerSz)
    (sig2 : List Nat) (hs : sig2.length = 8)
    (render : Slot α → List Nat) (parseUsed : List Nat → Option (Nat × α))
    (f : RecFile α) (hwf : RecFile.WF c f) (hh : ∀ h ∈ f.heads, h < 2^64)
    (hraw : ∀ p ∈ f.slots, RawOK render p.2)
    (hused : ∀ p ∈ f.slots, ∀ sz x, p.2 = .used sz x → parseUsed (render p.2) = some (sz, x))
    (hfree : ∀ p ∈ f.slots, ∀ sz nx, p.2 = .free sz nx → parseFree (render p.2) = some (sz, nx)) :
    parseRecFile c sig2 parseUsed
      (renderRecHeader c sig2 f ++ (f.slots.map fun p => render p.2).flatten) = some f := by
  have hlenH : (renderRecHeader c sig2 f).length = c.headerSz :=
    renderRecHeader_length c sig2 f hsig1 hs hfirst (by rw [hwf.heads_len]; omega)
  have hlen : (renderRecHeader c sig2 f ++ (f.slots.map fun p => render p.2).flatten).length = f.end_ := by
    rw [List.length_append, hlenH]
    exact slots_flatten_length render f.slots _ _ hwf.tiled (fun p hp => (hraw p hp).1)
  have hle := tiled_length_le f.slots _ _ hwf.tiled
  have hheads := renderRecHeader_heads c sig2 f (f.slots.map fun p => render p.2).flatten hsig1 hs hfirst hh
  rw [hwf.heads_len] at hheads
  have hsplit := splitSlots_render render f.slots c.headerSz f.end_ (f.end_ + 1) hwf.tiled (by omega) hraw
  have hfree' : ∀ o sz nx, f.get o = some (.free sz nx) → parseFree (render (.free sz nx)) = some (sz, nx) :=
    fun o sz nx hg => hfree (o, .free sz nx) (aget_mem _ _ _ hg) sz nx rfl
  obtain ⟨frees, hfrees, hmem⟩ := allFreeOffsets_of_freeChain render f hfree' f.heads (heads_chains hwf)
  have hmem' : ∀ o, o ∈ frees ↔ ∃ sz nx, f.get o = some (.free sz nx) :=
    fun o => (hmem o).trans (mem_frees_iff hc hwf o)
  unfold parseRecFile
  rw [hlen, if_neg (by omega), renderRecHeader_take c sig2 f _ hsig1,
    renderRecHeader_drop_take c sig2 f _ hsig1 hs]
  simp only [beq_self_eq_true, Bool.and_self, Bool.not_true, Bool.false_eq_true, if_false]
  rw [hheads, List.drop_left' hlenH, hsplit]
  simp only [hfrees]
  rw [mapM_rebuild (fun p : Nat × Slot α => (p.1, render p.2))]
  · rfl
  · intro p hp
    obtain ⟨o, s⟩ := p
    have hg : f.get o = some s := hwf.tiled.aget_of_mem hp
    cases s with
    | used sz x =>
      have hn : ¬ o ∈ frees := by
        rw [hmem']; rintro ⟨sz', nx', hg'⟩; rw [hg] at hg'; cases hg'
      simp only [List.contains_iff_mem, hn, if_false, hused _ hp sz x rfl, Option.map_some]
    | free sz nx =>
      have hy : o ∈ frees := (hmem' o).mpr ⟨sz, nx, hg⟩
      simp only [List.contains_iff_mem, hy, if_true, hfree _ hp sz nx rfl, Option.map_some]

end Abyss
