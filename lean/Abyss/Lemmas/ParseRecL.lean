import Abyss.Renderable
import Abyss.Lemmas.Vu64L
import Abyss.Lemmas.AllocL
/-!
# The reader recovers a rendered record file (helper lemmas for `parse_render`)
-/
namespace Abyss

theorem getLe64_le64 (pre post : List Nat) (v : Nat) (h : v < 2^64) :
    getLe64 (pre ++ le64 v ++ post) pre.length = v := by sorry

/-- a rendered free slot is read back -/
theorem parseFree_render (sz nx : Nat) (h1 : sz < 2^35) (h2 : 8 ∣ sz) (h3 : nx < 2^64)
    (hfit : (freeContent sz nx).length ≤ sz) :
    parseFree (padTo sz (freeContent sz nx)) = some (sz, nx) := by sorry

/-- a rendered used value slot is read back -/
theorem parseValUsed_render (sz : Nat) (v : List Nat) (h1 : sz < 2^35) (h2 : 8 ∣ sz) (h3 : v.length < 2^31)
    (hfit : (valContent sz v).length ≤ sz) :
    parseValUsed (padTo sz (valContent sz v)) = some (sz, v) := by sorry

/-- a rendered used key slot is read back -/
theorem parseKeyUsed_render (sz : Nat) (r : KeyRec) (h1 : sz < 2^35) (h2 : 8 ∣ sz) (h3 : r.key.length < 2^31)
    (h4 : r.valOff < 2^63) (h5 : r.next < 2^63) (h6 : 8 ∣ r.valOff) (h7 : 8 ∣ r.next)
    (hfit : (keyContent sz r).length ≤ sz) :
    parseKeyUsed (padTo sz (keyContent sz r)) = some (sz, r) := by sorry

/-- the slot area of a rendered file is cut back into the rendered slots (any payload type):
`rs` are the rendered slots, each of its own positive size which its leading size field states -/
theorem splitSlots_flatten (rs : List (Nat × Nat × List Nat)) (start : Nat) (fuel : Nat)
    (hfuel : rs.length < fuel)
    (hoff : Tiled (rs.map fun p => (p.1, (Slot.free p.2.1 0 : Slot Unit))) start
              (start + (rs.map fun p => p.2.1).sum))
    (hraw : ∀ p ∈ rs, p.2.2.length = p.2.1 ∧ 0 < p.2.1 ∧ 8 ∣ p.2.1 ∧ p.2.1 < 2^35 ∧
              ∃ rest, p.2.2 = Vu64.encode (p.2.1 / 8) ++ rest) :
    splitSlots fuel start (rs.map fun p => p.2.2).flatten = some (rs.map fun p => (p.1, p.2.2)) := by sorry

/-- the whole key file: the reader gives back the record file -/
theorem parseRecFile_key (sig2 : List Nat) (hs : sig2.length = 8) (f : RecFile KeyRec)
    (hwf : RecFile.WF keyCfg f) (hh : ∀ h ∈ f.heads, h < 2^64) (hsl : ∀ p ∈ f.slots, slotOKKey p.2) :
    parseRecFile keyCfg sig2 parseKeyUsed (renderKeyFile sig2 f) = some f := by sorry

/-- the whole value file -/
theorem parseRecFile_val (sig2 : List Nat) (hs : sig2.length = 8) (f : RecFile (List Nat))
    (hwf : RecFile.WF valCfg f) (hh : ∀ h ∈ f.heads, h < 2^64) (hsl : ∀ p ∈ f.slots, slotOKVal p.2) :
    parseRecFile valCfg sig2 parseValUsed (renderValFile sig2 f) = some f := by sorry

end Abyss
