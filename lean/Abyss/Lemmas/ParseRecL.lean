import Abyss.Renderable
import Abyss.Lemmas.Vu64L
import Abyss.Lemmas.AllocL
import Abyss.Lemmas.ParseRecBytes
import Abyss.Lemmas.ParseRecGen
/-!
# The reader recovers a rendered record file (helper lemmas for `parse_render`)

Small byte-list facts live in `ParseRecBytes.lean`; the part of the whole-file round trip that does
not depend on the payload type (`parseRecFile_generic`, with `splitSlots_render` in place of the
former `splitSlots_flatten`) lives in `ParseRecGen.lean`.
-/
namespace Abyss
open Vu64

theorem getLe64_le64 (pre post : List Nat) (v : Nat) (h : v < 2^64) :
    getLe64 (pre ++ le64 v ++ post) pre.length = v := getLe64_append pre post v h

set_option linter.unusedVariables false in
/-- a rendered free slot is read back -/
theorem parseFree_render (sz nx : Nat) (h1 : sz < 2^35) (h2 : 8 ∣ sz) (h3 : nx < 2^64)
    (hfit : (freeContent sz nx).length ≤ sz) :
    parseFree (padTo sz (freeContent sz nx)) = some (sz, nx) := by
  have h8 : 8 * (sz / 8) = sz := Nat.mul_div_cancel' h2
  have hlt : sz / 8 < 2^64 := by omega
  unfold parseFree padTo freeContent
  simp only [List.append_assoc]
  rw [decode_encode _ hlt]
  simp only [List.singleton_append, List.length_append, le64_length]
  rw [if_neg (by omega), take8_le64, ofLeBytes_le64 nx h3, h8]

set_option linter.unusedVariables false in
/-- a rendered used value slot is read back -/
theorem parseValUsed_render (sz : Nat) (v : List Nat) (h1 : sz < 2^35) (h2 : 8 ∣ sz) (h3 : v.length < 2^31)
    (hfit : (valContent sz v).length ≤ sz) :
    parseValUsed (padTo sz (valContent sz v)) = some (sz, v) := by
  have h8 : 8 * (sz / 8) = sz := Nat.mul_div_cancel' h2
  have hlt : sz / 8 < 2^64 := by omega
  have hl : v.length < 2^64 := by omega
  unfold parseValUsed padTo valContent
  simp only [List.append_assoc]
  rw [decode_encode _ hlt]
  simp only
  rw [decode_encode _ hl]
  simp only [List.length_append]
  rw [if_neg (by omega), List.take_left, h8]

set_option linter.unusedVariables false in
/-- a rendered used key slot is read back -/
theorem parseKeyUsed_render (sz : Nat) (r : KeyRec) (h1 : sz < 2^35) (h2 : 8 ∣ sz) (h3 : r.key.length < 2^31)
    (h4 : r.valOff < 2^63) (h5 : r.next < 2^63) (h6 : 8 ∣ r.valOff) (h7 : 8 ∣ r.next)
    (hfit : (keyContent sz r).length ≤ sz) :
    parseKeyUsed (padTo sz (keyContent sz r)) = some (sz, r) := by
  have h8 : 8 * (sz / 8) = sz := Nat.mul_div_cancel' h2
  have h8v : 8 * (r.valOff / 8) = r.valOff := Nat.mul_div_cancel' h6
  have h8n : 8 * (r.next / 8) = r.next := Nat.mul_div_cancel' h7
  have hlt : sz / 8 < 2^64 := by omega
  have hl : r.key.length < 2^64 := by omega
  have hv : r.valOff / 8 < 2^64 := by omega
  have hn : r.next / 8 < 2^64 := by omega
  unfold parseKeyUsed padTo keyContent
  simp only [List.append_assoc]
  rw [decode_encode _ hlt]
  simp only
  rw [decode_encode _ hl]
  simp only [List.length_append]
  rw [if_neg (by omega), List.drop_left, decode_encode _ hv]
  simp only
  rw [decode_encode _ hn]
  simp only [List.take_left, h8, h8v, h8n]

/-! ## every slot size is a multiple of 8 -/

theorem legal8_key (sz : Nat) (h : LegalSz keyCfg sz) : 8 ∣ sz := by
  rcases h with h | ⟨_, h⟩
  · have : ∀ x ∈ keyCfg.sizeAry, 8 ∣ x := by decide
    exact this sz h
  · omega

theorem legal8_val (sz : Nat) (h : LegalSz valCfg sz) : 8 ∣ sz := by
  rcases h with h | ⟨_, h⟩
  · have : ∀ x ∈ valCfg.sizeAry, 8 ∣ x := by decide
    exact this sz h
  · omega

/-- the whole key file: the reader gives back the record file -/
theorem parseRecFile_key (sig2 : List Nat) (hs : sig2.length = 8) (f : RecFile KeyRec)
    (hwf : RecFile.WF keyCfg f) (hh : ∀ h ∈ f.heads, h < 2^64) (hsl : ∀ p ∈ f.slots, slotOKKey p.2) :
    parseRecFile keyCfg sig2 parseKeyUsed (renderKeyFile sig2 f) = some f := by
  have h8 : ∀ p ∈ f.slots, 8 ∣ p.2.size := fun p hp =>
    legal8_key _ (hwf.sizes p.1 p.2 (hwf.tiled.aget_of_mem hp))
  refine parseRecFile_generic keyCfg keyCfg_ok rfl (by decide) (by decide) sig2 hs renderKeySlot parseKeyUsed
    f hwf hh ?_ ?_ ?_
  · intro p hp
    have hok := hsl p hp
    have hd := h8 p hp
    obtain ⟨o, s⟩ := p
    cases s with
    | used sz r =>
      obtain ⟨h1, _, _, _, _, _, hfit⟩ := hok
      exact ⟨padTo_length _ _ hfit, hd, h1, _, by
        simp only [renderKeySlot, padTo, keyContent, Slot.size, List.append_assoc]; rfl⟩
    | free sz nx =>
      obtain ⟨h1, _, hfit⟩ := hok
      exact ⟨padTo_length _ _ hfit, hd, h1, _, by
        simp only [renderKeySlot, padTo, freeContent, Slot.size, List.append_assoc]; rfl⟩
  · intro p hp sz r he
    have hok := hsl p hp
    have hd := h8 p hp
    rw [he] at hok hd ⊢
    obtain ⟨h1, h2, h3, h4, h5, h6, hfit⟩ := hok
    exact parseKeyUsed_render sz r h1 hd h2 h3 h4 h5 h6 hfit
  · intro p hp sz nx he
    have hok := hsl p hp
    have hd := h8 p hp
    rw [he] at hok hd ⊢
    obtain ⟨h1, h2, hfit⟩ := hok
    exact parseFree_render sz nx h1 hd h2 hfit

/-- the whole value file -/
theorem parseRecFile_val (sig2 : List Nat) (hs : sig2.length = 8) (f : RecFile (List Nat))
    (hwf : RecFile.WF valCfg f) (hh : ∀ h ∈ f.heads, h < 2^64) (hsl : ∀ p ∈ f.slots, slotOKVal p.2) :
    parseRecFile valCfg sig2 parseValUsed (renderValFile sig2 f) = some f := by
  have h8 : ∀ p ∈ f.slots, 8 ∣ p.2.size := fun p hp =>
    legal8_val _ (hwf.sizes p.1 p.2 (hwf.tiled.aget_of_mem hp))
  refine parseRecFile_generic valCfg valCfg_ok rfl (by decide) (by decide) sig2 hs renderValSlot parseValUsed
    f hwf hh ?_ ?_ ?_
  · intro p hp
    have hok := hsl p hp
    have hd := h8 p hp
    obtain ⟨o, s⟩ := p
    cases s with
    | used sz v =>
      obtain ⟨h1, _, hfit⟩ := hok
      exact ⟨padTo_length _ _ hfit, hd, h1, _, by
        simp only [renderValSlot, padTo, valContent, Slot.size, List.append_assoc]; rfl⟩
    | free sz nx =>
      obtain ⟨h1, _, hfit⟩ := hok
      exact ⟨padTo_length _ _ hfit, hd, h1, _, by
        simp only [renderValSlot, padTo, freeContent, Slot.size, List.append_assoc]; rfl⟩
  · intro p hp sz v he
    have hok := hsl p hp
    have hd := h8 p hp
    rw [he] at hok hd ⊢
    obtain ⟨h1, h2, hfit⟩ := hok
    exact parseValUsed_render sz v h1 hd h2 hfit
  · intro p hp sz nx he
    have hok := hsl p hp
    have hd := h8 p hp
    rw [he] at hok hd ⊢
    obtain ⟨h1, h2, hfit⟩ := hok
    exact parseFree_render sz nx h1 hd h2 hfit

end Abyss
