import Abyss.Lemmas.EngineHtx
import Abyss.Lemmas.EngineScanAux3
import Abyss.Lemmas.EngineScanAux4
import Abyss.Scan
/-!
# The table scan generated from `htx.rs` (`next_key_piece_offset`) refines the model's scan (C04)
-/
namespace Abyss
open Store FileM

/-- the three-loop scan (8 bitmap bytes at a time, then single bitmap bytes, then bucket entries),
run on the rendered table file, returns what the model's `nextKeyPieceOffset` returns and leaves the
bytes alone — for every table size and every start index below it, provided the table file is at
least as long as a freshly created one (`hlen`: the bitmap has its `n / 8` bytes; true of every
reachable state: `reach_htxLen`). Without `hlen` the byte equality is false: in a 9-bucket table
file cut to 200 bytes the seek to bitmap byte 1 lands beyond the end and pads the file. -/
theorem htxNext_bytes {kt : KeyType} {s : Store} (g : Store.Regular kt s)
    (hlen : Gen.htxInitLen s.n ≤ s.htxEnd) (idx : Nat) (hidx : idx < s.n) (pos : Nat) :
    ∃ pos', Gen.htxNextKeyPieceOffset s.n idx ⟨(render kt s).htx, pos⟩ =
      some (nextKeyPieceOffset s.bitOf s.headOf s.n idx, ⟨(render kt s).htx, pos'⟩) := by
  have R := renderable_of_sized g.inv g.sized g.kend g.vend g.n_lt
  have h128 : Gen.htxHeaderSz = 128 := rfl
  have hl : Gen.htxInitLen s.n = 128 + s.n * 8 + s.n / 8 := rfl
  have B : BmFile (renderHtxFile kt.sig s) s.n (s.htxEnd - (Gen.htxHeaderSz + s.n * 8)) s.headOf s.bitOf := by
    rw [renderHtx_eq kt.sig s R.sig_len]
    refine bmFile_htxImg _ _ _ _ _ _ R.sig_len R.heads_lt ?_
    intro k hk
    cases hbit : s.bitOf k with
    | false => rfl
    | true =>
      have := R.bits_in k hbit
      omega
  exact B.next (by omega) idx pos hidx

/-- every state reached from a fresh map keeps the table file at least as long as at creation
(`write_key_piece_offset` only ever lengthens it; the number of buckets never changes) -/
theorem reach_htxLen (kt : KeyType) (n : Nat) (ops : List Op) (s' : Store) (outs : List Out)
    (hr : (Store.init n).run kt ops = some (s', outs)) : s'.n = n ∧ Gen.htxInitLen n ≤ s'.htxEnd :=
  run_hlen ops (HLen.init n) hr

end Abyss
