import Abyss.Inv
/-!
# The ideal map: lookup laws and congruence of `Spec.Equiv` (helper lemmas)
-/
namespace Abyss
namespace Spec

theorem get_nil (k : List Nat) : get [] k = none := rfl

theorem get_cons (p : List Nat × List Nat) (m : Map) (k : List Nat) :
    get (p :: m) k = if p.1 = k then some p.2 else get m k := by
  unfold get
  by_cases h : p.1 = k <;> simp [h]

theorem del_nil (k : List Nat) : del [] k = [] := rfl

theorem del_cons (p : List Nat × List Nat) (m : Map) (k : List Nat) :
    del (p :: m) k = if p.1 = k then del m k else p :: del m k := by
  unfold del
  by_cases h : p.1 = k <;> simp [h]

theorem get_del_self (m : Map) (k : List Nat) : get (del m k) k = none := by
  induction m with
  | nil => rfl
  | cons p m ih =>
    rw [del_cons]
    by_cases h : p.1 = k
    · simp [h, ih]
    · simp [h, get_cons, ih]

theorem get_del_ne (m : Map) (k k' : List Nat) (h : k' ≠ k) : get (del m k) k' = get m k' := by
  induction m with
  | nil => rfl
  | cons p m ih =>
    rw [del_cons]
    by_cases hp : p.1 = k
    · have : k ≠ k' := fun e => h e.symm
      simp [hp, get_cons, ih, this]
    · simp [hp, get_cons, ih]

theorem get_put_self (m : Map) (k v : List Nat) : get (put m k v) k = some v := by
  simp [put, get_cons]

theorem get_put_ne (m : Map) (k k' v : List Nat) (h : k' ≠ k) : get (put m k v) k' = get m k' := by
  have : k ≠ k' := fun e => h e.symm
  simp [put, get_cons, this, get_del_ne m k k' h]

theorem nodup_empty : NodupKeys empty := by
  simp [NodupKeys, empty]

theorem mem_keys_del {m : Map} {k x : List Nat} :
    x ∈ (del m k).map Prod.fst ↔ x ∈ m.map Prod.fst ∧ x ≠ k := by
  simp only [del, List.mem_map, List.mem_filter]
  constructor
  · rintro ⟨p, ⟨hp, hk⟩, rfl⟩
    exact ⟨⟨p, hp, rfl⟩, by simpa using hk⟩
  · rintro ⟨⟨p, hp, rfl⟩, hk⟩
    exact ⟨p, ⟨hp, by simpa using hk⟩, rfl⟩

theorem nodup_del (m : Map) (k : List Nat) (h : NodupKeys m) : NodupKeys (del m k) := by
  unfold NodupKeys at *
  exact List.Nodup.sublist (List.Sublist.map _ (List.filter_sublist)) h

theorem nodup_put (m : Map) (k v : List Nat) (h : NodupKeys m) : NodupKeys (put m k v) := by
  have h2 := nodup_del m k h
  unfold NodupKeys at *
  simp only [put, List.map_cons, List.nodup_cons]
  refine ⟨?_, h2⟩
  intro hm
  exact (mem_keys_del.1 hm).2 rfl

theorem get_eq_none_iff {m : Map} {k : List Nat} : get m k = none ↔ k ∉ m.map Prod.fst := by
  induction m with
  | nil => simp [get_nil]
  | cons p m ih =>
    rw [get_cons]
    by_cases h : p.1 = k
    · simp [h]
    · have h' : ¬ k = p.1 := fun e => h e.symm
      simp [h, h', ih]

/-- under duplicate-free keys, membership of a pair is the same as looking it up -/
theorem mem_iff_get {m : Map} (h : NodupKeys m) (k v : List Nat) :
    (k, v) ∈ m ↔ get m k = some v := by
  induction m with
  | nil => simp [get_nil]
  | cons p m ih =>
    have hn : p.1 ∉ m.map Prod.fst ∧ NodupKeys m := by
      simpa [NodupKeys, List.nodup_cons] using h
    rw [get_cons, List.mem_cons, ih hn.2]
    by_cases hp : p.1 = k
    · have hg : get m k = none := get_eq_none_iff.2 (hp ▸ hn.1)
      simp only [hp, if_true, hg]
      constructor
      · rintro (e | e)
        · rw [← e]
        · cases e
      · intro e
        left
        cases p
        simp at hp e
        simp [hp, e]
    · simp only [hp, if_false]
      constructor
      · rintro (e | e)
        · exact absurd (by rw [← e]) hp
        · exact e
      · exact Or.inr

theorem nodup_of_nodupKeys {m : Map} (h : NodupKeys m) : m.Nodup := by
  unfold NodupKeys List.Nodup at *
  exact List.Pairwise.of_map Prod.fst (fun a b hab e => hab (by rw [e])) h

theorem Equiv.refl (m : Map) (h : NodupKeys m) : Equiv m m := ⟨h, h, fun _ => rfl⟩
theorem Equiv.symm {m m' : Map} (h : Equiv m m') : Equiv m' m :=
  ⟨h.2.1, h.1, fun k => (h.2.2 k).symm⟩
theorem Equiv.trans {a b c : Map} (h : Equiv a b) (h' : Equiv b c) : Equiv a c :=
  ⟨h.1, h'.2.1, fun k => (h.2.2 k).trans (h'.2.2 k)⟩
/-- equivalent maps have the same number of entries -/
theorem Equiv.len {m m' : Map} (h : Equiv m m') : len m = len m' := by
  unfold Spec.len
  apply List.Perm.length_eq
  rw [List.perm_ext_iff_of_nodup (nodup_of_nodupKeys h.1) (nodup_of_nodupKeys h.2.1)]
  rintro ⟨k, v⟩
  rw [mem_iff_get h.1, mem_iff_get h.2.1, h.2.2 k]
theorem Equiv.put {m m' : Map} (h : Equiv m m') (k v : List Nat) : Equiv (put m k v) (put m' k v) := by
  refine ⟨nodup_put _ _ _ h.1, nodup_put _ _ _ h.2.1, fun k' => ?_⟩
  by_cases hk : k' = k
  · subst hk; rw [get_put_self, get_put_self]
  · rw [get_put_ne _ _ _ _ hk, get_put_ne _ _ _ _ hk, h.2.2]
theorem Equiv.del {m m' : Map} (h : Equiv m m') (k : List Nat) : Equiv (del m k) (del m' k) := by
  refine ⟨nodup_del _ _ h.1, nodup_del _ _ h.2.1, fun k' => ?_⟩
  by_cases hk : k' = k
  · subst hk; rw [get_del_self, get_del_self]
  · rw [get_del_ne _ _ _ hk, get_del_ne _ _ _ hk, h.2.2]
/-- one call gives the same answer on equivalent maps and leads to equivalent maps -/
theorem Equiv.step {m m' : Map} (h : Equiv m m') (op : Op) :
    (step m op).2 = (step m' op).2 ∧ Equiv (step m op).1 (step m' op).1 := by
  cases op with
  | put k v => exact ⟨rfl, h.put k v⟩
  | get k => exact ⟨by simp [Spec.step, h.2.2 k], h⟩
  | del k => exact ⟨by simp [Spec.step, h.2.2 k], h.del k⟩
  | includes k => exact ⟨by simp [Spec.step, Spec.includes, h.2.2 k], h⟩
  | len => exact ⟨by simp [Spec.step, h.len], h⟩
  | isEmpty => exact ⟨by simp [Spec.step, Spec.isEmpty, h.len], h⟩
/-- a whole history gives the same answers on equivalent maps -/
theorem Equiv.run {m m' : Map} (h : Equiv m m') (ops : List Op) :
    (run m ops).2 = (run m' ops).2 ∧ Equiv (run m ops).1 (run m' ops).1 := by
  induction ops generalizing m m' with
  | nil => exact ⟨rfl, h⟩
  | cons op ops ih =>
    have hs := h.step op
    have hr := ih hs.2
    simp only [Spec.run]
    exact ⟨by rw [hs.1, hr.1], hr.2⟩
/-- read-only calls do not change the ideal map -/
theorem step_readonly (m : Map) (op : Op) (h : op.isUpdate = false) : (step m op).1 = m := by
  cases op <;> simp_all [Spec.step, Op.isUpdate]

end Spec
end Abyss
