import Abyss.Inv
/-!
# The ideal map: lookup laws and congruence of `Spec.Equiv` (helper lemmas)
-/
namespace Abyss
namespace Spec

theorem get_put_self (m : Map) (k v : List Nat) : get (put m k v) k = some v := by sorry
theorem get_put_ne (m : Map) (k k' v : List Nat) (h : k' ≠ k) : get (put m k v) k' = get m k' := by sorry
theorem get_del_self (m : Map) (k : List Nat) : get (del m k) k = none := by sorry
theorem get_del_ne (m : Map) (k k' : List Nat) (h : k' ≠ k) : get (del m k) k' = get m k' := by sorry
theorem nodup_empty : NodupKeys empty := by sorry
theorem nodup_put (m : Map) (k v : List Nat) (h : NodupKeys m) : NodupKeys (put m k v) := by sorry
theorem nodup_del (m : Map) (k : List Nat) (h : NodupKeys m) : NodupKeys (del m k) := by sorry

theorem Equiv.refl (m : Map) (h : NodupKeys m) : Equiv m m := by sorry
theorem Equiv.symm {m m' : Map} (h : Equiv m m') : Equiv m' m := by sorry
theorem Equiv.trans {a b c : Map} (h : Equiv a b) (h' : Equiv b c) : Equiv a c := by sorry
/-- equivalent maps have the same number of entries -/
theorem Equiv.len {m m' : Map} (h : Equiv m m') : len m = len m' := by sorry
theorem Equiv.put {m m' : Map} (h : Equiv m m') (k v : List Nat) : Equiv (put m k v) (put m' k v) := by sorry
theorem Equiv.del {m m' : Map} (h : Equiv m m') (k : List Nat) : Equiv (del m k) (del m' k) := by sorry
/-- one call gives the same answer on equivalent maps and leads to equivalent maps -/
theorem Equiv.step {m m' : Map} (h : Equiv m m') (op : Op) :
    (step m op).2 = (step m' op).2 ∧ Equiv (step m op).1 (step m' op).1 := by sorry
/-- a whole history gives the same answers on equivalent maps -/
theorem Equiv.run {m m' : Map} (h : Equiv m m') (ops : List Op) :
    (run m ops).2 = (run m' ops).2 ∧ Equiv (run m ops).1 (run m' ops).1 := by sorry
/-- read-only calls do not change the ideal map -/
theorem step_readonly (m : Map) (op : Op) (h : op.isUpdate = false) : (step m op).1 = m := by sorry

end Spec
end Abyss
