import Abyss.Lemmas.SpecL
/-!
# Batches on the ideal map: folds of `del` / `put`, and their invariance under permutation
-/
namespace Abyss
namespace Spec

/-! ## folds of `del` -/

theorem nodup_foldl_del (ks : List (List Nat)) (m : Map) (h : NodupKeys m) :
    NodupKeys (ks.foldl del m) := by
  induction ks generalizing m with
  | nil => exact h
  | cons k ks ih => exact ih _ (nodup_del m k h)

theorem get_foldl_del (ks : List (List Nat)) (m : Map) (k : List Nat) :
    get (ks.foldl del m) k = if k ∈ ks then none else get m k := by
  induction ks generalizing m with
  | nil => simp
  | cons a ks ih =>
    rw [List.foldl_cons, ih]
    by_cases hk : k ∈ ks
    · simp [hk]
    · by_cases ha : k = a
      · subst ha; simp [hk, get_del_self]
      · simp [hk, ha, get_del_ne m a k ha]

/-- congruence of a batch of deletes -/
theorem Equiv.foldl_del {m m' : Map} (h : Equiv m m') (ks : List (List Nat)) :
    Equiv (ks.foldl Spec.del m) (ks.foldl Spec.del m') := by
  refine ⟨nodup_foldl_del _ _ h.1, nodup_foldl_del _ _ h.2.1, fun k => ?_⟩
  rw [get_foldl_del, get_foldl_del, h.2.2]

/-- two deletes commute -/
theorem del_comm_equiv (m : Map) (h : NodupKeys m) (a b : List Nat) :
    Equiv (del (del m a) b) (del (del m b) a) := by
  refine ⟨nodup_del _ _ (nodup_del _ _ h), nodup_del _ _ (nodup_del _ _ h), fun k => ?_⟩
  have h1 := get_foldl_del [a, b] m k
  have h2 := get_foldl_del [b, a] m k
  simp only [List.foldl_cons, List.foldl_nil] at h1 h2
  rw [h1, h2]
  simp [or_comm]

/-- a batch of deletes does not depend on the order -/
theorem foldl_del_perm (m : Map) (h : NodupKeys m) {ks ks' : List (List Nat)} (hp : ks'.Perm ks) :
    Equiv (ks'.foldl del m) (ks.foldl del m) := by
  refine ⟨nodup_foldl_del _ _ h, nodup_foldl_del _ _ h, fun k => ?_⟩
  rw [get_foldl_del, get_foldl_del]
  simp [hp.mem_iff]

/-! ## folds of `put` -/

theorem nodup_foldl_put (kvs : List (List Nat × List Nat)) (m : Map) (h : NodupKeys m) :
    NodupKeys (kvs.foldl (fun m p => put m p.1 p.2) m) := by
  induction kvs generalizing m with
  | nil => exact h
  | cons p kvs ih => exact ih _ (nodup_put m p.1 p.2 h)

theorem get_foldl_put_not_mem (kvs : List (List Nat × List Nat)) (m : Map) (k : List Nat)
    (hk : k ∉ kvs.map Prod.fst) :
    get (kvs.foldl (fun m p => put m p.1 p.2) m) k = get m k := by
  induction kvs generalizing m with
  | nil => rfl
  | cons p kvs ih =>
    simp only [List.map_cons, List.mem_cons, not_or] at hk
    rw [List.foldl_cons, ih _ hk.2, get_put_ne _ _ _ _ hk.1]

theorem get_foldl_put_mem (kvs : List (List Nat × List Nat)) (m : Map) (k v : List Nat)
    (hnd : (kvs.map Prod.fst).Nodup) (hk : (k, v) ∈ kvs) :
    get (kvs.foldl (fun m p => put m p.1 p.2) m) k = some v := by
  induction kvs generalizing m with
  | nil => cases hk
  | cons p kvs ih =>
    simp only [List.map_cons, List.nodup_cons] at hnd
    rw [List.foldl_cons]
    rcases List.mem_cons.1 hk with e | hm
    · subst e
      rw [get_foldl_put_not_mem _ _ _ hnd.1, get_put_self]
    · exact ih _ hnd.2 hm

/-- congruence of a batch of puts -/
theorem Equiv.foldl_put {m m' : Map} (h : Equiv m m') (kvs : List (List Nat × List Nat)) :
    Equiv (kvs.foldl (fun m p => Spec.put m p.1 p.2) m)
      (kvs.foldl (fun m p => Spec.put m p.1 p.2) m') := by
  induction kvs generalizing m m' with
  | nil => exact h
  | cons p kvs ih => exact ih (h.put p.1 p.2)

/-- two puts to different keys commute -/
theorem put_comm_equiv (m : Map) (h : NodupKeys m) (a va b vb : List Nat) (hab : a ≠ b) :
    Equiv (put (put m a va) b vb) (put (put m b vb) a va) := by
  refine ⟨nodup_put _ _ _ (nodup_put _ _ _ h), nodup_put _ _ _ (nodup_put _ _ _ h), fun k => ?_⟩
  by_cases hb : k = b
  · subst hb
    rw [get_put_self, get_put_ne _ _ _ _ (fun e => hab e.symm), get_put_self]
  · by_cases ha : k = a
    · subst ha
      rw [get_put_ne _ _ _ _ hb, get_put_self, get_put_self]
    · rw [get_put_ne _ _ _ _ hb, get_put_ne _ _ _ _ ha, get_put_ne _ _ _ _ ha,
        get_put_ne _ _ _ _ hb]

/-- a batch of puts to pairwise different keys does not depend on the order -/
theorem foldl_put_perm (m : Map) (h : NodupKeys m) {kvs kvs' : List (List Nat × List Nat)}
    (hnd : (kvs.map Prod.fst).Nodup) (hp : kvs'.Perm kvs) :
    Equiv (kvs'.foldl (fun m p => put m p.1 p.2) m) (kvs.foldl (fun m p => put m p.1 p.2) m) := by
  have hnd' : (kvs'.map Prod.fst).Nodup := ((hp.map Prod.fst).nodup_iff).2 hnd
  refine ⟨nodup_foldl_put _ _ h, nodup_foldl_put _ _ h, fun k => ?_⟩
  by_cases hk : k ∈ kvs.map Prod.fst
  · obtain ⟨⟨k', v⟩, hm, rfl⟩ := List.mem_map.1 hk
    rw [get_foldl_put_mem _ _ _ v hnd' (hp.mem_iff.2 hm), get_foldl_put_mem _ _ _ v hnd hm]
  · have hk' : k ∉ kvs'.map Prod.fst := fun e => hk ((hp.map Prod.fst).mem_iff.1 e)
    rw [get_foldl_put_not_mem _ _ _ hk', get_foldl_put_not_mem _ _ _ hk]

end Spec

/-! ## lists and indices -/

theorem map_eq_range_getD {β : Type} (ks : List (List Nat)) (f : List Nat → β) :
    ks.map f = (List.range ks.length).map (fun i => f (ks.getD i [])) := by
  apply List.ext_getElem
  · simp
  · intro i h1 h2
    simp at h1
    simp [h1]

theorem range_map_getD (ks : List (List Nat)) :
    (List.range ks.length).map (fun i => ks.getD i []) = ks := by
  have := map_eq_range_getD ks id
  simpa using this.symm

theorem getD_mem_of_lt (ks : List (List Nat)) (i : Nat) (h : i < ks.length) : ks.getD i [] ∈ ks := by
  simp [h]

end Abyss
