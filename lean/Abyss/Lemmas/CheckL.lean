import Abyss.Check
import Abyss.Lemmas.ChainL
/-!
# Soundness of the executable checkers `checkWF`, `checkInv` (helper lemmas)
-/
namespace Abyss
variable {α : Type}

theorem tiledB_iff (l : List (Nat × Slot α)) (a b : Nat) : tiledB l a b = true ↔ Tiled l a b := by
  induction l generalizing a with
  | nil => simp [tiledB, Tiled]
  | cons p t ih => obtain ⟨o, s⟩ := p; simp [tiledB, Tiled, ih, and_assoc]

theorem legalSzB_iff (c : FileCfg) (sz : Nat) : legalSzB c sz = true ↔ LegalSz c sz := by
  simp [legalSzB, LegalSz, Nat.dvd_iff_mod_eq_zero]

theorem nodupB_iff (l : List Nat) : nodupB l = true ↔ l.Nodup := by
  induction l with
  | nil => simp [nodupB]
  | cons x xs ih => simp [nodupB, ih]

theorem getD_lists (g : Nat → Option (List Nat)) (n i : Nat) :
    (List.map (fun x => x.getD []) (List.map g (List.range n))).getD i [] =
      if i < n then (g i).getD [] else [] := by
  rw [List.map_map, List.getD_eq_getElem?_getD, List.getElem?_map]
  by_cases hi : i < n
  · rw [List.getElem?_range hi]; simp [hi]
  · rw [List.getElem?_eq_none (by simpa using hi)]; simp [hi]

theorem checkWF_sound (c : FileCfg) (f : RecFile α) (h : f.checkWF c = none) : RecFile.WF c f := by
  unfold RecFile.checkWF at h
  split at h
  · cases h
  split at h
  · cases h
  split at h
  · cases h
  dsimp only at h
  split at h
  · cases h
  split at h
  · cases h
  split at h
  · cases h
  split at h
  · cases h
  rename_i h1 h2 h3 h4 h5 h6 h7
  clear h
  simp only [Bool.not_eq_true, Bool.not_eq_false', bne_eq_false_iff_eq, tiledB_iff] at h1 h2 h3
  rw [List.all_eq_true] at h3
  simp only [Bool.not_eq_true, Bool.not_eq_false', List.any_eq_false, List.all_eq_true, List.mem_map,
    List.mem_range, getD_lists] at h4 h5 h6 h7
  have hl : ∀ i, i < 16 → ∃ l, f.freeList i = some l := by
    intro i hi
    have := h4 _ ⟨i, hi, rfl⟩
    cases hf : f.freeList i with
    | none => simp [hf] at this
    | some l => exact ⟨l, rfl⟩
  refine ⟨h1, h2, ?_, ?_, ?_⟩
  · intro o s hg
    exact (legalSzB_iff c _).mp (h3 _ (Store.mem_slots_of_get f o s hg))
  · intro i hi
    obtain ⟨l, hfl⟩ := hl i hi
    refine ⟨l, hfl, ?_, ?_⟩
    · exact (nodupB_iff l).mp (h5 l ⟨_, ⟨i, hi, rfl⟩, by simp [hfl]⟩)
    · intro o ho
      have := h6 i hi o (by simpa [hi, hfl] using ho)
      split at this
      · rename_i sz nx hg
        exact ⟨sz, nx, hg, by simpa using this⟩
      · cases this
  · intro o sz nx hg
    have := h7 _ (Store.mem_slots_of_get f o _ hg)
    simp only at this
    by_cases hi : RecFile.headIdx c sz < 16
    · obtain ⟨l, hfl⟩ := hl _ hi
      refine ⟨l, hfl, ?_⟩
      simpa [hi, hfl] using this
    · simp [hi] at this

theorem vu64_lt_of_check (key : List Nat) (x : Nat) (hd : Vu64.decode key = some (x, []))
    (he : Vu64.encode x = key) : x < 2^64 := by
  by_contra hx
  have hL : Vu64.encodedLen x = 9 := by
    unfold Vu64.encodedLen; repeat' split
    all_goals omega
  have h1 : Vu64.encode x = 255 :: (Vu64.leBytes x 8 ++ []) := by simp [Vu64.encode, hL]
  rw [← he, h1, Vu64.decode_cons_leBytes _ _ _ _ (by decide)] at hd
  simp at hd
  omega

theorem length_eraseDups_le' {β : Type} [BEq β] : ∀ (n : Nat) (l : List β), l.length ≤ n →
    l.eraseDups.length ≤ l.length
  | _, [], _ => by simp
  | 0, a :: as, h => by simp at h
  | n+1, a :: as, h => by
    rw [List.eraseDups_cons]
    have h1 := List.length_filter_le (fun b => !b == a) as
    have := length_eraseDups_le' n (as.filter (fun b => !b == a)) (by simp at h; omega)
    simp only [List.length_cons]; omega

theorem nodup_of_length_eraseDups' {β : Type} [BEq β] [LawfulBEq β] : ∀ (n : Nat) (l : List β),
    l.length ≤ n → l.eraseDups.length = l.length → l.Nodup
  | _, [], _, _ => List.nodup_nil
  | 0, a :: as, h, _ => by simp at h
  | n+1, a :: as, h, he => by
    rw [List.eraseDups_cons] at he
    have h1 := List.length_filter_le (fun b => !b == a) as
    have h2 := length_eraseDups_le' _ (as.filter (fun b => !b == a)) (Nat.le_refl _)
    simp only [List.length_cons] at he h
    have h3 : (as.filter (fun b => !b == a)).length = as.length := by omega
    have h4 := List.length_filter_eq_length_iff.mp h3
    have h5 : as.filter (fun b => !b == a) = as := List.filter_eq_self.mpr h4
    rw [h5] at he
    refine List.nodup_cons.mpr ⟨?_, nodup_of_length_eraseDups' n as (by omega) (by omega)⟩
    intro hm
    have := h4 a hm
    simp at this

theorem nodup_of_length_eraseDups {β : Type} [BEq β] [LawfulBEq β] (l : List β)
    (h : l.eraseDups.length = l.length) : l.Nodup :=
  nodup_of_length_eraseDups' _ l (Nat.le_refl _) h

theorem aget_none_of_not_key {β : Type} (l : List (Nat × β)) (b : Nat) (h : ¬ ∃ a, a ∈ l ∧ a.1 = b) :
    aget l b = none := by
  cases hg : aget l b with
  | none => rfl
  | some v => exact absurd ⟨(b, v), Store.mem_of_aget l b v hg, rfl⟩ h

theorem ite_some_eq_none {c : Bool} {e : String} {r : Option String}
    (h : (if c = true then some e else r) = none) : c = false ∧ r = none := by
  cases c <;> simp_all

namespace Store

theorem checkInv_sound (kt : KeyType) (s : Store) (h : s.checkInv kt = none) : Inv kt s := by
  unfold Store.checkInv at h
  split at h
  · cases h
  · cases h
  rename_i hk hv
  have kwf := checkWF_sound _ _ hk
  have vwf := checkWF_sound _ _ hv
  clear hk hv
  obtain ⟨c1, h1⟩ := ite_some_eq_none h
  obtain ⟨c2, h2⟩ := ite_some_eq_none h1
  obtain ⟨c3, h3⟩ := ite_some_eq_none h2
  obtain ⟨c4, h4⟩ := ite_some_eq_none h3
  obtain ⟨c5, h5⟩ := ite_some_eq_none h4
  obtain ⟨c6, h6⟩ := ite_some_eq_none h5
  obtain ⟨c7, h7⟩ := ite_some_eq_none h6
  obtain ⟨c8, h8⟩ := ite_some_eq_none h7
  obtain ⟨c9, h9⟩ := ite_some_eq_none h8
  obtain ⟨c10, h10⟩ := ite_some_eq_none h9
  obtain ⟨c11, h11⟩ := ite_some_eq_none h10
  obtain ⟨c12, h12⟩ := ite_some_eq_none h11
  obtain ⟨c13, h13⟩ := ite_some_eq_none h12
  clear h h1 h2 h3 h4 h5 h6 h7 h8 h9 h10 h11 h12 h13
  generalize hU : List.filterMap _ s.kf.slots = usedK at c7 c8 c9 c10 c11 c12 c13
  generalize hV : List.filterMap _ s.vf.slots = usedV at c12
  simp only [Bool.not_eq_false', bne_eq_false_iff_eq, beq_eq_false_iff_ne, List.all_eq_true, List.any_eq_false,
    List.map_map, List.all_map, List.any_map, List.mem_eraseDups, List.mem_append, List.mem_map,
    Function.comp_def, nodupB_iff, Bool.or_eq_true, decide_eq_true_eq, beq_iff_eq] at c1 c2 c3 c4 c5 c6 c9 c10 c11 c12 c13
  have hUmem : ∀ o r, (o, r) ∈ usedK ↔ ∃ sz, s.kf.used o = some (sz, r) := by
    intro o r
    rw [← hU, List.mem_filterMap]
    constructor
    · rintro ⟨⟨o', sl⟩, hm, he⟩
      cases sl with
      | free a b => simp at he
      | used sz r' =>
        simp only [Option.some.injEq, Prod.mk.injEq] at he
        obtain ⟨rfl, rfl⟩ := he
        exact ⟨sz, used_of_get _ _ _ _ (get_of_mem_slots kwf _ _ hm)⟩
    · rintro ⟨sz, hu⟩
      exact ⟨(o, .used sz r), mem_slots_of_get _ _ _ (get_of_used _ _ _ _ hu), rfl⟩
  have hVmem : ∀ vo vs v, s.vf.used vo = some (vs, v) → vo ∈ usedV := by
    intro vo vs v hu
    rw [← hV, List.mem_filterMap]
    exact ⟨(vo, .used vs v), mem_slots_of_get _ _ _ (get_of_used _ _ _ _ hu), rfl⟩
  have hpos : ∀ o sz r, s.kf.used o = some (sz, r) → o ≠ 0 := by
    intro o sz r hu
    have := (RecFile.WF.get_bounds keyCfg_ok kwf (get_of_used _ _ _ _ hu)).1
    have := keyCfg_ok.hdr_pos
    omega
  have hchain : ∀ b, (∃ a, a ∈ s.heads ∧ a.1 = b) → ∃ l, s.chain b = some l ∧ (l.map (·.1)).Nodup ∧
      ∀ q ∈ l, bucketOf q.2.key s.n = b := by
    intro b hb
    have h4 := c4 b hb
    cases hc : s.chain b with
    | none => simp [hc] at h4
    | some l =>
      refine ⟨l, rfl, ?_, ?_⟩
      · simpa [hc] using c5 b hb
      · simpa [hc] using c6 b hb
  have hmemch : ∀ b l, s.chain b = some l → ∀ q ∈ l, ∃ sz, s.kf.used q.1 = some (sz, q.2) := by
    intro b l hl
    exact seg_used _ _ _ _ (chainFrom_seg _ _ _ _ hl)
  refine
    { npos := Nat.pos_of_ne_zero c1, kwf := kwf, vwf := vwf, heads_lt := ?_, bits_ok := ?_, chains := ?_,
      on_chain := ?_, keys_ok := ?_, keys_inj := ?_, val_used := ?_, val_inj := ?_, val_owned := ?_,
      count_ok := ?_ }
  · -- heads_lt
    intro b hb
    unfold Store.headOf
    cases hg : aget s.heads b with
    | none => rfl
    | some v =>
      rcases c2 _ (mem_of_aget _ _ _ hg) with h | h
      · simp only at h; omega
      · simpa using h
  · -- bits_ok
    intro b
    by_cases hk : (∃ a, a ∈ s.heads ∧ a.fst = b) ∨ ∃ a, a ∈ s.bits ∧ a.fst = b
    · exact c3 b hk
    · have h1 := aget_none_of_not_key s.heads b (fun h => hk (Or.inl h))
      have h2 := aget_none_of_not_key s.bits b (fun h => hk (Or.inr h))
      simp [Store.headOf, Store.bitOf, h1, h2]
  · -- chains
    intro b hb
    by_cases hk : ∃ a, a ∈ s.heads ∧ a.fst = b
    · obtain ⟨l, hl, hn, hq⟩ := hchain b hk
      refine ⟨l, hl, hn, fun q hm => ⟨hq q hm, ?_⟩⟩
      obtain ⟨sz, hu⟩ := hmemch b l hl q hm
      exact hpos _ _ _ hu
    · have h1 := aget_none_of_not_key s.heads b hk
      refine ⟨[], ?_, by simp, by simp⟩
      simp [Store.chain, Store.headOf, h1, chainFrom]
  · -- on_chain
    intro o sz r hu _
    have hm := (hUmem o r).mpr ⟨sz, hu⟩
    simp only [Bool.not_eq_false', List.all_eq_true] at c7
    have h7 := c7 _ hm
    simp only at h7
    cases hf : List.find? (fun x => x.fst == bucketOf r.key s.n)
        (List.map (fun p => (p.fst, p.snd.getD []))
          (List.map (fun b => (b, s.chain b)) (List.map (fun x => x.fst) s.heads).eraseDups)) with
    | none => rw [hf] at h7; simp at h7
    | some bl =>
      obtain ⟨b', l'⟩ := bl
      have hp := List.find?_some hf
      have hin := List.mem_of_find?_eq_some hf
      simp only [beq_iff_eq] at hp
      simp only [List.map_map, List.mem_map, List.mem_eraseDups, Function.comp_def, Prod.mk.injEq] at hin
      obtain ⟨b, ⟨a, ha, hab⟩, hb1, hb2⟩ := hin
      obtain ⟨l, hl, _, _⟩ := hchain b ⟨a, ha, hab⟩
      rw [hl] at hb2
      simp only [Option.getD_some] at hb2
      subst hb1 hb2 hp
      rw [hf] at h7
      simp only [Option.map_some, Option.getD_some, List.any_eq_true, beq_iff_eq] at h7
      obtain ⟨q, hq, hqo⟩ := h7
      obtain ⟨sz', hu'⟩ := hmemch _ l hl q hq
      rw [hqo, hu] at hu'
      simp only [Option.some.injEq, Prod.mk.injEq] at hu'
      refine ⟨l, hl, ?_⟩
      obtain ⟨q1, q2⟩ := q
      simp only at hqo hu'
      rw [← hqo, hu'.2]
      exact hq
  · -- keys_ok
    intro o sz r hu hkt
    subst hkt
    have hm := (hUmem o r).mpr ⟨sz, hu⟩
    simp only [Bool.not_eq_false', List.all_eq_true] at c8
    have h8 := c8 _ hm
    simp only at h8
    split at h8
    · rename_i x hd
      simp only [beq_iff_eq] at h8
      exact ⟨x, vu64_lt_of_check _ _ hd h8, h8.symm⟩
    · cases h8
  · -- keys_inj
    intro o o' sz sz' r r' hu hu' hk
    have hm := (hUmem o r).mpr ⟨sz, hu⟩
    have hm' := (hUmem o' r').mpr ⟨sz', hu'⟩
    have := List.inj_on_of_nodup_map (nodup_of_length_eraseDups _ c9) hm hm' hk
    exact (Prod.mk.inj this).1
  · -- val_used
    intro o sz r hu
    have hm := (hUmem o r).mpr ⟨sz, hu⟩
    have := c10 _ hm
    cases hv : s.vf.used r.valOff with
    | none => simp [hv] at this
    | some p => exact ⟨p.1, p.2, rfl⟩
  · -- val_inj
    intro o o' sz sz' r r' hu hu' hk
    have hm := (hUmem o r).mpr ⟨sz, hu⟩
    have hm' := (hUmem o' r').mpr ⟨sz', hu'⟩
    have := List.inj_on_of_nodup_map c11 hm hm' hk
    exact (Prod.mk.inj this).1
  · -- val_owned
    intro vo vs v hu
    have := c12 vo (hVmem vo vs v hu)
    simp only [List.any_eq_true, beq_iff_eq] at this
    obtain ⟨⟨o, r⟩, hm, hr⟩ := this
    obtain ⟨sz, hu'⟩ := (hUmem o r).mp hm
    exact ⟨o, sz, r, hu', hr⟩
  · -- count_ok
    rw [c13, ← hU]
    apply length_filterMap_eq_filter
    rintro ⟨o, sl⟩ _
    cases sl <;> rfl

end Store
end Abyss
