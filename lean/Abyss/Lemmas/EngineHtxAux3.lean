import Abyss.Lemmas.EngineHtxAux2
/-!
# Helpers for `EngineHtx.lean`, part 3: the generated hash-table file operations on `htxImg`
-/
namespace Abyss
open Store FileM

theorem htxImg_tbl_split (sig : List Nat) (n count : Nat) (h h' : Nat → Nat) (m : Nat) (f : Nat → Bool)
    (hsig : sig.length = 8) (b : Nat) (hb : b < n) (hh : ∀ i, i ≠ b → h' i = h i) :
    ∃ A B, A.length = 128 + 8 * b ∧ htxImg sig n count h m f = A ++ le64 (h b) ++ B ∧
      htxImg sig n count h' m f = A ++ le64 (h' b) ++ B := by
  obtain ⟨pre, post, h1, h2, h3⟩ := htxTbl_split h h' n b hb hh
  refine ⟨(Gen.htxSig1 ++ sig ++ le64 n) ++ le64 count ++ zeros 96 ++ pre, post ++ htxBm m f, ?_, ?_, ?_⟩
  · simp only [List.length_append, htxPre_length sig n hsig, le64_length, zeros_length, h3]
  · unfold htxImg; rw [h1]; simp only [List.append_assoc]
  · unfold htxImg; rw [h2]; simp only [List.append_assoc]

theorem htxReadIdx_spec (sig : List Nat) (n count : Nat) (h : Nat → Nat) (m : Nat) (f : Nat → Bool)
    (hsig : sig.length = 8) (b pos : Nat) (hb : b < n) (hlt : h b < 2^64) :
    Gen.htxReadKeyPieceOffsetIdx b ⟨htxImg sig n count h m f, pos⟩ =
      some (h b, ⟨htxImg sig n count h m f, 128 + 8 * b + 8⟩) := by
  obtain ⟨A, B, hA, e, _⟩ := htxImg_tbl_split sig n count h h m f hsig b hb (fun _ _ => rfl)
  have hlen := htxImg_length sig n count h m f hsig
  unfold Gen.htxReadKeyPieceOffsetIdx
  have h128 : Gen.htxHeaderSz = 128 := rfl
  rw [h128, bind_some (seekFromStart_spec _ _ pos (by omega))]
  have hd : (htxImg sig n count h m f).drop (128 + 8 * b) = le64 (h b) ++ B := by
    rw [e, ← hA]; exact drop_app_mid _ _ _
  exact readU64Le_spec hd hlt

theorem htxReadItemCount_spec (sig : List Nat) (n count : Nat) (h : Nat → Nat) (m : Nat) (f : Nat → Bool)
    (hsig : sig.length = 8) (pos : Nat) (hc : count < 2^64) :
    Gen.htxReadItemCount ⟨htxImg sig n count h m f, pos⟩ =
      some (count, ⟨htxImg sig n count h m f, 32⟩) := by
  have hlen := htxImg_length sig n count h m f hsig
  unfold Gen.htxReadItemCount
  have h24 : Gen.htxItemCountOffset = 24 := rfl
  rw [h24, bind_some (seekFromStart_spec _ _ pos (by omega))]
  have hd : (htxImg sig n count h m f).drop 24 = le64 count ++ (zeros 96 ++ htxTbl n h ++ htxBm m f) := by
    unfold htxImg
    rw [← htxPre_length sig n hsig]; exact drop_app_mid _ _ _
  exact readU64Le_spec hd hc

theorem htxWriteItemCount_spec (sig : List Nat) (n count c : Nat) (h : Nat → Nat) (m : Nat) (f : Nat → Bool)
    (hsig : sig.length = 8) (pos : Nat) :
    Gen.htxWriteItemCount c ⟨htxImg sig n count h m f, pos⟩ =
      some ((), ⟨htxImg sig n c h m f, 32⟩) := by
  have hlen := htxImg_length sig n count h m f hsig
  unfold Gen.htxWriteItemCount
  have h24 : Gen.htxItemCountOffset = 24 := rfl
  rw [h24, bind_some (seekFromStart_spec _ _ pos (by omega)),
    writeU64Le_spec _ _ (by show 24 ≤ (htxImg sig n count h m f).length; omega)]
  have := wr_app' (le64 c) (Gen.htxSig1 ++ sig ++ le64 n) (le64 count) (zeros 96 ++ htxTbl n h ++ htxBm m f)
    (htxImg sig n count h m f) 24 rfl (htxPre_length sig n hsig).symm (by rw [le64_length, le64_length])
  rw [this, le64_length]
  rfl

theorem htxImg_bm_split (sig : List Nat) (n count : Nat) (h : Nat → Nat) (hsig : sig.length = 8) :
    ∃ A : List Nat, A.length = 128 + 8 * n ∧ ∀ m f, htxImg sig n count h m f = A ++ htxBm m f := by
  refine ⟨(Gen.htxSig1 ++ sig ++ le64 n) ++ le64 count ++ zeros 96 ++ htxTbl n h, ?_, ?_⟩
  · simp only [List.length_append, htxPre_length sig n hsig, le64_length, zeros_length, htxTbl_length]
  · intro m f; unfold htxImg; simp only [List.append_assoc]

/-- `write_key_piece_offset(bucket_size, idx, off)` on a table file whose bitmap may still be shorter than
the byte of `idx` -/
theorem htxWriteIdx_spec (sig : List Nat) (n count : Nat) (h : Nat → Nat) (m : Nat) (f : Nat → Bool)
    (hsig : sig.length = 8) (b off pos : Nat) (hb : b < n) (hf : ∀ k, 8 * m ≤ k → f k = false) :
    Gen.htxWriteKeyPieceOffsetIdx n b off ⟨htxImg sig n count h m f, pos⟩ =
      some ((), ⟨htxImg sig n count (fun i => if i = b then off else h i) (max m (b / 8 + 1))
        (fun i => if i = b then decide (off ≠ 0) else f i), 128 + 8 * b + 8⟩) := by
  obtain ⟨j, hj⟩ : ∃ j, j = b / 8 := ⟨_, rfl⟩
  obtain ⟨bit, hbit⟩ : ∃ bit, bit = b % 8 := ⟨_, rfl⟩
  have hb8 : 8 * j + bit = b := by omega
  have hbit8 : bit < 8 := by omega
  obtain ⟨f', hf'⟩ : ∃ f' : Nat → Bool, f' = fun i => if i = b then decide (off ≠ 0) else f i := ⟨_, rfl⟩
  obtain ⟨h', hh'⟩ : ∃ h' : Nat → Nat, h' = fun i => if i = b then off else h i := ⟨_, rfl⟩
  have hz : ∀ i, m ≤ i → bitmapByte f i = 0 := fun i hi =>
    bitmapByte_zero f i (fun k _ => hf _ (by omega))
  obtain ⟨A, hA, hAe⟩ := htxImg_bm_split sig n count h hsig
  obtain ⟨M, hM⟩ : ∃ M, M = m + (j - m) := ⟨_, rfl⟩
  have h128 : Gen.htxHeaderSz = 128 := rfl
  -- the seek may lengthen the bitmap by zero bytes
  have e1 : Gen.seekFromStart (128 + n * 8 + j) ⟨htxImg sig n count h m f, pos⟩ =
      some (128 + n * 8 + j, ⟨htxImg sig n count h M f, 128 + n * 8 + j⟩) := by
    rw [seekFromStart_ext, htxImg_length sig n count h m f hsig, hAe, hAe, List.append_assoc,
      htxBm_pad m _ f hz]
    have : m + (128 + n * 8 + j - (128 + 8 * n + m)) = M := by omega
    rw [this]
  have hlenM := htxImg_length sig n count h M f hsig
  -- the byte read
  have e2 : FileM.readU8 ⟨htxImg sig n count h M f, 128 + n * 8 + j⟩ =
      some (bitmapByte f j, ⟨htxImg sig n count h M f, 128 + n * 8 + j + 1⟩) := by
    rw [readU8_getD _ _ (by omega)]
    have : (htxImg sig n count h M f).getD (128 + n * 8 + j) 0 = bitmapByte f j := by
      rw [hAe, List.getD_eq_getElem?_getD, List.getElem?_append_right (by omega),
        ← List.getD_eq_getElem?_getD]
      have : 128 + n * 8 + j - A.length = j := by omega
      rw [this]
      exact htxBm_getD M j f (fun i hi => hz i (by omega))
    rw [this]
  -- the byte written
  have hcongr : ∀ i, i ≠ j → bitmapByte f' i = bitmapByte f i := by
    intro i hi
    apply bitmapByte_congr
    intro k hk
    rw [hf']
    have : ¬ 8 * i + k = b := by omega
    simp only [this, if_false]
  have e3 : FileM.writeU8 (bitmapByte f' j) ⟨htxImg sig n count h M f, 128 + n * 8 + j⟩ =
      some ((), ⟨htxImg sig n count h (max m (j + 1)) f', 128 + n * 8 + j + 1⟩) := by
    rw [writeU8_spec _ _ (bitmapByte_lt _ _) (by show 128 + n * 8 + j ≤ (htxImg sig n count h M f).length; omega)]
    have hp : 128 + n * 8 + j = A.length + j := by omega
    rw [hAe, hp, wr_right, List.length_singleton, htxBm_set M j f f' (by omega) hcongr, ← hAe]
    have : max M (j + 1) = max m (j + 1) := by omega
    rw [this]
  have hlen3 := htxImg_length sig n count h (max m (j + 1)) f' hsig
  -- the bucket entry
  obtain ⟨A2, B2, hA2, i1, i2⟩ := htxImg_tbl_split sig n count h h' (max m (j + 1)) f' hsig b hb
    (fun i hi => by rw [hh']; simp only [hi, if_false])
  have e4 : FileM.writeU64Le off ⟨htxImg sig n count h (max m (j + 1)) f', 128 + 8 * b⟩ =
      some ((), ⟨htxImg sig n count h' (max m (j + 1)) f', 128 + 8 * b + 8⟩) := by
    rw [writeU64Le_spec _ _ (by show 128 + 8 * b ≤ (htxImg sig n count h (max m (j + 1)) f').length; omega)]
    have hb' : h' b = off := by rw [hh']; simp
    rw [wr_app' (le64 off) A2 (le64 (h b)) B2 _ _ i1 hA2.symm (by rw [le64_length, le64_length]),
      i2, hb', le64_length]
  unfold Gen.htxWriteKeyPieceOffsetIdx
  simp only [h128, ← hj, ← hbit]
  rw [bind_some e1, bind_some e2]
  have hbyte : (if (off == 0) = true then (pure (Nat.land (bitmapByte f j) (Gen.u8Not (Gen.u8Shl 1 bit))) : FileM.M Nat)
      else pure (Nat.lor (bitmapByte f j) (Gen.u8Shl 1 bit))) = pure (bitmapByte f' j) := by
    have hg : ∀ k, k < 8 → f' (8 * j + k) = if k = bit then decide (off ≠ 0) else f (8 * j + k) := by
      intro k hk
      rw [hf']
      by_cases e : k = bit
      · subst e
        simp only [hb8, if_true]
      · have : ¬ 8 * j + k = b := by omega
        simp only [this, e, if_false]
    by_cases ho : off = 0
    · subst ho
      rw [if_pos (by rfl), bitmapByte_clear f f' j bit hbit8 (by simpa using hg)]
    · rw [if_neg (by simpa using ho), bitmapByte_set f f' j bit hbit8 (by simpa [ho] using hg)]
  rw [hbyte, pure_bind_apply, bind_some (seekFromStart_spec _ _ _ (by omega)), bind_some e3,
    bind_some (seekFromStart_spec _ _ _ (by omega)), bind_some e4, pure_apply, ← hh', ← hf']

end Abyss
