import Abyss.Lemmas.AllocCfg
/-!
# Association lists, `Tiled`, and fuel-free free chains (`IsChain`): basic lemmas
-/
namespace Abyss
variable {α β : Type}

/-! ## association lists -/

theorem aget_upsert_self (l : List (Nat × β)) (k : Nat) (v : β) : aget (upsert l k v) k = some v := by
  induction l with
  | nil => simp [upsert, aget]
  | cons p rest ih =>
    obtain ⟨k', w⟩ := p
    by_cases h : k' = k
    · simp [upsert, aget, h]
    · simp [upsert, aget, h, ih]

theorem aget_upsert_ne (l : List (Nat × β)) (k k' : Nat) (v : β) (h : k' ≠ k) :
    aget (upsert l k v) k' = aget l k' := by
  induction l with
  | nil => simp [upsert, aget, Ne.symm h]
  | cons p rest ih =>
    obtain ⟨k0, w⟩ := p
    by_cases h0 : k0 = k
    · subst h0
      simp [upsert, aget, Ne.symm h]
    · simp only [upsert, h0, if_false, aget, ih]

theorem upsert_length_of_some {l : List (Nat × β)} {k : Nat} {w : β} (v : β) (h : aget l k = some w) :
    (upsert l k v).length = l.length := by
  induction l with
  | nil => simp [aget] at h
  | cons p rest ih =>
    obtain ⟨k0, w0⟩ := p
    by_cases h0 : k0 = k
    · simp [upsert, h0]
    · simp only [aget, h0, if_false] at h
      simp [upsert, h0, ih h]

theorem upsert_of_none {l : List (Nat × β)} {k : Nat} (v : β) (h : aget l k = none) :
    upsert l k v = l ++ [(k, v)] := by
  induction l with
  | nil => simp [upsert]
  | cons p rest ih =>
    obtain ⟨k0, w0⟩ := p
    by_cases h0 : k0 = k
    · simp [aget, h0] at h
    · simp only [aget, h0, if_false] at h
      simp [upsert, h0, ih h]

theorem length_le_upsert (l : List (Nat × β)) (k : Nat) (v : β) : l.length ≤ (upsert l k v).length := by
  cases h : aget l k with
  | none => rw [upsert_of_none v h]; simp
  | some w => rw [upsert_length_of_some v h]; exact Nat.le_refl _

theorem aget_some_mem_keys {l : List (Nat × β)} {k : Nat} {w : β} (h : aget l k = some w) :
    k ∈ l.map (·.1) := by
  induction l with
  | nil => simp [aget] at h
  | cons p rest ih =>
    obtain ⟨k0, w0⟩ := p
    by_cases h0 : k0 = k
    · simp [h0]
    · simp only [aget, h0, if_false] at h
      simp [ih h]

/-- counting entries whose value satisfies `P`: replacing the value of a present key -/
theorem count_upsert_some {l : List (Nat × β)} {k : Nat} {w : β} (P : β → Bool) (v : β)
    (h : aget l k = some w) :
    ((upsert l k v).filter fun p => P p.2).length + (if P w then 1 else 0) =
      (l.filter fun p => P p.2).length + (if P v then 1 else 0) := by
  induction l with
  | nil => simp [aget] at h
  | cons p rest ih =>
    obtain ⟨k0, w0⟩ := p
    by_cases h0 : k0 = k
    · simp only [aget, h0, if_true, Option.some.injEq] at h
      subst h
      simp only [upsert, h0, if_true, List.filter_cons]
      cases P w0 <;> cases P v <;> simp
    · simp only [aget, h0, if_false] at h
      have := ih h
      simp only [upsert, h0, if_false, List.filter_cons]
      cases P w0 <;> simp <;> omega

theorem count_upsert_none {l : List (Nat × β)} {k : Nat} (P : β → Bool) (v : β)
    (h : aget l k = none) :
    ((upsert l k v).filter fun p => P p.2).length =
      (l.filter fun p => P p.2).length + (if P v then 1 else 0) := by
  rw [upsert_of_none v h, List.filter_append]
  cases hv : P v <;> simp [hv]

/-! ## `lset` -/

theorem lset_length (l : List β) (i : Nat) (v : β) : (lset l i v).length = l.length := by
  induction l generalizing i with
  | nil => simp [lset]
  | cons x xs ih =>
    cases i with
    | zero => simp [lset]
    | succ i => simp [lset, ih]

theorem lset_getD_self (l : List β) (i : Nat) (v d : β) (h : i < l.length) : (lset l i v).getD i d = v := by
  induction l generalizing i with
  | nil => simp at h
  | cons x xs ih =>
    cases i with
    | zero => simp [lset]
    | succ i =>
      simp only [List.length_cons, Nat.add_lt_add_iff_right] at h
      simpa [lset] using ih i h

theorem lset_getD_ne (l : List β) (i j : Nat) (v d : β) (h : j ≠ i) : (lset l i v).getD j d = l.getD j d := by
  induction l generalizing i j with
  | nil => simp [lset]
  | cons x xs ih =>
    cases i with
    | zero =>
      cases j with
      | zero => exact absurd rfl h
      | succ j => simp [lset]
    | succ i =>
      cases j with
      | zero => simp [lset]
      | succ j =>
        have : j ≠ i := fun e => h (by rw [e])
        simpa [lset] using ih i j this

/-! ## `Tiled` -/

theorem Tiled.le {l : List (Nat × Slot α)} {a b : Nat} (h : Tiled l a b) : a ≤ b := by
  induction l generalizing a with
  | nil => simp [Tiled] at h; omega
  | cons p rest ih =>
    obtain ⟨o, s⟩ := p
    obtain ⟨_, _, h3⟩ := h
    have := ih h3
    omega

theorem Tiled.bounds {l : List (Nat × Slot α)} {a b : Nat} (h : Tiled l a b) {o : Nat} {s : Slot α}
    (hg : aget l o = some s) : a ≤ o ∧ o + s.size ≤ b ∧ 0 < s.size := by
  induction l generalizing a with
  | nil => simp [aget] at hg
  | cons p rest ih =>
    obtain ⟨o0, s0⟩ := p
    obtain ⟨h1, h2, h3⟩ := h
    by_cases h0 : o0 = o
    · simp only [aget, h0, if_true, Option.some.injEq] at hg
      subst hg
      have := h3.le
      omega
    · simp only [aget, h0, if_false] at hg
      have := ih h3 hg
      omega

theorem Tiled.aget_end {l : List (Nat × Slot α)} {a b : Nat} (h : Tiled l a b) : aget l b = none := by
  cases hg : aget l b with
  | none => rfl
  | some s => have := h.bounds hg; omega

theorem Tiled.aget_lt {l : List (Nat × Slot α)} {a b : Nat} (h : Tiled l a b) {o : Nat} (ho : o < a) :
    aget l o = none := by
  cases hg : aget l o with
  | none => rfl
  | some s => have := h.bounds hg; omega

theorem Tiled.upsert_same {l : List (Nat × Slot α)} {a b : Nat} (h : Tiled l a b) {o : Nat} {s s' : Slot α}
    (hg : aget l o = some s) (hs : s'.size = s.size) : Tiled (upsert l o s') a b := by
  induction l generalizing a with
  | nil => simp [aget] at hg
  | cons p rest ih =>
    obtain ⟨o0, s0⟩ := p
    obtain ⟨h1, h2, h3⟩ := h
    by_cases h0 : o0 = o
    · simp only [aget, h0, if_true, Option.some.injEq] at hg
      subst hg
      simp only [upsert, h0, if_true]
      exact ⟨by omega, by omega, by rw [hs]; exact h3⟩
    · simp only [aget, h0, if_false] at hg
      simp only [upsert, h0, if_false]
      exact ⟨h1, h2, ih h3 hg⟩

theorem Tiled.upsert_end {l : List (Nat × Slot α)} {a b : Nat} (h : Tiled l a b) {s : Slot α}
    (hs : 0 < s.size) : Tiled (upsert l b s) a (b + s.size) := by
  induction l generalizing a with
  | nil =>
    simp only [Tiled] at h
    subst h
    simp [upsert, Tiled, hs]
  | cons p rest ih =>
    obtain ⟨o0, s0⟩ := p
    obtain ⟨h1, h2, h3⟩ := h
    have := h3.le
    have h0 : ¬ o0 = b := by omega
    simp only [upsert, h0, if_false]
    exact ⟨h1, h2, ih h3⟩

theorem Tiled.aget_of_mem {l : List (Nat × Slot α)} {a b : Nat} (h : Tiled l a b) {p : Nat × Slot α}
    (hm : p ∈ l) : aget l p.1 = some p.2 := by
  induction l generalizing a with
  | nil => simp at hm
  | cons q rest ih =>
    obtain ⟨o0, s0⟩ := q
    obtain ⟨h1, h2, h3⟩ := h
    rcases List.mem_cons.mp hm with e | hm'
    · subst e; simp [aget]
    · have hr := ih h3 hm'
      have := h3.bounds hr
      have h0 : ¬ o0 = p.1 := by omega
      simp only [aget, h0, if_false, hr]

/-! ## fuel-free free chains -/

namespace RecFile

/-- `l` is the free list starting at `h` (no fuel) -/
def IsChain (f : RecFile α) : Nat → List Nat → Prop
  | h, [] => h = 0
  | h, o :: l => h ≠ 0 ∧ o = h ∧ ∃ sz nx, f.get h = some (.free sz nx) ∧ IsChain f nx l

theorem freeChain_iff (f : RecFile α) (fuel h : Nat) (l : List Nat) :
    freeChain f fuel h = some l ↔ IsChain f h l ∧ l.length < fuel := by
  induction fuel generalizing h l with
  | zero => simp [freeChain]
  | succ fuel ih =>
    unfold freeChain
    by_cases h0 : h = 0
    · subst h0
      cases l with
      | nil => simp [IsChain]
      | cons o l => simp [IsChain]
    · simp only [h0, if_false]
      cases hg : f.get h with
      | none =>
        cases l with
        | nil => simp [IsChain, h0]
        | cons o l => simp [IsChain, hg]
      | some s =>
        cases s with
        | used sz p =>
          cases l with
          | nil => simp [IsChain, h0]
          | cons o l => simp [IsChain, hg]
        | free sz nx =>
          cases l with
          | nil => simp [IsChain, h0]
          | cons o l =>
            simp only [Option.map_eq_some_iff, List.cons.injEq, IsChain, hg, Option.some.injEq,
              Slot.free.injEq, List.length_cons, Nat.add_lt_add_iff_right]
            constructor
            · rintro ⟨l', hl', rfl, rfl⟩
              have := (ih nx l').mp hl'
              exact ⟨⟨h0, rfl, sz, nx, ⟨rfl, rfl⟩, this.1⟩, this.2⟩
            · rintro ⟨⟨_, rfl, sz', nx', ⟨rfl, rfl⟩, hc⟩, hlen⟩
              exact ⟨l, (ih _ l).mpr ⟨hc, hlen⟩, rfl, rfl⟩

theorem IsChain.unique {f : RecFile α} {h : Nat} {l l' : List Nat} (a : IsChain f h l) (b : IsChain f h l') :
    l = l' := by
  induction l generalizing h l' with
  | nil =>
    cases l' with
    | nil => rfl
    | cons o l' => simp only [IsChain] at a b; exact absurd a b.1
  | cons o l ih =>
    cases l' with
    | nil => simp only [IsChain] at a b; exact absurd b a.1
    | cons o' l' =>
      obtain ⟨_, rfl, sz, nx, hg, hc⟩ := a
      obtain ⟨_, rfl, sz', nx', hg', hc'⟩ := b
      rw [hg] at hg'
      simp only [Option.some.injEq, Slot.free.injEq] at hg'
      obtain ⟨rfl, rfl⟩ := hg'
      rw [ih hc hc']

/-- a chain depends only on the slots on it -/
theorem IsChain.congr {f g : RecFile α} {h : Nat} {l : List Nat} (a : IsChain f h l)
    (hfg : ∀ o ∈ l, g.get o = f.get o) : IsChain g h l := by
  induction l generalizing h with
  | nil => exact a
  | cons o l ih =>
    obtain ⟨h0, rfl, sz, nx, hg, hc⟩ := a
    refine ⟨h0, rfl, sz, nx, ?_, ih hc fun o' ho' => hfg o' (List.mem_cons_of_mem _ ho')⟩
    rw [hfg _ List.mem_cons_self, hg]

theorem IsChain.mem_free {f : RecFile α} {h : Nat} {l : List Nat} (a : IsChain f h l) {o : Nat} (ho : o ∈ l) :
    o ≠ 0 ∧ ∃ sz nx, f.get o = some (.free sz nx) := by
  induction l generalizing h with
  | nil => simp at ho
  | cons o' l ih =>
    obtain ⟨h0, rfl, sz, nx, hg, hc⟩ := a
    rcases List.mem_cons.mp ho with e | ho'
    · subst e; exact ⟨h0, sz, nx, hg⟩
    · exact ih hc ho'

/-- pigeonhole: a duplicate-free chain is no longer than the slot list -/
theorem IsChain.length_le {f : RecFile α} {h : Nat} {l : List Nat} (a : IsChain f h l) (nd : l.Nodup) :
    l.length ≤ f.slots.length := by
  have hsub : l ⊆ f.slots.map (·.1) := by
    intro o ho
    obtain ⟨_, sz, nx, hg⟩ := a.mem_free ho
    exact aget_some_mem_keys hg
  have := nd.length_le_of_subset hsub
  simpa using this

end RecFile
end Abyss
