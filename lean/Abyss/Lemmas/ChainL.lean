import Abyss.Inv
import Abyss.Lemmas.AllocL
import Abyss.Lemmas.Vu64L
import Mathlib.Data.List.Nodup
import Mathlib.Data.List.Perm.Subperm
/-!
# Chains, lookup and the abstraction under the invariant (helper lemmas)
-/
namespace Abyss
namespace Store
variable {α : Type}

/-! ## key comparison, chains -/

theorem cmpKey_ok (kt : KeyType) (a b : List Nat) (ha : KeyOK kt a) (hb : KeyOK kt b) :
    cmpKey kt a b = some (decide (a = b)) := by
  by_cases hk : kt = .vu64
  · subst hk
    obtain ⟨x, hx, rfl⟩ := ha rfl
    obtain ⟨y, hy, rfl⟩ := hb rfl
    have := cmpKey_vu64 x y hx hy
    rw [vu64Key_eq, vu64Key_eq] at this
    rw [this]
    congr 1
    apply decide_eq_decide.mpr
    constructor
    · intro h; rw [h]
    · intro h; exact Vu64.encode_inj x y hx hy h
  · exact cmpKey_bytes kt hk a b

/-- unfolding lemma for `chainFrom` at a nonzero offset holding a used record -/
theorem chainFrom_succ_used (kf : RecFile KeyRec) (fuel cur sz : Nat) (r : KeyRec)
    (hc : cur ≠ 0) (hg : kf.get cur = some (.used sz r)) :
    chainFrom kf (fuel+1) cur = (chainFrom kf fuel r.next).map ((cur, r) :: ·) := by
  simp [chainFrom, hc, hg]

/-- inversion of one `chainFrom` step -/
theorem chainFrom_succ_inv (kf : RecFile KeyRec) (fuel cur : Nat) (l : List (Nat × KeyRec))
    (h : chainFrom kf (fuel+1) cur = some l) :
    (cur = 0 ∧ l = []) ∨
    (cur ≠ 0 ∧ ∃ sz r t, kf.get cur = some (.used sz r) ∧ chainFrom kf fuel r.next = some t ∧ l = (cur, r) :: t) := by
  unfold chainFrom at h
  by_cases hc : cur = 0
  · simp [hc] at h; exact Or.inl ⟨hc, h⟩
  · right
    refine ⟨hc, ?_⟩
    simp only [hc, if_false] at h
    cases hg : kf.get cur with
    | none => simp [hg] at h
    | some sl =>
      cases sl with
      | free a b => simp [hg] at h
      | used sz r =>
        simp only [hg] at h
        cases ht : chainFrom kf fuel r.next with
        | none => simp [ht] at h
        | some t =>
          simp [ht] at h
          exact ⟨sz, r, t, rfl, ht, h.symm⟩

theorem chainFrom_fuel (kf : RecFile KeyRec) (fuel fuel' cur : Nat) (l : List (Nat × KeyRec))
    (h : chainFrom kf fuel cur = some l) (hf : fuel ≤ fuel') : chainFrom kf fuel' cur = some l := by
  induction fuel generalizing fuel' cur l with
  | zero => simp [chainFrom] at h
  | succ f ih =>
    obtain _ | f' := fuel'
    · omega
    rcases chainFrom_succ_inv kf f cur l h with ⟨hc, hl⟩ | ⟨hc, sz, r, t, hg, ht, hl⟩
    · subst hc hl; simp [chainFrom]
    · rw [chainFrom_succ_used kf f' cur sz r hc hg, ih f' r.next t ht (by omega), hl]; rfl

theorem chainFrom_fuel_len (kf : RecFile KeyRec) (fuel cur : Nat) (l : List (Nat × KeyRec))
    (h : chainFrom kf fuel cur = some l) : chainFrom kf (l.length + 1) cur = some l := by
  induction fuel generalizing cur l with
  | zero => simp [chainFrom] at h
  | succ f ih =>
    rcases chainFrom_succ_inv kf f cur l h with ⟨hc, hl⟩ | ⟨hc, sz, r, t, hg, ht, hl⟩
    · subst hc hl; simp [chainFrom]
    · subst hl
      rw [List.length_cons, chainFrom_succ_used kf _ cur sz r hc hg, ih r.next t ht]; rfl

theorem used_of_get {α : Type} (f : RecFile α) (o sz : Nat) (p : α) (h : f.get o = some (.used sz p)) :
    f.used o = some (sz, p) := by
  simp [RecFile.used, h]

theorem get_of_used {α : Type} (f : RecFile α) (o sz : Nat) (p : α) (h : f.used o = some (sz, p)) :
    f.get o = some (.used sz p) := by
  unfold RecFile.used at h
  cases hg : f.get o with
  | none => simp [hg] at h
  | some sl =>
    cases sl with
    | free a b => simp [hg] at h
    | used a b => simp [hg] at h; rw [h.1, h.2]

theorem chainFrom_seg (kf : RecFile KeyRec) (fuel cur : Nat) (l : List (Nat × KeyRec))
    (h : chainFrom kf fuel cur = some l) : segFrom kf l cur 0 := by
  induction fuel generalizing cur l with
  | zero => simp [chainFrom] at h
  | succ f ih =>
    rcases chainFrom_succ_inv kf f cur l h with ⟨hc, hl⟩ | ⟨hc, sz, r, t, hg, ht, hl⟩
    · subst hc hl; simp [segFrom]
    · subst hl
      exact ⟨rfl, hc, ⟨sz, used_of_get kf cur sz r hg⟩, ih r.next t ht⟩

theorem chainFrom_of_seg (kf : RecFile KeyRec) (cur : Nat) (l : List (Nat × KeyRec))
    (h : segFrom kf l cur 0) (fuel : Nat) (hf : l.length < fuel) : chainFrom kf fuel cur = some l := by
  induction l generalizing cur fuel with
  | nil =>
    obtain _ | f := fuel
    · simp at hf
    · simp only [segFrom] at h; subst h; simp [chainFrom]
  | cons p t ih =>
    obtain ⟨o, r⟩ := p
    obtain _ | f := fuel
    · simp at hf
    obtain ⟨hc, ho, ⟨sz, hu⟩, ht⟩ := h
    subst hc
    rw [chainFrom_succ_used kf f cur sz r ho (get_of_used kf cur sz r hu),
      ih r.next ht f (by simpa using hf)]; rfl

theorem chainFrom_congr (kf kf' : RecFile KeyRec) (fuel cur : Nat) (l : List (Nat × KeyRec))
    (h : chainFrom kf fuel cur = some l)
    (hsame : ∀ p ∈ l, kf'.get p.1 = kf.get p.1) : chainFrom kf' fuel cur = some l := by
  induction fuel generalizing cur l with
  | zero => simp [chainFrom] at h
  | succ f ih =>
    rcases chainFrom_succ_inv kf f cur l h with ⟨hc, hl⟩ | ⟨hc, sz, r, t, hg, ht, hl⟩
    · subst hc hl; simp [chainFrom]
    · subst hl
      have h1 : kf'.get cur = some (.used sz r) := by
        rw [hsame (cur, r) (by simp)]; exact hg
      rw [chainFrom_succ_used kf' f cur sz r hc h1,
        ih r.next t ht (fun p hp => hsame p (by simp [hp]))]; rfl

theorem mem_of_aget {β : Type} (l : List (Nat × β)) (o : Nat) (b : β) (h : aget l o = some b) :
    (o, b) ∈ l := by
  induction l with
  | nil => simp [aget] at h
  | cons p t ih =>
    obtain ⟨k, v⟩ := p
    unfold aget at h
    by_cases hk : k = o
    · simp [hk] at h; subst hk h; simp
    · simp [hk] at h; exact List.mem_cons_of_mem _ (ih h)

theorem nodup_offsets_length (kf : RecFile KeyRec) (l : List (Nat × KeyRec))
    (hn : (l.map (·.1)).Nodup) (hu : ∀ p ∈ l, ∃ sz, kf.used p.1 = some (sz, p.2)) :
    l.length ≤ kf.slots.length := by
  have hsub : l.map (·.1) ⊆ kf.slots.map (·.1) := by
    intro o ho
    obtain ⟨p, hp, rfl⟩ := List.mem_map.mp ho
    obtain ⟨sz, hs⟩ := hu p hp
    have := mem_of_aget kf.slots p.1 _ (get_of_used kf p.1 sz p.2 hs)
    exact List.mem_map.mpr ⟨_, this, rfl⟩
  have := (List.subperm_of_subset hn hsub).length_le
  simpa using this

/-! ## tiled slot lists, the abstraction -/


theorem tiled_ge {l : List (Nat × Slot α)} {a b : Nat} (h : Tiled l a b) :
    ∀ p ∈ l, a ≤ p.1 := by
  induction l generalizing a with
  | nil => simp
  | cons q t ih =>
    obtain ⟨o, s⟩ := q
    obtain ⟨ho, hs, ht⟩ := h
    intro p hp
    rcases List.mem_cons.mp hp with rfl | hp
    · simp [ho]
    · have := ih ht p hp; omega

theorem tiled_aget {l : List (Nat × Slot α)} {a b : Nat} (h : Tiled l a b) (o : Nat) (sl : Slot α)
    (hm : (o, sl) ∈ l) : aget l o = some sl := by
  induction l generalizing a with
  | nil => simp at hm
  | cons q t ih =>
    obtain ⟨o0, s0⟩ := q
    obtain ⟨ho, hs, ht⟩ := h
    rcases List.mem_cons.mp hm with heq | hp
    · cases heq; simp [aget]
    · have := tiled_ge ht _ hp
      have hne : o0 ≠ o := by simp at this; omega
      simp [aget, hne, ih ht hp]

theorem tiled_pairwise {l : List (Nat × Slot α)} {a b : Nat} (h : Tiled l a b) :
    l.Pairwise (fun p q => p.1 ≠ q.1) := by
  induction l generalizing a with
  | nil => simp
  | cons q t ih =>
    obtain ⟨o0, s0⟩ := q
    obtain ⟨ho, hs, ht⟩ := h
    refine List.Pairwise.cons ?_ (ih ht)
    intro p hp
    have := tiled_ge ht p hp
    simp; omega

/-- a slot listed in a well-formed key file is the slot found at its offset -/
theorem get_of_mem_slots {c : FileCfg} {f : RecFile α} (h : RecFile.WF c f) (o : Nat) (sl : Slot α)
    (hm : (o, sl) ∈ f.slots) : f.get o = some sl := tiled_aget h.tiled o sl hm

theorem mem_slots_of_get (f : RecFile α) (o : Nat) (sl : Slot α) (h : f.get o = some sl) :
    (o, sl) ∈ f.slots := mem_of_aget f.slots o sl h

/-- the function `abs` maps over the key slots -/
def absF (s : Store) (p : Nat × Slot KeyRec) : Option (List Nat × List Nat) :=
  match p.2 with
  | .used _ r => (s.vf.used r.valOff).map fun sv => (r.key, sv.2)
  | .free _ _ => none

theorem abs_eq (s : Store) : abs s = s.kf.slots.filterMap (absF s) := rfl

theorem absF_some (s : Store) (p : Nat × Slot KeyRec) (k v : List Nat) :
    absF s p = some (k, v) ↔ ∃ sz r vs, p.2 = .used sz r ∧ r.key = k ∧ s.vf.used r.valOff = some (vs, v) := by
  obtain ⟨o, sl⟩ := p
  cases sl with
  | free a b => simp [absF]
  | used sz r =>
    simp only [absF, Option.map_eq_some_iff]
    constructor
    · rintro ⟨⟨vs, v'⟩, h1, h2⟩
      simp at h2
      exact ⟨sz, r, vs, rfl, h2.1, by rw [h1, h2.2]⟩
    · rintro ⟨sz', r', vs, h1, h2, h3⟩
      cases h1
      exact ⟨(vs, v), h3, by simp [h2]⟩

theorem abs_mem_iff {kt : KeyType} {s : Store} {x : Nat} (h : InvX kt s x) (k v : List Nat) :
    (k, v) ∈ abs s ↔ ∃ vo vs, HasKV s k vo ∧ s.vf.used vo = some (vs, v) := by
  rw [abs_eq, List.mem_filterMap]
  constructor
  · rintro ⟨⟨o, sl⟩, hm, hf⟩
    obtain ⟨sz, r, vs, h1, h2, h3⟩ := (absF_some s _ k v).mp hf
    simp only at h1; subst h1
    exact ⟨r.valOff, vs, ⟨o, sz, r, used_of_get _ _ _ _ (get_of_mem_slots h.kwf o _ hm), h2, rfl⟩, h3⟩
  · rintro ⟨vo, vs, ⟨o, sz, r, hu, hk, hvo⟩, hv⟩
    refine ⟨(o, .used sz r), mem_slots_of_get _ _ _ (get_of_used _ _ _ _ hu), ?_⟩
    exact (absF_some s _ k v).mpr ⟨sz, r, vs, rfl, hk, by rw [hvo]; exact hv⟩

theorem abs_nodup {kt : KeyType} {s : Store} {x : Nat} (h : InvX kt s x) : Spec.NodupKeys (abs s) := by
  unfold Spec.NodupKeys
  rw [abs_eq, List.map_filterMap]
  have hp := List.Pairwise.and_mem.mp (tiled_pairwise h.kwf.tiled)
  refine List.Pairwise.filterMap _ ?_ hp
  rintro ⟨o, sl⟩ ⟨o', sl'⟩ ⟨hm, hm', hne⟩ k hk k' hk' hkk
  subst hkk
  simp only [Option.map_eq_some_iff] at hk hk'
  obtain ⟨⟨k1, v⟩, hf, rfl⟩ := hk
  obtain ⟨⟨k2, v'⟩, hf', hk2⟩ := hk'
  simp only at hk2; subst hk2
  obtain ⟨sz, r, vs, h1, h2, h3⟩ := (absF_some s _ _ _).mp hf
  obtain ⟨sz', r', vs', h1', h2', h3'⟩ := (absF_some s _ _ _).mp hf'
  simp only at h1 h1'; subst h1 h1'
  exact hne (h.keys_inj o o' sz sz' r r' (used_of_get _ _ _ _ (get_of_mem_slots h.kwf _ _ hm))
    (used_of_get _ _ _ _ (get_of_mem_slots h.kwf _ _ hm')) (h2.trans h2'.symm))

theorem spec_get_none (m : Spec.Map) (k : List Nat) :
    Spec.get m k = none ↔ ∀ v, (k, v) ∉ m := by
  unfold Spec.get
  rw [Option.map_eq_none_iff, List.find?_eq_none]
  constructor
  · intro h v hm; exact h (k, v) hm (by simp)
  · rintro h ⟨k', v⟩ hm hk
    simp at hk; subst hk; exact h v hm

theorem spec_get_some (m : Spec.Map) (hn : Spec.NodupKeys m) (k v : List Nat) :
    Spec.get m k = some v ↔ (k, v) ∈ m := by
  induction m with
  | nil => simp [Spec.get]
  | cons p t ih =>
    obtain ⟨k0, v0⟩ := p
    unfold Spec.NodupKeys at hn
    simp only [List.map_cons, List.nodup_cons] at hn
    have ih' := ih hn.2
    unfold Spec.get at ih' ⊢
    by_cases hk : k0 = k
    · subst hk
      simp only [List.find?_cons, decide_true, Option.map_some, Option.some.injEq, List.mem_cons, Prod.mk.injEq, true_and]
      constructor
      · intro h; exact Or.inl h.symm
      · rintro (h | h)
        · exact h.symm
        · exact absurd (List.mem_map.mpr ⟨_, h, rfl⟩) hn.1
    · simp only [List.find?_cons, hk, decide_false, List.mem_cons, Prod.mk.injEq]
      rw [ih']
      constructor
      · intro h; exact Or.inr h
      · rintro (h | h)
        · exact absurd h.1.symm hk
        · exact h

theorem abs_get_some {kt : KeyType} {s : Store} {x : Nat} (h : InvX kt s x) (k v : List Nat) :
    Spec.get (abs s) k = some v ↔ ∃ vo vs, HasKV s k vo ∧ s.vf.used vo = some (vs, v) := by
  rw [spec_get_some _ (abs_nodup h), abs_mem_iff h]

theorem abs_get_none {kt : KeyType} {s : Store} {x : Nat} (h : InvX kt s x) (k : List Nat) :
    Spec.get (abs s) k = none ↔ ∀ o sz r, s.kf.used o = some (sz, r) → r.key ≠ k := by
  rw [spec_get_none]
  constructor
  · intro hno o sz r hu hk
    obtain ⟨vs, v, hv⟩ := h.val_used o sz r hu
    exact hno v ((abs_mem_iff h k v).mpr ⟨r.valOff, vs, ⟨o, sz, r, hu, hk, rfl⟩, hv⟩)
  · intro hno v hm
    obtain ⟨vo, vs, ⟨o, sz, r, hu, hk, _⟩, _⟩ := (abs_mem_iff h k v).mp hm
    exact hno o sz r hu hk

theorem length_filterMap_eq_filter {β γ : Type} (f : β → Option γ) (g : β → Bool) (l : List β)
    (hfg : ∀ p ∈ l, (f p).isSome = g p) : (l.filterMap f).length = (l.filter g).length := by
  induction l with
  | nil => simp
  | cons p t ih =>
    have h1 := hfg p (by simp)
    have ih' := ih (fun q hq => hfg q (by simp [hq]))
    cases hf : f p with
    | none =>
      rw [hf] at h1
      simp [hf, ← h1, ih']
    | some y =>
      rw [hf] at h1
      simp [hf, ← h1, ih']

theorem abs_len {kt : KeyType} {s : Store} {x : Nat} (h : InvX kt s x) : Spec.len (abs s) = s.count := by
  rw [h.count_ok, Spec.len, abs_eq]
  apply length_filterMap_eq_filter
  rintro ⟨o, sl⟩ hm
  cases sl with
  | free a b => simp [absF]
  | used sz r =>
    obtain ⟨vs, v, hv⟩ := h.val_used o sz r (used_of_get _ _ _ _ (get_of_mem_slots h.kwf _ _ hm))
    simp [absF, hv]

theorem abs_equiv_of_same {kt : KeyType} {s s' : Store} {x x' : Nat} (h : InvX kt s x) (h' : InvX kt s' x')
    (hkv : ∀ k vo, HasKV s' k vo ↔ HasKV s k vo) (hv : ∀ vo, s'.vf.used vo = s.vf.used vo) :
    Spec.Equiv (abs s') (abs s) := by
  refine ⟨abs_nodup h', abs_nodup h, fun k => ?_⟩
  apply Option.ext
  intro v
  rw [abs_get_some h', abs_get_some h]
  constructor
  · rintro ⟨vo, vs, h1, h2⟩; exact ⟨vo, vs, (hkv k vo).mp h1, by rw [← hv]; exact h2⟩
  · rintro ⟨vo, vs, h1, h2⟩; exact ⟨vo, vs, (hkv k vo).mpr h1, by rw [hv]; exact h2⟩

/-! ## lookup -/

theorem getLast_cons_getD (p : Nat × KeyRec) (t : List (Nat × KeyRec)) (prev : Nat) :
    (((p :: t).getLast?).map (·.1)).getD prev = ((t.getLast?).map (·.1)).getD p.1 := by
  cases t with
  | nil => simp
  | cons q t' =>
    cases hl : (q :: t').getLast? with
    | none => simp at hl
    | some z => simp [List.getLast?_cons_cons, hl]

/-- the members of a link segment are used key records -/
theorem seg_used (kf : RecFile KeyRec) (l : List (Nat × KeyRec)) (cur tgt : Nat)
    (h : segFrom kf l cur tgt) : ∀ p ∈ l, ∃ sz, kf.used p.1 = some (sz, p.2) := by
  induction l generalizing cur with
  | nil => simp
  | cons q t ih =>
    obtain ⟨o, r⟩ := q
    obtain ⟨_, _, hu, ht⟩ := h
    intro p hp
    rcases List.mem_cons.mp hp with rfl | hp
    · exact hu
    · exact ih _ ht p hp

/-- `findLoop` along a chain: it stops at the first member holding `k` (with `prev` the member
in front of it), or reports absence when no member holds `k`. -/
theorem findLoop_seg (kt : KeyType) (kf : RecFile KeyRec) (k : List Nat) (hk : KeyOK kt k)
    (l : List (Nat × KeyRec)) (cur prev fuel : Nat)
    (hseg : segFrom kf l cur 0) (hok : ∀ p ∈ l, KeyOK kt p.2.key) (hf : l.length < fuel) :
    (∃ l1 o r l2, l = l1 ++ (o, r) :: l2 ∧ r.key = k ∧ (∀ p ∈ l1, p.2.key ≠ k) ∧
        findLoop kt kf k fuel cur prev = some (some (o, ((l1.getLast?).map (·.1)).getD prev))) ∨
    ((∀ p ∈ l, p.2.key ≠ k) ∧ findLoop kt kf k fuel cur prev = some none) := by
  induction l generalizing cur prev fuel with
  | nil =>
    obtain _ | f := fuel
    · simp at hf
    simp only [segFrom] at hseg
    right; simp [findLoop, hseg]
  | cons q t ih =>
    obtain ⟨o, r⟩ := q
    obtain _ | f := fuel
    · simp at hf
    obtain ⟨hc, ho, ⟨sz, hu⟩, ht⟩ := hseg
    subst hc
    have hg := get_of_used kf cur sz r hu
    have hcmp := cmpKey_ok kt k r.key hk (hok (cur, r) (by simp))
    by_cases hkr : k = r.key
    · left
      have hcmp' : cmpKey kt k r.key = some true := by rw [hcmp]; simp [hkr]
      refine ⟨[], cur, r, t, rfl, hkr.symm, by simp, ?_⟩
      simp [findLoop, ho, hg, hcmp']
    · have hcmp' : cmpKey kt k r.key = some false := by rw [hcmp]; simp [hkr]
      have hstep : findLoop kt kf k (f+1) cur prev = findLoop kt kf k f r.next cur := by
        simp [findLoop, ho, hg, hcmp']
      rw [hstep]
      rcases ih r.next cur f ht (fun p hp => hok p (by simp [hp])) (by simpa using hf) with
        ⟨l1, o', r', l2, hl, hk', hno, hfind⟩ | ⟨hno, hfind⟩
      · left
        refine ⟨(cur, r) :: l1, o', r', l2, by simp [hl], hk', ?_, ?_⟩
        · intro p hp
          rcases List.mem_cons.mp hp with rfl | hp
          · exact fun h => hkr h.symm
          · exact hno p hp
        · rw [hfind, getLast_cons_getD]
      · right
        refine ⟨?_, hfind⟩
        intro p hp
        rcases List.mem_cons.mp hp with rfl | hp
        · exact fun h => hkr h.symm
        · exact hno p hp

/-- offsets of used key records are not 0 -/
theorem used_ne_zero {kt : KeyType} {s : Store} {x : Nat} (h : InvX kt s x) {o sz : Nat} {r : KeyRec}
    (hu : s.kf.used o = some (sz, r)) : o ≠ 0 := by
  have := (RecFile.WF.get_bounds keyCfg_ok h.kwf (get_of_used _ _ _ _ hu)).1
  have := keyCfg_ok.hdr_pos
  omega

theorem find_spec {kt : KeyType} {s : Store} (h : Inv kt s) (k : List Nat) (hk : KeyOK kt k) :
    (∃ o sz r l1 l2, find kt s k = some (some (o, ((l1.getLast?).map (·.1)).getD 0)) ∧
        s.kf.used o = some (sz, r) ∧ r.key = k ∧
        s.chain (bucketOf k s.n) = some (l1 ++ (o, r) :: l2)) ∨
    (find kt s k = some none ∧ ∀ o sz r, s.kf.used o = some (sz, r) → r.key ≠ k) := by
  obtain ⟨l, hchain, hnodup, hbucket⟩ := h.chains (bucketOf k s.n) (Nat.mod_lt _ h.npos)
  have hseg := chainFrom_seg _ _ _ _ hchain
  have hused := seg_used _ _ _ _ hseg
  have hlen := nodup_offsets_length s.kf l hnodup hused
  have hok : ∀ p ∈ l, KeyOK kt p.2.key := fun p hp => by
    obtain ⟨sz, hu⟩ := hused p hp
    exact h.keys_ok p.1 sz p.2 hu
  rcases findLoop_seg kt s.kf k hk l (s.headOf (bucketOf k s.n)) 0 (s.kf.slots.length + 1) hseg hok
      (by omega) with ⟨l1, o, r, l2, hl, hkr, _, hfind⟩ | ⟨hno, hfind⟩
  · left
    obtain ⟨sz, hu⟩ := hused (o, r) (by simp [hl])
    exact ⟨o, sz, r, l1, l2, hfind, hu, hkr, by rw [hchain, hl]⟩
  · right
    refine ⟨hfind, ?_⟩
    intro o sz r hu hkr
    obtain ⟨l', hl', hm⟩ := h.on_chain o sz r hu (used_ne_zero h hu)
    rw [hkr, hchain] at hl'
    cases hl'
    exact hno (o, r) hm hkr

theorem get_spec {kt : KeyType} {s : Store} (h : Inv kt s) (k : List Nat) (hk : KeyOK kt k) :
    s.get kt k = some (Spec.get (abs s) k) := by
  rcases find_spec h k hk with ⟨o, sz, r, l1, l2, hfind, hu, hkr, _⟩ | ⟨hfind, hno⟩
  · obtain ⟨vs, v, hv⟩ := h.val_used o sz r hu
    have h1 : Spec.get (abs s) k = some v :=
      (abs_get_some h k v).mpr ⟨r.valOff, vs, ⟨o, sz, r, hu, hkr, rfl⟩, hv⟩
    have h2 : s.loadValue o = some v := by
      simp [loadValue, get_of_used _ _ _ _ hu, get_of_used _ _ _ _ hv]
    simp [Store.get, hfind, h1, h2]
  · have h1 : Spec.get (abs s) k = none := (abs_get_none h k).mpr hno
    simp [Store.get, hfind, h1]

theorem includes_spec {kt : KeyType} {s : Store} (h : Inv kt s) (k : List Nat) (hk : KeyOK kt k) :
    s.includes kt k = some (Spec.includes (abs s) k) := by
  rcases find_spec h k hk with ⟨o, sz, r, l1, l2, hfind, hu, hkr, _⟩ | ⟨hfind, hno⟩
  · obtain ⟨vs, v, hv⟩ := h.val_used o sz r hu
    have h1 : Spec.get (abs s) k = some v :=
      (abs_get_some h k v).mpr ⟨r.valOff, vs, ⟨o, sz, r, hu, hkr, rfl⟩, hv⟩
    simp [Store.includes, Spec.includes, hfind, h1]
  · have h1 : Spec.get (abs s) k = none := (abs_get_none h k).mpr hno
    simp [Store.includes, Spec.includes, hfind, h1]

/-! ## relink walk, initial state -/

theorem predLoop_spec (kf : RecFile KeyRec) (l1 : List (Nat × KeyRec)) (cur old prev fuel : Nat)
    (hseg : segFrom kf l1 cur old) (hold : old ≠ 0) (hne : ∀ p ∈ l1, p.1 ≠ old) (hf : l1.length < fuel) :
    predLoop kf old fuel cur prev = some (((l1.getLast?).map (·.1)).getD prev) := by
  have _ := hold
  induction l1 generalizing cur prev fuel with
  | nil =>
    obtain _ | f := fuel
    · simp at hf
    simp only [segFrom] at hseg
    simp [predLoop, hseg]
  | cons p t ih =>
    obtain ⟨o, r⟩ := p
    obtain _ | f := fuel
    · simp at hf
    obtain ⟨hc, ho, ⟨sz, hu⟩, ht⟩ := hseg
    subst hc
    have h1 : cur ≠ old := hne (cur, r) (by simp)
    have hg := get_of_used kf cur sz r hu
    unfold predLoop
    simp only [h1, ho, or_self, if_false, hg]
    rw [ih r.next cur f ht (fun p hp => hne p (by simp [hp])) (by simpa using hf)]
    rw [getLast_cons_getD]

theorem init_inv (kt : KeyType) (n : Nat) (hn : 0 < n) : Inv kt (Store.init n) ∧ abs (Store.init n) = [] := by
  have hget : ∀ o, (Store.init n).kf.get o = none := fun o => rfl
  have hused : ∀ o, (Store.init n).kf.used o = none := fun o => rfl
  have hvused : ∀ o, (Store.init n).vf.used o = none := fun o => rfl
  refine ⟨⟨hn, RecFile.WF.empty keyCfg, RecFile.WF.empty valCfg, fun _ _ => rfl, fun _ => rfl, ?_, ?_, ?_, ?_, ?_, ?_, ?_, rfl⟩, rfl⟩
  · intro b _
    exact ⟨[], rfl, by simp, by simp⟩
  · intro o sz r h; rw [hused] at h; cases h
  · intro o sz r h; rw [hused] at h; cases h
  · intro o o' sz sz' r r' h; rw [hused] at h; cases h
  · intro o sz r h; rw [hused] at h; cases h
  · intro o o' sz sz' r r' h; rw [hused] at h; cases h
  · intro vo vs v h; rw [hvused] at h; cases h

end Store
end Abyss
