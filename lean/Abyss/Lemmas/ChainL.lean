import Abyss.Inv
import Abyss.Lemmas.AllocL
import Abyss.Lemmas.Vu64L
/-!
# Chains, lookup and the abstraction under the invariant (helper lemmas)
-/
namespace Abyss
namespace Store

/-- stored-key comparison decides equality on admissible keys -/
theorem cmpKey_ok (kt : KeyType) (a b : List Nat) (ha : KeyOK kt a) (hb : KeyOK kt b) :
    cmpKey kt a b = some (decide (a = b)) := by sorry

/-- more fuel does not change a chain that was found -/
theorem chainFrom_fuel (kf : RecFile KeyRec) (fuel fuel' cur : Nat) (l : List (Nat × KeyRec))
    (h : chainFrom kf fuel cur = some l) (hf : fuel ≤ fuel') : chainFrom kf fuel' cur = some l := by sorry

/-- a chain that exists is found with fuel `length + 1` -/
theorem chainFrom_fuel_len (kf : RecFile KeyRec) (fuel cur : Nat) (l : List (Nat × KeyRec))
    (h : chainFrom kf fuel cur = some l) : chainFrom kf (l.length + 1) cur = some l := by sorry

/-- the members of a chain are used key records, linked in order, ending in 0 -/
theorem chainFrom_seg (kf : RecFile KeyRec) (fuel cur : Nat) (l : List (Nat × KeyRec))
    (h : chainFrom kf fuel cur = some l) : segFrom kf l cur 0 := by sorry

/-- conversely, a segment that ends in 0 is a chain (with enough fuel) -/
theorem chainFrom_of_seg (kf : RecFile KeyRec) (cur : Nat) (l : List (Nat × KeyRec))
    (h : segFrom kf l cur 0) (fuel : Nat) (hf : l.length < fuel) : chainFrom kf fuel cur = some l := by sorry

/-- a chain does not depend on slots that are not on it -/
theorem chainFrom_congr (kf kf' : RecFile KeyRec) (fuel cur : Nat) (l : List (Nat × KeyRec))
    (h : chainFrom kf fuel cur = some l)
    (hsame : ∀ p ∈ l, kf'.get p.1 = kf.get p.1) : chainFrom kf' fuel cur = some l := by sorry

/-- a duplicate-free list of offsets of slots is no longer than the slot list -/
theorem nodup_offsets_length (kf : RecFile KeyRec) (l : List (Nat × KeyRec))
    (hn : (l.map (·.1)).Nodup) (hu : ∀ p ∈ l, ∃ sz, kf.used p.1 = some (sz, p.2)) :
    l.length ≤ kf.slots.length := by sorry

/-- membership in the abstraction -/
theorem abs_mem_iff {kt : KeyType} {s : Store} {x : Nat} (h : InvX kt s x) (k v : List Nat) :
    (k, v) ∈ abs s ↔ ∃ vo vs, HasKV s k vo ∧ s.vf.used vo = some (vs, v) := by sorry

theorem abs_nodup {kt : KeyType} {s : Store} {x : Nat} (h : InvX kt s x) : Spec.NodupKeys (abs s) := by sorry

theorem abs_get_some {kt : KeyType} {s : Store} {x : Nat} (h : InvX kt s x) (k v : List Nat) :
    Spec.get (abs s) k = some v ↔ ∃ vo vs, HasKV s k vo ∧ s.vf.used vo = some (vs, v) := by sorry

theorem abs_get_none {kt : KeyType} {s : Store} {x : Nat} (h : InvX kt s x) (k : List Nat) :
    Spec.get (abs s) k = none ↔ ∀ o sz r, s.kf.used o = some (sz, r) → r.key ≠ k := by sorry

theorem abs_len {kt : KeyType} {s : Store} {x : Nat} (h : InvX kt s x) : Spec.len (abs s) = s.count := by sorry

/-- two states whose used key records carry the same (key, value offset) pairs and whose value
files hold the same used records have equivalent abstractions -/
theorem abs_equiv_of_same {kt : KeyType} {s s' : Store} {x x' : Nat} (h : InvX kt s x) (h' : InvX kt s' x')
    (hkv : ∀ k vo, HasKV s' k vo ↔ HasKV s k vo) (hv : ∀ vo, s'.vf.used vo = s.vf.used vo) :
    Spec.Equiv (abs s') (abs s) := by sorry

/-- `find`: either the key is found at a position of its bucket's chain — with `prev` the offset
of the record in front of it, or 0 if it is the first — or no used key record holds it. -/
theorem find_spec {kt : KeyType} {s : Store} (h : Inv kt s) (k : List Nat) (hk : KeyOK kt k) :
    (∃ o sz r l1 l2, find kt s k = some (some (o, ((l1.getLast?).map (·.1)).getD 0)) ∧
        s.kf.used o = some (sz, r) ∧ r.key = k ∧
        s.chain (bucketOf k s.n) = some (l1 ++ (o, r) :: l2)) ∨
    (find kt s k = some none ∧ ∀ o sz r, s.kf.used o = some (sz, r) → r.key ≠ k) := by sorry

/-- `get` returns what the ideal map returns -/
theorem get_spec {kt : KeyType} {s : Store} (h : Inv kt s) (k : List Nat) (hk : KeyOK kt k) :
    s.get kt k = some (Spec.get (abs s) k) := by sorry

/-- `includes_key` returns what the ideal map returns -/
theorem includes_spec {kt : KeyType} {s : Store} (h : Inv kt s) (k : List Nat) (hk : KeyOK kt k) :
    s.includes kt k = some (Spec.includes (abs s) k) := by sorry

/-- the walk of `relink` finds the last record of the leading segment (0 if it is empty) -/
theorem predLoop_spec (kf : RecFile KeyRec) (l1 : List (Nat × KeyRec)) (cur old prev fuel : Nat)
    (hseg : segFrom kf l1 cur old) (hold : old ≠ 0) (hne : ∀ p ∈ l1, p.1 ≠ old) (hf : l1.length < fuel) :
    predLoop kf old fuel cur prev = some (((l1.getLast?).map (·.1)).getD prev) := by sorry

/-- a freshly created map satisfies the invariant and is empty -/
theorem init_inv (kt : KeyType) (n : Nat) (hn : 0 < n) : Inv kt (Store.init n) ∧ abs (Store.init n) = [] := by sorry

end Store
end Abyss
