import Abyss.Lemmas.EngineDefs
import Abyss.Lemmas.EngineHtxAux3
/-! # generated engine vs model: the hash-table file (see `EngineDefs.lean`) -/
namespace Abyss
open Store FileM

/-! ## the hash-table file -/

theorem htxRead_bytes {kt : KeyType} {s : Store} (g : Store.Regular kt s) (hash pos : Nat) :
    ∃ pos', Gen.htxReadKeyPieceOffset s.n hash ⟨(render kt s).htx, pos⟩ =
      some (s.headOf (hash % s.n), ⟨(render kt s).htx, pos'⟩) := by
  have R := renderable_of_sized g.inv g.sized g.kend g.vend g.n_lt
  have hb : hash % s.n < s.n := Nat.mod_lt _ g.inv.npos
  refine ⟨128 + 8 * (hash % s.n) + 8, ?_⟩
  show Gen.htxReadKeyPieceOffset s.n hash ⟨renderHtxFile kt.sig s, pos⟩ = some (_, ⟨renderHtxFile kt.sig s, _⟩)
  rw [renderHtx_eq kt.sig s R.sig_len]
  unfold Gen.htxReadKeyPieceOffset
  exact htxReadIdx_spec _ _ _ _ _ _ R.sig_len _ pos hb (R.heads_lt _)

/-- the table file of the state after `writeHead`, from its fields -/
theorem renderHtx_writeHead {kt : KeyType} {s : Store} (g : Store.Regular kt s) (b off : Nat)
    (hsig : kt.sig.length = 8) :
    renderHtxFile kt.sig (s.writeHead b off) =
      htxImg kt.sig s.n s.count (fun i => if i = b then off else s.headOf i)
        (max (s.htxEnd - (Gen.htxHeaderSz + s.n * 8)) (b / 8 + 1))
        (fun i => if i = b then decide (off ≠ 0) else s.bitOf i) := by
  rw [renderHtx_eq _ _ hsig]
  have h1 : (s.writeHead b off).headOf = fun i => if i = b then off else s.headOf i :=
    funext (headOf_writeHead s b off)
  have h2 : (s.writeHead b off).bitOf = fun i => if i = b then decide (off ≠ 0) else s.bitOf i :=
    funext (bitOf_writeHead s b off)
  have h3 : (s.writeHead b off).htxEnd - (Gen.htxHeaderSz + (s.writeHead b off).n * 8) =
      max (s.htxEnd - (Gen.htxHeaderSz + s.n * 8)) (b / 8 + 1) := by
    show max s.htxEnd (Gen.htxHeaderSz + s.n * 8 + b / 8 + 1) - (Gen.htxHeaderSz + s.n * 8) = _
    have := g.sized.htx_len
    omega
  rw [h1, h2, h3]
  rfl

theorem htxWrite_bytes {kt : KeyType} {s : Store} (g : Store.Regular kt s) (hash off pos : Nat) (ho : off < 2^64) :
    ∃ pos', Gen.htxWriteKeyPieceOffset s.n hash off ⟨(render kt s).htx, pos⟩ =
      some ((), ⟨(render kt (s.writeHead (hash % s.n) off)).htx, pos'⟩) := by
  have _ := ho
  have R := renderable_of_sized g.inv g.sized g.kend g.vend g.n_lt
  have hb : hash % s.n < s.n := Nat.mod_lt _ g.inv.npos
  refine ⟨128 + 8 * (hash % s.n) + 8, ?_⟩
  show Gen.htxWriteKeyPieceOffset s.n hash off ⟨renderHtxFile kt.sig s, pos⟩ =
    some ((), ⟨renderHtxFile kt.sig (s.writeHead (hash % s.n) off), _⟩)
  rw [renderHtx_writeHead g _ _ R.sig_len, renderHtx_eq kt.sig s R.sig_len]
  unfold Gen.htxWriteKeyPieceOffset
  refine htxWriteIdx_spec _ _ _ _ _ _ R.sig_len _ off pos hb ?_
  intro k hk
  cases hbit : s.bitOf k with
  | false => rfl
  | true =>
    have := R.bits_in k hbit
    omega

theorem htxCount_bytes {kt : KeyType} {s : Store} (g : Store.Regular kt s) (pos : Nat) :
    (∃ pos', Gen.htxReadItemCountH ⟨(render kt s).htx, pos⟩ = some (s.count, ⟨(render kt s).htx, pos'⟩)) ∧
    (∃ pos', Gen.htxWriteItemCountUp ⟨(render kt s).htx, pos⟩ =
      some ((), ⟨(render kt { s with count := s.count + 1 }).htx, pos'⟩)) ∧
    (∃ pos', Gen.htxWriteItemCountDown ⟨(render kt s).htx, pos⟩ =
      some ((), ⟨(render kt { s with count := s.count - 1 }).htx, pos'⟩)) := by
  have R := renderable_of_sized g.inv g.sized g.kend g.vend g.n_lt
  have hsig := R.sig_len
  have hr := htxReadItemCount_spec kt.sig s.n s.count s.headOf (s.htxEnd - (Gen.htxHeaderSz + s.n * 8)) s.bitOf
    hsig pos R.count_lt
  have himg : ∀ c, (render kt { s with count := c }).htx =
      htxImg kt.sig s.n c s.headOf (s.htxEnd - (Gen.htxHeaderSz + s.n * 8)) s.bitOf := by
    intro c
    show renderHtxFile kt.sig { s with count := c } = _
    rw [renderHtx_eq _ _ hsig]
    rfl
  have himg0 : (render kt s).htx =
      htxImg kt.sig s.n s.count s.headOf (s.htxEnd - (Gen.htxHeaderSz + s.n * 8)) s.bitOf :=
    renderHtx_eq _ _ hsig
  refine ⟨⟨32, ?_⟩, ⟨32, ?_⟩, ?_⟩
  · rw [himg0]
    unfold Gen.htxReadItemCountH
    exact hr
  · rw [himg (s.count + 1), himg0]
    unfold Gen.htxWriteItemCountUp
    rw [bind_some hr]
    exact htxWriteItemCount_spec _ _ _ _ _ _ _ hsig _
  · rw [himg (s.count - 1), himg0]
    unfold Gen.htxWriteItemCountDown
    rw [bind_some hr]
    by_cases hc : s.count > 0
    · refine ⟨32, ?_⟩
      rw [if_pos (by simpa using hc)]
      exact htxWriteItemCount_spec _ _ _ _ _ _ _ hsig _
    · refine ⟨32, ?_⟩
      rw [if_neg (by simpa using hc), pure_apply]
      have : s.count - 1 = s.count := by omega
      rw [this]

end Abyss
