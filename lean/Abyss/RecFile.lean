import Abyss.Assoc
import Abyss.Gen.Funcs
/-!
# Record files (key file / value file): slots, 16 free lists, allocation

Mirrors `piece.rs` (`push_free_piece_list`, `pop_free_piece_list(_large)`), and
`key.rs`/`val.rs` `write_piece`, `delete_piece`.  Every function returns `none` where the real
code would read something that is not what it expects (a state the theorems show unreachable).
-/
namespace Abyss

/-- static layout of one record file (all fields come from the generated constants). -/
structure FileCfg where
  sizeAry : List Nat
  freeOffsets : List Nat
  first : Nat
  headerSz : Nat
  sig1 : List Nat

def keyCfg : FileCfg := ⟨Gen.keySizeAry, Gen.keyFreeOffsets, Gen.keyFreeOffset1st, Gen.keyHeaderSz, Gen.keySig1⟩
def valCfg : FileCfg := ⟨Gen.valSizeAry, Gen.valFreeOffsets, Gen.valFreeOffset1st, Gen.valHeaderSz, Gen.valSig1⟩

/-- a slot: a used record with payload, or a member of a free list. -/
inductive Slot (α : Type) where
  | used (size : Nat) (p : α)
  | free (size : Nat) (next : Nat)
  deriving Repr, DecidableEq

def Slot.size {α : Type} : Slot α → Nat
  | .used s _ => s
  | .free s _ => s

/-- one record file. `slots` is in address order (files only grow at the end). -/
structure RecFile (α : Type) where
  slots : List (Nat × Slot α)
  heads : List Nat
  end_ : Nat
  deriving Repr, DecidableEq

namespace RecFile
variable {α : Type}

def empty (c : FileCfg) : RecFile α := ⟨[], List.replicate 16 0, c.headerSz⟩

def get (f : RecFile α) (off : Nat) : Option (Slot α) := aget f.slots off

/-- write a whole slot at `off` (content, then zero padding up to `off + size`). -/
def set (f : RecFile α) (off : Nat) (s : Slot α) : RecFile α :=
  { f with slots := upsert f.slots off s, end_ := max f.end_ (off + s.size) }

/-- index (0..15) of the free list that holds slots of `size`:
`(free_piece_list_offset_of_header(size) - first) / 8`. -/
def headIdx (c : FileCfg) (size : Nat) : Nat :=
  (Gen.freePieceListOffsetOfHeader c.freeOffsets c.sizeAry size - c.first) / 8

def headOf (c : FileCfg) (f : RecFile α) (size : Nat) : Nat := f.heads.getD (headIdx c size) 0

def setHead (c : FileCfg) (f : RecFile α) (size : Nat) (off : Nat) : RecFile α :=
  { f with heads := lset f.heads (headIdx c size) off }

/-- `push_free_piece_list(off, size)` -/
def pushFree (c : FileCfg) (f : RecFile α) (off size : Nat) : RecFile α :=
  if off = 0 then f else
  let h := headOf c f size
  setHead c (f.set off (.free size h)) size off

/-- `pop_free_piece_list_large(need, first)`: first fit in list order. -/
def popLarge (c : FileCfg) (need : Nat) : Nat → RecFile α → Nat → Nat → Option (Nat × RecFile α)
  | 0, _, _, _ => none
  | fuel+1, f, prev, cur =>
    if cur = 0 then some (0, f) else
    match f.get cur with
    | some (.free sz nx) =>
      if need ≤ sz then
        if prev ≠ 0 then
          match f.get prev with
          | some (.free psz _) => some (cur, ((f.set prev (.free psz nx)).set cur (.free sz 0)))
          | _ => none
        else some (cur, ((setHead c f need nx).set cur (.free sz 0)))
      else popLarge c need fuel f cur nx
    | _ => none

/-- `pop_free_piece_list(need)`: `(0, f)` when the list has nothing to offer. The popped slot is
left cleared (its size, then zeros = a free slot with next 0). -/
def popFree (c : FileCfg) (f : RecFile α) (need : Nat) : Option (Nat × RecFile α) :=
  let h := headOf c f need
  if Gen.isLargePieceSize c.sizeAry need then popLarge c need (f.slots.length + 1) f 0 h
  else if h = 0 then some (0, f)
  else match f.get h with
    | some (.free sz nx) => some (h, (setHead c f need nx).set h (.free sz 0))
    | _ => none

/-- the "add new" half of `write_piece`: pop a free slot (it keeps its own size) or take the
end of the file. Returns `(offset, size, file)`. -/
def allocSlot (c : FileCfg) (f : RecFile α) (need : Nat) : Option (Nat × Nat × RecFile α) :=
  match popFree c f need with
  | none => none
  | some (off, f1) =>
    if off ≠ 0 then
      match f1.get off with
      | some s => some (off, s.size, f1)
      | none => none
    else some (f1.end_, need, f1)

/-- `write_piece(piece, is_new = true)` -/
def addPiece (c : FileCfg) (f : RecFile α) (need : Nat) (p : α) : Option (Nat × RecFile α) :=
  match allocSlot c f need with
  | none => none
  | some (off, sz, f1) => some (off, f1.set off (.used sz p))

/-- `write_piece(piece, is_new = false)`: in place if the rounded need fits the old slot,
else free the old slot and allocate. Returns the (possibly new) offset. -/
def rewrite (c : FileCfg) (f : RecFile α) (off need : Nat) (p : α) : Option (Nat × RecFile α) :=
  match f.get off with
  | none => none
  | some s =>
    if need ≤ s.size then some (off, f.set off (.used s.size p))
    else addPiece c (pushFree c f off s.size) need p

/-- `delete_piece(off)` -/
def deletePiece (c : FileCfg) (f : RecFile α) (off : Nat) : Option (RecFile α) :=
  match f.get off with
  | none => none
  | some s => some (pushFree c f off s.size)

/-- `count_of_free_piece_list(size)`: length of the free list of the class of `size`. -/
def countFreeFrom (f : RecFile α) : Nat → Nat → Option Nat
  | 0, _ => none
  | fuel+1, cur =>
    if cur = 0 then some 0 else
    match f.get cur with
    | some (.free _ nx) => (countFreeFrom f fuel nx).map (· + 1)
    | _ => none

def countFree (c : FileCfg) (f : RecFile α) (size : Nat) : Option Nat :=
  countFreeFrom f (f.slots.length + 1) (headOf c f size)

/-- the sequential slot walk of the statistics calls (`PieceOffsetIter`): offsets visited. -/
def walkFrom (f : RecFile α) : Nat → Nat → Option (List (Nat × Slot α))
  | 0, _ => none
  | fuel+1, off =>
    if off < f.end_ then
      match f.get off with
      | some s => if s.size = 0 then none else (walkFrom f fuel (off + s.size)).map ((off, s) :: ·)
      | none => none
    else some []

def walk (c : FileCfg) (f : RecFile α) : Option (List (Nat × Slot α)) :=
  walkFrom f (f.slots.length + 1) c.headerSz

end RecFile
end Abyss
