import Abyss.Store
/-!
# The on-disk image of a map: `render : Store → (htx, key, val)` bytes

Layout (documented in `htx.rs`, `key.rs`, `val.rs`, `vfile.rs`):
* sizes and record offsets are stored divided by 8 as vu64; lengths as vu64;
  free-list links and bucket entries as 8 little-endian bytes;
* every slot is written in full: content, then zeros up to its size.
-/
namespace Abyss

def zeros (k : Nat) : List Nat := List.replicate k 0
def le64 (v : Nat) : List Nat := Vu64.leBytes v 8

/-- content of a used value slot (without padding). -/
def valContent (size : Nat) (v : List Nat) : List Nat :=
  Vu64.encode (size / 8) ++ Vu64.encode v.length ++ v
/-- content of a used key slot (without padding). -/
def keyContent (size : Nat) (r : KeyRec) : List Nat :=
  Vu64.encode (size / 8) ++ Vu64.encode r.key.length ++ r.key ++
    Vu64.encode (r.valOff / 8) ++ Vu64.encode (r.next / 8)
/-- content of a free slot. -/
def freeContent (size next : Nat) : List Nat :=
  Vu64.encode (size / 8) ++ [0] ++ le64 next

/-- pad with zeros up to `size` (nothing is cut when the content is longer: the real code
then skips the padding and runs over the slot end). -/
def padTo (size : Nat) (c : List Nat) : List Nat := c ++ zeros (size - c.length)

def renderValSlot : Slot (List Nat) → List Nat
  | .used sz v => padTo sz (valContent sz v)
  | .free sz nx => padTo sz (freeContent sz nx)
def renderKeySlot : Slot KeyRec → List Nat
  | .used sz r => padTo sz (keyContent sz r)
  | .free sz nx => padTo sz (freeContent sz nx)

/-- header of a record file: signatures, zeros up to the first free-list head, the 16 heads,
zeros up to the header size. -/
def renderRecHeader {α : Type} (c : FileCfg) (sig2 : List Nat) (f : RecFile α) : List Nat :=
  let a := c.sig1 ++ sig2
  let b := a ++ zeros (c.first - a.length) ++ (f.heads.map le64).flatten
  b ++ zeros (c.headerSz - b.length)

def renderKeyFile (sig2 : List Nat) (f : RecFile KeyRec) : List Nat :=
  renderRecHeader keyCfg sig2 f ++ (f.slots.map fun p => renderKeySlot p.2).flatten
def renderValFile (sig2 : List Nat) (f : RecFile (List Nat)) : List Nat :=
  renderRecHeader valCfg sig2 f ++ (f.slots.map fun p => renderValSlot p.2).flatten

/-- bitmap byte `j`. -/
def bitmapByte (bit : Nat → Bool) (j : Nat) : Nat :=
  (List.range 8).foldl (fun acc b => if bit (8 * j + b) then acc + 2^b else acc) 0

def renderHtxFile (sig2 : List Nat) (s : Store) : List Nat :=
  let hdr := Gen.htxSig1 ++ sig2 ++ le64 s.n ++ le64 s.count
  let hdr := hdr ++ zeros (Gen.htxHeaderSz - hdr.length)
  let tbl := ((List.range s.n).map fun i => le64 (s.headOf i)).flatten
  let bmLen := s.htxEnd - (Gen.htxHeaderSz + s.n * 8)
  hdr ++ tbl ++ (List.range bmLen).map (bitmapByte s.bitOf)

structure Image where
  htx : List Nat
  key : List Nat
  val : List Nat

def render (kt : KeyType) (s : Store) : Image :=
  ⟨renderHtxFile kt.sig s, renderKeyFile kt.sig s.kf, renderValFile kt.sig s.vf⟩

end Abyss
