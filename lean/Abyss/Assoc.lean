/-!
# Small association-list utilities (finite maps `Nat ⇀ β` as `List (Nat × β)`)

`upsert` replaces the entry of a key in place, or appends a new entry at the end, so the
order of first insertion is kept (for the record files this is address order).
-/
namespace Abyss

/-- lookup in an association list keyed by `Nat`. -/
def aget {β : Type} : List (Nat × β) → Nat → Option β
  | [], _ => none
  | (k, v) :: rest, key => if k = key then some v else aget rest key

/-- replace the value of `key`, or append `(key, v)` at the end. -/
def upsert {β : Type} : List (Nat × β) → Nat → β → List (Nat × β)
  | [], key, v => [(key, v)]
  | (k, w) :: rest, key, v => if k = key then (k, v) :: rest else (k, w) :: upsert rest key v

/-- list update by index (no change when out of range). -/
def lset {β : Type} : List β → Nat → β → List β
  | [], _, _ => []
  | _ :: xs, 0, v => v :: xs
  | x :: xs, i+1, v => x :: lset xs i v

end Abyss
