/-!
# The ideal in-memory map (specification of C01)

Keys and values are byte strings (`List Nat`). This is the whole specification: it is meant to
be read in a minute.
-/
namespace Abyss.Spec

abbrev Map := List (List Nat × List Nat)

def empty : Map := []
def get (m : Map) (k : List Nat) : Option (List Nat) := (m.find? (fun p => p.1 = k)).map (·.2)
def del (m : Map) (k : List Nat) : Map := m.filter (fun p => p.1 ≠ k)
def put (m : Map) (k v : List Nat) : Map := (k, v) :: del m k
def len (m : Map) : Nat := m.length
def includes (m : Map) (k : List Nat) : Bool := (get m k).isSome
def isEmpty (m : Map) : Bool := len m = 0

end Abyss.Spec
