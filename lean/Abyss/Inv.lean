import Abyss.Ops
import Abyss.Scan
/-!
# Invariants of a record file (`RecFile.WF`) and of a map (`Inv`), and the abstraction `abs`

These are the predicates the theorems are about. Each has an executable twin (`checkWF`,
`checkInv`, in `Abyss/Check.lean`) that the correspondence runs evaluate on every model state.
-/
namespace Abyss
variable {α : Type}

/-- the slots lie one after the other from `a` to `b`, each of positive size -/
def Tiled : List (Nat × Slot α) → Nat → Nat → Prop
  | [], a, b => a = b
  | (o, s) :: rest, a, b => o = a ∧ 0 < s.size ∧ Tiled rest (a + s.size) b

/-- sizes `roundup` can produce: a class size, or a multiple of 128 from 1024 upward -/
def LegalSz (c : FileCfg) (sz : Nat) : Prop := sz ∈ c.sizeAry ∨ (1024 ≤ sz ∧ 128 ∣ sz)

namespace RecFile

/-- used record at `o`: `(slot size, payload)` -/
def used (f : RecFile α) (o : Nat) : Option (Nat × α) :=
  match f.get o with
  | some (.used s p) => some (s, p)
  | _ => none

/-- free slot at `o`: `(slot size, next free)` -/
def freeAt (f : RecFile α) (o : Nat) : Option (Nat × Nat) :=
  match f.get o with
  | some (.free s n) => some (s, n)
  | _ => none

/-- the free list starting at `h` as the list of its offsets (`none`: it runs into something that
is not a free slot, or does not end within `fuel` steps) -/
def freeChain (f : RecFile α) : Nat → Nat → Option (List Nat)
  | 0, _ => none
  | fuel+1, h =>
    if h = 0 then some [] else
    match f.get h with
    | some (.free _ nx) => (freeChain f fuel nx).map (h :: ·)
    | _ => none

/-- the free list of class `i` -/
def freeList (f : RecFile α) (i : Nat) : Option (List Nat) :=
  freeChain f (f.slots.length + 1) (f.heads.getD i 0)

/-- well-formed record file: slots tile `[header, end)`, all sizes legal, the 16 free lists are
duplicate-free lists of free slots of their own class, and every free slot is on the list of
its class. -/
structure WF (c : FileCfg) (f : RecFile α) : Prop where
  tiled : Tiled f.slots c.headerSz f.end_
  heads_len : f.heads.length = 16
  sizes : ∀ o s, f.get o = some s → LegalSz c s.size
  lists : ∀ i, i < 16 → ∃ l, freeList f i = some l ∧ l.Nodup ∧
            ∀ o ∈ l, ∃ sz nx, f.get o = some (.free sz nx) ∧ headIdx c sz = i
  onlist : ∀ o sz nx, f.get o = some (.free sz nx) →
            ∃ l, freeList f (headIdx c sz) = some l ∧ o ∈ l

end RecFile

/-- the chain of key records starting at offset `cur`: `(offset, record)` in chain order -/
def chainFrom (kf : RecFile KeyRec) : Nat → Nat → Option (List (Nat × KeyRec))
  | 0, _ => none
  | fuel+1, cur =>
    if cur = 0 then some [] else
    match kf.get cur with
    | some (.used _ r) => (chainFrom kf fuel r.next).map ((cur, r) :: ·)
    | _ => none

namespace Store

/-- the chain of bucket `b` -/
def chain (s : Store) (b : Nat) : Option (List (Nat × KeyRec)) :=
  chainFrom s.kf (s.kf.slots.length + 1) (s.headOf b)

/-- keys a map of key type `kt` can hold: for `DbVu64` the canonical encoding of a `u64` -/
def KeyOK (kt : KeyType) (k : List Nat) : Prop :=
  kt = .vu64 → ∃ x, x < 2^64 ∧ k = Vu64.encode x

/-- the invariant of a map. `x` is the offset of a key record that is already unlinked from its
chain but not yet freed (only inside `del`); `x = 0` means there is none. -/
structure InvX (kt : KeyType) (s : Store) (x : Nat) : Prop where
  npos : 0 < s.n
  kwf : RecFile.WF keyCfg s.kf
  vwf : RecFile.WF valCfg s.vf
  heads_lt : ∀ b, s.n ≤ b → s.headOf b = 0
  bits_ok : ∀ b, s.bitOf b = decide (s.headOf b ≠ 0)
  /-- every bucket's chain is a duplicate-free list of used key records that hash to it -/
  chains : ∀ b, b < s.n → ∃ l, s.chain b = some l ∧ (l.map (·.1)).Nodup ∧
            ∀ p ∈ l, bucketOf p.2.key s.n = b ∧ p.1 ≠ x
  /-- every used key record (but `x`) is on the chain of its bucket -/
  on_chain : ∀ o sz r, s.kf.used o = some (sz, r) → o ≠ x →
            ∃ l, s.chain (bucketOf r.key s.n) = some l ∧ (o, r) ∈ l
  keys_ok : ∀ o sz r, s.kf.used o = some (sz, r) → KeyOK kt r.key
  /-- no key twice -/
  keys_inj : ∀ o o' sz sz' r r', s.kf.used o = some (sz, r) → s.kf.used o' = some (sz', r') →
            r.key = r'.key → o = o'
  /-- each key record owns exactly one used value record -/
  val_used : ∀ o sz r, s.kf.used o = some (sz, r) → ∃ vs v, s.vf.used r.valOff = some (vs, v)
  val_inj : ∀ o o' sz sz' r r', s.kf.used o = some (sz, r) → s.kf.used o' = some (sz', r') →
            r.valOff = r'.valOff → o = o'
  val_owned : ∀ vo vs v, s.vf.used vo = some (vs, v) → ∃ o sz r, s.kf.used o = some (sz, r) ∧ r.valOff = vo
  /-- the stored item count is the number of used key records -/
  count_ok : s.count = (s.kf.slots.filter fun p => match p.2 with | .used _ _ => true | _ => false).length

abbrev Inv (kt : KeyType) (s : Store) : Prop := InvX kt s 0

/-- abstraction: the entries of the map, in key-file order -/
def abs (s : Store) : Spec.Map :=
  s.kf.slots.filterMap fun p =>
    match p.2 with
    | .used _ r => (s.vf.used r.valOff).map fun sv => (r.key, sv.2)
    | .free _ _ => none

end Store

/-- no key twice -/
def Spec.NodupKeys (m : Spec.Map) : Prop := (m.map Prod.fst).Nodup

/-- two abstract maps with the same observable behaviour: both hold each key at most once and
they answer every lookup alike (hence they have the same length, `Spec.Equiv.len`). -/
def Spec.Equiv (m m' : Spec.Map) : Prop :=
  Spec.NodupKeys m ∧ Spec.NodupKeys m' ∧ ∀ k, Spec.get m k = Spec.get m' k

namespace Store

/-- some used key record holds key `k` and refers to the value record at `vo` -/
def HasKV (s : Store) (k : List Nat) (vo : Nat) : Prop :=
  ∃ o sz r, s.kf.used o = some (sz, r) ∧ r.key = k ∧ r.valOff = vo

/-- link segment: following `next` from `cur` through the used records `l` arrives at `tgt` -/
def segFrom (kf : RecFile KeyRec) : List (Nat × KeyRec) → Nat → Nat → Prop
  | [], cur, tgt => cur = tgt
  | (o, r) :: rest, cur, tgt =>
    cur = o ∧ o ≠ 0 ∧ (∃ sz, kf.used o = some (sz, r)) ∧ segFrom kf rest r.next tgt

/-- the state inside `relink_moved_key_piece`: everything of `InvX` holds except that the chain
of bucket `b` is cut in two: from the bucket, the records `l1` lead to the stale offset `old`
(which holds no used record any more), and the records `l2` (a proper chain) start at `new`.
Linking the end of `l1` (or the bucket) to `new` repairs it. -/
structure Broken (kt : KeyType) (s : Store) (x b old new : Nat) (l1 l2 : List (Nat × KeyRec)) : Prop where
  npos : 0 < s.n
  kwf : RecFile.WF keyCfg s.kf
  vwf : RecFile.WF valCfg s.vf
  heads_lt : ∀ b', s.n ≤ b' → s.headOf b' = 0
  bits_ok : ∀ b', s.bitOf b' = decide (s.headOf b' ≠ 0)
  b_lt : b < s.n
  chains_other : ∀ b', b' < s.n → b' ≠ b → ∃ l, s.chain b' = some l ∧ (l.map (·.1)).Nodup ∧
            ∀ p ∈ l, bucketOf p.2.key s.n = b' ∧ p.1 ≠ x
  seg : segFrom s.kf l1 (s.headOf b) old
  old_free : old ≠ 0 ∧ s.kf.used old = none
  x_used : x ≠ 0 → ∃ sz r, s.kf.used x = some (sz, r)
  tail : new ≠ 0 ∧ chainFrom s.kf (s.kf.slots.length + 1) new = some l2
  nodup : ((l1 ++ l2).map (·.1)).Nodup
  bucket : ∀ p ∈ l1 ++ l2, bucketOf p.2.key s.n = b ∧ p.1 ≠ x
  on_chain : ∀ o sz r, s.kf.used o = some (sz, r) → o ≠ x →
            if bucketOf r.key s.n = b then (o, r) ∈ l1 ++ l2
            else ∃ l, s.chain (bucketOf r.key s.n) = some l ∧ (o, r) ∈ l
  keys_ok : ∀ o sz r, s.kf.used o = some (sz, r) → KeyOK kt r.key
  keys_inj : ∀ o o' sz sz' r r', s.kf.used o = some (sz, r) → s.kf.used o' = some (sz', r') →
            r.key = r'.key → o = o'
  val_used : ∀ o sz r, s.kf.used o = some (sz, r) → ∃ vs v, s.vf.used r.valOff = some (vs, v)
  val_inj : ∀ o o' sz sz' r r', s.kf.used o = some (sz, r) → s.kf.used o' = some (sz', r') →
            r.valOff = r'.valOff → o = o'
  val_owned : ∀ vo vs v, s.vf.used vo = some (vs, v) → ∃ o sz r, s.kf.used o = some (sz, r) ∧ r.valOff = vo
  count_ok : s.count = (s.kf.slots.filter fun p => match p.2 with | .used _ _ => true | _ => false).length

end Store

/-- what a caller may pass for a map of key type `kt` -/
def Op.OK (kt : KeyType) : Op → Prop
  | .put k _ => Store.KeyOK kt k
  | .get k => Store.KeyOK kt k
  | .del k => Store.KeyOK kt k
  | .includes k => Store.KeyOK kt k
  | .len => True
  | .isEmpty => True

end Abyss
