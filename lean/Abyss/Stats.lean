import Abyss.Store
/-!
# `CheckFileDbMap` statistics calls
-/
namespace Abyss

/-- `touch_size` / `touch_length`: sorted vector of `(x, count)`. -/
def touch : List (Nat × Nat) → Nat → List (Nat × Nat)
  | [], x => [(x, 1)]
  | (a, c) :: rest, x =>
    if x = a then (a, c + 1) :: rest
    else if x < a then (x, 1) :: (a, c) :: rest
    else (a, c) :: touch rest x

namespace Store

def countFreeList {α : Type} (c : FileCfg) (f : RecFile α) : List Nat → Option (List (Nat × Nat))
  | [] => some []
  | sz :: rest =>
    match RecFile.countFree c f sz, countFreeList c f rest with
    | some k, some r => some ((sz, k) :: r)
    | _, _ => none

/-- `count_of_free_key_piece` -/
def countOfFreeKeyPiece (s : Store) : Option (List (Nat × Nat)) :=
  countFreeList keyCfg s.kf keyCfg.sizeAry
/-- `count_of_free_value_piece` -/
def countOfFreeValuePiece (s : Store) : Option (List (Nat × Nat)) :=
  countFreeList valCfg s.vf valCfg.sizeAry

def keyLenOf : Slot KeyRec → Nat
  | .used _ r => r.key.length
  | .free _ _ => 0
def valLenOf : Slot (List Nat) → Nat
  | .used _ v => v.length
  | .free _ _ => 0

/-- `key_piece_size_stats`: sizes of the slots whose length field is non-zero. -/
def keyPieceSizeStats (s : Store) : Option (List (Nat × Nat)) :=
  (RecFile.walk keyCfg s.kf).map fun l =>
    l.foldl (fun acc p => if keyLenOf p.2 ≠ 0 then touch acc p.2.size else acc) []
/-- `value_piece_size_stats` -/
def valuePieceSizeStats (s : Store) : Option (List (Nat × Nat)) :=
  (RecFile.walk valCfg s.vf).map fun l =>
    l.foldl (fun acc p => if valLenOf p.2 ≠ 0 then touch acc p.2.size else acc) []
/-- `key_length_stats` -/
def keyLengthStats (s : Store) : Option (List (Nat × Nat)) :=
  (RecFile.walk keyCfg s.kf).map fun l =>
    l.foldl (fun acc p => if keyLenOf p.2 ≠ 0 then touch acc (keyLenOf p.2) else acc) []
/-- `value_length_stats` -/
def valueLengthStats (s : Store) : Option (List (Nat × Nat)) :=
  (RecFile.walk valCfg s.vf).map fun l =>
    l.foldl (fun acc p => if valLenOf p.2 ≠ 0 then touch acc (valLenOf p.2) else acc) []
/-- `htx_filling_rate_per_mill` -/
def htxFillingRate (s : Store) : Nat × Nat :=
  let c := ((List.range s.n).filter fun i => s.headOf i ≠ 0).length
  (c, c * 1000 / s.n)

end Store
end Abyss
