import Abyss.Store
import Abyss.Spec
/-!
# Operations, `step` and `run` for the store and for the specification
-/
namespace Abyss

inductive Op where
  | put (k v : List Nat)
  | get (k : List Nat)
  | del (k : List Nat)
  | includes (k : List Nat)
  | len
  | isEmpty
  deriving Repr, DecidableEq

inductive Out where
  | unit
  | val (v : Option (List Nat))
  | bool (b : Bool)
  | nat (n : Nat)
  deriving Repr, DecidableEq

def Op.isUpdate : Op → Bool
  | .put _ _ => true
  | .del _ => true
  | _ => false

/-- one API call on the store; `none` = panic / hang / wrong read. -/
def Store.step (kt : KeyType) (s : Store) : Op → Option (Store × Out)
  | .put k v => (s.put kt k v).map fun s' => (s', .unit)
  | .get k => (s.get kt k).map fun r => (s, .val r)
  | .del k => (s.del kt k).map fun (s', r) => (s', .val r)
  | .includes k => (s.includes kt k).map fun b => (s, .bool b)
  | .len => some (s, .nat s.len)
  | .isEmpty => some (s, .bool (decide (s.len = 0)))

/-- run a history; `none` as soon as one call fails. -/
def Store.run (kt : KeyType) : Store → List Op → Option (Store × List Out)
  | s, [] => some (s, [])
  | s, op :: ops =>
    match s.step kt op with
    | none => none
    | some (s', o) =>
      match Store.run kt s' ops with
      | none => none
      | some (s'', os) => some (s'', o :: os)

namespace Spec
def step (m : Map) : Op → Map × Out
  | .put k v => (put m k v, .unit)
  | .get k => (m, .val (get m k))
  | .del k => (del m k, .val (get m k))
  | .includes k => (m, .bool (includes m k))
  | .len => (m, .nat (len m))
  | .isEmpty => (m, .bool (isEmpty m))

def run : Map → List Op → Map × List Out
  | m, [] => (m, [])
  | m, op :: ops =>
    let (m', o) := step m op
    let (m'', os) := run m' ops
    (m'', o :: os)
end Spec

end Abyss
