import Abyss.Store
/-!
# Bitmap scan (`next_key_piece_offset`) and the iterator state machine (`DbXxxIterMut`)
-/
namespace Abyss

/-- is bitmap byte `j` zero?  (`bit : bucket ↦ flag`) -/
def byteZero (bit : Nat → Bool) (j : Nat) : Bool :=
  (List.range 8).all fun b => !bit (8 * j + b)

/-- are the 8 bitmap bytes `j .. j+7` zero? (`read_u64_le() == 0`) -/
def wordZero (bit : Nat → Bool) (j : Nat) : Bool :=
  (List.range 8).all fun t => byteZero bit (j + t)

/-- `while byte_8 == 0 && idx + 8 < n { byte_8 = read_u64_le(); idx += 64; read_8 = true }`
returns `(idx, read_8)`. -/
def scanWords (bit : Nat → Bool) (n : Nat) : Nat → Nat → Bool → Bool → Nat × Bool
  | 0, idx, _, rd => (idx, rd)
  | fuel+1, idx, lastZero, rd =>
    if lastZero ∧ idx + 8 < n then
      scanWords bit n fuel (idx + 64) (wordZero bit (idx / 8)) true
    else (idx, rd)

/-- `while byte == 0 && idx < n { byte = read_u8(); idx += 8 }` -/
def scanBytes (bit : Nat → Bool) (n : Nat) : Nat → Nat → Bool → Nat
  | 0, idx, _ => idx
  | fuel+1, idx, lastZero =>
    if lastZero ∧ idx < n then scanBytes bit n fuel (idx + 8) (byteZero bit (idx / 8))
    else idx

/-- `while off == 0 && idx < n { off = read_u64_le(); idx += 1 }` -/
def scanBuckets (head : Nat → Nat) (n : Nat) : Nat → Nat → Nat → Nat × Nat
  | 0, idx, off => (idx, off)
  | fuel+1, idx, off =>
    if off = 0 ∧ idx < n then scanBuckets head n fuel (idx + 1) (head idx)
    else (idx, off)

/-- `next_key_piece_offset(buckets_size, idx)` → `(next idx, key offset)` -/
def nextKeyPieceOffset (bit : Nat → Bool) (head : Nat → Nat) (n idx : Nat) : Nat × Nat :=
  let idx1 :=
    if idx % 8 = 0 then
      let (i2, rd) := scanWords bit n (n + 1) idx true false
      let i3 := if rd then i2 - 64 else i2
      let i4 := scanBytes bit n (n + 1) i3 true
      i4 - 8
    else idx
  scanBuckets head n (n + 1) idx1 0

/-- iterator state of `DbXxxIterMut`. -/
structure IterState where
  remaining : Nat
  bucketsSize : Nat
  bucketsIdx : Nat
  keyOff : Nat
  deriving Repr

namespace Store

def iterNew (s : Store) : IterState := ⟨s.count, s.n, 0, 0⟩

/-- `while key_offset.is_zero() && buckets_idx < buckets_size { … next_key_piece_offset … }` -/
def advanceBuckets (s : Store) (n : Nat) : Nat → Nat → Nat → Nat × Nat
  | 0, idx, off => (idx, off)
  | fuel+1, idx, off =>
    if off = 0 ∧ idx < n then
      let (i', o') := nextKeyPieceOffset s.bitOf s.headOf n idx
      advanceBuckets s n fuel i' o'
    else (idx, off)

/-- `next_piece_offset()`: new state and the yielded key offset. -/
def iterNextOffset (s : Store) (it : IterState) : Option (IterState × Option Nat) :=
  let ko? : Option Nat :=
    if it.keyOff ≠ 0 then
      match s.kf.get it.keyOff with
      | some (.used _ r) => some r.next
      | _ => none
    else some it.keyOff
  match ko? with
  | none => none
  | some ko =>
    let (idx, ko2) :=
      if ko = 0 then advanceBuckets s it.bucketsSize (it.bucketsSize + 1) it.bucketsIdx ko
      else (it.bucketsIdx, ko)
    let it2 := { it with bucketsIdx := idx, keyOff := ko2 }
    if ko2 = 0 ∨ it.remaining = 0 then some (it2, none)
    else some ({ it2 with remaining := it.remaining - 1 }, some ko2)

/-- `Iterator::next()` of `DbXxxIterMut`: loads key and value of the yielded offset. -/
def iterNext (s : Store) (it : IterState) : Option (IterState × Option (List Nat × List Nat)) :=
  match s.iterNextOffset it with
  | none => none
  | some (it', none) => some (it', none)
  | some (it', some off) =>
    match s.kf.get off with
    | some (.used _ r) =>
      match s.loadValue off with
      | some v => some (it', some (r.key, v))
      | none => none
    | _ => none

/-- run the iterator to exhaustion: yielded items and the size hints seen before every call. -/
def iterCollect (s : Store) : Nat → IterState → Option (List (List Nat × List Nat) × List Nat × IterState)
  | 0, _ => none
  | fuel+1, it =>
    match s.iterNext it with
    | none => none
    | some (it', none) => some ([], [it.remaining], it')
    | some (it', some kv) =>
      match iterCollect s fuel it' with
      | none => none
      | some (kvs, hints, itEnd) => some (kv :: kvs, it.remaining :: hints, itEnd)

/-- the whole traversal (`iter()`, `iter_mut()`, `into_iter()`; `keys()`/`values()` map it). -/
def iterAll (s : Store) : Option (List (List Nat × List Nat) × List Nat × IterState) :=
  iterCollect s (s.count + 2) s.iterNew

end Store
end Abyss
