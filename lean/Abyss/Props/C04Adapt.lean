import Abyss.Lemmas.IterAdaptL
import Abyss.Props.C04Gen
import Abyss.Gen.FlushOps
/-!
# C04 for the iterator adaptors as translated; C15 for `read_fill_buffer`; `is_dirty`

`iter()`, `iter_mut()`, `into_iter()` (three flavours), `keys()`, `values()` of the public API reach `DbXxxIter`, `DbXxxIterMut`,
`DbXxxIntoIter`, `DbXxxKeys`, `DbXxxValues` (dbxxx.rs); all of it is regenerated on every run (`Gen.map…`, `Gen.iter<X>Next`,
`Gen.iter<X>SizeHint`).  Run on the bytes of a reachable map, each flavour yields exactly the items of the model's traversal
`Store.iterAll` (`keys()`: their first components, `values()`: their second components, in the same order), its `size_hint`
before every call is the model's hint `n` as `(n, Some(n))`, it ends in the model's final state, and the bytes are what they were
(`IsImage` preserved: C15 for iteration).  What `Store.iterAll` is — a permutation of the entries, each key once, `len` items —
is `C04_iter`.  Further: `Gen.readFillBuffer` (`read_fill_buffer`) succeeds and leaves every byte of the three files alone;
`Gen.mapIsDirty` / `Gen.apiIsDirty` (`is_dirty`) return the flag and change nothing.
-/
namespace Abyss
open Store

/-- run an iterator (`next`, `hint`: its `Iterator::next` and `size_hint` on the state tuple) to exhaustion: items, the size
hint before every call, final state — the fuel recursion of `genIterCollect` -/
def genCollectWith {α : Type} (next : Nat × Nat × Nat × Nat → DbM (Option α × (Nat × Nat × Nat × Nat)))
    (hint : Nat × Nat × Nat × Nat → Nat × Option Nat) : Nat → (Nat × Nat × Nat × Nat) → DbSt →
    Option (List α × List (Nat × Option Nat) × (Nat × Nat × Nat × Nat) × DbSt)
  | 0, _, _ => none
  | fuel+1, st, d =>
    match next st d with
    | none => none
    | some ((none, st'), d') => some ([], [hint st], st', d')
    | some ((some x, st'), d') =>
      match genCollectWith next hint fuel st' d' with
      | none => none
      | some (xs, hints, e, d'') => some (x :: xs, hint st :: hints, e, d'')

/-- `for kv in map.iter()` -/
def genIterCollectIter := genCollectWith Gen.iterIterNext Gen.iterIterSizeHint
/-- `for kv in map` (`into_iter()`) -/
def genIterCollectIntoIter := genCollectWith Gen.iterIntoIterNext Gen.iterIntoIterSizeHint
/-- `for k in map.keys()` -/
def genIterCollectKeys := genCollectWith Gen.iterKeysNext Gen.iterKeysSizeHint
/-- `for v in map.values()` -/
def genIterCollectValues := genCollectWith Gen.iterValuesNext Gen.iterValuesSizeHint
/-- `for kv in map.iter_mut()`: `genIterCollect` with the translated `size_hint` -/
def genIterCollectMut := genCollectWith Gen.iterNext Gen.iterSizeHint

/-- the size hint `(n, Some(n))` of an exact-size iterator with `n` items left -/
def exactHint (n : Nat) : Nat × Option Nat := (n, some n)

/-- an adaptor whose `next` is a projection `f` of `iterNext` and whose hint is the remaining count collects the
projection of what `genIterCollect` collects -/
theorem genCollectWith_proj {α : Type} (f : List Nat × List Nat → α)
    {next : Nat × Nat × Nat × Nat → DbM (Option α × (Nat × Nat × Nat × Nat))}
    {hint : Nat × Nat × Nat × Nat → Nat × Option Nat}
    (hnext : ∀ st, next st = Gen.iterNext st >>= fun p => pure (p.1.map f, p.2))
    (hhint : ∀ st, hint st = exactHint st.1) :
    ∀ (fuel : Nat) (st : Nat × Nat × Nat × Nat) (d : DbSt) {kvs hints e d'},
      genIterCollect fuel st d = some (kvs, hints, e, d') →
      genCollectWith next hint fuel st d = some (kvs.map f, hints.map exactHint, e, d') := by
  intro fuel
  induction fuel with
  | zero => intro st d kvs hints e d' h; simp [genIterCollect] at h
  | succ fuel ih =>
    intro st d kvs hints e d' h
    unfold genIterCollect at h
    unfold genCollectWith
    rw [hnext st, hhint st]
    cases hn : Gen.iterNext st d with
    | none => rw [hn] at h; simp at h
    | some q =>
      obtain ⟨⟨r, st'⟩, d1⟩ := q
      rw [hn] at h
      rw [DbM.bind_some hn]
      cases r with
      | none =>
        simp only [Option.some.injEq, Prod.mk.injEq] at h
        obtain ⟨rfl, rfl, rfl, rfl⟩ := h
        rfl
      | some kv =>
        simp only at h
        cases hr : genIterCollect fuel st' d1 with
        | none => rw [hr] at h; simp at h
        | some q2 =>
          obtain ⟨kvs', hints', e', d2⟩ := q2
          rw [hr] at h
          simp only [Option.some.injEq, Prod.mk.injEq] at h
          obtain ⟨rfl, rfl, rfl, rfl⟩ := h
          have := ih st' d1 hr
          simp only [DbM.pure_apply, Option.map]
          rw [this]
          rfl

section
variable {kvs : List (List Nat × List Nat)} {hints : List Nat} {e : Nat × Nat × Nat × Nat} {d d' : DbSt}
  (fuel : Nat) (st : Nat × Nat × Nat × Nat)

/-- `iter_mut()`: the translated iterator with its translated `size_hint` -/
theorem genIterCollectMut_eq (h : genIterCollect fuel st d = some (kvs, hints, e, d')) :
    genIterCollectMut fuel st d = some (kvs, hints.map exactHint, e, d') := by
  have := genCollectWith_proj id iterNext_proj_id iterSizeHint_eq fuel st d h
  rw [List.map_id] at this
  exact this

/-- `iter()` -/
theorem genIterCollectIter_eq (h : genIterCollect fuel st d = some (kvs, hints, e, d')) :
    genIterCollectIter fuel st d = some (kvs, hints.map exactHint, e, d') := by
  have := genCollectWith_proj id (fun st => (iterIterNext_eq st).trans (iterNext_proj_id st)) iterIterSizeHint_eq
    fuel st d h
  rw [List.map_id] at this
  exact this

/-- `into_iter()` -/
theorem genIterCollectIntoIter_eq (h : genIterCollect fuel st d = some (kvs, hints, e, d')) :
    genIterCollectIntoIter fuel st d = some (kvs, hints.map exactHint, e, d') := by
  have := genCollectWith_proj id (fun st => (iterIntoIterNext_eq st).trans (iterNext_proj_id st))
    iterIntoIterSizeHint_eq fuel st d h
  rw [List.map_id] at this
  exact this

/-- `keys()` -/
theorem genIterCollectKeys_eq (h : genIterCollect fuel st d = some (kvs, hints, e, d')) :
    genIterCollectKeys fuel st d = some (kvs.map Prod.fst, hints.map exactHint, e, d') :=
  genCollectWith_proj Prod.fst iterKeysNext_eq iterKeysSizeHint_eq fuel st d h

/-- `values()` -/
theorem genIterCollectValues_eq (h : genIterCollect fuel st d = some (kvs, hints, e, d')) :
    genIterCollectValues fuel st d = some (kvs.map Prod.snd, hints.map exactHint, e, d') :=
  genCollectWith_proj Prod.snd iterValuesNext_eq iterValuesSizeHint_eq fuel st d h

end

section
variable {kt : KeyType} {s : Store} (g : Store.Regular kt s) (hlen : Gen.htxInitLen s.n ≤ s.htxEnd)
  {kvs : List (List Nat × List Nat)} {hints : List Nat} {itEnd : IterState}
  (hm : s.iterAll = some (kvs, hints, itEnd)) {d : DbSt} (hd : d.IsImage kt s)
include g hlen hm hd

/-- the traversal with the translated iterator, from the image of a regular state (`C04_generated_iter`, with the image
after `new`) -/
theorem genIter_core :
    ∃ d0 d', Gen.iterNew d = some (s.iterNew.tup, d0) ∧ d0.IsImage kt s ∧
      genIterCollect (s.count + 2) s.iterNew.tup d0 = some (kvs, hints, itEnd.tup, d') ∧ d'.IsImage kt s := by
  obtain ⟨d0, hd0, h0⟩ := iterNew_bytes g hd
  obtain ⟨d', hd', h1⟩ := genIterCollect_refines g hlen (s.count + 2) s.iterNew rfl hm hd0
  exact ⟨d0, d', h0, hd0, h1, hd'⟩

/-- **C04 for `iter_mut()`** (`DbXxxIterMut` itself, with the translated `size_hint`): the items of the model's traversal,
the exact size hints, the bytes unchanged -/
theorem C04_generated_iter_mut :
    ∃ d0 d', Gen.mapIterMut d = some (s.iterNew.tup, d0) ∧ d0.IsImage kt s ∧
      genIterCollectMut (s.count + 2) s.iterNew.tup d0 = some (kvs, hints.map exactHint, itEnd.tup, d') ∧
      d'.IsImage kt s := by
  obtain ⟨d0, d', h0, hd0, h1, hd'⟩ := genIter_core g hlen hm hd
  exact ⟨d0, d', (congrFun mapIterMut_eq d).trans h0, hd0, genIterCollectMut_eq _ _ h1, hd'⟩

/-- … and `(&mut map).into_iter()` is the same iterator -/
theorem C04_generated_into_iter_mut :
    ∃ d0 d', Gen.mapIntoIterMut d = some (s.iterNew.tup, d0) ∧ d0.IsImage kt s ∧
      genIterCollectMut (s.count + 2) s.iterNew.tup d0 = some (kvs, hints.map exactHint, itEnd.tup, d') ∧
      d'.IsImage kt s := by
  obtain ⟨d0, d', h0, hd0, h1, hd'⟩ := genIter_core g hlen hm hd
  exact ⟨d0, d', (congrFun mapIntoIterMut_eq d).trans h0, hd0, genIterCollectMut_eq _ _ h1, hd'⟩

/-- **C04 for `iter()`** (`DbXxxIter`) -/
theorem C04_generated_iter_adaptor :
    ∃ d0 d', Gen.mapIter d = some (s.iterNew.tup, d0) ∧ d0.IsImage kt s ∧
      genIterCollectIter (s.count + 2) s.iterNew.tup d0 = some (kvs, hints.map exactHint, itEnd.tup, d') ∧
      d'.IsImage kt s := by
  obtain ⟨d0, d', h0, hd0, h1, hd'⟩ := genIter_core g hlen hm hd
  exact ⟨d0, d', (congrFun mapIter_eq d).trans h0, hd0, genIterCollectIter_eq _ _ h1, hd'⟩

/-- … and `(&map).into_iter()` is the same iterator -/
theorem C04_generated_into_iter_ref :
    ∃ d0 d', Gen.mapIntoIterRef d = some (s.iterNew.tup, d0) ∧ d0.IsImage kt s ∧
      genIterCollectIter (s.count + 2) s.iterNew.tup d0 = some (kvs, hints.map exactHint, itEnd.tup, d') ∧
      d'.IsImage kt s := by
  obtain ⟨d0, d', h0, hd0, h1, hd'⟩ := genIter_core g hlen hm hd
  exact ⟨d0, d', (congrFun mapIntoIterRef_eq d).trans h0, hd0, genIterCollectIter_eq _ _ h1, hd'⟩

/-- **C04 for `into_iter()`** (`DbXxxIntoIter`) -/
theorem C04_generated_into_iter :
    ∃ d0 d', Gen.mapIntoIter d = some (s.iterNew.tup, d0) ∧ d0.IsImage kt s ∧
      genIterCollectIntoIter (s.count + 2) s.iterNew.tup d0 = some (kvs, hints.map exactHint, itEnd.tup, d') ∧
      d'.IsImage kt s := by
  obtain ⟨d0, d', h0, hd0, h1, hd'⟩ := genIter_core g hlen hm hd
  exact ⟨d0, d', (congrFun mapIntoIter_eq d).trans h0, hd0, genIterCollectIntoIter_eq _ _ h1, hd'⟩

/-- **C04 for `keys()`** (`DbXxxKeys`): exactly the keys of the model's traversal, in its order -/
theorem C04_generated_keys :
    ∃ d0 d', Gen.mapKeys d = some (s.iterNew.tup, d0) ∧ d0.IsImage kt s ∧
      genIterCollectKeys (s.count + 2) s.iterNew.tup d0 =
        some (kvs.map Prod.fst, hints.map exactHint, itEnd.tup, d') ∧
      d'.IsImage kt s := by
  obtain ⟨d0, d', h0, hd0, h1, hd'⟩ := genIter_core g hlen hm hd
  exact ⟨d0, d', (congrFun mapKeys_eq d).trans h0, hd0, genIterCollectKeys_eq _ _ h1, hd'⟩

/-- **C04 for `values()`** (`DbXxxValues`): exactly the values of the model's traversal, in its order -/
theorem C04_generated_values :
    ∃ d0 d', Gen.mapValues d = some (s.iterNew.tup, d0) ∧ d0.IsImage kt s ∧
      genIterCollectValues (s.count + 2) s.iterNew.tup d0 =
        some (kvs.map Prod.snd, hints.map exactHint, itEnd.tup, d') ∧
      d'.IsImage kt s := by
  obtain ⟨d0, d', h0, hd0, h1, hd'⟩ := genIter_core g hlen hm hd
  exact ⟨d0, d', (congrFun mapValues_eq d).trans h0, hd0, genIterCollectValues_eq _ _ h1, hd'⟩

end

/-! ## `read_fill_buffer` (C15) and `is_dirty` -/

/-- `read_fill_buffer` on any three files: `Ok(())`, every byte of every file as before; the cursors are at the ends -/
theorem readFillBuffer_apply (d : DbSt) :
    Gen.readFillBuffer d = some ((), ⟨⟨d.htx.bytes, d.htx.bytes.length⟩, ⟨d.key.bytes, d.key.bytes.length⟩,
      ⟨d.val.bytes, d.val.bytes.length⟩⟩) := rfl

/-- **C15 for `read_fill_buffer`**: it succeeds, no byte of the three files changes, the image of a model state stays the
image of that state -/
theorem C15_generated_readFillBuffer {kt : KeyType} {s : Store} {d : DbSt} (hd : d.IsImage kt s) :
    ∃ d', Gen.readFillBuffer d = some ((), d') ∧ d'.htx.bytes = d.htx.bytes ∧ d'.key.bytes = d.key.bytes ∧
      d'.val.bytes = d.val.bytes ∧ d'.IsImage kt s :=
  ⟨_, readFillBuffer_apply d, rfl, rfl, rfl, hd⟩

/-- `is_dirty()` of the map returns the flag and changes nothing -/
theorem mapIsDirty_apply {β : Type} (m : MapSt β) (k : Nat) : Gen.mapIsDirty m k = (some m.dirty, m, k) := rfl

/-- `is_dirty()` of the handle (`FileDbMap<KT>`) returns the flag of the map behind it and changes nothing -/
theorem apiIsDirty_apply {β : Type} (m : MapSt β) (k : Nat) : Gen.apiIsDirty m k = (some m.dirty, m, k) := rfl

/-- … what `flush` / `sync_all` / `sync_data` test (`FlushM.isDirty`) -/
theorem mapIsDirty_eq {β : Type} : (Gen.mapIsDirty : FlushM β Bool) = FlushM.isDirty := rfl

end Abyss
