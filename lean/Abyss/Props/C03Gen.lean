import Abyss.Lemmas.FlushGenL
import Abyss.Props.C03Rb
/-!
# C03 / C16 for the code as translated: `flush` / `sync_all` / `sync_data` of a map

`Gen.mapFlush`, `Gen.mapSyncAll`, `Gen.mapSyncData` are regenerated from
`FileDbXxxInner::{flush, sync_all, sync_data}` (dbxxx.rs) on every run, together with the facts that
the dirty flag is `true` at open, raised by every `put_kt`, and by `del_kt` exactly when the key was
found (`dirty_flag_pins`). Instantiated with the chunk-level buffer model (`RaBuf.prims φ`: the
per-file `flush` / `sync` under a schedule of refused writes) they are `MapRb.flushLike`
(`mapFlush_eq_MapRb_flushLike`), so the map-level theorems hold for the translated code.
-/
namespace Abyss.RaBuf

/-- a call that returns `Ok` leaves the flag clear -/
theorem flushLike_ok_clean (φ : Faults) (m : MapRb) (k : Nat) (hok : (m.flushLike φ k).2.2 = true) :
    (m.flushLike φ k).1.dirty = false := by
  unfold MapRb.flushLike at hok ⊢
  by_cases d : m.dirty = true
  · simp only [d, Bool.not_true, Bool.false_eq_true, if_false] at hok ⊢
    by_cases ov : (flush φ m.val k).2.2 = true
    · simp only [ov, Bool.not_true, Bool.false_eq_true, if_false] at hok ⊢
      by_cases ok : (flush φ m.key (flush φ m.val k).2.1).2.2 = true
      · simp only [ok, Bool.not_true, Bool.false_eq_true, if_false] at hok ⊢
        by_cases oh : (flush φ m.htx (flush φ m.key (flush φ m.val k).2.1).2.1).2.2 = true
        · simp only [oh, Bool.not_true, Bool.false_eq_true, if_false]
        · simp [oh] at hok
      · simp [ok] at hok
    · simp [ov] at hok
  · have d' : m.dirty = false := by simpa using d
    simp only [d', Bool.not_false, if_true]

/-- **C03 for the translated flush / sync**: whenever the generated call returns `Ok` — under any
schedule of refused chunk writes — the three disk images are the three logical contents -/
theorem C03_generated_flush (φ : Faults) (m : MapRb) (k : Nat) (h : m.OK)
    (call : FlushM St Unit) (hcall : call = Gen.mapFlush (prims φ) ∨ call = Gen.mapSyncAll (prims φ) ∨
      call = Gen.mapSyncData (prims φ)) (hok : (call.run m.toSt k).2.2 = true) :
    let r := (call.run m.toSt k).1
    r.val.disk = m.val.logical ∧ r.key.disk = m.key.logical ∧ r.htx.disk = m.htx.logical ∧ r.dirty = false := by
  intro r
  have e : call.run m.toSt k = ((m.flushLike φ k).1.toSt, (m.flushLike φ k).2.1, (m.flushLike φ k).2.2) := by
    rcases hcall with rfl | rfl | rfl
    · exact mapFlush_eq_MapRb_flushLike φ m k
    · exact mapSyncAll_eq_MapRb_flushLike φ m k
    · exact mapSyncData_eq_MapRb_flushLike φ m k
  have hok' : (m.flushLike φ k).2.2 = true := by rw [e] at hok; exact hok
  obtain ⟨dv, dk, dh, hvw, hOK⟩ := C03_map_durable φ m k h hok'
  have hr : r = (m.flushLike φ k).1.toSt := by show (call.run m.toSt k).1 = _; rw [e]
  simp only [MapRb.view, Prod.mk.injEq] at hvw
  obtain ⟨e1, e2, e3⟩ := hvw
  unfold Durable at dv dk dh
  refine ⟨?_, ?_, ?_, ?_⟩
  · rw [hr]; show (m.flushLike φ k).1.val.disk = _; rw [dv, e1]
  · rw [hr]; show (m.flushLike φ k).1.key.disk = _; rw [dk, e2]
  · rw [hr]; show (m.flushLike φ k).1.htx.disk = _; rw [dh, e3]
  · rw [hr]; show (m.flushLike φ k).1.dirty = false
    exact flushLike_ok_clean φ m k hok'

/-- **C16 for the translated flush / sync**: whatever is refused, the generated call keeps the three
logical contents; if it fails the flag stays set; and the next call without refusals returns `Ok`
with all three files durable -/
theorem C16_generated_flush (φ : Faults) (m : MapRb) (k : Nat) (h : m.OK) :
    let r := (Gen.mapFlush (prims φ)).run m.toSt k
    (r.1.val.logical, r.1.key.logical, r.1.htx.logical) = m.view ∧
    (r.2.2 = false → r.1.dirty = true) ∧
    ∃ m1 : MapRb, r.1 = m1.toSt ∧ m1.OK ∧
      let r2 := (Gen.mapFlush (prims noFaults)).run m1.toSt r.2.1
      r2.2.2 = true ∧ r2.1.val.disk = m.val.logical ∧ r2.1.key.disk = m.key.logical ∧ r2.1.htx.disk = m.htx.logical := by
  intro r
  have e := mapFlush_eq_MapRb_flushLike φ m k
  obtain ⟨hOK, hview, hflag, hrec⟩ := C16_map_faults φ m k h
  have hr : r = ((m.flushLike φ k).1.toSt, (m.flushLike φ k).2.1, (m.flushLike φ k).2.2) := e
  refine ⟨?_, ?_, (m.flushLike φ k).1, ?_, hOK, ?_⟩
  · rw [hr]; exact hview
  · rw [hr]; exact hflag
  · rw [hr]
  · intro r2
    have e2 := mapFlush_eq_MapRb_flushLike noFaults (m.flushLike φ k).1 (m.flushLike φ k).2.1
    have hk : r.2.1 = (m.flushLike φ k).2.1 := by rw [hr]
    have hr2 : r2 = (((m.flushLike φ k).1.flushLike noFaults (m.flushLike φ k).2.1).1.toSt,
        ((m.flushLike φ k).1.flushLike noFaults (m.flushLike φ k).2.1).2.1,
        ((m.flushLike φ k).1.flushLike noFaults (m.flushLike φ k).2.1).2.2) := by
      show (Gen.mapFlush (prims noFaults)).run (m.flushLike φ k).1.toSt r.2.1 = _
      rw [hk]; exact e2
    obtain ⟨ok2, dv, dk, dh, hv2⟩ := hrec
    simp only [MapRb.view, Prod.mk.injEq] at hv2
    obtain ⟨e1, e2', e3⟩ := hv2
    unfold Durable at dv dk dh
    rw [hr2]
    refine ⟨ok2, ?_, ?_, ?_⟩
    · show ((m.flushLike φ k).1.flushLike noFaults (m.flushLike φ k).2.1).1.val.disk = _; rw [dv, e1]
    · show ((m.flushLike φ k).1.flushLike noFaults (m.flushLike φ k).2.1).1.key.disk = _; rw [dk, e2']
    · show ((m.flushLike φ k).1.flushLike noFaults (m.flushLike φ k).2.1).1.htx.disk = _; rw [dh, e3]

end Abyss.RaBuf
