import Abyss.Props.C02
import Abyss.Check
import Abyss.Lemmas.CheckL
/-!
# C05 — the on-disk files always decode to a consistent structure
-/
namespace Abyss
open Store

/-- after any history the invariant holds: chains acyclic and placed by hash, no key twice,
count = number of key records, bitmap consistent, every key record owns one in-bounds value
record, both files tiled with legal slots and well-formed free lists (`InvX`, `RecFile.WF`) -/
theorem C05_reachable (kt : KeyType) (n : Nat) (hn : 0 < n) (ops : List Op)
    (hops : ∀ op ∈ ops, Op.OK kt op) :
    ∀ s' outs, (Store.init n).run kt ops = some (s', outs) → Inv kt s' := by
  intro s' outs hrun
  obtain ⟨s'', h1, h2⟩ := C01_history kt n hn ops hops
  rw [h1] at hrun
  cases hrun
  exact h2

/-- the statement's conjunction, spelled out from the invariant -/
theorem C05_structure {kt : KeyType} {s : Store} (h : Inv kt s) :
    -- each bucket's chain is acyclic and holds only keys that hash to that bucket
    (∀ b, b < s.n → ∃ l, s.chain b = some l ∧ (l.map (·.1)).Nodup ∧ ∀ p ∈ l, bucketOf p.2.key s.n = b) ∧
    -- no key appears twice
    (∀ o o' sz sz' r r', s.kf.used o = some (sz, r) → s.kf.used o' = some (sz', r') → r.key = r'.key → o = o') ∧
    -- the stored count is the number of key records, all of which are reachable
    (s.count = Spec.len (abs s)) ∧
    (∀ o sz r, s.kf.used o = some (sz, r) → ∃ l, s.chain (bucketOf r.key s.n) = some l ∧ (o, r) ∈ l) ∧
    -- every non-empty bucket is flagged in the bitmap (and only those)
    (∀ b, s.bitOf b = decide (s.headOf b ≠ 0)) ∧
    -- every key record refers to its own in-bounds value record
    (∀ o sz r, s.kf.used o = some (sz, r) → ∃ vs v, s.vf.used r.valOff = some (vs, v) ∧ r.valOff + vs ≤ s.vf.end_) ∧
    (∀ o o' sz sz' r r', s.kf.used o = some (sz, r) → s.kf.used o' = some (sz', r') → r.valOff = r'.valOff → o = o') := by
  refine ⟨?_, h.keys_inj, (abs_len h).symm, ?_, h.bits_ok, ?_, h.val_inj⟩
  · intro b hb
    obtain ⟨l, hl, hn, hp⟩ := h.chains b hb
    exact ⟨l, hl, hn, fun p hm => (hp p hm).1⟩
  · intro o sz r hu
    exact h.on_chain o sz r hu (used_ne_zero h hu)
  · intro o sz r hu
    obtain ⟨vs, v, hv⟩ := h.val_used o sz r hu
    have := (RecFile.WF.get_bounds valCfg_ok h.vwf (get_of_used _ _ _ _ hv)).2.1
    exact ⟨vs, v, hv, this⟩

/-- consequently an independent reader of the format recovers exactly the map's contents -/
theorem C05_reader {kt : KeyType} {s : Store} (h : Inv kt s) (hr : Renderable kt s) :
    ∃ t, parse kt (render kt s) = some t ∧ t.Same s ∧ abs t = abs s := by
  obtain ⟨t, h1, h2⟩ := parse_render h hr
  refine ⟨t, h1, h2, ?_⟩
  obtain ⟨_, _, _, hk, hv, _, _⟩ := h2
  simp [Store.abs, hk, hv]

/-- soundness of the executable checker that the correspondence runs apply to the Lean reader's
output on the implementation's real files: if it reports nothing, the invariant holds -/
theorem C05_checkInv_sound (kt : KeyType) (s : Store) (h : s.checkInv kt = none) : Inv kt s :=
  Store.checkInv_sound kt s h

end Abyss
