import Abyss.Lemmas.BoundStore
import Abyss.Props.C06
/-!
# C06, last clause — "file sizes stay bounded for any workload whose live set stays bounded"

For every history, every slot size — small classes *and* the sizes on the shared first-fit
large list — occurs at most as often as the largest number of entries the map held at any point
of the history (`Spec.peak`). The file length is the header plus the slot sizes, hence bounded by
`header + peak × (sum of the distinct slot sizes that occur)`: it depends on the live set and on
which sizes the workload uses, not on the number of operations.
-/
namespace Abyss
open Store RecFile

/-- the largest number of entries the ideal map holds along a history (start included) -/
def Spec.peak (m : Spec.Map) : List Op → Nat
  | [] => Spec.len m
  | op :: ops => max (Spec.len m) (Spec.peak (Spec.step m op).1 ops)

theorem C06_bounded_by_live_set_from {kt : KeyType} (ops : List Op) :
    ∀ {s : Store} (_ : Inv kt s) (_ : ∀ op ∈ ops, Op.OK kt op) (m : Spec.Map) (_ : Spec.Equiv (abs s) m)
      (s' : Store) (outs : List Out), s.run kt ops = some (s', outs) → ∀ sz,
      slotsOfSize s'.kf sz ≤ max (slotsOfSize s.kf sz) (Spec.peak m ops) ∧
      slotsOfSize s'.vf sz ≤ max (slotsOfSize s.vf sz) (Spec.peak m ops) := by
  induction ops with
  | nil =>
    intro s _ _ m _ s' outs hr sz
    simp only [Store.run, Option.some.injEq, Prod.mk.injEq] at hr
    obtain ⟨e, _⟩ := hr
    subst e
    exact ⟨Nat.le_max_left _ _, Nat.le_max_left _ _⟩
  | cons op ops ih =>
    intro s h hops m hm s' outs hr sz
    have hop := hops op List.mem_cons_self
    obtain ⟨s1, h1, hi1, _, he1⟩ := step_refines h op hop
    obtain ⟨_, hst⟩ := Spec.Equiv.step hm op
    have he1' : Spec.Equiv (abs s1) (Spec.step m op).1 := Spec.Equiv.trans he1 hst
    simp only [Store.run, h1] at hr
    split at hr
    · cases hr
    · next s2 os hr2 =>
      cases hr
      have e1 : ∀ {α : Type} (g : RecFile α) z, slotsOfSize g z = sizeCount g z := fun _ _ => rfl
      obtain ⟨ik, iv⟩ := ih hi1 (fun o ho => hops o (List.mem_cons_of_mem _ ho)) (Spec.step m op).1 he1'
        s' os hr2 sz
      obtain ⟨ck, cv⟩ := step_census h hi1 hop h1 sz
      have c0 : s.count = Spec.len m := by
        rw [← abs_length h]; exact Spec.Equiv.len hm
      have c1 : s1.count = Spec.len (Spec.step m op).1 := by
        rw [← abs_length hi1]; exact Spec.Equiv.len he1'
      have p1 : Spec.len (Spec.step m op).1 ≤ Spec.peak (Spec.step m op).1 ops := by
        cases ops with
        | nil => exact Nat.le_refl _
        | cons _ _ => exact Nat.le_max_left _ _
      simp only [e1] at ik iv ⊢
      simp only [Spec.peak]
      rw [c0, c1] at ck cv
      omega

/-- from the empty map: no slot size ever occurs more often than the peak number of entries -/
theorem C06_bounded_by_live_set (kt : KeyType) (n : Nat) (hn : 0 < n) (ops : List Op)
    (hops : ∀ op ∈ ops, Op.OK kt op) (s' : Store) (outs : List Out)
    (hr : (Store.init n).run kt ops = some (s', outs)) (sz : Nat) :
    slotsOfSize s'.kf sz ≤ Spec.peak [] ops ∧ slotsOfSize s'.vf sz ≤ Spec.peak [] ops := by
  obtain ⟨hinv, habs⟩ := init_inv kt n hn
  have he : Spec.Equiv (abs (Store.init n)) [] := by
    rw [habs]; exact Spec.Equiv.refl _ Spec.nodup_empty
  obtain ⟨a, b⟩ := C06_bounded_by_live_set_from ops hinv hops [] he s' outs hr sz
  have z1 : slotsOfSize (Store.init n).kf sz = 0 := rfl
  have z2 : slotsOfSize (Store.init n).vf sz = 0 := rfl
  rw [z1] at a
  rw [z2] at b
  omega

/-- and the file lengths: header + peak × (sum of the distinct slot sizes present) -/
theorem C06_file_length_bounded (kt : KeyType) (n : Nat) (hn : 0 < n) (ops : List Op)
    (hops : ∀ op ∈ ops, Op.OK kt op) (s' : Store) (outs : List Out)
    (hr : (Store.init n).run kt ops = some (s', outs))
    (ksizes vsizes : List Nat) (hkn : ksizes.Nodup) (hvn : vsizes.Nodup)
    (hks : ∀ p ∈ s'.kf.slots, p.2.size ∈ ksizes) (hvs : ∀ p ∈ s'.vf.slots, p.2.size ∈ vsizes) :
    s'.kf.end_ ≤ keyCfg.headerSz + Spec.peak [] ops * ksizes.sum ∧
    s'.vf.end_ ≤ valCfg.headerSz + Spec.peak [] ops * vsizes.sum := by
  have hi := C05_reachable kt n hn ops hops s' outs hr
  have e1 : ∀ {α : Type} (g : RecFile α) z, slotsOfSize g z = sizeCount g z := fun _ _ => rfl
  constructor
  · apply WF.end_le hi.kwf ksizes hkn hks
    intro sz _
    rw [← e1]
    exact (C06_bounded_by_live_set kt n hn ops hops s' outs hr sz).1
  · apply WF.end_le hi.vwf vsizes hvn hvs
    intro sz _
    rw [← e1]
    exact (C06_bounded_by_live_set kt n hn ops hops s' outs hr sz).2

/-- the peak is attained by a bounded live set: if no prefix of the history leaves more than `P`
entries in the ideal map, the peak is at most `P` -/
theorem Spec.peak_le (m : Spec.Map) (ops : List Op) (P : Nat)
    (h : ∀ pre, pre <+: ops → Spec.len (Spec.run m pre).1 ≤ P) : Spec.peak m ops ≤ P := by
  induction ops generalizing m with
  | nil => exact h [] (List.prefix_refl _)
  | cons op ops ih =>
    simp only [Spec.peak]
    apply Nat.max_le.mpr
    constructor
    · exact h [] (List.nil_prefix)
    · apply ih
      intro pre hpre
      have := h (op :: pre) (by simpa using hpre)
      simpa [Spec.run] using this

/-- non-vacuity / a concrete cyclic workload: 3 puts, then delete-and-reinsert: the peak is 3 -/
example : Spec.peak [] [.put [1] [1], .put [2] [2], .put [3] [3], .del [1], .put [4] [4], .del [2], .put [5] [5]] = 3 := by
  decide

end Abyss
