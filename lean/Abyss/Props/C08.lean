import Abyss.Props.C01
/-!
# C08 — internal record relocation and chain relinking are invisible

Corollaries of `put_spec` / `del_spec`, which cover every position of the key in its chain and
every relocation case (value record moves; key record moves too; predecessor moves during delete;
cascades toward the bucket). Offsets are unbounded naturals in the model, so every encoding-width
boundary (2^7, 2^14 = 16 KiB, 2^21 = 2 MiB, …) is covered at once.
-/
namespace Abyss
open Store

/-- overwrite / insert: never fails, the key then has exactly the new value, every other key keeps
its value -/
theorem C08_update_local {kt : KeyType} {s : Store} (h : Inv kt s) (k v : List Nat) (hk : KeyOK kt k) :
    ∃ s', s.put kt k v = some s' ∧ Inv kt s' ∧ s'.get kt k = some (some v) ∧
      ∀ k', KeyOK kt k' → k' ≠ k → s'.get kt k' = s.get kt k' := by
  obtain ⟨s', h1, h2, _, h4⟩ := put_spec h k v hk
  refine ⟨s', h1, h2, ?_, ?_⟩
  · rw [get_spec h2 k hk, h4.2.2 k, Spec.get_put_self]
  · intro k' hk' hne
    rw [get_spec h2 k' hk', get_spec h k' hk', h4.2.2 k', Spec.get_put_ne _ _ _ _ hne]

/-- delete: never fails, returns the value the key had, the key is then absent, every other key
keeps its value -/
theorem C08_delete_local {kt : KeyType} {s : Store} (h : Inv kt s) (k : List Nat) (hk : KeyOK kt k) :
    ∃ s' r, s.del kt k = some (s', r) ∧ s.get kt k = some r ∧ Inv kt s' ∧ s'.get kt k = some none ∧
      ∀ k', KeyOK kt k' → k' ≠ k → s'.get kt k' = s.get kt k' := by
  obtain ⟨s', h1, h2, _, h4⟩ := del_spec h k hk
  refine ⟨s', _, h1, get_spec h k hk, h2, ?_, ?_⟩
  · rw [get_spec h2 k hk, h4.2.2 k, Spec.get_del_self]
  · intro k' hk' hne
    rw [get_spec h2 k' hk', get_spec h k' hk', h4.2.2 k', Spec.get_del_ne _ _ _ hne]

/-- a small state with large offsets: one bucket, three colliding 18-byte keys whose value records
lie below 16 KiB, the value file end above (a 16 KiB slot holding a short value). Overwriting the
middle key's value with a longer one moves the value record past 16 KiB, so the key record no
longer fits its 16-byte slot and moves as well; the chain is relinked. -/
def c08Witness : Option Store := do
  let k1 := List.replicate 18 1
  let k2 := List.replicate 18 2
  let k3 := List.replicate 18 3
  let s ← (Store.init 1).put .bytes k1 [1]
  let s ← s.put .bytes k2 [2]
  let s ← s.put .bytes k3 [3]
  -- blow the value file up beyond 16 KiB with one slot (legal size, short payload)
  let vf := s.vf.set s.vf.end_ (.used 16384 [])
  let vf := RecFile.pushFree valCfg vf (s.vf.end_) 16384
  pure { s with vf := vf }

/-- non-vacuity: on that state the overwrite of the middle key relocates its key record (its
offset changes) and everything stays consistent -/
example : (c08Witness.bind fun s => (s.put .bytes (List.replicate 18 2) (List.replicate 40 9)).map fun s' =>
      (decide (s.find .bytes (List.replicate 18 2) ≠ s'.find .bytes (List.replicate 18 2)),
       s'.get .bytes (List.replicate 18 1), s'.get .bytes (List.replicate 18 2) == some (some (List.replicate 40 9)),
       s'.get .bytes (List.replicate 18 3), s'.count)) =
    some (true, some (some [1]), true, some (some [3]), 3) := by
  rfl

end Abyss
