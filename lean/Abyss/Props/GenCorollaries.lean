import Abyss.Props.C01Gen
import Abyss.Props.C02
import Abyss.Lemmas.OpenBytes
import Abyss.Lemmas.EngineStats
import Abyss.Props.C04Gen
import Abyss.Props.C13
/-!
# Properties of the translated code, end to end

Corollaries of the refinement theorems (`Props/C01Gen`, `Lemmas/OpenBytes`, `EngineIter`,
`EngineStats`): statements about what the functions *generated from the Rust source* do to the
bytes of the three files of a map — from three empty files onward.
-/
namespace Abyss
open Store

/-- a fresh map is in the regular regime -/
theorem init_regular (kt : KeyType) (n : Nat) (hn : 0 < n) (hn2 : n < 2^60) : Store.Regular kt (Store.init n) := by
  have hk : (Store.init n).kf.end_ < 2^32 := by
    show keyCfg.headerSz < 2^32
    decide
  have hv : (Store.init n).vf.end_ < 2^32 := by
    show valCfg.headerSz < 2^32
    decide
  exact ⟨(init_inv kt n hn).1, init_sized n, hk, hv, hn2⟩

/-- **C01, from an empty directory**: create the map with the translated `open_with_params`, then run
any history with the translated engine: never fails, answers like the ideal map, and leaves the
rendered image of a model state that satisfies the invariant -/
theorem C01_generated_from_empty (kt : KeyType) (p : Gen.HashBucketsParam) (n : Nat) (hp : Gen.bucketsOf p = some n)
    (hn : 0 < n) (hn2 : n < 2^60) (ops : List Op) (hops : ∀ op ∈ ops, Op.OK kt op ∧ op.Small)
    (hfs : FilesSmall kt (Store.init n) ops) :
    ∃ d0 d' s', Gen.openMap kt.sig p ⟨⟨[], 0⟩, ⟨[], 0⟩, ⟨[], 0⟩⟩ = some (n, d0) ∧
      genRun kt n d0 ops = some ((Spec.run [] ops).2, d') ∧
      (Store.init n).run kt ops = some (s', (Spec.run [] ops).2) ∧ d'.IsImage kt s' ∧ Store.Regular kt s' := by
  obtain ⟨d0, ho, hi⟩ := openMap_create kt p n hp hn hn2 0 0 0
  have g0 : Store.Regular kt (Store.init n) := init_regular kt n hn hn2
  obtain ⟨s', outs, d', hr, hg, hi', g'⟩ := genRun_refines ops g0 hops hfs hi
  obtain ⟨s'', h1, _⟩ := C01_history kt n hn ops (fun op h => (hops op h).1)
  rw [hr] at h1
  simp only [Option.some.injEq, Prod.mk.injEq] at h1
  obtain ⟨_, ho2⟩ := h1
  subst ho2
  exact ⟨d0, d', s', ho, hg, hr, hi', g'⟩

/-- running a concatenated history factors through the intermediate state -/
theorem Store.run_append_of {kt : KeyType} (a b : List Op) : ∀ {s s1 t : Store} {o1 o2 : List Out},
    s.run kt a = some (s1, o1) → s1.run kt b = some (t, o2) → s.run kt (a ++ b) = some (t, o1 ++ o2) := by
  induction a with
  | nil =>
    intro s s1 t o1 o2 h1 h2
    simp only [Store.run, Option.some.injEq, Prod.mk.injEq] at h1
    obtain ⟨rfl, rfl⟩ := h1
    simpa using h2
  | cons op a ih =>
    intro s s1 t o1 o2 h1 h2
    simp only [Store.run] at h1
    cases hs : s.step kt op with
    | none => simp only [hs] at h1; cases h1
    | some r =>
      obtain ⟨s', o⟩ := r
      simp only [hs] at h1
      cases hr : Store.run kt s' a with
      | none => simp only [hr] at h1; cases h1
      | some r2 =>
        obtain ⟨s'', os⟩ := r2
        simp only [hr, Option.some.injEq, Prod.mk.injEq] at h1
        obtain ⟨rfl, rfl⟩ := h1
        have h3 := ih hr h2
        simp only [List.cons_append, Store.run, hs, h3]

/-- the fresh map against the empty ideal map: the model run, with everything `run_refines` gives -/
theorem init_run_refines (kt : KeyType) (n : Nat) (hn : 0 < n) (ops : List Op) (hops : ∀ op ∈ ops, Op.OK kt op) :
    ∃ s', (Store.init n).run kt ops = some (s', (Spec.run [] ops).2) ∧ Inv kt s' ∧ s'.n = n ∧
      Spec.Equiv (abs s') (Spec.run [] ops).1 := by
  obtain ⟨hinv0, habs0⟩ := init_inv kt n hn
  have he : Spec.Equiv (abs (Store.init n)) Spec.empty := by
    rw [habs0]; exact Spec.Equiv.refl _ Spec.nodup_empty
  obtain ⟨s1, h1, hinv1, hn1, he1⟩ := run_refines ops hinv0 hops Spec.empty he
  exact ⟨s1, h1, hinv1, hn1, he1⟩

/-- the bytes of an image decode to a state with the invariant and the same contents -/
theorem parse_image {kt : KeyType} {s : Store} (g : Store.Regular kt s) {d : DbSt} (hd : d.IsImage kt s) :
    ∃ t, parse kt ⟨d.htx.bytes, d.key.bytes, d.val.bytes⟩ = some t ∧ Inv kt t ∧ abs t = abs s := by
  have hr : Renderable kt s := renderable_of_sized g.inv g.sized g.kend g.vend g.n_lt
  obtain ⟨t, hp, hsame⟩ := parse_render g.inv hr
  have hinvt : Inv kt t := inv_of_same g.inv hsame
  have habs : abs t = abs s := by
    obtain ⟨_, _, _, hk', hv', _, _⟩ := hsame
    simp [Store.abs, hk', hv']
  obtain ⟨h1, h2, h3⟩ := hd
  have himg : (⟨d.htx.bytes, d.key.bytes, d.val.bytes⟩ : Image) = render kt s := by
    rw [h1, h2, h3]
  rw [himg]
  exact ⟨t, hp, hinvt, habs⟩

/-- **C05 for the translated code**: the bytes left by any history decode (independent reader) to a
state that satisfies the structural invariant and has the contents of the model state -/
theorem C05_generated_structure (kt : KeyType) (n : Nat) (hn : 0 < n) (hn2 : n < 2^60) (ops : List Op)
    (hops : ∀ op ∈ ops, Op.OK kt op ∧ op.Small) (hfs : FilesSmall kt (Store.init n) ops) :
    ∃ d' t, genRun kt n (imageSt kt (Store.init n) 0 0 0) ops = some ((Spec.run [] ops).2, d') ∧
      parse kt ⟨d'.htx.bytes, d'.key.bytes, d'.val.bytes⟩ = some t ∧ Inv kt t ∧
      Spec.Equiv (abs t) (Spec.run [] ops).1 := by
  have g0 : Store.Regular kt (Store.init n) := init_regular kt n hn hn2
  have hd0 : (imageSt kt (Store.init n) 0 0 0).IsImage kt (Store.init n) := ⟨rfl, rfl, rfl⟩
  obtain ⟨s', outs, d', hrun, hgen, hd', g'⟩ := genRun_refines ops g0 hops hfs hd0
  obtain ⟨s2, h2, _, _, he2⟩ := init_run_refines kt n hn ops (fun o ho => (hops o ho).1)
  rw [hrun] at h2
  simp only [Option.some.injEq, Prod.mk.injEq] at h2
  obtain ⟨rfl, rfl⟩ := h2
  obtain ⟨t, hp, hinvt, habs⟩ := parse_image g' hd'
  refine ⟨d', t, hgen, hp, hinvt, ?_⟩
  rw [habs]
  exact he2

/-- **C02 for the translated code**: after any history, reopening the files with the translated
`open_with_params` — with any parameters — succeeds, changes no byte and reports the stored table
size; the engine then continues exactly as if the map had never been closed -/
theorem C02_generated_reopen (kt : KeyType) (n : Nat) (hn : 0 < n) (hn2 : n < 2^60) (ops more : List Op)
    (hops : ∀ op ∈ ops ++ more, Op.OK kt op ∧ op.Small) (hfs : FilesSmall kt (Store.init n) (ops ++ more))
    (p : Gen.HashBucketsParam) :
    ∃ d1 d2 d3, genRun kt n (imageSt kt (Store.init n) 0 0 0) ops = some ((Spec.run [] ops).2, d1) ∧
      Gen.openMap kt.sig p d1 = some (n, d2) ∧
      d2.htx.bytes = d1.htx.bytes ∧ d2.key.bytes = d1.key.bytes ∧ d2.val.bytes = d1.val.bytes ∧
      genRun kt n d2 more = some ((Spec.run (Spec.run [] ops).1 more).2, d3) := by
  have g0 : Store.Regular kt (Store.init n) := init_regular kt n hn hn2
  have hd0 : (imageSt kt (Store.init n) 0 0 0).IsImage kt (Store.init n) := ⟨rfl, rfl, rfl⟩
  have hops1 : ∀ op ∈ ops, Op.OK kt op ∧ op.Small := fun o ho => hops o (List.mem_append_left _ ho)
  have hops2 : ∀ op ∈ more, Op.OK kt op ∧ op.Small := fun o ho => hops o (List.mem_append_right _ ho)
  have hfs1 : FilesSmall kt (Store.init n) ops := by
    intro pre hpre t outs hr
    exact hfs pre (List.IsPrefix.trans hpre (List.prefix_append _ _)) t outs hr
  obtain ⟨s1, outs, d1, hrun, hgen, hd1, g1⟩ := genRun_refines ops g0 hops1 hfs1 hd0
  obtain ⟨s2, h2, hinv1, hn1, he1⟩ := init_run_refines kt n hn ops (fun o ho => (hops1 o ho).1)
  rw [hrun] at h2
  simp only [Option.some.injEq, Prod.mk.injEq] at h2
  obtain ⟨rfl, rfl⟩ := h2
  obtain ⟨d2, ho, hd2⟩ := openMap_reopen g1 p hd1
  rw [hn1] at ho
  have hfs2 : FilesSmall kt s1 more := by
    intro pre hpre t outs hr
    refine hfs (ops ++ pre) ?_ t _ (Store.run_append_of ops pre hrun hr)
    obtain ⟨r, rfl⟩ := hpre
    exact ⟨r, by simp⟩
  obtain ⟨s3, outs3, d3, hrun3, hgen3, _, _⟩ := genRun_refines more g1 hops2 hfs2 hd2
  obtain ⟨s4, h4, _, _, _⟩ := run_refines more hinv1 (fun o ho => (hops2 o ho).1) _ he1
  rw [hrun3] at h4
  simp only [Option.some.injEq, Prod.mk.injEq] at h4
  obtain ⟨_, rfl⟩ := h4
  rw [hn1] at hgen3
  exact ⟨d1, d2, d3, hgen, ho, hd2.1.trans hd1.1.symm, hd2.2.1.trans hd1.2.1.symm,
    hd2.2.2.trans hd1.2.2.symm, hgen3⟩

/-- **C15 for the translated code**: `get`, `includes_key`, `len` and the statistics calls leave all
three files byte for byte as they were (the traversal: `C04_generated_iter`; whole sessions:
`C15_generated_session`) -/
theorem C15_generated_readonly {kt : KeyType} {s : Store} (g : Store.Regular kt s)
    (hlen : Gen.htxInitLen s.n ≤ s.htxEnd) (k : List Nat) (hk : KeyOK kt k) {d : DbSt} (hd : d.IsImage kt s) :
    (∃ r d', Gen.getKt s.n (cmpOf kt) (hashValue k) k d = some (r, d') ∧ d'.IsImage kt s) ∧
    (∃ r d', Gen.includesKeyKt s.n (cmpOf kt) (hashValue k) k d = some (r, d') ∧ d'.IsImage kt s) ∧
    (∃ r d', Gen.lenKt d = some (r, d') ∧ d'.IsImage kt s) ∧
    (∃ r d', Gen.keyPieceSizeStats d = some (r, d') ∧ d'.IsImage kt s) ∧
    (∃ r d', Gen.countOfFreeValuePiece valCfg d = some (r, d') ∧ d'.IsImage kt s) ∧
    (∃ r d', Gen.htxFillingRatePerMill s.n d = some (r, d') ∧ d'.IsImage kt s) := by
  obtain ⟨r1, d1, _, i1, e1⟩ := get_bytes g k hk hd
  obtain ⟨r2, d2, _, i2, e2⟩ := includes_bytes g k hk hd
  obtain ⟨d3, i3, e3⟩ := len_bytes g hd
  obtain ⟨⟨r4, d4, _, i4, e4⟩, _, _, _⟩ := sizeStats_bytes g hd
  obtain ⟨_, ⟨r5, d5, _, i5, e5⟩⟩ := freeCounts_bytes g hd
  obtain ⟨d6, i6, e6⟩ := fillingRate_bytes g hd
  have _ := hlen
  exact ⟨⟨r1, d1, e1, i1⟩, ⟨r2, d2, e2, i2⟩, ⟨_, d3, e3, i3⟩, ⟨r4, d4, e4, i4⟩, ⟨r5, d5, e5, i5⟩, ⟨_, d6, e6, i6⟩⟩

/-! ## C13 for the translated `open_with_params` -/

/-- non-empty rendered files -/
theorem render_nonempty (kt : KeyType) (s : Store) :
    (render kt s).key ≠ [] ∧ (render kt s).val ≠ [] ∧ (render kt s).htx ≠ [] := by
  refine ⟨?_, ?_, ?_⟩ <;> intro h
  · revert h; cases kt <;> simp [render, renderKeyFile, renderRecHeader, keyCfg, Gen.keySig1]
  · revert h; cases kt <;> simp [render, renderValFile, renderRecHeader, valCfg, Gen.valSig1]
  · revert h; simp [render, renderHtxFile, Gen.htxSig1]

/-- **C13 for the translated code**: files written for key type `a` are refused when opened as a
different key type `b` (except the known collision u64 / vu64) — the translated `open_with_params`
fails (`assert!`), whatever the parameters -/
theorem C13_generated_wrong_type (a b : KeyType) (hab : a ≠ b)
    (hcol : ¬ ((a = .u64 ∧ b = .vu64) ∨ (a = .vu64 ∧ b = .u64))) (s : Store) (p : Gen.HashBucketsParam)
    (ph pk pv : Nat) :
    Gen.openMap b.sig p ⟨⟨(render a s).htx, ph⟩, ⟨(render a s).key, pk⟩, ⟨(render a s).val, pv⟩⟩ = none := by
  obtain ⟨hk, hv, hh⟩ := render_nonempty a s
  exact (openMap_existing b (render a s) hk hv hh p ph pk pv).2 (C13_wrong_type_partial a b hab hcol s)

/-- any change of any of the 16 signature bytes of any of the three files is refused by the
translated code -/
theorem C13_generated_mutation (a : KeyType) (s : Store) (f : WhichFile) (pos b : Nat) (hpos : pos < 16)
    (hb : b ≠ (match f with
                | .htx => (render a s).htx
                | .key => (render a s).key
                | .val => (render a s).val).getD pos 0)
    (p : Gen.HashBucketsParam) (ph pk pv : Nat) :
    let img := (render a s).mutate f pos b
    Gen.openMap a.sig p ⟨⟨img.htx, ph⟩, ⟨img.key, pk⟩, ⟨img.val, pv⟩⟩ = none := by
  intro img
  obtain ⟨hk, hv, hh⟩ := render_nonempty a s
  have hne : img.key ≠ [] ∧ img.val ≠ [] ∧ img.htx ≠ [] := by
    refine ⟨?_, ?_, ?_⟩ <;> cases f <;> simp [img, Image.mutate, mutateByte, hk, hv, hh]
  exact (openMap_existing a img hne.1 hne.2.1 hne.2.2 p ph pk pv).2 (C13_mutation a s f pos b hpos hb)

/-- the known finding at the level of the translated code: files of a `u64`-keyed map open as a
`vu64`-keyed map -/
theorem C13_generated_collision (s : Store) (hn : 0 < s.n) (hn2 : s.n < 2^64) (p : Gen.HashBucketsParam) (ph pk pv : Nat) :
    ∃ r, Gen.openMap KeyType.vu64.sig p ⟨⟨(render .u64 s).htx, ph⟩, ⟨(render .u64 s).key, pk⟩, ⟨(render .u64 s).val, pv⟩⟩ = some r := by
  obtain ⟨hk, hv, hh⟩ := render_nonempty .u64 s
  have hacc : openAccepts .vu64 (render .u64 s) = true := by
    have := C13_own_type .u64 s hn hn2
    simpa [openAccepts, recHeaderAccepts, htxHeaderAccepts, C13_collision] using this
  obtain ⟨a, b, c, h⟩ := (openMap_existing .vu64 (render .u64 s) hk hv hh p ph pk pv).1 hacc
  exact ⟨_, h⟩

end Abyss
