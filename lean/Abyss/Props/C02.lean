import Abyss.Lemmas.ParseRecL
import Abyss.Lemmas.ParseHtxL
import Abyss.Props.C01
import Abyss.Lemmas.SizedL
/-!
# C02 — clean close and reopen preserves the exact map contents (model level)

Closing writes the image `render s` (every dirty buffer chunk is written when the buffered files are
dropped: `Buf.drop_flushes_all`, C03); reopening reads the files back.  The model of "reopen" is
the independent reader `parse`; creation parameters do not occur in it at all (the bucket count is
read from the header).
-/
namespace Abyss
open Store

/-- **parse ∘ render**: an independent reader that knows only the documented layout recovers the
state from the three files (up to the listing order of the sparse bucket table) -/
theorem parse_render {kt : KeyType} {s : Store} (h : Inv kt s) (hr : Renderable kt s) :
    ∃ t, parse kt (render kt s) = some t ∧ t.Same s := by
  obtain ⟨heads, bits, hp, hh, hb⟩ := parseHtx_render kt s hr.sig_len hr.n_lt hr.count_lt hr.heads_lt
    h.heads_lt hr.htx_len hr.bits_in
  have hk := parseRecFile_key kt.sig hr.sig_len s.kf h.kwf hr.kf_heads hr.kslots
  have hv := parseRecFile_val kt.sig hr.sig_len s.vf h.vwf hr.vf_heads hr.vslots
  refine ⟨{ n := s.n, heads := heads, bits := bits, htxEnd := s.htxEnd, count := s.count, kf := s.kf, vf := s.vf }, ?_, ?_⟩
  · simp only [parse, render, hp, hk, hv]
  · exact ⟨rfl, rfl, rfl, rfl, rfl, hh, hb⟩

/-- **C02 (model level).** After any history of small operations on a fresh map, while the files
stay below 4 GiB: the files written at close (`render`) are read back by the reader to a state
that satisfies the invariant and on which EVERY further history gives exactly the answers the
original state gives — whatever creation parameters are passed at reopen (the reader has none).
Close/reopen can therefore be interleaved with updates any number of times. -/
theorem C02_reopen (kt : KeyType) (n : Nat) (hn : 0 < n) (hn2 : n < 2^60) (ops : List Op)
    (hops : ∀ op ∈ ops, Op.OK kt op ∧ op.Small) (s : Store) (outs : List Out)
    (hrun : (Store.init n).run kt ops = some (s, outs)) (hk : s.kf.end_ < 2^32) (hv : s.vf.end_ < 2^32)
    (more : List Op) (hmore : ∀ op ∈ more, Op.OK kt op) :
    ∃ t, parse kt (render kt s) = some t ∧ Inv kt t ∧ abs t = abs s ∧
      ∃ s' t' outs', s.run kt more = some (s', outs') ∧ t.run kt more = some (t', outs') := by
  have hops1 : ∀ op ∈ ops, Op.OK kt op := fun op h => (hops op h).1
  obtain ⟨hinv0, habs0⟩ := init_inv kt n hn
  have he : Spec.Equiv (abs (Store.init n)) Spec.empty := by
    rw [habs0]; exact Spec.Equiv.refl _ Spec.nodup_empty
  obtain ⟨s1, h1, hinv1, hn1, _⟩ := run_refines ops hinv0 hops1 Spec.empty he
  rw [hrun] at h1
  simp only [Option.some.injEq, Prod.mk.injEq] at h1
  obtain ⟨hs1, _⟩ := h1
  subst hs1
  have hinv : Inv kt s := hinv1
  have hsn : s.n = n := hn1
  have hsz : s.Sized := run_sized ops hinv0 (init_sized n) hops outs hrun
  have hr : Renderable kt s := renderable_of_sized hinv hsz hk hv (by rw [hsn]; exact hn2)
  obtain ⟨t, hp, hsame⟩ := parse_render hinv hr
  have hinvt : Inv kt t := inv_of_same hinv hsame
  have habs : abs t = abs s := by
    obtain ⟨_, _, _, hk', hv', _, _⟩ := hsame
    simp [Store.abs, hk', hv']
  have hnd := abs_nodup hinv
  obtain ⟨s', hs', _, _, _⟩ := run_refines more hinv hmore (abs s) (Spec.Equiv.refl _ hnd)
  obtain ⟨t', ht', _, _, _⟩ := run_refines more hinvt hmore (abs s)
    (by rw [habs]; exact Spec.Equiv.refl _ hnd)
  exact ⟨t, hp, hinvt, habs, s', t', _, hs', ht'⟩

end Abyss
