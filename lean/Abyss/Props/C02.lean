import Abyss.Lemmas.ParseRecL
import Abyss.Lemmas.ParseHtxL
import Abyss.Props.C01
/-!
# C02 — clean close and reopen preserves the exact map contents (model level)

Closing writes the image `render s` (every dirty buffer chunk is written when the buffered files are
dropped: `Buf.drop_flushes_all`, C03); reopening reads the files back.  The model of "reopen" is
the independent reader `parse`; creation parameters do not occur in it at all (the bucket count is
read from the header).
-/
namespace Abyss
open Store

/-- **parse ∘ render**: an independent reader that knows only the documented layout recovers the
state from the three files (up to the listing order of the sparse bucket table) -/
theorem parse_render {kt : KeyType} {s : Store} (h : Inv kt s) (hr : Renderable kt s) :
    ∃ t, parse kt (render kt s) = some t ∧ t.Same s := by
  obtain ⟨heads, bits, hp, hh, hb⟩ := parseHtx_render kt s hr.sig_len hr.n_lt hr.count_lt hr.heads_lt
    h.heads_lt hr.htx_len hr.bits_in
  have hk := parseRecFile_key kt.sig hr.sig_len s.kf h.kwf hr.kf_heads hr.kslots
  have hv := parseRecFile_val kt.sig hr.sig_len s.vf h.vwf hr.vf_heads hr.vslots
  refine ⟨{ n := s.n, heads := heads, bits := bits, htxEnd := s.htxEnd, count := s.count, kf := s.kf, vf := s.vf }, ?_, ?_⟩
  · simp only [parse, render, hp, hk, hv]
  · exact ⟨rfl, rfl, rfl, rfl, rfl, hh, hb⟩

end Abyss
