import Abyss.Lemmas.EngineUpd
/-!
# C01 for the code as translated: the generated engine behaves like the ideal map

`Gen.putKt`, `getKt`, `delKt`, `includesKeyKt`, `lenKt` are regenerated from `dbxxx.rs` (and, below
them, `htx.rs`, `key.rs`, `val.rs`, `piece.rs`, `vfile.rs`) on every run. For every history of small
operations on admissible keys, as long as the two record files stay below 4 GiB, running the
*generated* functions on the bytes of a freshly created map never fails, returns exactly what the
ideal map returns, and leaves exactly the rendered image of the hand model's state — so the hand
model is no longer an independent description that is merely compared with the code: for these
functions it is a proof device between the translated code and the specification.
-/
namespace Abyss
open Store

/-- one API call on the bytes, through the generated engine -/
def genStep (kt : KeyType) (n : Nat) (d : DbSt) : Op → Option (Out × DbSt)
  | .put k v => (Gen.putKt keyCfg valCfg n (cmpOf kt) (hashValue k) k v d).map fun r => (.unit, r.2)
  | .get k => (Gen.getKt n (cmpOf kt) (hashValue k) k d).map fun r => (.val r.1, r.2)
  | .del k => (Gen.delKt keyCfg valCfg n (cmpOf kt) (hashValue k) k d).map fun r => (.val r.1, r.2)
  | .includes k => (Gen.includesKeyKt n (cmpOf kt) (hashValue k) k d).map fun r => (.bool r.1, r.2)
  | .len => (Gen.lenKt d).map fun r => (.nat r.1, r.2)
  | .isEmpty => (Gen.lenKt d).map fun r => (.bool (decide (r.1 = 0)), r.2)

def genRun (kt : KeyType) (n : Nat) : DbSt → List Op → Option (List Out × DbSt)
  | d, [] => some ([], d)
  | d, op :: ops =>
    match genStep kt n d op with
    | none => none
    | some (o, d') =>
      match genRun kt n d' ops with
      | none => none
      | some (os, d'') => some (o :: os, d'')

/-- the files of every model state along the history stay below 4 GiB -/
def FilesSmall (kt : KeyType) (s : Store) (ops : List Op) : Prop :=
  ∀ pre, pre <+: ops → ∀ t outs, s.run kt pre = some (t, outs) → t.kf.end_ < 2^32 ∧ t.vf.end_ < 2^32

/-- one call -/
theorem genStep_refines {kt : KeyType} {s : Store} (g : Store.Regular kt s) (op : Op) (hop : Op.OK kt op)
    (hsm : op.Small) {s' : Store} {o : Out} (hs : s.step kt op = some (s', o))
    (hke : s'.kf.end_ < 2^32) (hve : s'.vf.end_ < 2^32) {d : DbSt} (hd : d.IsImage kt s) :
    ∃ d', genStep kt s.n d op = some (o, d') ∧ d'.IsImage kt s' ∧ Store.Regular kt s' := by
  obtain ⟨s1, h1, hi1, hn1, _⟩ := step_refines g.inv op hop
  have hs1 : s1 = s' := by
    rw [hs] at h1
    simp only [Option.some.injEq, Prod.mk.injEq] at h1
    exact h1.1.symm
  subst hs1
  have hsz := step_sized g.inv g.sized op hop hsm o hs
  have hg : Store.Regular kt s1 := ⟨hi1, hsz, hke, hve, by rw [hn1]; exact g.n_lt⟩
  cases op with
  | put k v =>
    simp only [Store.step, Option.map_eq_some_iff, Prod.mk.injEq] at hs
    obtain ⟨s2, h2, rfl, rfl⟩ := hs
    obtain ⟨d', hd', hgen⟩ := put_bytes g k v hop hsm.1 hsm.2 h2 hke hve hd
    exact ⟨d', by simp only [genStep, hgen, Option.map_some], hd', hg⟩
  | get k =>
    simp only [Store.step, Option.map_eq_some_iff, Prod.mk.injEq] at hs
    obtain ⟨r, h2, rfl, rfl⟩ := hs
    obtain ⟨r', d', hr', hd', hgen⟩ := get_bytes g k hop hd
    rw [h2] at hr'
    cases hr'
    exact ⟨d', by simp only [genStep, hgen, Option.map_some], hd', hg⟩
  | del k =>
    simp only [Store.step, Option.map_eq_some_iff, Prod.mk.injEq] at hs
    obtain ⟨⟨s2, r⟩, h2, rfl, rfl⟩ := hs
    obtain ⟨d', hd', hgen⟩ := del_bytes g k hop hsm h2 hke hve hd
    exact ⟨d', by simp only [genStep, hgen, Option.map_some], hd', hg⟩
  | includes k =>
    simp only [Store.step, Option.map_eq_some_iff, Prod.mk.injEq] at hs
    obtain ⟨r, h2, rfl, rfl⟩ := hs
    obtain ⟨r', d', hr', hd', hgen⟩ := includes_bytes g k hop hd
    rw [h2] at hr'
    cases hr'
    exact ⟨d', by simp only [genStep, hgen, Option.map_some], hd', hg⟩
  | len =>
    simp only [Store.step, Option.some.injEq, Prod.mk.injEq] at hs
    obtain ⟨rfl, rfl⟩ := hs
    obtain ⟨d', hd', hgen⟩ := len_bytes g hd
    exact ⟨d', by simp only [genStep, hgen, Option.map_some], hd', hg⟩
  | isEmpty =>
    simp only [Store.step, Option.some.injEq, Prod.mk.injEq] at hs
    obtain ⟨rfl, rfl⟩ := hs
    obtain ⟨d', hd', hgen⟩ := len_bytes g hd
    exact ⟨d', by simp only [genStep, hgen, Option.map_some], hd', hg⟩

/-- a whole history from any state in the regular regime -/
theorem genRun_refines {kt : KeyType} (ops : List Op) : ∀ {s : Store} (_ : Store.Regular kt s)
    (_ : ∀ op ∈ ops, Op.OK kt op ∧ op.Small) (_ : FilesSmall kt s ops) {d : DbSt} (_ : d.IsImage kt s),
    ∃ s' outs d', s.run kt ops = some (s', outs) ∧ genRun kt s.n d ops = some (outs, d') ∧
      d'.IsImage kt s' ∧ Store.Regular kt s' := by
  induction ops with
  | nil =>
    intro s g _ _ d hd
    exact ⟨s, [], d, rfl, rfl, hd, g⟩
  | cons op ops ih =>
    intro s g hops hfs d hd
    have hop := hops op List.mem_cons_self
    obtain ⟨s1, h1, _, hn1, _⟩ := step_refines g.inv op hop.1
    have hr1 : s.run kt [op] = some (s1, [(Spec.step (abs s) op).2]) := by
      simp only [Store.run, h1]
    obtain ⟨hke, hve⟩ := hfs [op] (by simp) _ _ hr1
    obtain ⟨d1, hg1, hd1, g1⟩ := genStep_refines g op hop.1 hop.2 h1 hke hve hd
    have hfs1 : FilesSmall kt s1 ops := by
      intro pre hpre t outs hrun
      refine hfs (op :: pre) ?_ t ((Spec.step (abs s) op).2 :: outs) ?_
      · obtain ⟨r, rfl⟩ := hpre
        exact ⟨r, by simp⟩
      · simp only [Store.run, h1, hrun]
    obtain ⟨s', outs, d', hrun, hgen, hd', g'⟩ :=
      ih g1 (fun o ho => hops o (List.mem_cons_of_mem _ ho)) hfs1 hd1
    rw [hn1] at hgen
    exact ⟨s', (Spec.step (abs s) op).2 :: outs, d', by simp only [Store.run, h1, hrun],
      by simp only [genRun, hg1, hgen], hd', g'⟩

/-- **C01 for the translated code.** -/
theorem C01_generated_engine (kt : KeyType) (n : Nat) (hn : 0 < n) (hn2 : n < 2^60) (ops : List Op)
    (hops : ∀ op ∈ ops, Op.OK kt op ∧ op.Small) (hfs : FilesSmall kt (Store.init n) ops) :
    ∃ d', genRun kt n (imageSt kt (Store.init n) 0 0 0) ops = some ((Spec.run [] ops).2, d') ∧
      ∃ s', (Store.init n).run kt ops = some (s', (Spec.run [] ops).2) ∧ d'.IsImage kt s' := by
  obtain ⟨hinv, _⟩ := init_inv kt n hn
  have hk : (Store.init n).kf.end_ < 2^32 := by
    show keyCfg.headerSz < 2^32
    decide
  have hv : (Store.init n).vf.end_ < 2^32 := by
    show valCfg.headerSz < 2^32
    decide
  have g : Store.Regular kt (Store.init n) := ⟨hinv, init_sized n, hk, hv, hn2⟩
  have hd : (imageSt kt (Store.init n) 0 0 0).IsImage kt (Store.init n) := ⟨rfl, rfl, rfl⟩
  obtain ⟨s', outs, d', hrun, hgen, hd', _⟩ := genRun_refines ops g hops hfs hd
  obtain ⟨s2, h2, _⟩ := C01_history kt n hn ops (fun o ho => (hops o ho).1)
  have he : outs = (Spec.run [] ops).2 := by
    rw [hrun] at h2
    simp only [Option.some.injEq, Prod.mk.injEq] at h2
    exact h2.2
  subst he
  exact ⟨d', hgen, s', hrun, hd'⟩

end Abyss
