import Abyss.Props.GenCorollaries2
/-!
# C15 for the generated engine, whole sessions

A read-only session of any length (`get`, `includes_key`, `len`, `is_empty`, in any order, on present and
absent keys), run through the functions generated from the source on the bytes of the three files of any
state in the regular regime, never fails, returns what the ideal map returns, and leaves all three files
byte for byte as they were.  (Single statistics calls and the traversal: `C15_generated_readonly`,
`C17_generated_stats_of_image`, `C04_generated_iter`.)
-/
namespace Abyss
open Store

/-- read-only histories keep the files small: the state never changes -/
theorem FilesSmall.of_readonly {kt : KeyType} {s : Store} (g : Store.Regular kt s) (ops : List Op)
    (hro : ∀ op ∈ ops, op.isUpdate = false) : FilesSmall kt s ops := by
  intro pre hpre t outs hr
  have hro' : ∀ op ∈ pre, op.isUpdate = false := fun op ho => hro op (hpre.subset ho)
  obtain ⟨e, _⟩ := C15_session kt pre hro' s t outs hr
  subst e
  exact ⟨g.kend, g.vend⟩

/-- **C15, sessions, for the translated code.** -/
theorem C15_generated_session {kt : KeyType} {s : Store} (g : Store.Regular kt s) (ops : List Op)
    (hops : ∀ op ∈ ops, Op.OK kt op ∧ op.Small) (hro : ∀ op ∈ ops, op.isUpdate = false)
    {d : DbSt} (hd : d.IsImage kt s) :
    ∃ outs d', genRun kt s.n d ops = some (outs, d') ∧ s.run kt ops = some (s, outs) ∧
      d'.htx.bytes = d.htx.bytes ∧ d'.key.bytes = d.key.bytes ∧ d'.val.bytes = d.val.bytes := by
  obtain ⟨s', outs, d', hrun, hgen, hd', _⟩ := genRun_refines ops g hops (FilesSmall.of_readonly g ops hro) hd
  obtain ⟨e, _⟩ := C15_session kt ops hro s s' outs hrun
  subst e
  exact ⟨outs, d', hgen, hrun, hd'.1.trans hd.1.symm, hd'.2.1.trans hd.2.1.symm, hd'.2.2.trans hd.2.2.symm⟩

/-- after any history from a freshly created map (budget below 4 GiB), any read-only session changes no byte -/
theorem C15_generated_session_after (kt : KeyType) (n : Nat) (hn : 0 < n) (hn2 : n < 2^60) (ops ro : List Op)
    (hops : ∀ op ∈ ops, Op.OK kt op ∧ op.Small) (hfs : FilesSmall kt (Store.init n) ops)
    (hro1 : ∀ op ∈ ro, Op.OK kt op ∧ op.Small) (hro : ∀ op ∈ ro, op.isUpdate = false) :
    ∃ d1 outs d2, genRun kt n (imageSt kt (Store.init n) 0 0 0) ops = some ((Spec.run [] ops).2, d1) ∧
      genRun kt n d1 ro = some (outs, d2) ∧
      d2.htx.bytes = d1.htx.bytes ∧ d2.key.bytes = d1.key.bytes ∧ d2.val.bytes = d1.val.bytes := by
  obtain ⟨s', d1, _, hgen, hd1, g1, hn1, _⟩ := genRun_from_init kt n hn hn2 ops hops hfs
  obtain ⟨outs, d2, hg2, _, h1, h2, h3⟩ := C15_generated_session g1 ro hro1 hro hd1
  rw [hn1] at hg2
  exact ⟨d1, outs, d2, hgen, hg2, h1, h2, h3⟩

end Abyss
