import Abyss.Props.C01
/-!
# C07 — tuning parameters never change observable behaviour

Bucket count: the answers of every history equal those of the ideal map, which has no bucket
count — so any two table sizes give the same answers.  Parameters at reopen: the reader `parse`
(Props/C02) takes no parameters at all; the bucket count comes from the header.  Buffer sizes do
not occur in `Store`; the buffer model (Props/C03, `read_after_write`, `read_pure`,
`C16_memory_intact`) shows reads see exactly what was written whatever is cached or flushed.
-/
namespace Abyss
open Store

/-- the same history gives the same answers under any two table sizes -/
theorem C07_bucket_independent (kt : KeyType) (n m : Nat) (hn : 0 < n) (hm : 0 < m) (ops : List Op)
    (hops : ∀ op ∈ ops, Op.OK kt op) :
    ∃ s1 s2 outs, (Store.init n).run kt ops = some (s1, outs) ∧ (Store.init m).run kt ops = some (s2, outs) := by
  obtain ⟨s1, h1, _⟩ := C01_history kt n hn ops hops
  obtain ⟨s2, h2, _⟩ := C01_history kt m hm ops hops
  exact ⟨s1, s2, _, h1, h2⟩

/-- `u64::next_power_of_two` as modelled is a positive power of two not below its argument -/
theorem nextPowerOfTwo_spec (x : Nat) :
    0 < Gen.nextPowerOfTwo x ∧ x ≤ Gen.nextPowerOfTwo x ∧ ∃ k, Gen.nextPowerOfTwo x = 2 ^ k := by
  unfold Gen.nextPowerOfTwo
  split
  · exact ⟨by omega, by omega, 0, rfl⟩
  · have := @Nat.lt_log2_self (x - 1)
    exact ⟨Nat.pow_pos (by omega), by omega, _, rfl⟩

/-- every accepted bucket parameter yields a positive power-of-two table size — a single bucket
upward —, and the only refused one is `Capacity(0)` (the documented, tested panic) -/
theorem C07_bucketsOf (p : Gen.HashBucketsParam) :
    (p = .capacity 0 ∧ Gen.bucketsOf p = none) ∨
    (∃ n, Gen.bucketsOf p = some n ∧ 0 < n ∧ ∃ k, n = 2 ^ k) := by
  cases p with
  | bucketsSize x =>
    right
    obtain ⟨h1, _, h3⟩ := nextPowerOfTwo_spec x
    exact ⟨_, rfl, h1, h3⟩
  | capacity x =>
    by_cases h0 : x = 0
    · left; subst h0; exact ⟨rfl, rfl⟩
    · right
      by_cases h8 : x < 8
      · exact ⟨8, by simp [Gen.bucketsOf, Gen.capacityToBucketsSize, h0, h8], by omega, 3, rfl⟩
      · obtain ⟨h1, _, h3⟩ := nextPowerOfTwo_spec (x + x / 8)
        exact ⟨_, by simp [Gen.bucketsOf, Gen.capacityToBucketsSize, h0, h8], h1, h3⟩
  | default =>
    right
    exact ⟨_, rfl, by decide, 24, by decide⟩

/-- the created table file has room for the header, `n` entries and the bitmap -/
theorem C07_htxInitLen (n : Nat) : Gen.htxInitLen n = Gen.htxHeaderSz + 8 * n + n / 8 := by
  simp [Gen.htxInitLen]; omega

end Abyss
