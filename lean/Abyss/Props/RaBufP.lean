import Abyss.Lemmas.RaBufOps
/-!
# Properties of the `rabuf` model (the dependency behind C03 / C07 / C16)

The model `Abyss.RaBuf` is hand-written from rabuf 0.1.20 and tied to the real crate by the
differential scenario `rabuf` (same operation sequences on `RaBuf<File>` and on the model, results
and on-disk bytes compared after every call). What is proved here, for every chunk size, capacity
and history:

* **buffer transparency (C07)** — a buffered file behaves like a flat byte array: every history of
  seek / write / read / flush gives the results the flat file gives, whatever the chunk size and
  the capacity — including capacities that force eviction on every other access;
* **durability (C03)** — a flush that returns `Ok` leaves the disk equal to the logical content;
* **refused writes (C16)** — a flush under any fault schedule keeps the logical content intact,
  returns `Ok` only if no attempted write was refused, and a later flush without refusals makes
  the disk equal to it;
* **the non-termination behind the known finding `C07:permille-hang`** — with a fixed capacity of
  one chunk, or with `PerMille(p)`, `p < 1000`, 128 KiB chunks and a file in the window, a second
  chunk can never be fetched once the offset-0 chunk is resident; and the configurations the crate
  produces for `Size(n)` (after the fix D5), `PerMille(p ≥ 1000)` and `Auto` never hang.
-/
namespace Abyss.RaBuf

inductive FOp where
  | seek (p : Nat)
  | seekEnd
  | write (bs : List Nat)
  | read (n : Nat)
  | flush
  deriving DecidableEq, Repr

/-- the flat file: the specification -/
def Flat.step (f : Flat) : FOp → Flat × List Nat
  | .seek p => (⟨f.bytes ++ zeros (p - f.bytes.length), p⟩, [])
  | .seekEnd => (⟨f.bytes, f.bytes.length⟩, [])
  | .write bs => (⟨splice f.bytes f.pos bs, f.pos + bs.length⟩, [])
  | .read n => (⟨f.bytes, f.pos + n⟩, (f.bytes.drop f.pos).take n)
  | .flush => (f, [])

/-- reads stay below the end (the crate never reads past the end of a healthy file) -/
def Flat.okOp (f : Flat) : FOp → Prop
  | .read n => f.pos + n ≤ f.bytes.length
  | _ => True

def Flat.run : Flat → List FOp → Flat × List (List Nat)
  | f, [] => (f, [])
  | f, op :: ops =>
    let r := f.step op
    let rest := Flat.run r.1 ops
    (rest.1, r.2 :: rest.2)

def Flat.okRun : Flat → List FOp → Prop
  | _, [] => True
  | f, op :: ops => f.okOp op ∧ Flat.okRun (f.step op).1 ops

/-- the buffered file -/
def stepF (φ : Faults) (s : St) (k : Nat) : FOp → Out (List Nat)
  | .seek p => .ok (seekStart s p) k []
  | .seekEnd => .ok (seekEnd0 s) k []
  | .write bs => (writeAll φ s k bs).bind fun s k _ => .ok s k []
  | .read n => readExact φ s k n
  | .flush => if (flush φ s k).2.2 then .ok (flush φ s k).1 (flush φ s k).2.1 [] else .err (flush φ s k).1 (flush φ s k).2.1

def runF (φ : Faults) : St → Nat → List FOp → Out (List (List Nat))
  | s, k, [] => .ok s k []
  | s, k, op :: ops =>
    (stepF φ s k op).bind fun s' k' o => (runF φ s' k' ops).bind fun s'' k'' os => .ok s'' k'' (o :: os)

theorem abs_of_same {s s' : St} (h : Same s s') : abs s' = abs s := by
  simp only [abs, h.logical, h.pos]

/-- one call refines the flat file -/
theorem stepF_refines {s : St} (k : Nat) (op : FOp) (h : Inv s) (hc : NoHangCfg s) (hok : (abs s).okOp op) :
    ∃ s' k', stepF noFaults s k op = .ok s' k' ((abs s).step op).2 ∧ Inv s' ∧ NoHangCfg s' ∧
      abs s' = ((abs s).step op).1 := by
  cases op with
  | seek p =>
    obtain ⟨hi, hpos, hlog, hcs, hau, hmx⟩ := seekStart_spec p h
    refine ⟨seekStart s p, k, rfl, hi, hc.transfer hcs hau (fun _ => hmx), ?_⟩
    simp only [abs, Flat.step, hlog, hpos, logical_length]
  | seekEnd =>
    obtain ⟨hi, hpos, hlog, hcs, hau, hmx⟩ := seekEnd0_spec h
    refine ⟨seekEnd0 s, k, rfl, hi, hc.transfer hcs hau (fun _ => hmx), ?_⟩
    simp only [abs, Flat.step, hlog, hpos, logical_length]
  | write bs =>
    obtain ⟨s', k', hw⟩ := writeAll_ok k bs h hc
    have hs := writeAll_spec noFaults k bs h
    rw [hw] at hs
    obtain ⟨hi, hlog, hpos, hcs, hau, hmx⟩ := hs
    refine ⟨s', k', ?_, hi, hc.transfer hcs hau hmx, ?_⟩
    · simp only [stepF, hw, Out.bind, Flat.step]
    · simp only [abs, Flat.step, hlog, hpos]
  | read n =>
    have hn : s.pos + n ≤ s.end_ := by
      have := hok
      simp only [Flat.okOp, abs, logical_length] at this
      exact this
    obtain ⟨s', k', bs, hr⟩ := readExact_ok k n h hc hn
    have hs := readExact_spec noFaults k n h hn
    rw [hr] at hs
    obtain ⟨hi, hbs, hlog, hpos, _, hcs, hau, hmx⟩ := hs
    refine ⟨s', k', ?_, hi, hc.transfer hcs hau hmx, ?_⟩
    · simp only [stepF, hr, Flat.step, abs, hbs]
    · simp only [abs, Flat.step, hlog, hpos]
  | flush =>
    have hokf := flush_noFaults_ok k h
    obtain ⟨hi, hsame, _, _, _⟩ := flush_spec noFaults k h
    refine ⟨(flush noFaults s k).1, (flush noFaults s k).2.1, ?_, hi, hc.of_same hsame, ?_⟩
    · simp only [stepF, hokf, if_true, Flat.step]
    · rw [abs_of_same hsame]; rfl

/-- every history refines the flat file -/
theorem run_refines_flat (ops : List FOp) : ∀ {s : St} (k : Nat), Inv s → NoHangCfg s → (abs s).okRun ops →
    ∃ s' k', runF noFaults s k ops = .ok s' k' ((abs s).run ops).2 ∧ Inv s' ∧ NoHangCfg s' ∧
      abs s' = ((abs s).run ops).1 := by
  induction ops with
  | nil =>
    intro s k h hc _
    exact ⟨s, k, rfl, h, hc, rfl⟩
  | cons op ops ih =>
    intro s k h hc hok
    obtain ⟨hok1, hok2⟩ := hok
    obtain ⟨s1, k1, hstep, hi1, hc1, habs1⟩ := stepF_refines k op h hc hok1
    rw [← habs1] at hok2
    obtain ⟨s2, k2, hrun, hi2, hc2, habs2⟩ := ih k1 hi1 hc1 hok2
    refine ⟨s2, k2, ?_, hi2, hc2, ?_⟩
    · simp only [runF, hstep, Out.bind, hrun, Flat.run, habs1]
    · simp only [Flat.run, ← habs1, habs2]

/-- **C07, buffer transparency**: two buffers over the same file content — any chunk sizes, any
capacities among those that cannot hang — answer every history alike and end with the same logical
content -/
theorem C07_buffer_transparent {s1 s2 : St} (k1 k2 : Nat) (ops : List FOp) (h1 : Inv s1) (h2 : Inv s2)
    (c1 : NoHangCfg s1) (c2 : NoHangCfg s2) (hsame : abs s1 = abs s2) (hok : (abs s1).okRun ops) :
    ∃ a ka b kb outs, runF noFaults s1 k1 ops = .ok a ka outs ∧ runF noFaults s2 k2 ops = .ok b kb outs ∧
      abs a = abs b := by
  obtain ⟨a, ka, ha, _, _, haa⟩ := run_refines_flat ops k1 h1 c1 hok
  obtain ⟨b, kb, hb, _, _, hbb⟩ := run_refines_flat ops k2 h2 c2 (hsame ▸ hok)
  refine ⟨a, ka, b, kb, _, ha, ?_, ?_⟩
  · rw [hb, hsame]
  · rw [haa, hbb, hsame]

/-- the three ways the crate builds its buffers, over the same file -/
theorem C07_repo_configs (disk : List Nat) (n p : Nat) (hp : 1000 ≤ p) :
    let a := withCapacity 131072 (max (n / 131072) 2) disk      -- `Size(n)` (after fix D5)
    let b := withPerMille 131072 p disk                         -- `PerMille(p)`, p ≥ 1000
    let c := new disk                                           -- `Auto`
    Inv a ∧ Inv b ∧ Inv c ∧ NoHangCfg a ∧ NoHangCfg b ∧ NoHangCfg c ∧
    abs a = ⟨disk, 0⟩ ∧ abs b = ⟨disk, 0⟩ ∧ abs c = ⟨disk, 0⟩ := by
  intro a b c
  refine ⟨withCapacity_inv _ _ _ (by omega), withPerMille_inv _ _ _ (by omega),
    withPerMille_inv _ _ _ (by omega), ?_, ?_, ?_, ?_, ?_, ?_⟩
  · show 2 ≤ max (n / 131072) 2
    omega
  · show (131072 ≤ 32768 ∨ 1000 ≤ p)
    exact Or.inr hp
  · show (4096 ≤ 32768 ∨ 1000 ≤ 20)
    exact Or.inl (by omega)
  · show abs (withCapacity _ _ _) = _
    simp only [abs, withCapacity_logical]; rfl
  · show abs (withPerMille _ _ _) = _
    simp only [abs, withPerMille_logical]; rfl
  · show abs (withPerMille _ _ _) = _
    simp only [abs, withPerMille_logical]; rfl

/-- **C03 at chunk level**: after any history, a flush that returns `Ok` has made the disk equal to
the logical content -/
theorem C03_chunk_durable (φ : Faults) {s : St} (k : Nat) (h : Inv s) (hok : (flush φ s k).2.2 = true) :
    (flush φ s k).1.disk = s.logical ∧ abs (flush φ s k).1 = abs s := by
  obtain ⟨_, hsame, _, _, hd⟩ := flush_spec φ k h
  exact ⟨(hd hok).1, abs_of_same hsame⟩

/-- **C16 at chunk level**: under any fault schedule a flush keeps the logical content; it returns
`Ok` only if no attempted write was refused; and a later flush without refusals makes everything
durable -/
theorem C16_chunk_faults (φ : Faults) {s : St} (k : Nat) (h : Inv s) :
    let r := flush φ s k
    Inv r.1 ∧ abs r.1 = abs s ∧
    (r.2.2 = true → ∀ j, k ≤ j → j < r.2.1 → φ.fails j = false) ∧
    (flush noFaults r.1 r.2.1).2.2 = true ∧ (flush noFaults r.1 r.2.1).1.disk = s.logical := by
  intro r
  obtain ⟨hi, hsame, _, _, _⟩ := flush_spec φ k h
  have hok2 := flush_noFaults_ok r.2.1 hi
  obtain ⟨_, _, _, _, hd⟩ := flush_spec noFaults r.2.1 hi
  refine ⟨hi, abs_of_same hsame, fun hok => flush_ok_counter φ k h hok, hok2, ?_⟩
  rw [(hd hok2).1]
  exact hsame.logical

/-- an eviction whose write-back is refused inside a buffered write: the call returns `Err`, a
prefix of the data is in the buffer, nothing else changed, the state is regular (so the caller can
go on) -/
theorem C16_chunk_write_error (φ : Faults) {s : St} (k : Nat) (bs : List Nat) (h : Inv s) :
    ∀ s' k', writeAll φ s k bs = .err s' k' →
      Inv s' ∧ ∃ j, j < bs.length ∧ abs s' = ⟨splice s.logical s.pos (bs.take j), s.pos + j⟩ := by
  intro s' k' hw
  have hs := writeAll_spec φ k bs h
  rw [hw] at hs
  obtain ⟨hi, j, hj, hlog, hpos, _⟩ := hs
  exact ⟨hi, j, hj, by simp only [abs, hlog, hpos]⟩

/-- a flush-and-evict on a state whose only resident chunk is the clean offset-0 chunk changes
nothing and attempts no write -/
theorem clear_single_clean (s : St) (c : Chunk) (hch : s.chunks = [c]) (hoff : c.off = 0)
    (hd : c.dirty = false) (k : Nat) : clear noFaults s k = (s, k, true) := by
  obtain ⟨disk, pos, end_, cs, max, auto, chunks⟩ := s
  obtain ⟨o, data, dirty⟩ := c
  simp only at hch hoff hd
  subst hch hoff hd
  simp [clear, flush, flushOffs, sortOffs, insertOff, findChunk, chunkWrite, setChunk]

/-- the loop `add_chunk → remove_chunks → add_chunk` never leaves a state with capacity one whose
only resident chunk is the clean offset-0 chunk and whose capacity is not re-derived upwards -/
theorem addChunk_stuck (s : St) (c : Chunk) (hch : s.chunks = [c]) (hoff : c.off = 0)
    (hd : c.dirty = false) (hmax : s.max = 1) (hsetup : setupAutoBufSize s = s) (k off : Nat) :
    ∀ fuel, addChunk noFaults fuel s k off = .hang s k := by
  intro fuel
  induction fuel with
  | zero => rfl
  | succ n ih =>
    rw [addChunk]
    simp only [hch, hmax, List.length_singleton, beq_self_eq_true, if_true, hsetup, Nat.lt_irrefl,
      if_false, clear_single_clean s c hch hoff hd k, ih]

/-- the very first fetch (offset 0) on a fresh buffer of capacity one over a file that holds at
least one whole chunk: the chunk is loaded, clean, and is the only resident one -/
theorem fetch_first (s : St) (hch : s.chunks = []) (hmax : s.max = 1)
    (hend : s.end_ = s.disk.length) (hlen : s.cs ≤ s.disk.length) (k : Nat) :
    ∃ c, fetch noFaults s k 0 = .ok { s with chunks := [c] } k c ∧ c.off = 0 ∧ c.dirty = false := by
  have hload : loadChunk s 0 =
      some ⟨0, (s.disk.drop 0).take s.cs ++ zeros (s.cs - s.cs), false⟩ := by
    unfold loadChunk
    rw [if_neg (by omega)]
    simp only [hend, Nat.sub_zero, Nat.min_eq_left hlen]
    rw [if_neg (by omega)]
  refine ⟨⟨0, (s.disk.drop 0).take s.cs ++ zeros (s.cs - s.cs), false⟩, ?_, rfl, rfl⟩
  simp only [fetch, chunkStart, Nat.zero_div, Nat.zero_mul, hch, findChunk, List.find?_nil, fetchFuel]
  rw [addChunk]
  simp only [hch, hmax, List.length_nil]
  simp only [show ((0 : Nat) == 1) = false from rfl, Bool.false_eq_true, if_false, hch, hload,
    List.nil_append]
  rw [if_pos (by rw [hmax]; exact Nat.zero_lt_one), hmax]

/-- **the hang** (known finding `C07:permille-hang`, and defect D5 before its fix): with
`PerMille(p)`, `p < 1000`, 128 KiB chunks, once the offset-0 chunk (the header) is resident, the
chunk at 128 KiB can never be fetched while `(len / 1000) * p < 131072 ≤ len` — for every amount of
fuel the model is still recursing -/
theorem C07_permille_hang (disk : List Nat) (p : Nat) (hp : p < 1000) (hlen : 131072 ≤ disk.length)
    (hwin : disk.length / 1000 * p < 131072) :
    ∃ s1 k1 c, fetch noFaults (withPerMille 131072 p disk) 0 0 = .ok s1 k1 c ∧
      ∀ fuel, ∃ s' k', addChunk noFaults fuel s1 k1 131072 = .hang s' k' := by
  have hbs : bufferSize p disk.length / 131072 = 0 := by
    apply Nat.div_eq_of_lt
    unfold bufferSize
    generalize disk.length / 1000 * p = v at hwin
    split
    · omega
    · simp only [ge_iff_le, show ¬ 1000 ≤ p from by omega, if_false]
      split <;> omega
  have hmax : (withPerMille 131072 p disk).max = 1 := by
    simp only [withPerMille, hbs]
  obtain ⟨c, hf, hoff, hd⟩ := fetch_first (withPerMille 131072 p disk) rfl hmax rfl hlen 0
  refine ⟨_, _, _, hf, fun fuel => ⟨_, _, addChunk_stuck { withPerMille 131072 p disk with chunks := [c] } c rfl hoff hd hmax ?_ 0 131072 fuel⟩⟩
  simp only [setupAutoBufSize, withPerMille, hbs, List.length_singleton, gt_iff_lt, Nat.lt_irrefl,
    if_false]

/-- the same with `with_capacity(.., 1)` — what `Size(n)`, `n < 256 KiB`, produced before fix D5 -/
theorem C07_capacity_one_hang (cs : Nat) (disk : List Nat) (hcs : 0 < cs) (hlen : cs ≤ disk.length) :
    ∃ s1 k1 c, fetch noFaults (withCapacity cs 1 disk) 0 0 = .ok s1 k1 c ∧
      ∀ fuel, ∃ s' k', addChunk noFaults fuel s1 k1 cs = .hang s' k' := by
  have _ := hcs
  obtain ⟨c, hf, hoff, hd⟩ := fetch_first (withCapacity cs 1 disk) rfl rfl rfl hlen 0
  exact ⟨_, _, _, hf, fun fuel => ⟨_, _, addChunk_stuck { withCapacity cs 1 disk with chunks := [c] } c rfl hoff hd rfl rfl 0 cs fuel⟩⟩

/-- `Ok` outcome as (disk, result) -/
def Out.view {α : Type} : Out α → Option (List Nat × α)
  | .ok s _ a => some (s.disk, a)
  | _ => none

/-- non-vacuity: a two-chunk cache of 4-byte chunks over a 6-byte file, evicting on the way -/
example :
    (runF noFaults (withCapacity 4 2 [1, 2, 3, 4, 5, 6]) 0
      [.seek 5, .write [9, 9, 9, 9, 9], .seek 0, .read 3, .seek 8, .read 2, .flush]).view =
    some ([1, 2, 3, 4, 5, 9, 9, 9, 9, 9], [[], [], [], [1, 2, 3], [], [9, 9], []]) := by
  decide

end Abyss.RaBuf
