import Abyss.Props.C03Snapshot
import Abyss.Props.RaBufMap
/-!
# C03 / C16 end to end over the chunk-level buffer model

Store history → rendered image in the three buffered files (`RaBuf.MapRb`, real chunking, capacity
and eviction) → flush / sync under any schedule of refused writes → the bytes on disk → the
independent reader. The one link that is observed rather than proved is the hypothesis that the
buffers' logical contents are the rendered image of the current state (facet `bytes` of the tie
compares exactly that, after every update).
-/
namespace Abyss
open Store

theorem C03_snapshot_opens_rb (kt : KeyType) (n : Nat) (hn : 0 < n) (hn2 : n < 2^60) (ops : List Op)
    (hops : ∀ op ∈ ops, Op.OK kt op ∧ op.Small) (s : Store) (outs : List Out)
    (hrun : (Store.init n).run kt ops = some (s, outs)) (hk : s.kf.end_ < 2^32) (hv : s.vf.end_ < 2^32)
    (φ : RaBuf.Faults) (m : RaBuf.MapRb) (k : Nat) (hm : m.OK)
    (hview : m.view = ((render kt s).val, (render kt s).key, (render kt s).htx))
    (hok : (m.flushLike φ k).2.2 = true)
    (more : List Op) (hmore : ∀ op ∈ more, Op.OK kt op) :
    let m' := (m.flushLike φ k).1
    ∃ t, parse kt ⟨m'.htx.disk, m'.key.disk, m'.val.disk⟩ = some t ∧
      Inv kt t ∧ abs t = abs s ∧
      ∃ s' t' outs', s.run kt more = some (s', outs') ∧ t.run kt more = some (t', outs') := by
  intro m'
  obtain ⟨dv, dk, dh, hvw, _⟩ := RaBuf.C03_map_durable φ m k hm hok
  have e : m'.view = ((render kt s).val, (render kt s).key, (render kt s).htx) := hvw.trans hview
  simp only [RaBuf.MapRb.view, Prod.mk.injEq] at e
  obtain ⟨e1, e2, e3⟩ := e
  have himg : (⟨m'.htx.disk, m'.key.disk, m'.val.disk⟩ : Image) = render kt s := by
    unfold RaBuf.Durable at dv dk dh
    show (⟨_, _, _⟩ : Image) = _
    rw [dh, dk, dv, e1, e2, e3]
  rw [himg]
  exact C02_reopen kt n hn hn2 ops hops s outs hrun hk hv more hmore

/-- and after a failed call, the next call without refusals leaves exactly the rendered image on
disk -/
theorem C16_recovered_image_rb (kt : KeyType) (s : Store) (φ : RaBuf.Faults) (m : RaBuf.MapRb) (k : Nat) (hm : m.OK)
    (hview : m.view = ((render kt s).val, (render kt s).key, (render kt s).htx)) :
    let r := (m.flushLike φ k).1.flushLike RaBuf.noFaults (m.flushLike φ k).2.1
    r.2.2 = true ∧ (⟨r.1.htx.disk, r.1.key.disk, r.1.val.disk⟩ : Image) = render kt s := by
  intro r
  obtain ⟨_, _, _, hr⟩ := RaBuf.C16_map_faults φ m k hm
  obtain ⟨hok, dv, dk, dh, hvw⟩ := hr
  have e := hvw.trans hview
  simp only [RaBuf.MapRb.view, Prod.mk.injEq] at e
  obtain ⟨e1, e2, e3⟩ := e
  refine ⟨hok, ?_⟩
  unfold RaBuf.Durable at dv dk dh
  show (⟨_, _, _⟩ : Image) = _
  rw [dh, dk, dv, e1, e2, e3]

end Abyss
