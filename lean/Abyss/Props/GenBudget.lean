import Abyss.Props.C01Budget
import Abyss.Props.GenCorollaries3
/-!
# The end-to-end corollaries for the translated code, hypotheses on the history only

`GenCorollaries`, `GenCorollaries2` and `GenCorollaries3` state C02, C05, C06, C07, C15, C17 and C18
about the engine generated from the Rust source under the hypothesis `FilesSmall` (every
intermediate *model* state keeps both record files below 4 GiB). `C01Budget` derives `FilesSmall`
from two inequalities about the history alone (`budgetK ops < 2^32`, `budgetV ops < 2^32`:
header + 4·(|k|+156) per `put` for the key file, header + |v|+138 per `put` for the value file).
Here each corollary is restated with that arithmetic hypothesis, so that no hypothesis mentions the
hand model any more: the statements quantify over the table size, the key type and every history
whose budget fits.  The budgets do not depend on the table size, and only `put`s cost anything.
-/
namespace Abyss
open Store RecFile

/-- the budgets of a concatenation -/
theorem budgetK_append_left (a b : List Op) : budgetK a ≤ budgetK (a ++ b) := budgetK_prefix (List.prefix_append a b)
theorem budgetV_append_left (a b : List Op) : budgetV a ≤ budgetV (a ++ b) := budgetV_prefix (List.prefix_append a b)

/-- read-only calls cost nothing -/
theorem Op.keyCost_of_readonly {op : Op} (h : op.isUpdate = false) : op.keyCost = 0 := by
  cases op <;> simp_all [Op.isUpdate, Op.keyCost]

theorem Op.valCost_of_readonly {op : Op} (h : op.isUpdate = false) : op.valCost = 0 := by
  cases op <;> simp_all [Op.isUpdate, Op.valCost]

/-- erasing the read-only calls leaves both budgets as they are -/
theorem budgetK_filter_isUpdate (ops : List Op) : budgetK (ops.filter Op.isUpdate) = budgetK ops := by
  unfold budgetK
  congr 1
  induction ops with
  | nil => rfl
  | cons op ops ih =>
    by_cases h : op.isUpdate = true
    · simp only [List.filter_cons, h, if_true, List.map_cons, List.sum_cons, ih]
    · have h' : op.isUpdate = false := by simpa using h
      simp only [List.filter_cons, h', Bool.false_eq_true, if_false, List.map_cons, List.sum_cons, ih,
        Op.keyCost_of_readonly h', Nat.zero_add]

theorem budgetV_filter_isUpdate (ops : List Op) : budgetV (ops.filter Op.isUpdate) = budgetV ops := by
  unfold budgetV
  congr 1
  induction ops with
  | nil => rfl
  | cons op ops ih =>
    by_cases h : op.isUpdate = true
    · simp only [List.filter_cons, h, if_true, List.map_cons, List.sum_cons, ih]
    · have h' : op.isUpdate = false := by simpa using h
      simp only [List.filter_cons, h', Bool.false_eq_true, if_false, List.map_cons, List.sum_cons, ih,
        Op.valCost_of_readonly h', Nat.zero_add]

/-- **C05 for the translated code, hypotheses on the history only.** -/
theorem C05_generated_structure_budget (kt : KeyType) (n : Nat) (hn : 0 < n) (hn2 : n < 2^60) (ops : List Op)
    (hops : ∀ op ∈ ops, Op.OK kt op ∧ op.Small) (hk : budgetK ops < 2^32) (hv : budgetV ops < 2^32) :
    ∃ d' t, genRun kt n (imageSt kt (Store.init n) 0 0 0) ops = some ((Spec.run [] ops).2, d') ∧
      parse kt ⟨d'.htx.bytes, d'.key.bytes, d'.val.bytes⟩ = some t ∧ Inv kt t ∧
      Spec.Equiv (abs t) (Spec.run [] ops).1 :=
  C05_generated_structure kt n hn hn2 ops hops (FilesSmall_of_budget kt n hn ops hops hk hv)

/-- **C02 for the translated code, hypotheses on the history only**: the budget of the whole
history (before and after the reopen) fits. -/
theorem C02_generated_reopen_budget (kt : KeyType) (n : Nat) (hn : 0 < n) (hn2 : n < 2^60) (ops more : List Op)
    (hops : ∀ op ∈ ops ++ more, Op.OK kt op ∧ op.Small)
    (hk : budgetK (ops ++ more) < 2^32) (hv : budgetV (ops ++ more) < 2^32) (p : Gen.HashBucketsParam) :
    ∃ d1 d2 d3, genRun kt n (imageSt kt (Store.init n) 0 0 0) ops = some ((Spec.run [] ops).2, d1) ∧
      Gen.openMap kt.sig p d1 = some (n, d2) ∧
      d2.htx.bytes = d1.htx.bytes ∧ d2.key.bytes = d1.key.bytes ∧ d2.val.bytes = d1.val.bytes ∧
      genRun kt n d2 more = some ((Spec.run (Spec.run [] ops).1 more).2, d3) :=
  C02_generated_reopen kt n hn hn2 ops more hops (FilesSmall_of_budget kt n hn (ops ++ more) hops hk hv) p

/-- **C18 for the translated code, hypotheses on the histories only**: since read-only calls cost
nothing, one budget — that of either history — serves both. -/
theorem C18_generated_same_updates_same_files_budget (kt : KeyType) (n : Nat) (hn : 0 < n) (hn2 : n < 2^60)
    (ops1 ops2 : List Op) (hsame : ops1.filter Op.isUpdate = ops2.filter Op.isUpdate)
    (hops1 : ∀ op ∈ ops1, Op.OK kt op ∧ op.Small) (hops2 : ∀ op ∈ ops2, Op.OK kt op ∧ op.Small)
    (hk : budgetK ops1 < 2^32) (hv : budgetV ops1 < 2^32) :
    ∃ d1' d2', genRun kt n (imageSt kt (Store.init n) 0 0 0) ops1 = some ((Spec.run [] ops1).2, d1') ∧
      genRun kt n (imageSt kt (Store.init n) 0 0 0) ops2 = some ((Spec.run [] ops2).2, d2') ∧
      d1'.htx.bytes = d2'.htx.bytes ∧ d1'.key.bytes = d2'.key.bytes ∧ d1'.val.bytes = d2'.val.bytes := by
  have hk2 : budgetK ops2 < 2^32 := by
    rw [← budgetK_filter_isUpdate ops2, ← hsame, budgetK_filter_isUpdate]; exact hk
  have hv2 : budgetV ops2 < 2^32 := by
    rw [← budgetV_filter_isUpdate ops2, ← hsame, budgetV_filter_isUpdate]; exact hv
  exact C18_generated_same_updates_same_files kt n hn hn2 ops1 ops2 hsame hops1
    (FilesSmall_of_budget kt n hn ops1 hops1 hk hv) hops2 (FilesSmall_of_budget kt n hn ops2 hops2 hk2 hv2)

/-- **C18, read-only erasure, for the translated code, hypotheses on the history only.** -/
theorem C18_generated_readonly_erasure_budget (kt : KeyType) (n : Nat) (hn : 0 < n) (hn2 : n < 2^60)
    (ops : List Op) (hops : ∀ op ∈ ops, Op.OK kt op ∧ op.Small)
    (hk : budgetK ops < 2^32) (hv : budgetV ops < 2^32) :
    ∃ d1' d2', genRun kt n (imageSt kt (Store.init n) 0 0 0) ops = some ((Spec.run [] ops).2, d1') ∧
      genRun kt n (imageSt kt (Store.init n) 0 0 0) (ops.filter Op.isUpdate) =
        some ((Spec.run [] (ops.filter Op.isUpdate)).2, d2') ∧
      d1'.htx.bytes = d2'.htx.bytes ∧ d1'.key.bytes = d2'.key.bytes ∧ d1'.val.bytes = d2'.val.bytes :=
  C18_generated_readonly_erasure kt n hn hn2 ops hops (FilesSmall_of_budget kt n hn ops hops hk hv)

/-- **C07 for the translated code, hypotheses on the history only**: the budgets do not mention the
table size, so one pair of inequalities covers both maps. -/
theorem C07_generated_bucket_independent_budget (kt : KeyType) (n m : Nat) (hn : 0 < n) (hn2 : n < 2^60)
    (hm : 0 < m) (hm2 : m < 2^60) (ops : List Op) (hops : ∀ op ∈ ops, Op.OK kt op ∧ op.Small)
    (hk : budgetK ops < 2^32) (hv : budgetV ops < 2^32) :
    ∃ outs dn dm, genRun kt n (imageSt kt (Store.init n) 0 0 0) ops = some (outs, dn) ∧
      genRun kt m (imageSt kt (Store.init m) 0 0 0) ops = some (outs, dm) ∧
      outs = (Spec.run [] ops).2 :=
  C07_generated_bucket_independent kt n m hn hn2 hm hm2 ops hops
    (FilesSmall_of_budget kt n hn ops hops hk hv) (FilesSmall_of_budget kt m hm ops hops hk hv)

/-- **C06 (file lengths) for the translated code, hypotheses on the history only.** -/
theorem C06_generated_file_length_bounded_budget (kt : KeyType) (n : Nat) (hn : 0 < n) (hn2 : n < 2^60)
    (ops : List Op) (hops : ∀ op ∈ ops, Op.OK kt op ∧ op.Small)
    (hk : budgetK ops < 2^32) (hv : budgetV ops < 2^32) (outs : List Out) (d' : DbSt)
    (hgen : genRun kt n (imageSt kt (Store.init n) 0 0 0) ops = some (outs, d')) :
    ∃ s', (Store.init n).run kt ops = some (s', outs) ∧ d'.IsImage kt s' ∧
      ∀ (ksizes vsizes : List Nat), ksizes.Nodup → vsizes.Nodup →
        (∀ p ∈ s'.kf.slots, p.2.size ∈ ksizes) → (∀ p ∈ s'.vf.slots, p.2.size ∈ vsizes) →
        d'.key.bytes.length ≤ keyCfg.headerSz + Spec.peak [] ops * ksizes.sum ∧
        d'.val.bytes.length ≤ valCfg.headerSz + Spec.peak [] ops * vsizes.sum :=
  C06_generated_file_length_bounded kt n hn hn2 ops hops (FilesSmall_of_budget kt n hn ops hops hk hv) outs d' hgen

/-- **C15 for the translated code, hypotheses on the history only**: after any history whose budget
fits, any read-only session — of any length: it costs nothing — changes no byte. -/
theorem C15_generated_session_after_budget (kt : KeyType) (n : Nat) (hn : 0 < n) (hn2 : n < 2^60) (ops ro : List Op)
    (hops : ∀ op ∈ ops, Op.OK kt op ∧ op.Small) (hk : budgetK ops < 2^32) (hv : budgetV ops < 2^32)
    (hro1 : ∀ op ∈ ro, Op.OK kt op ∧ op.Small) (hro : ∀ op ∈ ro, op.isUpdate = false) :
    ∃ d1 outs d2, genRun kt n (imageSt kt (Store.init n) 0 0 0) ops = some ((Spec.run [] ops).2, d1) ∧
      genRun kt n d1 ro = some (outs, d2) ∧
      d2.htx.bytes = d1.htx.bytes ∧ d2.key.bytes = d1.key.bytes ∧ d2.val.bytes = d1.val.bytes :=
  C15_generated_session_after kt n hn hn2 ops ro hops (FilesSmall_of_budget kt n hn ops hops hk hv) hro1 hro

/-- non-vacuity: the example history of `C01Budget` meets the hypotheses shared by all of the above -/
example : (∀ op ∈ budgetExample, Op.OK .bytes op ∧ op.Small) ∧
    budgetK budgetExample < 2^32 ∧ budgetV budgetExample < 2^32 := budgetExample_ok

end Abyss
