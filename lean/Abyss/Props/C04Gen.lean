import Abyss.Lemmas.EngineIter
import Abyss.Props.C04
/-!
# C04 for the code as translated: a full traversal with the generated iterator

`Gen.iterNew`, `Gen.iterNextPieceOffset`, `Gen.iterNext` are regenerated from `DbXxxIterMut` (dbxxx.rs) and
`next_key_piece_offset` (htx.rs) on every run. Run on the bytes of a reachable map they yield exactly
the items, size hints and final state of the model's traversal `Store.iterAll`, which `C04_iter`
characterises (a permutation of the entries, each key once, `len` items, hints `len … 0`, exhausted
afterwards) — and they leave the bytes alone (C15 for iteration).
-/
namespace Abyss
open Store

/-- run the generated iterator to exhaustion: items, the size hint before every call, final state -/
def genIterCollect : Nat → (Nat × Nat × Nat × Nat) → DbSt →
    Option (List (List Nat × List Nat) × List Nat × (Nat × Nat × Nat × Nat) × DbSt)
  | 0, _, _ => none
  | fuel+1, st, d =>
    match Gen.iterNext st d with
    | none => none
    | some ((none, st'), d') => some ([], [st.1], st', d')
    | some ((some kv, st'), d') =>
      match genIterCollect fuel st' d' with
      | none => none
      | some (kvs, hints, e, d'') => some (kv :: kvs, st.1 :: hints, e, d'')

theorem iterNextOffset_bucketsSize {s : Store} {it it' : IterState} {r : Option Nat}
    (h : s.iterNextOffset it = some (it', r)) : it'.bucketsSize = it.bucketsSize := by
  unfold Store.iterNextOffset at h
  simp only at h
  repeat' split at h
  all_goals (cases h; try rfl)

theorem iterNext_bucketsSize {s : Store} {it it' : IterState} {r : Option (List Nat × List Nat)}
    (h : s.iterNext it = some (it', r)) : it'.bucketsSize = it.bucketsSize := by
  unfold Store.iterNext at h
  split at h
  · exact absurd h (by simp)
  · rename_i it2 ho
    simp only [Option.some.injEq, Prod.mk.injEq] at h
    rw [← h.1]; exact iterNextOffset_bucketsSize ho
  · rename_i it2 off ho
    split at h
    · split at h
      · simp only [Option.some.injEq, Prod.mk.injEq] at h
        rw [← h.1]; exact iterNextOffset_bucketsSize ho
      · exact absurd h (by simp)
    · exact absurd h (by simp)

theorem genIterCollect_refines {kt : KeyType} {s : Store} (g : Store.Regular kt s)
    (hlen : Gen.htxInitLen s.n ≤ s.htxEnd) : ∀ (fuel : Nat) (it : IterState) (_ : it.bucketsSize = s.n)
    {kvs : List (List Nat × List Nat)} {hints : List Nat} {itEnd : IterState}
    (_ : s.iterCollect fuel it = some (kvs, hints, itEnd)) {d : DbSt} (_ : d.IsImage kt s),
    ∃ d', d'.IsImage kt s ∧ genIterCollect fuel it.tup d = some (kvs, hints, itEnd.tup, d') := by
  intro fuel
  induction fuel with
  | zero => intro it _ kvs hints itEnd hm; simp [Store.iterCollect] at hm
  | succ fuel ih =>
    intro it hn kvs hints itEnd hm d hd
    unfold Store.iterCollect at hm
    cases hnx : s.iterNext it with
    | none => rw [hnx] at hm; simp at hm
    | some p =>
      obtain ⟨it', r⟩ := p
      rw [hnx] at hm
      obtain ⟨d1, hd1, hg⟩ := iterNext_bytes g hlen it hn hnx hd
      have hn' : it'.bucketsSize = s.n := (iterNext_bucketsSize hnx).trans hn
      cases r with
      | none =>
        simp only [Option.some.injEq, Prod.mk.injEq] at hm
        obtain ⟨rfl, rfl, rfl⟩ := hm
        refine ⟨d1, hd1, ?_⟩
        unfold genIterCollect
        rw [hg]; rfl
      | some kv =>
        simp only at hm
        cases hrec : s.iterCollect fuel it' with
        | none => rw [hrec] at hm; simp at hm
        | some q =>
          obtain ⟨kvs', hints', e⟩ := q
          rw [hrec] at hm
          simp only [Option.some.injEq, Prod.mk.injEq] at hm
          obtain ⟨rfl, rfl, rfl⟩ := hm
          obtain ⟨d2, hd2, hg2⟩ := ih it' hn' hrec hd1
          refine ⟨d2, hd2, ?_⟩
          unfold genIterCollect
          rw [hg]; simp only; rw [hg2]; rfl

/-- **C04 for the translated iterator** -/
theorem C04_generated_iter {kt : KeyType} {s : Store} (g : Store.Regular kt s)
    (hlen : Gen.htxInitLen s.n ≤ s.htxEnd) {kvs : List (List Nat × List Nat)} {hints : List Nat}
    {itEnd : IterState} (hm : s.iterAll = some (kvs, hints, itEnd)) {d : DbSt} (hd : d.IsImage kt s) :
    ∃ d0 d', Gen.iterNew d = some (s.iterNew.tup, d0) ∧
      genIterCollect (s.count + 2) s.iterNew.tup d0 = some (kvs, hints, itEnd.tup, d') ∧ d'.IsImage kt s := by
  obtain ⟨d0, hd0, h0⟩ := iterNew_bytes g hd
  obtain ⟨d', hd', h1⟩ := genIterCollect_refines g hlen (s.count + 2) s.iterNew rfl hm hd0
  exact ⟨d0, d', h0, h1, hd'⟩

end Abyss
