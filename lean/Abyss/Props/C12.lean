import Abyss.Props.C02
/-!
# C12 — released files stay readable (format and hash stability)

(a) The *regenerated* constants, tables and mixing function equal the literals of the released
format written out below: changing a header offset, a signature, a size class, the default table
size or a shift constant in the Rust source changes `Abyss/Gen/*.lean` and breaks these proofs.
(b) Placement is a function of the key bytes and the table size only.
(c) What is written follows the documented layout and is recoverable by a reader that knows only
the layout (`parse_render`, Props/C02).  The golden images written by the pinned release are
compared byte for byte with `render` of the model on every run (scenario `golden`; a test).
-/
namespace Abyss

theorem C12_signatures :
    Gen.htxSig1 = [97, 98, 121, 115, 100, 98, 72, 0] ∧   -- "abysdbH\0"
    Gen.keySig1 = [97, 98, 121, 115, 100, 98, 75, 0] ∧   -- "abysdbK\0"
    Gen.valSig1 = [97, 98, 121, 115, 100, 98, 86, 0] ∧   -- "abysdbV\0"
    Gen.sigString = [115, 116, 114, 105, 110, 103, 0, 0] ∧  -- "string\0\0"
    Gen.sigBytes = [98, 121, 116, 101, 115, 0, 0, 0] ∧     -- "bytes\0\0\0"
    Gen.sigU64 = [117, 54, 52, 95, 108, 101, 0, 0] ∧       -- "u64_le\0\0"
    Gen.sigI64 = [105, 54, 52, 95, 108, 101, 0, 0] ∧       -- "i64_le\0\0"
    Gen.sigVu64 = [117, 54, 52, 95, 108, 101, 0, 0] := by
  decide

theorem C12_header_layout :
    Gen.htxHeaderSz = 128 ∧ Gen.keyHeaderSz = 192 ∧ Gen.valHeaderSz = 192 ∧
    Gen.htxHtSizeOffset = 16 ∧ Gen.htxItemCountOffset = 24 ∧
    Gen.keyFreeOffset1st = 48 ∧ Gen.valFreeOffset1st = 32 ∧
    Gen.keyFreeOffsets = (List.range 16).map (fun i => 48 + 8 * i) ∧
    Gen.valFreeOffsets = (List.range 16).map (fun i => 32 + 8 * i) ∧
    Gen.defaultHtSize = 16 * 1024 * 1024 := by
  decide

theorem C12_size_classes :
    Gen.keySizeAry = [16, 24, 32, 48, 64, 80, 96, 112, 128, 256, 384, 512, 640, 768, 896, 1024] ∧
    Gen.valSizeAry = [16, 24, 32, 48, 64, 80, 96, 112, 128, 256, 384, 512, 640, 768, 896, 1024] := by
  decide

/-- the mixing function of the placement hash is the released one (shifts 12, 25, 27) -/
theorem C12_xorshift (a : Nat) :
    Gen.xorshift64s a =
      (let x1 := a ^^^ (a >>> 12)
       let x2 := x1 ^^^ ((x1 <<< 25) % 2^64)
       x2 ^^^ (x2 >>> 27)) := by
  rfl

/-- sizes and record offsets are stored divided by 8; lengths as they are; free links and bucket
entries as 8 little-endian bytes (the layout `render` writes — compared with the real files and
with the golden images byte for byte on every run) -/
theorem C12_record_layout (sz : Nat) (r : KeyRec) (v : List Nat) (nx : Nat) :
    keyContent sz r = Vu64.encode (sz / 8) ++ Vu64.encode r.key.length ++ r.key ++
      Vu64.encode (r.valOff / 8) ++ Vu64.encode (r.next / 8) ∧
    valContent sz v = Vu64.encode (sz / 8) ++ Vu64.encode v.length ++ v ∧
    freeContent sz nx = Vu64.encode (sz / 8) ++ [0] ++ Vu64.leBytes nx 8 := by
  exact ⟨rfl, rfl, rfl⟩

private theorem foldl_congr_mem {α β : Type} (f g : β → α → β) (l : List α)
    (hfg : ∀ x ∈ l, ∀ acc, f acc x = g acc x) (a : β) : l.foldl f a = l.foldl g a := by
  induction l generalizing a with
  | nil => rfl
  | cons x xs ih =>
    simp only [List.foldl_cons]
    rw [hfg x (by simp)]
    exact ih (fun y hy => hfg y (by simp [hy])) _

private theorem orFold_eq (c : List Nat) : ∀ (a j : Nat), a < 256 ^ j → j + c.length ≤ 8 →
    (∀ b ∈ c, b < 256) →
    c.foldl (fun a b => ((a <<< 8) % 2^64) ||| b) a = c.foldl (fun a b => a * 256 + b) a := by
  induction c with
  | nil => intros; rfl
  | cons x xs ih =>
    intro a j ha hj hb
    simp only [List.foldl_cons]
    have hx : x < 256 := hb x (by simp)
    simp only [List.length_cons] at hj
    have h1 : a * 256 + x < 256 ^ (j + 1) := by
      rw [Nat.pow_succ]
      have : (a + 1) * 256 ≤ 256 ^ j * 256 := Nat.mul_le_mul_right _ ha
      omega
    have h2 : 256 ^ (j + 1) ≤ 256 ^ 8 := Nat.pow_le_pow_right (by decide) (by omega)
    have h3 : (256:Nat) ^ 8 = 2 ^ 64 := by simp
    have h4 : a <<< 8 < 2 ^ 64 := by
      rw [Nat.shiftLeft_eq, ← h3]
      have h6 : a * 256 < 256 ^ (j + 1) := Nat.lt_of_le_of_lt (Nat.le_add_right _ _) h1
      exact Nat.lt_of_lt_of_le h6 h2
    have h5 : ((a <<< 8) % 2^64) ||| x = a * 256 + x := by
      rw [Nat.mod_eq_of_lt h4, ← Nat.shiftLeft_add_eq_or_of_lt (by omega), Nat.shiftLeft_eq]
    rw [h5]
    exact ih _ (j + 1) h1 (by omega) (fun b hb' => hb b (by simp [hb']))

private theorem mem_chunksOf {k : Nat} {l c : List Nat} (hc : c ∈ Gen.chunksOf k l) :
    c.length ≤ k ∧ ∀ b ∈ c, b ∈ l := by
  unfold Gen.chunksOf at hc
  rw [List.mem_map] at hc
  obtain ⟨i, _, rfl⟩ := hc
  refine ⟨?_, fun b hb => List.mem_of_mem_drop (List.mem_of_mem_take hb)⟩
  rw [List.length_take]; omega

/-- the released placement hash, written out: fold the chunks of 8 bytes, each read big-endian
(a shorter last chunk likewise), through `h := xorshift64s ((h + chunk) mod 2^64)` -/
def releasedHashWrite (h : Nat) (bytes : List Nat) : Nat :=
  (Gen.chunksOf 8 bytes).foldl (fun h c => Gen.xorshift64s ((h + Gen.beVal c) % 2^64)) h

/-- the regenerated `MyHasher::write` is the released one (for byte values) -/
theorem C12_hash_frozen (h : Nat) (bytes : List Nat) (hb : ∀ b ∈ bytes, b < 256) :
    Gen.hasherWrite h bytes = releasedHashWrite h bytes := by
  unfold Gen.hasherWrite releasedHashWrite
  apply foldl_congr_mem
  intro c hc acc
  obtain ⟨hlen, hmem⟩ := mem_chunksOf hc
  by_cases h8 : c.length = 8
  · simp [h8]
  · simp only [h8, decide_false, Bool.false_eq_true, if_false]
    have := orFold_eq c 0 0 (by decide) (by omega) (fun b hb' => hb b (hmem b hb'))
    rw [this]; rfl

/-- placement depends only on the key bytes and the table size: the bucket is the hash of the
length prefix (8 LE bytes) followed by the key, modulo `n` -/
theorem C12_placement (key : List Nat) (n : Nat) :
    bucketOf key n = Gen.hasherWrite (Gen.hasherWrite 0 (Vu64.leBytes key.length 8)) key % n := by
  rfl

/-- and every live key sits in the chain of exactly that bucket (from the invariant) -/
theorem C12_placed {kt : KeyType} {s : Store} (h : Store.Inv kt s) (o sz : Nat) (r : KeyRec)
    (hu : s.kf.used o = some (sz, r)) :
    ∃ l, s.chain (bucketOf r.key s.n) = some l ∧ (o, r) ∈ l := by
  exact h.on_chain o sz r hu (Store.used_ne_zero h hu)

/-- what is written now is readable by a reader that knows only the documented layout -/
theorem C12_readable {kt : KeyType} {s : Store} (h : Store.Inv kt s) (hr : Store.Renderable kt s) :
    ∃ t, parse kt (render kt s) = some t ∧ t.Same s := parse_render h hr

end Abyss
