import Abyss.DbSync
import Abyss.Props.C03
/-!
# C03 at database level: `FileDb::sync_all` / `sync_data` cover every open map of every key type
-/
namespace Abyss.Buf

theorem dbSync_nil (kind : SyncKind) : dbSync kind [] = ([], true) := rfl

theorem dbSync_cons (kind : SyncKind) (n : String) (m : MapBuf) (φ : Faults)
    (rest : List (String × MapBuf × Faults)) :
    dbSync kind ((n, m, φ) :: rest) =
      if (m.flushLike φ kind).2.1 then
        ((n, (m.flushLike φ kind).1, φ) :: (dbSync kind rest).1, (dbSync kind rest).2)
      else ((n, (m.flushLike φ kind).1, φ) :: rest, false) := by
  simp only [dbSync]

/-- if the database-level call returns Ok, every open map is durable (disk = memory for its three
files) and its buffers satisfy the invariant again -/
theorem C03_db_level (kind : SyncKind) (maps : List (String × MapBuf × Faults))
    (hok : ∀ e ∈ maps, e.2.1.OK) (hret : (dbSync kind maps).2 = true) :
    (dbSync kind maps).1.length = maps.length ∧
    ∀ e ∈ (dbSync kind maps).1, e.2.1.Durable ∧ e.2.1.OK := by
  induction maps with
  | nil => simp [dbSync_nil]
  | cons x rest ih =>
    obtain ⟨n, m, φ⟩ := x
    rw [dbSync_cons] at hret ⊢
    by_cases h : (m.flushLike φ kind).2.1 = true
    · simp only [h, if_true] at hret ⊢
      obtain ⟨ih1, ih2⟩ := ih (fun e he => hok e (List.mem_cons_of_mem _ he)) hret
      refine ⟨by simp [ih1], ?_⟩
      intro e he
      rcases List.mem_cons.1 he with rfl | he
      · exact C03_durable φ kind m (hok _ List.mem_cons_self) h
      · exact ih2 e he
    · simp [h] at hret

/-- the names (the set of maps) are unchanged, and no map's memory view changes — whether the
call succeeds or fails -/
theorem C03_db_memory (kind : SyncKind) (maps : List (String × MapBuf × Faults)) :
    (dbSync kind maps).1.map (·.1) = maps.map (·.1) ∧
    (dbSync kind maps).1.map (fun e => (e.2.1.val.mem, e.2.1.key.mem, e.2.1.htx.mem)) =
      maps.map (fun e => (e.2.1.val.mem, e.2.1.key.mem, e.2.1.htx.mem)) := by
  induction maps with
  | nil => simp [dbSync_nil]
  | cons x rest ih =>
    obtain ⟨n, m, φ⟩ := x
    obtain ⟨a1, a2, a3⟩ := C16_memory_intact φ kind m
    rw [dbSync_cons]
    by_cases h : (m.flushLike φ kind).2.1 = true
    · simp only [h, if_true, List.map_cons, ih.1, ih.2, a1, a2, a3, and_self]
    · simp [h]
      exact ⟨a1, a2, a3⟩

/-- a failure of any map's flush is reported by the database-level call -/
theorem C16_db_reported (kind : SyncKind) (maps : List (String × MapBuf × Faults))
    (hfail : ∃ e ∈ maps, (e.2.1.flushLike e.2.2 kind).2.1 = false) :
    -- (an earlier map may fail first; in every case the call does not return Ok)
    (dbSync kind maps).2 = false := by
  induction maps with
  | nil => obtain ⟨e, he, _⟩ := hfail; simp at he
  | cons x rest ih =>
    obtain ⟨n, m, φ⟩ := x
    rw [dbSync_cons]
    by_cases h : (m.flushLike φ kind).2.1 = true
    · simp only [h, if_true]
      obtain ⟨e, he, hf⟩ := hfail
      rcases List.mem_cons.1 he with rfl | he
      · simp [h] at hf
      · exact ih ⟨e, he, hf⟩
    · simp [h]

end Abyss.Buf
