import Abyss.Props.C01
/-!
# C10 — typed integer and string keys are faithful

`u64Key`/`i64Key`/`vu64Key` model `From<u64> for DbU64`, `From<i64> for DbI64`, `From<u64> for
DbVu64` (8 little-endian bytes, two's complement, vu64 encoding); `u64OfKey` etc. the conversions
back. By-value and by-reference conversions are the same function in the model; that they agree
in the Rust code is checked by the tie (scenario `keys`).
-/
namespace Abyss
open Store

theorem C10_u64_roundtrip (x : Nat) (h : x < 2^64) : u64OfKey (u64Key x) = x := u64_roundtrip x h
theorem C10_i64_roundtrip (x : Int) (h1 : -2^63 ≤ x) (h2 : x < 2^63) : i64OfKey (i64Key x) = x :=
  i64_roundtrip x h1 h2
theorem C10_vu64_roundtrip (x : Nat) (h : x < 2^64) : vu64OfKey (vu64Key x) = some x := vu64_roundtrip x h

/-- two integers address the same entry exactly when they are equal: the conversions are
injective and the stored-key comparison decides equality -/
theorem C10_u64_same_iff (a b : Nat) (ha : a < 2^64) (hb : b < 2^64) :
    cmpKey .u64 (u64Key a) (u64Key b) = some (decide (a = b)) := by
  rw [cmpKey_bytes .u64 (by decide)]
  congr 1
  exact decide_eq_decide.mpr ⟨u64Key_inj a b ha hb, fun h => h ▸ rfl⟩

theorem C10_i64_same_iff (a b : Int) (ha1 : -2^63 ≤ a) (ha2 : a < 2^63) (hb1 : -2^63 ≤ b) (hb2 : b < 2^63) :
    cmpKey .i64 (i64Key a) (i64Key b) = some (decide (a = b)) := by
  rw [cmpKey_bytes .i64 (by decide)]
  congr 1
  exact decide_eq_decide.mpr ⟨i64Key_inj a b ha1 ha2 hb1 hb2, fun h => h ▸ rfl⟩

theorem C10_vu64_same_iff (a b : Nat) (ha : a < 2^64) (hb : b < 2^64) :
    cmpKey .vu64 (vu64Key a) (vu64Key b) = some (decide (a = b)) := cmpKey_vu64 a b ha hb

/-- for string and byte keys two keys are the same exactly when their bytes are equal (prefixes,
embedded NULs, non-UTF-8 bytes are just bytes) -/
theorem C10_bytes_same_iff (kt : KeyType) (hk : kt = .string ∨ kt = .bytes) (a b : List Nat) :
    cmpKey kt a b = some (decide (a = b)) := by
  rcases hk with rfl | rfl <;> exact cmpKey_bytes _ (by decide) a b

/-- keys produced by the integer conversions are admissible keys of their map type, so every
theorem about `Store` (C01, C04: the keys a traversal yields are the stored bytes) applies, and
those bytes convert back to the integers that were put (round-trip theorems above) -/
theorem C10_keys_admissible (x : Nat) (h : x < 2^64) :
    KeyOK .vu64 (vu64Key x) ∧ KeyOK .u64 (u64Key x) ∧ ∀ y : Int, KeyOK .i64 (i64Key y) := by
  refine ⟨fun _ => ⟨x, h, rfl⟩, ?_, ?_⟩
  · intro hh; cases hh
  · intro y hh; cases hh

/-- a typed map behaves like an ideal map keyed by the integer: histories over `u64` keys -/
theorem C10_typed_history (n : Nat) (hn : 0 < n) (ops : List Op)
    (hops : ∀ op ∈ ops, Op.OK .vu64 op) :
    ∃ s', (Store.init n).run .vu64 ops = some (s', (Spec.run Spec.empty ops).2) :=
  let ⟨s', h, _⟩ := C01_history .vu64 n hn ops hops
  ⟨s', h⟩

end Abyss
