import Abyss.Render
import Abyss.Lemmas.Vu64L
/-!
# C09 — any key or value length fits its slot

The theorems are stated over the *generated* sizing code (`Gen.valueEncodedPieceSize`,
`Gen.keyEncodedPieceSize`, `Gen.roundup`, the size tables) and the hand model of the record
layout (`valContent`, `keyContent`, `freeContent`).  `len < 2^31` is the guard of the `as u32`
arithmetic of the Rust code (the property's own bound is 2^24).
-/
namespace Abyss

/-- a slot size the allocator can produce: a multiple of 8, at least 16, below 2^32. -/
def LegalSize (s : Nat) : Prop := 8 ∣ s ∧ 16 ≤ s ∧ s < 2^32

/-- the slot requested for a value is legal -/
theorem C09_valueNeed_legal (len : Nat) (h : len < 2^31) : LegalSize (valueNeed len) := by sorry

/-- a value of any length fits the slot requested for it -/
theorem C09_value_fits (v : List Nat) (h : v.length < 2^31) :
    (valContent (valueNeed v.length) v).length ≤ valueNeed v.length := by sorry

/-- the slot requested for a key record is legal -/
theorem C09_keyNeed_legal (r : KeyRec) (hk : r.key.length < 2^31) (hv : r.valOff < 2^63)
    (hn : r.next < 2^63) : LegalSize (keyNeed r) := by sorry

/-- a key record of any key length and any offsets fits the slot requested for it -/
theorem C09_key_fits (r : KeyRec) (hk : r.key.length < 2^31) (hv : r.valOff < 2^63)
    (hn : r.next < 2^63) :
    (keyContent (keyNeed r) r).length ≤ keyNeed r := by sorry

/-- rewriting in place, or into a larger slot popped from the free list: the record fits any
legal slot that is at least as large as the requested one (the size field can then be longer) -/
theorem C09_value_fits_larger (v : List Nat) (h : v.length < 2^31) (S : Nat) (hS : LegalSize S)
    (hle : valueNeed v.length ≤ S) : (valContent S v).length ≤ S := by sorry

theorem C09_key_fits_larger (r : KeyRec) (hk : r.key.length < 2^31) (hv : r.valOff < 2^63)
    (hn : r.next < 2^63) (S : Nat) (hS : LegalSize S) (hle : keyNeed r ≤ S) :
    (keyContent S r).length ≤ S := by sorry

/-- a free-slot record fits every legal slot -/
theorem C09_free_fits (S nx : Nat) (hS : LegalSize S) : (freeContent S nx).length ≤ S := by sorry

/-- a rendered slot has exactly its size, so the next slot starts where this one ends -/
theorem C09_renderValSlot_length (S : Nat) (v : List Nat) (h : v.length < 2^31) (hS : LegalSize S)
    (hle : valueNeed v.length ≤ S) : (renderValSlot (.used S v)).length = S := by sorry

theorem C09_renderKeySlot_length (S : Nat) (r : KeyRec) (hk : r.key.length < 2^31)
    (hv : r.valOff < 2^63) (hn : r.next < 2^63) (hS : LegalSize S) (hle : keyNeed r ≤ S) :
    (renderKeySlot (.used S r)).length = S := by sorry

/-- non-vacuity: the hypotheses are met by concrete records on class edges -/
example : valueNeed 14 = 16 ∧ valueNeed 15 = 24 ∧ valueNeed 1021 = 1024 ∧ valueNeed 1022 = 1152 := by
  sorry

end Abyss
