import Abyss.Render
import Abyss.Lemmas.Vu64L
import Abyss.Lemmas.SizesL
/-!
# C09 — any key or value length fits its slot

The theorems are stated over the *generated* sizing code (`Gen.valueEncodedPieceSize`,
`Gen.keyEncodedPieceSize`, `Gen.roundup`, the size tables) and the hand model of the record
layout (`valContent`, `keyContent`, `freeContent`).  `len < 2^31` is the guard of the `as u32`
arithmetic of the Rust code (the property's own bound is 2^24).
-/
namespace Abyss
open Vu64 Sizes

/-- a slot size the allocator can produce: a multiple of 8, at least 16, below 2^32. -/
def LegalSize (s : Nat) : Prop := 8 ∣ s ∧ 16 ≤ s ∧ s < 2^32

/-- the slot requested for a value is legal -/
theorem C09_valueNeed_legal (len : Nat) (h : len < 2^31) : LegalSize (valueNeed len) := by
  rw [valueNeed_eq len (by omega)]
  have hs := roundup_val_spec (encodedLen ((valPl len + 7) / 8) + valPl len)
  have h1 := encodedLen_le_nine ((valPl len + 7) / 8)
  have h2 := encodedLen_le_nine len
  unfold LegalSize valPl at *
  omega

/-- the record fits any legal slot that has room for the estimated size (value) -/
private theorem value_fits_of_le (v : List Nat) (h : v.length < 2^31) (S : Nat)
    (hS : LegalSize S) (hle : valueNeed v.length ≤ S) : (valContent S v).length ≤ S := by
  rw [valContent_length]
  rw [valueNeed_eq v.length (by omega)] at hle
  have hs := roundup_val_spec (encodedLen ((valPl v.length + 7) / 8) + valPl v.length)
  exact fits_arith (valPl v.length) S hS.1 hS.2.2 (by omega)

/-- a value of any length fits the slot requested for it -/
theorem C09_value_fits (v : List Nat) (h : v.length < 2^31) :
    (valContent (valueNeed v.length) v).length ≤ valueNeed v.length :=
  value_fits_of_le v h _ (C09_valueNeed_legal v.length h) (Nat.le_refl _)

-- `hv`, `hn` are not needed: the bounds hold for arbitrary offsets (`encodedLen _ ≤ 9`)
set_option linter.unusedVariables false in
/-- the slot requested for a key record is legal -/
theorem C09_keyNeed_legal (r : KeyRec) (hk : r.key.length < 2^31) (hv : r.valOff < 2^63)
    (hn : r.next < 2^63) : LegalSize (keyNeed r) := by
  rw [keyNeed_eq r (by omega)]
  have hs := roundup_key_spec (encodedLen ((keyPlEst r + 7) / 8) + keyPlEst r)
  have h1 := encodedLen_le_nine ((keyPlEst r + 7) / 8)
  have h2 := encodedLen_le_nine r.key.length
  have h3 := encodedLen_le_nine r.valOff
  have h4 := encodedLen_le_nine r.next
  unfold LegalSize keyPlEst at *
  omega

/-- the record fits any legal slot that has room for the estimated size (key) -/
private theorem key_fits_of_le (r : KeyRec) (hk : r.key.length < 2^31) (S : Nat)
    (hS : LegalSize S) (hle : keyNeed r ≤ S) : (keyContent S r).length ≤ S := by
  rw [keyContent_length]
  rw [keyNeed_eq r (by omega)] at hle
  have hs := roundup_key_spec (encodedLen ((keyPlEst r + 7) / 8) + keyPlEst r)
  have hpl := keyPl_le_est r
  have hmono : encodedLen ((keyPl r + 7) / 8) ≤ encodedLen ((keyPlEst r + 7) / 8) :=
    encodedLen_mono (Nat.div_le_div_right (by omega))
  exact fits_arith (keyPl r) S hS.1 hS.2.2 (by omega)

/-- a key record of any key length and any offsets fits the slot requested for it -/
theorem C09_key_fits (r : KeyRec) (hk : r.key.length < 2^31) (hv : r.valOff < 2^63)
    (hn : r.next < 2^63) :
    (keyContent (keyNeed r) r).length ≤ keyNeed r :=
  key_fits_of_le r hk _ (C09_keyNeed_legal r hk hv hn) (Nat.le_refl _)

/-- rewriting in place, or into a larger slot popped from the free list: the record fits any
legal slot that is at least as large as the requested one (the size field can then be longer) -/
theorem C09_value_fits_larger (v : List Nat) (h : v.length < 2^31) (S : Nat) (hS : LegalSize S)
    (hle : valueNeed v.length ≤ S) : (valContent S v).length ≤ S :=
  value_fits_of_le v h S hS hle

-- `hv`, `hn` are not needed here either
set_option linter.unusedVariables false in
theorem C09_key_fits_larger (r : KeyRec) (hk : r.key.length < 2^31) (hv : r.valOff < 2^63)
    (hn : r.next < 2^63) (S : Nat) (hS : LegalSize S) (hle : keyNeed r ≤ S) :
    (keyContent S r).length ≤ S :=
  key_fits_of_le r hk S hS hle

/-- a free-slot record fits every legal slot -/
theorem C09_free_fits (S nx : Nat) (hS : LegalSize S) : (freeContent S nx).length ≤ S := by
  rw [freeContent_length]
  have h5 : encodedLen (S / 8) ≤ 5 := encodedLen_le_five (by have := hS.2.2; omega)
  have := hS.2.1
  omega

/-- a rendered slot has exactly its size, so the next slot starts where this one ends -/
theorem C09_renderValSlot_length (S : Nat) (v : List Nat) (h : v.length < 2^31) (hS : LegalSize S)
    (hle : valueNeed v.length ≤ S) : (renderValSlot (.used S v)).length = S := by
  show (padTo S (valContent S v)).length = S
  exact padTo_length (C09_value_fits_larger v h S hS hle)

theorem C09_renderKeySlot_length (S : Nat) (r : KeyRec) (hk : r.key.length < 2^31)
    (hv : r.valOff < 2^63) (hn : r.next < 2^63) (hS : LegalSize S) (hle : keyNeed r ≤ S) :
    (renderKeySlot (.used S r)).length = S := by
  show (padTo S (keyContent S r)).length = S
  exact padTo_length (C09_key_fits_larger r hk hv hn S hS hle)

/-- the free-slot rendering has exactly its size too (not asked for, same argument) -/
theorem C09_renderFreeSlot_length (S nx : Nat) (hS : LegalSize S) :
    (renderValSlot (.free S nx)).length = S ∧ (renderKeySlot (.free S nx)).length = S :=
  ⟨padTo_length (C09_free_fits S nx hS), padTo_length (C09_free_fits S nx hS)⟩

/- non-vacuity, AS ORIGINALLY STATED — **FALSE**, kept for the record:

example : valueNeed 14 = 16 ∧ valueNeed 15 = 24 ∧ valueNeed 1021 = 1024 ∧ valueNeed 1022 = 1152

Counterexample (third conjunct): `#eval valueNeed 1021` = 1152, not 1024.
`Gen.valueEncodedPieceSize 1021 = (2, 1023, 1021)`, so the request is 2 + 1023 = 1025 > 1024.
The class edge is two bytes lower: `valueNeed 1019 = 1024` (request 2 + 1021 = 1023) and
`valueNeed 1020 = 1152` (request 2 + 1022 = 1024).  Note that a request of *exactly* 1024 is
rounded to 1152, not 1024: `roundup` searches only the first 15 table entries (≤ 896) and then
computes `((x + 128) / 128) * 128`, which is the next multiple of 128 *strictly above* `x`
(`Gen.roundup valCfg.sizeAry 1024 = 1152`, `Gen.roundup valCfg.sizeAry 1023 = 1024`). -/

/-- the false conjunct of the original example, refuted -/
example : valueNeed 1021 ≠ 1024 := by decide

/-- non-vacuity (CORRECTED variant): the hypotheses are met by concrete records on class edges -/
example : valueNeed 14 = 16 ∧ valueNeed 15 = 24 ∧ valueNeed 1019 = 1024 ∧ valueNeed 1020 = 1152
    ∧ valueNeed 1021 = 1152 ∧ valueNeed 1022 = 1152 := by
  decide

end Abyss
