import Abyss.Lemmas.PutL
import Abyss.Lemmas.DelL
/-!
# C01 — every call history behaves like an ideal in-memory byte-string map

`Store.step`/`Store.run` (Abyss/Ops.lean) is the executable model of the API calls
put / get / delete / includes_key / len / is_empty on one map; `Spec` is the ideal map.
A result `none` of the model stands for "the real code panics, hangs, or reads a slot of the
wrong kind": the theorems show it never occurs.  Quantifiers: every table size `n ≥ 1`, every
finite history, every key and value (byte strings of any length; for `DbVu64` maps keys are the
canonical encodings the `From<u64>` conversions produce), every key type.
-/
namespace Abyss
open Store

/-- one call: same answer as the ideal map, invariant kept, abstraction follows the ideal map -/
theorem step_refines {kt : KeyType} {s : Store} (h : Inv kt s) (op : Op) (hop : Op.OK kt op) :
    ∃ s', s.step kt op = some (s', (Spec.step (abs s) op).2) ∧ Inv kt s' ∧ s'.n = s.n ∧
      Spec.Equiv (abs s') (Spec.step (abs s) op).1 := by
  have hnd := abs_nodup h
  cases op with
  | put k v =>
    obtain ⟨s', h1, h2, h3, h4⟩ := put_spec h k v hop
    exact ⟨s', by simp [Store.step, h1, Spec.step], h2, h3, by simpa [Spec.step] using h4⟩
  | get k =>
    refine ⟨s, ?_, h, rfl, ?_⟩
    · simp [Store.step, get_spec h k hop, Spec.step]
    · simpa [Spec.step] using Spec.Equiv.refl _ hnd
  | del k =>
    obtain ⟨s', h1, h2, h3, h4⟩ := del_spec h k hop
    exact ⟨s', by simp [Store.step, h1, Spec.step], h2, h3, by simpa [Spec.step] using h4⟩
  | includes k =>
    refine ⟨s, ?_, h, rfl, ?_⟩
    · simp [Store.step, includes_spec h k hop, Spec.step]
    · simpa [Spec.step] using Spec.Equiv.refl _ hnd
  | len =>
    refine ⟨s, ?_, h, rfl, ?_⟩
    · simp [Store.step, Spec.step, Store.len, abs_len h]
    · simpa [Spec.step] using Spec.Equiv.refl _ hnd
  | isEmpty =>
    refine ⟨s, ?_, h, rfl, ?_⟩
    · have hl : Spec.len (abs s) = s.count := abs_len h
      simp only [Store.step, Spec.step, Store.len, Spec.isEmpty, hl]
      congr
    · simpa [Spec.step] using Spec.Equiv.refl _ hnd

/-- a whole history from any state satisfying the invariant, against any ideal map equivalent
to its abstraction -/
theorem run_refines {kt : KeyType} (ops : List Op) :
    ∀ {s : Store} (_ : Inv kt s) (_ : ∀ op ∈ ops, Op.OK kt op) (m : Spec.Map) (_ : Spec.Equiv (abs s) m),
    ∃ s', s.run kt ops = some (s', (Spec.run m ops).2) ∧ Inv kt s' ∧ s'.n = s.n ∧
      Spec.Equiv (abs s') (Spec.run m ops).1 := by
  induction ops with
  | nil =>
    intro s h _ m hm
    exact ⟨s, by simp [Store.run, Spec.run], h, rfl, by simpa [Spec.run] using hm⟩
  | cons op ops ih =>
    intro s h hops m hm
    obtain ⟨s1, h1, hi1, hn1, he1⟩ := step_refines h op (hops op (List.mem_cons_self))
    obtain ⟨hout, hst⟩ := Spec.Equiv.step hm op
    have he1' : Spec.Equiv (abs s1) (Spec.step m op).1 := Spec.Equiv.trans he1 hst
    obtain ⟨s2, h2, hi2, hn2, he2⟩ :=
      ih hi1 (fun o ho => hops o (List.mem_cons_of_mem _ ho)) (Spec.step m op).1 he1'
    refine ⟨s2, ?_, hi2, by omega, ?_⟩
    · simp only [Store.run, h1, h2, Spec.run]
      rw [hout]
    · simpa [Spec.run] using he2

/-- **C01.** For every table size, every key type and every finite history of admissible calls
on a freshly created map: no call fails (no panic, no hang, no error), and the results are exactly
those of the ideal in-memory map. -/
theorem C01_history (kt : KeyType) (n : Nat) (hn : 0 < n) (ops : List Op)
    (hops : ∀ op ∈ ops, Op.OK kt op) :
    ∃ s', (Store.init n).run kt ops = some (s', (Spec.run Spec.empty ops).2) ∧ Inv kt s' := by
  obtain ⟨hinv, habs⟩ := init_inv kt n hn
  have he : Spec.Equiv (abs (Store.init n)) Spec.empty := by
    rw [habs]; exact Spec.Equiv.refl _ Spec.nodup_empty
  obtain ⟨s', h1, h2, _, _⟩ := run_refines ops hinv hops Spec.empty he
  exact ⟨s', h1, h2⟩

/-- the statement in the property's own words: `get` returns the last value put unless deleted
since, `delete` returns the value it removed, `len` counts the distinct live keys — these are
the defining equations of the ideal map. -/
theorem C01_spec_laws (m : Spec.Map) (k k' v : List Nat) (hne : k' ≠ k) :
    Spec.get (Spec.put m k v) k = some v ∧ Spec.get (Spec.put m k v) k' = Spec.get m k' ∧
    Spec.get (Spec.del m k) k = none ∧ Spec.get (Spec.del m k) k' = Spec.get m k' :=
  ⟨Spec.get_put_self m k v, Spec.get_put_ne m k k' v hne, Spec.get_del_self m k, Spec.get_del_ne m k k' hne⟩

/-- non-vacuity: a concrete history with overwrite, delete of a colliding key and re-insert runs
through on a one-bucket table -/
example : ((Store.init 1).run .bytes
    [.put [1] [10], .put [2] [20, 21], .put [1] (List.replicate 40 7), .del [2], .get [1], .len]).isSome = true := by
  decide

end Abyss
