import Abyss.Props.C15
/-!
# C18 — the on-disk image is a deterministic function of the update history

`render kt s` is a total function of the state, and the state after a history is a function of
the operations alone: the model has no other input (no process, path, time, or hash seed).
Read-only calls can be erased from a history without changing the resulting state, hence without
changing a single byte.  That the code has no hidden input either is what the tie observes
(scenario `determ`: two runs in different processes and directories, files compared).
-/
namespace Abyss
open Store

/-- erasing the read-only calls of a history does not change the final state -/
theorem C18_readonly_erasure (kt : KeyType) (ops : List Op) :
    ∀ (s s' : Store) (outs : List Out), s.run kt ops = some (s', outs) →
      ∃ outs', s.run kt (ops.filter Op.isUpdate) = some (s', outs') := by
  induction ops with
  | nil =>
    intro s s' outs h
    exact ⟨outs, by simpa using h⟩
  | cons op ops ih =>
    intro s s' outs h
    simp only [Store.run] at h
    cases hs : s.step kt op with
    | none => simp [hs] at h
    | some p =>
      obtain ⟨s1, o⟩ := p
      simp only [hs] at h
      cases hr : Store.run kt s1 ops with
      | none => simp [hr] at h
      | some q =>
        obtain ⟨s2, os⟩ := q
        simp only [hr, Option.some.injEq, Prod.mk.injEq] at h
        obtain ⟨outs', ho⟩ := ih s1 s2 os hr
        cases hu : op.isUpdate with
        | false =>
          have h1 : s1 = s := C15_store_frame kt s s1 op o hu hs
          refine ⟨outs', ?_⟩
          rw [List.filter_cons_of_neg (by simp [hu]), ← h.1, ← h1]
          exact ho
        | true =>
          refine ⟨o :: outs', ?_⟩
          rw [List.filter_cons_of_pos hu]
          simp only [Store.run, hs, ho, h.1]

/-- hence two histories with the same updates, run from the same creation parameters, produce
byte-identical files -/
theorem C18_same_updates_same_files (kt : KeyType) (n : Nat) (ops1 ops2 : List Op)
    (hsame : ops1.filter Op.isUpdate = ops2.filter Op.isUpdate)
    (s1 s2 : Store) (o1 o2 : List Out)
    (h1 : (Store.init n).run kt ops1 = some (s1, o1)) (h2 : (Store.init n).run kt ops2 = some (s2, o2)) :
    render kt s1 = render kt s2 := by
  obtain ⟨o1', e1⟩ := C18_readonly_erasure kt ops1 _ _ _ h1
  obtain ⟨o2', e2⟩ := C18_readonly_erasure kt ops2 _ _ _ h2
  rw [hsame, e2] at e1
  have := congrArg Prod.fst (Option.some.inj e1)
  simp only at this
  rw [this]

end Abyss
