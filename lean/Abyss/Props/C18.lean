import Abyss.Props.C15
/-!
# C18 — the on-disk image is a deterministic function of the update history

`render kt s` is a total function of the state, and the state after a history is a function of
the operations alone: the model has no other input (no process, path, time, or hash seed).
Read-only calls can be erased from a history without changing the resulting state, hence without
changing a single byte.  That the code has no hidden input either is what the tie observes
(scenario `determ`: two runs in different processes and directories, files compared).
-/
namespace Abyss
open Store

/-- erasing the read-only calls of a history does not change the final state -/
theorem C18_readonly_erasure (kt : KeyType) (ops : List Op) :
    ∀ (s s' : Store) (outs : List Out), s.run kt ops = some (s', outs) →
      ∃ outs', s.run kt (ops.filter Op.isUpdate) = some (s', outs') := by
  sorry

/-- hence two histories with the same updates, run from the same creation parameters, produce
byte-identical files -/
theorem C18_same_updates_same_files (kt : KeyType) (n : Nat) (ops1 ops2 : List Op)
    (hsame : ops1.filter Op.isUpdate = ops2.filter Op.isUpdate)
    (s1 s2 : Store) (o1 o2 : List Out)
    (h1 : (Store.init n).run kt ops1 = some (s1, o1)) (h2 : (Store.init n).run kt ops2 = some (s2, o2)) :
    render kt s1 = render kt s2 := by
  sorry

end Abyss
